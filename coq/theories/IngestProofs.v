(** Proofs about the model of the CMAF-ingest sender (theories/Ingest.v). *)
From Verif Require Import GoSem GoSemFacts Timeline TimelineProofs Ingest.
From Coq Require Import ZifyBool Floats.
Ltac Zify.zify_post_hook ::= Z.div_mod_to_equations.

(** * The rounding of calcSegmentAvailabilityTime *)

(** One 2.002 s segment at timescale 30000 (29.97 fps content). *)
Definition rep2002 : rep := {| segs := [ {| st := 0; en := 60060; snr := 0 |} ]; ts := 30000 |}.
Definition cfg0 : tcfg := {| startS := 0; startNr := 0; tsbdS := 60; ato := Some 0 |}.

(** 60060/30000*1000 is 2001.9999999999998 in binary64.  Before fix f4e8dbe the code truncated:
    2001 ms, where the segment server still answers "too early" (1 ms). *)
Lemma avail_truncation_witness :
  availMS_float_r RTrunc rep2002 2002 cfg0 0 = Ok 2001 /\
  availMS_exact rep2002 2002 cfg0 0 = Ok 2002 /\
  lookup rep2002 2002 cfg0 ByNumber 0 2001 = TTooEarly 1.
Proof. vm_compute. repeat split; reflexivity. Qed.

(** With math.Ceil the same segment is asked for at 2002 ms and served. *)
Lemma avail_ceil_witness :
  availMS_float rep2002 2002 cfg0 0 = Ok 2002 /\
  exists m, lookup rep2002 2002 cfg0 ByNumber 0 2002 = TOk m.
Proof. vm_compute. split; [reflexivity|eexists; reflexivity]. Qed.

(** The requested instant is on time: not before the segment is available, less than 1 ms after. *)
Definition on_time_b (rm : rounding) (E tsc atoMS : Z) : bool :=
  let a := availFloatMS_r rm E tsc atoMS in
  let av := E * 1000 - atoMS * tsc in
  (av <=? a * tsc) && (a * tsc <=? av + tsc).

(** All segment ends (n+1)*dur, n < N, of a constant-duration track that started at startS. *)
Definition grid_on_time (rm : rounding) (dur tsc startS atoMS : Z) (N : Z) : bool :=
  forallb (fun n => on_time_b rm ((n + 1) * dur + startS * tsc) tsc atoMS) (seqZ 0 (Z.to_nat N)).

Lemma forallb_seqZ (f : Z -> bool) : forall N s, forallb f (seqZ s N) = true ->
  forall n, s <= n < s + Z.of_nat N -> f n = true.
Proof.
  induction N as [|N IH]; intros s H n Hn; [lia|].
  cbn [seqZ forallb] in H. apply andb_prop in H. destruct H as [H0 H1].
  destruct (Z.eq_dec n s) as [->|Hne]; [exact H0|]. apply (IH (s + 1) H1). lia.
Qed.

(** The segment grids of the bundled assets' reference representations:
    (duration in ticks, timescale). *)
Definition bundled_grids : list (Z * Z) :=
  [ (180000, 90000); (540000, 90000); (360000, 90000); (122880, 15360); (60060, 30000); (25600, 12800) ].

Definition sweep (rm : rounding) (N : Z) : bool :=
  forallb (fun g => forallb (fun startS => forallb (fun atoMS =>
      grid_on_time rm (fst g) (snd g) startS atoMS N) [0; 1000; 1500]) [0; 1758000000]) bundled_grids.

Lemma sweep_ceil : sweep RCeil 2500 = true.
Proof. vm_cast_no_check (eq_refl true). Qed.

Lemma grid_on_time_spec rm dur tsc startS atoMS N :
  grid_on_time rm dur tsc startS atoMS N = true ->
  forall n, 0 <= n < N -> on_time_b rm ((n + 1) * dur + startS * tsc) tsc atoMS = true.
Proof.
  intros H n Hn. unfold grid_on_time in H. apply (forallb_seqZ _ _ _ H). rewrite Z2Nat.id by lia. lia.
Qed.

Lemma sweep_spec rm N : sweep rm N = true ->
  forall dur tsc startS atoMS, In (dur, tsc) bundled_grids -> In startS [0; 1758000000] -> In atoMS [0; 1000; 1500] ->
  grid_on_time rm dur tsc startS atoMS N = true.
Proof.
  intros H dur tsc startS atoMS Hg Hs Ha. unfold sweep in H. rewrite forallb_forall in H.
  specialize (H _ Hg). rewrite forallb_forall in H. specialize (H _ Hs).
  rewrite forallb_forall in H. specialize (H _ Ha). exact H.
Qed.

(** Bounded statement (the bound is part of it): on the grids of the bundled assets, for streams
    that started at the epoch or in September 2025, with an availability time offset of 0, 1
    or 1.5 s, the first 2500 availability times computed by the code are on time. *)
Theorem ceil_on_time_bounded : forall dur tsc startS atoMS n,
  In (dur, tsc) bundled_grids -> In startS [0; 1758000000] -> In atoMS [0; 1000; 1500] ->
  0 <= n < 2500 ->
  on_time_b RCeil ((n + 1) * dur + startS * tsc) tsc atoMS = true.
Proof.
  intros dur tsc startS atoMS n Hg Hs Ha Hn.
  exact (grid_on_time_spec RCeil dur tsc startS atoMS 2500
           (sweep_spec RCeil 2500 sweep_ceil dur tsc startS atoMS Hg Hs Ha) n Hn).
Qed.

(** The truncation fails the same sweep at once. *)
Lemma sweep_trunc_fails : sweep RTrunc 1 = false.
Proof. vm_compute. reflexivity. Qed.

(** * The session: numbering of the attempts *)

(** A group of attempts made by one call of sendMediaSegments for number [nr]: exactly one attempt per
    representation, in representation order, all for that number, that instant and that lmsg flag. *)
Definition group_wf (cf : scfg) (nr : Z) (g : list mput) : Prop :=
  map mp_rep g = repIdxs cf /\ Forall (fun m => mp_nr m = nr) g.

Fixpoint numbered (cf : scfg) (n : Z) (gs : list (list mput)) : Prop :=
  match gs with
  | [] => True
  | g :: gs' => group_wf cf n g /\ numbered cf (n + 1) gs'
  end.

Lemma numbered_app cf a : forall n b,
  numbered cf n (a ++ b) <-> numbered cf n a /\ numbered cf (n + lenZ a) b.
Proof.
  induction a as [|g a IH]; intros n b; cbn [app numbered].
  - rewrite lenZ_nil, Z.add_0_r. tauto.
  - rewrite lenZ_cons, IH. replace (n + 1 + lenZ a) with (n + (1 + lenZ a)) by lia. tauto.
Qed.

Lemma seqZ_S s n : seqZ s (Datatypes.S n) = s :: seqZ (s + 1) n.
Proof. reflexivity. Qed.

Lemma sendReps_shape cf nr now last : forall reps idx ref_ok g,
  sendReps cf idx reps nr now last ref_ok = Ok g ->
  map mp_rep g = seqZ idx (length reps) /\
  Forall (fun m => mp_nr m = nr /\ mp_now m = now /\ mp_last m = last) g.
Proof.
  induction reps as [|ir reps IH]; intros idx ref_ok g H; cbn [sendReps] in H.
  - inversion H; subst. split; [reflexivity|constructor].
  - cbn [length]. rewrite seqZ_S.
    destruct (sc_timeline cf).
    + destruct (match ir_kind ir with RAudio => if idx =? 0 then true else false | _ => true end).
      * destruct (ir_tab ir) as [t|].
        2:{ destruct (ir_kind ir); try discriminate. destruct (ref0tab cf); try discriminate.
            destruct (idx =? 0); try discriminate.
            match type of H with (do tl <- ?X ; _) = _ => destruct X as [tl| |] eqn:E; cbn [bind] in H; try discriminate end.
            inversion H; subst. apply IH in E. destruct E as [E1 E2]. cbn [map mp_rep]. rewrite E1.
            split; [reflexivity|constructor; [cbn; auto|exact E2]]. }
        match type of H with (do tl <- ?X ; _) = _ => destruct X as [tl| |] eqn:E; cbn [bind] in H; try discriminate end.
        inversion H; subst. apply IH in E. destruct E as [E1 E2]. cbn [map mp_rep]. rewrite E1.
        split; [reflexivity|constructor; [cbn; auto|exact E2]].
      * match type of H with (do tl <- ?X ; _) = _ => destruct X as [tl| |] eqn:E; cbn [bind] in H; try discriminate end.
        inversion H; subst. apply IH in E. destruct E as [E1 E2]. cbn [map mp_rep]. rewrite E1.
        split; [reflexivity|constructor; [cbn; auto|exact E2]].
    + match type of H with (do tl <- ?X ; _) = _ => destruct X as [tl| |] eqn:E; cbn [bind] in H; try discriminate end.
      inversion H; subst. apply IH in E. destruct E as [E1 E2]. cbn [map mp_rep]. rewrite E1.
      split; [reflexivity|constructor; [cbn; auto|exact E2]].
Qed.

Lemma sendMedia_wf cf nr now last g :
  sendMedia cf nr now last = Ok g ->
  group_wf cf nr g /\ Forall (fun m => mp_now m = now /\ mp_last m = last) g.
Proof.
  intros H. apply sendReps_shape in H. destruct H as [H1 H2]. split; [split|].
  - exact H1.
  - eapply Forall_impl; [|exact H2]. cbn. tauto.
  - eapply Forall_impl; [|exact H2]. cbn. tauto.
Qed.

(** Representations whose own table is consulted under $Time$ addressing have one
    (this excludes generated subtitles under $Time$ addressing: finding
    c16-timeline-with-generated-subtitles-nil). *)
Definition tabs_ok (cf : scfg) : Prop :=
  sc_timeline cf = true -> Forall (fun ir => ir_tab ir <> None) (sc_reps cf).

Lemma sendReps_ok cf nr now last : forall reps idx ref_ok,
  (sc_timeline cf = true -> Forall (fun ir => ir_tab ir <> None) reps) ->
  exists g, sendReps cf idx reps nr now last ref_ok = Ok g.
Proof.
  induction reps as [|ir reps IH]; intros idx ref_ok Ht; cbn [sendReps].
  - eauto.
  - destruct (sc_timeline cf) eqn:Etl.
    + specialize (Ht eq_refl). inversion Ht as [|? ? Hir Hrest]; subst.
      destruct (match ir_kind ir with RAudio => if idx =? 0 then true else false | _ => true end).
      * destruct (ir_tab ir) as [t|]; [|congruence].
        match goal with |- exists g, (do tl <- sendReps cf ?i reps nr now last ?r ; _) = _ =>
          destruct (IH i r (fun _ => Hrest)) as [tl ->] end. cbn [bind]. eauto.
      * destruct (IH (idx + 1) ref_ok (fun _ => Hrest)) as [tl ->]. cbn [bind]. eauto.
    + destruct (IH (idx + 1) ref_ok ltac:(discriminate)) as [tl ->]. cbn [bind]. eauto.
Qed.

Lemma sendMedia_ok cf nr now last : tabs_ok cf -> exists g, sendMedia cf nr now last = Ok g.
Proof. intros H. apply sendReps_ok. exact H. Qed.

(** ** State bookkeeping *)

Lemma phase_eq_running (p : phase) : p = PRunning \/ p <> PRunning.
Proof. destruct p; [left; reflexivity|right; discriminate..]. Qed.

Lemma advance_next cf st : nextNr (advance cf st) = nextNr st + 1.
Proof. unfold advance. destruct (sc_avail cf (u32 (nextNr st + 1))); reflexivity. Qed.
Lemma advance_last cf st : lastToSend (advance cf st) = lastToSend st.
Proof. unfold advance. destruct (sc_avail cf (u32 (nextNr st + 1))); reflexivity. Qed.
Lemma afterSend_next cf r g st : nextNr (afterSend cf r g st) = nextNr st.
Proof. unfold afterSend. destruct (negb (sc_chunked cf)); [reflexivity|]. repeat (destruct (existsb _ g); [reflexivity|]). reflexivity. Qed.
Lemma afterSend_last cf r g st : lastToSend (afterSend cf r g st) = lastToSend st.
Proof. unfold afterSend. destruct (negb (sc_chunked cf)); [reflexivity|]. repeat (destruct (existsb _ g); [reflexivity|]). reflexivity. Qed.
Lemma loopTop_next st : nextNr (loopTop st) = nextNr st.
Proof. unfold loopTop. destruct (ph st); try reflexivity. destruct (_ && _); reflexivity. Qed.
Lemma loopTop_last st : lastToSend (loopTop st) = lastToSend st.
Proof. unfold loopTop. destruct (ph st); try reflexivity. destruct (_ && _); reflexivity. Qed.
Lemma loopTop_running st : ph (loopTop st) = PRunning -> ph st = PRunning.
Proof.
  unfold loopTop. destruct (ph st) eqn:E; try (rewrite E; intros H; exact H); try reflexivity.
Qed.

Lemma catchup_numbered cf : forall clock st gs st',
  catchup cf clock st = (gs, st') ->
  numbered cf (nextNr st) gs /\ lastToSend st' = lastToSend st /\
  (ph st' = PRunning -> nextNr st' = nextNr st + lenZ gs).
Proof.
  induction clock as [|now clock IH]; intros st gs st' H; cbn [catchup] in H.
  - inversion H; subst. cbn [numbered]; rewrite ?lenZ_nil; intuition lia.
  - destruct (ph st) eqn:Eph; try (inversion H; subst; cbn [numbered]; rewrite ?lenZ_nil; intuition (try lia; congruence)).
    destruct (availT st - now <=? 0).
    + destruct (sc_catchup_checks cf && (0 <=? lastToSend st) && (lastToSend st <? nextNr st)).
      { inversion H; subst. cbn [numbered ph stopped lastToSend]. rewrite ?lenZ_nil. intuition discriminate. }
      destruct (sendMedia cf (nextNr st) (availT st) (sc_catchup_checks cf && (nextNr st =? lastToSend st))) as [g| |] eqn:Es.
      * destruct (catchup cf clock (afterSend cf [] g (advance cf st))) as [gs1 st1] eqn:Ec.
        inversion H; subst. apply IH in Ec. destruct Ec as (N1 & L1 & R1).
        rewrite afterSend_next, advance_next in N1, R1. rewrite afterSend_last, advance_last in L1.
        apply sendMedia_wf in Es. destruct Es as [Hw Hl].
        cbn [numbered]. rewrite lenZ_cons. split; [split; assumption|]. split; [assumption|].
        intros Hr. rewrite R1 by assumption. lia.
      * inversion H; subst. cbn [numbered ph stopped lastToSend]. rewrite ?lenZ_nil. intuition discriminate.
      * inversion H; subst. cbn [numbered ph crashed lastToSend]. rewrite ?lenZ_nil. intuition discriminate.
    + inversion H; subst. cbn [numbered]; rewrite ?lenZ_nil; intuition lia.
Qed.

Lemma fire_numbered cf fi st gs st' :
  fire cf fi st = (gs, st') ->
  numbered cf (nextNr st) gs /\ lastToSend st' = lastToSend st /\
  (ph st' = PRunning -> nextNr st' = nextNr st + lenZ gs).
Proof.
  unfold fire. intros H.
  destruct (sendMedia cf (nextNr st) (availT st) (nextNr st =? lastToSend st)) as [g| |] eqn:Es.
  - pose proof (sendMedia_wf _ _ _ _ _ Es) as [Hw _].
    destruct (ph (afterSend cf (fi_refuse fi) g st)) eqn:Ea.
    + destruct (sc_test cf).
      * inversion H; subst. cbn [numbered]. rewrite lenZ_cons, lenZ_nil, loopTop_next, loopTop_last, advance_next, advance_last.
        intuition lia.
      * destruct (catchup cf (fi_clock fi) (advance cf st)) as [gs1 st2] eqn:Ec. inversion H; subst.
        apply catchup_numbered in Ec. destruct Ec as (N1 & L1 & R1).
        rewrite advance_next in N1, R1. rewrite advance_last in L1.
        cbn [numbered]. rewrite lenZ_cons, loopTop_next, loopTop_last.
        split; [tauto|]. split; [assumption|].
        intros Hr. apply loopTop_running in Hr. rewrite R1 by assumption. lia.
    + inversion H; subst. cbn [numbered]. rewrite afterSend_last, Ea. intuition discriminate.
    + inversion H; subst. cbn [numbered]. rewrite afterSend_last, Ea. intuition discriminate.
    + inversion H; subst. cbn [numbered]. rewrite afterSend_last, Ea. intuition discriminate.
  - inversion H; subst. cbn [numbered ph stopped crashed lastToSend]. intuition discriminate.
  - inversion H; subst. cbn [numbered ph stopped crashed lastToSend]. intuition discriminate.
Qed.

Lemma step_numbered cf st ev gs st' :
  step cf st ev = (gs, st') ->
  numbered cf (nextNr st) gs /\ lastToSend st' = lastToSend st /\
  (ph st' = PRunning -> nextNr st' = nextNr st + lenZ gs /\ ph st = PRunning).
Proof.
  unfold step. intros H. destruct (ph st) eqn:Eph.
  - destruct ev as [fi|fi|].
    + apply fire_numbered in H. intuition.
    + apply fire_numbered in H. intuition.
    + inversion H; subst. cbn [numbered ph stopped lastToSend]. intuition discriminate.
  - inversion H; subst. cbn [numbered]. rewrite lenZ_nil. intuition (try lia; congruence).
  - inversion H; subst. cbn [numbered]. rewrite lenZ_nil. intuition (try lia; congruence).
  - inversion H; subst. cbn [numbered]. rewrite lenZ_nil. intuition (try lia; congruence).
Qed.

(** Nothing happens once the loop has left the running state. *)
Lemma run_dead cf : forall evs st, ph st <> PRunning -> run cf st evs = ([], st).
Proof.
  induction evs as [|ev evs IH]; intros st H; cbn [run]; [reflexivity|].
  unfold step. destruct (ph st) eqn:E; try congruence; rewrite IH by congruence; reflexivity.
Qed.

Lemma run_app cf : forall a b st,
  run cf st (a ++ b) =
  let '(g1, s1) := run cf st a in let '(g2, s2) := run cf s1 b in (g1 ++ g2, s2).
Proof.
  induction a as [|ev a IH]; intros b st; cbn [app run].
  - destruct (run cf st b); reflexivity.
  - destruct (step cf st ev) as [g s1]. rewrite IH.
    destruct (run cf s1 a) as [g1 s2]. destruct (run cf s2 b) as [g2 s3]. now rewrite app_assoc.
Qed.

Lemma run_numbered cf : forall evs st gs st',
  run cf st evs = (gs, st') ->
  numbered cf (nextNr st) gs /\ lastToSend st' = lastToSend st /\
  (ph st' = PRunning -> nextNr st' = nextNr st + lenZ gs).
Proof.
  induction evs as [|ev evs IH]; intros st gs st' H; cbn [run] in H.
  - inversion H; subst. cbn [numbered]; rewrite ?lenZ_nil; repeat split; auto; lia.
  - destruct (step cf st ev) as [g s1] eqn:Es. destruct (run cf s1 evs) as [gs1 s2] eqn:Er.
    inversion H; subst. apply step_numbered in Es. destruct Es as (N0 & L0 & R0).
    destruct (phase_eq_running (ph s1)) as [Hr|Hr].
    + destruct (R0 Hr) as [R0' _]. apply IH in Er. destruct Er as (N1 & L1 & R1).
      rewrite numbered_app, lenZ_app. rewrite <- R0'. split; [tauto|]. split; [congruence|].
      intros Hr2. rewrite R1 by assumption. lia.
    + rewrite run_dead in Er by assumption. inversion Er; subst. rewrite app_nil_r.
      split; [assumption|]. split; [assumption|]. intros Hr2. congruence.
Qed.

(** ** After Cancel (or any other end of the loop) nothing is sent *)

Theorem cancel_stops cf st evs1 evs2 :
  fst (run cf st (evs1 ++ EvCancel :: evs2)) = fst (run cf st evs1) /\
  ph (snd (run cf st (evs1 ++ EvCancel :: evs2))) <> PRunning.
Proof.
  rewrite run_app. destruct (run cf st evs1) as [g1 s1]. cbn [run fst snd].
  unfold step. destruct (ph s1) eqn:E.
  - rewrite run_dead by (cbn; discriminate). cbn [fst snd]. rewrite app_nil_r. split; [reflexivity|cbn; discriminate].
  - rewrite run_dead by congruence. cbn [fst snd]. rewrite app_nil_r. split; [reflexivity|congruence].
  - rewrite run_dead by congruence. cbn [fst snd]. rewrite app_nil_r. split; [reflexivity|congruence].
  - rewrite run_dead by congruence. cbn [fst snd]. rewrite app_nil_r. split; [reflexivity|congruence].
Qed.

(** ** Step mode: every trigger taken by a running loop makes exactly one group *)

Definition is_fire (ev : event) : Prop := match ev with EvCancel => False | _ => True end.

Lemma fire_test_one cf fi st :
  sc_test cf = true -> tabs_ok cf ->
  exists g st', fire cf fi st = ([g], st') /\ group_wf cf (nextNr st) g /\
                Forall (fun m => mp_now m = availT st /\ mp_last m = (nextNr st =? lastToSend st)) g.
Proof.
  intros Ht Htab. unfold fire.
  destruct (sendMedia_ok cf (nextNr st) (availT st) (nextNr st =? lastToSend st) Htab) as [g Hg].
  rewrite Hg. destruct (sendMedia_wf _ _ _ _ _ Hg) as [Hw Hl]. rewrite Ht.
  destruct (ph (afterSend cf (fi_refuse fi) g st)); eauto.
Qed.

Theorem step_mode_one_group cf st ev :
  sc_test cf = true -> tabs_ok cf -> ph st = PRunning -> is_fire ev ->
  exists g st', step cf st ev = ([g], st') /\ group_wf cf (nextNr st) g /\
                Forall (fun m => mp_now m = availT st /\ mp_last m = (nextNr st =? lastToSend st)) g.
Proof.
  intros Ht Htab Hr Hf. unfold step. rewrite Hr.
  destruct ev as [fi|fi|]; [apply fire_test_one; assumption..|destruct Hf].
Qed.

(** ** Duration *)

Fixpoint numbered_last (cf : scfg) (last n : Z) (gs : list (list mput)) : Prop :=
  match gs with
  | [] => True
  | g :: gs' => group_wf cf n g /\ Forall (fun m => mp_last m = (n =? last)) g /\ numbered_last cf last (n + 1) gs'
  end.

(** calcSegmentAvailabilityTime returns a value for every number (no index panic: excludes finding
    c16-start-number-above-live-edge-panics). *)
Definition avail_total (cf : scfg) : Prop := forall n, exists a, sc_avail cf n = Ok a.

Lemma fire_test_running cf fi st :
  sc_test cf = true -> sc_chunked cf = false -> tabs_ok cf -> avail_total cf -> ph st = PRunning ->
  exists g a, fire cf fi st =
              ([g], loopTop {| ph := PRunning; nextNr := nextNr st + 1; lastToSend := lastToSend st; availT := a |}) /\
              sc_avail cf (u32 (nextNr st + 1)) = Ok a /\
              group_wf cf (nextNr st) g /\
              Forall (fun m => mp_now m = availT st /\ mp_last m = (nextNr st =? lastToSend st)) g.
Proof.
  intros Ht Hc Htab Hav Hr. unfold fire.
  destruct (sendMedia_ok cf (nextNr st) (availT st) (nextNr st =? lastToSend st) Htab) as [g Hg].
  rewrite Hg. destruct (sendMedia_wf _ _ _ _ _ Hg) as [Hw Hl].
  unfold afterSend. rewrite Hc. cbn [negb]. rewrite Hr, Ht.
  unfold advance. destruct (Hav (u32 (nextNr st + 1))) as [a Ha]. rewrite Ha, Hr. eauto 8.
Qed.

Lemma duration_run cf :
  sc_test cf = true -> sc_chunked cf = false -> tabs_ok cf -> avail_total cf ->
  forall evs st gs st',
    Forall is_fire evs -> ph st = PRunning -> 0 <= nextNr st <= lastToSend st ->
    lastToSend st - nextNr st < lenZ evs ->
    run cf st evs = (gs, st') ->
    lenZ gs = lastToSend st - nextNr st + 1 /\ numbered_last cf (lastToSend st) (nextNr st) gs /\
    ph st' = PStopped /\ nextNr st' = lastToSend st + 1.
Proof.
  intros Ht Hc Htab Hav. induction evs as [|ev evs IH]; intros st gs st' Hf Hr Hn Hl H.
  - rewrite lenZ_nil in Hl. lia.
  - inversion Hf as [|? ? Hev Hrest]; subst. cbn [run] in H. unfold step in H. rewrite Hr in H.
    assert (Hfire : exists fi, (let '(g, st1) := fire cf fi st in let '(gs0, st2) := run cf st1 evs in (g ++ gs0, st2)) = (gs, st')).
    { destruct ev as [fi|fi|]; [exists fi; exact H|exists fi; exact H|destruct Hev]. }
    clear H. destruct Hfire as [fi H].
    destruct (fire_test_running cf fi st Ht Hc Htab Hav Hr) as (g & a & Hfi & Ha & Hw & Hlast). rewrite Hfi in H.
    set (st1 := {| ph := PRunning; nextNr := nextNr st + 1; lastToSend := lastToSend st; availT := a |}) in *.
    rewrite lenZ_cons in Hl.
    destruct (Z.eq_dec (nextNr st) (lastToSend st)) as [Heq|Hne].
    + assert (Hlt : loopTop st1 = stopped st1).
      { unfold loopTop. cbn [ph st1 lastToSend nextNr].
        destruct ((0 <=? lastToSend st) && (lastToSend st <? nextNr st + 1)) eqn:Eb; [reflexivity|lia]. }
      rewrite Hlt in H. rewrite run_dead in H by (cbn; discriminate). inversion H; subst.
      cbn [app numbered_last]. rewrite lenZ_cons, lenZ_nil. cbn [ph stopped st1 nextNr lastToSend].
      split; [lia|]. split; [|split; [reflexivity|lia]].
      split; [exact Hw|]. split; [|exact I]. eapply Forall_impl; [|exact Hlast]. cbn. tauto.
    + assert (Hlt : loopTop st1 = st1).
      { unfold loopTop. cbn [ph st1 lastToSend nextNr].
        destruct ((0 <=? lastToSend st) && (lastToSend st <? nextNr st + 1)) eqn:Eb; [lia|reflexivity]. }
      rewrite Hlt in H. destruct (run cf st1 evs) as [gs0 st2] eqn:Er. inversion H; subst.
      apply IH in Er; [|assumption|reflexivity|cbn [st1 nextNr lastToSend]; lia|cbn [st1 nextNr lastToSend]; lia].
      cbn [st1 nextNr lastToSend] in Er. destruct Er as (L1 & N1 & P1 & X1).
      cbn [app numbered_last]. rewrite lenZ_cons. split; [lia|]. split; [|split; assumption].
      split; [exact Hw|]. split; [|exact N1]. eapply Forall_impl; [|exact Hlast]. cbn. tauto.
Qed.

(** The whole session with a duration. *)
Theorem duration_session cf now initres evs d inits gs st :
  sc_dur cf = Some d -> 0 <= d -> 0 < sc_segDurMS cf ->
  sc_test cf = true -> sc_chunked cf = false -> tabs_ok cf -> avail_total cf ->
  forallb (fun i => nth i initres true) (seq 0 (length (sc_reps cf))) = true ->
  let k := d * 1000 / sc_segDurMS cf in
  let first := firstNr cf now in
  0 <= first ->
  Forall is_fire evs -> k < lenZ evs ->
  session cf now initres evs = (inits, gs, st) ->
  inits = repIdxs cf /\ lenZ gs = k + 1 /\ numbered_last cf (first + k) first gs /\ ph st = PStopped.
Proof.
  intros Hd Hd0 Hseg Ht Hc Htab Hav Hinit k first Hfirst Hf Hk H.
  unfold session, start in H. rewrite Hinit in H. cbn [negb] in H.
  unfold nrSegsToSend in H. rewrite Hd in H. unfold go_div in H.
  destruct (sc_segDurMS cf =? 0) eqn:E0; [lia|]. cbn [bind] in H.
  rewrite Z.quot_div_nonneg in H by lia. fold k in H. fold first in H.
  destruct (Hav (u32 first)) as [a Ha]. rewrite Ha in H.
  assert (Hk0 : 0 <= k) by (unfold k; apply Z.div_pos; lia).
  set (st0 := {| ph := PRunning; nextNr := first; lastToSend := first + k; availT := a |}) in *.
  assert (Hlt : loopTop st0 = st0).
  { unfold loopTop. cbn [ph st0 lastToSend nextNr].
    destruct ((0 <=? first + k) && (first + k <? first)) eqn:Eb; [lia|reflexivity]. }
  rewrite Hlt in H. destruct (run cf st0 evs) as [gs0 st1] eqn:Er. inversion H; subst.
  apply (duration_run cf Ht Hc Htab Hav) in Er; [|assumption|reflexivity|cbn [st0 nextNr lastToSend]; lia|cbn [st0 nextNr lastToSend]; lia].
  cbn [st0 nextNr lastToSend] in Er. destruct Er as (L1 & N1 & P1 & _).
  split; [reflexivity|]. split; [lia|]. split; assumption.
Qed.

(** * Completeness under $Number$ addressing: every attempt is accepted by writeSegment *)

(** The representations' tables are well formed and end their segments at the same instants as
    the reference representation (cross-multiplied: E_t(n)/ts_t = E_ref(n)/ts_ref). *)
Definition aligned (cf : scfg) : Prop :=
  wf (sc_ref cf) (sc_loopMS cf) /\
  Forall (fun ir => let t := timing_tab cf ir in
                    wf t (sc_loopMS cf) /\ forall n, 0 <= n -> E t n * ts (sc_ref cf) = E (sc_ref cf) n * ts t)
         (sc_reps cf).

(** The availability function does not answer before the segment is available (this is what the
    float truncation violates) and at most one second after. *)
Definition avail_on_time (cf : scfg) : Prop :=
  forall n a, 0 <= n < two32 -> sc_avail cf n = Ok a ->
    let r := sc_ref cf in
    let av := availNum (E r n + startS (sc_cfg cf) * ts r) (ts r) (ato (sc_cfg cf)) in
    av <= a * ts r <= av + 1000 * ts r.

Lemma ophase_one {A} (o : outcome A) : ophase o = 1 -> exists x, o = TOk x.
Proof. destruct o; cbn; intros H; try lia. eauto. Qed.

Lemma lookup_ok_number cf t n now atoMS :
  wf t (sc_loopMS cf) -> startNr (sc_cfg cf) = 0 -> 0 <= n < two32 -> 0 <= tsbdS (sc_cfg cf) ->
  ato (sc_cfg cf) = Some atoMS ->
  (let av := availNum (E t n + startS (sc_cfg cf) * ts t) (ts t) (Some atoMS) in
   av <= now * ts t <= av + (tsbdS (sc_cfg cf) + tsbdMarginS) * 1000 * ts t) ->
  lookup_ok t cf ByNumber n now = true.
Proof.
  intros W Hs Hn Htsbd Hato Hav. unfold lookup_ok. destruct (n <? 0) eqn:E0; [lia|].
  pose proof (lookup_phase t (sc_loopMS cf) (sc_cfg cf) n now W ltac:(lia) ltac:(lia) ltac:(lia)) as Hp.
  rewrite Hs, Z.add_0_l in Hp. rewrite Hato in Hp.
  pose proof (checkTime_exact (E t n + startS (sc_cfg cf) * ts t) (ts t) (tsbdS (sc_cfg cf)) atoMS now (wf_ts _ _ W)) as (_ & _ & H1).
  cbn zeta in H1. apply H1 in Hav. rewrite <- Hp in Hav. apply ophase_one in Hav. destruct Hav as [x ->]. reflexivity.
Qed.

Lemma availNum_aligned Et Er tst tsr S0 a :
  Et * tsr = Er * tst ->
  availNum (Et + S0 * tst) tst (Some a) * tsr = availNum (Er + S0 * tsr) tsr (Some a) * tst.
Proof. intros H. unfold availNum. destruct (a >? 0); nia. Qed.

Lemma rep_on_time cf ir n a atoMS :
  aligned cf -> In ir (sc_reps cf) -> avail_on_time cf -> startNr (sc_cfg cf) = 0 -> 0 <= tsbdS (sc_cfg cf) ->
  ato (sc_cfg cf) = Some atoMS -> 0 <= n < two32 -> sc_avail cf n = Ok a ->
  lookup_ok (timing_tab cf ir) cf ByNumber n a = true.
Proof.
  intros [Wr Hal] Hin Hon Hs Htsbd Hato Hn Ha.
  rewrite Forall_forall in Hal. destruct (Hal ir Hin) as [Wt Heq]. cbn zeta in Wt, Heq.
  apply (lookup_ok_number cf _ n a atoMS); try assumption. cbn zeta.
  specialize (Hon n a Hn Ha). cbn zeta in Hon. rewrite Hato in Hon.
  pose proof (availNum_aligned _ _ (ts (timing_tab cf ir)) (ts (sc_ref cf)) (startS (sc_cfg cf)) atoMS (Heq n ltac:(lia))) as Hx.
  pose proof (wf_ts _ _ Wr). pose proof (wf_ts _ _ Wt). unfold tsbdMarginS.
  set (avt := availNum (E (timing_tab cf ir) n + startS (sc_cfg cf) * ts (timing_tab cf ir)) (ts (timing_tab cf ir)) (Some atoMS)) in *.
  set (avr := availNum (E (sc_ref cf) n + startS (sc_cfg cf) * ts (sc_ref cf)) (ts (sc_ref cf)) (Some atoMS)) in *.
  set (tt := ts (timing_tab cf ir)) in *. set (tr := ts (sc_ref cf)) in *.
  split; nia.
Qed.

Lemma sendReps_number_ok cf nr now last : sc_timeline cf = false ->
  forall reps idx ref_ok g,
    Forall (fun ir => lookup_ok (timing_tab cf ir) cf ByNumber nr now = true) reps ->
    sendReps cf idx reps nr now last ref_ok = Ok g ->
    Forall (fun m => mp_ok m = true /\ mp_id m = Some nr) g.
Proof.
  intros Htl. induction reps as [|ir reps IH]; intros idx ref_ok g Hf H; cbn [sendReps] in H.
  - inversion H; subst. constructor.
  - rewrite Htl in H. inversion Hf as [|? ? Hir Hrest]; subst.
    match type of H with (do tl <- ?X ; _) = _ => destruct X as [tl| |] eqn:E; cbn [bind] in H; try discriminate end.
    inversion H; subst. constructor; [cbn; auto|]. eapply IH; eassumption.
Qed.

(** State consistency: the stored availability time is that of the next number. *)
Definition consistent (cf : scfg) (st : sstate) : Prop :=
  ph st = PRunning -> sc_avail cf (u32 (nextNr st)) = Ok (availT st).

Lemma advance_consistent cf st : consistent cf (advance cf st).
Proof.
  unfold consistent, advance. destruct (sc_avail cf (u32 (nextNr st + 1))) eqn:E; cbn [ph nextNr availT stopped crashed]; intros H; try discriminate.
  exact E.
Qed.

Lemma loopTop_consistent cf st : consistent cf st -> consistent cf (loopTop st).
Proof.
  unfold consistent. intros H Hr. pose proof (loopTop_running _ Hr) as Hr0. specialize (H Hr0).
  unfold loopTop in *. rewrite Hr0 in *. destruct (_ && _); [discriminate|exact H].
Qed.

Definition all_ok (gs : list (list mput)) : Prop := Forall (Forall (fun m => mp_ok m = true)) gs.

Theorem complete_number cf atoMS :
  sc_test cf = true -> sc_timeline cf = false ->
  aligned cf -> avail_on_time cf -> startNr (sc_cfg cf) = 0 -> 0 <= tsbdS (sc_cfg cf) ->
  ato (sc_cfg cf) = Some atoMS ->
  forall evs st gs st',
    consistent cf st -> 0 <= nextNr st -> nextNr st + lenZ evs < two32 ->
    run cf st evs = (gs, st') -> all_ok gs.
Proof.
  intros Ht Htl Hal Hon Hs Htsbd Hato.
  induction evs as [|ev evs IH]; intros st gs st' Hc Hn Hb H; cbn [run] in H.
  - inversion H; subst. constructor.
  - rewrite lenZ_cons in Hb. pose proof (lenZ_nonneg evs) as Hle.
    destruct (step cf st ev) as [g st1] eqn:Es. destruct (run cf st1 evs) as [gs1 st2] eqn:Er.
    inversion H; subst. unfold all_ok. rewrite Forall_app.
    unfold step in Es. destruct (ph st) eqn:Eph;
      try (inversion Es; subst; rewrite run_dead in Er by congruence; inversion Er; subst; split; constructor).
    destruct ev as [fi|fi|].
    3:{ inversion Es; subst. rewrite run_dead in Er by (cbn; discriminate). inversion Er; subst. split; constructor. }
    all: unfold fire in Es; rewrite Ht in Es;
      destruct (sendMedia cf (nextNr st) (availT st) (nextNr st =? lastToSend st)) as [g0| |] eqn:Eg;
      try (inversion Es; subst; rewrite run_dead in Er by (cbn; discriminate); inversion Er; subst; split; constructor).
    all: assert (Hg0 : Forall (fun m => mp_ok m = true) g0) by
        (unfold sendMedia in Eg; eapply Forall_impl; [|eapply (sendReps_number_ok cf _ _ _ Htl); [|exact Eg]];
         [cbn; tauto|];
         rewrite Forall_forall; intros ir Hin;
         apply (rep_on_time cf ir (nextNr st) (availT st) atoMS); try assumption; [lia|];
         specialize (Hc Eph); rewrite u32_id in Hc by lia; exact Hc).
    all: destruct (ph (afterSend cf (fi_refuse fi) g0 st)) eqn:Ea;
      try (inversion Es; subst; rewrite run_dead in Er by congruence; inversion Er; subst; split; [constructor; [assumption|constructor]|constructor]).
    all: inversion Es; subst; split; [constructor; [assumption|constructor]|];
      apply (IH _ _ _ (loopTop_consistent _ _ (advance_consistent cf st))) in Er; [exact Er| |];
      rewrite loopTop_next, advance_next; lia.
Qed.

(** The repaired availability function (exact ceiling) satisfies [avail_on_time]: the hypothesis of
    [complete_number] is satisfiable, and it is what proposed_fixes/C16-availability-ceil.diff aims at. *)
Lemma availTicks_spec r loopMS c n :
  wf r loopMS -> startNr c = 0 -> 0 <= n ->
  availTicks r loopMS c n = Ok (E r n + startS c * ts r).
Proof.
  intros W Hs Hn. unfold availTicks. pose proof (nsegs_pos r loopMS W) as HN. fold (nsegs r).
  destruct (nsegs r =? 0) eqn:E0; [lia|]. rewrite Hs, Z.sub_0_r.
  rewrite Z.quot_div_nonneg by lia.
  replace (n - n / nsegs r * nsegs r) with (n mod nsegs r) by (Z.div_mod_to_equations; nia).
  rewrite (segAt_ok r) by (Z.div_mod_to_equations; lia).
  rewrite (wrapDur_eq r loopMS W). unfold E. f_equal. lia.
Qed.

Lemma exact_on_time reps r loopMS segDur c timeline test dur chunked cc ff atoMS :
  wf r loopMS -> startNr c = 0 -> ato c = Some atoMS -> 0 <= atoMS ->
  avail_on_time {| sc_reps := reps; sc_ref := r; sc_loopMS := loopMS; sc_segDurMS := segDur; sc_cfg := c;
                   sc_timeline := timeline; sc_test := test; sc_dur := dur; sc_chunked := chunked;
                   sc_catchup_checks := cc; sc_first_fix := ff; sc_avail := availMS_exact r loopMS c |}.
Proof.
  intros W Hs Hato Hpos n a Hn Ha. cbn [sc_avail sc_ref sc_cfg] in *. unfold availMS_exact in Ha.
  rewrite (availTicks_spec r loopMS c n W Hs) in Ha by lia. cbn [bind] in Ha. rewrite Hato in Ha.
  inversion Ha; subst. cbn zeta. rewrite Hato. pose proof (wf_ts _ _ W) as Hts.
  unfold availMS_ceil, availNumMS, availNum.
  set (Ex := E r n + startS c * ts r).
  destruct (atoMS >? 0) eqn:Ea.
  - split; Z.div_mod_to_equations; nia.
  - assert (atoMS = 0) by lia. subst atoMS. split; Z.div_mod_to_equations; nia.
Qed.

(** * Witnesses of the defects (concrete sessions evaluated by [vm_compute]) *)

(** 2.002 s segments as in the bundled 29.97 fps asset (4 segments, timescale 30000, loop 8008 ms). *)
Definition rep2997 : rep :=
  {| segs := [ {| st := 0; en := 60060; snr := 1 |}; {| st := 60060; en := 120120; snr := 2 |};
               {| st := 120120; en := 180180; snr := 3 |}; {| st := 180180; en := 240240; snr := 4 |} ];
     ts := 30000 |}.
Definition trig : event := EvTrigger {| fi_clock := []; fi_refuse := [] |}.
Definition cf2997 (chunked : bool) (c : tcfg) : scfg :=
  mk_scfg [ {| ir_kind := RVideo; ir_tab := Some rep2997 |} ] rep2997 8008 2002 c false true None chunked.

(** Step mode from testNowMS = 10000, five triggers.  With the truncation (before fix f4e8dbe)
    number 7 was asked for at 16015 ms, one millisecond early, and not delivered. *)
Lemma gap_witness_before_fix :
  let cf := mk_scfg_r RTrunc [ {| ir_kind := RVideo; ir_tab := Some rep2997 |} ] rep2997 8008 2002 cfg0 false true None false in
  let '(_, gs, st) := session cf 10000 [] [trig; trig; trig; trig; trig] in
  map (map (fun m => (mp_nr m, mp_now m, mp_ok m))) gs =
    [[(4, 10010, true)]; [(5, 12012, true)]; [(6, 14014, true)]; [(7, 16015, false)]; [(8, 18018, true)]]
  /\ ph st = PRunning.
Proof. vm_compute. split; reflexivity. Qed.

(** With math.Ceil all five are delivered. *)
Lemma gap_closed :
  let '(_, gs, st) := session (cf2997 false cfg0) 10000 [] [trig; trig; trig; trig; trig] in
  map (map (fun m => (mp_nr m, mp_now m, mp_ok m))) gs =
    [[(4, 10010, true)]; [(5, 12012, true)]; [(6, 14014, true)]; [(7, 16016, true)]; [(8, 18018, true)]]
  /\ ph st = PRunning.
Proof. vm_compute. split; reflexivity. Qed.

(** 2 s segments (4 segments at 90 kHz, loop 8 s). *)
Definition rep2s : rep :=
  {| segs := [ {| st := 0; en := 180000; snr := 1 |}; {| st := 180000; en := 360000; snr := 2 |};
               {| st := 360000; en := 540000; snr := 3 |}; {| st := 540000; en := 720000; snr := 4 |} ];
     ts := 90000 |}.

(** Chunked transfer: a request that writeSegment rejects ends the process (send on closed
    channel).  Before fix fec92f5 ([sc_first_fix = false]) a session created before the first
    segment is complete asked for number -1 at its first trigger; the hand-over defect itself is
    still there for any request that writeSegment rejects. *)
Lemma chunked_crash_witness :
  let c := {| startS := 0; startNr := 0; tsbdS := 60; ato := Some 1000 |} in
  let cf := mk_scfg_rcf RCeil true false [ {| ir_kind := RVideo; ir_tab := Some rep2s |} ] rep2s 8000 2000 c false true None true in
  let '(_, gs, st) := session cf 500 [] [trig; trig] in
  map (map (fun m => (mp_nr m, mp_ok m))) gs = [[(-1, false)]] /\
  ph st = PCrashed "startReadAndSendChunked: send on closed channel".
Proof. vm_compute. split; reflexivity. Qed.

(** Before fix 07f3435 ([sc_catchup_checks = false]).
    Real-time mode with duration 2 s (numbers 5 and 6, the second marked last): if the upload of
    number 5 ends after number 6 became available, number 6 is sent by the catch-up loop without
    lmsg; if the sender stays behind, it goes on beyond the duration. *)
Lemma catchup_witness :
  let cf := mk_scfg_rc RCeil false [ {| ir_kind := RVideo; ir_tab := Some rep2s |} ] rep2s 8000 2000 cfg0 false false (Some 2) false in
  (let '(_, gs, st) := session cf 11200 [] [EvTimer {| fi_clock := [14300; 14301]; fi_refuse := [] |}] in
   map (map (fun m => (mp_nr m, mp_last m))) gs = [[(5, false)]; [(6, false)]] /\ ph st = PStopped /\ lastToSend st = 6)
  /\
  (let '(_, gs, st) := session cf 11200 [] [EvTimer {| fi_clock := [14300; 16400; 18500; 18501]; fi_refuse := [] |}] in
   map (map (fun m => (mp_nr m, mp_last m))) gs = [[(5, false)]; [(6, false)]; [(7, false)]; [(8, false)]] /\ lastToSend st = 6).
Proof. vm_compute. repeat split; reflexivity. Qed.

(** Before fix fec92f5: with a start number the first number was counted from 0 (live edge at
    10000 ms with snr 3 is 7). *)
Lemma startnr_witness :
  let c := {| startS := 0; startNr := 3; tsbdS := 60; ato := Some 0 |} in
  let cf := mk_scfg_rcf RCeil true false [ {| ir_kind := RVideo; ir_tab := Some rep2s |} ] rep2s 8000 2000 c false true None false in
  (let '(_, gs, _) := session cf 10000 [] [trig] in map (map (fun m => (mp_nr m, mp_now m, mp_ok m))) gs = [[(5, 6000, true)]]) /\
  lookup rep2s 8000 c ByNumber 7 10000 = TOk {| origTime := 0; newTime := 720000; origNr := 1; newNr := 7; origDur := 180000; newDur := 180000; mtimescale := 90000 |} /\
  lookup rep2s 8000 c ByNumber 8 10000 = TTooEarly 2000.
Proof. vm_compute. repeat split; reflexivity. Qed.

(** Non-vacuity of the duration theorem on the same table: duration 5 s, 2 s segments, 4 triggers. *)
Lemma duration_example :
  let cf := mk_scfg [ {| ir_kind := RVideo; ir_tab := Some rep2s |}; {| ir_kind := RAudio; ir_tab := None |} ]
                    rep2s 8000 2000 cfg0 false true (Some 5) false in
  let '(inits, gs, st) := session cf 10000 [] [trig; trig; trig; trig] in
  inits = [0; 1] /\
  map (map (fun m => (mp_rep m, mp_nr m, mp_now m, mp_last m, mp_ok m))) gs =
    [[(0, 5, 12000, false, true); (1, 5, 12000, false, true)];
     [(0, 6, 14000, false, true); (1, 6, 14000, false, true)];
     [(0, 7, 16000, true, true); (1, 7, 16000, true, true)]] /\ ph st = PStopped.
Proof. vm_compute. repeat split; reflexivity. Qed.

(** * The whole session: order *)
Theorem session_order cf now initres evs inits gs st :
  session cf now initres evs = (inits, gs, st) ->
  inits = repIdxs cf /\
  numbered cf (nextNr (snd (start cf now initres))) gs /\
  (ph (snd (start cf now initres)) = PRunning ->
   nextNr (snd (start cf now initres)) = firstNr cf now).
Proof.
  unfold session. intros H.
  assert (Hi : fst (start cf now initres) = repIdxs cf).
  { unfold start. destruct (negb _); [reflexivity|]. destruct (nrSegsToSend cf) as [ns| |]; try reflexivity.
    destruct (sc_avail cf _); reflexivity. }
  destruct (start cf now initres) as [i0 st0] eqn:Es. cbn [fst snd] in *.
  destruct (run cf st0 evs) as [gs0 st1] eqn:Er. inversion H; subst.
  split; [reflexivity|]. split; [apply (run_numbered _ _ _ _ _ Er)|].
  intros Hr. unfold start in Es. destruct (negb _); [inversion Es; subst; discriminate|].
  destruct (nrSegsToSend cf) as [ns| |]; try (inversion Es; subst; discriminate).
  destruct (sc_avail cf _); try (inversion Es; subst; discriminate).
  inversion Es; subst. rewrite loopTop_next. reflexivity.
Qed.

(** The catch-up scenario of [catchup_witness] with the current code (fix 07f3435,
    [sc_catchup_checks = true]): number 6 is marked last
    and nothing is sent beyond it, however far behind the sender is. *)
Lemma catchup_fixed_witness :
  let cf := mk_scfg [ {| ir_kind := RVideo; ir_tab := Some rep2s |} ] rep2s 8000 2000 cfg0 false false (Some 2) false in
  (let '(_, gs, st) := session cf 11200 [] [EvTimer {| fi_clock := [14300; 14301]; fi_refuse := [] |}] in
   map (map (fun m => (mp_nr m, mp_last m))) gs = [[(5, false)]; [(6, true)]] /\ ph st = PStopped)
  /\
  (let '(_, gs, st) := session cf 11200 [] [EvTimer {| fi_clock := [14300; 16400; 18500; 18501]; fi_refuse := [] |}] in
   map (map (fun m => (mp_nr m, mp_last m))) gs = [[(5, false)]; [(6, true)]] /\ ph st = PStopped).
Proof. vm_compute. repeat split; reflexivity. Qed.

(** * Duration in both modes, for every clock, with the catch-up loop that looks at lastSegNrToSend
    (fix 07f3435, [sc_catchup_checks = true]). *)

Lemma numbered_last_app cf last a : forall n b,
  numbered_last cf last n (a ++ b) <-> numbered_last cf last n a /\ numbered_last cf last (n + lenZ a) b.
Proof.
  induction a as [|g a IH]; intros n b; cbn [app numbered_last].
  - rewrite lenZ_nil, Z.add_0_r. tauto.
  - rewrite lenZ_cons, IH. replace (n + 1 + lenZ a) with (n + (1 + lenZ a)) by lia. tauto.
Qed.

Lemma advance_running cf st : avail_total cf -> ph st = PRunning ->
  exists a, advance cf st = {| ph := PRunning; nextNr := nextNr st + 1; lastToSend := lastToSend st; availT := a |}.
Proof.
  intros Hav Hr. unfold advance. destruct (Hav (u32 (nextNr st + 1))) as [a Ha]. rewrite Ha, Hr. eauto.
Qed.

Lemma catchup_dur cf :
  sc_catchup_checks cf = true -> sc_chunked cf = false -> tabs_ok cf -> avail_total cf ->
  forall clock st gs st',
    ph st = PRunning -> 0 <= lastToSend st -> nextNr st <= lastToSend st + 1 ->
    catchup cf clock st = (gs, st') ->
    numbered_last cf (lastToSend st) (nextNr st) gs /\ lastToSend st' = lastToSend st /\
    nextNr st' = nextNr st + lenZ gs /\
    ((ph st' = PRunning /\ nextNr st' <= lastToSend st + 1) \/ (ph st' = PStopped /\ nextNr st' = lastToSend st + 1)).
Proof.
  intros Hcc Hc Htab Hav. induction clock as [|now clock IH]; intros st gs st' Hr Hl Hn H; cbn [catchup] in H.
  - inversion H; subst. cbn [numbered_last]. rewrite lenZ_nil. intuition lia.
  - rewrite Hr in H. destruct (availT st - now <=? 0).
    + rewrite Hcc in H. cbn [andb] in H.
      destruct ((0 <=? lastToSend st) && (lastToSend st <? nextNr st)) eqn:Eb.
      * inversion H; subst. cbn [numbered_last ph stopped nextNr lastToSend]. rewrite lenZ_nil. intuition lia.
      * destruct (sendMedia_ok cf (nextNr st) (availT st) (nextNr st =? lastToSend st) Htab) as [g Hg].
        rewrite Hg in H. destruct (sendMedia_wf _ _ _ _ _ Hg) as [Hw Hlast].
        destruct (advance_running cf st Hav Hr) as [a Ha].
        assert (Hafter : afterSend cf [] g (advance cf st) = advance cf st).
        { unfold afterSend. rewrite Hc. reflexivity. }
        rewrite Hafter, Ha in H.
        set (st1 := {| ph := PRunning; nextNr := nextNr st + 1; lastToSend := lastToSend st; availT := a |}) in *.
        destruct (catchup cf clock st1) as [gs1 st2] eqn:Ec. inversion H; subst.
        apply IH in Ec; [|reflexivity|cbn [st1 lastToSend]; lia|cbn [st1 nextNr lastToSend]; lia].
        cbn [st1 nextNr lastToSend] in Ec. destruct Ec as (N1 & L1 & X1 & P1).
        cbn [numbered_last]. rewrite lenZ_cons.
        split; [split; [exact Hw|split; [|exact N1]]|].
        -- eapply Forall_impl; [|exact Hlast]. cbn. tauto.
        -- split; [exact L1|]. split; [lia|]. destruct P1 as [[P Q]|[P Q]]; [left|right]; split; try assumption; lia.
    + inversion H; subst. cbn [numbered_last]. rewrite lenZ_nil. intuition lia.
Qed.

Lemma fire_dur cf fi st gs st' :
  sc_catchup_checks cf = true -> sc_chunked cf = false -> tabs_ok cf -> avail_total cf ->
  ph st = PRunning -> 0 <= nextNr st <= lastToSend st ->
  fire cf fi st = (gs, st') ->
  numbered_last cf (lastToSend st) (nextNr st) gs /\ 1 <= lenZ gs /\ lastToSend st' = lastToSend st /\
  nextNr st' = nextNr st + lenZ gs /\
  ((ph st' = PRunning /\ nextNr st' <= lastToSend st) \/ (ph st' = PStopped /\ nextNr st' = lastToSend st + 1)).
Proof.
  intros Hcc Hc Htab Hav Hr Hn H. unfold fire in H.
  destruct (sendMedia_ok cf (nextNr st) (availT st) (nextNr st =? lastToSend st) Htab) as [g Hg].
  rewrite Hg in H. destruct (sendMedia_wf _ _ _ _ _ Hg) as [Hw Hlast].
  assert (Hafter : afterSend cf (fi_refuse fi) g st = st) by (unfold afterSend; rewrite Hc; reflexivity).
  rewrite Hafter, Hr in H. destruct (advance_running cf st Hav Hr) as [a Ha]. rewrite Ha in H.
  set (st1 := {| ph := PRunning; nextNr := nextNr st + 1; lastToSend := lastToSend st; availT := a |}) in *.
  assert (Hg1 : group_wf cf (nextNr st) g /\ Forall (fun m => mp_last m = (nextNr st =? lastToSend st)) g).
  { split; [exact Hw|]. eapply Forall_impl; [|exact Hlast]. cbn. tauto. }
  assert (Htop : forall s2, lastToSend s2 = lastToSend st -> nextNr s2 <= lastToSend st + 1 ->
            (ph s2 = PRunning \/ (ph s2 = PStopped /\ nextNr s2 = lastToSend st + 1)) ->
            (ph (loopTop s2) = PRunning /\ nextNr (loopTop s2) <= lastToSend st) \/
            (ph (loopTop s2) = PStopped /\ nextNr (loopTop s2) = lastToSend st + 1)).
  { intros s2 L2 N2 [P|[P Q]].
    - unfold loopTop. rewrite P, L2. destruct ((0 <=? lastToSend st) && (lastToSend st <? nextNr s2)) eqn:Eb.
      + right. cbn [ph stopped nextNr]. split; [reflexivity|lia].
      + left. split; [exact P|lia].
    - right. unfold loopTop. rewrite P. split; assumption. }
  destruct (sc_test cf).
  - inversion H; subst.
    pose proof (Htop st1 eq_refl ltac:(cbn [st1 nextNr]; lia) ltac:(left; reflexivity)) as Ht.
    cbn [numbered_last]. rewrite lenZ_cons, lenZ_nil, loopTop_last. rewrite loopTop_next in *.
    cbn [st1 nextNr lastToSend] in *. split; [tauto|]. split; [lia|]. split; [reflexivity|]. split; [lia|exact Ht].
  - destruct (catchup cf (fi_clock fi) st1) as [gs1 st2] eqn:Ec. inversion H; subst.
    apply (catchup_dur cf Hcc Hc Htab Hav) in Ec; [|reflexivity|cbn [st1 lastToSend]; lia|cbn [st1 nextNr lastToSend]; lia].
    cbn [st1 nextNr lastToSend] in Ec. destruct Ec as (N1 & L1 & X1 & P1).
    pose proof (lenZ_nonneg gs1).
    assert (Ht : (ph (loopTop st2) = PRunning /\ nextNr (loopTop st2) <= lastToSend st) \/
                 (ph (loopTop st2) = PStopped /\ nextNr (loopTop st2) = lastToSend st + 1)).
    { apply Htop; [exact L1|destruct P1 as [[? ?]|[? ?]]; lia|destruct P1 as [[? ?]|[? ?]]; [left; assumption|right; split; assumption]]. }
    cbn [numbered_last]. rewrite lenZ_cons, loopTop_last. rewrite loopTop_next in *.
    split; [tauto|]. split; [lia|]. split; [exact L1|]. split; [lia|exact Ht].
Qed.

Lemma duration_run_any cf :
  sc_catchup_checks cf = true -> sc_chunked cf = false -> tabs_ok cf -> avail_total cf ->
  forall evs st gs st',
    Forall is_fire evs -> ph st = PRunning -> 0 <= nextNr st <= lastToSend st ->
    lastToSend st - nextNr st < lenZ evs ->
    run cf st evs = (gs, st') ->
    lenZ gs = lastToSend st - nextNr st + 1 /\ numbered_last cf (lastToSend st) (nextNr st) gs /\ ph st' = PStopped.
Proof.
  intros Hcc Hc Htab Hav. induction evs as [|ev evs IH]; intros st gs st' Hf Hr Hn Hl H.
  - rewrite lenZ_nil in Hl. lia.
  - inversion Hf as [|? ? Hev Hrest]; subst. cbn [run] in H. unfold step in H. rewrite Hr in H.
    assert (Hfire : exists fi, (let '(g, st1) := fire cf fi st in let '(gs0, st2) := run cf st1 evs in (g ++ gs0, st2)) = (gs, st')).
    { destruct ev as [fi|fi|]; [exists fi; exact H|exists fi; exact H|destruct Hev]. }
    clear H. destruct Hfire as [fi H].
    destruct (fire cf fi st) as [g0 st1] eqn:Ef.
    destruct (fire_dur cf fi st g0 st1 Hcc Hc Htab Hav Hr Hn Ef) as (N0 & M0 & L0 & X0 & P0).
    rewrite lenZ_cons in Hl. destruct (run cf st1 evs) as [gs1 st2] eqn:Er. inversion H; subst.
    rewrite lenZ_app, numbered_last_app.
    destruct P0 as [[P Q]|[P Q]].
    + apply IH in Er; [|assumption|assumption|lia|lia].
      rewrite L0, X0 in Er. destruct Er as (E1 & E2 & E3). split; [lia|]. split; [split; assumption|assumption].
    + rewrite run_dead in Er by congruence. inversion Er; subst. rewrite lenZ_nil. cbn [numbered_last].
      split; [lia|]. split; [tauto|assumption].
Qed.

(** The whole session with a duration, step mode or real time, any clock. *)
Theorem duration_session_any cf now initres evs d inits gs st :
  sc_catchup_checks cf = true ->
  sc_dur cf = Some d -> 0 <= d -> 0 < sc_segDurMS cf ->
  sc_chunked cf = false -> tabs_ok cf -> avail_total cf ->
  forallb (fun i => nth i initres true) (seq 0 (length (sc_reps cf))) = true ->
  let k := d * 1000 / sc_segDurMS cf in
  let first := firstNr cf now in
  0 <= first ->
  Forall is_fire evs -> k < lenZ evs ->
  session cf now initres evs = (inits, gs, st) ->
  inits = repIdxs cf /\ lenZ gs = k + 1 /\ numbered_last cf (first + k) first gs /\ ph st = PStopped.
Proof.
  intros Hcc Hd Hd0 Hseg Hc Htab Hav Hinit k first Hfirst Hf Hk H.
  unfold session, start in H. rewrite Hinit in H. cbn [negb] in H.
  unfold nrSegsToSend in H. rewrite Hd in H. unfold go_div in H.
  destruct (sc_segDurMS cf =? 0) eqn:E0; [lia|]. cbn [bind] in H.
  rewrite Z.quot_div_nonneg in H by lia. fold k in H. fold first in H.
  destruct (Hav (u32 first)) as [a Ha]. rewrite Ha in H.
  assert (Hk0 : 0 <= k) by (unfold k; apply Z.div_pos; lia).
  set (st0 := {| ph := PRunning; nextNr := first; lastToSend := first + k; availT := a |}) in *.
  assert (Hlt : loopTop st0 = st0).
  { unfold loopTop. cbn [ph st0 lastToSend nextNr].
    destruct ((0 <=? first + k) && (first + k <? first)) eqn:Eb; [lia|reflexivity]. }
  rewrite Hlt in H. destruct (run cf st0 evs) as [gs0 st1] eqn:Er. inversion H; subst.
  apply (duration_run_any cf Hcc Hc Htab Hav) in Er; [|assumption|reflexivity|cbn [st0 nextNr lastToSend]; lia|cbn [st0 nextNr lastToSend]; lia].
  cbn [st0 nextNr lastToSend] in Er. destruct Er as (L1 & N1 & P1).
  split; [reflexivity|]. split; [lia|]. split; assumption.
Qed.

(** * Cancel in the init phase: only the inits up to the pending one, nothing else, whatever follows. *)
Theorem cancel_in_init cf now initres k evs inits gs st :
  session_c cf now initres (Some k) evs = (inits, gs, st) ->
  inits = takeZ (k + 1) (repIdxs cf) /\ gs = [] /\ ph st = PStopped.
Proof.
  unfold session_c, start_cancelled. intros H. rewrite run_dead in H by (cbn; discriminate).
  inversion H; subst. repeat split; reflexivity.
Qed.

(** * The first number *)
Lemma firstNr_pinned cf now : sc_first_fix cf = false -> firstNr cf now = findLastSegNr cf now + 1.
Proof. intros H. unfold firstNr. now rewrite H. Qed.

Lemma firstNr_repaired cf now : sc_first_fix cf = true ->
  firstNr cf now = Z.max (findLastSegNr cf now) (-1) + 1 + startNr (sc_cfg cf).
Proof. intros H. unfold firstNr. now rewrite H. Qed.

(** With the current code (fix fec92f5) the scenarios of
    [startnr_witness] and of a session created before the first segment is complete: start number 3,
    live edge 7 -> first number 8 at its availability time; empty timeline -> number 0 first. *)
Lemma first_number_repaired_witness :
  let c := {| startS := 0; startNr := 3; tsbdS := 60; ato := Some 0 |} in
  let cf := mk_scfg [ {| ir_kind := RVideo; ir_tab := Some rep2s |} ] rep2s 8000 2000 c false true None false in
  let cf0 := mk_scfg [ {| ir_kind := RVideo; ir_tab := Some rep2s |} ] rep2s 8000 2000 cfg0 false true None false in
  (let '(_, gs, _) := session cf 10000 [] [trig] in map (map (fun m => (mp_nr m, mp_now m, mp_ok m))) gs = [[(8, 12000, true)]]) /\
  (let '(_, gs, _) := session cf0 1000 [] [trig; trig] in map (map (fun m => (mp_nr m, mp_now m, mp_ok m))) gs = [[(0, 2000, true)]; [(1, 4000, true)]]).
Proof. vm_compute. split; reflexivity. Qed.
