(** Proofs about the model of the CMAF-ingest sender (theories/Ingest.v). *)
From Verif Require Import GoSem GoSemFacts Timeline TimelineProofs Ingest.
From Coq Require Import ZifyBool Floats.
Ltac Zify.zify_post_hook ::= Z.div_mod_to_equations.

(** * The truncation defect of calcSegmentAvailabilityTime *)

(** One 2.002 s segment at timescale 30000 (29.97 fps content). *)
Definition rep2002 : rep := {| segs := [ {| st := 0; en := 60060; snr := 0 |} ]; ts := 30000 |}.
Definition cfg0 : tcfg := {| startS := 0; startNr := 0; tsbdS := 60; ato := Some 0 |}.

Lemma avail_truncation_witness :
  availMS_float rep2002 2002 cfg0 0 = Ok 2001 /\
  availMS_exact rep2002 2002 cfg0 0 = Ok 2002 /\
  lookup rep2002 2002 cfg0 ByNumber 0 2001 = TTooEarly 1.
Proof. vm_compute. repeat split; reflexivity. Qed.

(** * The session: numbering of the attempts *)

(** A group of attempts made by one call of sendMediaSegments for number [nr]: exactly one attempt per
    representation, in representation order, all for that number, that instant and that lmsg flag. *)
Definition group_wf (cf : scfg) (nr : Z) (g : list mput) : Prop :=
  map mp_rep g = repIdxs cf /\ Forall (fun m => mp_nr m = nr) g.

Fixpoint numbered (cf : scfg) (n : Z) (gs : list (list mput)) : Prop :=
  match gs with
  | [] => True
  | g :: gs' => group_wf cf n g /\ numbered cf (n + 1) gs'
  end.

Lemma numbered_app cf a : forall n b,
  numbered cf n (a ++ b) <-> numbered cf n a /\ numbered cf (n + lenZ a) b.
Proof.
  induction a as [|g a IH]; intros n b; cbn [app numbered].
  - rewrite lenZ_nil, Z.add_0_r. tauto.
  - rewrite lenZ_cons, IH. replace (n + 1 + lenZ a) with (n + (1 + lenZ a)) by lia. tauto.
Qed.

Lemma seqZ_S s n : seqZ s (Datatypes.S n) = s :: seqZ (s + 1) n.
Proof. reflexivity. Qed.

Lemma sendReps_shape cf nr now last : forall reps idx ref_ok g,
  sendReps cf idx reps nr now last ref_ok = Ok g ->
  map mp_rep g = seqZ idx (length reps) /\
  Forall (fun m => mp_nr m = nr /\ mp_now m = now /\ mp_last m = last) g.
Proof.
  induction reps as [|ir reps IH]; intros idx ref_ok g H; cbn [sendReps] in H.
  - inversion H; subst. split; [reflexivity|constructor].
  - cbn [length]. rewrite seqZ_S.
    destruct (sc_timeline cf).
    + destruct (match ir_kind ir with RAudio => if idx =? 0 then true else false | _ => true end).
      * destruct (ir_tab ir) as [t|]; [|discriminate].
        match type of H with (do tl <- ?X ; _) = _ => destruct X as [tl| |] eqn:E; cbn [bind] in H; try discriminate end.
        inversion H; subst. apply IH in E. destruct E as [E1 E2]. cbn [map mp_rep]. rewrite E1.
        split; [reflexivity|constructor; [cbn; auto|exact E2]].
      * match type of H with (do tl <- ?X ; _) = _ => destruct X as [tl| |] eqn:E; cbn [bind] in H; try discriminate end.
        inversion H; subst. apply IH in E. destruct E as [E1 E2]. cbn [map mp_rep]. rewrite E1.
        split; [reflexivity|constructor; [cbn; auto|exact E2]].
    + match type of H with (do tl <- ?X ; _) = _ => destruct X as [tl| |] eqn:E; cbn [bind] in H; try discriminate end.
      inversion H; subst. apply IH in E. destruct E as [E1 E2]. cbn [map mp_rep]. rewrite E1.
      split; [reflexivity|constructor; [cbn; auto|exact E2]].
Qed.

Lemma sendMedia_wf cf nr now last g :
  sendMedia cf nr now last = Ok g ->
  group_wf cf nr g /\ Forall (fun m => mp_now m = now /\ mp_last m = last) g.
Proof.
  intros H. apply sendReps_shape in H. destruct H as [H1 H2]. split; [split|].
  - exact H1.
  - eapply Forall_impl; [|exact H2]. cbn. tauto.
  - eapply Forall_impl; [|exact H2]. cbn. tauto.
Qed.

(** Representations whose own table is consulted under $Time$ addressing have one
    (this excludes generated subtitles under $Time$ addressing: finding
    c16-timeline-with-generated-subtitles-nil). *)
Definition tabs_ok (cf : scfg) : Prop :=
  sc_timeline cf = true -> Forall (fun ir => ir_tab ir <> None) (sc_reps cf).

Lemma sendReps_ok cf nr now last : forall reps idx ref_ok,
  (sc_timeline cf = true -> Forall (fun ir => ir_tab ir <> None) reps) ->
  exists g, sendReps cf idx reps nr now last ref_ok = Ok g.
Proof.
  induction reps as [|ir reps IH]; intros idx ref_ok Ht; cbn [sendReps].
  - eauto.
  - destruct (sc_timeline cf) eqn:Etl.
    + specialize (Ht eq_refl). inversion Ht as [|? ? Hir Hrest]; subst.
      destruct (match ir_kind ir with RAudio => if idx =? 0 then true else false | _ => true end).
      * destruct (ir_tab ir) as [t|]; [|congruence].
        match goal with |- exists g, (do tl <- sendReps cf ?i reps nr now last ?r ; _) = _ =>
          destruct (IH i r (fun _ => Hrest)) as [tl ->] end. cbn [bind]. eauto.
      * destruct (IH (idx + 1) ref_ok (fun _ => Hrest)) as [tl ->]. cbn [bind]. eauto.
    + destruct (IH (idx + 1) ref_ok ltac:(discriminate)) as [tl ->]. cbn [bind]. eauto.
Qed.

Lemma sendMedia_ok cf nr now last : tabs_ok cf -> exists g, sendMedia cf nr now last = Ok g.
Proof. intros H. apply sendReps_ok. exact H. Qed.

(** ** State bookkeeping *)

Lemma phase_eq_running (p : phase) : p = PRunning \/ p <> PRunning.
Proof. destruct p; [left; reflexivity|right; discriminate..]. Qed.

Lemma advance_next cf st : nextNr (advance cf st) = nextNr st + 1.
Proof. unfold advance. destruct (sc_avail cf (u32 (nextNr st + 1))); reflexivity. Qed.
Lemma advance_last cf st : lastToSend (advance cf st) = lastToSend st.
Proof. unfold advance. destruct (sc_avail cf (u32 (nextNr st + 1))); reflexivity. Qed.
Lemma afterSend_next cf r g st : nextNr (afterSend cf r g st) = nextNr st.
Proof. unfold afterSend. destruct (negb (sc_chunked cf)); [reflexivity|]. repeat (destruct (existsb _ g); [reflexivity|]). reflexivity. Qed.
Lemma afterSend_last cf r g st : lastToSend (afterSend cf r g st) = lastToSend st.
Proof. unfold afterSend. destruct (negb (sc_chunked cf)); [reflexivity|]. repeat (destruct (existsb _ g); [reflexivity|]). reflexivity. Qed.
Lemma loopTop_next st : nextNr (loopTop st) = nextNr st.
Proof. unfold loopTop. destruct (ph st); try reflexivity. destruct (_ && _); reflexivity. Qed.
Lemma loopTop_last st : lastToSend (loopTop st) = lastToSend st.
Proof. unfold loopTop. destruct (ph st); try reflexivity. destruct (_ && _); reflexivity. Qed.
Lemma loopTop_running st : ph (loopTop st) = PRunning -> ph st = PRunning.
Proof.
  unfold loopTop. destruct (ph st) eqn:E; try (rewrite E; intros H; exact H); try reflexivity.
Qed.

Lemma catchup_numbered cf : forall clock st gs st',
  catchup cf clock st = (gs, st') ->
  numbered cf (nextNr st) gs /\ lastToSend st' = lastToSend st /\
  (ph st' = PRunning -> nextNr st' = nextNr st + lenZ gs) /\
  Forall (Forall (fun m => mp_last m = false)) gs.
Proof.
  induction clock as [|now clock IH]; intros st gs st' H; cbn [catchup] in H.
  - inversion H; subst. cbn [numbered]; rewrite ?lenZ_nil; repeat split; try lia. constructor.
  - destruct (ph st) eqn:Eph; try (inversion H; subst; cbn [numbered]; rewrite ?lenZ_nil; repeat split; try lia; try congruence; constructor).
    destruct (availT st - now <=? 0).
    + destruct (sendMedia cf (nextNr st) (availT st) false) as [g| |] eqn:Es.
      * destruct (catchup cf clock (afterSend cf [] g (advance cf st))) as [gs1 st1] eqn:Ec.
        inversion H; subst. apply IH in Ec. destruct Ec as (N1 & L1 & R1 & F1).
        rewrite afterSend_next, advance_next in N1, R1. rewrite afterSend_last, advance_last in L1.
        apply sendMedia_wf in Es. destruct Es as [Hw Hl].
        cbn [numbered]. rewrite lenZ_cons. split; [split; assumption|]. split; [assumption|]. split.
        -- intros Hr. rewrite R1 by assumption. lia.
        -- constructor; [|assumption]. eapply Forall_impl; [|exact Hl]. cbn. tauto.
      * inversion H; subst. cbn [numbered]; rewrite ?lenZ_nil; repeat split; try lia; try discriminate. constructor.
      * inversion H; subst. cbn [numbered]; rewrite ?lenZ_nil; repeat split; try lia; try discriminate. constructor.
    + inversion H; subst. cbn [numbered]; rewrite ?lenZ_nil; repeat split; try lia. constructor.
Qed.

Lemma fire_numbered cf fi st gs st' :
  fire cf fi st = (gs, st') ->
  numbered cf (nextNr st) gs /\ lastToSend st' = lastToSend st /\
  (ph st' = PRunning -> nextNr st' = nextNr st + lenZ gs).
Proof.
  unfold fire. intros H.
  destruct (sendMedia cf (nextNr st) (availT st) (nextNr st =? lastToSend st)) as [g| |] eqn:Es.
  - pose proof (sendMedia_wf _ _ _ _ _ Es) as [Hw _].
    destruct (ph (afterSend cf (fi_refuse fi) g st)) eqn:Ea.
    + destruct (sc_test cf).
      * inversion H; subst. cbn [numbered]. rewrite lenZ_cons, lenZ_nil, loopTop_next, loopTop_last, advance_next, advance_last.
        intuition lia.
      * destruct (catchup cf (fi_clock fi) (advance cf st)) as [gs1 st2] eqn:Ec. inversion H; subst.
        apply catchup_numbered in Ec. destruct Ec as (N1 & L1 & R1 & _).
        rewrite advance_next in N1, R1. rewrite advance_last in L1.
        cbn [numbered]. rewrite lenZ_cons, loopTop_next, loopTop_last.
        split; [tauto|]. split; [assumption|].
        intros Hr. apply loopTop_running in Hr. rewrite R1 by assumption. lia.
    + inversion H; subst. cbn [numbered]. rewrite afterSend_last, Ea. intuition discriminate.
    + inversion H; subst. cbn [numbered]. rewrite afterSend_last, Ea. intuition discriminate.
    + inversion H; subst. cbn [numbered]. rewrite afterSend_last, Ea. intuition discriminate.
  - inversion H; subst. cbn [numbered ph stopped crashed lastToSend]. intuition discriminate.
  - inversion H; subst. cbn [numbered ph stopped crashed lastToSend]. intuition discriminate.
Qed.

Lemma step_numbered cf st ev gs st' :
  step cf st ev = (gs, st') ->
  numbered cf (nextNr st) gs /\ lastToSend st' = lastToSend st /\
  (ph st' = PRunning -> nextNr st' = nextNr st + lenZ gs /\ ph st = PRunning).
Proof.
  unfold step. intros H. destruct (ph st) eqn:Eph.
  - destruct ev as [fi|fi|].
    + apply fire_numbered in H. intuition.
    + apply fire_numbered in H. intuition.
    + inversion H; subst. cbn [numbered ph stopped lastToSend]. intuition discriminate.
  - inversion H; subst. cbn [numbered]. rewrite lenZ_nil. intuition (try lia; congruence).
  - inversion H; subst. cbn [numbered]. rewrite lenZ_nil. intuition (try lia; congruence).
  - inversion H; subst. cbn [numbered]. rewrite lenZ_nil. intuition (try lia; congruence).
Qed.

(** Nothing happens once the loop has left the running state. *)
Lemma run_dead cf : forall evs st, ph st <> PRunning -> run cf st evs = ([], st).
Proof.
  induction evs as [|ev evs IH]; intros st H; cbn [run]; [reflexivity|].
  unfold step. destruct (ph st) eqn:E; try congruence; rewrite IH by congruence; reflexivity.
Qed.

Lemma run_app cf : forall a b st,
  run cf st (a ++ b) =
  let '(g1, s1) := run cf st a in let '(g2, s2) := run cf s1 b in (g1 ++ g2, s2).
Proof.
  induction a as [|ev a IH]; intros b st; cbn [app run].
  - destruct (run cf st b); reflexivity.
  - destruct (step cf st ev) as [g s1]. rewrite IH.
    destruct (run cf s1 a) as [g1 s2]. destruct (run cf s2 b) as [g2 s3]. now rewrite app_assoc.
Qed.

Lemma run_numbered cf : forall evs st gs st',
  run cf st evs = (gs, st') ->
  numbered cf (nextNr st) gs /\ lastToSend st' = lastToSend st /\
  (ph st' = PRunning -> nextNr st' = nextNr st + lenZ gs).
Proof.
  induction evs as [|ev evs IH]; intros st gs st' H; cbn [run] in H.
  - inversion H; subst. cbn [numbered]; rewrite ?lenZ_nil; repeat split; auto; lia.
  - destruct (step cf st ev) as [g s1] eqn:Es. destruct (run cf s1 evs) as [gs1 s2] eqn:Er.
    inversion H; subst. apply step_numbered in Es. destruct Es as (N0 & L0 & R0).
    destruct (phase_eq_running (ph s1)) as [Hr|Hr].
    + destruct (R0 Hr) as [R0' _]. apply IH in Er. destruct Er as (N1 & L1 & R1).
      rewrite numbered_app, lenZ_app. rewrite <- R0'. split; [tauto|]. split; [congruence|].
      intros Hr2. rewrite R1 by assumption. lia.
    + rewrite run_dead in Er by assumption. inversion Er; subst. rewrite app_nil_r.
      split; [assumption|]. split; [assumption|]. intros Hr2. congruence.
Qed.
