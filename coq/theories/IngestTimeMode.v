(** Completeness of an ingest session under $Time$ addressing (C16): the time put into the URL by
    sendMediaSegments (lastTime() of the timeline at nowMS+50 over a 100 ms window) is the start of
    the session's next number, and the segment server accepts it at the availability time. *)
From Verif Require Import GoSem GoSemFacts Timeline TimelineProofs Window WindowProofs Ingest IngestProofs IngestLiveEdge.
From Coq Require Import ZifyBool.

Definition sumD (es : list sentry) : Z := fold_left (fun a e => a + e_d e * (e_r e + 1)) es 0.

Lemma fold_sumD_shift (es : list sentry) a :
  fold_left (fun a e => a + e_d e * (e_r e + 1)) es a = a + sumD es.
Proof.
  unfold sumD. revert a. induction es as [|e es IH]; intros a; cbn [fold_left]; [lia|].
  rewrite IH. rewrite (IH (0 + e_d e * (e_r e + 1))). lia.
Qed.

Lemma sumD_cons e es : sumD (e :: es) = e_d e * (e_r e + 1) + sumD es.
Proof. unfold sumD at 1. cbn [fold_left]. rewrite fold_sumD_shift. lia. Qed.

Lemma sumD_app a b : sumD (a ++ b) = sumD a + sumD b.
Proof. induction a as [|e a IH]; cbn [app]; [reflexivity|]. rewrite !sumD_cons, IH. lia. Qed.

Lemma sumD_rev l : sumD (rev l) = sumD l.
Proof.
  induction l as [|e l IH]; [reflexivity|]. cbn [rev]. rewrite sumD_app, IH, !sumD_cons.
  change (sumD []) with 0. lia.
Qed.

Lemma last_indep {A} (l : list A) d1 d2 : l <> [] -> last l d1 = last l d2.
Proof.
  induction l as [|x l IH]; intros H; [congruence|]. destruct l as [|y l]; [reflexivity|].
  change (last (x :: y :: l) d1) with (last (y :: l) d1). change (last (x :: y :: l) d2) with (last (y :: l) d2).
  apply IH. discriminate.
Qed.

(** The loop keeps: total listed time = start of the last listed segment + its duration. *)
Lemma tlLoop_lastTime r k : forall nr d t cur acc a b c,
  e_d cur = d -> t + sumD (cur :: acc) = a + d -> e_t (last (cur :: acc) cur) = t ->
  let '(es, (ls, _, _)) := tlLoop r k nr d t cur acc a b c in
  exists e0 tl, es = e0 :: tl /\ e_t e0 = t /\ t + sumD es - e_d (last es e0) = ls.
Proof.
  induction k as [|k IH]; intros nr d t cur acc a b c Hd Hs Ht; cbn [tlLoop].
  - destruct (rev (cur :: acc)) as [|e0 tl] eqn:Er.
    + apply (f_equal (@length sentry)) in Er. rewrite rev_length in Er. discriminate.
    + exists e0, tl. split; [reflexivity|].
      assert (Hl : cur :: acc = rev tl ++ [e0]).
      { rewrite <- (rev_involutive (cur :: acc)), Er. reflexivity. }
      split.
      * rewrite Hl in Ht. rewrite last_last in Ht. exact Ht.
      * rewrite <- Er. rewrite sumD_rev. cbn [rev]. rewrite last_last. lia.
  - destruct (sdur (segAt r (nr mod nsegs r)) =? d).
    + apply IH; cbn [e_d e_t e_r].
      * exact Hd.
      * rewrite sumD_cons in *. cbn [e_d e_r]. lia.
      * destruct acc as [|x acc]; [cbn [last] in *; exact Ht|].
        change (last (cur :: x :: acc) cur) with (last (x :: acc) cur) in Ht.
        match goal with |- e_t (last (?c :: x :: acc) ?c) = t => change (last (c :: x :: acc) c) with (last (x :: acc) c) end.
        rewrite (last_indep (x :: acc) _ cur) by discriminate. exact Ht.
    + apply IH; cbn [e_d e_t e_r].
      * reflexivity.
      * rewrite sumD_cons. cbn [e_d e_r]. lia.
      * match goal with |- e_t (last (?c :: cur :: acc) ?c) = t => change (last (c :: cur :: acc) c) with (last (cur :: acc) c) end.
        rewrite (last_indep (cur :: acc) _ cur) by discriminate. exact Ht.
Qed.

(** segEntries.lastTime() is the start of the last listed segment whenever something is listed. *)
Lemma lastTime_is_lsi r wt atoMS :
  let se := generateTimelineEntries r wt atoMS in
  0 <= se_startNr se -> lastTimeOf se = u64 (se_lsi_start se).
Proof.
  cbv zeta. unfold generateTimelineEntries, lastTimeOf.
  destruct (edgeIdx r (startWraps wt) (startRelMS wt) atoMS) as [sw0 si0].
  destruct (if sw0 <? 0 then (0, 0) else (sw0, si0)) as [sw si].
  destruct (edgeIdx r (nowWraps wt) (nowRelMS wt) atoMS) as [nw ni].
  destruct (nw <? 0); [cbn [se_startNr]; lia|].
  set (startNr := sw * nsegs r + si). set (nowNr := nw * nsegs r + ni).
  set (t := repDuration r * sw + st (segAt r si)). set (d := sdur (segAt r si)).
  pose proof (tlLoop_lastTime r (Z.to_nat (nowNr - startNr)) (startNr + 1) d t
                {| e_t := t; e_d := d; e_r := 0 |} [] t d startNr eq_refl) as H.
  destruct (tlLoop r (Z.to_nat (nowNr - startNr)) (startNr + 1) d t _ [] t d startNr) as [es [[ls ld] ln]].
  destruct H as (e0 & tl & -> & He0 & Hls).
  - rewrite sumD_cons. cbn [e_d e_r]. change (sumD []) with 0. lia.
  - reflexivity.
  - cbn [se_startNr se_entries se_lsi_start]. intros _.
    rewrite fold_sumD_shift. rewrite He0. f_equal. exact Hls.
Qed.

Section TimeMode.
Variable cf : scfg.
Variable atoMS : Z.
Hypothesis Hato : ato (sc_cfg cf) = Some atoMS.
(* int(ato*1000) gives back the milliseconds (written as a difference so that [subst] leaves it alone) *)
Hypothesis Hatoint : atoMSint (sc_cfg cf) - atoMS = 0.
Hypothesis Hatopos : 0 <= atoMS.

(** The URL time of number [n] at an instant [now] that is on time for it, for a table whose
    segments are longer than 1.05 s. *)
Lemma timeOfRep_on_time t n now :
  wf t (sc_loopMS cf) -> 0 <= n -> S t n < two64 ->
  startS (sc_cfg cf) * 1000 <= now + 50 ->
  (let av := availNum (E t n + startS (sc_cfg cf) * ts t) (ts t) (Some atoMS) in
   av <= now * ts t <= av + 1000 * ts t) ->
  1050 * ts t < (E t (n + 1) - E t n) * 1000 ->
  timeOfRep cf t now = S t n.
Proof.
  intros W Hn H64 Hstart Hav Hlong. unfold timeOfRep. replace (atoMSint (sc_cfg cf)) with atoMS by lia.
  pose proof (timeline_is_window t (sc_loopMS cf) W (sc_cfg cf) (now + 50) 100 atoMS Hstart ltac:(lia) Hatopos) as Htw.
  cbv zeta in Htw. destruct Htw as [_ Hpos].
  assert (Hlast : window_last t (sc_cfg cf) atoMS (now + 50) = n).
  { apply (edge_eq t (sc_loopMS cf) W (sc_cfg cf) atoMS (now + 50) n Hn).
    cbv zeta in Hav. unfold availNum in Hav. pose proof (wf_ts _ _ W) as Hts.
    destruct (atoMS >? 0) eqn:Ea; [|assert (atoMS = 0) by lia; subst atoMS]; nia. }
  rewrite Hlast in Hpos. specialize (Hpos Hn). destruct Hpos as (Hfl & Hst & _ & _ & Hls & _).
  rewrite lastTime_is_lsi.
  - rewrite Hls. apply u64_id. pose proof (S_nonneg t (sc_loopMS cf) n W Hn). lia.
  - rewrite Hst. unfold window_first. lia.
Qed.

Lemma lookup_ok_time t n now :
  wf t (sc_loopMS cf) -> 0 <= n -> S t n < two64 -> 0 <= tsbdS (sc_cfg cf) ->
  (let av := availNum (E t n + startS (sc_cfg cf) * ts t) (ts t) (Some atoMS) in
   av <= now * ts t <= av + (tsbdS (sc_cfg cf) + tsbdMarginS) * 1000 * ts t) ->
  lookup_ok t cf ByTime (S t n) now = true.
Proof.
  intros W Hn H64 Htsbd Hav. unfold lookup_ok.
  pose proof (S_nonneg t (sc_loopMS cf) n W Hn) as HS. destruct (S t n <? 0) eqn:E0; [lia|].
  pose proof (lookup_time_phase t (sc_loopMS cf) (sc_cfg cf) n now W Hn H64) as Hp. rewrite Hato in Hp.
  pose proof (checkTime_exact (E t n + startS (sc_cfg cf) * ts t) (ts t) (tsbdS (sc_cfg cf)) atoMS now (wf_ts _ _ W)) as (_ & _ & H1).
  cbn zeta in H1. apply H1 in Hav. rewrite <- Hp in Hav. apply ophase_one in Hav. destruct Hav as [x ->]. reflexivity.
Qed.

(** Segments of every table are longer than 1.05 s (the 50 ms look-ahead of sendMediaSegments plus
    the second of lateness that [avail_on_time] allows must not reach the next segment). *)
Definition long_segments : Prop :=
  Forall (fun ir => let t := timing_tab cf ir in forall n, 0 <= n -> 1050 * ts t < (E t (n + 1) - E t n) * 1000 /\ S t n < two64)
         (sc_reps cf).

Lemma rep_time_ok ir n a :
  aligned cf -> long_segments -> In ir (sc_reps cf) -> avail_on_time cf -> 0 <= tsbdS (sc_cfg cf) ->
  0 <= n < two32 -> sc_avail cf n = Ok a -> startS (sc_cfg cf) * 1000 <= a + 50 ->
  let t := timing_tab cf ir in
  lookup_ok t cf ByTime (timeOfRep cf t a) a = true.
Proof.
  intros [Wr Hal] Hlong Hin Hon Htsbd Hn Ha Hst. cbv zeta.
  rewrite Forall_forall in Hal. destruct (Hal ir Hin) as [Wt Heq]. cbn zeta in Wt, Heq.
  unfold long_segments in Hlong. rewrite Forall_forall in Hlong. destruct (Hlong ir Hin n ltac:(lia)) as [Hl H64].
  specialize (Hon n a Hn Ha). cbn zeta in Hon. rewrite Hato in Hon.
  pose proof (availNum_aligned _ _ (ts (timing_tab cf ir)) (ts (sc_ref cf)) (startS (sc_cfg cf)) atoMS (Heq n ltac:(lia))) as Hx.
  pose proof (wf_ts _ _ Wr). pose proof (wf_ts _ _ Wt).
  set (t := timing_tab cf ir) in *.
  assert (Hav : availNum (E t n + startS (sc_cfg cf) * ts t) (ts t) (Some atoMS) <= a * ts t <=
                availNum (E t n + startS (sc_cfg cf) * ts t) (ts t) (Some atoMS) + 1000 * ts t).
  { set (avt := availNum (E t n + startS (sc_cfg cf) * ts t) (ts t) (Some atoMS)) in *.
    set (avr := availNum (E (sc_ref cf) n + startS (sc_cfg cf) * ts (sc_ref cf)) (ts (sc_ref cf)) (Some atoMS)) in *.
    set (tt := ts t) in *. set (tr := ts (sc_ref cf)) in *. split; nia. }
  rewrite (timeOfRep_on_time t n a Wt ltac:(lia) H64 Hst Hav Hl).
  apply lookup_ok_time; try assumption; [lia|]. cbv zeta. unfold tsbdMarginS. lia.
Qed.

Lemma sendReps_time_ok nr now last : sc_timeline cf = true ->
  forall reps idx g,
    Forall (fun ir => ir_kind ir <> RAudio -> forall t, ir_tab ir = Some t ->
                      lookup_ok t cf ByTime (timeOfRep cf t now) now = true) reps ->
    sendReps cf idx reps nr now last true = Ok g ->
    Forall (fun m => mp_ok m = true) g.
Proof.
  intros Htl. induction reps as [|ir reps IH]; intros idx g Hf H; cbn [sendReps] in H.
  - inversion H; subst. constructor.
  - rewrite Htl in H. inversion Hf as [|? ? Hir Hrest]; subst.
    destruct (match ir_kind ir with RAudio => if idx =? 0 then true else false | _ => true end) eqn:Eown.
    + destruct (ir_tab ir) as [t|] eqn:Etab.
      2:{ destruct (ir_kind ir); try discriminate. destruct (ref0tab cf); try discriminate.
          destruct (idx =? 0); try discriminate.
          match type of H with (do tl <- ?X ; _) = _ => destruct X as [tl| |] eqn:E; cbn [bind] in H; try discriminate end.
          inversion H; subst. constructor; [reflexivity|]. eapply IH; eassumption. }
      assert (Hok : match ir_kind ir with RAudio => true | _ => lookup_ok t cf ByTime (timeOfRep cf t now) now end = true).
      { destruct (ir_kind ir) eqn:Ek; [apply Hir; [discriminate|reflexivity]|reflexivity|apply Hir; [discriminate|reflexivity]]. }
      rewrite Hok in H. replace (if idx =? 0 then true else true) with true in H by (destruct (idx =? 0); reflexivity).
      match type of H with (do tl <- ?X ; _) = _ => destruct X as [tl| |] eqn:E; cbn [bind] in H; try discriminate end.
      inversion H; subst. constructor; [reflexivity|]. eapply IH; eassumption.
    + match type of H with (do tl <- ?X ; _) = _ => destruct X as [tl| |] eqn:E; cbn [bind] in H; try discriminate end.
      inversion H; subst. constructor; [reflexivity|]. eapply IH; eassumption.
Qed.

(** Availability times are not more than 50 ms before the start of the stream (true whenever the
    availability time offset does not exceed the first segment). *)
Definition avail_after_start : Prop :=
  forall n a, sc_avail cf n = Ok a -> startS (sc_cfg cf) * 1000 <= a + 50.

Theorem complete_time :
  sc_test cf = true -> sc_timeline cf = true ->
  aligned cf -> long_segments -> avail_on_time cf -> avail_after_start -> 0 <= tsbdS (sc_cfg cf) ->
  forall evs st gs st',
    consistent cf st -> 0 <= nextNr st -> nextNr st + lenZ evs < two32 ->
    run cf st evs = (gs, st') -> all_ok gs.
Proof.
  intros Ht Htl Hal Hlong Hon Hafter Htsbd.
  induction evs as [|ev evs IH]; intros st gs st' Hc Hn Hb H; cbn [run] in H.
  - inversion H; subst. constructor.
  - rewrite lenZ_cons in Hb. pose proof (lenZ_nonneg evs) as Hle.
    destruct (step cf st ev) as [g st1] eqn:Es. destruct (run cf st1 evs) as [gs1 st2] eqn:Er.
    inversion H; subst. unfold all_ok. rewrite Forall_app.
    unfold step in Es. destruct (ph st) eqn:Eph;
      try (inversion Es; subst; rewrite run_dead in Er by congruence; inversion Er; subst; split; constructor).
    destruct ev as [fi|fi|].
    3:{ inversion Es; subst. rewrite run_dead in Er by (cbn; discriminate). inversion Er; subst. split; constructor. }
    all: unfold fire in Es; rewrite Ht in Es;
      destruct (sendMedia cf (nextNr st) (availT st) (nextNr st =? lastToSend st)) as [g0| |] eqn:Eg;
      try (inversion Es; subst; rewrite run_dead in Er by (cbn; discriminate); inversion Er; subst; split; constructor).
    all: assert (Hg0 : Forall (fun m => mp_ok m = true) g0) by
        (unfold sendMedia in Eg; eapply (sendReps_time_ok _ _ _ Htl); [|exact Eg];
         rewrite Forall_forall; intros ir Hin Hna t Htab;
         specialize (Hc Eph); rewrite u32_id in Hc by lia;
         pose proof (rep_time_ok ir (nextNr st) (availT st) Hal Hlong Hin Hon Htsbd ltac:(lia) Hc (Hafter _ _ Hc)) as Hr;
         cbv zeta in Hr; unfold timing_tab in Hr; rewrite Htab in Hr;
         destruct (ir_kind ir); [exact Hr|congruence|exact Hr]).
    all: destruct (ph (afterSend cf (fi_refuse fi) g0 st)) eqn:Ea;
      try (inversion Es; subst; rewrite run_dead in Er by congruence; inversion Er; subst; split; [constructor; [assumption|constructor]|constructor]).
    all: inversion Es; subst; split; [constructor; [assumption|constructor]|];
      apply (IH _ _ _ (loopTop_consistent _ _ (advance_consistent cf st))) in Er; [exact Er| |];
      rewrite loopTop_next, advance_next; lia.
Qed.

End TimeMode.
