(** Model of the key-id / key / base64 algebra and of the key selection logic of the DRM modes of
    cmd/livesim2/app (C10): keys.go ([id16], [PackBase64], [unpackBase64], [id16FromBase64],
    [id16FromTruncatedBase64], [kidToKey], [keyToKid], [kidFromString]), handler_laurl.go (the
    licence handler as a function from the requested kid strings to the returned (kid, key)
    strings), asset.go [addEncryption] / livesegment.go [matchInit], [encryptFrags] / livempd.go
    (which key id goes into the MPD, which into the tenc box of the init segment, which key, iv and
    scheme encrypt the fragments) and pkg/drm/cpix.go [GetContentKey].

    Strings and byte slices are lists of byte values ([Z] in 0..255).  AES, the senc/saiz/saio
    construction (mp4ff) and md5 are not modelled: the cipher is a [Section] oracle in
    KeysProofs.v, [kidFromString] is modelled as what the code computes (see below). *)
From Verif Require Import GoSem.

Definition bytes := list Z.

Definition kidStart : bytes := [40; 128; 254].   (* 0x28 0x80 0xfe *)
Definition keyStart : bytes := [40; 70; 62].     (* 0x28 0x46 0x3e *)

Definition bytes_eqb (a b : bytes) : bool := list_eqb Z.eqb a b.

(** ** base64 (encoding/base64 StdEncoding, padded, non-strict decoding) *)
Definition ch (i : Z) : Z :=
  if i <? 26 then 65 + i            (* A-Z *)
  else if i <? 52 then 97 + (i - 26) (* a-z *)
  else if i <? 62 then 48 + (i - 52) (* 0-9 *)
  else if i =? 62 then 43            (* + *)
  else 47.                           (* / *)

Definition val (c : Z) : option Z :=
  if (65 <=? c) && (c <=? 90) then Some (c - 65)
  else if (97 <=? c) && (c <=? 122) then Some (c - 97 + 26)
  else if (48 <=? c) && (c <=? 57) then Some (c - 48 + 52)
  else if c =? 43 then Some 62
  else if c =? 47 then Some 63
  else None.

Definition pad : Z := 61.   (* '=' *)

(** EncodeToString *)
Fixpoint b64encode (l : bytes) : bytes :=
  match l with
  | a :: b :: c :: r =>
    ch (a / 4) :: ch ((a mod 4) * 16 + b / 16) :: ch ((b mod 16) * 4 + c / 64) :: ch (c mod 64) :: b64encode r
  | [a; b] => [ch (a / 4); ch ((a mod 4) * 16 + b / 16); ch ((b mod 16) * 4); pad]
  | [a] => [ch (a / 4); ch ((a mod 4) * 16); pad; pad]
  | [] => []
  end.

(** DecodeString: '\r' and '\n' are skipped wherever they occur; then quanta of four characters;
    padding only in the last quantum ("xx==" or "xxx="), nothing may follow it; an incomplete
    last quantum is an error; the unused low bits of a padded quantum are not checked. *)
Definition is_nl (c : Z) : bool := (c =? 10) || (c =? 13).

Fixpoint b64quanta (l : bytes) : res bytes :=
  match l with
  | [] => Ok []
  | c0 :: c1 :: c2 :: c3 :: r =>
    match val c0, val c1 with
    | Some v0, Some v1 =>
      let b0 := v0 * 4 + v1 / 16 in
      if c2 =? pad then
        if (c3 =? pad) && match r with [] => true | _ => false end then Ok [b0] else Err "illegal base64 data"
      else match val c2 with
        | None => Err "illegal base64 data"
        | Some v2 =>
          let b1 := (v1 mod 16) * 16 + v2 / 4 in
          if c3 =? pad then
            match r with [] => Ok [b0; b1] | _ => Err "illegal base64 data" end
          else match val c3 with
            | None => Err "illegal base64 data"
            | Some v3 =>
              do rest <- b64quanta r ;
              Ok (b0 :: b1 :: ((v2 mod 4) * 64 + v3) :: rest)
            end
        end
    | _, _ => Err "illegal base64 data"
    end
  | _ => Err "illegal base64 data"
  end.

Definition b64decode (s : bytes) : res bytes := b64quanta (filter (fun c => negb (is_nl c)) s).

(** strings.ReplaceAll with one-character patterns *)
Definition replace1 (from to : Z) (s : bytes) : bytes := map (fun c => if c =? from then to else c) s.
Definition remove1 (x : Z) (s : bytes) : bytes := filter (fun c => negb (c =? x)) s.

(** [id16.PackBase64]: EncodeToString, then "=" removed, "+" -> "-", "/" -> "_". *)
Definition packBase64 (k : bytes) : bytes :=
  replace1 47 95 (replace1 43 45 (remove1 pad (b64encode k))).

(** [urlSafeBase64]: the same three replacements on a string. *)
Definition urlSafeBase64 (s : bytes) : bytes := replace1 47 95 (replace1 43 45 (remove1 pad s)).

(** [unpackBase64]: "-" -> "+", "_" -> "/", then padded with "=" to a multiple of four. *)
Definition unpackBase64 (s : bytes) : bytes :=
  let s' := replace1 95 47 (replace1 45 43 s) in
  let missing := 4 - lenZ s' mod 4 in
  if missing =? 4 then s' else s' ++ repeat pad (Z.to_nat missing).

(** [id16FromBase64]: DecodeString, then exactly 16 bytes. *)
Definition id16FromBase64 (s : bytes) : res bytes :=
  do b <- b64decode s ;
  if lenZ b =? 16 then Ok b else Err "decoded key is not 16 bytes".

Definition id16FromTruncatedBase64 (s : bytes) : res bytes := id16FromBase64 (unpackBase64 s).

(** ** key <-> key id *)
Definition kidToKey (kid : bytes) : res bytes :=
  if bytes_eqb (firstn 3 kid) kidStart then Ok (keyStart ++ skipn 3 kid)
  else Panic "kidToKey: keyID does not start with 3 k i d bytes".

Definition keyToKid (key : bytes) : res bytes :=
  if bytes_eqb (firstn 3 key) keyStart then Ok (kidStart ++ skipn 3 key)
  else Panic "keyToKid: key does not start with 3 key bytes".

(** [kidFromString s]: [c := md5.New(); c.Sum([]byte(s))] appends the digest of the empty input to
    a copy of [s] and discards the result - [s] is never written into the hash; [c.Write(o)] then
    feeds 16 zero bytes; the key id is md5(0^16) with its first three bytes replaced by
    [kidStart].  The function therefore returns the same id for every string.  md5(0^16) =
    4ae71336e44bf9bf79d2752e234818a5 is taken as a constant (md5 itself is not modelled; the
    correspondence compares this constant with the implementation on every run). *)
Definition md5_zero16 : bytes := [74; 231; 19; 54; 228; 75; 249; 191; 121; 210; 117; 46; 35; 72; 24; 165].
Definition kidFromString (s : bytes) : bytes := kidStart ++ skipn 3 md5_zero16.

(** ** Licence handler (laURLHandlerFunc): the requested kid strings to the (kid, key) strings of
    the response.  [Err "500"]: undecodable kid; [Err "400"]: a kid that livesim2 did not issue
    (repair 6239920; before it [kidToKey] panicked). *)
Fixpoint laResponse (kids : list bytes) : res (list (bytes * bytes)) :=
  match kids with
  | [] => Ok []
  | kid :: rest =>
    let kid' := unpackBase64 kid in
    match id16FromBase64 kid' with
    | Err _ => Err "500"
    | Panic s => Panic s
    | Ok kid16 =>
      if negb (bytes_eqb (firstn 3 kid16) kidStart) then Err "400"
      else
        do key <- kidToKey kid16 ;
        do r <- laResponse rest ;
        Ok ((urlSafeBase64 kid', urlSafeBase64 (packBase64 key)) :: r)
    end
  end.

(** ** Key selection.  A CPIX package: content keys and usage rules. *)
Record contentKey := { ck_kid : bytes; ck_key : bytes; ck_iv : bytes; ck_scheme : Z (* 0 cenc, 1 cbcs, 2 other *) }.
Record usageRule := { ur_kid : bytes; ur_type : Z (* 0 video, 1 audio, 2 other *) }.
Record cpix := { cp_keys : list contentKey; cp_rules : list usageRule }.

Fixpoint findRule (ctype : Z) (rs : list usageRule) : option bytes :=
  match rs with
  | [] => None
  | r :: t => if ur_type r =? ctype then Some (ur_kid r) else findRule ctype t
  end.

Fixpoint findKey (kid : bytes) (ks : list contentKey) : option contentKey :=
  match ks with
  | [] => None
  | k :: t => if bytes_eqb (ck_kid k) kid then Some k else findKey kid t
  end.

(** [CPIXData.GetContentKey(contentType)] *)
Definition getContentKey (p : cpix) (ctype : Z) : res contentKey :=
  match cp_keys p with
  | [k] => Ok k
  | ks =>
    match findRule ctype (cp_rules p) with
    | None => Err "no key found for content type"
    | Some kid =>
      if lenZ kid =? 0 then Err "no key found for content type" else
      match findKey kid ks with
      | Some k => Ok k
      | None => Err "no key found for content type"
      end
    end
  end.

(** DRM mode of the request: eccp-cenc / eccp-cbcs (ClearKey) or a configured CPIX package. *)
Inductive drmMode := Eccp (scheme : Z) | Cpix (p : cpix).

Definition defaultIV : bytes := [0; 1; 2; 3; 4; 5; 6; 7].

(** what protects a track: the key id written into tenc, the key and iv used by [EncryptFragment],
    the scheme *)
Record protection := { p_kid : bytes; p_key : bytes; p_iv : bytes; p_scheme : Z }.

(** The selection functions are written over the string hash [kfs] (the role of
    [kidFromString]) so that the theorems can say what they need of it; the model of the code is
    the instance [kfs := kidFromString]. *)
Section Selection.
  Variable kfs : bytes -> bytes.

  (** [addEncryption] (at load): keyID = kidFromString(asset directory name), key = kidToKey keyID. *)
  Definition repKidG (assetName : bytes) : bytes := kfs assetName.

  (** the tenc default_KID of the init segment served by [matchInit], with its scheme *)
  Definition initProtectionG (mode : drmMode) (assetName : bytes) (ctype : Z) : res (bytes * Z) :=
    match mode with
    | Eccp scheme => Ok (repKidG assetName, scheme)
    | Cpix p => do k <- getContentKey p ctype ; Ok (ck_kid k, ck_scheme k)
    end.

  (** [encryptFrags]: what the fragments are encrypted with *)
  Definition fragProtectionG (mode : drmMode) (assetName : bytes) (ctype : Z) : res protection :=
    match mode with
    | Eccp scheme =>
      do key <- kidToKey (repKidG assetName) ;
      Ok {| p_kid := repKidG assetName; p_key := key; p_iv := defaultIV; p_scheme := scheme |}
    | Cpix p =>
      do k <- getContentKey p ctype ;
      Ok {| p_kid := ck_kid k; p_key := ck_key k; p_iv := ck_iv k; p_scheme := ck_scheme k |}
    end.

  (** the default_KID (and scheme value) announced in the MPD for an adaptation set:
      ClearKey hashes the licence URL, CPIX takes the key of the content type *)
  Definition mpdProtectionG (mode : drmMode) (laURL : bytes) (ctype : Z) : res (bytes * Z) :=
    match mode with
    | Eccp scheme => Ok (kfs laURL, scheme)
    | Cpix p => do k <- getContentKey p ctype ; Ok (ck_kid k, ck_scheme k)
    end.
End Selection.

Definition repKid := repKidG kidFromString.
Definition initProtection := initProtectionG kidFromString.
Definition fragProtection := fragProtectionG kidFromString.
Definition mpdProtection := mpdProtectionG kidFromString.

(** [LiveMPD] with a drm parameter on a pre-encrypted asset is an error. *)
Definition liveMPDdrm (drmSet preEncrypted : bool) : res unit :=
  if drmSet && preEncrypted then Err "pre-encrypted asset cannot be encrypted again" else Ok tt.

(** [encryptFrags] leaves a track without encryption data (pre-encrypted, subtitles) alone
    (repair fb86caa). *)
Definition encryptsTrack (drmSet hasEncData : bool) : bool := drmSet && hasEncData.

(** [RepData.readInit]: the protection data of a representation ([addEncryption]) is prepared
    whenever its codec can be encrypted ([prepareForEncryption]: codecs starting with avc or mp4a.40), on both load
    paths - scanned from the files (media timescale still unknown) and restored from the stored
    representation metadata (timescale already set, the function returns early after this step). *)
Definition readInitPrepares (encryptableCodec timescaleKnown : bool) : bool := encryptableCodec.

(** mp4ff's handling of the iv (InitProtect / EncryptFragment): an 8-byte iv is padded with zeros
    to 16 bytes; [InitProtect] writes it as the constant IV of a cbcs tenc box as it is otherwise;
    [EncryptFragment] refuses any other length ("iv must be 16 bytes" -> the request is answered 500).
    A CPIX content key without explicitIV (the attribute is optional) has the empty iv. *)
Definition padIV (iv : bytes) : bytes := if lenZ iv =? 8 then iv ++ repeat 0 8 else iv.

(** the constant IV signalled by the served init segment (cbcs only) *)
Definition signalledIV (p : protection) : bytes := if p_scheme p =? 1 then padIV (p_iv p) else [].

(** does [encryptFrags] succeed, and with which iv *)
Definition fragmentIV (p : protection) : res bytes :=
  let iv := padIV (p_iv p) in
  if lenZ iv =? 16 then Ok iv else Err "iv must be 16 bytes".

(** [genLaURL]: [cfg.Host + strings.Join(cfg.URLParts[:cfg.URLContentIdx+1], "/") + "/eccp.json"] - the
    licence URL announced in the MPD keeps the whole configuration part of the request URL and the
    first path element of the asset. *)
Fixpoint joinSlash (l : list bytes) : bytes :=
  match l with
  | [] => []
  | [x] => x
  | x :: r => x ++ [47] ++ joinSlash r
  end.

Definition laURLSuffix : bytes := [47; 101; 99; 99; 112; 46; 106; 115; 111; 110].   (* "/eccp.json" *)

Definition genLaURL (host : bytes) (urlParts : list bytes) (contentIdx : Z) : bytes :=
  host ++ joinSlash (takeZ (contentIdx + 1) urlParts) ++ laURLSuffix.
