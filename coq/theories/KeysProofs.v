(** Proofs about the model of the key-id / base64 / key selection logic (C10). *)
From Verif Require Import GoSem GoSemFacts Keys.
From Coq Require Import ZifyBool.
Ltac Zify.zify_post_hook ::= Z.div_mod_to_equations.

Definition byte (z : Z) : Prop := 0 <= z < 256.

(** * base64 *)
Lemma val_ch i : 0 <= i < 64 -> val (ch i) = Some i.
Proof.
  intros H. unfold ch.
  destruct (i <? 26) eqn:E1.
  { unfold val. replace ((65 <=? 65 + i) && (65 + i <=? 90)) with true by lia. f_equal. lia. }
  destruct (i <? 52) eqn:E2.
  { unfold val. replace ((65 <=? 97 + (i - 26)) && (97 + (i - 26) <=? 90)) with false by lia.
    replace ((97 <=? 97 + (i - 26)) && (97 + (i - 26) <=? 122)) with true by lia. f_equal. lia. }
  destruct (i <? 62) eqn:E3.
  { unfold val. replace ((65 <=? 48 + (i - 52)) && (48 + (i - 52) <=? 90)) with false by lia.
    replace ((97 <=? 48 + (i - 52)) && (48 + (i - 52) <=? 122)) with false by lia.
    replace ((48 <=? 48 + (i - 52)) && (48 + (i - 52) <=? 57)) with true by lia. f_equal. lia. }
  destruct (i =? 62) eqn:E4.
  { assert (i = 62) by lia. subst i. reflexivity. }
  assert (i = 63) by lia. subst i. reflexivity.
Qed.

Lemma ch_range i : 0 <= i < 64 ->
  ch i <> pad /\ is_nl (ch i) = false /\ ch i <> 45 /\ ch i <> 95 /\ 0 <= ch i < 256.
Proof.
  intros H. unfold ch, pad, is_nl.
  destruct (i <? 26) eqn:E1; [lia|]. destruct (i <? 52) eqn:E2; [lia|].
  destruct (i <? 62) eqn:E3; [lia|]. destruct (i =? 62) eqn:E4; lia.
Qed.

(** the alphabet characters *)
Definition alpha (c : Z) : Prop := exists i, 0 <= i < 64 /\ c = ch i.

(** encoding without the padding characters *)
Fixpoint b64core (l : bytes) : bytes :=
  match l with
  | a :: b :: c :: r =>
    ch (a / 4) :: ch ((a mod 4) * 16 + b / 16) :: ch ((b mod 16) * 4 + c / 64) :: ch (c mod 64) :: b64core r
  | [a; b] => [ch (a / 4); ch ((a mod 4) * 16 + b / 16); ch ((b mod 16) * 4)]
  | [a] => [ch (a / 4); ch ((a mod 4) * 16)]
  | [] => []
  end.

Lemma list_ind3 {A} (P : list A -> Prop) :
  P [] -> (forall a, P [a]) -> (forall a b, P [a; b]) ->
  (forall a b c r, P r -> P (a :: b :: c :: r)) -> forall l, P l.
Proof.
  intros H0 H1 H2 H3. fix IH 1. intros [|a [|b [|c r]]]; [exact H0|apply H1|apply H2|apply H3; apply IH].
Qed.

Lemma alpha_ch i : 0 <= i < 64 -> alpha (ch i).
Proof. intros H. exists i. split; [exact H|reflexivity]. Qed.

Lemma b64core_alpha bs : Forall byte bs -> Forall alpha (b64core bs).
Proof.
  unfold byte. induction bs as [| a | a b | a b c r IH] using list_ind3; intros H; cbn [b64core].
  - constructor.
  - inversion H; subst. repeat constructor; apply alpha_ch; lia.
  - inversion H as [|? ? Ha H']; subst. inversion H'; subst. repeat constructor; apply alpha_ch; lia.
  - inversion H as [|? ? Ha H']; subst. inversion H' as [|? ? Hb H'']; subst. inversion H'' as [|? ? Hc Hr]; subst.
    repeat (constructor; [apply alpha_ch; lia|]). apply IH. exact Hr.
Qed.

Lemma remove_pad_alpha c : alpha c -> negb (c =? pad) = true.
Proof. intros (i & Hi & ->). destruct (ch_range i Hi) as (A & _). lia. Qed.

Lemma b64encode_core bs : Forall byte bs -> remove1 pad (b64encode bs) = b64core bs.
Proof.
  unfold byte, remove1. induction bs as [| a | a b | a b c r IH] using list_ind3; intros H; cbn [b64encode b64core filter].
  - reflexivity.
  - inversion H; subst.
    rewrite !remove_pad_alpha by (apply alpha_ch; lia). reflexivity.
  - inversion H as [|? ? Ha H']; subst. inversion H'; subst.
    rewrite !remove_pad_alpha by (apply alpha_ch; lia). reflexivity.
  - inversion H as [|? ? Ha H']; subst. inversion H' as [|? ? Hb H'']; subst. inversion H'' as [|? ? Hc Hr]; subst.
    rewrite !remove_pad_alpha by (apply alpha_ch; lia). rewrite IH by exact Hr. reflexivity.
Qed.

Lemma url_roundtrip s : Forall alpha s ->
  replace1 95 47 (replace1 45 43 (replace1 47 95 (replace1 43 45 s))) = s.
Proof.
  unfold replace1. induction 1 as [|c s Hc Hs IH]; [reflexivity|]. cbn [map]. rewrite IH. f_equal.
  destruct Hc as (i & Hi & ->). destruct (ch_range i Hi) as (_ & _ & A & B & _).
  destruct (ch i =? 43) eqn:E1.
  - assert (ch i = 43) by lia. cbn. rewrite H. reflexivity.
  - destruct (ch i =? 47) eqn:E2.
    + assert (ch i = 47) by lia. rewrite H. reflexivity.
    + destruct (ch i =? 45) eqn:E3; [lia|]. destruct (ch i =? 95) eqn:E4; [lia|]. reflexivity.
Qed.

Definition repad (s : bytes) : bytes :=
  let missing := 4 - lenZ s mod 4 in
  if missing =? 4 then s else s ++ repeat pad (Z.to_nat missing).

Lemma repad_cons4 a b c d s : repad (a :: b :: c :: d :: s) = a :: b :: c :: d :: repad s.
Proof.
  unfold repad. rewrite !lenZ_cons.
  assert (E : (1 + (1 + (1 + (1 + lenZ s)))) mod 4 = lenZ s mod 4) by (pose proof (lenZ_nonneg s); lia).
  rewrite E. destruct (4 - lenZ s mod 4 =? 4); reflexivity.
Qed.

Lemma repad_core bs : repad (b64core bs) = b64encode bs.
Proof.
  induction bs as [| a | a b | a b c r IH] using list_ind3; cbn [b64core b64encode].
  - reflexivity.
  - reflexivity.
  - reflexivity.
  - rewrite repad_cons4, IH. reflexivity.
Qed.

(** [unpackBase64] undoes [PackBase64] up to the standard encoding. *)
Lemma unpack_pack bs : Forall byte bs -> unpackBase64 (packBase64 bs) = b64encode bs.
Proof.
  intros H. unfold unpackBase64, packBase64. rewrite (b64encode_core bs H).
  rewrite (url_roundtrip _ (b64core_alpha bs H)). apply repad_core.
Qed.

Lemma filter_nl_alpha s : Forall alpha s -> filter (fun c => negb (is_nl c)) s = s.
Proof.
  induction 1 as [|c s Hc Hs IH]; [reflexivity|]. cbn [filter].
  destruct Hc as (i & Hi & ->). destruct (ch_range i Hi) as (_ & A & _). rewrite A. cbn. now rewrite IH.
Qed.

Lemma b64quanta_encode bs : Forall byte bs -> b64quanta (b64encode bs) = Ok bs.
Proof.
  unfold byte. induction bs as [| a | a b | a b c r IH] using list_ind3; intros H; cbn [b64encode b64quanta].
  - reflexivity.
  - inversion H; subst. rewrite !val_ch by lia. cbn [pad]. rewrite !Z.eqb_refl. cbn [andb]. do 2 f_equal. lia.
  - inversion H as [|? ? Ha H']; subst. inversion H'; subst.
    rewrite !val_ch by lia.
    destruct (ch_range ((b mod 16) * 4) ltac:(lia)) as (A & _).
    destruct (ch ((b mod 16) * 4) =? pad) eqn:E; [lia|]. rewrite Z.eqb_refl. do 2 f_equal; [lia|f_equal; lia].
  - inversion H as [|? ? Ha H']; subst. inversion H' as [|? ? Hb H'']; subst. inversion H'' as [|? ? Hc Hr]; subst.
    rewrite !val_ch by lia.
    destruct (ch_range ((b mod 16) * 4 + c / 64) ltac:(lia)) as (A & _).
    destruct (ch_range (c mod 64) ltac:(lia)) as (B & _).
    destruct (ch ((b mod 16) * 4 + c / 64) =? pad) eqn:E1; [lia|].
    destruct (ch (c mod 64) =? pad) eqn:E2; [lia|].
    rewrite IH by exact Hr. cbn [bind]. do 2 f_equal; [lia|f_equal; [lia|f_equal; lia]].
Qed.

Lemma b64encode_alpha_or_pad bs : Forall byte bs -> filter (fun c => negb (is_nl c)) (b64encode bs) = b64encode bs.
Proof.
  unfold byte. induction bs as [| a | a b | a b c r IH] using list_ind3; intros H; cbn [b64encode filter].
  - reflexivity.
  - inversion H; subst.
    destruct (ch_range (a / 4) ltac:(lia)) as (_ & A & _). destruct (ch_range ((a mod 4) * 16) ltac:(lia)) as (_ & B & _).
    rewrite A, B. reflexivity.
  - inversion H as [|? ? Ha H']; subst. inversion H'; subst.
    destruct (ch_range (a / 4) ltac:(lia)) as (_ & A & _). destruct (ch_range ((a mod 4) * 16 + b / 16) ltac:(lia)) as (_ & B & _).
    destruct (ch_range ((b mod 16) * 4) ltac:(lia)) as (_ & D & _).
    rewrite A, B, D. reflexivity.
  - inversion H as [|? ? Ha H']; subst. inversion H' as [|? ? Hb H'']; subst. inversion H'' as [|? ? Hc Hr]; subst.
    destruct (ch_range (a / 4) ltac:(lia)) as (_ & A & _). destruct (ch_range ((a mod 4) * 16 + b / 16) ltac:(lia)) as (_ & B & _).
    destruct (ch_range ((b mod 16) * 4 + c / 64) ltac:(lia)) as (_ & D & _). destruct (ch_range (c mod 64) ltac:(lia)) as (_ & F & _).
    rewrite A, B, D, F. cbn [negb]. rewrite IH by exact Hr. reflexivity.
Qed.

Lemma decode_encode bs : Forall byte bs -> b64decode (b64encode bs) = Ok bs.
Proof. intros H. unfold b64decode. rewrite (b64encode_alpha_or_pad bs H). apply b64quanta_encode. exact H. Qed.

(** Round trip for every byte string, and for key ids (16 bytes) through the two readers. *)
Lemma b64_roundtrip_any bs : Forall byte bs -> b64decode (unpackBase64 (packBase64 bs)) = Ok bs.
Proof. intros H. rewrite (unpack_pack bs H). apply decode_encode. exact H. Qed.

Lemma b64_roundtrip k : Forall byte k -> lenZ k = 16 ->
  id16FromBase64 (unpackBase64 (packBase64 k)) = Ok k /\ id16FromTruncatedBase64 (packBase64 k) = Ok k /\
  id16FromBase64 (b64encode k) = Ok k.
Proof.
  intros H L. unfold id16FromTruncatedBase64, id16FromBase64.
  rewrite (b64_roundtrip_any k H), (decode_encode k H). cbn [bind]. rewrite L. cbn. auto.
Qed.

(** the packed form is URL safe: no '+', '/', '=' *)
Lemma pack_urlsafe bs : Forall byte bs -> Forall (fun c => c <> 43 /\ c <> 47 /\ c <> pad) (packBase64 bs).
Proof.
  intros H. unfold packBase64. rewrite (b64encode_core bs H).
  pose proof (b64core_alpha bs H) as A. unfold replace1. rewrite !Forall_map.
  eapply Forall_impl; [|exact A]. cbn beta. intros c (i & Hi & ->). destruct (ch_range i Hi) as (P & _).
  destruct (ch i =? 43) eqn:E1; destruct (ch i =? 47) eqn:E2; cbn; unfold pad in *; lia.
Qed.

(** * key <-> key id *)
Lemma bytes_eqb_eq a : forall b, bytes_eqb a b = true <-> a = b.
Proof.
  unfold bytes_eqb. induction a as [|x a IH]; intros [|y b]; cbn [list_eqb]; split; intros H; try reflexivity; try discriminate.
  - apply andb_prop in H. destruct H as [H1 H2]. apply IH in H2. f_equal; [lia|exact H2].
  - injection H as -> ->. apply andb_true_intro. split; [lia|]. now apply IH.
Qed.

Lemma bytes_eqb_refl a : bytes_eqb a a = true.
Proof. now apply bytes_eqb_eq. Qed.

Lemma kidToKey_ok kid : firstn 3 kid = kidStart -> kidToKey kid = Ok (keyStart ++ skipn 3 kid).
Proof. intros H. unfold kidToKey. rewrite H, bytes_eqb_refl. reflexivity. Qed.

Lemma kidToKey_panics kid : firstn 3 kid <> kidStart -> is_panic (kidToKey kid) = true.
Proof.
  intros H. unfold kidToKey. destruct (bytes_eqb (firstn 3 kid) kidStart) eqn:E; [|reflexivity].
  apply bytes_eqb_eq in E. contradiction.
Qed.

Lemma key_algebra kid : firstn 3 kid = kidStart ->
  exists key, kidToKey kid = Ok key /\ keyToKid key = Ok kid /\
              firstn 3 key = keyStart /\ skipn 3 key = skipn 3 kid /\ length key = length kid.
Proof.
  intros H. exists (keyStart ++ skipn 3 kid). split; [now apply kidToKey_ok|].
  assert (L : (3 <= length kid)%nat).
  { destruct kid as [|a [|b [|c r]]]; try discriminate; cbn; lia. }
  split.
  - unfold keyToKid. cbn [keyStart app firstn]. rewrite bytes_eqb_refl. cbn [skipn]. f_equal.
    rewrite <- H. apply firstn_skipn.
  - split; [reflexivity|]. split; [reflexivity|].
    rewrite app_length, skipn_length. cbn. lia.
Qed.

Lemma keyToKid_inverse key : firstn 3 key = keyStart -> 
  exists kid, keyToKid key = Ok kid /\ kidToKey kid = Ok key.
Proof.
  intros H. exists (kidStart ++ skipn 3 key). unfold keyToKid. rewrite H, bytes_eqb_refl. split; [reflexivity|].
  unfold kidToKey. cbn [kidStart app firstn]. rewrite bytes_eqb_refl. cbn [skipn]. f_equal.
  rewrite <- H. apply firstn_skipn.
Qed.

(** * kidFromString as the code computes it *)
Lemma kidFromString_const s t : kidFromString s = kidFromString t.
Proof. reflexivity. Qed.

Lemma kidFromString_wf s : firstn 3 (kidFromString s) = kidStart /\ lenZ (kidFromString s) = 16 /\ Forall byte (kidFromString s).
Proof. split; [reflexivity|]. split; [reflexivity|]. unfold byte. repeat constructor; cbn; lia. Qed.

(** * Licence handler *)
Lemma urlSafe_pack bs : Forall byte bs -> urlSafeBase64 (packBase64 bs) = packBase64 bs.
Proof.
  intros H. pose proof (pack_urlsafe bs H) as P. unfold urlSafeBase64.
  assert (E1 : remove1 pad (packBase64 bs) = packBase64 bs).
  { unfold remove1. induction P as [|c s (A & B & D) Hs IH]; [reflexivity|]. cbn [filter].
    destruct (c =? pad) eqn:E; [lia|]. cbn. now rewrite IH. }
  rewrite E1. unfold replace1.
  induction P as [|c s (A & B & D) Hs IH]; [reflexivity|]. cbn [map].
  destruct (c =? 43) eqn:F1; [lia|]. destruct (c =? 47) eqn:F2; [lia|].
  f_equal. apply IH. unfold remove1 in *. cbn [filter] in E1. destruct (c =? pad) eqn:E; [lia|]. cbn in E1. now injection E1.
Qed.

Lemma urlSafe_encode bs : Forall byte bs -> urlSafeBase64 (b64encode bs) = packBase64 bs.
Proof. reflexivity. Qed.

(** A key id issued by livesim2 (16 bytes, prefix kidStart), requested in the URL-safe unpadded
    flavour ([PackBase64], what the MPD's default_KID is turned into by a DASH client) or in the
    standard padded flavour, is answered with its key, both in URL-safe unpadded base64. *)
Lemma laResponse_issued kid : Forall byte kid -> lenZ kid = 16 -> firstn 3 kid = kidStart ->
  exists key, kidToKey kid = Ok key /\
    laResponse [packBase64 kid] = Ok [(packBase64 kid, packBase64 key)] /\
    laResponse [b64encode kid] = Ok [(packBase64 kid, packBase64 key)] /\
    id16FromTruncatedBase64 (packBase64 key) = Ok key.
Proof.
  intros Hb L Hp. destruct (key_algebra kid Hp) as (key & K1 & K2 & K3 & K4 & K5).
  exists key. split; [exact K1|].
  assert (Hkb : Forall byte key).
  { assert (Ek : key = keyStart ++ skipn 3 kid) by (pose proof (kidToKey_ok kid Hp) as K1'; congruence).
    rewrite Ek. apply Forall_app. split.
    - unfold byte. repeat constructor; cbn; lia.
    - rewrite <- (firstn_skipn 3 kid) in Hb. apply Forall_app in Hb. tauto. }
  assert (Hkl : lenZ key = 16) by (unfold lenZ in *; lia).
  destruct (b64_roundtrip kid Hb L) as (R1 & R2 & R3).
  destruct (b64_roundtrip key Hkb Hkl) as (_ & R5 & _).
  assert (Hne : negb (bytes_eqb (firstn 3 kid) kidStart) = false) by (rewrite Hp, bytes_eqb_refl; reflexivity).
  split; [|split; [|exact R5]].
  - cbn [laResponse]. rewrite R1, Hne, K1. cbn [bind]. rewrite (unpack_pack kid Hb).
    rewrite (urlSafe_encode kid Hb), (urlSafe_pack key Hkb). reflexivity.
  - cbn [laResponse].
    assert (U : unpackBase64 (b64encode kid) = b64encode kid).
    { rewrite <- (unpack_pack kid Hb) at 2. unfold unpackBase64 at 1.
      (* the standard encoding has no '-' or '_' and is already a multiple of four long *)
      rewrite <- (repad_core kid).
      assert (A : Forall (fun c => c <> 45 /\ c <> 95) (repad (b64core kid))).
      { rewrite repad_core. rewrite <- (repad_core kid). unfold repad.
        pose proof (b64core_alpha kid Hb) as Al.
        assert (A1 : Forall (fun c => c <> 45 /\ c <> 95) (b64core kid)).
        { eapply Forall_impl; [|exact Al]. cbn beta. intros c (i & Hi & ->). destruct (ch_range i Hi) as (_ & _ & X & Y & _). split; assumption. }
        destruct (4 - lenZ (b64core kid) mod 4 =? 4); [exact A1|]. apply Forall_app. split; [exact A1|].
        clear. induction (Z.to_nat (4 - lenZ (b64core kid) mod 4)); cbn; constructor; [unfold pad; lia|assumption]. }
      assert (M : replace1 95 47 (replace1 45 43 (repad (b64core kid))) = repad (b64core kid)).
      { unfold replace1. induction A as [|c s (X & Y) Hs IH]; [reflexivity|]. cbn [map].
        destruct (c =? 45) eqn:E1; [lia|]. destruct (c =? 95) eqn:E2; [lia|]. now rewrite IH. }
      rewrite M. rewrite repad_core.
      (* length of the standard encoding is a multiple of 4 *)
      assert (L4 : lenZ (b64encode kid) mod 4 = 0).
      { clear. induction kid as [| a | a b | a b c r IH] using list_ind3; cbn [b64encode]; try reflexivity.
        rewrite !lenZ_cons. pose proof (lenZ_nonneg (b64encode r)). lia. }
      rewrite L4. cbn. rewrite (unpack_pack kid Hb). reflexivity. }
    rewrite U, R3, Hne, K1. cbn [bind]. rewrite (urlSafe_encode kid Hb), (urlSafe_pack key Hkb). reflexivity.
Qed.

(** A foreign key id (16 bytes, another prefix) is refused with 400, never a panic. *)
Lemma laResponse_foreign kid rest : Forall byte kid -> lenZ kid = 16 -> firstn 3 kid <> kidStart ->
  laResponse (packBase64 kid :: rest) = Err "400".
Proof.
  intros Hb L Hp. cbn [laResponse]. destruct (b64_roundtrip kid Hb L) as (R1 & _). rewrite R1.
  destruct (bytes_eqb (firstn 3 kid) kidStart) eqn:E; [apply bytes_eqb_eq in E; contradiction|]. reflexivity.
Qed.

Lemma list_ind4 {A} (P : list A -> Prop) :
  P [] -> (forall a, P [a]) -> (forall a b, P [a; b]) -> (forall a b c, P [a; b; c]) ->
  (forall a b c d r, P r -> P (a :: b :: c :: d :: r)) -> forall l, P l.
Proof.
  intros H0 H1 H2 H3 H4. fix IH 1. intros [|a [|b [|c [|d r]]]]; [exact H0|apply H1|apply H2|apply H3|apply H4; apply IH].
Qed.

Lemma b64quanta_no_panic l : is_panic (b64quanta l) = false.
Proof.
  induction l as [| a | a b | a b c | c0 c1 c2 c3 r IH] using list_ind4; try reflexivity.
  cbn [b64quanta]. destruct (val c0); [|reflexivity]. destruct (val c1); [|reflexivity].
  destruct (c2 =? pad). { destruct ((c3 =? pad) && match r with [] => true | _ => false end); reflexivity. }
  destruct (val c2); [|reflexivity]. destruct (c3 =? pad). { destruct r; reflexivity. }
  destruct (val c3); [|reflexivity]. destruct (b64quanta r); cbn in *; try reflexivity; discriminate.
Qed.

Lemma id16FromBase64_no_panic s : is_panic (id16FromBase64 s) = false.
Proof.
  unfold id16FromBase64, b64decode. pose proof (b64quanta_no_panic (filter (fun c => negb (is_nl c)) s)) as H.
  destruct (b64quanta (filter (fun c => negb (is_nl c)) s)); cbn in *; try reflexivity; try discriminate.
  destruct (lenZ a =? 16); reflexivity.
Qed.

(** The licence handler cannot panic, whatever is requested (repair 6239920). *)
Lemma laResponse_no_panic kids : is_panic (laResponse kids) = false.
Proof.
  induction kids as [|k r IH]; [reflexivity|]. cbn [laResponse].
  pose proof (id16FromBase64_no_panic (unpackBase64 k)) as NP.
  destruct (id16FromBase64 (unpackBase64 k)) as [kid16|e|s] eqn:E; [|reflexivity|discriminate].
  destruct (bytes_eqb (firstn 3 kid16) kidStart) eqn:E1; cbn [negb]; [|reflexivity].
  apply bytes_eqb_eq in E1. rewrite (kidToKey_ok kid16 E1). cbn [bind].
  destruct (laResponse r); cbn in *; try reflexivity; discriminate.
Qed.

(** * Key selection: MPD, init segment, fragment encryption and licence agree *)
Section Licence.
  Variable kfs : bytes -> bytes.
  (** what the code guarantees of its string hash: 16 bytes with the kid prefix *)
  Hypothesis kfs_wf : forall s, firstn 3 (kfs s) = kidStart /\ lenZ (kfs s) = 16 /\ Forall byte (kfs s).

  (** ClearKey: under [kfs laURL = kfs assetName] the MPD's default_KID is the tenc default_KID of
      the init segment, the licence handler - asked for that id in either base64 flavour -
      returns exactly the key the fragments are encrypted with, and the client reads it back. *)
  Lemma licence_eccp scheme assetName laURL ctype :
    kfs laURL = kfs assetName ->
    exists kid key,
      mpdProtectionG kfs (Eccp scheme) laURL ctype = Ok (kid, scheme) /\
      initProtectionG kfs (Eccp scheme) assetName ctype = Ok (kid, scheme) /\
      fragProtectionG kfs (Eccp scheme) assetName ctype =
        Ok {| p_kid := kid; p_key := key; p_iv := defaultIV; p_scheme := scheme |} /\
      laResponse [packBase64 kid] = Ok [(packBase64 kid, packBase64 key)] /\
      laResponse [b64encode kid] = Ok [(packBase64 kid, packBase64 key)] /\
      id16FromTruncatedBase64 (packBase64 key) = Ok key.
  Proof.
    intros H. destruct (kfs_wf assetName) as (P & L & B).
    destruct (laResponse_issued (kfs assetName) B L P) as (key & K & R1 & R2 & R3).
    exists (kfs assetName), key. cbn [mpdProtectionG initProtectionG fragProtectionG]. unfold repKidG.
    rewrite H, K. cbn [bind]. repeat split; assumption.
  Qed.

  (** The hypothesis is forced: with different hashes for the licence URL and the asset name the
      MPD announces another id than the init segment carries. *)
  Lemma licence_eccp_needs_equal_hash scheme assetName laURL ctype :
    kfs laURL <> kfs assetName ->
    forall k1 s1 k2 s2,
    mpdProtectionG kfs (Eccp scheme) laURL ctype = Ok (k1, s1) ->
    initProtectionG kfs (Eccp scheme) assetName ctype = Ok (k2, s2) -> k1 <> k2.
  Proof.
    intros H k1 s1 k2 s2 E1 E2. cbn in E1, E2. unfold repKidG in E2. congruence.
  Qed.

  (** CPIX: MPD, init segment and fragment encryption take the same content key for a content
      type (one key for everything, or one per track type through the usage rules). *)
  Lemma cpix_agree p assetName laURL ctype :
    match getContentKey p ctype with
    | Ok k =>
      mpdProtectionG kfs (Cpix p) laURL ctype = Ok (ck_kid k, ck_scheme k) /\
      initProtectionG kfs (Cpix p) assetName ctype = Ok (ck_kid k, ck_scheme k) /\
      fragProtectionG kfs (Cpix p) assetName ctype =
        Ok {| p_kid := ck_kid k; p_key := ck_key k; p_iv := ck_iv k; p_scheme := ck_scheme k |}
    | Err e =>
      mpdProtectionG kfs (Cpix p) laURL ctype = Err e /\ initProtectionG kfs (Cpix p) assetName ctype = Err e /\
      fragProtectionG kfs (Cpix p) assetName ctype = Err e
    | Panic s => False
    end.
  Proof.
    cbn [mpdProtectionG initProtectionG fragProtectionG].
    destruct (getContentKey p ctype) as [k|e|s] eqn:E; cbn [bind]; try (repeat split; reflexivity).
    unfold getContentKey in E. destruct (cp_keys p) as [|k0 [|k1 r]]; try discriminate;
      destruct (findRule ctype (cp_rules p)); try discriminate;
      destruct (lenZ b =? 0); try discriminate; destruct (findKey b _); discriminate.
  Qed.
End Licence.

(** [getContentKey] with two keys and usage rules video -> k1, audio -> k2 *)
Lemma getContentKey_two k1 k2 :
  bytes_eqb (ck_kid k1) (ck_kid k2) = false -> lenZ (ck_kid k1) <> 0 -> lenZ (ck_kid k2) <> 0 ->
  let p := {| cp_keys := [k1; k2]; cp_rules := [ {| ur_kid := ck_kid k1; ur_type := 0 |}; {| ur_kid := ck_kid k2; ur_type := 1 |} ] |} in
  getContentKey p 0 = Ok k1 /\ getContentKey p 1 = Ok k2.
Proof.
  intros H L1 L2. cbv zeta. unfold getContentKey. cbn [cp_keys cp_rules findRule ur_type ur_kid].
  change (0 =? 0) with true. change (0 =? 1) with false. change (1 =? 1) with true. cbv iota.
  destruct (lenZ (ck_kid k1) =? 0) eqn:E1; [lia|]. destruct (lenZ (ck_kid k2) =? 0) eqn:E2; [lia|].
  cbn [findKey]. rewrite !bytes_eqb_refl, H. split; reflexivity.
Qed.

(** * Decryption under the cipher oracle *)
Section Cipher.
  (** [enc key iv scheme i x]: sample number [i] of a fragment (cenc derives the per-sample iv from
      the fragment's first iv and [i]; cbcs uses the constant iv), [dec] its inverse: the assumed
      behaviour of mp4ff's EncryptFragment / DecryptFragment with the senc box it writes. *)
  Variable enc dec : bytes -> bytes -> Z -> nat -> bytes -> bytes.
  Hypothesis dec_enc : forall key iv scheme i x, dec key iv scheme i (enc key iv scheme i x) = x.

  Fixpoint mapi {A B} (f : nat -> A -> B) (i : nat) (l : list A) : list B :=
    match l with [] => [] | x :: r => f i x :: mapi f (S i) r end.

  (** [encryptFrags]: every fragment (the whole segment, or every chunk) is encrypted on its own *)
  Definition encryptFragments (p : protection) (frags : list (list bytes)) : list (list bytes) :=
    map (mapi (enc (p_key p) (p_iv p) (p_scheme p)) 0) frags.

  (** the client: key from the licence, iv and scheme as signalled by the init segment / senc *)
  Definition decryptFragments (key iv : bytes) (scheme : Z) (frags : list (list bytes)) : list (list bytes) :=
    map (mapi (dec key iv scheme) 0) frags.

  Lemma mapi_dec_enc key iv scheme : forall l i, mapi (dec key iv scheme) i (mapi (enc key iv scheme) i l) = l.
  Proof. induction l as [|x r IH]; intros i; [reflexivity|]. cbn [mapi]. now rewrite dec_enc, IH. Qed.

  Lemma decrypt_encrypt p frags :
    decryptFragments (p_key p) (p_iv p) (p_scheme p) (encryptFragments p frags) = frags.
  Proof.
    unfold decryptFragments, encryptFragments. rewrite map_map.
    induction frags as [|f r IH]; [reflexivity|]. cbn [map]. now rewrite mapi_dec_enc, IH.
  Qed.

  (** ClearKey end to end: the key a client obtains from the licence endpoint for the MPD's
      default_KID decrypts every fragment (whole segment or chunks) to the clear payloads. *)
  Lemma decrypt_eccp (kfs : bytes -> bytes) scheme assetName laURL ctype frags :
    (forall s, firstn 3 (kfs s) = kidStart /\ lenZ (kfs s) = 16 /\ Forall byte (kfs s)) ->
    kfs laURL = kfs assetName ->
    exists kid p kstr,
      mpdProtectionG kfs (Eccp scheme) laURL ctype = Ok (kid, scheme) /\
      fragProtectionG kfs (Eccp scheme) assetName ctype = Ok p /\
      laResponse [packBase64 kid] = Ok [(packBase64 kid, kstr)] /\
      exists key, id16FromTruncatedBase64 kstr = Ok key /\
        decryptFragments key (p_iv p) (p_scheme p) (encryptFragments p frags) = frags.
  Proof.
    intros W H. destruct (licence_eccp kfs W scheme assetName laURL ctype H) as (kid & key & A & B & D & R1 & R2 & R3).
    eexists kid, _, (packBase64 key). split; [exact A|]. split; [exact D|]. split; [exact R1|].
    exists key. split; [exact R3|]. apply (decrypt_encrypt {| p_kid := kid; p_key := key; p_iv := defaultIV; p_scheme := scheme |}).
  Qed.

  (** CPIX: the content key of the package for the announced id decrypts. *)
  Lemma decrypt_cpix (kfs : bytes -> bytes) pk assetName laURL ctype k frags :
    getContentKey pk ctype = Ok k ->
    exists p,
      mpdProtectionG kfs (Cpix pk) laURL ctype = Ok (ck_kid k, ck_scheme k) /\
      fragProtectionG kfs (Cpix pk) assetName ctype = Ok p /\ p_kid p = ck_kid k /\
      decryptFragments (ck_key k) (ck_iv k) (ck_scheme k) (encryptFragments p frags) = frags.
  Proof.
    intros E. pose proof (cpix_agree kfs pk assetName laURL ctype) as H. rewrite E in H. destruct H as (A & B & D).
    eexists. split; [exact A|]. split; [exact D|]. split; [reflexivity|].
    apply (decrypt_encrypt {| p_kid := ck_kid k; p_key := ck_key k; p_iv := ck_iv k; p_scheme := ck_scheme k |}).
  Qed.
End Cipher.

(** * Pre-encrypted assets *)
Lemma preencrypted_refused : liveMPDdrm true true = Err "pre-encrypted asset cannot be encrypted again" /\
  (forall drm, encryptsTrack drm false = false) /\ liveMPDdrm false true = Ok tt /\ liveMPDdrm true false = Ok tt.
Proof. repeat split. intros []; reflexivity. Qed.

(** * Load paths *)
Lemma protection_independent_of_load_path enc : readInitPrepares enc true = readInitPrepares enc false /\ readInitPrepares true true = true.
Proof. split; reflexivity. Qed.

(** * The iv that encrypts is the iv that is signalled, or the segment is refused *)
Lemma served_iv_is_signalled p iv :
  fragmentIV p = Ok iv -> lenZ iv = 16 /\ (p_scheme p = 1 -> signalledIV p = iv).
Proof.
  unfold fragmentIV, signalledIV. destruct (lenZ (padIV (p_iv p)) =? 16) eqn:E; [|discriminate].
  intros H. injection H as <-. split; [lia|]. intros ->. reflexivity.
Qed.

Lemma missing_iv_refused p : p_iv p = [] -> exists e, fragmentIV p = Err e.
Proof. intros H. unfold fragmentIV, padIV. rewrite H. cbn. eexists. reflexivity. Qed.
