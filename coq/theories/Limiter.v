(** MODEL of cmd/livesim2/app/ipreqlimit.go (IPRequestLimiter, NewLimiterMiddleware,
    ipFromRequest) and handler_reqcount.go.  Executable transliteration, no proofs.

    Times are nanoseconds since the Unix epoch as [Z]; durations are int64 nanoseconds.
    Not modelled (Section parameters / arguments supplied by the caller):
      - net.ParseCIDR / net.ParseIP / IPNet.Contains: [whitelisted ip] stands for
        "some block of cidrBlocks contains ParseIP(ip)" (false when there are no blocks);
      - net.SplitHostPort / ParseIP / IP.String on req.RemoteAddr: [remote : option string];
      - dump() to the log file (no effect on the limiter state). *)
From Verif Require Import GoSem.
From Coq Require Import DecimalString.

(** time.Time.Sub saturates at the ends of the int64 Duration range. *)
Definition minDuration : Z := - two63.
Definition maxDuration : Z := two63 - 1.
Definition time_sub (t u : Z) : Z := Z.max minDuration (Z.min maxDuration (t - u)).

(** map[string]int as an association list without duplicate keys; a missing key reads 0. *)
Definition counters := list (string * Z).

Fixpoint cget (cs : counters) (ip : string) : Z :=
  match cs with
  | [] => 0
  | (k, v) :: t => if String.eqb k ip then v else cget t ip
  end.

Fixpoint cset (cs : counters) (ip : string) (v : Z) : counters :=
  match cs with
  | [] => [(ip, v)]
  | (k, w) :: t => if String.eqb k ip then (k, v) :: t else (k, w) :: cset t ip v
  end.

Record lstate := mkL { resetTime : Z; ctrs : counters }.

(** NewIPRequestLimiter (the CIDR parsing decides only between error and [whitelisted]). *)
Definition newLimiter (start : Z) : lstate := mkL start [].

(** fmt.Sprintf("%d", z) *)
Definition zstr (z : Z) : string := NilZero.string_of_int (Z.to_int z).

Section Limiter.
  Variable maxNr : Z.                      (* il.MaxNrRequests *)
  Variable interval : Z.                   (* il.Interval, nanoseconds *)
  Variable whitelisted : string -> bool.   (* exists b in il.cidrBlocks, b.Contains(net.ParseIP(ip)) *)

  (** ipreqlimit.go L95-101 *)
  Definition resets (s : lstate) (now : Z) : bool := time_sub now (resetTime s) >? interval.
  Definition maybe_reset (s : lstate) (now : Z) : lstate :=
    if resets s now then mkL now [] else s.

  (** L102: il.Counters[ip]++  (Go int is 64 bit: wraps) *)
  Definition bump (s : lstate) (ip : string) : lstate :=
    mkL (resetTime s) (cset (ctrs s) ip (i64 (cget (ctrs s) ip + 1))).

  (** L103-116 *)
  Definition verdict (s : lstate) (ip : string) : Z * Z * bool :=
    let nr := cget (ctrs s) ip in
    if whitelisted ip then (nr, -1, true) else (nr, maxNr, nr <=? maxNr).

  (** Inc: one critical section of il.mux *)
  Definition inc (s : lstate) (now : Z) (ip : string) : lstate * (Z * Z * bool) :=
    let s2 := bump (maybe_reset s now) ip in (s2, verdict s2 ip).

  (** Count: one critical section of il.mux *)
  Definition count (s : lstate) (ip : string) : Z := cget (ctrs s) ip.

  (** EndTime: il.ResetTime.Add(il.Interval) (no lock taken in the code) *)
  Definition endTime (s : lstate) : Z := resetTime s + interval.

  (** ipFromRequest: a non-empty X-Forwarded-For header wins, unparsed. *)
  Definition ipFromRequest (xff : string) (remote : option string) : option string :=
    if negb (String.eqb xff "") then Some xff else remote.

  (** fmt.Sprintf("%d (max %d)", count, maxNr) *)
  Definition hdr_text (c m : Z) : string := zstr c ++ " (max " ++ zstr m ++ ")".

  (** Outcome of the middleware for one request. *)
  Inductive mwres :=
  | MwBadIP                          (* "could not read client IP", next not called *)
  | MwReject (hdr : option string)   (* 429, next not called *)
  | MwPass (hdr : option string).    (* next.ServeHTTP called *)

  Definition middleware (hdrName : string) (s : lstate) (now : Z) (xff : string) (remote : option string)
    : lstate * mwres :=
    match ipFromRequest xff remote with
    | None => (s, MwBadIP)
    | Some ip =>
        let '(s2, (c, m, ok)) := inc s now ip in
        let h := if String.eqb hdrName "" then None else Some (hdr_text c m) in
        (s2, if ok then MwPass h else MwReject h)
    end.

  (** reqCountHandlerFunc (limiter configured): the numbers put into
      "%d (max %d) until %s"; note that it prints il.MaxNrRequests also for white-listed addresses. *)
  Definition reqcount (s : lstate) (xff : string) (remote : option string) : option (Z * Z * Z) :=
    match ipFromRequest xff remote with
    | None => None
    | Some ip => Some (count s ip, maxNr, endTime s)
    end.

  (** Operations of the object and their sequential execution. *)
  Inductive lop := OInc (now : Z) (ip : string) | OCount (ip : string) | OEndTime.
  Inductive lret := RInc (nr maxnr : Z) (ok : bool) | RCount (n : Z) | REndTime (t : Z).

  Definition apply_op (s : lstate) (o : lop) : lstate * lret :=
    match o with
    | OInc now ip => let '(s2, (c, m, ok)) := inc s now ip in (s2, RInc c m ok)
    | OCount ip => (s, RCount (count s ip))
    | OEndTime => (s, REndTime (endTime s))
    end.

  Fixpoint run_ops (s : lstate) (ops : list lop) : lstate * list lret :=
    match ops with
    | [] => (s, [])
    | o :: t => let '(s1, r) := apply_op s o in
                let '(s2, rs) := run_ops s1 t in (s2, r :: rs)
    end.

  (** Only the Inc calls: (now, ip) list -> returned triples. *)
  Fixpoint run_incs (s : lstate) (calls : list (Z * string)) : lstate * list (Z * Z * bool) :=
    match calls with
    | [] => (s, [])
    | (now, ip) :: t => let '(s1, r) := inc s now ip in
                        let '(s2, rs) := run_incs s1 t in (s2, r :: rs)
    end.
End Limiter.
