(** Specification and proofs for the request limiter model (Limiter.v), property C20. *)
From Verif Require Import GoSem GoSemFacts Limiter.
From Coq Require Import ZifyBool Permutation.

(** * Association-list map *)

Lemma cget_cset_same cs ip v : cget (cset cs ip v) ip = v.
Proof.
  induction cs as [|[k w] t IH]; cbn.
  - rewrite String.eqb_refl; auto.
  - destruct (String.eqb k ip) eqn:E; cbn; rewrite E; auto.
Qed.

Lemma cget_cset_other cs ip ip' v : ip <> ip' -> cget (cset cs ip v) ip' = cget cs ip'.
Proof.
  intros N; induction cs as [|[k w] t IH]; cbn.
  - destruct (String.eqb ip ip') eqn:E; auto. apply String.eqb_eq in E; contradiction.
  - destruct (String.eqb k ip) eqn:E; cbn.
    + apply String.eqb_eq in E; subst k.
      destruct (String.eqb ip ip') eqn:E2; auto. apply String.eqb_eq in E2; contradiction.
    + destruct (String.eqb k ip'); auto.
Qed.

Lemma i64_small z : 0 <= z < two63 -> i64 z = z.
Proof.
  intros H. unfold i64. rewrite Z.mod_small; [lia|]. unfold two63, two64 in *. lia.
Qed.

(** * Specification: epochs and the k-th call of an address *)

Definition call := (Z * string)%type.

Definition countZ (ip : string) (seen : list string) : Z := lenZ (filter (String.eqb ip) seen).

Lemma countZ_nil ip : countZ ip [] = 0.
Proof. reflexivity. Qed.

Lemma countZ_cons_same ip seen : countZ ip (ip :: seen) = 1 + countZ ip seen.
Proof. unfold countZ; cbn. rewrite String.eqb_refl. apply lenZ_cons. Qed.

Lemma countZ_cons_other ip ip' seen : ip <> ip' -> countZ ip' (ip :: seen) = countZ ip' seen.
Proof.
  intros N. unfold countZ; cbn. destruct (String.eqb ip' ip) eqn:E; auto.
  apply String.eqb_eq in E; congruence.
Qed.

Lemma countZ_bounds ip seen : 0 <= countZ ip seen <= lenZ seen.
Proof.
  unfold countZ. split; [apply lenZ_nonneg|].
  induction seen as [|x t IH]; [cbn; lia|]. cbn [filter].
  destruct (String.eqb ip x); rewrite ?lenZ_cons; lia.
Qed.

Definition cons_head {A} (c : A) (es : list (list A)) : list (list A) :=
  match es with [] => [[c]] | e :: r => (c :: e) :: r end.

Section Spec.
  Variable maxNr : Z.
  Variable interval : Z.
  Variable whitelisted : string -> bool.

  Local Notation inc := (inc maxNr interval whitelisted).
  Local Notation run_incs := (run_incs maxNr interval whitelisted).
  Local Notation verdict := (verdict maxNr whitelisted).
  Local Notation resets := (resets interval).
  Local Notation maybe_reset := (maybe_reset interval).

  (** What the k-th call of [ip] in an epoch must return. *)
  Definition out_k (k : Z) (ip : string) : Z * Z * bool :=
    (k, if whitelisted ip then -1 else maxNr, whitelisted ip || (k <=? maxNr)).

  (** The reset rule, stated on the call sequence alone: a call at [now] starts a new epoch iff
      [now - resetTime > interval] (saturating subtraction), and then [resetTime := now].
      [epochs rt calls] cuts [calls] into the maximal runs between resets; the first run
      (possibly empty) continues the epoch that is open at [rt]. *)
  Fixpoint epochs (rt : Z) (calls : list call) : list (list call) :=
    match calls with
    | [] => [[]]
    | (now, ip) :: t =>
        if time_sub now rt >? interval
        then [] :: cons_head (now, ip) (epochs now t)
        else cons_head (now, ip) (epochs rt t)
    end.

  (** Outputs required inside one epoch: the call of [ip] that has [seen] earlier calls is
      answered with k = 1 + number of earlier calls of [ip] in this epoch. *)
  Fixpoint epoch_outs (seen : list string) (ep : list call) : list (Z * Z * bool) :=
    match ep with
    | [] => []
    | (_, ip) :: t => out_k (1 + countZ ip seen) ip :: epoch_outs (ip :: seen) t
    end.

  Lemma epochs_nonempty rt calls : epochs rt calls <> [].
  Proof.
    destruct calls as [|[now ip] t]; cbn; [discriminate|].
    destruct (time_sub now rt >? interval); [discriminate|].
    destruct (epochs rt t); discriminate.
  Qed.

  Lemma concat_cons_head {A} (c : A) es : es <> [] -> concat (cons_head c es) = c :: concat es.
  Proof. destruct es; [congruence|reflexivity]. Qed.

  Lemma epochs_concat rt calls : concat (epochs rt calls) = calls.
  Proof.
    revert rt; induction calls as [|[now ip] t IH]; intros rt; cbn; auto.
    destruct (time_sub now rt >? interval); cbn;
      rewrite concat_cons_head by apply epochs_nonempty; rewrite IH; auto.
  Qed.

  (** Only the first epoch can be empty, and only a call that fulfils the reset condition
      opens a later epoch. *)
  Lemma epochs_later_nonempty rt calls e es :
    epochs rt calls = e :: es -> Forall (fun x => x <> []) es.
  Proof.
    revert rt e es; induction calls as [|[now ip] t IH]; intros rt e es; cbn.
    - intros H; inversion H; constructor.
    - destruct (time_sub now rt >? interval).
      + intros H; inversion H; subst. destruct (epochs now t) as [|e1 r] eqn:E; cbn.
        * constructor; [discriminate|constructor].
        * constructor; [discriminate|]. eapply IH; eauto.
      + destruct (epochs rt t) as [|e1 r] eqn:E; cbn; intros H; inversion H; subst.
        * constructor.
        * eapply IH; eauto.
  Qed.

  (** * The state represents the calls seen in the current epoch *)

  Definition repr (s : lstate) (seen : list string) : Prop :=
    forall ip, cget (ctrs s) ip = countZ ip seen.

  Lemma repr_new start : repr (newLimiter start) [].
  Proof. intros ip; reflexivity. Qed.

  Lemma bump_repr s seen ip :
    repr s seen -> lenZ seen + 1 < two63 ->
    repr (bump s ip) (ip :: seen) /\ verdict (bump s ip) ip = out_k (1 + countZ ip seen) ip.
  Proof.
    intros R B.
    assert (V : i64 (cget (ctrs s) ip + 1) = 1 + countZ ip seen).
    { rewrite R. pose proof (countZ_bounds ip seen). rewrite i64_small; lia. }
    split.
    - intros ip'. unfold bump; cbn [ctrs]. destruct (String.eqb ip ip') eqn:E.
      + apply String.eqb_eq in E; subst ip'. rewrite cget_cset_same, countZ_cons_same. exact V.
      + assert (ip <> ip') by (intros ->; rewrite String.eqb_refl in E; discriminate).
        rewrite cget_cset_other, countZ_cons_other by auto. apply R.
    - unfold Limiter.verdict, bump, out_k; cbn [ctrs]. rewrite cget_cset_same, V.
      destruct (whitelisted ip); reflexivity.
  Qed.

  Lemma run_incs_epochs : forall calls s seen,
    repr s seen -> lenZ seen + lenZ calls < two63 ->
    snd (run_incs s calls) =
    match epochs (resetTime s) calls with
    | e :: es => epoch_outs seen e ++ concat (map (epoch_outs []) es)
    | [] => []
    end.
  Proof.
    induction calls as [|[now ip] t IH]; intros s seen R B.
    - reflexivity.
    - rewrite lenZ_cons in B. pose proof (lenZ_nonneg t) as Ht. pose proof (lenZ_nonneg seen) as Hs.
      cbn [Limiter.run_incs epochs]. unfold Limiter.inc, Limiter.maybe_reset, Limiter.resets.
      destruct (time_sub now (resetTime s) >? interval) eqn:E.
      + (* reset *)
        destruct (bump_repr (mkL now []) [] ip) as [R1 V1].
        { intros x; reflexivity. } { unfold two63; cbn; lia. }
        specialize (IH (bump (mkL now []) ip) [ip] R1).
        destruct (Limiter.run_incs maxNr interval whitelisted (bump (mkL now []) ip) t) as [s2 rs].
        cbn [snd] in *. rewrite IH by (rewrite lenZ_cons, lenZ_nil; lia).
        cbn [bump resetTime]. rewrite V1.
        pose proof (epochs_nonempty now t) as NE.
        destruct (epochs now t) as [|e es]; [congruence|]. cbn. reflexivity.
      + destruct (bump_repr s seen ip R) as [R1 V1]; [lia|].
        specialize (IH (bump s ip) (ip :: seen) R1).
        destruct (Limiter.run_incs maxNr interval whitelisted (bump s ip) t) as [s2 rs].
        cbn [snd] in *. rewrite IH by (rewrite lenZ_cons; lia).
        cbn [bump resetTime]. rewrite V1.
        pose proof (epochs_nonempty (resetTime s) t) as NE.
        destruct (epochs (resetTime s) t) as [|e es]; [congruence|]. cbn. reflexivity.
  Qed.

  (** C20_interval *)
  Theorem limiter_interval : forall start calls,
    lenZ calls < two63 ->
    snd (run_incs (newLimiter start) calls) = concat (map (epoch_outs []) (epochs start calls)).
  Proof.
    intros start calls B.
    rewrite (run_incs_epochs calls (newLimiter start) []); [|apply repr_new|rewrite lenZ_nil; lia].
    cbn [newLimiter resetTime].
    pose proof (epochs_nonempty start calls).
    destruct (epochs start calls); [congruence|reflexivity].
  Qed.

  (** * Exactly the first [maxNr] calls of an address pass, each count once *)

  Definition outs_of (a : string) (seen : list string) (e : list call) : list (Z * Z * bool) :=
    map snd (filter (fun p : call * (Z * Z * bool) => String.eqb a (snd (fst p)))
                    (combine e (epoch_outs seen e))).

  Definition ncalls (a : string) (e : list call) : nat :=
    length (filter (fun c : call => String.eqb a (snd c)) e).

  Lemma outs_of_spec : forall e seen a,
    outs_of a seen e = map (fun k => out_k k a) (seqZ (1 + countZ a seen) (ncalls a e)).
  Proof.
    induction e as [|[now ip] t IH]; intros seen a; [reflexivity|].
    unfold outs_of, ncalls in *. cbn [epoch_outs combine filter fst snd].
    destruct (String.eqb a ip) eqn:E.
    - apply String.eqb_eq in E; subst ip. cbn [map length seqZ snd]. f_equal.
      rewrite IH. rewrite countZ_cons_same. do 2 f_equal. lia.
    - rewrite IH. rewrite countZ_cons_other; auto.
      intros ->. rewrite String.eqb_refl in E; discriminate.
  Qed.

  Lemma filter_le_seqZ : forall n s m,
    lenZ (filter (fun k => k <=? m) (seqZ s n)) = Z.max 0 (Z.min (Z.of_nat n) (m - s + 1)).
  Proof.
    induction n as [|n IH]; intros s m.
    - cbn. lia.
    - cbn [seqZ filter]. destruct (s <=? m) eqn:E.
      + rewrite lenZ_cons, IH. lia.
      + rewrite IH. lia.
  Qed.

  Definition o_count (o : Z * Z * bool) : Z := fst (fst o).
  Definition o_max (o : Z * Z * bool) : Z := snd (fst o).
  Definition o_ok (o : Z * Z * bool) : bool := snd o.

  Lemma map_count_outk a : forall n s, map o_count (map (fun k => out_k k a) (seqZ s n)) = seqZ s n.
  Proof. induction n as [|n IH]; intros s; cbn [seqZ map]; [auto|]. rewrite IH. reflexivity. Qed.

  Lemma map_ok_outk a : whitelisted a = false ->
    forall n s, map o_ok (map (fun k => out_k k a) (seqZ s n)) = map (fun k => k <=? maxNr) (seqZ s n).
  Proof.
    intros W. induction n as [|n IH]; intros s; cbn [seqZ map]; [auto|]. rewrite IH.
    unfold out_k, o_ok; cbn [snd]. rewrite W. reflexivity.
  Qed.

  Lemma filter_ok_outk a : whitelisted a = false ->
    forall n s, lenZ (filter o_ok (map (fun k => out_k k a) (seqZ s n))) =
                lenZ (filter (fun k => k <=? maxNr) (seqZ s n)).
  Proof.
    intros W. induction n as [|n IH]; intros s; cbn [seqZ map filter]; [auto|].
    unfold o_ok at 1, out_k at 1; cbn [snd]. rewrite W; cbn [orb].
    destruct (s <=? maxNr); rewrite ?lenZ_cons, IH; reflexivity.
  Qed.

  (** C20_exactly_first_max, on the specification of an epoch *)
  Lemma epoch_first_max : forall e a,
    whitelisted a = false ->
    let o := outs_of a [] e in
    let n := ncalls a e in
    map o_count o = seqZ 1 n /\
    map o_ok o = map (fun k => k <=? maxNr) (seqZ 1 n) /\
    lenZ (filter o_ok o) = Z.max 0 (Z.min (Z.of_nat n) maxNr).
  Proof.
    intros e a W o n. subst o n. rewrite outs_of_spec, countZ_nil.
    change (1 + 0) with 1.
    split; [apply map_count_outk|]. split; [apply map_ok_outk; auto|].
    rewrite filter_ok_outk, filter_le_seqZ by auto. lia.
  Qed.

  Theorem limiter_exactly_first_max : forall start calls,
    lenZ calls < two63 ->
    let eps := epochs start calls in
    concat eps = calls /\
    snd (run_incs (newLimiter start) calls) = concat (map (epoch_outs []) eps) /\
    forall e a, In e eps -> whitelisted a = false ->
      let o := outs_of a [] e in
      let n := ncalls a e in
      map o_count o = seqZ 1 n /\
      map o_ok o = map (fun k => k <=? maxNr) (seqZ 1 n) /\
      lenZ (filter o_ok o) = Z.max 0 (Z.min (Z.of_nat n) maxNr).
  Proof.
    intros start calls B eps. split; [apply epochs_concat|]. split; [apply limiter_interval; auto|].
    intros e a _ W. apply epoch_first_max; auto.
  Qed.

  (** * Reset only after the interval, and then completely *)

  Theorem limiter_reset_rule : forall s now ip,
    let s2 := fst (inc s now ip) in
    (time_sub now (resetTime s) <= interval ->
       resetTime s2 = resetTime s /\
       cget (ctrs s2) ip = i64 (cget (ctrs s) ip + 1) /\
       forall a, a <> ip -> cget (ctrs s2) a = cget (ctrs s) a) /\
    (time_sub now (resetTime s) > interval ->
       resetTime s2 = now /\ cget (ctrs s2) ip = 1 /\
       forall a, a <> ip -> cget (ctrs s2) a = 0).
  Proof.
    intros s now ip s2. subst s2. unfold Limiter.inc, Limiter.maybe_reset, Limiter.resets. cbn [fst].
    split; intros H.
    - replace (time_sub now (resetTime s) >? interval) with false by lia.
      unfold bump; cbn [resetTime ctrs]. split; [auto|]. split; [apply cget_cset_same|].
      intros a N. apply cget_cset_other; auto.
    - replace (time_sub now (resetTime s) >? interval) with true by lia.
      unfold bump; cbn [resetTime ctrs cget cset]. rewrite String.eqb_refl. split; [auto|]. split; [reflexivity|].
      intros a N. destruct (String.eqb ip a) eqn:E; auto. apply String.eqb_eq in E; congruence.
  Qed.

  (** Count and EndTime do not change the state; Count reads what Inc wrote. *)
  Lemma count_after_inc s now ip : count (fst (inc s now ip)) ip = fst (fst (snd (inc s now ip))).
  Proof.
    unfold Limiter.inc, Limiter.verdict, count. cbn [fst snd].
    destruct (whitelisted ip); reflexivity.
  Qed.

  (** * White list *)

  Theorem limiter_whitelist_step : forall s now ip,
    whitelisted ip = true ->
    o_ok (snd (inc s now ip)) = true /\ o_max (snd (inc s now ip)) = -1.
  Proof.
    intros s now ip W. unfold Limiter.inc, Limiter.verdict; cbn [snd]. rewrite W. split; reflexivity.
  Qed.

  Theorem limiter_whitelist : forall calls s,
    Forall2 (fun (c : call) o => whitelisted (snd c) = true -> o_ok o = true /\ o_max o = -1)
            calls (snd (run_incs s calls)).
  Proof.
    induction calls as [|[now ip] t IH]; intros s; cbn [Limiter.run_incs].
    - constructor.
    - pose proof (limiter_whitelist_step s now ip) as W.
      destruct (inc s now ip) as [s1 r] eqn:E1. specialize (IH s1).
      destruct (run_incs s1 t) as [s2 rs]. cbn [snd] in *. constructor; auto.
  Qed.

  (** Non-whitelisted: ok exactly when the returned count is at most max. *)
  Lemma limiter_verdict_nonwl : forall s now ip,
    whitelisted ip = false ->
    let o := snd (inc s now ip) in o_ok o = (o_count o <=? maxNr) /\ o_max o = maxNr.
  Proof.
    intros s now ip W. unfold Limiter.inc, Limiter.verdict; cbn [snd]. rewrite W. split; reflexivity.
  Qed.

  (** * Middleware: 429 exactly when Inc says not ok; header text *)

  Definition mw_of (hdrName : string) (o : Z * Z * bool) : mwres :=
    let h := if String.eqb hdrName "" then None else Some (hdr_text (o_count o) (o_max o)) in
    if o_ok o then MwPass h else MwReject h.

  Theorem middleware_spec : forall hdrName s now xff remote,
    middleware maxNr interval whitelisted hdrName s now xff remote =
    match ipFromRequest xff remote with
    | None => (s, MwBadIP)
    | Some ip => (fst (inc s now ip), mw_of hdrName (snd (inc s now ip)))
    end.
  Proof.
    intros. unfold middleware. destruct (ipFromRequest xff remote) as [ip|]; auto.
    destruct (inc s now ip) as [s2 [[c m] ok]]. reflexivity.
  Qed.

  Theorem middleware_whitelist_never_429 : forall hdrName s now xff remote ip,
    ipFromRequest xff remote = Some ip -> whitelisted ip = true ->
    exists h, snd (middleware maxNr interval whitelisted hdrName s now xff remote) = MwPass h.
  Proof.
    intros. rewrite middleware_spec, H. cbn [snd]. unfold mw_of.
    destruct (limiter_whitelist_step s now ip H0) as [-> _]. eauto.
  Qed.

  Lemma ipFromRequest_forwarded : forall xff remote, xff <> "" -> ipFromRequest xff remote = Some xff.
  Proof.
    intros. unfold ipFromRequest. destruct (String.eqb xff "") eqn:E; auto.
    apply String.eqb_eq in E; contradiction.
  Qed.
End Spec.

(* ------------------------------------------------------------------------------------------ *)
(** * All schedules (DESIGN.md 4.3): the limiter as a monitor object of Conc.v *)
From Verif Require Import Conc.

Section Sched.
  Variable maxNr : Z.
  Variable interval : Z.
  Variable whitelisted : string -> bool.

  Local Notation inc := (inc maxNr interval whitelisted).
  Local Notation run_incs := (run_incs maxNr interval whitelisted).
  Local Notation run_ops := (run_ops maxNr interval whitelisted).
  Local Notation apply_op := (apply_op maxNr interval whitelisted).

  (** Local registers of one call: the result being assembled. *)
  Definition lreg := option lret.

  (** The critical section of each method as the sequence of its statements (micro-steps the
      scheduler may interleave with the steps of other goroutines):
      Inc   = reset test and reset (L95-101); Counters[ip]++ (L102); read back and verdict (L103-116)
      Count = the map read;  EndTime = ResetTime.Add(Interval). *)
  Definition mu_reset (now : Z) : micro lstate lreg := fun x => (fst x, maybe_reset interval (snd x) now).
  Definition mu_bump (ip : string) : micro lstate lreg := fun x => (fst x, bump (snd x) ip).
  Definition mu_verdict (ip : string) : micro lstate lreg :=
    fun x => (Some (let '(c, m, ok) := verdict maxNr whitelisted (snd x) ip in RInc c m ok), snd x).
  Definition mu_count (ip : string) : micro lstate lreg := fun x => (Some (RCount (count (snd x) ip)), snd x).
  Definition mu_end : micro lstate lreg := fun x => (Some (REndTime (endTime interval (snd x))), snd x).

  Definition l_body (o : lop) : list (micro lstate lreg) :=
    match o with
    | OInc now ip => [mu_reset now; mu_bump ip; mu_verdict ip]
    | OCount ip => [mu_count ip]
    | OEndTime => [mu_end]
    end.

  Definition l_loc0 (o : lop) : lreg := None.
  Definition l_result (o : lop) (l : lreg) : lret := match l with Some r => r | None => RCount 0 end.

  Local Notation m_apply := (apply lstate lop lret lreg l_loc0 l_body l_result).
  Local Notation m_seq_run := (seq_run lstate lop lret lreg l_loc0 l_body l_result).

  (** Running the statements of a method one after the other is the method of Limiter.v. *)
  Lemma monitor_apply o s : m_apply o s = apply_op s o.
  Proof.
    destruct o as [now ip|ip|]; unfold apply, run_micros, Limiter.apply_op; cbn.
    - unfold Limiter.inc. destruct (verdict maxNr whitelisted (bump (maybe_reset interval s now) ip) ip) as [[c m] ok].
      reflexivity.
    - reflexivity.
    - reflexivity.
  Qed.

  Lemma monitor_seq_run : forall h s,
    m_seq_run s h = (fst (run_ops s (map snd h)), combine (map fst h) (snd (run_ops s (map snd h)))).
  Proof.
    induction h as [|[t o] r IH]; intros s; [reflexivity|].
    cbn [seq_run map fst snd Limiter.run_ops]. rewrite monitor_apply.
    destruct (apply_op s o) as [s1 x]. rewrite IH.
    destruct (run_ops s1 (map snd r)) as [s2 rs]. reflexivity.
  Qed.

  (** The Inc calls of an operation list and the Inc results of a result list. *)
  Fixpoint inc_calls (ops : list lop) : list call :=
    match ops with
    | [] => []
    | OInc now ip :: t => (now, ip) :: inc_calls t
    | _ :: t => inc_calls t
    end.

  Fixpoint inc_rets (rs : list lret) : list (Z * Z * bool) :=
    match rs with
    | [] => []
    | RInc c m ok :: t => (c, m, ok) :: inc_rets t
    | _ :: t => inc_rets t
    end.

  (** Count and EndTime do not change the state: the Inc results of a mixed sequence are those
      of its Inc calls alone. *)
  Lemma run_ops_incs : forall ops s,
    fst (run_ops s ops) = fst (run_incs s (inc_calls ops)) /\
    inc_rets (snd (run_ops s ops)) = snd (run_incs s (inc_calls ops)).
  Proof.
    induction ops as [|o t IH]; intros s; [split; reflexivity|].
    destruct o as [now ip|ip|]; cbn [Limiter.run_ops Limiter.apply_op inc_calls Limiter.run_incs].
    - destruct (inc s now ip) as [s1 [[c m] ok]]. specialize (IH s1).
      destruct (run_ops s1 t) as [s2 rs]. destruct (run_incs s1 (inc_calls t)) as [s3 rs3].
      cbn [fst snd inc_rets] in *. destruct IH as [-> ->]. split; reflexivity.
    - specialize (IH s). destruct (run_ops s t) as [s2 rs]. cbn [fst snd inc_rets] in *. exact IH.
    - specialize (IH s). destruct (run_ops s t) as [s2 rs]. cbn [fst snd inc_rets] in *. exact IH.
  Qed.

  Lemma inc_calls_length ops : lenZ (inc_calls ops) <= lenZ ops.
  Proof.
    induction ops as [|o t IH]; [cbn; lia|]. destruct o; cbn [inc_calls]; rewrite ?lenZ_cons; lia.
  Qed.

  (** C20_all_schedules. For any number of goroutines with any programs of Inc/Count/EndTime
      calls and any schedule (a list of goroutine ids; a goroutine that waits for the mutex
      stutters) that lets all of them finish, there is an interleaving [h] of the programs such
      that the final limiter state and everything that was returned to every goroutine are those
      of the sequential run of [h]; and the Inc results along [h] are the ones C20_interval
      prescribes for the epochs of [h]'s Inc calls. *)
  Theorem limiter_all_schedules : forall (progs : list (list lop)) start sched,
    let c := exec lstate lop lret lreg l_loc0 l_body l_result
                  (init lstate lop lret lreg progs (newLimiter start)) sched in
    finished lstate lop lret lreg c ->
    exists h : list (nat * lop),
      interleaving lop progs h /\
      obj _ _ _ _ c = fst (run_ops (newLimiter start) (map snd h)) /\
      (forall t th, nth_error (threads _ _ _ _ c) t = Some th ->
         rets _ _ _ _ th = proj t (combine (map fst h) (snd (run_ops (newLimiter start) (map snd h))))) /\
      (lenZ h < two63 ->
         inc_rets (snd (run_ops (newLimiter start) (map snd h))) =
         concat (map (epoch_outs maxNr whitelisted []) (epochs interval start (inc_calls (map snd h))))).
  Proof.
    intros progs start sched c F.
    destruct (atomic_linearizable lstate lop lret lreg l_loc0 l_body l_result progs (newLimiter start) sched F)
      as (h & I & O & R).
    exists h. split; [exact I|]. rewrite monitor_seq_run in O, R. cbn [fst snd] in O, R.
    split; [exact O|]. split; [exact R|].
    intros B. destruct (run_ops_incs (map snd h) (newLimiter start)) as [_ ->].
    apply limiter_interval. pose proof (inc_calls_length (map snd h)).
    assert (E : lenZ (map snd h) = lenZ h) by (unfold lenZ; rewrite map_length; reflexivity).
    rewrite E in H. eapply Z.le_lt_trans; [exact H|exact B].
  Qed.

  (** While goroutines are still running, what has been returned so far is a sequential run of
      the completed calls (no result is ever handed out that a sequential limiter could not give). *)
  Theorem limiter_all_schedules_prefix : forall (progs : list (list lop)) start sched,
    let c := exec lstate lop lret lreg l_loc0 l_body l_result
                  (init lstate lop lret lreg progs (newLimiter start)) sched in
    exists h : list (nat * lop),
      forall t th, nth_error (threads _ _ _ _ c) t = Some th ->
        (exists rest, proj t h ++ rest = nth t progs []) /\
        rets _ _ _ _ th = proj t (combine (map fst h) (snd (run_ops (newLimiter start) (map snd h)))).
  Proof.
    intros progs start sched c.
    destruct (atomic_linearizable_prefix lstate lop lret lreg l_loc0 l_body l_result progs (newLimiter start) sched)
      as (h & P & _).
    exists h. intros t th E. destruct (P t th E) as (rest & Pr & R).
    rewrite monitor_seq_run in R. cbn [snd] in R. split; eauto.
  Qed.
End Sched.

(* ------------------------------------------------------------------------------------------ *)
(** * Count returns the number of requests of the address in the current interval *)
Section CountSpec.
  Variable maxNr : Z.
  Variable interval : Z.
  Variable whitelisted : string -> bool.

  Local Notation run_incs := (run_incs maxNr interval whitelisted).
  Local Notation epochs := (epochs interval).

  Lemma countZ_cons ip a seen : countZ a (ip :: seen) = (if String.eqb a ip then 1 else 0) + countZ a seen.
  Proof.
    destruct (String.eqb a ip) eqn:E.
    - apply String.eqb_eq in E; subst. apply countZ_cons_same.
    - rewrite countZ_cons_other; [lia|]. intros ->. rewrite String.eqb_refl in E; discriminate.
  Qed.

  Lemma run_incs_count : forall calls s seen,
    repr s seen -> lenZ seen + lenZ calls < two63 ->
    forall a, cget (ctrs (fst (run_incs s calls))) a =
      (match epochs (resetTime s) calls with [_] => countZ a seen | _ => 0 end) +
      countZ a (map snd (last (epochs (resetTime s) calls) [])).
  Proof.
    induction calls as [|[now ip] t IH]; intros s seen R B a.
    - cbn [Limiter.run_incs LimiterProofs.epochs fst last map]. rewrite R, countZ_nil. lia.
    - rewrite lenZ_cons in B. pose proof (lenZ_nonneg t) as Ht. pose proof (lenZ_nonneg seen) as Hs.
      cbn [Limiter.run_incs LimiterProofs.epochs]. unfold Limiter.inc, Limiter.maybe_reset, Limiter.resets.
      destruct (time_sub now (resetTime s) >? interval) eqn:E.
      + destruct (bump_repr maxNr whitelisted (mkL now []) [] ip) as [R1 _].
        { intros x; reflexivity. } { unfold two63; cbn; lia. }
        specialize (IH (bump (mkL now []) ip) [ip] R1).
        destruct (Limiter.run_incs maxNr interval whitelisted (bump (mkL now []) ip) t) as [s2 rs].
        cbn [fst] in *. rewrite IH by (rewrite lenZ_cons, lenZ_nil; lia). cbn [bump resetTime].
        pose proof (epochs_nonempty interval now t) as NE.
        destruct (epochs now t) as [|e [|e2 r]]; [congruence| |].
        * cbn [cons_head last map snd]. rewrite (countZ_cons ip a (map snd e)), (countZ_cons ip a []), countZ_nil. lia.
        * cbn [cons_head]. reflexivity.
      + destruct (bump_repr maxNr whitelisted s seen ip R) as [R1 _]; [lia|].
        specialize (IH (bump s ip) (ip :: seen) R1).
        destruct (Limiter.run_incs maxNr interval whitelisted (bump s ip) t) as [s2 rs].
        cbn [fst] in *. rewrite IH by (rewrite lenZ_cons; lia). cbn [bump resetTime].
        pose proof (epochs_nonempty interval (resetTime s) t) as NE.
        destruct (epochs (resetTime s) t) as [|e [|e2 r]]; [congruence| |].
        * cbn [cons_head last map snd]. rewrite (countZ_cons ip a (map snd e)), (countZ_cons ip a seen). lia.
        * cbn [cons_head]. reflexivity.
  Qed.

  (** After any sequence of Inc calls on a new limiter, Count(a) is the number of calls of [a] in
      the last epoch (no update is lost, none survives a reset). *)
  Theorem limiter_count_final : forall start calls a,
    lenZ calls < two63 ->
    count (fst (run_incs (newLimiter start) calls)) a =
    countZ a (map snd (last (epochs start calls) [])).
  Proof.
    intros start calls a B. unfold count.
    rewrite (run_incs_count calls (newLimiter start) [] (repr_new start)) by (rewrite lenZ_nil; lia).
    cbn [newLimiter resetTime]. rewrite countZ_nil.
    destruct (epochs start calls) as [|e [|e2 r]]; lia.
  Qed.

  (** EndTime: the reset instant after a call sequence is given by the reset rule alone. *)
  Fixpoint final_reset (rt : Z) (calls : list call) : Z :=
    match calls with
    | [] => rt
    | (now, _) :: t => if time_sub now rt >? interval then final_reset now t else final_reset rt t
    end.

  Lemma run_incs_resetTime : forall calls s,
    resetTime (fst (run_incs s calls)) = final_reset (resetTime s) calls.
  Proof.
    induction calls as [|[now ip] t IH]; intros s; [reflexivity|].
    cbn [Limiter.run_incs final_reset]. unfold Limiter.inc, Limiter.maybe_reset, Limiter.resets.
    destruct (time_sub now (resetTime s) >? interval) eqn:E.
    - specialize (IH (bump (mkL now []) ip)).
      destruct (Limiter.run_incs maxNr interval whitelisted (bump (mkL now []) ip) t) as [s2 rs]. exact IH.
    - specialize (IH (bump s ip)).
      destruct (Limiter.run_incs maxNr interval whitelisted (bump s ip) t) as [s2 rs]. exact IH.
  Qed.

  (** The reset instant is the start instant or the instant of a call that came more than
      [interval] after the reset instant in force (never anything else, e.g. a mixture). *)
  Lemma final_reset_cases : forall calls rt,
    final_reset rt calls = rt \/
    exists pre now ip post, calls = pre ++ (now, ip) :: post /\
      time_sub now (final_reset rt pre) > interval /\ final_reset rt calls = final_reset now post.
  Proof.
    induction calls as [|[now ip] t IH]; intros rt; [left; reflexivity|].
    cbn [final_reset]. destruct (time_sub now rt >? interval) eqn:E.
    - right. exists [], now, ip, t. cbn [app final_reset]. split; [reflexivity|]. split; [lia|reflexivity].
    - destruct (IH rt) as [H|(pre & n & i & post & -> & G & F)]; [left; exact H|].
      right. exists ((now, ip) :: pre), n, i, post. cbn [app final_reset]. rewrite E. auto.
  Qed.

  Theorem limiter_endtime_final : forall start calls,
    endTime interval (fst (run_incs (newLimiter start) calls)) = final_reset start calls + interval.
  Proof. intros. unfold endTime. rewrite run_incs_resetTime. reflexivity. Qed.
End CountSpec.

(* ------------------------------------------------------------------------------------------ *)
(** * The unlocked read of ResetTime in EndTime is a real race (witness schedule) *)
Definition lim_inc_write : access := mkAccess "ResetTime" "IPRequestLimiter.Inc" true RHandler ["L:mux"].
Definition lim_endtime_read_unlocked : access := mkAccess "ResetTime" "IPRequestLimiter.EndTime" false RHandler [].

Theorem unlocked_endtime_races :
  races multi_all lim_inc_write lim_endtime_read_unlocked = true /\
  valid multi_all [lim_inc_write; lim_endtime_read_unlocked] (unordered_trace lim_inc_write lim_endtime_read_unlocked "mux") /\
  ~ hb (unordered_trace lim_inc_write lim_endtime_read_unlocked "mux") 1 2.
Proof.
  split; [vm_compute; reflexivity|]. split.
  - apply unordered_trace_valid; try reflexivity.
    intros lk [<-|[]]. split; reflexivity.
  - apply unordered_trace_not_hb.
Qed.
