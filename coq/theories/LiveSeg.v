(** Model of the rewrite that genLiveSegment (livesegment.go L30-114) applies to a decoded VoD
    media segment: every fragment gets the new sequence number and its decode time shifted by the
    same amount; when the tfdt box changes size (version 0 <-> 1: the decode time crosses 2^32)
    the trun data offset and the saio offsets that follow the tfdt are moved by the difference, so
    that they still address the same payload bytes.  The box codec itself (mp4ff) is not modelled:
    a fragment is the record of the fields the rewrite touches. *)
From Verif Require Import GoSem.

Record frag := {
  f_seq : Z;                       (* mfhd sequence_number *)
  f_tfdt : Z;                      (* baseMediaDecodeTime *)
  f_before : Z;                    (* bytes of the moof in front of the tfdt box *)
  f_after : Z;                     (* bytes of the moof after the tfdt box (tfhd.., trun, ...) *)
  f_data_offset : Z;               (* trun data_offset, relative to the start of the moof *)
  f_saio : option (bool * list Z); (* saio offsets, and whether the saio box comes after the tfdt *)
  f_samples : list (Z * Z * Z * Z) (* per sample: duration, size, flags, composition offset *)
}.

(** size of a tfdt box holding decode time [t] (mp4ff: SetBaseMediaDecodeTime chooses version 1
    from 2^32 on; header 8 + version/flags 4 + 4 or 8) *)
Definition tfdt_size (t : Z) : Z := if t >=? two32 then 20 else 16.
Definition moof_size (f : frag) : Z := f_before f + tfdt_size (f_tfdt f) + f_after f.

(** a fragment is laid out consistently when its data offset points just behind the moof and
    the 8-byte mdat header, where the payload starts *)
Definition offset_ok (f : frag) : Prop := f_data_offset f = moof_size f + 8.

Definition rewrite_frag (newNr shift : Z) (f : frag) : frag :=
  let t' := u64 (f_tfdt f + shift) in
  let diff := tfdt_size t' - tfdt_size (f_tfdt f) in
  {| f_seq := newNr;
     f_tfdt := t';
     f_before := f_before f; f_after := f_after f;
     f_data_offset := f_data_offset f + diff;
     f_saio := match f_saio f with
               | Some (true, offs) => Some (true, map (fun o => o + diff) offs)
               | other => other
               end;
     f_samples := f_samples f |}.

(** genLiveSegment on the fragment list: [newTime] is the decode time of the live segment;
    the shift is taken from the first fragment. An empty fragment list is a panic in Go. *)
Definition rewrite_seg (newNr newTime : Z) (fs : list frag) : res (list frag) :=
  match fs with
  | [] => Panic "genLiveSegment: index out of range [0] (seg.Fragments)"
  | f0 :: _ => let shift := u64 (newTime - f_tfdt f0) in Ok (map (rewrite_frag newNr shift) fs)
  end.
