From Verif Require Import GoSem GoSemFacts LiveSeg.
From Coq Require Import ZifyBool.
Ltac Zify.zify_post_hook ::= Z.div_mod_to_equations.

Lemma rewrite_frag_offset newNr shift f : offset_ok f -> offset_ok (rewrite_frag newNr shift f).
Proof. unfold offset_ok, moof_size, rewrite_frag; cbn [f_data_offset f_before f_after f_tfdt]. intros ->. ring. Qed.

Lemma rewrite_frag_samples newNr shift f : f_samples (rewrite_frag newNr shift f) = f_samples f.
Proof. reflexivity. Qed.

Lemma rewrite_frag_seq newNr shift f : f_seq (rewrite_frag newNr shift f) = newNr.
Proof. reflexivity. Qed.

(** The whole segment: every fragment carries the new number, the same samples, a decode time
    moved by one common shift (so fragments that were contiguous stay contiguous), and a data
    offset that still addresses the first payload byte. *)
Lemma rewrite_seg_spec newNr newTime f0 fs out :
  0 <= newTime < two64 -> f_tfdt f0 <= newTime -> Forall (fun f => 0 <= f_tfdt f /\ f_tfdt f + (newTime - f_tfdt f0) < two64 /\ f_tfdt f0 <= f_tfdt f) (f0 :: fs) ->
  Forall offset_ok (f0 :: fs) ->
  rewrite_seg newNr newTime (f0 :: fs) = Ok out ->
  map f_seq out = map (fun _ => newNr) (f0 :: fs) /\
  map f_samples out = map f_samples (f0 :: fs) /\
  map f_tfdt out = map (fun f => f_tfdt f + (newTime - f_tfdt f0)) (f0 :: fs) /\
  Forall offset_ok out.
Proof.
  intros Hn Hle Hr Ho H. unfold rewrite_seg in H. injection H as <-.
  assert (Hf0 : 0 <= f_tfdt f0 <= newTime).
  { inversion Hr as [|? ? (A & B & C) _]; subst. lia. }
  assert (Hs : u64 (newTime - f_tfdt f0) = newTime - f_tfdt f0) by (unfold u64, two64 in *; rewrite Z.mod_small; lia).
  rewrite Hs.
  change (rewrite_frag newNr (newTime - f_tfdt f0) f0 :: map (rewrite_frag newNr (newTime - f_tfdt f0)) fs)
    with (map (rewrite_frag newNr (newTime - f_tfdt f0)) (f0 :: fs)).
  repeat split.
  - rewrite map_map. apply map_ext. intros; reflexivity.
  - rewrite map_map. apply map_ext. intros; reflexivity.
  - rewrite map_map. apply map_ext_in. intros f Hin.
    rewrite Forall_forall in Hr. destruct (Hr f Hin) as (A & B & C).
    cbn [rewrite_frag f_tfdt]. unfold u64, two64 in *. rewrite Z.mod_small; lia.
  - rewrite Forall_forall in *. intros g Hg. apply in_map_iff in Hg as (f & <- & Hin).
    apply rewrite_frag_offset. apply Ho. exact Hin.
Qed.

(** The decode time of the first fragment is the requested one. *)
Lemma rewrite_seg_first newNr newTime f0 fs out :
  0 <= f_tfdt f0 <= newTime -> newTime < two64 ->
  rewrite_seg newNr newTime (f0 :: fs) = Ok out -> exists g gs, out = g :: gs /\ f_tfdt g = newTime.
Proof.
  intros H0 Hn H. unfold rewrite_seg in H. injection H as <-. cbn [map]. eexists _, _. split; [reflexivity|].
  cbn [rewrite_frag f_tfdt]. unfold u64, two64 in *. rewrite (Z.mod_small (newTime - f_tfdt f0)) by lia.
  rewrite Z.mod_small; lia.
Qed.

(** A decode time that needs 64 bits: the tfdt box grows by 4 bytes and the data offset with it. *)
Example rewrite_grows :
  let f := {| f_seq := 1; f_tfdt := 0; f_before := 24; f_after := 60; f_data_offset := 108;
              f_saio := Some (true, [92]); f_samples := [(3000, 100, 0, 0)] |} in
  offset_ok f /\
  rewrite_seg 23860930 4294980000 [f] =
    Ok [{| f_seq := 23860930; f_tfdt := 4294980000; f_before := 24; f_after := 60; f_data_offset := 112;
           f_saio := Some (true, [96]); f_samples := [(3000, 100, 0, 0)] |}].
Proof. split; vm_compute; reflexivity. Qed.
