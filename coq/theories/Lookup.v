(** MODEL of the two look-ups that decide which stored object answers a livesim2 URL (C07):

    cmd/livesim2/app/asset.go      findAsset              ranges over the Go map am.assets and returns
                                                          the FIRST asset path that equals the URI or is
                                                          a "/"-terminated prefix of it;
    cmd/livesim2/app/livesegment.go findRepAndSegmentID    ranges over the Go map a.Reps and returns the
                                                          FIRST representation whose mediaRegexp matches
                                                          somewhere in the segment part of the URL;
    cmd/livesim2/app/asset.go      addRegExpAndInit       builds mediaRegexp from MediaURI by replacing
                                                          $Number$/$Time$ with (\d+): the rest of the
                                                          template is neither quoted nor anchored.

    The iteration order of a Go map is unspecified: a map range is modelled as a run over an
    arbitrary permutation of the keys. Both look-ups are given as found ([first_match], unanchored
    [media_search]) and as repaired (longest asset path; anchored and quoted pattern).
    Executable, no proofs. Strings are [list ascii] (byte strings). *)
From Verif Require Import GoSem.
From Coq Require Import Ascii Permutation.

Definition str := list ascii.

Fixpoint str_eqb (a b : str) : bool :=
  match a, b with
  | [], [] => true
  | x :: a', y :: b' => Ascii.eqb x y && str_eqb a' b'
  | _, _ => false
  end.

(** strings.HasPrefix(s, p) *)
Fixpoint has_prefix (p s : str) : bool :=
  match p, s with
  | [], _ => true
  | x :: p', y :: s' => Ascii.eqb x y && has_prefix p' s'
  | _ :: _, [] => false
  end.

Definition slash : ascii := "/"%char.

(** asset.go L50: uri == assetPath || strings.HasPrefix(uri, assetPath+"/") *)
Definition asset_matches (uri a : str) : bool := str_eqb uri a || has_prefix (a ++ [slash]) uri.

(** One run of [for assetPath := range am.assets] in the order [order]: the first match wins. *)
Fixpoint first_match (order : list str) (uri : str) : option str :=
  match order with
  | [] => None
  | a :: t => if asset_matches uri a then Some a else first_match t uri
  end.

(** findAsset as found: any iteration order of the map keys. *)
Definition find_asset_rel (assets : list str) (uri : str) (r : option str) : Prop :=
  exists order, Permutation order assets /\ first_match order uri = r.

(** findAsset as repaired (proposed_fixes/C07-findasset-longest.diff): the loop keeps the longest
    matching path. *)
Definition better (best : option str) (a : str) : bool :=
  match best with None => true | Some b => (lenZ b <? lenZ a) end.

Definition longest_step (uri : str) (best : option str) (a : str) : option str :=
  if asset_matches uri a && better best a then Some a else best.

Definition find_asset_longest (order : list str) (uri : str) : option str :=
  fold_left (longest_step uri) order None.

(** ** Media patterns *)

Definition is_digit (c : ascii) : bool :=
  let n := nat_of_ascii c in (48 <=? n)%nat && (n <=? 57)%nat.

Definition dot : ascii := "."%char.

(** The literal parts of the template as a regular expression as found: every byte stands for
    itself except "." which matches any byte (templates with other metacharacters are outside
    the model: [plain_template]). Matches [p] at the head of [s] and returns the rest. *)
Fixpoint lit_match_unquoted (p s : str) : option str :=
  match p, s with
  | [], _ => Some s
  | x :: p', y :: s' => if Ascii.eqb x dot || Ascii.eqb x y then lit_match_unquoted p' s' else None
  | _ :: _, [] => None
  end.

(** Quoted (regexp.QuoteMeta): every byte stands for itself. *)
Fixpoint lit_match_quoted (p s : str) : option str :=
  match p, s with
  | [], _ => Some s
  | x :: p', y :: s' => if Ascii.eqb x y then lit_match_quoted p' s' else None
  | _ :: _, [] => None
  end.

Fixpoint digit_run (s : str) : str :=
  match s with
  | c :: t => if is_digit c then c :: digit_run t else []
  | [] => []
  end.

Fixpoint num_of (acc : Z) (ds : str) : Z :=
  match ds with
  | [] => acc
  | c :: t => num_of (acc * 10 + (Z.of_nat (nat_of_ascii c) - 48)) t
  end.

(** (\d+) followed by the rest of the pattern: greedy with backtracking (Go's leftmost-first
    semantics): the longest digit run first, then shorter ones. [k] counts down from the length of
    the maximal run. [tail_ok rest] says whether the remaining pattern matches [rest]. *)
Fixpoint digits_then (tail_ok : str -> bool) (s : str) (k : nat) : option str :=
  match k with
  | O => None
  | S k' => if tail_ok (skipn k s) then Some (firstn k s) else digits_then tail_ok s k'
  end.

Definition is_some {A} (o : option A) : bool := match o with Some _ => true | None => false end.

(** The pattern  pre(\d+)suf  at the head of [s], unanchored at the end. *)
Definition match_here_unquoted (pre suf s : str) : option str :=
  match lit_match_unquoted pre s with
  | None => None
  | Some r => digits_then (fun rest => is_some (lit_match_unquoted suf rest)) r (length (digit_run r))
  end.

(** regexp.FindStringSubmatch with the unanchored pattern: leftmost position. *)
Fixpoint media_search (pre suf s : str) : option str :=
  match match_here_unquoted pre suf s with
  | Some ds => Some ds
  | None => match s with [] => None | _ :: t => media_search pre suf t end
  end.

(** The repaired pattern  ^QuoteMeta(pre)(\d+)QuoteMeta(suf)$ . *)
Definition media_match_anchored (pre suf s : str) : option str :=
  match lit_match_quoted pre s with
  | None => None
  | Some r => digits_then (fun rest => match lit_match_quoted suf rest with Some [] => true | _ => false end)
                          r (length (digit_run r))
  end.

(** A representation: id and the literal parts of its media template around $Number$/$Time$
    (after $RepresentationID$ was substituted). *)
Record rep := mkRep { r_id : str; r_pre : str; r_suf : str }.

(** findRepAndSegmentID as found: first representation, in map order, whose pattern matches. *)
Fixpoint first_rep (matcher : str -> str -> str -> option str) (order : list rep) (seg : str) : option (str * Z) :=
  match order with
  | [] => None
  | r :: t => match matcher (r_pre r) (r_suf r) seg with
              | Some ds => Some (r_id r, num_of 0 ds)
              | None => first_rep matcher t seg
              end
  end.

Definition find_rep_rel (matcher : str -> str -> str -> option str) (reps : list rep) (seg : str) (res : option (str * Z)) : Prop :=
  exists order, Permutation order reps /\ first_rep matcher order seg = res.

(** All results some iteration order can produce (for the correspondence: the observed answer must
    be one of them). *)
Definition asset_candidates (assets : list str) (uri : str) : list str := filter (asset_matches uri) assets.

Definition rep_candidates (matcher : str -> str -> str -> option str) (reps : list rep) (seg : str) : list (str * Z) :=
  flat_map (fun r => match matcher (r_pre r) (r_suf r) seg with Some ds => [(r_id r, num_of 0 ds)] | None => [] end) reps.

Definition str_of (s : string) : str := list_ascii_of_string s.
