(** Proofs about the look-up models of Lookup.v (property C07, parts find_asset / find_rep). *)
From Verif Require Import GoSem GoSemFacts Lookup.
From Coq Require Import Ascii Permutation.

(** * Byte strings *)

Lemma str_eqb_eq a b : str_eqb a b = true <-> a = b.
Proof.
  revert b; induction a as [|x a IH]; destruct b as [|y b]; cbn; split; try congruence; auto.
  - intros H. apply andb_prop in H. destruct H as [H1 H2]. apply Ascii.eqb_eq in H1. apply IH in H2. congruence.
  - intros H. inversion H; subst. rewrite Ascii.eqb_refl. cbn. apply IH. reflexivity.
Qed.

Lemma has_prefix_iff p s : has_prefix p s = true <-> exists r, s = p ++ r.
Proof.
  revert s; induction p as [|x p IH]; intros s; cbn.
  - split; eauto.
  - destruct s as [|y s].
    + split; [discriminate|intros [r H]; discriminate].
    + split.
      * intros H. apply andb_prop in H. destruct H as [H1 H2]. apply Ascii.eqb_eq in H1. apply IH in H2.
        destruct H2 as [r ->]. exists r. congruence.
      * intros [r H]. inversion H; subst. rewrite Ascii.eqb_refl. cbn. apply IH. eauto.
Qed.

Lemma asset_matches_iff uri a :
  asset_matches uri a = true <-> uri = a \/ exists r, uri = a ++ slash :: r.
Proof.
  unfold asset_matches. rewrite Bool.orb_true_iff, str_eqb_eq, has_prefix_iff. split.
  - intros [H|[r H]]; auto. right. exists r. rewrite H, <- app_assoc. reflexivity.
  - intros [H|[r H]]; auto. right. exists r. rewrite H, <- app_assoc. reflexivity.
Qed.

(** Two asset paths that match the same URI: the shorter one is a "/"-prefix of the longer one,
    and two of the same length are equal. *)
Lemma matches_nested uri a b :
  asset_matches uri a = true -> asset_matches uri b = true -> (length a < length b)%nat ->
  has_prefix (a ++ [slash]) b = true.
Proof.
  rewrite !asset_matches_iff, has_prefix_iff. intros Ha Hb L.
  destruct Ha as [->|[r1 ->]], Hb as [Hb|[r2 Hb]].
  - subst. lia.
  - subst. rewrite app_length in L. cbn in L. lia.
  - subst. exists r1. rewrite <- app_assoc. reflexivity.
  - apply app_eq_app in Hb. destruct Hb as [l [[E1 E2]|[E1 E2]]].
    + subst a. rewrite app_length in L. lia.
    + subst b. destruct l as [|c l].
      * rewrite app_nil_r in L. lia.
      * cbn in E2. inversion E2; subst. exists l. rewrite <- app_assoc. reflexivity.
Qed.

Lemma matches_same_length uri a b :
  asset_matches uri a = true -> asset_matches uri b = true -> length a = length b -> a = b.
Proof.
  rewrite !asset_matches_iff. intros Ha Hb L.
  assert (P : forall (x y : str) rx ry, x ++ rx = y ++ ry -> length x = length y -> x = y).
  { induction x as [|c x IH]; destruct y as [|d y]; cbn; intros rx ry E Ln; try discriminate; auto.
    inversion E; subst. f_equal. eapply IH; eauto. }
  destruct Ha as [->|[r1 ->]], Hb as [Hb|[r2 Hb]].
  - auto.
  - subst. rewrite app_length in L. cbn in L. lia.
  - subst. rewrite app_length in L. cbn in L. lia.
  - eapply P; eauto.
Qed.

(** * First match over a permutation (the Go map range) *)

Section FirstSome.
  Context {A B : Type}.
  Variable f : A -> option B.

  Fixpoint first_some (l : list A) : option B :=
    match l with
    | [] => None
    | a :: t => match f a with Some b => Some b | None => first_some t end
    end.

  Lemma first_some_Some l b : first_some l = Some b -> exists a, In a l /\ f a = Some b.
  Proof.
    induction l as [|a t IH]; cbn; [discriminate|].
    destruct (f a) eqn:E.
    - intros H; inversion H; subst. eauto.
    - intros H. destruct (IH H) as (a' & I & F). eauto.
  Qed.

  Lemma first_some_None l : first_some l = None <-> forall a, In a l -> f a = None.
  Proof.
    induction l as [|a t IH]; cbn.
    - split; auto. intros _ a [].
    - destruct (f a) eqn:E.
      + split; [discriminate|]. intros H. rewrite (H a) in E by auto. discriminate.
      + rewrite IH. split.
        * intros H x [<-|I]; auto.
        * intros H x I. apply H; auto.
  Qed.

  (** Every answer that some element gives can be produced by some order. *)
  Lemma first_some_reachable l a b : In a l -> f a = Some b -> exists order, Permutation order l /\ first_some order = Some b.
  Proof.
    intros I F. apply in_split in I. destruct I as (l1 & l2 & ->).
    exists (a :: l1 ++ l2). split; [apply Permutation_middle|]. cbn. rewrite F. reflexivity.
  Qed.

  (** If all elements that answer give the same answer, the order does not matter. *)
  Lemma first_some_order_independent l1 l2 :
    Permutation l1 l2 ->
    (forall a a' b b', In a l1 -> In a' l1 -> f a = Some b -> f a' = Some b' -> b = b') ->
    first_some l1 = first_some l2.
  Proof.
    intros P U.
    destruct (first_some l1) as [b|] eqn:E1, (first_some l2) as [b'|] eqn:E2; auto.
    - destruct (first_some_Some _ _ E1) as (a & I & F). destruct (first_some_Some _ _ E2) as (a' & I' & F').
      f_equal. eapply (U a a'); eauto. eapply Permutation_in; [apply Permutation_sym; eauto|auto].
    - destruct (first_some_Some _ _ E1) as (a & I & F).
      rewrite first_some_None in E2. rewrite (E2 a) in F; [discriminate|]. eapply Permutation_in; eauto.
    - destruct (first_some_Some _ _ E2) as (a & I & F).
      rewrite first_some_None in E1. rewrite (E1 a) in F; [discriminate|].
      eapply Permutation_in; [apply Permutation_sym; eauto|auto].
  Qed.
End FirstSome.

(** * findAsset as found *)

Definition asset_answer (uri a : str) : option str := if asset_matches uri a then Some a else None.

Lemma first_match_first_some order uri : first_match order uri = first_some (asset_answer uri) order.
Proof.
  induction order as [|a t IH]; cbn; auto. unfold asset_answer at 1. destruct (asset_matches uri a); auto.
Qed.

(** What a run of the loop can return: exactly the matching asset paths (any of them), and
    "not found" exactly when none matches. *)
Theorem find_asset_rel_some assets uri a :
  find_asset_rel assets uri (Some a) <-> In a assets /\ asset_matches uri a = true.
Proof.
  unfold find_asset_rel. split.
  - intros (order & P & F). rewrite first_match_first_some in F.
    destruct (first_some_Some _ _ _ F) as (x & I & Fx). unfold asset_answer in Fx.
    destruct (asset_matches uri x) eqn:M; inversion Fx; subst. split; auto. eapply Permutation_in; eauto.
  - intros [I M].
    destruct (first_some_reachable (asset_answer uri) assets a a I) as (order & P & F).
    { unfold asset_answer. rewrite M. reflexivity. }
    exists order. split; auto. rewrite first_match_first_some. exact F.
Qed.

Theorem find_asset_rel_none assets uri :
  find_asset_rel assets uri None <-> forall a, In a assets -> asset_matches uri a = false.
Proof.
  unfold find_asset_rel. split.
  - intros (order & P & F) a I. rewrite first_match_first_some, first_some_None in F.
    assert (Io : In a order) by (eapply Permutation_in; [apply Permutation_sym; eauto|auto]).
    specialize (F a Io). unfold asset_answer in F. destruct (asset_matches uri a); [discriminate|reflexivity].
  - intros H. exists assets. split; auto. rewrite first_match_first_some, first_some_None.
    intros a I. unfold asset_answer. rewrite (H a I). reflexivity.
Qed.

(** No asset directory lies below another asset directory. *)
Definition prefix_free (assets : list str) : Prop :=
  forall a b, In a assets -> In b assets -> a <> b -> has_prefix (a ++ [slash]) b = false.

(** C07_find_asset: under prefix-freeness the look-up is a function of the URI (whatever the map
    iteration order). *)
Theorem find_asset_function assets uri r1 r2 :
  prefix_free assets -> find_asset_rel assets uri r1 -> find_asset_rel assets uri r2 -> r1 = r2.
Proof.
  intros PF (o1 & P1 & F1) (o2 & P2 & F2).
  rewrite first_match_first_some in F1, F2. subst r1 r2.
  apply first_some_order_independent.
  - eapply Permutation_trans; [eauto|apply Permutation_sym; auto].
  - intros a a' b b' I I' Fa Fa'. unfold asset_answer in Fa, Fa'.
    destruct (asset_matches uri a) eqn:Ma; inversion Fa; subst.
    destruct (asset_matches uri a') eqn:Ma'; inversion Fa'; subst.
    assert (Ia : In b assets) by (eapply Permutation_in; [exact P1|exact I]).
    assert (Ib : In b' assets) by (eapply Permutation_in; [exact P1|exact I']).
    destruct (Nat.lt_trichotomy (length b) (length b')) as [L|[L|L]].
    + destruct (list_eq_dec ascii_dec b b') as [E|N]; auto.
      pose proof (matches_nested uri b b' Ma Ma' L). rewrite (PF b b' Ia Ib N) in H. discriminate.
    + eapply matches_same_length; eauto.
    + destruct (list_eq_dec ascii_dec b' b) as [E|N]; auto.
      pose proof (matches_nested uri b' b Ma' Ma L). rewrite (PF b' b Ib Ia N) in H. discriminate.
Qed.

(** Without it the look-up is not a function: asset "x" and asset "x/y". *)
Theorem find_asset_nested_refuted :
  let assets := [str_of "x"; str_of "x/y"] in
  let uri := str_of "x/y/Manifest.mpd" in
  find_asset_rel assets uri (Some (str_of "x")) /\ find_asset_rel assets uri (Some (str_of "x/y")).
Proof.
  cbv zeta. split; apply find_asset_rel_some; split; try (vm_compute; reflexivity).
  - left; reflexivity.
  - right; left; reflexivity.
Qed.

(** * findAsset as repaired: the longest match, independent of the order *)

Definition longest_ok (uri : str) (seen : list str) (best : option str) : Prop :=
  match best with
  | None => forall b, In b seen -> asset_matches uri b = false
  | Some a => In a seen /\ asset_matches uri a = true /\
              forall b, In b seen -> asset_matches uri b = true -> (length b <= length a)%nat
  end.

Lemma lenZ_lt_length {A} (a b : list A) : (lenZ a <? lenZ b) = true <-> (length a < length b)%nat.
Proof. unfold lenZ. rewrite Z.ltb_lt. lia. Qed.

Lemma longest_step_ok uri seen best a :
  longest_ok uri seen best -> longest_ok uri (seen ++ [a]) (longest_step uri best a).
Proof.
  unfold longest_step. intros H. destruct (asset_matches uri a) eqn:M; cbn [andb].
  - destruct best as [b|]; cbn [better].
    + destruct H as (I & Mb & Mx). destruct (lenZ b <? lenZ a) eqn:L.
      * apply lenZ_lt_length in L. cbn. split; [apply in_or_app; right; left; auto|]. split; auto.
        intros x Ix Mxx. apply in_app_or in Ix. destruct Ix as [Ix|[<-|[]]]; auto. specialize (Mx x Ix Mxx). lia.
      * assert (~ (length b < length a)%nat) by (rewrite <- lenZ_lt_length; congruence).
        cbn. split; [apply in_or_app; auto|]. split; auto.
        intros x Ix Mxx. apply in_app_or in Ix. destruct Ix as [Ix|[<-|[]]]; auto. lia.
    + cbn. split; [apply in_or_app; right; left; auto|]. split; auto.
      intros x Ix Mxx. apply in_app_or in Ix. destruct Ix as [Ix|[<-|[]]]; auto.
      rewrite (H x Ix) in Mxx. discriminate.
  - destruct best as [b|]; cbn.
    + destruct H as (I & Mb & Mx). split; [apply in_or_app; auto|]. split; auto.
      intros x Ix Mxx. apply in_app_or in Ix. destruct Ix as [Ix|[<-|[]]]; auto. congruence.
    + intros x Ix. apply in_app_or in Ix. destruct Ix as [Ix|[<-|[]]]; auto.
Qed.

Lemma fold_longest_ok uri : forall order seen best,
  longest_ok uri seen best -> longest_ok uri (seen ++ order) (fold_left (longest_step uri) order best).
Proof.
  induction order as [|a t IH]; intros seen best H; cbn.
  - rewrite app_nil_r. auto.
  - replace (seen ++ a :: t) with ((seen ++ [a]) ++ t) by (rewrite <- app_assoc; reflexivity).
    apply IH. apply longest_step_ok. auto.
Qed.

Theorem find_asset_longest_spec order uri : longest_ok uri order (find_asset_longest order uri).
Proof. apply (fold_longest_ok uri order [] None). intros b []. Qed.

(** The repaired look-up is a function of the URI for every set of asset paths. *)
Theorem find_asset_longest_order_independent o1 o2 uri :
  Permutation o1 o2 -> find_asset_longest o1 uri = find_asset_longest o2 uri.
Proof.
  intros P. pose proof (find_asset_longest_spec o1 uri) as H1. pose proof (find_asset_longest_spec o2 uri) as H2.
  destruct (find_asset_longest o1 uri) as [a|], (find_asset_longest o2 uri) as [b|]; cbn in H1, H2; auto.
  - destruct H1 as (Ia & Ma & Xa). destruct H2 as (Ib & Mb & Xb). f_equal.
    eapply matches_same_length; eauto.
    assert (In b o1) by (eapply Permutation_in; [apply Permutation_sym; eauto|auto]).
    assert (In a o2) by (eapply Permutation_in; eauto).
    specialize (Xa b H Mb). specialize (Xb a H0 Ma). lia.
  - destruct H1 as (Ia & Ma & _). rewrite (H2 a) in Ma; [discriminate|]. eapply Permutation_in; eauto.
  - destruct H2 as (Ib & Mb & _). rewrite (H1 b) in Mb; [discriminate|].
    eapply Permutation_in; [apply Permutation_sym; eauto|auto].
Qed.

(** On prefix-free asset sets the repair changes nothing. *)
Theorem find_asset_longest_agrees assets uri r :
  prefix_free assets -> find_asset_rel assets uri r -> r = find_asset_longest assets uri.
Proof.
  intros PF R. pose proof (find_asset_longest_spec assets uri) as H.
  destruct (find_asset_longest assets uri) as [a|]; cbn in H.
  - destruct H as (I & M & _). eapply find_asset_function; eauto. apply find_asset_rel_some. auto.
  - eapply find_asset_function; eauto. apply find_asset_rel_none. auto.
Qed.

(** * Media patterns *)

Lemma lit_match_quoted_iff p s r : lit_match_quoted p s = Some r <-> s = p ++ r.
Proof.
  revert s; induction p as [|x p IH]; intros s; cbn.
  - split; congruence.
  - destruct s as [|y s]; [split; discriminate|].
    destruct (Ascii.eqb x y) eqn:E.
    + apply Ascii.eqb_eq in E; subst. rewrite IH. split; congruence.
    + split; [discriminate|]. intros H. inversion H; subst. rewrite Ascii.eqb_refl in E. discriminate.
Qed.

Lemma digit_run_prefix s : exists r, s = digit_run s ++ r.
Proof.
  induction s as [|c t [r IH]]; cbn; [exists []; reflexivity|].
  destruct (is_digit c); [|eexists; reflexivity]. exists r. cbn. congruence.
Qed.

Lemma digit_run_digits s : forallb is_digit (digit_run s) = true.
Proof. induction s as [|c t IH]; cbn; auto. destruct (is_digit c) eqn:E; cbn; auto. rewrite E; auto. Qed.

Lemma firstn_digit_run s k : (k <= length (digit_run s))%nat -> firstn k s = firstn k (digit_run s).
Proof.
  intros L. destruct (digit_run_prefix s) as [r E]. rewrite E at 1. rewrite firstn_app.
  replace (k - length (digit_run s))%nat with O by lia. cbn. apply app_nil_r.
Qed.

Lemma forallb_firstn {A} (f : A -> bool) l k : forallb f l = true -> forallb f (firstn k l) = true.
Proof.
  revert k; induction l as [|x t IH]; intros k; destruct k; cbn; auto.
  intros H. apply andb_prop in H. destruct H as [-> H]. cbn. auto.
Qed.

Lemma digits_then_spec tail_ok s : forall k ds,
  (k <= length (digit_run s))%nat ->
  digits_then tail_ok s k = Some ds ->
  exists rest, s = ds ++ rest /\ ds <> [] /\ forallb is_digit ds = true /\ tail_ok rest = true.
Proof.
  induction k as [|k IH]; intros ds L; [cbn; discriminate|].
  cbn [digits_then]. destruct (tail_ok (skipn (S k) s)) eqn:T.
  - intros H. assert (E : ds = firstn (S k) s) by (injection H as H; rewrite <- H; reflexivity).
    clear H. subst ds. exists (skipn (S k) s). split; [symmetry; apply firstn_skipn|].
    split.
    + rewrite firstn_digit_run by lia. destruct (digit_run s); cbn [length firstn] in *; [lia|discriminate].
    + split; auto. rewrite firstn_digit_run by lia. apply forallb_firstn, digit_run_digits.
  - apply IH. lia.
Qed.

(** The repaired pattern matches exactly the strings  pre ++ digits ++ suf . *)
Theorem media_match_anchored_spec pre suf s ds :
  media_match_anchored pre suf s = Some ds ->
  s = pre ++ ds ++ suf /\ ds <> [] /\ forallb is_digit ds = true.
Proof.
  unfold media_match_anchored. destruct (lit_match_quoted pre s) as [r|] eqn:E; [|discriminate].
  apply lit_match_quoted_iff in E. intros H.
  apply digits_then_spec in H; [|lia]. destruct H as (rest & Er & N & D & T).
  destruct (lit_match_quoted suf rest) as [[|c l]|] eqn:Es; try discriminate.
  apply lit_match_quoted_iff in Es. rewrite app_nil_r in Es. subst. auto.
Qed.

Definition ends_nondigit (p : str) : Prop := exists q c, p = q ++ [c] /\ is_digit c = false.

(** pre ++ digits is uniquely decomposable when pre ends in a non-digit. *)
Lemma split_digits_unique : forall d1 d2 (p1 p2 : str),
  p1 ++ d1 = p2 ++ d2 -> forallb is_digit d1 = true -> forallb is_digit d2 = true ->
  ends_nondigit p1 -> ends_nondigit p2 -> p1 = p2 /\ d1 = d2.
Proof.
  intros d1 d2 p1 p2 E D1 D2 (q1 & c1 & -> & N1) (q2 & c2 & -> & N2).
  apply app_eq_app in E. destruct E as [l [[E1 E2]|[E1 E2]]].
  - (* q1 ++ [c1] = (q2 ++ [c2]) ++ l, d2 = l ++ d1 *)
    destruct l as [|x l] using rev_ind.
    + rewrite app_nil_r in E1. cbn in E2. subst. auto.
    + exfalso. rewrite app_assoc in E1. apply app_inj_tail in E1. destruct E1 as [_ <-].
      subst d2. rewrite forallb_app in D2. apply andb_prop in D2. destruct D2 as [D2 _].
      rewrite forallb_app in D2. apply andb_prop in D2. destruct D2 as [_ D2]. cbn in D2. rewrite N1 in D2. discriminate.
  - destruct l as [|x l] using rev_ind.
    + rewrite app_nil_r in E1. cbn in E2. subst. auto.
    + exfalso. rewrite app_assoc in E1. apply app_inj_tail in E1. destruct E1 as [_ <-].
      subst d1. rewrite forallb_app in D1. apply andb_prop in D1. destruct D1 as [D1 _].
      rewrite forallb_app in D1. apply andb_prop in D1. destruct D1 as [_ D1]. cbn in D1. rewrite N2 in D1. discriminate.
Qed.

(** Two representations with the same suffix part whose prefix parts end in a non-digit (the
    usual  $RepresentationID$/$Number$.m4s ) cannot both match one segment path with the repaired
    pattern, unless their prefix parts are equal; the number read is the same. *)
Theorem anchored_match_unique pre1 pre2 suf s d1 d2 :
  ends_nondigit pre1 -> ends_nondigit pre2 ->
  media_match_anchored pre1 suf s = Some d1 -> media_match_anchored pre2 suf s = Some d2 ->
  pre1 = pre2 /\ d1 = d2.
Proof.
  intros N1 N2 M1 M2.
  apply media_match_anchored_spec in M1. apply media_match_anchored_spec in M2.
  destruct M1 as (E1 & _ & D1). destruct M2 as (E2 & _ & D2).
  rewrite E1 in E2. rewrite !app_assoc in E2. apply app_inv_tail in E2.
  eapply split_digits_unique; eauto.
Qed.

Lemma first_rep_first_some matcher order seg :
  first_rep matcher order seg =
  first_some (fun r => match matcher (r_pre r) (r_suf r) seg with Some ds => Some (r_id r, num_of 0 ds) | None => None end) order.
Proof.
  induction order as [|r t IH]; cbn; auto. destruct (matcher (r_pre r) (r_suf r) seg); auto.
Qed.

(** Well-formed representation set for the repaired pattern: one common suffix, prefixes end in a
    non-digit, and the prefix determines the representation. *)
Definition reps_wf (reps : list rep) : Prop :=
  (forall r r', In r reps -> In r' reps -> r_suf r = r_suf r') /\
  (forall r, In r reps -> ends_nondigit (r_pre r)) /\
  (forall r r', In r reps -> In r' reps -> r_pre r = r_pre r' -> r_id r = r_id r').

(** C07_find_rep (repaired pattern): the representation and number found do not depend on the
    iteration order of the map. *)
Theorem find_rep_anchored_function reps seg res1 res2 :
  reps_wf reps ->
  find_rep_rel media_match_anchored reps seg res1 -> find_rep_rel media_match_anchored reps seg res2 ->
  res1 = res2.
Proof.
  intros (WS & WN & WI) (o1 & P1 & F1) (o2 & P2 & F2).
  rewrite first_rep_first_some in F1, F2. subst res1 res2.
  apply first_some_order_independent.
  - eapply Permutation_trans; [eauto|apply Permutation_sym; auto].
  - intros r r' b b' I I' Fr Fr'.
    assert (Ir : In r reps) by (eapply Permutation_in; [exact P1|exact I]).
    assert (Ir' : In r' reps) by (eapply Permutation_in; [exact P1|exact I']).
    destruct (media_match_anchored (r_pre r) (r_suf r) seg) as [d1|] eqn:M1; inversion Fr; subst.
    destruct (media_match_anchored (r_pre r') (r_suf r') seg) as [d2|] eqn:M2; inversion Fr'; subst.
    rewrite (WS r' r Ir' Ir) in M2.
    destruct (anchored_match_unique _ _ _ _ _ _ (WN r Ir) (WN r' Ir') M1 M2) as [Ep Ed].
    rewrite (WI r r' Ir Ir' Ep), Ed. reflexivity.
Qed.

(** As found (unanchored, unquoted) the look-up is not a function although the set is well-formed
    in the sense above: representations "1" and "11", request 11/48.m4s. *)
Definition rep_of_id (id : string) : rep := mkRep (str_of id) (str_of id ++ [slash]) (str_of ".m4s").

Theorem find_rep_unanchored_refuted :
  let reps := [rep_of_id "1"; rep_of_id "11"] in
  let seg := str_of "11/48.m4s" in
  reps_wf reps /\
  find_rep_rel media_search reps seg (Some (str_of "1", 48)) /\
  find_rep_rel media_search reps seg (Some (str_of "11", 48)).
Proof.
  cbv zeta. split; [|split].
  - split; [|split].
    + intros r r' [<-|[<-|[]]] [<-|[<-|[]]]; reflexivity.
    + intros r [<-|[<-|[]]]; [exists (str_of "1"), slash|exists (str_of "11"), slash]; split; reflexivity.
    + intros r r' [<-|[<-|[]]] [<-|[<-|[]]]; cbn; intros H; try reflexivity; discriminate H.
  - exists [rep_of_id "1"; rep_of_id "11"]. split; [apply Permutation_refl|vm_compute; reflexivity].
  - exists [rep_of_id "11"; rep_of_id "1"]. split; [apply perm_swap|vm_compute; reflexivity].
Qed.

(** The same request with the repaired pattern: representation "11" whatever the order. *)
Theorem find_rep_anchored_example : forall res,
  find_rep_rel media_match_anchored [rep_of_id "1"; rep_of_id "11"] (str_of "11/48.m4s") res ->
  res = Some (str_of "11", 48).
Proof.
  intros res H.
  assert (W : reps_wf [rep_of_id "1"; rep_of_id "11"]) by apply find_rep_unanchored_refuted.
  eapply find_rep_anchored_function; eauto.
  exists [rep_of_id "1"; rep_of_id "11"]. split; [apply Permutation_refl|vm_compute; reflexivity].
Qed.

(** The candidate lists used by the correspondence are exactly the possible answers. *)
Lemma asset_candidates_iff assets uri a :
  In a (asset_candidates assets uri) <-> find_asset_rel assets uri (Some a).
Proof. unfold asset_candidates. rewrite filter_In, find_asset_rel_some. reflexivity. Qed.

(** * After the repairs (fix commits 5fe544f, a92686d) *)

(** A segment path is matched by at most one representation of a well-formed set. *)
Theorem anchored_at_most_one reps seg r r' d d' :
  reps_wf reps -> In r reps -> In r' reps ->
  media_match_anchored (r_pre r) (r_suf r) seg = Some d ->
  media_match_anchored (r_pre r') (r_suf r') seg = Some d' ->
  r_id r = r_id r' /\ d = d'.
Proof.
  intros (WS & WN & WI) I I' M M'. rewrite (WS r' r I' I) in M'.
  destruct (anchored_match_unique _ _ _ _ _ _ (WN r I) (WN r' I') M M') as [Ep Ed].
  split; [apply WI; auto|exact Ed].
Qed.

(** The hypothesis on the templates is needed: with a template that puts nothing between
    $RepresentationID$ and $Number$, ids "a" and "a1" both match a12.m4s also with the repaired
    pattern (read as number 12 of "a" or number 2 of "a1"). *)
Theorem find_rep_anchored_nosep_refuted :
  let reps := [mkRep (str_of "a") (str_of "a") (str_of ".m4s"); mkRep (str_of "a1") (str_of "a1") (str_of ".m4s")] in
  let seg := str_of "a12.m4s" in
  find_rep_rel media_match_anchored reps seg (Some (str_of "a", 12)) /\
  find_rep_rel media_match_anchored reps seg (Some (str_of "a1", 2)).
Proof.
  cbv zeta. split.
  - eexists. split; [apply Permutation_refl|vm_compute; reflexivity].
  - eexists. split; [apply perm_swap|vm_compute; reflexivity].
Qed.

(** The result of the repaired findAsset: a matching path of maximal length, None iff none matches. *)
Theorem find_asset_longest_max order uri :
  match find_asset_longest order uri with
  | None => forall b, In b order -> asset_matches uri b = false
  | Some a => In a order /\ asset_matches uri a = true /\
              forall b, In b order -> asset_matches uri b = true -> (length b <= length a)%nat
  end.
Proof. exact (find_asset_longest_spec order uri). Qed.

(** * The ingester manager as found (before fix commit ee6ff88): a really unordered pair *)
From Verif Require Import Conc.

Theorem ingester_asfound_races :
  let w := mkAccess "ingesters[]" "cmafIngesterMgr.NewCmafIngester" true RHandler [] in
  let r := mkAccess "ingesters[]" "createGetCmafIngesterInfoHdlr$closure" false RHandler [] in
  races multi_all w r = true /\
  valid multi_all [w; r] (unordered_trace w r "none") /\
  ~ hb (unordered_trace w r "none") 1 2.
Proof.
  split; [vm_compute; reflexivity|]. split.
  - apply unordered_trace_valid; try reflexivity. intros lk [].
  - apply unordered_trace_not_hb.
Qed.
