(** MODEL for C11 (MPD patch): executable transliteration of
      /repo/pkg/patch/myers.go   MyersDiff, diffInternal, pyMod, equalLeafs, sameElements
      /repo/pkg/patch/patch.go   MPDDiff, checkPatchConditions, newPatchDoc, addElemChanges, addLeafChanges,
                                 addLeafListChanges, calcAddr, compareAttributes, sortAttr, checkMandatoryIdAttribute
      /repo/cmd/livesim2/app/handler_patch.go   status logic of patchHandlerFunc
    plus an independent XML-patch applier [apply_ops] (RFC 5261 subset used by DASH MPD patch).
    No proofs in this file (see PatchProofs.v). *)
From Verif Require Import GoSem.
From Coq Require Import Ascii.

(* ------------------------------------------------------------------------------------------ *)
(** * XML trees (what etree gives the code: Tag, Attr (Space,Key,Value), Text(), ChildElements()) *)

Record attr := mkAttr { a_space : string; a_key : string; a_val : string }.

Inductive elem := Elem (tag : string) (attrs : list attr) (text : string) (children : list elem).

Definition e_tag (e : elem) := match e with Elem t _ _ _ => t end.
Definition e_attrs (e : elem) := match e with Elem _ a _ _ => a end.
Definition e_text (e : elem) := match e with Elem _ _ t _ => t end.
Definition e_children (e : elem) := match e with Elem _ _ _ c => c end.
Definition set_children (e : elem) (cs : list elem) := Elem (e_tag e) (e_attrs e) (e_text e) cs.
Definition set_attrs (e : elem) (a : list attr) := Elem (e_tag e) a (e_text e) (e_children e).

Definition seqb (a b : string) : bool := String.eqb a b.

(** etree.SelectAttr(key) for a key without prefix: first attribute whose Key matches, any Space. *)
Fixpoint select_attr (key : string) (l : list attr) : option attr :=
  match l with
  | [] => None
  | a :: t => if seqb (a_key a) key then Some a else select_attr key t
  end.

(** getAttrValue: value if the key exists, else the empty string *)
Definition getAttrValue (e : elem) (key : string) : string :=
  match select_attr key (e_attrs e) with Some a => a_val a | None => "" end.

Definition isLeaf (e : elem) : bool := match e_children e with [] => true | _ => false end.

(* ------------------------------------------------------------------------------------------ *)
(** * myers.go *)

Inductive mkind := KDel | KIns.
Record mop := mkMop { m_kind : mkind; m_old : Z; m_new : Z }.

(** pyMod: ((x % y) + y) % y with Go's truncating remainder: in [0, y) for every x when y > 0
    (before b1a6767 it was (x + y) % y, negative for x < -y). *)
Definition pyMod (x y : Z) : Z := Z.rem (Z.rem x y + y) y.

(** accesses to the index arrays c, d (g, p) of diffInternal *)
Definition cd_site : string := "patch.diffInternal:index of c/d".
Definition aget (c : list Z) (i : Z) : res Z := index cd_site c i.
Definition aset (c : list Z) (i v : Z) : res (list Z) :=
  if (i <? 0) || (lenZ c <=? i) then Panic cd_site
  else Ok (takeZ i c ++ v :: dropZ (i + 1) c).

(** e[lo:hi]; the model panics when hi exceeds the length (Go allows up to the capacity; the
    theorems show the bounds are never exceeded on the checked domain). *)
Definition slice {A} (l : list A) (lo hi : Z) : res (list A) :=
  if (lo <? 0) || (hi <? lo) || (lenZ l <? hi) then Panic "patch.diffInternal:slice"
  else Ok (takeZ (hi - lo) (dropZ lo l)).

Fixpoint zeros (n : nat) : list Z := match n with O => [] | S k => 0 :: zeros k end.

Definition mk_dels (i : Z) (n : nat) : list mop := map (fun k => mkMop KDel (i + k) (-1)) (seqZ 0 n).
Definition mk_inss (i j : Z) (n : nat) : list mop := map (fun k => mkMop KIns i (j + k)) (seqZ 0 n).

(** the middle snake found by the search: (D, x, y, u, v) *)
Definition found := (Z * Z * Z * Z * Z)%type.

Section Myers.
  Context {A : Type} (eqf : A -> A -> bool).

  (** for a < N && b < M && equals(e[(1-o)*N+m*a+(o-1)], f[(1-o)*M+m*b+(o-1)]) { a, b = a+1, b+1 } *)
  Fixpoint snake (fuel : nat) (e f : list A) (N M o m a b : Z) : res (Z * Z) :=
    match fuel with
    | O => Err "fuel"
    | S fuel' =>
      if (a <? N) && (b <? M) then
        do x <- index "patch.diffInternal:index" e ((1 - o) * N + m * a + (o - 1));
        do y <- index "patch.diffInternal:index" f ((1 - o) * M + m * b + (o - 1));
        if eqf x y then snake fuel' e f N M o m (a + 1) (b + 1) else Ok (a, b)
      else Ok (a, b)
    end.

  (** for k := kMin; k < kMax; k += 2 { ... }  — returns the updated array c, or the split *)
  Fixpoint k_loop (fuel : nat) (e f : list A) (N M L Zz w h o m : Z) (c d : list Z) (k kMax : Z)
    : res (list Z + found) :=
    match fuel with
    | O => Err "fuel"
    | S fuel' =>
      if k <? kMax then
        do a0 <- (if k =? - h then aget c (pyMod (k + 1) Zz)
                  else if negb (k =? h) then
                         do c1 <- aget c (pyMod (k - 1) Zz);
                         do c2 <- aget c (pyMod (k + 1) Zz);
                         if c1 <? c2 then Ok c2 else Ok (c1 + 1)
                       else do c1 <- aget c (pyMod (k - 1) Zz); Ok (c1 + 1));
        let s := a0 in let t := a0 - k in
        do ab <- snake (S (length e)) e f N M o m a0 (a0 - k);
        let '(a, b) := ab in
        do c' <- aset c (pyMod k Zz) a;
        let z := - (k - w) in
        do hit <- (if (pyMod L 2 =? o) && (- (h - o) <=? z) && (z <=? h - o) then
                     do ck <- aget c' (pyMod k Zz);
                     do dz <- aget d (pyMod z Zz);
                     Ok (N <=? ck + dz)
                   else Ok false);
        if hit then
          Ok (inr (if o =? 1 then (2 * h - 1, s, t, a, b) else (2 * h, N - a, M - b, N - s, M - t)))
        else k_loop fuel' e f N M L Zz w h o m c' d (k + 2) kMax
      else Ok (inl c)
    end.

  (** for h := 0; h < hMax; h++ { for r := 0; r < 2; r++ { ... } } *)
  Fixpoint h_loop (fuel kfuel : nat) (e f : list A) (N M L Zz w : Z) (g p : list Z) (h hMax : Z)
    : res (option found) :=
    match fuel with
    | O => Err "fuel"
    | S fuel' =>
      if h <? hMax then
        let kMin := - (h - 2 * Z.max 0 (h - M)) in
        let kMax := h - 2 * Z.max 0 (h - N) + 1 in
        do r0 <- k_loop kfuel e f N M L Zz w h 1 1 g p kMin kMax;
        match r0 with
        | inr fd => Ok (Some fd)
        | inl g' =>
          do r1 <- k_loop kfuel e f N M L Zz w h 0 (-1) p g' kMin kMax;
          match r1 with
          | inr fd => Ok (Some fd)
          | inl p' => h_loop fuel' kfuel e f N M L Zz w g' p' (h + 1) hMax
          end
        end
      else Ok None
    end.

  Fixpoint diffInternal (fuel : nat) (e f : list A) (i j : Z) : res (list mop) :=
    match fuel with
    | O => Err "fuel"
    | S fuel' =>
      let N := lenZ e in let M := lenZ f in let L := N + M in
      let Zz := 2 * Z.min N M + 2 in
      if (0 <? N) && (0 <? M) then
        let w := N - M in
        let g := zeros (Z.to_nat Zz) in
        let hMax := Z.quot L 2 + Z.rem L 2 + 1 in
        let lf := S (S (length e + length f)) in
        do fd <- h_loop lf lf e f N M L Zz w g g 0 hMax;
        match fd with
        | None => Panic "patch.diffInternal:Should never hit this!"
        | Some (D, x, y, u, v) =>
          if (1 <? D) || (negb (x =? u) && negb (y =? v)) then
            do e1 <- slice e 0 x; do f1 <- slice f 0 y;
            do r1 <- diffInternal fuel' e1 f1 i j;
            do e2 <- slice e u N; do f2 <- slice f v M;
            do r2 <- diffInternal fuel' e2 f2 (i + u) (j + v);
            Ok (r1 ++ r2)
          else if N <? M then
            do f1 <- slice f N M; diffInternal fuel' [] f1 (i + N) (j + N)
          else if M <? N then
            do e1 <- slice e M N; diffInternal fuel' e1 [] (i + M) (j + M)
          else Ok []
        end
      else if 0 <? N then Ok (mk_dels i (length e))
      else Ok (mk_inss i j (length f))
    end.

  Definition myers (e f : list A) : res (list mop) :=
    diffInternal (S (length e + length f)) e f 0 0.

  (** ** What it means for a script (in the form myers.go emits: insert/delete only, old positions
      non-decreasing, NewPos of an insertion = its index in f) to transform e into f under [eqf].
      [e], [f] are the parts not yet consumed, [oi], [ni] the absolute indices of their heads. *)
  Fixpoint valid_from (s : list mop) (e f : list A) (oi ni : Z) : bool :=
    match s with
    | [] => list_eqb eqf e f
    | d :: s' =>
      let k := m_old d - oi in
      (0 <=? k) && (k <=? lenZ e) && (k <=? lenZ f) &&
      list_eqb eqf (takeZ k e) (takeZ k f) &&
      match m_kind d with
      | KDel => match dropZ k e with
                | [] => false
                | _ :: e'' => valid_from s' e'' (dropZ k f) (m_old d + 1) (ni + k)
                end
      | KIns => (m_new d =? ni + k) &&
                match dropZ k f with
                | [] => false
                | _ :: f'' => valid_from s' (dropZ k e) f'' (m_old d) (ni + k + 1)
                end
      end
    end.

  Definition valid_script (s : list mop) (e f : list A) : bool := valid_from s e f 0 0.
End Myers.

(** equalLeafs: same tag, same Text(), same attribute (Key, Value) sequence — Space is not compared *)
Definition equalLeafs (a b : elem) : bool :=
  seqb (e_tag a) (e_tag b) && seqb (e_text a) (e_text b) &&
  list_eqb (fun x y => seqb (a_key x) (a_key y) && seqb (a_val x) (a_val y)) (e_attrs a) (e_attrs b).

(** sameElements: same tag and equal id attribute values (both missing counts as equal) *)
Definition sameElements (a b : elem) : bool :=
  seqb (e_tag a) (e_tag b) && seqb (getAttrValue a "id") (getAttrValue b "id").

(* ------------------------------------------------------------------------------------------ *)
(** * Selectors and patch operations *)

Inductive pred := PNone | PAttr (name val : string) | PIdx (k : Z).
Record step := mkStep { st_tag : string; st_pred : pred }.
Definition path := list step.     (* "/MPD/Period[@id='P0']/…": first step is the root *)

Inductive pos := Prepend | After.

Inductive op :=
| OReplace (sel : path) (x : elem)                 (* <replace sel="path">x</replace> *)
| OReplaceAttr (sel : path) (key val : string)     (* <replace sel="path/@key">val</replace> *)
| OAdd (sel : path) (ps : pos) (x : elem)          (* <add sel="path" pos="…">x</add> *)
| OAddAttr (sel : path) (key val : string)         (* <add sel="path/@key">val</add> *)
| ORemove (sel : path)                             (* <remove sel="path"/> *)
| ORemoveAttr (sel : path) (key val : string).     (* <remove sel="path/@key">val</remove> *)

(** calcAddr *)
Definition calcAddr (e : elem) (elemIdx : Z) : step :=
  let id := getAttrValue e "id" in
  if negb (seqb id "") then mkStep (e_tag e) (PAttr "id" id)
  else let su := getAttrValue e "schemeIdUri" in
       if negb (seqb su "") then mkStep (e_tag e) (PAttr "schemeIdUri" su)
       else if seqb (e_tag e) "SegmentTimeline" || seqb (e_tag e) "SegmentTemplate"
            then mkStep (e_tag e) PNone
            else mkStep (e_tag e) (PIdx (elemIdx + 1)).

(* ------------------------------------------------------------------------------------------ *)
(** * compareAttributes *)

Definition compareAttrNames (a1 a2 : attr) : comparison :=
  match String.compare (a_space a1) (a_space a2) with
  | Lt => Lt | Gt => Gt
  | Eq => String.compare (a_key a1) (a_key a2)
  end.

(** sortAttr: for attribute lists without repeated (Space,Key) every correct sort gives the same
    list; the model uses insertion sort. *)
Fixpoint insert_attr (x : attr) (l : list attr) : list attr :=
  match l with
  | [] => [x]
  | y :: t => match compareAttrNames x y with
              | Gt => y :: insert_attr x t
              | _ => x :: l
              end
  end.
Fixpoint sortAttr (l : list attr) : list attr :=
  match l with [] => [] | x :: t => insert_attr x (sortAttr t) end.

Record attrChange := mkAC { ac_added : list attr; ac_removed : list attr; ac_changed : list attr }.
Definition ac_add x c := mkAC (x :: ac_added c) (ac_removed c) (ac_changed c).
Definition ac_rem x c := mkAC (ac_added c) (x :: ac_removed c) (ac_changed c).
Definition ac_chg x c := mkAC (ac_added c) (ac_removed c) (x :: ac_changed c).

(** the merge walk over the two sorted lists *)
Fixpoint cmp_walk (o : list attr) : list attr -> attrChange :=
  match o with
  | [] => fun n => mkAC n [] []
  | x :: o' =>
    fix inner (n : list attr) : attrChange :=
      match n with
      | [] => ac_rem x (cmp_walk o' [])
      | y :: n' =>
        match compareAttrNames x y with
        | Lt => ac_rem x (cmp_walk o' n)
        | Eq => if seqb (a_val x) (a_val y) then cmp_walk o' n' else ac_chg y (cmp_walk o' n')
        | Gt => ac_add y (inner n')
        end
      end
  end.

Definition compareAttributes (o n : list attr) : attrChange := cmp_walk (sortAttr o) (sortAttr n).

(** addAttrChanges: replace for changed, add for added, remove for removed – in that order;
    the selector uses the Key only. *)
Definition attr_ops (p : path) (o n : list attr) : list op :=
  let c := compareAttributes o n in
  map (fun a => OReplaceAttr p (a_key a) (a_val a)) (ac_changed c) ++
  map (fun a => OAddAttr p (a_key a) (a_val a)) (ac_added c) ++
  map (fun a => ORemoveAttr p (a_key a) (a_val a)) (ac_removed c).

(* ------------------------------------------------------------------------------------------ *)
(** * addLeafChanges, addLeafListChanges *)

Definition leaf_changes (old new : elem) (p : path) : list op :=
  if negb (seqb (e_text old) (e_text new)) then [OReplace p new]
  else attr_ops p (e_attrs old) (e_attrs new).

(** the loop of addLeafListChanges over an edit script (any script) *)
Fixpoint leaflist_ops (p : path) (oldE newE : list elem) (s : list mop) (oldIdx offset : Z)
  : res (list op) :=
  match s with
  | [] => Ok []
  | d :: s' =>
    let oldIdx := Z.max oldIdx (m_old d) in            (* for d.OldPos > oldIdx { oldIdx++ } *)
    if m_old d =? oldIdx then
      match m_kind d with
      | KDel =>
        do oe <- index "patch.addLeafListChanges:index" oldE (m_old d);
        let addr := calcAddr oe (oldIdx + offset) in
        do rest <- leaflist_ops p oldE newE s' (oldIdx + 1) (offset - 1);
        Ok (ORemove (p ++ [addr]) :: rest)
      | KIns =>
        do ne <- index "patch.addLeafListChanges:index" newE (m_new d);
        let newPos := oldIdx + offset in
        let o := if newPos =? 0 then OAdd p Prepend ne
                 else OAdd (p ++ [calcAddr ne (newPos - 1)]) After ne in
        do rest <- leaflist_ops p oldE newE s' oldIdx (offset + 1);
        Ok (o :: rest)
      end
    else leaflist_ops p oldE newE s' oldIdx offset
  end.

Definition leaflist_check (tag : string) (l : list elem) : res unit :=
  fold_left (fun (r : res unit) e =>
               do _ <- r;
               if negb (seqb (e_tag e) tag) then Err "other tag in leaf list"
               else if negb (isLeaf e) then Err "leaf list element has children" else Ok tt)
            l (Ok tt).

(** the list-diff function is a parameter of the tree diff, so that the theorems about the tree
    walk hold for every differ that returns valid scripts; the code uses MyersDiff *)
Definition differ := (elem -> elem -> bool) -> list elem -> list elem -> res (list mop).

Definition leaflist_changes_with (diff : differ) (old new : elem) (p : path) : res (list op) :=
  let oldE := e_children old in let newE := e_children new in
  match oldE, newE with
  | [], [] => Ok []
  | _, _ =>
    let tag := match oldE with x :: _ => e_tag x | [] => match newE with y :: _ => e_tag y | [] => "" end end in
    do _ <- leaflist_check tag oldE;
    do _ <- leaflist_check tag newE;
    do s <- diff equalLeafs oldE newE;
    leaflist_ops p oldE newE s 0 0
  end.

Definition leaflist_changes : elem -> elem -> path -> res (list op) := leaflist_changes_with (@myers elem).

(* ------------------------------------------------------------------------------------------ *)
(** * addElemChanges *)

Definition checkMandatoryIdAttribute (e : elem) : res unit :=
  let t := e_tag e in
  if seqb t "MPD" || seqb t "Period" || seqb t "AdaptationSet" || seqb t "Representation" || seqb t "SubRepresentation"
  then match select_attr "id" (e_attrs e) with None => Err "id attribute missing" | Some _ => Ok tt end
  else Ok tt.

(** lastNewIdx : map[string]int *)
Fixpoint cnt_get (m : list (string * Z)) (t : string) : Z :=
  match m with [] => 0 | (k, v) :: r => if seqb k t then v else cnt_get r t end.
Fixpoint cnt_incr (m : list (string * Z)) (t : string) : list (string * Z) :=
  match m with
  | [] => [(t, 1)]
  | (k, v) :: r => if seqb k t then (k, v + 1) :: r else (k, v) :: cnt_incr r t
  end.

Record estate := mkES { es_old : Z; es_new : Z; es_lastPath : option path; es_cnt : list (string * Z) }.

(** n iterations of the "keep" step: compare oldChildren[oldIdx] with newChildren[newIdx] *)
Fixpoint keep_n (rec : elem -> elem -> path -> res (list op)) (n : nat) (oc nc : list elem) (p : path)
         (st : estate) : res (list op * estate) :=
  match n with
  | O => Ok ([], st)
  | S n' =>
    do oe <- index "patch.addElemChanges:index" oc (es_old st);
    let addr := calcAddr oe (cnt_get (es_cnt st) (e_tag oe)) in
    let np := p ++ [addr] in
    do ne <- index "patch.addElemChanges:index" nc (es_new st);
    do ops <- rec oe ne np;
    let st' := mkES (es_old st + 1) (es_new st + 1) (Some np) (cnt_incr (es_cnt st) (e_tag oe)) in
    do r <- keep_n rec n' oc nc p st';
    Ok (ops ++ fst r, snd r)
  end.

Fixpoint children_loop (rec : elem -> elem -> path -> res (list op)) (s : list mop) (oc nc : list elem)
         (p : path) (st : estate) : res (list op) :=
  match s with
  | [] =>
    (* for oldIdx < len(oldChildren) { keep } *)
    do r <- keep_n rec (Z.to_nat (lenZ oc - es_old st)) oc nc p st; Ok (fst r)
  | d :: s' =>
    do r <- keep_n rec (Z.to_nat (m_old d - es_old st)) oc nc p st;
    let '(kops, st) := r in
    if m_old d =? es_old st then
      match m_kind d with
      | KDel =>
        do oe <- index "patch.addElemChanges:index" oc (m_old d);
        (* since 3800168: the per-tag counter, as for kept children (before: es_old st, the index among all children) *)
        let addr := calcAddr oe (cnt_get (es_cnt st) (e_tag oe)) in
        let st' := mkES (es_old st + 1) (es_new st) (es_lastPath st) (es_cnt st) in
        do rest <- children_loop rec s' oc nc p st';
        Ok (kops ++ ORemove (p ++ [addr]) :: rest)
      | KIns =>
        do ne <- index "patch.addElemChanges:index" nc (m_new d);
        let addr := calcAddr ne (cnt_get (es_cnt st) (e_tag ne)) in
        let o := match es_lastPath st with
                 | None => OAdd p Prepend ne
                 | Some lp => OAdd lp After ne
                 end in
        let st' := mkES (es_old st) (es_new st + 1) (Some (p ++ [addr])) (cnt_incr (es_cnt st) (e_tag ne)) in
        do rest <- children_loop rec s' oc nc p st';
        Ok (kops ++ o :: rest)
      end
    else
      do rest <- children_loop rec s' oc nc p st; Ok (kops ++ rest)
  end.

Fixpoint elem_ops_with (diff : differ) (fuel : nat) (old new : elem) (p : path) : res (list op) :=
  match fuel with
  | O => Err "fuel"
  | S fuel' =>
    if negb (seqb (e_tag old) (e_tag new)) then Err "different tags"
    else
      do _ <- checkMandatoryIdAttribute old;
      do _ <- checkMandatoryIdAttribute new;
      if seqb (e_tag old) "SegmentTimeline" then
        (* since 00916e3 the element's own attributes are diffed first (before: only the S children) *)
        do lops <- leaflist_changes_with diff old new p;
        Ok (attr_ops p (e_attrs old) (e_attrs new) ++ lops)
      else if isLeaf old && isLeaf new then Ok (leaf_changes old new p)
      else
        let aops := attr_ops p (e_attrs old) (e_attrs new) in
        do s <- diff sameElements (e_children old) (e_children new);
        do cops <- children_loop (elem_ops_with diff fuel') s (e_children old) (e_children new) p (mkES 0 0 None []);
        Ok (aops ++ cops)
  end.

(** addElemChanges as in the code: the differ is MyersDiff *)
Definition elem_ops : nat -> elem -> elem -> path -> res (list op) := elem_ops_with (@myers elem).

Fixpoint depth (e : elem) : nat :=
  match e with Elem _ _ _ cs => S (fold_right (fun c m => Nat.max (depth c) m) O cs) end.

(* ------------------------------------------------------------------------------------------ *)
(** * RFC 3339 instants "YYYY-MM-DDTHH:MM:SS[.fff]Z" (the only form livesim2 writes) in nanoseconds *)

Definition digit (c : ascii) : option Z :=
  let n := Z.of_N (N_of_ascii c) in if (48 <=? n) && (n <=? 57) then Some (n - 48) else None.

Fixpoint digits (s : string) (acc : Z) (n : nat) : option (Z * string) :=
  match n with
  | O => Some (acc, s)
  | S n' => match s with
            | String c r => match digit c with Some d => digits r (acc * 10 + d) n' | None => None end
            | EmptyString => None
            end
  end.

Definition expect (c : ascii) (s : string) : option string :=
  match s with String c' r => if Ascii.eqb c c' then Some r else None | EmptyString => None end.

(** fraction digits: value in ns (digits beyond the ninth are dropped) *)
Fixpoint frac (s : string) (scale acc : Z) : option (Z * string) :=
  match s with
  | String c r => match digit c with
                  | Some d => frac r (Z.quot scale 10) (acc + d * Z.quot scale 10)
                  | None => Some (acc, s)
                  end
  | EmptyString => Some (acc, s)
  end.

Definition is_leap (y : Z) : bool := ((y mod 4 =? 0) && negb (y mod 100 =? 0)) || (y mod 400 =? 0).
Definition days_in_month (y m : Z) : Z :=
  if m =? 2 then (if is_leap y then 29 else 28)
  else if (m =? 4) || (m =? 6) || (m =? 9) || (m =? 11) then 30 else 31.

Definition days_from_civil (y m d : Z) : Z :=
  let y' := if m <=? 2 then y - 1 else y in
  let era := y' / 400 in
  let yoe := y' - era * 400 in
  let mp := if 2 <? m then m - 3 else m + 9 in
  let doy := (153 * mp + 2) / 5 + d - 1 in
  let doe := yoe * 365 + yoe / 4 - yoe / 100 + doy in
  era * 146097 + doe - 719468.

Definition obind {A B} (o : option A) (f : A -> option B) : option B :=
  match o with Some a => f a | None => None end.

Definition parse_rfc3339 (s : string) : option Z :=
  obind (digits s 0 4) (fun '(y, s) => obind (expect "-" s) (fun s =>
  obind (digits s 0 2) (fun '(mo, s) => obind (expect "-" s) (fun s =>
  obind (digits s 0 2) (fun '(d, s) => obind (expect "T" s) (fun s =>
  obind (digits s 0 2) (fun '(hh, s) => obind (expect ":" s) (fun s =>
  obind (digits s 0 2) (fun '(mi, s) => obind (expect ":" s) (fun s =>
  obind (digits s 0 2) (fun '(ss, s) =>
  obind (match s with
         | String "." r => match r with
                           | String c _ => match digit c with Some _ => frac r 1000000000 0 | None => None end
                           | EmptyString => None
                           end
         | _ => Some (0, s)
         end) (fun '(ns, s) =>
  match s with
  | String "Z" EmptyString =>
    if (1 <=? mo) && (mo <=? 12) && (1 <=? d) && (d <=? days_in_month y mo) &&
       (hh <? 24) && (mi <? 60) && (ss <? 60)
    then Some ((((days_from_civil y mo d * 24 + hh) * 60 + mi) * 60 + ss) * 1000000000 + ns)
    else None
  | _ => None
  end)))))))))))).

(** strconv.Atoi for the ttl attribute: optional sign, decimal digits, 64-bit range *)
Fixpoint all_digits (s : string) (acc : Z) : option Z :=
  match s with
  | EmptyString => Some acc
  | String c r => match digit c with Some d => all_digits r (acc * 10 + d) | None => None end
  end.
Definition atoi (s : string) : option Z :=
  let body sgn r := match r with
                    | EmptyString => None
                    | _ => obind (all_digits r 0) (fun v => let v := sgn * v in
                             if (- two63 <=? v) && (v <? two63) then Some v else None)
                    end in
  match s with
  | String "-" r => body (-1) r
  | String "+" r => body 1 r
  | _ => body 1 s
  end.

(* ------------------------------------------------------------------------------------------ *)
(** * checkPatchConditions, newPatchDoc, MPDDiff *)

Definition PatchExpirationMarginNs : Z := 10 * 1000000000.

Definition errSamePublishTime : string := "same publishTime in both MPDs".
Definition errTooLate : string := "patch TTL exceeded".
(** since 1d37caa: the old MPD does not offer patches (no PatchLocation, or one without ttl): 400 *)
Definition errNoTTL : string := "old MPD has no PatchLocation with a ttl".

Fixpoint select_element (tag : string) (cs : list elem) : option elem :=
  match cs with [] => None | c :: r => if seqb (e_tag c) tag then Some c else select_element tag r end.

(** returns the expiration instant (ns) *)
Definition checkPatchConditions (oldRoot newRoot : elem) : res Z :=
  if negb (seqb (e_tag oldRoot) "MPD") || negb (seqb (e_tag newRoot) "MPD") then Err "not MPD root element in both MPDs"
  else
    let newPT := getAttrValue newRoot "publishTime" in
    let oldPT := getAttrValue oldRoot "publishTime" in
    if seqb newPT "" || seqb oldPT "" then Err "lacking publishTime attribute in MPD"
    else if seqb newPT oldPT then Err errSamePublishTime
    else match select_element "PatchLocation" (e_children oldRoot) with
         | None => Err errNoTTL
         | Some pl =>
           match select_attr "ttl" (e_attrs pl) with
           | None => Err errNoTTL
           | Some ta =>
             match atoi (a_val ta) with
             | None => Err "failed to convert ttl"
             | Some ttl =>
               match parse_rfc3339 oldPT with
               | None => Err "failed to parse old publishTime"
               | Some o =>
                 match parse_rfc3339 newPT with
                 | None => Err "failed to parse new publishTime"
                 | Some n =>
                   (* time.Duration(ttl)*time.Second + PatchExpirationMargin in int64 *)
                   let expiration := o + i64 (i64 (ttl * 1000000000) + PatchExpirationMarginNs) in
                   if expiration <? n then Err errTooLate else Ok expiration
                 end
               end
             end
           end
         end.

Record patchdoc := mkPatch { p_mpdId : string; p_orig : string; p_new : string; p_ops : list op; p_expiration : Z }.

Definition rootPath : path := [mkStep "MPD" PNone].

Definition mpdDiff (oldRoot newRoot : elem) : res patchdoc :=
  do expiration <- checkPatchConditions oldRoot newRoot;
  let oldId := getAttrValue oldRoot "id" in
  let newId := getAttrValue newRoot "id" in
  if seqb oldId "" || negb (seqb newId oldId) then Err "failed to create patch doc: not the same non-empty id in both MPDs"
  else
    (* publishTime attributes are non-empty here *)
    do ops <- elem_ops (S (depth oldRoot)) oldRoot newRoot rootPath;
    Ok (mkPatch oldId (getAttrValue oldRoot "publishTime") (getAttrValue newRoot "publishTime") ops expiration).

(** patchHandlerFunc: HTTP status from the outcome of MPDDiff.  errors.Is compares with the two
    sentinel error values, which only checkPatchConditions returns (every other error is a fresh
    fmt.Errorf value); a panic is turned into 500 by the Recoverer middleware of the router. *)
Definition mpdDiff_status (oldRoot newRoot : elem) : Z :=
  match checkPatchConditions oldRoot newRoot with
  | Err e => if seqb e errSamePublishTime then 425 else if seqb e errTooLate then 410
             else if seqb e errNoTTL then 400 else 500
  | Panic _ => 500
  | Ok _ => match mpdDiff oldRoot newRoot with Ok _ => 200 | _ => 500 end
  end.

(** The handler regenerates the old MPD at publishTime + 1 ms and the new one at now. [mpd_at]
    is the MPD generator (abstract here), times in ms; [pt_ms] the parsed publishTime query. *)
Definition patch_handler (mpd_at : Z -> elem) (pt_ms now_ms : Z) : res patchdoc :=
  mpdDiff (mpd_at (pt_ms + 1)) (mpd_at now_ms).
Definition patch_handler_status (mpd_at : Z -> elem) (pt_ms now_ms : Z) : Z :=
  mpdDiff_status (mpd_at (pt_ms + 1)) (mpd_at now_ms).

(* ------------------------------------------------------------------------------------------ *)
(** * The independent applier: XML patch operations on a tree (RFC 5261 as used by DASH) *)

(** What a selector step looks at: tag and attributes of the children. *)
Definition sig_of (e : elem) : string * list attr := (e_tag e, e_attrs e).

Definition step_match (st : step) (sg : string * list attr) : bool :=
  seqb (fst sg) (st_tag st) &&
  match st_pred st with
  | PAttr n v => match select_attr n (snd sg) with Some a => seqb (a_val a) v | None => false end
  | _ => true
  end.

(** indices (from [i]) of the signatures matching the step's tag and attribute predicate *)
Fixpoint match_idx (st : step) (sgs : list (string * list attr)) (i : Z) : list Z :=
  match sgs with
  | [] => []
  | sg :: r => if step_match st sg then i :: match_idx st r (i + 1) else match_idx st r (i + 1)
  end.

(** the child selected by a step: Tag[k] is the k-th child with that tag; every other form must
    match exactly one child *)
Definition find_sig (st : step) (sgs : list (string * list attr)) : option Z :=
  let ms := match_idx st sgs 0 in
  match st_pred st with
  | PIdx k => if k <? 1 then None else nthZ (k - 1) ms
  | _ => match ms with [i] => Some i | _ => None end
  end.
Definition find_child (st : step) (cs : list elem) : option Z := find_sig st (map sig_of cs).

Definition replace_nth {A} (i : Z) (x : A) (l : list A) : list A := takeZ i l ++ x :: dropZ (i + 1) l.
Definition remove_nth {A} (i : Z) (l : list A) : list A := takeZ i l ++ dropZ (i + 1) l.
Definition insert_at {A} (i : Z) (x : A) (l : list A) : list A := takeZ i l ++ x :: dropZ i l.

(** apply [f] to the element reached from [e] by the steps [p] (each step selects a child) *)
Fixpoint upd_path (p : path) (f : elem -> option elem) (e : elem) : option elem :=
  match p with
  | [] => f e
  | st :: p' =>
    obind (find_child st (e_children e)) (fun i =>
    obind (nthZ i (e_children e)) (fun c =>
    obind (upd_path p' f c) (fun c' =>
    Some (set_children e (replace_nth i c' (e_children e))))))
  end.

Fixpoint split_last {A} (l : list A) : option (list A * A) :=
  match l with
  | [] => None
  | [x] => Some ([], x)
  | x :: t => match split_last t with Some (i, z) => Some (x :: i, z) | None => None end
  end.

Definition root_match (st : step) (root : elem) : bool :=
  match st_pred st with PIdx k => (k =? 1) && seqb (e_tag root) (st_tag st) | _ => step_match st (sig_of root) end.

(** operation on the children of the parent of the selected element *)
Definition at_parent (sel : path) (f : step -> list elem -> option (list elem)) (root : elem) : option elem :=
  match sel with
  | [] => None
  | r :: rest =>
    if root_match r root then
      match split_last rest with
      | None => None
      | Some (pp, last) =>
        upd_path pp (fun parent => obind (f last (e_children parent)) (fun cs => Some (set_children parent cs))) root
      end
    else None
  end.

(** operation on the selected element itself *)
Definition at_elem (sel : path) (f : elem -> option elem) (root : elem) : option elem :=
  match sel with
  | [] => None
  | r :: rest => if root_match r root then upd_path rest f root else None
  end.

Fixpoint set_attr_val (key val : string) (l : list attr) : option (list attr) :=
  match l with
  | [] => None
  | a :: t => if seqb (a_key a) key then Some (mkAttr (a_space a) (a_key a) val :: t)
              else obind (set_attr_val key val t) (fun t' => Some (a :: t'))
  end.
Fixpoint del_attr (key : string) (l : list attr) : option (list attr) :=
  match l with
  | [] => None
  | a :: t => if seqb (a_key a) key then Some t else obind (del_attr key t) (fun t' => Some (a :: t'))
  end.

Definition apply_op (o : op) (root : elem) : option elem :=
  match o with
  | OReplace sel x =>
    match sel with
    | [r] => if root_match r root then Some x else None
    | _ => at_parent sel (fun st cs => obind (find_child st cs) (fun i => Some (replace_nth i x cs))) root
    end
  | ORemove sel =>
    at_parent sel (fun st cs => obind (find_child st cs) (fun i => Some (remove_nth i cs))) root
  | OAdd sel Prepend x =>
    at_elem sel (fun e => Some (set_children e (x :: e_children e))) root
  | OAdd sel After x =>
    at_parent sel (fun st cs => obind (find_child st cs) (fun i => Some (insert_at (i + 1) x cs))) root
  | OReplaceAttr sel key val =>
    at_elem sel (fun e => obind (set_attr_val key val (e_attrs e)) (fun a => Some (set_attrs e a))) root
  | OAddAttr sel key val =>
    at_elem sel (fun e => match select_attr key (e_attrs e) with
                          | Some _ => None
                          | None => Some (set_attrs e (e_attrs e ++ [mkAttr "" key val]))
                          end) root
  | ORemoveAttr sel key _ =>
    at_elem sel (fun e => obind (del_attr key (e_attrs e)) (fun a => Some (set_attrs e a))) root
  end.

Fixpoint apply_ops (ops : list op) (root : elem) : option elem :=
  match ops with
  | [] => Some root
  | o :: r => obind (apply_op o root) (apply_ops r)
  end.

(** documents are compared with attributes as sets: canonical form = attributes sorted *)
Fixpoint canon (e : elem) : elem :=
  match e with Elem t a x cs => Elem t (sortAttr a) x (map canon cs) end.

(* ------------------------------------------------------------------------------------------ *)
(** * Decidable equalities (for the correspondence check) *)

Definition attr_eqb (a b : attr) : bool :=
  seqb (a_space a) (a_space b) && seqb (a_key a) (a_key b) && seqb (a_val a) (a_val b).
Fixpoint elem_eqb (a b : elem) : bool :=
  match a, b with
  | Elem t1 a1 x1 c1, Elem t2 a2 x2 c2 =>
    seqb t1 t2 && list_eqb attr_eqb a1 a2 && seqb x1 x2 &&
    (fix go (l1 l2 : list elem) : bool :=
       match l1, l2 with
       | [], [] => true
       | p :: r1, q :: r2 => elem_eqb p q && go r1 r2
       | _, _ => false
       end) c1 c2
  end.
Definition pred_eqb (a b : pred) : bool :=
  match a, b with
  | PNone, PNone => true
  | PAttr n1 v1, PAttr n2 v2 => seqb n1 n2 && seqb v1 v2
  | PIdx k1, PIdx k2 => k1 =? k2
  | _, _ => false
  end.
Definition step_eqb (a b : step) : bool := seqb (st_tag a) (st_tag b) && pred_eqb (st_pred a) (st_pred b).
Definition path_eqb (a b : path) : bool := list_eqb step_eqb a b.
Definition pos_eqb (a b : pos) : bool := match a, b with Prepend, Prepend | After, After => true | _, _ => false end.
Definition op_eqb (a b : op) : bool :=
  match a, b with
  | OReplace s1 x1, OReplace s2 x2 => path_eqb s1 s2 && elem_eqb x1 x2
  | OReplaceAttr s1 k1 v1, OReplaceAttr s2 k2 v2 => path_eqb s1 s2 && seqb k1 k2 && seqb v1 v2
  | OAdd s1 p1 x1, OAdd s2 p2 x2 => path_eqb s1 s2 && pos_eqb p1 p2 && elem_eqb x1 x2
  | OAddAttr s1 k1 v1, OAddAttr s2 k2 v2 => path_eqb s1 s2 && seqb k1 k2 && seqb v1 v2
  | ORemove s1, ORemove s2 => path_eqb s1 s2
  | ORemoveAttr s1 k1 v1, ORemoveAttr s2 k2 v2 => path_eqb s1 s2 && seqb k1 k2 && seqb v1 v2
  | _, _ => false
  end.
Definition mop_eqb (a b : mop) : bool :=
  match m_kind a, m_kind b with KDel, KDel | KIns, KIns => true | _, _ => false end &&
  (m_old a =? m_old b) && (m_new a =? m_new b).
