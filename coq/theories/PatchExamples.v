(** C11: a concrete pair of documents for the non-vacuity example of props/C11.v *)
From Verif Require Import GoSem Patch PatchProofs PatchProofsCheck.

Definition xA k v := mkAttr "" k v.
Definition xS d := Elem "S" [xA "d" d] "" [].
Definition xstl l := Elem "SegmentTemplate" [xA "timescale" "48000"] "" [Elem "SegmentTimeline" [] "" l].
Definition xrep i bw := Elem "Representation" [xA "id" i; xA "bandwidth" bw] "" [].
Definition xaset i attrs kids := Elem "AdaptationSet" (xA "id" i :: attrs) "" kids.
Definition xmpd pt kids :=
  Elem "MPD" [mkAttr "" "xmlns" "urn:mpeg:dash:schema:mpd:2011"; mkAttr "xmlns" "xsi" "x"; xA "id" "m"; xA "publishTime" pt] ""
       (Elem "ProgramInformation" [] "" [Elem "Title" [] "t" []] :: Elem "PatchLocation" [xA "ttl" "60"] "/patch/x.mpp" [] :: kids).
Definition ex_old := xmpd "2024-01-01T00:00:00Z"
  [Elem "Period" [xA "id" "P0"; xA "start" "PT0S"] ""
     [Elem "BaseURL" [] "http://a/" [];
      xaset "1" [xA "lang" "en"] [xstl [xS "96256"; xS "95232"; xS "96256"]; xrep "a1" "1000"];
      xaset "2" [] [xstl [xS "180000"]; xrep "v1" "2000"]]].
Definition ex_new := xmpd "2024-01-01T00:00:02Z"
  [Elem "Period" [xA "id" "P0"; xA "start" "PT0S"] ""
     [Elem "BaseURL" [] "http://a/" [];
      xaset "1" [xA "lang" "sv"; xA "codecs" "mp4a"] [xstl [xS "95232"; xS "96256"; xS "96256"]; xrep "a1" "1000"; xrep "a2" "1500"];
      xaset "2" [] [xstl [xS "180000"]; xrep "v1" "2000"]]].

Lemma ex_premise : tree_okb (@myers elem) (S (depth ex_old)) ex_old ex_new = true.
Proof. vm_cast_no_check (eq_refl true). Qed.

Definition ex_nops : Z := match mpdDiff ex_old ex_new with Ok pd => lenZ (p_ops pd) | _ => -1 end.
Lemma ex_nops_6 : ex_nops = 6.
Proof. vm_cast_no_check (eq_refl 6). Qed.

Lemma ex_checked :
  tree_okb (@myers elem) (S (depth ex_old)) ex_old ex_new = true /\
  exists pd new', mpdDiff ex_old ex_new = Ok pd /\ lenZ (p_ops pd) = 6 /\
                  apply_ops (p_ops pd) ex_old = Some new' /\ equiv new' ex_new.
Proof.
  split; [exact ex_premise|]. pose proof ex_nops_6 as HN. unfold ex_nops in HN.
  destruct (mpdDiff ex_old ex_new) as [pd| |] eqn:E; try (exfalso; lia).
  destruct (mpdDiff_sound ex_old ex_new pd E (tree_okb_spec _ _ _ _ ex_premise)) as (new' & H1 & H2).
  exists pd, new'. auto.
Qed.

(** the structural premise of C11_tree_ids holds for the same pair *)
From Verif Require Import PatchProofsIds.
Lemma ex_structural : tree_wab (@myers elem) (S (depth ex_old)) ex_old ex_new = true.
Proof. vm_cast_no_check (eq_refl true). Qed.
