(** C11 proofs, top level: MPDDiff on whole documents, the status logic of the patch handler,
    the witnesses of the defects, bounded exhaustive checks of the Myers model.
    Parts: PatchProofsNav (navigation), PatchProofsLeaf (addLeafListChanges), PatchProofsAttr
    (compareAttributes), PatchProofsTree (addElemChanges), PatchProofsMyers (edit scripts). *)
From Verif Require Import GoSem GoSemFacts Patch.
From Verif Require Export PatchProofsNav PatchProofsLeaf PatchProofsAttr PatchProofsTree.
From Coq Require Import ZifyBool Permutation.

(* ------------------------------------------------------------------------------------------ *)
(** * Whole documents *)

Lemma located_root root : e_tag root = "MPD" -> located rootPath [] (sig_of root).
Proof.
  intros H. unfold rootPath, located. cbn [hsig frames_ok]. split; [|exact I].
  unfold root_match_sig, step_match. cbn. now rewrite H.
Qed.

Lemma rootPath_addr : Forall addr_step rootPath.
Proof. repeat constructor. Qed.

(** MPDDiff with any differ: the patch applied to the old document gives a document equivalent
    to the new one, provided the premise [tree_ok] holds for the pair *)
Theorem mpdDiff_sound : forall old new pd,
  mpdDiff old new = Ok pd ->
  tree_ok (@myers elem) (S (depth old)) old new ->
  exists new', apply_ops (p_ops pd) old = Some new' /\ equiv new' new.
Proof.
  intros old new pd HD HT. unfold mpdDiff in HD.
  destruct (checkPatchConditions old new) as [ex|?|?] eqn:EC; cbn [bind] in HD; try discriminate.
  destruct (seqb (getAttrValue old "id") "" || negb (seqb (getAttrValue new "id") (getAttrValue old "id"))); [discriminate|].
  assert (Htag : e_tag old = "MPD").
  { unfold checkPatchConditions in EC. destruct (seqb (e_tag old) "MPD") eqn:E; [now apply seqb_eq in E|discriminate]. }
  destruct (tree_sound (@myers elem) _ old new rootPath [] HT rootPath_addr (located_root old Htag))
    as (ops & new' & Hops & Happ & Hsim & _).
  unfold elem_ops in HD. rewrite Hops in HD. cbn [bind] in HD. inversion HD; subst. cbn [p_ops].
  exists new'. split; [exact Happ|exact Hsim].
Qed.

(* ------------------------------------------------------------------------------------------ *)
(** * checkPatchConditions and the status of the handler *)

Section Handler.
  Variables old new : elem.
  Variables (ptO ptN ttlS : string) (o n ttl : Z) (pl : elem).
  Hypothesis HtO : e_tag old = "MPD".
  Hypothesis HtN : e_tag new = "MPD".
  Hypothesis HpO : getAttrValue old "publishTime" = ptO.
  Hypothesis HpN : getAttrValue new "publishTime" = ptN.
  Hypothesis HneO : ptO <> "".
  Hypothesis HneN : ptN <> "".
  Hypothesis Hpl : select_element "PatchLocation" (e_children old) = Some pl.
  Hypothesis Httl : option_map a_val (select_attr "ttl" (e_attrs pl)) = Some ttlS.
  Hypothesis Hatoi : atoi ttlS = Some ttl.
  Hypothesis HparseO : parse_rfc3339 ptO = Some o.
  Hypothesis HparseN : parse_rfc3339 ptN = Some n.

  Definition expiration : Z := o + i64 (i64 (ttl * 1000000000) + PatchExpirationMarginNs).

  Lemma check_conditions :
    checkPatchConditions old new =
      if seqb ptN ptO then Err errSamePublishTime
      else if expiration <? n then Err errTooLate else Ok expiration.
  Proof.
    unfold checkPatchConditions. rewrite HtO, HtN, HpO, HpN. cbn [seqb String.eqb negb orb].
    replace (seqb ptN "") with false by (symmetry; now apply seqb_neq).
    replace (seqb ptO "") with false by (symmetry; now apply seqb_neq). cbn [orb].
    destruct (seqb ptN ptO); [reflexivity|]. rewrite Hpl.
    destruct (select_attr "ttl" (e_attrs pl)) as [ta|]; cbn [option_map] in Httl; [|discriminate].
    inversion Httl as [Hv]. rewrite Hv, Hatoi, HparseO, HparseN. reflexivity.
  Qed.

  Lemma sentinels_differ : seqb errTooLate errSamePublishTime = false.
  Proof. reflexivity. Qed.

  (** 425 exactly when the two publishTime attributes are the same string *)
  Theorem status_425 : mpdDiff_status old new = 425 <-> ptN = ptO.
  Proof.
    unfold mpdDiff_status. rewrite check_conditions. destruct (seqb ptN ptO) eqn:E.
    - apply seqb_eq in E. cbn. tauto.
    - apply seqb_neq in E. split; [|tauto]. intros H. exfalso.
      destruct (expiration <? n).
      + vm_compute in H. discriminate.
      + destruct (mpdDiff old new); discriminate.
  Qed.

  (** 410 exactly when the new publishTime lies after old publishTime + ttl + margin *)
  Theorem status_410 : ptN <> ptO -> (mpdDiff_status old new = 410 <-> expiration < n).
  Proof.
    intros Hne. unfold mpdDiff_status. rewrite check_conditions.
    replace (seqb ptN ptO) with false by (symmetry; now apply seqb_neq).
    destruct (expiration <? n) eqn:E.
    - split; [lia|]. intros _. reflexivity.
    - split; [|lia]. intros H. destruct (mpdDiff old new); discriminate.
  Qed.

  (** a served patch names the publishTime of the old document as originalPublishTime *)
  Theorem status_200 : mpdDiff_status old new = 200 ->
    exists pd, mpdDiff old new = Ok pd /\ p_orig pd = ptO /\ p_new pd = ptN /\
               p_expiration pd = expiration /\ ptN <> ptO /\ n <= expiration.
  Proof.
    unfold mpdDiff_status. rewrite check_conditions. destruct (seqb ptN ptO) eqn:E; [discriminate|].
    apply seqb_neq in E. destruct (expiration <? n) eqn:E2; [rewrite sentinels_differ; discriminate|].
    destruct (mpdDiff old new) as [pd| |] eqn:ED; try discriminate. intros _.
    exists pd. split; [reflexivity|]. unfold mpdDiff in ED. rewrite check_conditions in ED.
    replace (seqb ptN ptO) with false in ED by (symmetry; now apply seqb_neq). rewrite E2 in ED. cbn [bind] in ED.
    destruct (seqb (getAttrValue old "id") "" || negb (seqb (getAttrValue new "id") (getAttrValue old "id"))); [discriminate|].
    destruct (elem_ops (S (depth old)) old new rootPath); cbn [bind] in ED; try discriminate.
    inversion ED; subst. cbn. repeat split; auto. lia.
  Qed.

  (** time.Duration(ttl)*time.Second + margin does not wrap for a ttl below 2^31 *)
  Lemma expiration_plain : 0 <= ttl < 2147483648 -> expiration = o + ttl * 1000000000 + 10000000000.
  Proof.
    intros H. unfold expiration, i64, PatchExpirationMarginNs, two63, two64.
    rewrite (Z.mod_small (ttl * 1000000000 + 9223372036854775808)) by lia.
    rewrite Z.mod_small by lia. lia.
  Qed.
End Handler.

(** The handler: old = MPD regenerated for publishTime + 1 ms, new = MPD of now.  [REGEN] is the
    assumption that the regenerated document is the one that was served at t1 (it fails for assets
    whose segment ends are not whole seconds as long as publishTime is written in whole seconds -
    repaired in /repo by 77e368c; the oracle checks the assumption on every served case). *)
Theorem handler_statuses : forall (mpd_at : Z -> elem) (t1 pt1_ms t2 : Z) ptO ptN o n ttlS ttl pl,
  mpd_at (pt1_ms + 1) = mpd_at t1 ->
  e_tag (mpd_at t1) = "MPD" -> e_tag (mpd_at t2) = "MPD" ->
  getAttrValue (mpd_at t1) "publishTime" = ptO -> getAttrValue (mpd_at t2) "publishTime" = ptN ->
  ptO <> "" -> ptN <> "" ->
  select_element "PatchLocation" (e_children (mpd_at t1)) = Some pl ->
  option_map a_val (select_attr "ttl" (e_attrs pl)) = Some ttlS -> atoi ttlS = Some ttl ->
  parse_rfc3339 ptO = Some o -> parse_rfc3339 ptN = Some n -> 0 <= ttl < 2147483648 ->
  let st := patch_handler_status mpd_at pt1_ms t2 in
  (st = 425 <-> ptN = ptO) /\
  (ptN <> ptO -> (st = 410 <-> o + ttl * 1000000000 + 10000000000 < n)) /\
  (st = 200 -> exists pd, patch_handler mpd_at pt1_ms t2 = Ok pd /\ p_orig pd = ptO /\ p_new pd = ptN /\
                          n <= o + ttl * 1000000000 + 10000000000).
Proof.
  intros mpd_at t1 pt1 t2 ptO ptN o n ttlS ttl pl REGEN H1 H2 H3 H4 H5 H6 H7 H8 H9 H10 H11 Httl st.
  unfold st, patch_handler_status, patch_handler. rewrite REGEN.
  pose proof (expiration_plain o ttl Httl) as HE.
  split; [|split].
  - eapply status_425; eauto.
  - intros Hne. rewrite <- HE. eapply status_410; eauto.
  - intros H. destruct (status_200 (mpd_at t1) (mpd_at t2) ptO ptN ttlS o n ttl pl H1 H2 H3 H4 H5 H6 H7 H8 H9 H10 H11 H)
      as (pd & A & B & C & D & E & F).
    exists pd. rewrite <- HE. auto.
Qed.

(* ------------------------------------------------------------------------------------------ *)
(** * Witnesses of the defects *)

Definition wA k v := mkAttr "" k v.
Definition w_burl t := Elem "BaseURL" [] t [].
Definition w_aset := Elem "AdaptationSet" [wA "id" "1"] "" [Elem "Representation" [wA "id" "v"; wA "bandwidth" "1000"] "" []].
Definition w_period kids := Elem "Period" [wA "id" "P0"; wA "start" "PT0S"] "" kids.
Definition w_mpd pt kids := Elem "MPD" [wA "id" "m"; wA "publishTime" pt] "" (Elem "PatchLocation" [wA "ttl" "60"] "/patch/x.mpp" [] :: kids).
Definition w_pinfo := Elem "ProgramInformation" [] "" [Elem "Title" [] "t" []].
Definition w_old := w_mpd "2024-01-01T00:00:00Z" [w_period [w_pinfo; w_burl "a"; w_burl "b"; w_aset]].
Definition w_new := w_mpd "2024-01-01T00:00:02Z" [w_period [w_pinfo; w_burl "a"; w_aset]].

(** The former witness of the defect repaired by 3800168 (Period children [ProgramInformation; BaseURL a;
    BaseURL b; AdaptationSet] vs [ProgramInformation; BaseURL a; AdaptationSet]: the removal used to be
    addressed BaseURL[3], the index among all children): it is now addressed BaseURL[2] and the patch applies. *)
Theorem idless_removal_applies :
  exists pd, mpdDiff w_old w_new = Ok pd /\
    In (ORemove [mkStep "MPD" PNone; mkStep "Period" (PAttr "id" "P0"); mkStep "BaseURL" (PIdx 2)]) (p_ops pd) /\
    exists new', apply_ops (p_ops pd) w_old = Some new' /\ elem_eqb (canon new') (canon w_new) = true.
Proof.
  eexists. split; [vm_compute; reflexivity|]. split; [cbn; tauto|].
  eexists. split; vm_compute; reflexivity.
Qed.

(* ------------------------------------------------------------------------------------------ *)
(** * Bounded exhaustive check of the Myers model (the bound is part of the statement) *)

Fixpoint lists_upto (alpha : list Z) (n : nat) : list (list Z) :=
  match n with
  | O => [[]]
  | S k => let r := lists_upto alpha k in
           r ++ flat_map (fun l => map (fun a => a :: l) alpha) (filter (fun l => Nat.eqb (length l) k) r)
  end.

Definition myers_ok (e f : list Z) : bool :=
  match myers Z.eqb e f with Ok s => valid_script Z.eqb s e f | _ => false end.

Definition sweep (alpha : list Z) (n : nat) : bool :=
  let ls := lists_upto alpha n in forallb (fun e => forallb (fun f => myers_ok e f) ls) ls.

Lemma lists_upto_complete alpha : forall n l, (length l <= n)%nat -> Forall (fun a => In a alpha) l -> In l (lists_upto alpha n).
Proof.
  induction n as [|n IH]; intros l Hl Ha.
  - destruct l; [now left|cbn in Hl; lia].
  - cbn [lists_upto]. apply in_or_app. destruct (Nat.eq_dec (length l) (S n)) as [E|E].
    + right. destruct l as [|a l]; [discriminate|]. cbn in E. inversion Ha; subst.
      apply in_flat_map. exists l. split.
      * apply filter_In. split; [apply IH; [lia|assumption]|]. apply Nat.eqb_eq. lia.
      * apply in_map_iff. exists a. split; [reflexivity|assumption].
    + left. apply IH; [lia|assumption].
Qed.

Lemma sweep_sound alpha n : sweep alpha n = true ->
  forall e f : list Z, (length e <= n)%nat -> (length f <= n)%nat ->
  Forall (fun a => In a alpha) e -> Forall (fun a => In a alpha) f ->
  exists s, myers Z.eqb e f = Ok s /\ valid_script Z.eqb s e f = true.
Proof.
  unfold sweep. intros H e f He Hf Ae Af. rewrite forallb_forall in H.
  specialize (H e (lists_upto_complete _ _ _ He Ae)). rewrite forallb_forall in H.
  specialize (H f (lists_upto_complete _ _ _ Hf Af)). unfold myers_ok in H.
  destruct (myers Z.eqb e f); try discriminate. eauto.
Qed.

(** evaluated by the VM (a few seconds each); larger bounds: coq/thorough/C11Bounded.v *)
Lemma sweep_3_4 : sweep [0;1;2] 4 = true.
Proof. vm_cast_no_check (eq_refl true). Qed.
Lemma sweep_2_6 : sweep [0;1] 6 = true.
Proof. vm_cast_no_check (eq_refl true). Qed.

Theorem myers_valid_bounded_3_4 : forall e f : list Z,
  (length e <= 4)%nat -> (length f <= 4)%nat ->
  Forall (fun a => In a [0;1;2]) e -> Forall (fun a => In a [0;1;2]) f ->
  exists s, myers Z.eqb e f = Ok s /\ valid_script Z.eqb s e f = true.
Proof. exact (sweep_sound [0;1;2] 4 sweep_3_4). Qed.

Theorem myers_valid_bounded_2_6 : forall e f : list Z,
  (length e <= 6)%nat -> (length f <= 6)%nat ->
  Forall (fun a => In a [0;1]) e -> Forall (fun a => In a [0;1]) f ->
  exists s, myers Z.eqb e f = Ok s /\ valid_script Z.eqb s e f = true.
Proof. exact (sweep_sound [0;1] 6 sweep_2_6). Qed.
