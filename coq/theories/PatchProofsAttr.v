(** C11 proofs, part 3: compareAttributes / addAttrChanges.  The replace/add/remove operations on
    attributes, applied in the order the code emits them, turn the attribute list [o] into a
    permutation of [n] (attribute order is not observable in XML). *)
From Verif Require Import GoSem GoSemFacts Patch PatchProofsNav.
From Coq Require Import ZifyBool Permutation OrderedTypeEx.

(* ------------------------------------------------------------------------------------------ *)
(** * The order on attribute names (Space, Key) *)

Lemma scmp_eq a b : String.compare a b = Eq <-> a = b.
Proof. apply String_as_OT.cmp_eq. Qed.
Lemma scmp_antisym a b : String.compare a b = CompOpp (String.compare b a).
Proof. apply String_as_OT.cmp_antisym. Qed.
Lemma scmp_lt_trans a b c : String.compare a b = Lt -> String.compare b c = Lt -> String.compare a c = Lt.
Proof. intros H1 H2. apply String_as_OT.cmp_lt in H1, H2. apply String_as_OT.cmp_lt. eapply String_as_OT.lt_trans; eauto. Qed.
Lemma scmp_refl a : String.compare a a = Eq.
Proof. now apply scmp_eq. Qed.

Definition sameN (x y : attr) : Prop := a_space x = a_space y /\ a_key x = a_key y.
Definition sameNb (x y : attr) : bool := seqb (a_space x) (a_space y) && seqb (a_key x) (a_key y).

Lemma sameNb_spec x y : sameNb x y = true <-> sameN x y.
Proof. unfold sameNb, sameN. rewrite andb_true_iff, !seqb_eq. tauto. Qed.

Lemma cmpN_eq x y : compareAttrNames x y = Eq <-> sameN x y.
Proof.
  unfold compareAttrNames, sameN. destruct (String.compare (a_space x) (a_space y)) eqn:E.
  - apply scmp_eq in E. rewrite scmp_eq. tauto.
  - split; [discriminate|]. intros [H _]. apply scmp_eq in H. congruence.
  - split; [discriminate|]. intros [H _]. apply scmp_eq in H. congruence.
Qed.

Lemma cmpN_antisym x y : compareAttrNames x y = CompOpp (compareAttrNames y x).
Proof.
  unfold compareAttrNames. rewrite (scmp_antisym (a_space x) (a_space y)).
  destruct (String.compare (a_space y) (a_space x)); cbn; try reflexivity. apply scmp_antisym.
Qed.

Lemma cmpN_lt_trans x y z : compareAttrNames x y = Lt -> compareAttrNames y z = Lt -> compareAttrNames x z = Lt.
Proof.
  unfold compareAttrNames.
  destruct (String.compare (a_space x) (a_space y)) eqn:E1; try discriminate;
  destruct (String.compare (a_space y) (a_space z)) eqn:E2; try discriminate; intros H1 H2.
  - apply scmp_eq in E1, E2. rewrite E1, E2, scmp_refl. eapply scmp_lt_trans; eauto.
  - apply scmp_eq in E1. now rewrite E1, E2.
  - apply scmp_eq in E2. now rewrite <- E2, E1.
  - now rewrite (scmp_lt_trans _ _ _ E1 E2).
Qed.

Lemma cmpN_lt_sameN_l x x' y : sameN x x' -> compareAttrNames x y = Lt -> compareAttrNames x' y = Lt.
Proof. unfold compareAttrNames, sameN. intros [-> ->]. auto. Qed.
Lemma cmpN_lt_sameN_r x y y' : sameN y y' -> compareAttrNames x y = Lt -> compareAttrNames x y' = Lt.
Proof. unfold compareAttrNames, sameN. intros [-> ->]. auto. Qed.
Lemma cmpN_lt_not_same x y : compareAttrNames x y = Lt -> sameNb x y = false /\ sameNb y x = false.
Proof.
  intros H. split.
  - destruct (sameNb x y) eqn:E; [|reflexivity]. apply sameNb_spec, cmpN_eq in E. congruence.
  - destruct (sameNb y x) eqn:E; [|reflexivity]. apply sameNb_spec in E. destruct E as [E1 E2].
    assert (sameN x y) by (split; congruence). apply cmpN_eq in H0. congruence.
Qed.
Lemma cmpN_gt_lt x y : compareAttrNames x y = Gt -> compareAttrNames y x = Lt.
Proof. intros H. rewrite cmpN_antisym, H. reflexivity. Qed.

(** strictly sorted *)
Definition lt_all (x : attr) (l : list attr) : Prop := Forall (fun y => compareAttrNames x y = Lt) l.
Inductive ssorted : list attr -> Prop :=
| ss_nil : ssorted []
| ss_cons x l : lt_all x l -> ssorted l -> ssorted (x :: l).

Lemma lt_all_trans x y l : compareAttrNames x y = Lt -> lt_all y l -> lt_all x l.
Proof. intros H. apply Forall_impl. intros a. now apply cmpN_lt_trans. Qed.
Lemma lt_all_sameN x x' l : sameN x x' -> lt_all x l -> lt_all x' l.
Proof. intros H. apply Forall_impl. intros a. now apply cmpN_lt_sameN_l. Qed.

(** no two attributes of [l] have the same name *)
Definition names_distinct (l : list attr) : Prop := NoDup (map (fun a => (a_space a, a_key a)) l).

Lemma insert_attr_perm x l : Permutation (insert_attr x l) (x :: l).
Proof.
  induction l as [|y l IH]; cbn [insert_attr]; [reflexivity|].
  destruct (compareAttrNames x y); try reflexivity.
  rewrite IH. apply perm_swap.
Qed.

Lemma sortAttr_perm l : Permutation (sortAttr l) l.
Proof. induction l as [|x l IH]; cbn [sortAttr]; [reflexivity|]. now rewrite insert_attr_perm, IH. Qed.

Lemma insert_attr_sorted x l : ssorted l -> (forall y, In y l -> ~ sameN x y) -> ssorted (insert_attr x l).
Proof.
  induction 1 as [|y l Hy Hl IH]; intros Hx; cbn [insert_attr].
  - repeat constructor.
  - destruct (compareAttrNames x y) eqn:E.
    + apply cmpN_eq in E. exfalso. apply (Hx y); [now left|exact E].
    + constructor; [|now constructor]. constructor; [exact E|]. eapply lt_all_trans; eauto.
    + constructor.
      * apply cmpN_gt_lt in E. unfold lt_all. apply Forall_forall. intros z Hz.
        apply (Permutation_in _ (insert_attr_perm x l)) in Hz. destruct Hz as [<-|Hz]; [exact E|].
        eapply Forall_forall in Hy; eauto.
      * apply IH. intros z Hz. apply Hx. now right.
Qed.

Lemma sortAttr_sorted l : names_distinct l -> ssorted (sortAttr l).
Proof.
  unfold names_distinct. induction l as [|x l IH]; cbn [sortAttr map]; intros H; [constructor|].
  inversion H as [|? ? Hn Hd]; subst. apply insert_attr_sorted; [now apply IH|].
  intros y Hy [H1 H2]. apply Hn. apply (Permutation_in _ (sortAttr_perm l)) in Hy.
  apply in_map_iff. exists y. split; [now rewrite H1, H2|exact Hy].
Qed.

(* ------------------------------------------------------------------------------------------ *)
(** * What the merge walk computes, as filters *)

Definition chg_of (so sn : list attr) : list attr :=
  filter (fun y => existsb (fun x => sameNb x y && negb (seqb (a_val x) (a_val y))) so) sn.
Definition add_of (so sn : list attr) : list attr :=
  filter (fun y => negb (existsb (fun x => sameNb x y) so)) sn.
Definition rem_of (so sn : list attr) : list attr :=
  filter (fun x => negb (existsb (fun y => sameNb x y) sn)) so.

Lemma existsb_false {A} (f : A -> bool) l : (forall x, In x l -> f x = false) -> existsb f l = false.
Proof.
  induction l as [|a l IH]; intros H; cbn [existsb]; [reflexivity|].
  rewrite (H a) by now left. apply IH. intros x Hx. apply H. now right.
Qed.

Lemma filter_true {A} (f : A -> bool) l : (forall x, In x l -> f x = true) -> filter f l = l.
Proof.
  induction l as [|a l IH]; intros H; cbn [filter]; [reflexivity|].
  rewrite (H a) by now left. f_equal. apply IH. intros x Hx. apply H. now right.
Qed.
Lemma filter_false {A} (f : A -> bool) l : (forall x, In x l -> f x = false) -> filter f l = [].
Proof.
  induction l as [|a l IH]; intros H; cbn [filter]; [reflexivity|].
  rewrite (H a) by now left. apply IH. intros x Hx. apply H. now right.
Qed.

Lemma lt_all_nosame x l : lt_all x l -> forall y, In y l -> sameNb x y = false /\ sameNb y x = false.
Proof. intros H y Hy. eapply Forall_forall in H; eauto. now apply cmpN_lt_not_same. Qed.

Lemma walk_filters : forall so, ssorted so -> forall sn, ssorted sn ->
  cmp_walk so sn = mkAC (add_of so sn) (rem_of so sn) (chg_of so sn).
Proof.
  induction 1 as [|x o' Hx Ho IHo]; intros sn Hsn.
  - cbn [cmp_walk]. unfold add_of, rem_of, chg_of. cbn [existsb negb filter].
    f_equal; [now rewrite filter_true|now rewrite filter_false].
  - induction Hsn as [|y n' Hy Hn IHn].
    + cbn [cmp_walk]. rewrite (IHo [] ss_nil). unfold ac_rem, add_of, rem_of, chg_of. cbn. reflexivity.
    + cbn [cmp_walk]. destruct (compareAttrNames x y) eqn:E.
      * (* same name *)
        apply cmpN_eq in E. pose proof (proj2 (sameNb_spec x y) E) as Eb.
        assert (Hxn : lt_all x n') by (eapply lt_all_sameN; [|exact Hy]; destruct E; split; congruence).
        assert (Hyo : lt_all y o') by (eapply lt_all_sameN; [exact E|exact Hx]).
        rewrite (IHo n' Hn).
        assert (Ec : chg_of (x :: o') (y :: n') =
                     if seqb (a_val x) (a_val y) then chg_of o' n' else y :: chg_of o' n').
        { unfold chg_of. cbn [filter existsb]. rewrite Eb. cbn [andb].
          rewrite (existsb_false _ o').
          2:{ intros z Hz. destruct (lt_all_nosame _ _ Hyo z Hz) as [_ ->]. reflexivity. }
          rewrite orb_false_r.
          assert (filter (fun y0 => (sameNb x y0 && negb (seqb (a_val x) (a_val y0))) || existsb (fun x0 => sameNb x0 y0 && negb (seqb (a_val x0) (a_val y0))) o') n'
                  = filter (fun y0 => existsb (fun x0 => sameNb x0 y0 && negb (seqb (a_val x0) (a_val y0))) o') n') as ->.
          { apply filter_ext_in. intros z Hz. destruct (lt_all_nosame _ _ Hxn z Hz) as [-> _]. reflexivity. }
          destruct (seqb (a_val x) (a_val y)); reflexivity. }
        assert (Ea : add_of (x :: o') (y :: n') = add_of o' n').
        { unfold add_of. cbn [filter existsb]. rewrite Eb. cbn [orb negb].
          apply filter_ext_in. intros z Hz. destruct (lt_all_nosame _ _ Hxn z Hz) as [-> _]. reflexivity. }
        assert (Er : rem_of (x :: o') (y :: n') = rem_of o' n').
        { unfold rem_of. cbn [filter existsb]. rewrite Eb. cbn [orb negb].
          apply filter_ext_in. intros z Hz. destruct (lt_all_nosame _ _ Hyo z Hz) as [_ ->]. reflexivity. }
        rewrite Ec, Ea, Er. destruct (seqb (a_val x) (a_val y)); reflexivity.
      * (* x < y: removed *)
        assert (Hxn : lt_all x (y :: n')) by (constructor; [exact E|eapply lt_all_trans; eauto]).
        rewrite (IHo (y :: n') (ss_cons _ _ Hy Hn)). unfold ac_rem. cbn [ac_added ac_removed ac_changed]. f_equal.
        -- unfold add_of. apply filter_ext_in. intros z Hz. cbn [existsb].
           destruct (lt_all_nosame _ _ Hxn z Hz) as [-> _]. reflexivity.
        -- unfold rem_of. cbn [filter]. rewrite (existsb_false _ (y :: n')); [reflexivity|].
           intros z Hz. now destruct (lt_all_nosame _ _ Hxn z Hz) as [-> _].
        -- unfold chg_of. apply filter_ext_in. intros z Hz. cbn [existsb].
           destruct (lt_all_nosame _ _ Hxn z Hz) as [-> _]. reflexivity.
      * (* y < x: added *)
        apply cmpN_gt_lt in E.
        assert (Hyo : lt_all y (x :: o')) by (constructor; [exact E|eapply lt_all_trans; eauto]).
        change ((fix inner (n : list attr) : attrChange :=
                   match n with
                   | [] => ac_rem x (cmp_walk o' [])
                   | y0 :: n'0 =>
                     match compareAttrNames x y0 with
                     | Eq => if seqb (a_val x) (a_val y0) then cmp_walk o' n'0 else ac_chg y0 (cmp_walk o' n'0)
                     | Lt => ac_rem x (cmp_walk o' n)
                     | Gt => ac_add y0 (inner n'0)
                     end
                   end) n') with (cmp_walk (x :: o') n').
        rewrite IHn. unfold ac_add. cbn [ac_added ac_removed ac_changed]. f_equal.
        -- unfold add_of. cbn [filter]. rewrite (existsb_false _ (x :: o')); [reflexivity|].
           intros z Hz. now destruct (lt_all_nosame _ _ Hyo z Hz) as [_ ->].
        -- unfold rem_of. apply filter_ext_in. intros z Hz. cbn [existsb].
           destruct (lt_all_nosame _ _ Hyo z Hz) as [_ ->]. reflexivity.
        -- unfold chg_of. cbn [filter]. rewrite (existsb_false _ (x :: o')); [reflexivity|].
           intros z Hz. destruct (lt_all_nosame _ _ Hyo z Hz) as [_ ->]. reflexivity.
Qed.

(* ------------------------------------------------------------------------------------------ *)
(** * Attribute lists as finite maps from keys *)

Definition keys (l : list attr) : list string := map a_key l.

Lemma select_attr_Some k l x : select_attr k l = Some x -> In x l /\ a_key x = k.
Proof.
  induction l as [|a l IH]; cbn [select_attr]; [discriminate|].
  destruct (seqb (a_key a) k) eqn:E.
  - intros H; inversion H; subst. apply seqb_eq in E. split; [now left|exact E].
  - intros H. destruct (IH H). split; [now right|assumption].
Qed.

Lemma select_attr_None k l : select_attr k l = None <-> ~ In k (keys l).
Proof.
  induction l as [|a l IH]; cbn [select_attr keys map In]; [tauto|].
  destruct (seqb (a_key a) k) eqn:E.
  - apply seqb_eq in E. split; [discriminate|]. intros H; exfalso; apply H; now left.
  - apply seqb_neq in E. rewrite IH. unfold keys. tauto.
Qed.

Lemma select_attr_In k l : In k (keys l) -> exists x, select_attr k l = Some x.
Proof.
  intros H. destruct (select_attr k l) eqn:E; [eauto|]. apply select_attr_None in E. contradiction.
Qed.

Lemma select_attr_unique k l x : NoDup (keys l) -> In x l -> a_key x = k -> select_attr k l = Some x.
Proof.
  induction l as [|a l IH]; cbn [keys map select_attr]; intros Hn Hi Hk; [contradiction|].
  inversion Hn as [|? ? Hna Hnl]; subst. destruct Hi as [->|Hi].
  - now rewrite seqb_refl.
  - destruct (seqb (a_key a) (a_key x)) eqn:E; [|now apply IH].
    apply seqb_eq in E. exfalso. apply Hna. rewrite E. now apply in_map.
Qed.

Lemma keys_perm a b : Permutation a b -> Permutation (keys a) (keys b).
Proof. apply Permutation_map. Qed.

Lemma select_attr_perm k a b : Permutation a b -> NoDup (keys a) -> select_attr k a = select_attr k b.
Proof.
  intros HP Hn. assert (Hnb : NoDup (keys b)) by (eapply Permutation_NoDup; [apply keys_perm; eauto|exact Hn]).
  destruct (select_attr k a) eqn:Ea.
  - apply select_attr_Some in Ea. destruct Ea as [Hi Hk]. symmetry. apply select_attr_unique; auto.
    eapply Permutation_in; eauto.
  - symmetry. apply select_attr_None. apply select_attr_None in Ea. intros H. apply Ea.
    eapply Permutation_in; [symmetry; apply keys_perm; eauto|exact H].
Qed.

Lemma select_attr_app k l m :
  select_attr k (l ++ m) = match select_attr k l with Some a => Some a | None => select_attr k m end.
Proof.
  induction l as [|a l IH]; cbn [app select_attr]; [reflexivity|].
  destruct (seqb (a_key a) k); [reflexivity|exact IH].
Qed.

Lemma select_attr_filter k f l : NoDup (keys l) ->
  select_attr k (filter f l) = match select_attr k l with Some a => if f a then Some a else None | None => None end.
Proof.
  induction l as [|a l IH]; cbn [keys map filter select_attr]; intros Hn; [reflexivity|].
  inversion Hn as [|? ? Hna Hnl]; subst.
  destruct (seqb (a_key a) k) eqn:E.
  - destruct (f a) eqn:Ef; cbn [select_attr]; [now rewrite E|].
    apply seqb_eq in E. subst k. apply select_attr_None. intros H. apply Hna.
    unfold keys in H. apply in_map_iff in H. destruct H as (x & Hx & Hi). apply filter_In in Hi.
    rewrite <- Hx. apply in_map. tauto.
  - destruct (f a); cbn [select_attr]; [rewrite E|]; now apply IH.
Qed.

Lemma select_attr_map_plain k l :
  select_attr k (map (fun y => mkAttr "" (a_key y) (a_val y)) l) =
  option_map (fun y => mkAttr "" (a_key y) (a_val y)) (select_attr k l).
Proof.
  induction l as [|a l IH]; cbn [map select_attr a_key]; [reflexivity|].
  destruct (seqb (a_key a) k); [reflexivity|exact IH].
Qed.

(** two key-unique lists with the same lookups are permutations of each other *)
Lemma perm_of_lookup : forall a b, NoDup (keys a) -> NoDup (keys b) ->
  (forall k, select_attr k a = select_attr k b) -> Permutation a b.
Proof.
  induction a as [|x a IH]; intros b Ha Hb H.
  - destruct b as [|y b]; [constructor|]. specialize (H (a_key y)). cbn [select_attr] in H.
    rewrite seqb_refl in H. discriminate.
  - cbn [keys map] in Ha. inversion Ha as [|? ? Hxa Hna]; subst.
    pose proof (H (a_key x)) as Hx. cbn [select_attr] in Hx. rewrite seqb_refl in Hx. symmetry in Hx.
    apply select_attr_Some in Hx. destruct Hx as [Hi _]. apply in_split in Hi. destruct Hi as (b1 & b2 & ->).
    apply Permutation_cons_app. apply IH.
    + exact Hna.
    + unfold keys in *. rewrite map_app in *. cbn [map] in Hb. eapply NoDup_remove_1; eauto.
    + intros k. specialize (H k). cbn [select_attr] in H.
      unfold keys in Hb. rewrite map_app in Hb. cbn [map] in Hb. apply NoDup_remove_2 in Hb.
      rewrite select_attr_app in *. cbn [select_attr] in H.
      destruct (seqb (a_key x) k) eqn:E.
      * apply seqb_eq in E. subst k.
        assert (select_attr (a_key x) a = None) as -> by (now apply select_attr_None).
        assert (select_attr (a_key x) b1 = None) as ->.
        { apply select_attr_None. intros Hin. apply Hb. apply in_or_app. now left. }
        symmetry. apply select_attr_None. intros Hin. apply Hb. apply in_or_app. now right.
      * exact H.
Qed.

(* ------------------------------------------------------------------------------------------ *)
(** * Effect of the applier's attribute primitives on lookups *)

Lemma set_attr_val_spec key val : forall l a, select_attr key l = Some a ->
  exists l', set_attr_val key val l = Some l' /\ keys l' = keys l /\
    forall k, select_attr k l' = if seqb k key then Some (mkAttr (a_space a) (a_key a) val) else select_attr k l.
Proof.
  induction l as [|b l IH]; intros a H; cbn [select_attr] in H; [discriminate|].
  cbn [set_attr_val]. destruct (seqb (a_key b) key) eqn:E.
  - inversion H; subst. eexists. split; [reflexivity|]. split; [reflexivity|].
    intros k. cbn [select_attr a_key]. apply seqb_eq in E. subst key.
    destruct (seqb k (a_key a)) eqn:E2.
    + apply seqb_eq in E2. subst k. now rewrite seqb_refl.
    + apply seqb_neq in E2. assert (seqb (a_key a) k = false) as -> by (apply seqb_neq; congruence). reflexivity.
  - destruct (IH a H) as (l' & -> & Hk & Hs). cbn [obind]. eexists. split; [reflexivity|].
    split; [cbn [keys map]; unfold keys in Hk; now rewrite Hk|].
    intros k. cbn [select_attr]. rewrite Hs. destruct (seqb (a_key b) k) eqn:E2; [|reflexivity].
    apply seqb_eq in E2. subst k. apply seqb_neq in E.
    assert (seqb (a_key b) key = false) as -> by (now apply seqb_neq). reflexivity.
Qed.

Lemma del_attr_spec key : forall l a, NoDup (keys l) -> select_attr key l = Some a ->
  exists l', del_attr key l = Some l' /\ NoDup (keys l') /\
    forall k, select_attr k l' = if seqb k key then None else select_attr k l.
Proof.
  induction l as [|b l IH]; intros a Hn H; cbn [select_attr] in H; [discriminate|].
  cbn [keys map] in Hn. inversion Hn as [|? ? Hnb Hnl]; subst.
  cbn [del_attr]. destruct (seqb (a_key b) key) eqn:E.
  - eexists. split; [reflexivity|]. split; [exact Hnl|]. intros k. cbn [select_attr].
    apply seqb_eq in E. subst key. destruct (seqb k (a_key b)) eqn:E2.
    + apply seqb_eq in E2. subst k. now apply select_attr_None.
    + apply seqb_neq in E2. assert (seqb (a_key b) k = false) as -> by (apply seqb_neq; congruence). reflexivity.
  - destruct (IH a Hnl H) as (l' & -> & Hn' & Hs). cbn [obind]. eexists. split; [reflexivity|]. split.
    + cbn [keys map]. constructor; [|exact Hn']. intros Hin. apply select_attr_In in Hin.
      destruct Hin as (x & Hx). rewrite Hs in Hx. destruct (seqb (a_key b) key); [discriminate|].
      apply select_attr_Some in Hx. destruct Hx as [Hi Hk]. apply Hnb. rewrite <- Hk. now apply in_map.
    + intros k. cbn [select_attr]. rewrite Hs. destruct (seqb (a_key b) k) eqn:E2; [|reflexivity].
      apply seqb_eq in E2. subst k. now rewrite E.
Qed.

(* ------------------------------------------------------------------------------------------ *)
(** * The three phases of addAttrChanges on an attribute list *)

Definition attr_step (o : op) (l : list attr) : option (list attr) :=
  match o with
  | OReplaceAttr _ key val => set_attr_val key val l
  | OAddAttr _ key val => match select_attr key l with Some _ => None | None => Some (l ++ [mkAttr "" key val]) end
  | ORemoveAttr _ key _ => del_attr key l
  | _ => None
  end.

Fixpoint attr_steps (ops : list op) (l : list attr) : option (list attr) :=
  match ops with [] => Some l | o :: r => obind (attr_step o l) (attr_steps r) end.

Lemma attr_steps_app a b l : attr_steps (a ++ b) l = obind (attr_steps a l) (attr_steps b).
Proof.
  revert l; induction a as [|o a IH]; intros l; cbn [app attr_steps obind]; [reflexivity|].
  destruct (attr_step o l); cbn [obind]; [apply IH|reflexivity].
Qed.

Lemma phase_replace P : forall C l, NoDup (keys C) -> (forall y, In y C -> In (a_key y) (keys l)) ->
  exists l', attr_steps (map (fun a => OReplaceAttr P (a_key a) (a_val a)) C) l = Some l' /\ keys l' = keys l /\
    forall k, select_attr k l' =
      match select_attr k C with
      | Some y => option_map (fun a => mkAttr (a_space a) (a_key a) (a_val y)) (select_attr k l)
      | None => select_attr k l
      end.
Proof.
  induction C as [|y C IH]; intros l Hn Hin.
  - exists l. cbn. auto.
  - cbn [keys map] in Hn. inversion Hn as [|? ? Hny HnC]; subst.
    destruct (select_attr_In _ _ (Hin y (or_introl eq_refl))) as (a & Ha).
    destruct (set_attr_val_spec (a_key y) (a_val y) l a Ha) as (l1 & H1 & Hk1 & Hs1).
    destruct (IH l1 HnC) as (l' & H2 & Hk2 & Hs2).
    { intros z Hz. rewrite Hk1. apply Hin. now right. }
    exists l'. cbn [map attr_steps attr_step]. rewrite H1. cbn [obind]. split; [exact H2|].
    split; [congruence|]. intros k. rewrite Hs2. cbn [select_attr].
    destruct (seqb (a_key y) k) eqn:E.
    + apply seqb_eq in E. subst k.
      assert (select_attr (a_key y) C = None) as -> by (now apply select_attr_None).
      rewrite Hs1, seqb_refl, Ha. reflexivity.
    + rewrite !Hs1. assert (seqb k (a_key y) = false) as ->.
      { apply seqb_neq. apply seqb_neq in E. congruence. }
      reflexivity.
Qed.

Lemma phase_add P : forall A l, NoDup (keys A) -> (forall y, In y A -> ~ In (a_key y) (keys l)) ->
  attr_steps (map (fun a => OAddAttr P (a_key a) (a_val a)) A) l =
  Some (l ++ map (fun y => mkAttr "" (a_key y) (a_val y)) A).
Proof.
  induction A as [|y A IH]; intros l Hn Hnot.
  - cbn. now rewrite app_nil_r.
  - cbn [keys map] in Hn. inversion Hn as [|? ? Hny HnA]; subst.
    cbn [map attr_steps attr_step].
    assert (select_attr (a_key y) l = None) as -> by (apply select_attr_None, Hnot; now left).
    cbn [obind]. rewrite IH; [now rewrite <- app_assoc|exact HnA|].
    intros z Hz. unfold keys. rewrite map_app. cbn [map a_key]. intros Hin. apply in_app_or in Hin.
    destruct Hin as [Hin|[Hin|[]]].
    + eapply Hnot; [right; exact Hz|exact Hin].
    + apply Hny. rewrite Hin. now apply in_map.
Qed.

Lemma phase_remove P : forall R l, NoDup (keys l) -> NoDup (keys R) -> (forall x, In x R -> In (a_key x) (keys l)) ->
  exists l', attr_steps (map (fun a => ORemoveAttr P (a_key a) (a_val a)) R) l = Some l' /\ NoDup (keys l') /\
    forall k, select_attr k l' = match select_attr k R with Some _ => None | None => select_attr k l end.
Proof.
  induction R as [|x R IH]; intros l Hl Hn Hin.
  - exists l. cbn. auto.
  - cbn [keys map] in Hn. inversion Hn as [|? ? Hnx HnR]; subst.
    destruct (select_attr_In _ _ (Hin x (or_introl eq_refl))) as (a & Ha).
    destruct (del_attr_spec (a_key x) l a Hl Ha) as (l1 & H1 & Hn1 & Hs1).
    destruct (IH l1 Hn1 HnR) as (l' & H2 & Hn2 & Hs2).
    { intros z Hz. destruct (select_attr (a_key z) l1) eqn:E.
      - apply select_attr_Some in E. destruct E as [Hi Hk]. rewrite <- Hk. now apply in_map.
      - rewrite Hs1 in E. destruct (seqb (a_key z) (a_key x)) eqn:E2.
        + apply seqb_eq in E2. exfalso. apply Hnx. rewrite <- E2. now apply in_map.
        + apply select_attr_None in E. exfalso. apply E. apply Hin. now right. }
    exists l'. cbn [map attr_steps attr_step]. rewrite H1. cbn [obind]. split; [exact H2|].
    split; [exact Hn2|]. intros k. rewrite Hs2. cbn [select_attr].
    destruct (seqb (a_key x) k) eqn:E.
    + apply seqb_eq in E. subst k.
      assert (select_attr (a_key x) R = None) as -> by (now apply select_attr_None).
      now rewrite Hs1, seqb_refl.
    + rewrite Hs1. assert (seqb k (a_key x) = false) as ->.
      { apply seqb_neq. apply seqb_neq in E. congruence. }
      reflexivity.
Qed.

(* ------------------------------------------------------------------------------------------ *)
(** * compareAttributes through lookups, and the result of addAttrChanges *)

(** the premise: keys are unique (ignoring the prefix), a key keeps its prefix, new keys have none
    (addAttrChanges puts only the Key into the selector, so a prefix cannot be expressed) *)
Record attrs_ok (o n : list attr) : Prop := {
  ok_o : NoDup (keys o);
  ok_n : NoDup (keys n);
  ok_space : forall x y, In x o -> In y n -> a_key x = a_key y -> a_space x = a_space y;
  ok_new : forall y, In y n -> ~ In (a_key y) (keys o) -> a_space y = "" }.

Lemma NoDup_keys_names l : NoDup (keys l) -> names_distinct l.
Proof.
  unfold names_distinct, keys. induction l as [|a l IH]; cbn [map]; intros H; [constructor|].
  inversion H as [|? ? Hn Hd]; subst. constructor; [|now apply IH].
  intros Hin. apply Hn. apply in_map_iff in Hin. destruct Hin as (x & Hx & Hi). inversion Hx.
  apply in_map_iff. eauto.
Qed.

Lemma NoDup_keys_filter f l : NoDup (keys l) -> NoDup (keys (filter f l)).
Proof.
  unfold keys. induction l as [|a l IH]; cbn [map filter]; intros H; [constructor|].
  inversion H as [|? ? Hn Hd]; subst. destruct (f a); cbn [map]; [|now apply IH].
  constructor; [|now apply IH]. intros Hin. apply Hn. apply in_map_iff in Hin.
  destruct Hin as (x & Hx & Hi). apply filter_In in Hi. rewrite <- Hx. apply in_map. tauto.
Qed.

Lemma NoDup_app_intro {A} (a b : list A) : NoDup a -> NoDup b -> (forall x, In x a -> ~ In x b) -> NoDup (a ++ b).
Proof.
  induction a as [|x a IH]; intros Ha Hb Hd; cbn [app]; [exact Hb|].
  inversion Ha; subst. constructor.
  - intros Hin. apply in_app_or in Hin. destruct Hin; [contradiction|]. eapply Hd; [now left|eassumption].
  - apply IH; auto. intros y Hy. apply Hd. now right.
Qed.

Lemma seqb_sym a b : seqb a b = seqb b a.
Proof. unfold seqb. apply String.eqb_sym. Qed.

Lemma existsb_by_key (f g : attr -> bool) (y : attr) : forall so,
  NoDup (keys so) ->
  (forall x, In x so -> f x = seqb (a_space x) (a_space y) && seqb (a_key x) (a_key y) && g x) ->
  (forall x, In x so -> a_key x = a_key y -> a_space x = a_space y) ->
  existsb f so = match select_attr (a_key y) so with Some x => g x | None => false end.
Proof.
  induction so as [|x so IH]; intros Hn Hf Hs; cbn [existsb select_attr]; [reflexivity|].
  cbn [keys map] in Hn. inversion Hn as [|? ? Hnx Hnd]; subst.
  rewrite (Hf x (or_introl eq_refl)). destruct (seqb (a_key x) (a_key y)) eqn:E.
  - apply seqb_eq in E. rewrite (Hs x (or_introl eq_refl) E), seqb_refl. cbn [andb].
    rewrite existsb_false; [apply orb_false_r|].
    intros z Hz. rewrite (Hf z (or_intror Hz)).
    assert (seqb (a_key z) (a_key y) = false) as ->.
    { apply seqb_neq. intros Hk. apply Hnx. rewrite E, <- Hk. now apply in_map. }
    now rewrite andb_false_r.
  - rewrite andb_false_r. cbn [andb orb]. apply IH; auto.
    + intros z Hz. apply Hf. now right.
    + intros z Hz. apply Hs. now right.
Qed.

Section Compare.
  Variables o n : list attr.
  Hypothesis OK : attrs_ok o n.
  Let so := sortAttr o.
  Let sn := sortAttr n.

  Lemma so_perm : Permutation so o. Proof. apply sortAttr_perm. Qed.
  Lemma sn_perm : Permutation sn n. Proof. apply sortAttr_perm. Qed.
  Lemma so_nodup : NoDup (keys so).
  Proof. eapply Permutation_NoDup; [symmetry; apply keys_perm, so_perm|apply OK]. Qed.
  Lemma sn_nodup : NoDup (keys sn).
  Proof. eapply Permutation_NoDup; [symmetry; apply keys_perm, sn_perm|apply OK]. Qed.
  Lemma sel_so k : select_attr k so = select_attr k o.
  Proof. apply select_attr_perm; [apply so_perm|apply so_nodup]. Qed.
  Lemma sel_sn k : select_attr k sn = select_attr k n.
  Proof. apply select_attr_perm; [apply sn_perm|apply sn_nodup]. Qed.

  Lemma compare_is_filters : compareAttributes o n = mkAC (add_of so sn) (rem_of so sn) (chg_of so sn).
  Proof.
    unfold compareAttributes. apply walk_filters; apply sortAttr_sorted, NoDup_keys_names; apply OK.
  Qed.

  Lemma space_so_sn x y : In x so -> In y sn -> a_key x = a_key y -> a_space x = a_space y.
  Proof.
    intros Hx Hy. apply (ok_space o n OK); [eapply Permutation_in; [apply so_perm|exact Hx]|eapply Permutation_in; [apply sn_perm|exact Hy]].
  Qed.

  Lemma sel_chg k : select_attr k (chg_of so sn) =
    match select_attr k n, select_attr k o with
    | Some y, Some x => if negb (seqb (a_val x) (a_val y)) then Some y else None
    | _, _ => None
    end.
  Proof.
    unfold chg_of. rewrite select_attr_filter by apply sn_nodup. rewrite sel_sn.
    destruct (select_attr k n) as [y|] eqn:Ey; [|reflexivity].
    assert (Hy : In y sn /\ a_key y = k).
    { rewrite <- sel_sn in Ey. now apply select_attr_Some in Ey. }
    destruct Hy as [Hy Hk].
    rewrite (existsb_by_key _ (fun x => negb (seqb (a_val x) (a_val y))) y so so_nodup).
    - rewrite Hk, sel_so. destruct (select_attr k o); reflexivity.
    - intros x Hx. reflexivity.
    - intros x Hx. now apply space_so_sn.
  Qed.

  Lemma sel_add k : select_attr k (add_of so sn) =
    match select_attr k n, select_attr k o with
    | Some y, None => Some y
    | _, _ => None
    end.
  Proof.
    unfold add_of. rewrite select_attr_filter by apply sn_nodup. rewrite sel_sn.
    destruct (select_attr k n) as [y|] eqn:Ey; [|reflexivity].
    assert (Hy : In y sn /\ a_key y = k).
    { rewrite <- sel_sn in Ey. now apply select_attr_Some in Ey. }
    destruct Hy as [Hy Hk].
    rewrite (existsb_by_key _ (fun _ => true) y so so_nodup).
    - rewrite Hk, sel_so. destruct (select_attr k o); reflexivity.
    - intros x Hx. unfold sameNb. now rewrite andb_true_r.
    - intros x Hx. now apply space_so_sn.
  Qed.

  Lemma sel_rem k : select_attr k (rem_of so sn) =
    match select_attr k o, select_attr k n with
    | Some x, None => Some x
    | _, _ => None
    end.
  Proof.
    unfold rem_of. rewrite select_attr_filter by apply so_nodup. rewrite sel_so.
    destruct (select_attr k o) as [x|] eqn:Ex; [|reflexivity].
    assert (Hx : In x so /\ a_key x = k).
    { rewrite <- sel_so in Ex. now apply select_attr_Some in Ex. }
    destruct Hx as [Hx Hk].
    rewrite (existsb_by_key _ (fun _ => true) x sn sn_nodup).
    - rewrite Hk, sel_sn. destruct (select_attr k n); reflexivity.
    - intros y Hy. unfold sameNb. now rewrite andb_true_r, (seqb_sym (a_space x)), (seqb_sym (a_key x)).
    - intros y Hy Hk2. symmetry. now apply space_so_sn.
  Qed.

  Lemma in_sel l x : NoDup (keys l) -> In x l -> select_attr (a_key x) l = Some x.
  Proof. intros. now apply select_attr_unique. Qed.

  (** the whole of addAttrChanges on the attribute list *)
  Theorem attr_ops_perm P :
    exists r, attr_steps (attr_ops P o n) o = Some r /\ Permutation r n /\
      (forall k, ~ In k (map (fun a => a_key a) (ac_changed (compareAttributes o n) ++ ac_added (compareAttributes o n) ++ ac_removed (compareAttributes o n))) ->
                 select_attr k o = select_attr k n).
  Proof.
    unfold attr_ops. rewrite compare_is_filters. cbn [ac_changed ac_added ac_removed].
    set (C := chg_of so sn). set (A := add_of so sn). set (R := rem_of so sn).
    assert (HnC : NoDup (keys C)) by apply NoDup_keys_filter, sn_nodup.
    assert (HnA : NoDup (keys A)) by apply NoDup_keys_filter, sn_nodup.
    assert (HnR : NoDup (keys R)) by apply NoDup_keys_filter, so_nodup.
    (* phase 1 *)
    destruct (phase_replace P C o HnC) as (l1 & H1 & Hk1 & Hs1).
    { intros y Hy. pose proof (in_sel C y HnC Hy) as E. unfold C in E. rewrite sel_chg in E.
      destruct (select_attr (a_key y) n); [|discriminate].
      destruct (select_attr (a_key y) o) eqn:Eo; [|discriminate].
      apply select_attr_Some in Eo. destruct Eo as [Hi Hk]. rewrite <- Hk. now apply in_map. }
    (* phase 2 *)
    assert (HA : forall y, In y A -> ~ In (a_key y) (keys l1)).
    { intros y Hy. rewrite Hk1. pose proof (in_sel A y HnA Hy) as E. unfold A in E. rewrite sel_add in E.
      destruct (select_attr (a_key y) n); [|discriminate].
      destruct (select_attr (a_key y) o) eqn:Eo; [discriminate|]. now apply select_attr_None. }
    pose proof (phase_add P A l1 HnA HA) as H2.
    set (l2 := l1 ++ map (fun y => mkAttr "" (a_key y) (a_val y)) A) in *.
    assert (Hk2 : keys l2 = keys o ++ keys A).
    { unfold l2, keys. rewrite map_app, map_map. cbn [a_key]. unfold keys in Hk1. now rewrite Hk1. }
    assert (Hn2 : NoDup (keys l2)).
    { rewrite Hk2. apply NoDup_app_intro; [apply OK|exact HnA|].
      intros k Hk Hin. unfold keys in Hin. apply in_map_iff in Hin. destruct Hin as (y & <- & Hy).
      apply (HA y Hy). now rewrite Hk1. }
    (* phase 3 *)
    destruct (phase_remove P R l2 Hn2 HnR) as (l3 & H3 & Hn3 & Hs3).
    { intros x Hx. rewrite Hk2. apply in_or_app. left. pose proof (in_sel R x HnR Hx) as E. unfold R in E.
      rewrite sel_rem in E. destruct (select_attr (a_key x) o) eqn:Eo; [|discriminate].
      apply select_attr_Some in Eo. destruct Eo as [Hi Hk]. rewrite <- Hk. now apply in_map. }
    exists l3. split; [|split].
    - rewrite attr_steps_app, H1. cbn [obind]. rewrite attr_steps_app, H2. cbn [obind]. exact H3.
    - apply perm_of_lookup; [exact Hn3|apply OK|]. intros k. rewrite Hs3. unfold l2.
      rewrite select_attr_app, Hs1, select_attr_map_plain. unfold R, C, A.
      rewrite sel_rem, sel_chg, sel_add.
      destruct (select_attr k o) as [x|] eqn:Eo, (select_attr k n) as [y|] eqn:En; cbn [option_map].
      + apply select_attr_Some in Eo, En. destruct Eo as [Hxi Hxk], En as [Hyi Hyk].
        pose proof (ok_space o n OK x y Hxi Hyi ltac:(congruence)) as Hsp.
        destruct (seqb (a_val x) (a_val y)) eqn:Ev; cbn [negb].
        * apply seqb_eq in Ev. f_equal. destruct x, y; cbn in *; congruence.
        * f_equal. destruct x, y; cbn in *; congruence.
      + reflexivity.
      + apply select_attr_Some in En. destruct En as [Hyi Hyk].
        assert (a_space y = "").
        { apply (ok_new o n OK y Hyi). rewrite Hyk. now apply select_attr_None. }
        f_equal. destruct y; cbn in *; congruence.
      + reflexivity.
    - intros k Hk. rewrite !map_app, !in_app_iff in Hk.
      assert (EC : select_attr k C = None) by (apply select_attr_None; unfold keys; tauto).
      assert (EA : select_attr k A = None) by (apply select_attr_None; unfold keys; tauto).
      assert (ER : select_attr k R = None) by (apply select_attr_None; unfold keys; tauto).
      unfold C in EC. unfold A in EA. unfold R in ER. rewrite sel_chg in EC. rewrite sel_add in EA. rewrite sel_rem in ER.
      destruct (select_attr k o) as [x|] eqn:Eo, (select_attr k n) as [y|] eqn:En; try discriminate; try reflexivity.
      apply select_attr_Some in Eo, En. destruct Eo as [Hxi Hxk], En as [Hyi Hyk].
      pose proof (ok_space o n OK x y Hxi Hyi ltac:(congruence)) as Hsp.
      destruct (seqb (a_val x) (a_val y)) eqn:Ev; cbn [negb] in EC; [|discriminate].
      apply seqb_eq in Ev. f_equal. destruct x, y; cbn in *; congruence.
  Qed.
End Compare.

(** a key whose value (or absence) is the same in [o] and [n] is not touched *)
Lemma untouched_key o n (OK : attrs_ok o n) k : aval k o = aval k n ->
  ~ In k (keys (ac_changed (compareAttributes o n) ++ ac_added (compareAttributes o n) ++ ac_removed (compareAttributes o n))).
Proof.
  intros Hv. rewrite (compare_is_filters o n OK). cbn [ac_changed ac_added ac_removed].
  unfold keys. rewrite !map_app, !in_app_iff. unfold aval in Hv.
  intros [H|[H|H]]; apply select_attr_In in H; destruct H as (z & Hz).
  - rewrite (sel_chg o n OK) in Hz.
    destruct (select_attr k n) as [y|], (select_attr k o) as [x|]; try discriminate.
    cbn in Hv. inversion Hv as [Hv']. rewrite Hv', seqb_refl in Hz. discriminate.
  - rewrite (sel_add o n OK) in Hz.
    destruct (select_attr k n) as [y|], (select_attr k o) as [x|]; discriminate.
  - rewrite (sel_rem o n OK) in Hz.
    destruct (select_attr k n) as [y|], (select_attr k o) as [x|]; discriminate.
Qed.

(* ------------------------------------------------------------------------------------------ *)
(** * The attribute operations inside a document *)

Definition attr_op_at (P : path) (o : op) : Prop :=
  match o with OReplaceAttr s _ _ | OAddAttr s _ _ | ORemoveAttr s _ _ => s = P | _ => False end.
Definition attr_op_key (o : op) : string :=
  match o with OReplaceAttr _ k _ | OAddAttr _ k _ | ORemoveAttr _ k _ => k | _ => "" end.

Lemma set_attr_val_frame key val k : forall l l', set_attr_val key val l = Some l' -> k <> key ->
  select_attr k l' = select_attr k l.
Proof.
  induction l as [|a l IH]; intros l' H Hk; cbn [set_attr_val] in H; [discriminate|].
  destruct (seqb (a_key a) key) eqn:E.
  - inversion H; subst. cbn [select_attr a_key]. apply seqb_eq in E.
    assert (seqb (a_key a) k = false) as -> by (apply seqb_neq; congruence). reflexivity.
  - destruct (set_attr_val key val l) as [t|] eqn:Et; [|discriminate]. inversion H; subst.
    cbn [select_attr]. now rewrite (IH t eq_refl Hk).
Qed.

Lemma del_attr_frame key k : forall l l', del_attr key l = Some l' -> k <> key ->
  select_attr k l' = select_attr k l.
Proof.
  induction l as [|a l IH]; intros l' H Hk; cbn [del_attr] in H; [discriminate|].
  destruct (seqb (a_key a) key) eqn:E.
  - inversion H; subst. cbn [select_attr]. apply seqb_eq in E.
    assert (seqb (a_key a) k = false) as -> by (apply seqb_neq; congruence). reflexivity.
  - destruct (del_attr key l) as [t|] eqn:Et; [|discriminate]. inversion H; subst.
    cbn [select_attr]. now rewrite (IH t eq_refl Hk).
Qed.

Lemma attr_step_frame o l l' k : attr_step o l = Some l' -> k <> attr_op_key o -> select_attr k l' = select_attr k l.
Proof.
  destruct o; cbn [attr_step attr_op_key]; try discriminate; intros H Hk.
  - eapply set_attr_val_frame; eauto.
  - destruct (select_attr key l); [discriminate|]. inversion H; subst.
    rewrite select_attr_app. destruct (select_attr k l); [reflexivity|].
    cbn [select_attr a_key]. assert (seqb key k = false) as -> by (apply seqb_neq; congruence). reflexivity.
  - eapply del_attr_frame; eauto.
Qed.

Lemma apply_attr_op P ctx e o : attr_op_at P o -> located P ctx (sig_of e) ->
  apply_op o (plug ctx e) = option_map (fun l => plug ctx (set_attrs e l)) (attr_step o (e_attrs e)).
Proof.
  intros HA HL. destruct o; cbn [attr_op_at] in HA; try contradiction; subst sel;
    cbn [apply_op attr_step]; rewrite (at_elem_located P ctx e _ HL).
  - destruct (set_attr_val key val (e_attrs e)); reflexivity.
  - destruct (select_attr key (e_attrs e)); reflexivity.
  - destruct (del_attr key (e_attrs e)); reflexivity.
Qed.

Lemma sig_of_set_attrs e l : sig_of (set_attrs e l) = (e_tag e, l).
Proof. reflexivity. Qed.

Lemma apply_attr_ops P ctx : Forall addr_step P -> forall aops e,
  located P ctx (sig_of e) ->
  (forall o, In o aops -> attr_op_at P o /\ attr_op_key o <> "id" /\ attr_op_key o <> "schemeIdUri") ->
  apply_ops aops (plug ctx e) = option_map (fun l => plug ctx (set_attrs e l)) (attr_steps aops (e_attrs e)).
Proof.
  intros HP. induction aops as [|o aops IH]; intros e HL Hall.
  - cbn. now destruct e.
  - cbn [apply_ops attr_steps]. destruct (Hall o (or_introl eq_refl)) as (Hat & Hk1 & Hk2).
    rewrite (apply_attr_op P ctx e o Hat HL).
    destruct (attr_step o (e_attrs e)) as [l1|] eqn:E1; cbn [option_map obind]; [|reflexivity].
    rewrite (IH (set_attrs e l1)).
    + reflexivity.
    + eapply located_compat; [exact HP| |exact HL]. rewrite sig_of_set_attrs. destruct e; cbn.
      repeat split; unfold aval; cbn [snd];
        [rewrite (attr_step_frame o _ _ "id" E1)|rewrite (attr_step_frame o _ _ "schemeIdUri" E1)]; auto.
    + intros o' Ho'. apply Hall. now right.
Qed.

(** addAttrChanges at an element of a document *)
Theorem attr_ops_apply P ctx e n :
  Forall addr_step P -> located P ctx (sig_of e) -> attrs_ok (e_attrs e) n ->
  aval "id" (e_attrs e) = aval "id" n -> aval "schemeIdUri" (e_attrs e) = aval "schemeIdUri" n ->
  exists r, apply_ops (attr_ops P (e_attrs e) n) (plug ctx e) = Some (plug ctx (set_attrs e r)) /\ Permutation r n.
Proof.
  intros HP HL OK Hid Hsu.
  destruct (attr_ops_perm (e_attrs e) n OK P) as (r & Hr & Hperm & _).
  exists r. split; [|exact Hperm]. rewrite (apply_attr_ops P ctx HP _ e HL), Hr; [reflexivity|].
  intros o' Ho'. pose proof (untouched_key _ _ OK "id" Hid) as U1. pose proof (untouched_key _ _ OK "schemeIdUri" Hsu) as U2.
  unfold attr_ops in Ho'. unfold keys in U1, U2. rewrite !map_app, !in_app_iff in U1, U2. rewrite !in_app_iff in Ho'.
  destruct Ho' as [H|[H|H]]; apply in_map_iff in H; destruct H as (a & <- & Ha); cbn [attr_op_at attr_op_key];
    (split; [reflexivity|]); split; intros Hk.
  - apply U1. left. apply in_map_iff. eauto.
  - apply U2. left. apply in_map_iff. eauto.
  - apply U1. right; left. apply in_map_iff. eauto.
  - apply U2. right; left. apply in_map_iff. eauto.
  - apply U1. right; right. apply in_map_iff. eauto.
  - apply U2. right; right. apply in_map_iff. eauto.
Qed.
