(** C11 proofs, part 5: the premise [tree_ok] of the tree theorem as a boolean function
    [tree_okb], with [tree_okb ... = true -> tree_ok ...].  The correspondence evaluates it on every
    generated pair of documents: where it holds, the patch of the implementation must apply. *)
From Verif Require Import GoSem GoSemFacts Patch PatchProofsNav PatchProofsLeaf PatchProofsAttr PatchProofsTree.
From Coq Require Import ZifyBool Permutation.

Fixpoint nodupb (l : list string) : bool :=
  match l with [] => true | x :: r => negb (existsb (seqb x) r) && nodupb r end.

Lemma nodupb_spec l : nodupb l = true -> NoDup l.
Proof.
  induction l as [|x l IH]; cbn [nodupb]; intros H; [constructor|].
  apply andb_true_iff in H. destruct H as [H1 H2]. constructor; [|now apply IH].
  intros Hin. apply negb_true_iff in H1. assert (existsb (seqb x) l = true); [|congruence].
  apply existsb_exists. exists x. split; [exact Hin|apply seqb_refl].
Qed.

Definition attrs_okb (o n : list attr) : bool :=
  nodupb (keys o) && nodupb (keys n) &&
  forallb (fun x => forallb (fun y => negb (seqb (a_key x) (a_key y)) || seqb (a_space x) (a_space y)) n) o &&
  forallb (fun y => existsb (fun x => seqb (a_key x) (a_key y)) o || seqb (a_space y) "") n.

Lemma attrs_okb_spec o n : attrs_okb o n = true -> attrs_ok o n.
Proof.
  unfold attrs_okb. intros H. repeat (apply andb_true_iff in H; destruct H as [H ?]).
  rename H into H1, H2 into H2, H1 into H3, H0 into H4. constructor.
  - now apply nodupb_spec.
  - now apply nodupb_spec.
  - intros x y Hx Hy Hk. rewrite forallb_forall in H3. specialize (H3 x Hx). rewrite forallb_forall in H3.
    specialize (H3 y Hy). rewrite Hk, seqb_refl in H3. cbn in H3. now apply seqb_eq.
  - intros y Hy Hn. rewrite forallb_forall in H4. specialize (H4 y Hy). apply orb_true_iff in H4.
    destruct H4 as [H4|H4]; [|now apply seqb_eq]. exfalso. apply existsb_exists in H4.
    destruct H4 as (x & Hx & Hk). apply seqb_eq in Hk. apply Hn. rewrite <- Hk. unfold keys. now apply in_map.
Qed.

Definition oseqb (a b : option string) : bool :=
  match a, b with Some x, Some y => seqb x y | None, None => true | _, _ => false end.
Lemma oseqb_spec a b : oseqb a b = true -> a = b.
Proof. destruct a, b; cbn; try discriminate; [intros H; apply seqb_eq in H; congruence|reflexivity]. Qed.

Definition same_addr_attrsb (a b : list attr) : bool :=
  oseqb (aval "id" a) (aval "id" b) && oseqb (aval "schemeIdUri" a) (aval "schemeIdUri" b).
Lemma same_addr_attrsb_spec a b : same_addr_attrsb a b = true -> same_addr_attrs a b.
Proof. unfold same_addr_attrsb. intros H. apply andb_true_iff in H. destruct H. split; now apply oseqb_spec. Qed.

Definition sig_compatb (s1 s2 : sig) : bool := seqb (fst s1) (fst s2) && same_addr_attrsb (snd s1) (snd s2).
Lemma sig_compatb_spec s1 s2 : sig_compatb s1 s2 = true -> sig_compat s1 s2.
Proof.
  unfold sig_compatb. intros H. apply andb_true_iff in H. destruct H as [H1 H2].
  apply seqb_eq in H1. apply same_addr_attrsb_spec in H2. destruct H2. repeat split; assumption.
Qed.

Definition ozeqb (a : option Z) (z : Z) : bool := match a with Some x => x =? z | None => false end.
Lemma ozeqb_spec a z : ozeqb a z = true -> a = Some z.
Proof. destruct a; cbn; [intros H; f_equal; lia|discriminate]. Qed.

Section LoopOkb.
  Variable RECb : elem -> elem -> bool.
  Variable REC : elem -> elem -> Prop.
  Hypothesis RECb_spec : forall a b, RECb a b = true -> REC a b.
  Variables oc nc : list elem.

  Fixpoint keeps_okb (n : nat) (oi ni : Z) : bool :=
    match n with
    | O => true
    | S n' =>
      match nthZ oi oc, nthZ ni nc with
      | Some oe, Some ne =>
        ozeqb (find_sig (keep_addr nc oe ni) (cur_sigs oc nc oi ni)) ni &&
        sig_compatb (sig_of oe) (sig_of ne) && RECb oe ne && keeps_okb n' (oi + 1) (ni + 1)
      | _, _ => false
      end
    end.

  Lemma keeps_okb_spec n : forall oi ni, keeps_okb n oi ni = true -> keeps_ok REC oc nc n oi ni.
  Proof.
    induction n as [|n IH]; intros oi ni H; cbn [keeps_okb keeps_ok] in *; [exact I|].
    destruct (nthZ oi oc); [|discriminate]. destruct (nthZ ni nc); [|discriminate].
    repeat (apply andb_true_iff in H; destruct H as [H ?]).
    split; [now apply ozeqb_spec|]. split; [now apply sig_compatb_spec|]. split; [now apply RECb_spec|now apply IH].
  Qed.

  Fixpoint loop_okb (s : list mop) (oi ni : Z) (last : option step) : bool :=
    match s with
    | [] => keeps_okb (Z.to_nat (lenZ oc - oi)) oi ni
    | d :: s' =>
      let k := m_old d - oi in
      let n := Z.to_nat k in
      let last1 := keeps_last oc nc n oi ni last in
      let oi1 := oi + k in
      let ni1 := ni + k in
      keeps_okb n oi ni &&
      match m_kind d with
      | KDel =>
        match nthZ oi1 oc with
        | Some oe => ozeqb (find_sig (keep_addr nc oe ni1) (cur_sigs oc nc oi1 ni1)) ni1 && loop_okb s' (oi1 + 1) ni1 last1
        | None => false
        end
      | KIns =>
        match nthZ ni1 nc with
        | Some ne =>
          match last1 with
          | None => ni1 =? 0
          | Some sl => ozeqb (find_sig sl (cur_sigs oc nc oi1 ni1)) (ni1 - 1)
          end && loop_okb s' oi1 (ni1 + 1) (Some (keep_addr nc ne ni1))
        | None => false
        end
      end
    end.

  Lemma loop_okb_spec s : forall oi ni last, loop_okb s oi ni last = true -> loop_ok REC oc nc s oi ni last.
  Proof.
    induction s as [|d s IH]; intros oi ni last H; cbn [loop_okb loop_ok] in *.
    - now apply keeps_okb_spec.
    - apply andb_true_iff in H. destruct H as [H1 H2]. split; [now apply keeps_okb_spec|].
      destruct (m_kind d).
      + destruct (nthZ (oi + (m_old d - oi)) oc); [|discriminate].
        apply andb_true_iff in H2. destruct H2 as [H2 H3]. split; [now apply ozeqb_spec|now apply IH].
      + destruct (nthZ (ni + (m_old d - oi)) nc); [|discriminate].
        apply andb_true_iff in H2. destruct H2 as [H2 H3]. split; [|now apply IH].
        destruct (keeps_last oc nc (Z.to_nat (m_old d - oi)) oi ni last); [now apply ozeqb_spec|lia].
  Qed.
End LoopOkb.

Definition positionalb (e : elem) : bool :=
  seqb (getAttrValue e "id") "" && seqb (getAttrValue e "schemeIdUri") "" &&
  negb (seqb (e_tag e) "SegmentTimeline") && negb (seqb (e_tag e) "SegmentTemplate").
Definition leafTb (T : string) (e : elem) : bool := seqb (e_tag e) T && positionalb e.
Definition plain_leafb (e : elem) : bool := isLeaf e && forallb (fun a => seqb (a_space a) "") (e_attrs e).

Lemma leafTb_spec T e : leafTb T e = true -> leafT T e.
Proof.
  unfold leafTb, positionalb. intros H. apply andb_true_iff in H. destruct H as [Ht H].
  apply andb_true_iff in H. destruct H as [H H4]. apply andb_true_iff in H. destruct H as [H H3].
  apply andb_true_iff in H. destruct H as [H1 H2].
  apply seqb_eq in Ht, H1, H2. apply negb_true_iff, seqb_neq in H3. apply negb_true_iff, seqb_neq in H4.
  split; [exact Ht|]. repeat split; assumption.
Qed.
Lemma plain_leafb_spec e : plain_leafb e = true -> plain_leaf e.
Proof.
  unfold plain_leafb, plain_leaf, isLeaf. intros H. apply andb_true_iff in H. destruct H as [H1 H2]. split.
  - destruct (e_children e); [reflexivity|discriminate].
  - apply Forall_forall. intros a Ha. rewrite forallb_forall in H2. now apply seqb_eq, H2.
Qed.
Lemma forallb_Forall {A} (f : A -> bool) (P : A -> Prop) l : (forall x, f x = true -> P x) -> forallb f l = true -> Forall P l.
Proof. intros Hf H. apply Forall_forall. intros x Hx. rewrite forallb_forall in H. auto. Qed.

Lemma attr_eqb_eq a b : attr_eqb a b = true -> a = b.
Proof.
  unfold attr_eqb. intros H. repeat (apply andb_true_iff in H; destruct H as [H ?]).
  apply seqb_eq in H, H0, H1. destruct a, b; cbn in *; congruence.
Qed.
Lemma attrs_sorted_eq_perm a b : list_eqb attr_eqb (sortAttr a) (sortAttr b) = true -> Permutation a b.
Proof.
  intros H. assert (E : sortAttr a = sortAttr b).
  { revert H. generalize (sortAttr a) (sortAttr b). induction l as [|x l IH]; intros [|y m] H; cbn in H; try discriminate; [reflexivity|].
    apply andb_true_iff in H. destruct H as [H1 H2]. f_equal; [now apply attr_eqb_eq|now apply IH]. }
  rewrite <- (sortAttr_perm a), E. apply sortAttr_perm.
Qed.

Section TreeOkb.
  Variable diff : differ.

  Definition stl_okb (old new : elem) : bool :=
    let oldE := e_children old in let newE := e_children new in
    let T := match oldE with x :: _ => e_tag x | [] => match newE with y :: _ => e_tag y | [] => "" end end in
    seqb (e_text old) (e_text new) && attrs_okb (e_attrs old) (e_attrs new) &&
    same_addr_attrsb (e_attrs old) (e_attrs new) &&
    forallb (leafTb T) oldE && forallb (leafTb T) newE && forallb plain_leafb oldE && forallb plain_leafb newE &&
    match oldE, newE with
    | [], [] => true
    | _, _ => match diff equalLeafs oldE newE with Ok s => valid_script equalLeafs s oldE newE | _ => false end
    end.

  Definition leaf_pair_okb (old new : elem) : bool :=
    if negb (seqb (e_text old) (e_text new)) then true
    else attrs_okb (e_attrs old) (e_attrs new) && same_addr_attrsb (e_attrs old) (e_attrs new).

  Definition mandatory_idb (e : elem) : bool := match checkMandatoryIdAttribute e with Ok _ => true | _ => false end.

  Fixpoint tree_okb (fuel : nat) (old new : elem) : bool :=
    match fuel with
    | O => false
    | S f =>
      seqb (e_tag old) (e_tag new) && mandatory_idb old && mandatory_idb new &&
      if seqb (e_tag old) "SegmentTimeline" then stl_okb old new
      else if isLeaf old && isLeaf new then leaf_pair_okb old new
      else
        seqb (e_text old) (e_text new) && attrs_okb (e_attrs old) (e_attrs new) &&
        same_addr_attrsb (e_attrs old) (e_attrs new) &&
        match diff sameElements (e_children old) (e_children new) with
        | Ok s => valid_script sameElements s (e_children old) (e_children new) &&
                  loop_okb (tree_okb f) (e_children old) (e_children new) s 0 0 None
        | _ => false
        end
    end.

  Lemma mandatory_idb_spec e : mandatory_idb e = true -> mandatory_id e.
  Proof. unfold mandatory_idb, mandatory_id. destruct (checkMandatoryIdAttribute e) as [[]| |]; try discriminate. reflexivity. Qed.

  Theorem tree_okb_spec : forall fuel old new, tree_okb fuel old new = true -> tree_ok diff fuel old new.
  Proof.
    induction fuel as [|f IH]; intros old new H; cbn [tree_okb tree_ok] in *; [discriminate|].
    repeat (apply andb_true_iff in H; destruct H as [H ?]).
    apply seqb_eq in H. split; [exact H|]. split; [now apply mandatory_idb_spec|]. split; [now apply mandatory_idb_spec|].
    destruct (seqb (e_tag old) "SegmentTimeline").
    - unfold stl_okb in H0. unfold stl_ok.
      repeat (apply andb_true_iff in H0; destruct H0 as [H0 ?]).
      split; [now apply seqb_eq|]. split; [now apply attrs_okb_spec|]. split; [now apply same_addr_attrsb_spec|].
      split; [eexists; split; eapply forallb_Forall; eauto using leafTb_spec|].
      split; [eapply forallb_Forall; eauto using plain_leafb_spec|].
      split; [eapply forallb_Forall; eauto using plain_leafb_spec|].
      destruct (e_children old), (e_children new); try exact I;
        (destruct (diff equalLeafs _ _) as [s| |]; [|discriminate|discriminate]; exists s; split; [reflexivity|assumption]).
    - destruct (isLeaf old && isLeaf new).
      + unfold leaf_pair_okb in H0. unfold leaf_pair_ok. destruct (negb (seqb (e_text old) (e_text new))); [exact I|].
        apply andb_true_iff in H0. destruct H0. split; [now apply attrs_okb_spec|now apply same_addr_attrsb_spec].
      + repeat (apply andb_true_iff in H0; destruct H0 as [H0 ?]).
        split; [now apply seqb_eq|]. split; [now apply attrs_okb_spec|]. split; [now apply same_addr_attrsb_spec|].
        destruct (diff sameElements (e_children old) (e_children new)) as [s| |]; try discriminate.
        apply andb_true_iff in H3. destruct H3 as [Hv Hl]. exists s. split; [reflexivity|]. split; [exact Hv|].
        eapply loop_okb_spec; [|exact Hl]. exact IH.
  Qed.
End TreeOkb.
