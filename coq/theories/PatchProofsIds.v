(** C11 proofs, part 7: a structural premise that implies [tree_ok].
    [tree_wa] ("well addressed") asks, for the children of every element that is walked:
    - no child's attribute-form address (Tag[@id='x'], Tag[@schemeIdUri='u'], SegmentTemplate,
      SegmentTimeline) matches another child of the same list (old list, new list);
    - a kept pair has the same tag, id and schemeIdUri (so the same address);
    - an inserted child's address matches none of the old children still present, nor does the
      address of any of those match the inserted child (no "move").
    Positional addresses of kept and inserted children need no premise: the walk's per-tag counter
    lastNewIdx is the right index in the document as patched so far. *)
From Verif Require Import GoSem GoSemFacts Patch PatchProofsNav PatchProofsLeaf PatchProofsAttr PatchProofsTree.
From Coq Require Import ZifyBool Permutation.

(* ------------------------------------------------------------------------------------------ *)
(** * The two forms of calcAddr *)

Definition addr0 (e : elem) : step := calcAddr e 0.
Definition posb (e : elem) : bool := match st_pred (addr0 e) with PIdx _ => true | _ => false end.

Lemma calcAddr_pos e k : posb e = true -> calcAddr e k = mkStep (e_tag e) (PIdx (k + 1)).
Proof.
  unfold posb, addr0, calcAddr.
  destruct (negb (seqb (getAttrValue e "id") "")); cbn; [discriminate|].
  destruct (negb (seqb (getAttrValue e "schemeIdUri") "")); cbn; [discriminate|].
  destruct (seqb (e_tag e) "SegmentTimeline" || seqb (e_tag e) "SegmentTemplate"); cbn; [discriminate|reflexivity].
Qed.

Lemma calcAddr_attr e k : posb e = false -> calcAddr e k = addr0 e.
Proof.
  unfold posb, addr0, calcAddr.
  destruct (negb (seqb (getAttrValue e "id") "")); cbn; [reflexivity|].
  destruct (negb (seqb (getAttrValue e "schemeIdUri") "")); cbn; [reflexivity|].
  destruct (seqb (e_tag e) "SegmentTimeline" || seqb (e_tag e) "SegmentTemplate"); cbn; [reflexivity|discriminate].
Qed.

Lemma getAttrValue_sel e k v : getAttrValue e k = v -> v <> "" ->
  exists a, select_attr k (e_attrs e) = Some a /\ a_val a = v.
Proof.
  unfold getAttrValue. destruct (select_attr k (e_attrs e)) as [a|]; intros H Hv; [eauto|congruence].
Qed.

Lemma addr0_self e : posb e = false -> step_match (addr0 e) (sig_of e) = true.
Proof.
  unfold posb, addr0, calcAddr, step_match.
  destruct (negb (seqb (getAttrValue e "id") "")) eqn:E1; cbn [st_tag st_pred sig_of fst snd].
  - intros _. rewrite seqb_refl. cbn [andb]. apply negb_true_iff, seqb_neq in E1.
    destruct (getAttrValue_sel e "id" _ eq_refl E1) as (a & -> & Ha). now rewrite Ha, seqb_refl.
  - destruct (negb (seqb (getAttrValue e "schemeIdUri") "")) eqn:E2; cbn [st_tag st_pred].
    + intros _. rewrite seqb_refl. cbn [andb]. apply negb_true_iff, seqb_neq in E2.
      destruct (getAttrValue_sel e "schemeIdUri" _ eq_refl E2) as (a & -> & Ha). now rewrite Ha, seqb_refl.
    + destruct (seqb (e_tag e) "SegmentTimeline" || seqb (e_tag e) "SegmentTemplate"); cbn [st_tag st_pred]; [|discriminate].
      intros _. now rewrite seqb_refl.
Qed.

Lemma addr0_not_pidx e : posb e = false -> forall k, st_pred (addr0 e) <> PIdx k.
Proof. unfold posb. destruct (st_pred (addr0 e)); congruence. Qed.

Lemma getAttrValue_aval e k : getAttrValue e k = match aval k (e_attrs e) with Some v => v | None => "" end.
Proof. unfold getAttrValue, aval. destruct (select_attr k (e_attrs e)); reflexivity. Qed.

Lemma calcAddr_compat a b k : sig_compat (sig_of a) (sig_of b) -> calcAddr a k = calcAddr b k.
Proof.
  intros (Ht & Hi & Hs). cbn [sig_of fst snd] in *. unfold calcAddr.
  rewrite !getAttrValue_aval, Hi, Hs, Ht. reflexivity.
Qed.

Lemma posb_compat a b : sig_compat (sig_of a) (sig_of b) -> posb a = posb b.
Proof. intros H. unfold posb, addr0. now rewrite (calcAddr_compat a b 0 H). Qed.

(** [x]'s attribute-form address selects [y] *)
Definition amatch (x y : elem) : bool := negb (posb x) && step_match (addr0 x) (sig_of y).

Lemma amatch_compat_r x a b : sig_compat (sig_of a) (sig_of b) -> amatch x a = amatch x b.
Proof.
  intros H. unfold amatch. f_equal. apply step_match_compat; [apply calcAddr_addr_step|exact H].
Qed.
Lemma amatch_compat_l a b y : sig_compat (sig_of a) (sig_of b) -> amatch a y = amatch b y.
Proof. intros H. unfold amatch, addr0. now rewrite (posb_compat a b H), (calcAddr_compat a b 0 H). Qed.

Definition cross (x y : elem) : bool := amatch x y || amatch y x.

(** no element of [l] is selected by the attribute-form address of another one *)
Definition uniq (l : list elem) : Prop :=
  forall D x R, l = D ++ x :: R -> forall y, In y (D ++ R) -> amatch x y = false.

(* ------------------------------------------------------------------------------------------ *)
(** * Resolution of a step in a list of signatures *)

Lemma match_idx_app st A B : forall i, match_idx st (A ++ B) i = match_idx st A i ++ match_idx st B (i + lenZ A).
Proof.
  induction A as [|a A IH]; intros i; cbn [app match_idx].
  - rewrite lenZ_nil. now replace (i + 0) with i by lia.
  - rewrite IH, lenZ_cons. replace (i + 1 + lenZ A) with (i + (1 + lenZ A)) by lia.
    destruct (step_match st a); reflexivity.
Qed.

Lemma match_idx_none st A : (forall s, In s A -> step_match st s = false) -> forall i, match_idx st A i = [].
Proof.
  induction A as [|a A IH]; intros H i; cbn [match_idx]; [reflexivity|].
  rewrite (H a) by now left. apply IH. intros s Hs. apply H. now right.
Qed.

Lemma resolve_attr st A x B :
  (forall k, st_pred st <> PIdx k) ->
  (forall s, In s A -> step_match st s = false) -> step_match st x = true ->
  (forall s, In s B -> step_match st s = false) ->
  find_sig st (A ++ x :: B) = Some (lenZ A).
Proof.
  intros Hp HA Hx HB. unfold find_sig. rewrite match_idx_app, (match_idx_none st A HA). cbn [app match_idx].
  rewrite Hx, (match_idx_none st B HB). destruct (st_pred st) eqn:E; try (f_equal; lia).
  exfalso. eapply Hp; eauto.
Qed.

Definition tag_count (T : string) (A : list sig) : Z := lenZ (filter (fun s => seqb (fst s) T) A).

Lemma match_idx_pos_len T k A : forall i, lenZ (match_idx (mkStep T (PIdx k)) A i) = tag_count T A.
Proof.
  unfold tag_count. induction A as [|a A IH]; intros i; cbn [match_idx filter]; [reflexivity|].
  unfold step_match at 1. cbn [st_tag st_pred]. rewrite andb_true_r.
  destruct (seqb (fst a) T); [rewrite !lenZ_cons, IH; reflexivity|apply IH].
Qed.

Lemma resolve_pos T A x B : fst x = T ->
  find_sig (mkStep T (PIdx (tag_count T A + 1))) (A ++ x :: B) = Some (lenZ A).
Proof.
  intros Hx. unfold find_sig. cbn [st_pred]. pose proof (lenZ_nonneg (filter (fun s => seqb (fst s) T) A)) as Hn.
  fold (tag_count T A) in Hn. destruct (tag_count T A + 1 <? 1) eqn:E; [lia|].
  replace (tag_count T A + 1 - 1) with (tag_count T A) by lia.
  rewrite match_idx_app. cbn [match_idx].
  assert (Hm : step_match (mkStep T (PIdx (tag_count T A + 1))) x = true).
  { unfold step_match. cbn [st_tag st_pred]. now rewrite Hx, seqb_refl. }
  rewrite Hm.
  set (ms := match_idx (mkStep T (PIdx (tag_count T A + 1))) A 0).
  replace (nthZ (tag_count T A)) with (@nthZ Z (lenZ ms)) by (unfold ms; now rewrite match_idx_pos_len).
  rewrite nthZ_app_hit. reflexivity.
Qed.

Lemma tag_count_sigs T l : tag_count T (sigs l) = cnt_of T l.
Proof.
  unfold tag_count, cnt_of, sigs. induction l as [|a l IH]; cbn [map filter]; [reflexivity|].
  cbn [sig_of fst]. destruct (seqb (e_tag a) T); [rewrite !lenZ_cons; lia|exact IH].
Qed.

(** resolution of calcAddr (any form) for the element that follows [A] *)
Lemma resolve_calcAddr x (N O : list elem) :
  (forall n, In n N -> amatch x n = false) -> (forall o, In o O -> amatch x o = false) ->
  find_sig (calcAddr x (cnt_of (e_tag x) N)) (sigs N ++ sig_of x :: sigs O) = Some (lenZ N).
Proof.
  intros HN HO. assert (Hl : lenZ (sigs N) = lenZ N) by (unfold sigs, lenZ; now rewrite map_length).
  destruct (posb x) eqn:Ep.
  - rewrite (calcAddr_pos x _ Ep), <- tag_count_sigs, <- Hl. now apply resolve_pos.
  - rewrite (calcAddr_attr x _ Ep), <- Hl. apply resolve_attr.
    + now apply addr0_not_pidx.
    + intros s Hs. unfold sigs in Hs. apply in_map_iff in Hs. destruct Hs as (n & <- & Hn).
      specialize (HN n Hn). unfold amatch in HN. now rewrite Ep in HN.
    + now apply addr0_self.
    + intros s Hs. unfold sigs in Hs. apply in_map_iff in Hs. destruct Hs as (o & <- & Ho).
      specialize (HO o Ho). unfold amatch in HO. now rewrite Ep in HO.
Qed.

(* ------------------------------------------------------------------------------------------ *)
(** * Membership by index *)

Lemma In_dropZ_nth {A} (l : list A) : forall i x, 0 <= i -> In x (dropZ i l) -> exists j, i <= j /\ nthZ j l = Some x.
Proof.
  induction l as [|a l IH]; intros i x Hi H; cbn [dropZ] in H; [contradiction|].
  destruct (i <=? 0) eqn:E.
  - assert (i = 0) by lia. subst. destruct H as [<-|H].
    + exists 0. split; [lia|reflexivity].
    + destruct (IH 0 x ltac:(lia)) as (j & Hj & Hn); [now rewrite dropZ_0|].
      exists (j + 1). split; [lia|]. cbn [nthZ]. destruct (j + 1 <? 0) eqn:E1; [lia|].
      destruct (j + 1 =? 0) eqn:E2; [lia|]. now replace (j + 1 - 1) with j by lia.
  - destruct (IH (i - 1) x ltac:(lia) H) as (j & Hj & Hn). exists (j + 1). split; [lia|].
    cbn [nthZ]. destruct (j + 1 <? 0) eqn:E1; [lia|]. destruct (j + 1 =? 0) eqn:E2; [lia|].
    now replace (j + 1 - 1) with j by lia.
Qed.

Lemma In_takeZ_nth {A} (l : list A) : forall i x, In x (takeZ i l) -> exists j, 0 <= j < i /\ nthZ j l = Some x.
Proof.
  induction l as [|a l IH]; intros i x H; cbn [takeZ] in H; [contradiction|].
  destruct (i <=? 0) eqn:E; [contradiction|]. destruct H as [<-|H].
  - exists 0. split; [lia|reflexivity].
  - destruct (IH (i - 1) x H) as (j & Hj & Hn). exists (j + 1). split; [lia|].
    cbn [nthZ]. destruct (j + 1 <? 0) eqn:E1; [lia|]. destruct (j + 1 =? 0) eqn:E2; [lia|].
    now replace (j + 1 - 1) with j by lia.
Qed.

Lemma uniq_nth l i j x y : uniq l -> i <> j -> nthZ i l = Some x -> nthZ j l = Some y -> amatch x y = false.
Proof.
  intros U Hij Hx Hy. destruct (nthZ_split _ _ _ Hx) as (D & R & -> & HD).
  apply (U D x R eq_refl). destruct (nthZ_split _ _ _ Hy) as (D' & R' & E & HD').
  assert (Hlt : lenZ D <> lenZ D') by lia. clear - E Hlt.
  revert D' E Hlt. induction D as [|d D IH]; intros [|d' D'] E Hlt; cbn [app] in *.
  - exfalso; apply Hlt; reflexivity.
  - inversion E; subst. apply in_or_app. right. left. reflexivity.
  - inversion E; subst. left. reflexivity.
  - inversion E; subst. right. apply (IH D'); [assumption|]. rewrite !lenZ_cons in Hlt. lia.
Qed.

(* ------------------------------------------------------------------------------------------ *)
(** * From the structural premise to the resolution premise *)

Section Struct.
  Variables REC_s REC : elem -> elem -> Prop.
  Hypothesis REC_imp : forall a b, REC_s a b -> REC a b.
  Variables oc nc : list elem.
  Hypothesis Uo : uniq oc.
  Hypothesis Un : uniq nc.

  Fixpoint keeps_wa (n : nat) (oi ni : Z) : Prop :=
    match n with
    | O => True
    | S n' =>
      match nthZ oi oc, nthZ ni nc with
      | Some oe, Some ne => sig_compat (sig_of oe) (sig_of ne) /\ REC_s oe ne /\ keeps_wa n' (oi + 1) (ni + 1)
      | _, _ => False
      end
    end.

  Fixpoint loop_wa (s : list mop) (oi ni : Z) : Prop :=
    match s with
    | [] => keeps_wa (Z.to_nat (lenZ oc - oi)) oi ni
    | d :: s' =>
      let k := m_old d - oi in
      let oi1 := oi + k in
      let ni1 := ni + k in
      keeps_wa (Z.to_nat k) oi ni /\
      match m_kind d with
      | KDel =>
        match nthZ oi1 oc with
        | Some oe => loop_wa s' (oi1 + 1) ni1
        | None => False
        end
      | KIns =>
        match nthZ ni1 nc with
        | Some ne => (forall o, In o (dropZ oi1 oc) -> cross ne o = false) /\ loop_wa s' oi1 (ni1 + 1)
        | None => False
        end
      end
    end.

  (** no address of a final child selects a remaining old child, and vice versa *)
  Definition sep (oi ni : Z) : Prop :=
    forall n o, In n (takeZ ni nc) -> In o (dropZ oi oc) -> cross n o = false.

  Definition last_inv (ni : Z) (last : option step) : Prop :=
    match last with
    | None => ni = 0
    | Some sl => exists z, nthZ (ni - 1) nc = Some z /\ sl = calcAddr z (cnt_of (e_tag z) (takeZ (ni - 1) nc))
    end.

  Lemma cross_false n o : cross n o = false -> amatch n o = false /\ amatch o n = false.
  Proof. unfold cross. intros H. apply orb_false_iff in H. exact H. Qed.

  Lemma lenZ_takeZ_nth {A} (l : list A) i x : 0 <= i -> nthZ i l = Some x -> lenZ (takeZ i l) = i.
  Proof. intros Hi H. apply nthZ_Some_range in H. rewrite lenZ_takeZ by lia. lia. Qed.

  Lemma sep_tail oi ni oe : 0 <= oi -> nthZ oi oc = Some oe -> sep oi ni -> sep (oi + 1) ni.
  Proof.
    intros Hi He S n o Hn Ho. apply S; [exact Hn|]. rewrite (dropZ_nth oi oc oe Hi He). now right.
  Qed.

  Lemma resolve_head oi ni oe : 0 <= oi -> 0 <= ni -> ni <= lenZ nc -> nthZ oi oc = Some oe -> sep oi ni ->
    find_sig (calcAddr oe (cnt_of (e_tag oe) (takeZ ni nc))) (cur_sigs oc nc oi ni) = Some ni.
  Proof.
    intros Hoi Hni Hle He S. unfold cur_sigs. rewrite (dropZ_nth oi oc oe Hoi He). cbn [sigs map].
    assert (Hl : lenZ (takeZ ni nc) = ni) by (rewrite lenZ_takeZ by lia; lia).
    rewrite <- Hl at 3. apply resolve_calcAddr.
    - intros n Hn. assert (Ho : In oe (dropZ oi oc)) by (rewrite (dropZ_nth oi oc oe Hoi He); now left).
      now destruct (cross_false _ _ (S n oe Hn Ho)).
    - intros o Ho. destruct (In_dropZ_nth oc (oi + 1) o ltac:(lia) Ho) as (j & Hj & Hn).
      eapply (uniq_nth oc oi j); eauto. lia.
  Qed.

  Lemma keeps_struct : forall n oi ni last,
    0 <= oi -> 0 <= ni -> keeps_wa n oi ni -> sep oi ni -> last_inv ni last ->
    keeps_ok REC oc nc n oi ni /\ sep (oi + Z.of_nat n) (ni + Z.of_nat n) /\
    last_inv (ni + Z.of_nat n) (keeps_last oc nc n oi ni last).
  Proof.
    induction n as [|n IH]; intros oi ni last Hoi Hni HW HS HL.
    - cbn [keeps_ok keeps_last Z.of_nat]. rewrite !Z.add_0_r. auto.
    - cbn [keeps_wa] in HW. cbn [keeps_ok keeps_last].
      destruct (nthZ oi oc) as [oe|] eqn:Eo; [|contradiction]. destruct (nthZ ni nc) as [ne|] eqn:En; [|contradiction].
      destruct HW as (Hc & Hr & HW).
      assert (Hle : ni <= lenZ nc) by (apply nthZ_Some_range in En; lia).
      assert (HS1 : sep (oi + 1) (ni + 1)).
      { intros n0 o Hn0 Ho. rewrite (takeZ_succ ni nc ne Hni En) in Hn0. apply in_app_or in Hn0.
        destruct Hn0 as [Hn0|[<-|[]]].
        - apply HS; [exact Hn0|]. rewrite (dropZ_nth oi oc oe Hoi Eo). now right.
        - destruct (In_dropZ_nth oc (oi + 1) o ltac:(lia) Ho) as (j & Hj & Hnj).
          unfold cross. rewrite <- (amatch_compat_l oe ne o Hc), <- (amatch_compat_r o oe ne Hc).
          rewrite (uniq_nth oc oi j oe o Uo ltac:(lia) Eo Hnj), (uniq_nth oc j oi o oe Uo ltac:(lia) Hnj Eo). reflexivity. }
      assert (HL1 : last_inv (ni + 1) (Some (keep_addr nc oe ni))).
      { cbn [last_inv]. exists ne. replace (ni + 1 - 1) with ni by lia. split; [exact En|].
        unfold keep_addr. pose proof Hc as Hc2. destruct Hc2 as (Ht & _). cbn [sig_of fst] in Ht. rewrite Ht.
        apply calcAddr_compat. exact Hc. }
      destruct (IH (oi + 1) (ni + 1) (Some (keep_addr nc oe ni)) ltac:(lia) ltac:(lia) HW HS1 HL1) as (K1 & K2 & K3).
      split; [|split].
      + split; [now apply resolve_head|]. split; [exact Hc|]. split; [now apply REC_imp|exact K1].
      + replace (oi + Z.of_nat (S n)) with (oi + 1 + Z.of_nat n) by lia.
        replace (ni + Z.of_nat (S n)) with (ni + 1 + Z.of_nat n) by lia. exact K2.
      + replace (ni + Z.of_nat (S n)) with (ni + 1 + Z.of_nat n) by lia. exact K3.
  Qed.

  Lemma loop_struct : forall s oi ni last,
    0 <= oi -> 0 <= ni <= lenZ nc ->
    valid_from sameElements s (dropZ oi oc) (dropZ ni nc) oi ni = true ->
    loop_wa s oi ni -> sep oi ni -> last_inv ni last ->
    loop_ok REC oc nc s oi ni last.
  Proof.
    induction s as [|d s IH]; intros oi ni last Hoi [Hni Hnile0] HV HW HS HL.
    - cbn [loop_ok loop_wa] in *. now destruct (keeps_struct _ _ _ last Hoi Hni HW HS HL).
    - cbn [loop_ok loop_wa] in *. cbn [valid_from] in HV. set (k := m_old d - oi) in *.
      apply andb_true_iff in HV; destruct HV as [HV Hrest]. apply andb_true_iff in HV; destruct HV as [HV Hkeep].
      apply andb_true_iff in HV; destruct HV as [HV Hkf]. apply andb_true_iff in HV; destruct HV as [Hk0 Hke].
      assert (Hk : 0 <= k) by lia. destruct HW as [HK HW].
      destruct (keeps_struct _ _ _ last Hoi Hni HK HS HL) as (K1 & K2 & K3).
      rewrite Z2Nat.id in K2, K3 by lia.
      set (oi1 := oi + k) in *. set (ni1 := ni + k) in *.
      set (last1 := keeps_last oc nc (Z.to_nat k) oi ni last) in *.
      assert (Hoi1 : 0 <= oi1) by (unfold oi1; lia). assert (Hni1 : 0 <= ni1) by (unfold ni1; lia).
      assert (HdE : dropZ k (dropZ oi oc) = dropZ oi1 oc) by (rewrite dropZ_dropZ by lia; f_equal; unfold oi1; lia).
      assert (HdF : dropZ k (dropZ ni nc) = dropZ ni1 nc) by (rewrite dropZ_dropZ by lia; f_equal; unfold ni1; lia).
      rewrite HdE, HdF in Hrest.
      assert (Hnile : ni1 <= lenZ nc).
      { rewrite lenZ_dropZ in Hkf by lia. unfold ni1. lia. }
      split; [exact K1|]. destruct (m_kind d) eqn:EK.
      + destruct (nthZ oi1 oc) as [oe|] eqn:Eoe; [|contradiction].
        split.
        * now apply resolve_head.
        * apply IH; try lia; try assumption.
          -- rewrite (dropZ_nth oi1 oc oe Hoi1 Eoe) in Hrest.
             replace (m_old d + 1) with (oi1 + 1) in Hrest by (unfold oi1, k; lia). exact Hrest.
          -- eapply sep_tail; eauto.
      + apply andb_true_iff in Hrest. destruct Hrest as [Hnew Hrest].
        destruct (nthZ ni1 nc) as [ne|] eqn:Ene; [|contradiction]. destruct HW as [Hins HW].
        split.
        * destruct last1 as [sl|] eqn:El; cbn [last_inv] in K3; [|exact K3].
          destruct K3 as (z & Hz & ->).
          assert (Hni1' : 0 <= ni1 - 1) by (apply nthZ_Some_range in Hz; lia).
          unfold cur_sigs. replace ni1 with (ni1 - 1 + 1) at 2 by lia.
          rewrite (takeZ_succ (ni1 - 1) nc z Hni1' Hz). unfold sigs. rewrite map_app, <- app_assoc. cbn [map app].
          rewrite <- (lenZ_takeZ_nth nc (ni1 - 1) z Hni1' Hz) at 3.
          apply resolve_calcAddr.
          -- intros n Hn. destruct (In_takeZ_nth nc (ni1 - 1) n Hn) as (j & Hj & Hnj).
             eapply (uniq_nth nc (ni1 - 1) j); eauto. lia.
          -- intros o Ho. assert (Hzin : In z (takeZ ni1 nc)).
             { replace ni1 with (ni1 - 1 + 1) by lia. rewrite (takeZ_succ (ni1 - 1) nc z Hni1' Hz).
               apply in_or_app. right. now left. }
             now destruct (cross_false _ _ (K2 z o Hzin Ho)).
        * assert (ni1 + 1 <= lenZ nc) by (apply nthZ_Some_range in Ene; lia).
          apply IH; try lia.
          -- rewrite (dropZ_nth ni1 nc ne Hni1 Ene) in Hrest.
             replace (m_old d) with oi1 in Hrest by (unfold oi1, k; lia).
             replace (ni + k + 1) with (ni1 + 1) in Hrest by (unfold ni1; lia). exact Hrest.
          -- exact HW.
          -- intros n o Hn Ho. rewrite (takeZ_succ ni1 nc ne Hni1 Ene) in Hn. apply in_app_or in Hn.
             destruct Hn as [Hn|[<-|[]]]; [now apply K2|now apply Hins].
          -- cbn [last_inv]. exists ne. replace (ni1 + 1 - 1) with ni1 by lia. split; [exact Ene|reflexivity].
  Qed.
End Struct.

(* ------------------------------------------------------------------------------------------ *)
(** * The structural premise for whole trees *)

Section TreeWa.
  Variable diff : differ.

  Fixpoint tree_wa (fuel : nat) (old new : elem) : Prop :=
    match fuel with
    | O => False
    | S f =>
      e_tag old = e_tag new /\ mandatory_id old /\ mandatory_id new /\
      if seqb (e_tag old) "SegmentTimeline" then stl_ok diff old new
      else if isLeaf old && isLeaf new then leaf_pair_ok old new
      else
        e_text old = e_text new /\ attrs_ok (e_attrs old) (e_attrs new) /\
        same_addr_attrs (e_attrs old) (e_attrs new) /\
        uniq (e_children old) /\ uniq (e_children new) /\
        exists s, diff sameElements (e_children old) (e_children new) = Ok s /\
                  valid_script sameElements s (e_children old) (e_children new) = true /\
                  loop_wa (tree_wa f) (e_children old) (e_children new) s 0 0
    end.

  Theorem tree_wa_ok : forall fuel old new, tree_wa fuel old new -> tree_ok diff fuel old new.
  Proof.
    induction fuel as [|f IH]; intros old new H; cbn [tree_wa tree_ok] in *; [contradiction|].
    destruct H as (Ht & Hm1 & Hm2 & H). split; [exact Ht|]. split; [exact Hm1|]. split; [exact Hm2|].
    destruct (seqb (e_tag old) "SegmentTimeline"); [exact H|].
    destruct (isLeaf old && isLeaf new); [exact H|].
    destruct H as (Htx & OK & Hsa & Uo & Un & s & Hd & Hv & Hl).
    split; [exact Htx|]. split; [exact OK|]. split; [exact Hsa|]. exists s. split; [exact Hd|]. split; [exact Hv|].
    apply (loop_struct (tree_wa f) (tree_ok diff f) IH (e_children old) (e_children new) Uo Un s 0 0 None).
    - lia.
    - pose proof (lenZ_nonneg (e_children new)). lia.
    - rewrite !dropZ_0. exact Hv.
    - exact Hl.
    - intros n o Hn. rewrite takeZ_nonpos in Hn by lia. contradiction.
    - reflexivity.
  Qed.

  (** addElemChanges under the structural premise *)
  Theorem tree_ids_sound : forall fuel old new P ctx,
    tree_wa fuel old new -> Forall addr_step P -> located P ctx (sig_of old) ->
    exists ops new', elem_ops_with diff fuel old new P = Ok ops /\
                     apply_ops ops (plug ctx old) = Some (plug ctx new') /\ sim new' new.
  Proof. intros fuel old new P ctx H. apply tree_sound. now apply tree_wa_ok. Qed.
End TreeWa.

(* ------------------------------------------------------------------------------------------ *)
(** * The structural premise as a boolean function *)

Fixpoint uniqb_from (D l : list elem) : bool :=
  match l with
  | [] => true
  | x :: R => forallb (fun y => negb (amatch x y)) (D ++ R) && uniqb_from (D ++ [x]) R
  end.
Definition uniqb (l : list elem) : bool := uniqb_from [] l.

Lemma uniqb_from_spec : forall l D, uniqb_from D l = true ->
  forall D' x R, l = D' ++ x :: R -> forall y, In y ((D ++ D') ++ R) -> amatch x y = false.
Proof.
  induction l as [|x0 R0 IH]; intros D H D' x R E y Hy.
  - destruct D'; discriminate.
  - cbn [uniqb_from] in H. apply andb_true_iff in H. destruct H as [H1 H2].
    destruct D' as [|d D'']; cbn [app] in E; inversion E; subst.
    + rewrite app_nil_r in Hy. rewrite forallb_forall in H1. now apply negb_true_iff, H1.
    + apply (IH (D ++ [d]) H2 D'' x R eq_refl y). now rewrite <- !app_assoc in *.
Qed.

Lemma uniqb_spec l : uniqb l = true -> uniq l.
Proof. intros H D x R E y Hy. exact (uniqb_from_spec l [] H D x R E y Hy). Qed.

Section StructB.
  Variable RECb : elem -> elem -> bool.
  Variable REC_s : elem -> elem -> Prop.
  Hypothesis RECb_spec : forall a b, RECb a b = true -> REC_s a b.
  Variables oc nc : list elem.

  Definition sig_compatb' (s1 s2 : sig) : bool :=
    seqb (fst s1) (fst s2) &&
    match aval "id" (snd s1), aval "id" (snd s2) with Some a, Some b => seqb a b | None, None => true | _, _ => false end &&
    match aval "schemeIdUri" (snd s1), aval "schemeIdUri" (snd s2) with Some a, Some b => seqb a b | None, None => true | _, _ => false end.

  Lemma sig_compatb'_spec s1 s2 : sig_compatb' s1 s2 = true -> sig_compat s1 s2.
  Proof.
    unfold sig_compatb', sig_compat. intros H. apply andb_true_iff in H. destruct H as [H H3].
    apply andb_true_iff in H. destruct H as [H1 H2]. apply seqb_eq in H1. split; [exact H1|]. split.
    - destruct (aval "id" (snd s1)), (aval "id" (snd s2)); try discriminate; [apply seqb_eq in H2; congruence|reflexivity].
    - destruct (aval "schemeIdUri" (snd s1)), (aval "schemeIdUri" (snd s2)); try discriminate; [apply seqb_eq in H3; congruence|reflexivity].
  Qed.

  Fixpoint keeps_wab (n : nat) (oi ni : Z) : bool :=
    match n with
    | O => true
    | S n' =>
      match nthZ oi oc, nthZ ni nc with
      | Some oe, Some ne => sig_compatb' (sig_of oe) (sig_of ne) && RECb oe ne && keeps_wab n' (oi + 1) (ni + 1)
      | _, _ => false
      end
    end.

  Lemma keeps_wab_spec n : forall oi ni, keeps_wab n oi ni = true -> keeps_wa REC_s oc nc n oi ni.
  Proof.
    induction n as [|n IH]; intros oi ni H; cbn [keeps_wab keeps_wa] in *; [exact I|].
    destruct (nthZ oi oc); [|discriminate]. destruct (nthZ ni nc); [|discriminate].
    apply andb_true_iff in H. destruct H as [H H3]. apply andb_true_iff in H. destruct H as [H1 H2].
    split; [now apply sig_compatb'_spec|]. split; [now apply RECb_spec|now apply IH].
  Qed.

  Fixpoint loop_wab (s : list mop) (oi ni : Z) : bool :=
    match s with
    | [] => keeps_wab (Z.to_nat (lenZ oc - oi)) oi ni
    | d :: s' =>
      let k := m_old d - oi in
      let oi1 := oi + k in
      let ni1 := ni + k in
      keeps_wab (Z.to_nat k) oi ni &&
      match m_kind d with
      | KDel =>
        match nthZ oi1 oc with
        | Some oe => loop_wab s' (oi1 + 1) ni1
        | None => false
        end
      | KIns =>
        match nthZ ni1 nc with
        | Some ne => forallb (fun o => negb (cross ne o)) (dropZ oi1 oc) && loop_wab s' oi1 (ni1 + 1)
        | None => false
        end
      end
    end.

  Lemma loop_wab_spec s : forall oi ni, loop_wab s oi ni = true -> loop_wa REC_s oc nc s oi ni.
  Proof.
    induction s as [|d s IH]; intros oi ni H; cbn [loop_wab loop_wa] in *.
    - now apply keeps_wab_spec.
    - apply andb_true_iff in H. destruct H as [H1 H2]. split; [now apply keeps_wab_spec|].
      destruct (m_kind d).
      + destruct (nthZ (oi + (m_old d - oi)) oc); [|discriminate].
        now apply IH.
      + destruct (nthZ (ni + (m_old d - oi)) nc); [|discriminate].
        apply andb_true_iff in H2. destruct H2 as [H2 H3]. split; [|now apply IH].
        intros o Ho. rewrite forallb_forall in H2. now apply negb_true_iff, H2.
  Qed.
End StructB.

From Verif Require Import PatchProofsCheck.

Section TreeWab.
  Variable diff : differ.

  Fixpoint tree_wab (fuel : nat) (old new : elem) : bool :=
    match fuel with
    | O => false
    | S f =>
      seqb (e_tag old) (e_tag new) && mandatory_idb old && mandatory_idb new &&
      if seqb (e_tag old) "SegmentTimeline" then stl_okb diff old new
      else if isLeaf old && isLeaf new then leaf_pair_okb old new
      else
        seqb (e_text old) (e_text new) && attrs_okb (e_attrs old) (e_attrs new) &&
        same_addr_attrsb (e_attrs old) (e_attrs new) &&
        uniqb (e_children old) && uniqb (e_children new) &&
        match diff sameElements (e_children old) (e_children new) with
        | Ok s => valid_script sameElements s (e_children old) (e_children new) &&
                  loop_wab (tree_wab f) (e_children old) (e_children new) s 0 0
        | _ => false
        end
    end.

  Theorem tree_wab_spec : forall fuel old new, tree_wab fuel old new = true -> tree_wa diff fuel old new.
  Proof.
    induction fuel as [|f IH]; intros old new H; cbn [tree_wab tree_wa] in *; [discriminate|].
    apply andb_true_iff in H. destruct H as [H Hrest]. apply andb_true_iff in H. destruct H as [H Hm2].
    apply andb_true_iff in H. destruct H as [Ht Hm1]. apply seqb_eq in Ht.
    split; [exact Ht|]. split; [now apply mandatory_idb_spec|]. split; [now apply mandatory_idb_spec|].
    (* the SegmentTimeline and leaf cases are those of tree_okb *)
    pose proof (tree_okb_spec diff 1 old new) as Hleaf. cbn [tree_okb tree_ok] in Hleaf.
    destruct (seqb (e_tag old) "SegmentTimeline") eqn:ES.
    - assert (Hb : seqb (e_tag old) (e_tag new) && mandatory_idb old && mandatory_idb new && stl_okb diff old new = true).
      { rewrite Ht, seqb_refl, Hm1, Hm2, Hrest. reflexivity. }
      now destruct (Hleaf Hb) as (_ & _ & _ & Hs).
    - destruct (isLeaf old && isLeaf new) eqn:EL.
      + assert (Hb : seqb (e_tag old) (e_tag new) && mandatory_idb old && mandatory_idb new && leaf_pair_okb old new = true).
        { rewrite Ht, seqb_refl, Hm1, Hm2, Hrest. reflexivity. }
        now destruct (Hleaf Hb) as (_ & _ & _ & Hs).
      + clear Hleaf. apply andb_true_iff in Hrest. destruct Hrest as [H Hd]. apply andb_true_iff in H. destruct H as [H Hun].
        apply andb_true_iff in H. destruct H as [H Huo]. apply andb_true_iff in H. destruct H as [H Hsa].
        apply andb_true_iff in H. destruct H as [Htx Hok].
        split; [now apply seqb_eq|]. split; [now apply attrs_okb_spec|]. split; [now apply same_addr_attrsb_spec|].
        split; [now apply uniqb_spec|]. split; [now apply uniqb_spec|].
        destruct (diff sameElements (e_children old) (e_children new)) as [s| |]; try discriminate.
        apply andb_true_iff in Hd. destruct Hd as [Hv Hl]. exists s. split; [reflexivity|]. split; [exact Hv|].
        eapply loop_wab_spec; [|exact Hl]. exact IH.
  Qed.
End TreeWab.
