(** C11 proofs, part 2: addLeafListChanges.  For ANY edit script that is valid for (old,new) under
    equalLeafs, the operations emitted by the loop of addLeafListChanges, applied in order by the
    independent applier, turn the old child list into the new one: the positions S[k] are right for
    every mix of removals and insertions (invariant: position = oldIdx + offset = number of children
    already final). *)
From Verif Require Import GoSem GoSemFacts Patch PatchProofsNav.
From Coq Require Import ZifyBool.

(** an element that calcAddr addresses by position *)
Definition positional (e : elem) : Prop :=
  getAttrValue e "id" = "" /\ getAttrValue e "schemeIdUri" = "" /\
  e_tag e <> "SegmentTimeline" /\ e_tag e <> "SegmentTemplate".

Lemma calcAddr_positional e k : positional e -> calcAddr e k = mkStep (e_tag e) (PIdx (k + 1)).
Proof.
  intros (Hi & Hs & H1 & H2). unfold calcAddr. rewrite Hi, Hs. cbn [seqb String.eqb negb].
  apply seqb_neq in H1, H2. now rewrite H1, H2.
Qed.

(** member of a leaf list with tag [T] *)
Definition leafT (T : string) (e : elem) : Prop := e_tag e = T /\ positional e.

Lemma match_idx_all_tag T k cs : Forall (fun c => e_tag c = T) cs -> forall i j,
  0 <= j < lenZ cs -> nthZ j (match_idx (mkStep T (PIdx k)) (map sig_of cs) i) = Some (i + j).
Proof.
  induction 1 as [|c cs Hc _ IH]; intros i j Hj.
  - unfold lenZ in Hj; cbn in Hj; lia.
  - rewrite lenZ_cons in Hj. cbn [map match_idx]. unfold step_match at 1.
    cbn [sig_of fst st_tag st_pred]. rewrite Hc, seqb_refl. cbn [andb nthZ].
    destruct (j <? 0) eqn:E1; [lia|]. destruct (j =? 0) eqn:E2.
    + f_equal; lia.
    + rewrite IH by lia. f_equal; lia.
Qed.

Lemma find_child_positional T cs j : Forall (fun c => e_tag c = T) cs -> 0 <= j < lenZ cs ->
  find_child (mkStep T (PIdx (j + 1))) cs = Some j.
Proof.
  intros H Hj. unfold find_child, find_sig. cbn [st_pred]. destruct (j + 1 <? 1) eqn:E; [lia|].
  replace (j + 1 - 1) with j by lia. now rewrite (match_idx_all_tag T (j + 1) cs H 0 j Hj).
Qed.

Definition leaf_same (a b : elem) : Prop := equalLeafs a b = true.

Lemma list_eqb_Forall2 {A B} (eqf : A -> B -> bool) a b :
  list_eqb eqf a b = true <-> Forall2 (fun x y => eqf x y = true) a b.
Proof.
  revert b; induction a as [|x a IH]; intros [|y b]; cbn [list_eqb]; split; intros H;
    try discriminate; try constructor; try (inversion H; fail).
  - apply andb_true_iff in H. tauto.
  - apply andb_true_iff in H. apply IH. tauto.
  - inversion H; subst. apply andb_true_iff. split; [assumption|now apply IH].
Qed.

Lemma sig_of_set_children e cs : sig_of (set_children e cs) = sig_of e.
Proof. reflexivity. Qed.
Lemma set_children_twice e a b : set_children (set_children e a) b = set_children e b.
Proof. reflexivity. Qed.
Lemma children_set_children e cs : e_children (set_children e cs) = cs.
Proof. reflexivity. Qed.

Lemma Forall_takeZ {A} (P : A -> Prop) n l : Forall P l -> Forall P (takeZ n l).
Proof.
  intros H; revert n; induction H as [|x l Hx _ IH]; intros n; cbn [takeZ]; [constructor|].
  destruct (n <=? 0); constructor; auto.
Qed.
Lemma Forall_dropZ {A} (P : A -> Prop) n l : Forall P l -> Forall P (dropZ n l).
Proof.
  intros H; revert n; induction H as [|x l Hx Hl IH]; intros n; cbn [dropZ]; [constructor|].
  destruct (n <=? 0); [constructor; auto|apply IH].
Qed.

Section LeafList.
  Variable T : string.
  Variables oldE newE : list elem.
  Hypothesis Hold : Forall (leafT T) oldE.
  Hypothesis Hnew : Forall (leafT T) newE.
  Variable P : path.
  (** any property shared by the members of both lists holds of the members of the result *)
  Variable Q : elem -> Prop.
  Hypothesis HQold : Forall Q oldE.
  Hypothesis HQnew : Forall Q newE.

  Lemma leafT_tag l : Forall (leafT T) l -> Forall (fun c => e_tag c = T) l.
  Proof. apply Forall_impl. now intros a [H _]. Qed.

  Lemma dropZ_step {A} (l : list A) i x r : 0 <= i -> dropZ i l = x :: r -> nthZ i l = Some x /\ r = dropZ (i + 1) l.
  Proof.
    intros Hi H. rewrite (nthZ_dropZ i l Hi) in H. destruct (nthZ i l); [|discriminate].
    inversion H; subst. split; reflexivity.
  Qed.

  Lemma leaflist_ops_sound : forall s oi ni D ctx e,
    valid_from equalLeafs s (dropZ oi oldE) (dropZ ni newE) oi ni = true ->
    0 <= oi -> 0 <= ni -> Forall (leafT T) D -> lenZ D = ni ->
    e_children e = D ++ dropZ oi oldE -> located P ctx (sig_of e) ->
    exists ops R, leaflist_ops P oldE newE s oi (ni - oi) = Ok ops
      /\ apply_ops ops (plug ctx e) = Some (plug ctx (set_children e (D ++ R)))
      /\ Forall2 leaf_same R (dropZ ni newE) /\ Forall Q R.
  Proof.
    induction s as [|d s IH]; intros oi ni D ctx e HV Hoi Hni HD HlD HC HL.
    - cbn [valid_from] in HV. exists [], (dropZ oi oldE). cbn [leaflist_ops apply_ops]. repeat split.
      + rewrite <- HC. now destruct e.
      + now apply list_eqb_Forall2.
      + now apply Forall_dropZ.
    - cbn [valid_from] in HV. set (k := m_old d - oi) in *.
      repeat (apply andb_true_iff in HV; destruct HV as [HV ?]).
      rename H into Hrest, H0 into Hkeep, H1 into Hkf, H2 into Hke.
      assert (Hk : 0 <= k) by lia. clear HV.
      set (E := dropZ oi oldE) in *. set (F := dropZ ni newE) in *.
      set (D' := D ++ takeZ k E).
      assert (HD' : Forall (leafT T) D').
      { apply Forall_app. split; [exact HD|]. apply Forall_takeZ, Forall_dropZ, Hold. }
      assert (HlD' : lenZ D' = ni + k).
      { unfold D'. rewrite lenZ_app, lenZ_takeZ by lia. lia. }
      assert (Hkeep2 : Forall2 leaf_same (takeZ k E) (takeZ k F)) by now apply list_eqb_Forall2.
      assert (HdE : dropZ k E = dropZ (oi + k) oldE).
      { unfold E. rewrite dropZ_dropZ by lia. f_equal; lia. }
      assert (HdF : dropZ k F = dropZ (ni + k) newE).
      { unfold F. rewrite dropZ_dropZ by lia. f_equal; lia. }
      assert (HC' : e_children e = D' ++ dropZ k E).
      { unfold D'. rewrite <- app_assoc, takeZ_dropZ. exact HC. }
      cbn [leaflist_ops]. replace (Z.max oi (m_old d)) with (m_old d) by lia.
      rewrite Z.eqb_refl.
      destruct (m_kind d) eqn:EK.
      + (* delete *)
        destruct (dropZ k E) as [|x E''] eqn:EdE; [discriminate|].
        symmetry in HdE. assert (Hoik : 0 <= oi + k) by lia. destruct (dropZ_step _ _ _ _ Hoik HdE) as [Hx HE''].
        replace (oi + k) with (m_old d) in Hx by lia.
        unfold index at 1. rewrite Hx. cbn [bind].
        assert (Hxl : leafT T x).
        { eapply Forall_forall; [exact Hold|]. destruct (nthZ_split _ _ _ Hx) as (A & B & -> & _).
          apply in_or_app; right; left; reflexivity. }
        destruct Hxl as [HxT Hxp]. rewrite (calcAddr_positional x _ Hxp), HxT.
        replace (m_old d + (ni - oi)) with (lenZ D') by lia.
        set (e1 := set_children e (D' ++ E'')).
        destruct (IH (m_old d + 1) (ni + k) D' ctx e1) as (ops & R & Hops & Happ & HR & HQR).
        * replace (dropZ (m_old d + 1) oldE) with E'' by (rewrite HE''; f_equal; lia).
          rewrite <- HdF. exact Hrest.
        * lia.
        * lia.
        * exact HD'.
        * exact HlD'.
        * unfold e1. rewrite children_set_children. f_equal. rewrite HE''. f_equal; lia.
        * exact HL.
        * replace (ni - oi - 1) with (ni + k - (m_old d + 1)) by lia. rewrite Hops. cbn [bind].
          exists (ORemove (P ++ [mkStep T (PIdx (lenZ D' + 1))]) :: ops), (takeZ k E ++ R). repeat split.
          -- cbn [apply_ops apply_op]. rewrite (at_parent_located P ctx e _ _ HL), HC'.
             rewrite find_child_positional.
             2:{ apply leafT_tag. apply Forall_app; split; [exact HD'|].
                 constructor; [split; assumption|]. rewrite HE''. apply Forall_dropZ, Hold. }
             2:{ rewrite lenZ_app, lenZ_cons. pose proof (lenZ_nonneg D'). pose proof (lenZ_nonneg E''). lia. }
             cbn [obind]. rewrite remove_nth_app. fold e1. rewrite Happ. unfold e1, D'.
             now rewrite set_children_twice, <- app_assoc.
          -- rewrite <- (takeZ_dropZ k F). apply Forall2_app; [exact Hkeep2|]. rewrite HdF. exact HR.
          -- apply Forall_app. split; [apply Forall_takeZ, Forall_dropZ, HQold|exact HQR].
      + (* insert *)
        apply andb_true_iff in Hrest. destruct Hrest as [Hnew' Hrest].
        destruct (dropZ k F) as [|y F''] eqn:EdF; [discriminate|].
        symmetry in HdF. assert (Hnik : 0 <= ni + k) by lia. destruct (dropZ_step _ _ _ _ Hnik HdF) as [Hy HF''].
        replace (ni + k) with (m_new d) in Hy by lia.
        unfold index at 1. rewrite Hy. cbn [bind].
        assert (Hyl : leafT T y).
        { eapply Forall_forall; [exact Hnew|]. destruct (nthZ_split _ _ _ Hy) as (A & B & -> & _).
          apply in_or_app; right; left; reflexivity. }
        destruct Hyl as [HyT Hyp].
        replace (m_old d + (ni - oi)) with (lenZ D') by lia.
        set (e1 := set_children e (D' ++ y :: dropZ k E)).
        assert (HQy : Q y).
        { eapply Forall_forall; [exact HQnew|]. destruct (nthZ_split _ _ _ Hy) as (A & B & -> & _).
          apply in_or_app; right; left; reflexivity. }
        destruct (IH (m_old d) (ni + k + 1) (D' ++ [y]) ctx e1) as (ops & R & Hops & Happ & HR & HQR).
        * replace (dropZ (ni + k + 1) newE) with F'' by exact HF''.
          replace (dropZ (m_old d) oldE) with (dropZ k E) by (rewrite HdE; f_equal; lia). exact Hrest.
        * lia.
        * lia.
        * apply Forall_app; split; [exact HD'|]. constructor; [split; assumption|constructor].
        * rewrite lenZ_app, lenZ_cons, lenZ_nil. lia.
        * unfold e1. rewrite children_set_children, <- app_assoc. cbn [app]. do 2 f_equal.
          rewrite HdE. f_equal; lia.
        * exact HL.
        * replace (ni - oi + 1) with (ni + k + 1 - m_old d) by lia. rewrite Hops. cbn [bind].
          assert (Hfin : Forall2 leaf_same (takeZ k E ++ y :: R) F).
          { rewrite <- (takeZ_dropZ k F). apply Forall2_app; [exact Hkeep2|]. rewrite EdF.
            constructor; [|rewrite HF''; exact HR].
            unfold leaf_same, equalLeafs. rewrite !seqb_refl. cbn [andb].
            apply list_eqb_Forall2. clear. induction (e_attrs y); constructor; [|assumption].
            now rewrite !seqb_refl. }
          assert (HQfin : Forall Q (takeZ k E ++ y :: R)).
          { apply Forall_app. split; [apply Forall_takeZ, Forall_dropZ, HQold|constructor; assumption]. }
          destruct (lenZ D' =? 0) eqn:E0.
          -- (* prepend *)
             assert (D' = []) by (apply lenZ_zero_nil; lia).
             exists (OAdd P Prepend y :: ops), (takeZ k E ++ y :: R). repeat split; [|exact Hfin|exact HQfin].
             cbn [apply_ops apply_op]. rewrite (at_elem_located P ctx e _ HL). cbn [obind].
             rewrite HC'. unfold e1 in Happ. rewrite H in *. cbn [app] in *. rewrite Happ.
             rewrite set_children_twice. do 3 f_equal.
             assert (HD0 : D = []) by (destruct D; [reflexivity|discriminate]).
             assert (HT0 : takeZ k E = []) by (destruct D; [exact H|discriminate]).
             now rewrite HD0, HT0.
          -- (* after the previous element *)
             rewrite (calcAddr_positional y _ Hyp), HyT.
             exists (OAdd (P ++ [mkStep T (PIdx (lenZ D' - 1 + 1))]) After y :: ops), (takeZ k E ++ y :: R).
             repeat split; [|exact Hfin|exact HQfin].
             cbn [apply_ops apply_op]. rewrite (at_parent_located P ctx e _ _ HL), HC'.
             rewrite find_child_positional.
             2:{ apply leafT_tag. apply Forall_app; split; [exact HD'|]. rewrite HdE. apply Forall_dropZ, Hold. }
             2:{ rewrite lenZ_app. pose proof (lenZ_nonneg D'). pose proof (lenZ_nonneg (dropZ k E)). lia. }
             cbn [obind]. replace (lenZ D' - 1 + 1) with (lenZ D') by lia. rewrite insert_at_app.
             fold e1. rewrite Happ. unfold e1, D'. rewrite set_children_twice.
             do 3 f_equal. rewrite <- !app_assoc. reflexivity.
  Qed.

  (** the statement for a whole list: script positions start at 0 with offset 0 *)
  Theorem leaflist_script_sound : forall s ctx e,
    valid_script equalLeafs s oldE newE = true ->
    e_children e = oldE -> located P ctx (sig_of e) ->
    exists ops R, leaflist_ops P oldE newE s 0 0 = Ok ops
      /\ apply_ops ops (plug ctx e) = Some (plug ctx (set_children e R))
      /\ Forall2 leaf_same R newE /\ Forall Q R.
  Proof.
    intros s ctx e HV HC HL.
    destruct (leaflist_ops_sound s 0 0 [] ctx e) as (ops & R & H1 & H2 & H3 & H4).
    - now rewrite !dropZ_0.
    - lia.
    - lia.
    - constructor.
    - reflexivity.
    - now rewrite dropZ_0.
    - exact HL.
    - exists ops, R. rewrite dropZ_0 in H3. cbn [app] in H2. replace (0 - 0) with 0 in H1 by lia. auto.
  Qed.
End LeafList.

(** leaves without namespaced attributes: equalLeafs is equality *)
Definition plain_leaf (e : elem) : Prop :=
  e_children e = [] /\ Forall (fun a => a_space a = "") (e_attrs e).

Lemma equalLeafs_plain_eq a b : plain_leaf a -> plain_leaf b -> equalLeafs a b = true -> a = b.
Proof.
  destruct a as [t1 a1 x1 c1], b as [t2 a2 x2 c2]. unfold plain_leaf, equalLeafs. cbn.
  intros [-> H1] [-> H2] H. repeat (apply andb_true_iff in H; destruct H as [H ?]).
  apply seqb_eq in H, H3. subst. f_equal.
  revert a2 H2 H0; induction H1 as [|x a1 Hx _ IH]; intros [|y a2] H2 H0; cbn in H0; try discriminate; [reflexivity|].
  inversion H2 as [|? ? Hy Ha2]; subst. apply andb_true_iff in H0; destruct H0 as [Hkv Hrest].
  apply andb_true_iff in Hkv; destruct Hkv as [Hk Hv]. apply seqb_eq in Hk, Hv.
  f_equal; [|now apply IH].
  destruct x, y; cbn in *; congruence.
Qed.

Lemma Forall2_plain_eq R N : Forall plain_leaf R -> Forall plain_leaf N -> Forall2 leaf_same R N -> R = N.
Proof.
  intros HR HN H. induction H as [|x y R N Hxy _ IH]; [reflexivity|].
  inversion HR; inversion HN; subst. f_equal; [now apply equalLeafs_plain_eq|now apply IH].
Qed.

(** for leaves without namespaced attributes the result is the new list itself *)
Theorem leaflist_script_exact T oldE newE P s ctx e :
  Forall (leafT T) oldE -> Forall (leafT T) newE -> Forall plain_leaf oldE -> Forall plain_leaf newE ->
  valid_script equalLeafs s oldE newE = true ->
  e_children e = oldE -> located P ctx (sig_of e) ->
  exists ops, leaflist_ops P oldE newE s 0 0 = Ok ops
    /\ apply_ops ops (plug ctx e) = Some (plug ctx (set_children e newE)).
Proof.
  intros Ho Hn Hop Hnp Hv HC HL.
  destruct (leaflist_script_sound T oldE newE Ho Hn P plain_leaf Hop Hnp s ctx e Hv HC HL) as (ops & R & H1 & H2 & H3 & H4).
  exists ops. split; [exact H1|]. now rewrite <- (Forall2_plain_eq R newE H4 Hnp H3).
Qed.
