(** C11 proofs, part 6: edit scripts.  Composition of valid scripts, what the snake loops of
    diffInternal establish, and from the two the divide step: the concatenation of the scripts of
    the two recursive calls is valid whenever the indices found are in range.  (What is NOT proved
    is that the search of diffInternal finds such indices for every input - the furthest-reaching
    invariant through the modulo-indexed arrays - and the D <= 1 shortcuts.) *)
From Verif Require Import GoSem GoSemFacts Patch PatchProofsNav PatchProofsLeaf.
From Coq Require Import ZifyBool.

Lemma dropZ_nth_m {A} n (l : list A) x : 0 <= n -> nthZ n l = Some x -> dropZ n l = x :: dropZ (n + 1) l.
Proof. intros Hn H. rewrite (nthZ_dropZ n l Hn), H. reflexivity. Qed.

Section Scripts.
  Context {A : Type} (eqf : A -> A -> bool).

  Lemma list_eqb_app (a b c d : list A) : list_eqb eqf a b = true -> list_eqb eqf c d = true ->
    list_eqb eqf (a ++ c) (b ++ d) = true.
  Proof.
    revert b; induction a as [|x a IH]; intros [|y b] H1 H2; cbn [list_eqb app] in *; try discriminate; [exact H2|].
    apply andb_true_iff in H1. destruct H1 as [H0 H1]. rewrite H0. cbn [andb]. now apply IH.
  Qed.

  Lemma list_eqb_len (a b : list A) : list_eqb eqf a b = true -> lenZ a = lenZ b.
  Proof.
    revert b; induction a as [|x a IH]; intros [|y b] H; cbn [list_eqb] in H; try discriminate; [reflexivity|].
    apply andb_true_iff in H. rewrite !lenZ_cons, (IH b); [reflexivity|tauto].
  Qed.

  (** a common prefix in front of a valid script *)
  Lemma valid_from_prefix s (a b e f : list A) oi ni :
    list_eqb eqf a b = true ->
    valid_from eqf s e f (oi + lenZ a) (ni + lenZ b) = true ->
    valid_from eqf s (a ++ e) (b ++ f) oi ni = true.
  Proof.
    intros Hab H. pose proof (list_eqb_len a b Hab) as Hl.
    pose proof (lenZ_nonneg a) as Hna.
    destruct s as [|d s]; cbn [valid_from] in *.
    - now apply list_eqb_app.
    - set (k := m_old d - (oi + lenZ a)) in *.
      apply andb_true_iff in H; destruct H as [H Hrest]. apply andb_true_iff in H; destruct H as [H Hkeep].
      apply andb_true_iff in H; destruct H as [H Hkf]. apply andb_true_iff in H; destruct H as [Hk0 Hke].
      replace (m_old d - oi) with (k + lenZ a) by (unfold k; lia).
      rewrite !lenZ_app.
      replace (0 <=? k + lenZ a) with true by lia.
      replace (k + lenZ a <=? lenZ a + lenZ e) with true by lia.
      replace (k + lenZ a <=? lenZ b + lenZ f) with true by lia. cbn [andb].
      rewrite (takeZ_app_r (k + lenZ a) a e) by lia. rewrite (takeZ_app_r (k + lenZ a) b f) by lia.
      replace (k + lenZ a - lenZ a) with k by lia. replace (k + lenZ a - lenZ b) with k by lia.
      rewrite (list_eqb_app _ _ _ _ Hab Hkeep). cbn [andb].
      rewrite (dropZ_app_r (k + lenZ a) a e) by lia. rewrite (dropZ_app_r (k + lenZ a) b f) by lia.
      replace (k + lenZ a - lenZ a) with k by lia. replace (k + lenZ a - lenZ b) with k by lia.
      replace (ni + (k + lenZ a)) with (ni + lenZ b + k) by lia.
      exact Hrest.
  Qed.

  (** concatenation of valid scripts of adjacent parts *)
  Lemma valid_from_app s2 (e2 f2 : list A) : forall s1 e1 f1 oi ni,
    valid_from eqf s1 e1 f1 oi ni = true ->
    valid_from eqf s2 e2 f2 (oi + lenZ e1) (ni + lenZ f1) = true ->
    valid_from eqf (s1 ++ s2) (e1 ++ e2) (f1 ++ f2) oi ni = true.
  Proof.
    induction s1 as [|d s1 IH]; intros e1 f1 oi ni H1 H2.
    - cbn [valid_from app] in *. now apply valid_from_prefix.
    - cbn [valid_from app] in *. set (k := m_old d - oi) in *.
      apply andb_true_iff in H1; destruct H1 as [H1 Hrest]. apply andb_true_iff in H1; destruct H1 as [H1 Hkeep].
      apply andb_true_iff in H1; destruct H1 as [H1 Hkf]. apply andb_true_iff in H1; destruct H1 as [Hk0 Hke].
      pose proof (lenZ_nonneg e2). pose proof (lenZ_nonneg f2).
      rewrite !lenZ_app. rewrite Hk0.
      replace (k <=? lenZ e1 + lenZ e2) with true by lia.
      replace (k <=? lenZ f1 + lenZ f2) with true by lia. cbn [andb].
      rewrite (takeZ_app_l k e1 e2) by lia. rewrite (takeZ_app_l k f1 f2) by lia. rewrite Hkeep. cbn [andb].
      rewrite (dropZ_app_l k e1 e2) by lia. rewrite (dropZ_app_l k f1 f2) by lia.
      assert (Hle : lenZ (dropZ k e1) = lenZ e1 - k) by (rewrite lenZ_dropZ by lia; lia).
      assert (Hlf : lenZ (dropZ k f1) = lenZ f1 - k) by (rewrite lenZ_dropZ by lia; lia).
      destruct (m_kind d).
      + destruct (dropZ k e1) as [|x e''] eqn:Ed; [discriminate|]. cbn [app].
        rewrite lenZ_cons in Hle. apply IH; [exact Hrest|].
        replace (m_old d + 1 + lenZ e'') with (oi + lenZ e1) by (unfold k in *; lia).
        replace (ni + k + lenZ (dropZ k f1)) with (ni + lenZ f1) by lia. exact H2.
      + apply andb_true_iff in Hrest. destruct Hrest as [Hn Hrest]. rewrite Hn. cbn [andb].
        destruct (dropZ k f1) as [|y f''] eqn:Ed; [discriminate|]. cbn [app].
        rewrite lenZ_cons in Hlf. apply IH; [exact Hrest|].
        replace (m_old d + lenZ (dropZ k e1)) with (oi + lenZ e1) by (unfold k in *; lia).
        replace (ni + k + 1 + lenZ f'') with (ni + lenZ f1) by lia. exact H2.
  Qed.

  (** the divide step of diffInternal: [x,u) of e and [y,v) of f are equal element by element *)
  Theorem divide_valid (e f : list A) x y u v s1 s2 i j :
    0 <= x <= u -> u <= lenZ e -> 0 <= y <= v -> v <= lenZ f -> u - x = v - y ->
    list_eqb eqf (takeZ (u - x) (dropZ x e)) (takeZ (v - y) (dropZ y f)) = true ->
    valid_from eqf s1 (takeZ x e) (takeZ y f) i j = true ->
    valid_from eqf s2 (dropZ u e) (dropZ v f) (i + u) (j + v) = true ->
    valid_from eqf (s1 ++ s2) e f i j = true.
  Proof.
    intros Hx Hu Hy Hv Hd Hmid H1 H2.
    assert (He : e = takeZ x e ++ (takeZ (u - x) (dropZ x e) ++ dropZ u e)).
    { rewrite <- (takeZ_dropZ x e) at 1. f_equal. rewrite <- (takeZ_dropZ (u - x) (dropZ x e)) at 1. f_equal.
      rewrite dropZ_dropZ by lia. f_equal; lia. }
    assert (Hf : f = takeZ y f ++ (takeZ (v - y) (dropZ y f) ++ dropZ v f)).
    { rewrite <- (takeZ_dropZ y f) at 1. f_equal. rewrite <- (takeZ_dropZ (v - y) (dropZ y f)) at 1. f_equal.
      rewrite dropZ_dropZ by lia. f_equal; lia. }
    rewrite He, Hf. apply valid_from_app; [exact H1|]. apply valid_from_prefix; [exact Hmid|].
    rewrite !lenZ_takeZ, !lenZ_dropZ by lia.
    replace (i + Z.min x (lenZ e) + Z.min (u - x) (Z.max 0 (lenZ e - x))) with (i + u) by lia.
    replace (j + Z.min y (lenZ f) + Z.min (v - y) (Z.max 0 (lenZ f - y))) with (j + v) by lia.
    exact H2.
  Qed.

  (** the forward snake (o = 1, m = 1): e[a..a') and f[b..b') are equal element by element *)
  Lemma snake_fwd (e f : list A) N M : forall fuel a b a' b',
    snake eqf fuel e f N M 1 1 a b = Ok (a', b') -> 0 <= a -> 0 <= b ->
    a <= a' /\ a' - a = b' - b /\
    list_eqb eqf (takeZ (a' - a) (dropZ a e)) (takeZ (b' - b) (dropZ b f)) = true /\
    (a <= N -> a' <= N) /\ (b <= M -> b' <= M).
  Proof.
    induction fuel as [|fuel IH]; intros a b a' b' H Ha Hb; cbn [snake] in H; [discriminate|].
    assert (Hstop : forall l1 l2 : list A, list_eqb eqf (takeZ (a - a) l1) (takeZ (b - b) l2) = true).
    { intros. rewrite !takeZ_nonpos by lia. reflexivity. }
    destruct ((a <? N) && (b <? M)) eqn:Eg.
    2:{ inversion H; subst. repeat split; try lia. apply Hstop. }
    replace ((1 - 1) * N + 1 * a + (1 - 1)) with a in H by lia.
    replace ((1 - 1) * M + 1 * b + (1 - 1)) with b in H by lia.
    unfold index in H. destruct (nthZ a e) as [x|] eqn:Ex; cbn [bind] in H; [|discriminate].
    destruct (nthZ b f) as [y|] eqn:Ey; cbn [bind] in H; [|discriminate].
    destruct (eqf x y) eqn:Exy.
    2:{ inversion H; subst. repeat split; try lia. apply Hstop. }
    assert (Ha1 : 0 <= a + 1) by lia. assert (Hb1 : 0 <= b + 1) by lia.
    destruct (IH (a + 1) (b + 1) a' b' H Ha1 Hb1) as (H1 & H2 & H3 & H4 & H5).
    apply andb_true_iff in Eg. split; [lia|]. split; [lia|]. split; [|split; intros; lia].
    rewrite (dropZ_nth_m a e x Ha Ex), (dropZ_nth_m b f y Hb Ey). cbn [takeZ].
    destruct (a' - a <=? 0) eqn:E1; [lia|]. destruct (b' - b <=? 0) eqn:E2; [lia|].
    cbn [list_eqb]. rewrite Exy. cbn [andb].
    replace (a' - a - 1) with (a' - (a + 1)) by lia. replace (b' - b - 1) with (b' - (b + 1)) by lia. exact H3.
  Qed.

  Lemma nthZ_dropZ_shift (l : list A) : forall i n, 0 <= i -> 0 <= n -> nthZ n (dropZ i l) = nthZ (i + n) l.
  Proof.
    induction l as [|x l IH]; intros i n Hi Hn; cbn [dropZ nthZ]; [reflexivity|].
    destruct (i <=? 0) eqn:E.
    - assert (i = 0) by lia. subst. cbn [nthZ]. replace (0 + n) with n by lia. reflexivity.
    - rewrite IH by lia. destruct (i + n <? 0) eqn:E1; [lia|]. destruct (i + n =? 0) eqn:E2; [lia|].
      f_equal. lia.
  Qed.

  Lemma takeZ_snoc (l : list A) i n x : 0 <= i -> 0 <= n -> nthZ (i + n) l = Some x ->
    takeZ (n + 1) (dropZ i l) = takeZ n (dropZ i l) ++ [x].
  Proof.
    intros Hi Hn H. rewrite <- (nthZ_dropZ_shift l i n Hi Hn) in H.
    destruct (nthZ_split _ _ _ H) as (D & R & -> & <-).
    rewrite takeZ_app_exact. rewrite takeZ_app_r by lia. replace (lenZ D + 1 - lenZ D) with 1 by lia.
    cbn [takeZ]. destruct (1 <=? 0) eqn:E; [lia|]. now rewrite takeZ_nonpos by lia.
  Qed.

  (** the reverse snake (o = 0, m = -1): e[N-a'..N-a) and f[M-b'..M-b) are equal element by element *)
  Lemma snake_rev (e f : list A) N M : forall fuel a b a' b',
    snake eqf fuel e f N M 0 (-1) a b = Ok (a', b') -> 0 <= a -> 0 <= b ->
    a <= a' /\ a' - a = b' - b /\
    list_eqb eqf (takeZ (a' - a) (dropZ (N - a') e)) (takeZ (b' - b) (dropZ (M - b') f)) = true /\
    (a <= N -> a' <= N) /\ (b <= M -> b' <= M).
  Proof.
    induction fuel as [|fuel IH]; intros a b a' b' H Ha Hb; cbn [snake] in H; [discriminate|].
    assert (Hstop : forall l1 l2 : list A, list_eqb eqf (takeZ (a - a) l1) (takeZ (b - b) l2) = true).
    { intros. rewrite !takeZ_nonpos by lia. reflexivity. }
    destruct ((a <? N) && (b <? M)) eqn:Eg.
    2:{ inversion H; subst. repeat split; try lia. apply Hstop. }
    replace ((1 - 0) * N + -1 * a + (0 - 1)) with (N - a - 1) in H by lia.
    replace ((1 - 0) * M + -1 * b + (0 - 1)) with (M - b - 1) in H by lia.
    unfold index in H. destruct (nthZ (N - a - 1) e) as [x|] eqn:Ex; cbn [bind] in H; [|discriminate].
    destruct (nthZ (M - b - 1) f) as [y|] eqn:Ey; cbn [bind] in H; [|discriminate].
    destruct (eqf x y) eqn:Exy.
    2:{ inversion H; subst. repeat split; try lia. apply Hstop. }
    assert (Ha1 : 0 <= a + 1) by lia. assert (Hb1 : 0 <= b + 1) by lia.
    destruct (IH (a + 1) (b + 1) a' b' H Ha1 Hb1) as (H1 & H2 & H3 & H4 & H5).
    apply andb_true_iff in Eg. destruct Eg as [Eg1 Eg2].
    assert (Ha' : a' <= N) by (apply H4; lia). assert (Hb' : b' <= M) by (apply H5; lia).
    split; [lia|]. split; [lia|]. split; [|split; intros; lia].
    replace (a' - a) with (a' - (a + 1) + 1) by lia. replace (b' - b) with (b' - (b + 1) + 1) by lia.
    rewrite (takeZ_snoc e (N - a') (a' - (a + 1)) x) by (try lia; rewrite <- Ex; f_equal; lia).
    rewrite (takeZ_snoc f (M - b') (b' - (b + 1)) y) by (try lia; rewrite <- Ey; f_equal; lia).
    apply list_eqb_app; [exact H3|]. cbn [list_eqb]. now rewrite Exy.
  Qed.

  (** The divide step with a forward snake from (s,t) to (a,b): x=s, y=t, u=a, v=b in diffInternal. *)
  Theorem snakes_divide_fwd (e f : list A) fuel s t a b s1 s2 i j :
    snake eqf fuel e f (lenZ e) (lenZ f) 1 1 s t = Ok (a, b) ->
    0 <= s <= lenZ e -> 0 <= t <= lenZ f ->
    valid_from eqf s1 (takeZ s e) (takeZ t f) i j = true ->
    valid_from eqf s2 (dropZ a e) (dropZ b f) (i + a) (j + b) = true ->
    valid_from eqf (s1 ++ s2) e f i j = true.
  Proof.
    intros Hs Hsr Htr H1 H2.
    destruct (snake_fwd e f _ _ _ _ _ _ _ Hs (proj1 Hsr) (proj1 Htr)) as (A1 & A2 & A3 & A4 & A5).
    apply (divide_valid e f s t a b s1 s2 i j); try lia; assumption.
  Qed.

  (** The divide step with a reverse snake from (s,t) to (a,b): x=N-a, y=M-b, u=N-s, v=M-t. *)
  Theorem snakes_divide_rev (e f : list A) fuel s t a b s1 s2 i j :
    snake eqf fuel e f (lenZ e) (lenZ f) 0 (-1) s t = Ok (a, b) ->
    0 <= s <= lenZ e -> 0 <= t <= lenZ f ->
    valid_from eqf s1 (takeZ (lenZ e - a) e) (takeZ (lenZ f - b) f) i j = true ->
    valid_from eqf s2 (dropZ (lenZ e - s) e) (dropZ (lenZ f - t) f) (i + (lenZ e - s)) (j + (lenZ f - t)) = true ->
    valid_from eqf (s1 ++ s2) e f i j = true.
  Proof.
    intros Hs Hsr Htr H1 H2.
    destruct (snake_rev e f _ _ _ _ _ _ _ Hs (proj1 Hsr) (proj1 Htr)) as (A1 & A2 & A3 & A4 & A5).
    apply (divide_valid e f (lenZ e - a) (lenZ f - b) (lenZ e - s) (lenZ f - t) s1 s2 i j); try lia; try assumption.
    replace (lenZ e - s - (lenZ e - a)) with (a - s) by lia.
    replace (lenZ f - t - (lenZ f - b)) with (b - t) by lia. exact A3.
  Qed.
End Scripts.
