(** C11 proofs, part 8: after b1a6767 the index arrays c, d (g, p) of diffInternal are never indexed
    out of range, for any pair of lists and any equality: pyMod lies in [0, Z) for every k, and the
    arrays keep their length Z = 2*min(N,M)+2.  (Before the fix pyMod(k-1, Z) was negative for
    k-1 < -Z, which happened for len(f) >= 3*len(e)+5.) *)
From Verif Require Import GoSem GoSemFacts Patch PatchProofsNav.
From Coq Require Import ZifyBool.

Ltac Zify.zify_post_hook ::= Z.to_euclidean_division_equations.

Lemma pyMod_range x y : 0 < y -> 0 <= pyMod x y < y.
Proof. unfold pyMod. intros Hy. lia. Qed.

(** a result that is not a panic at an access to c or d *)
Definition cd_ok {B} (r : res B) : Prop := r <> Panic cd_site.

Lemma cd_ok_Ok {B} (b : B) : cd_ok (Ok b).
Proof. discriminate. Qed.
Lemma cd_ok_Err {B} e : cd_ok (@Err B e).
Proof. discriminate. Qed.

Lemma cd_bind {B C} (r : res B) (k : B -> res C) :
  cd_ok r -> (forall b, r = Ok b -> cd_ok (k b)) -> cd_ok (bind r k).
Proof.
  intros Hr Hk. destruct r as [b|e|s]; cbn [bind].
  - now apply Hk.
  - discriminate.
  - intros H. apply Hr. inversion H. reflexivity.
Qed.

Lemma aget_ok c Zz i : lenZ c = Zz -> 0 <= i < Zz -> exists v, aget c i = Ok v.
Proof.
  intros Hl Hi. unfold aget, index. destruct (nthZ_in_range i c ltac:(lia)) as (v & Hv). rewrite Hv. eauto.
Qed.

Lemma aset_ok c Zz i v : lenZ c = Zz -> 0 <= i < Zz -> exists c', aset c i v = Ok c' /\ lenZ c' = Zz.
Proof.
  intros Hl Hi. unfold aset. replace ((i <? 0) || (lenZ c <=? i)) with false by lia.
  eexists. split; [reflexivity|]. rewrite lenZ_app, lenZ_cons, lenZ_takeZ, lenZ_dropZ by lia. lia.
Qed.

Lemma index_site {B} site (l : list B) i s : index site l i = Panic s -> s = site.
Proof. unfold index. destruct (nthZ i l); intros H; inversion H; reflexivity. Qed.

Lemma ef_site_ne : "patch.diffInternal:index" <> cd_site.
Proof. discriminate. Qed.

Section Safe.
  Context {A : Type} (eqf : A -> A -> bool).

  Lemma snake_cd_ok : forall fuel e f N M o m a b, cd_ok (snake eqf fuel e f N M o m a b).
  Proof.
    induction fuel as [|fuel IH]; intros; cbn [snake]; [apply cd_ok_Err|].
    destruct ((a <? N) && (b <? M)); [|apply cd_ok_Ok].
    apply cd_bind.
    - intros H. apply index_site in H. discriminate.
    - intros x _. apply cd_bind.
      + intros H. apply index_site in H. discriminate.
      + intros y _. destruct (eqf x y); [apply IH|apply cd_ok_Ok].
  Qed.

  Lemma k_loop_safe Zz : 0 < Zz -> forall fuel e f N M L w h o m c d k kMax,
    lenZ c = Zz -> lenZ d = Zz ->
    cd_ok (k_loop eqf fuel e f N M L Zz w h o m c d k kMax) /\
    forall c', k_loop eqf fuel e f N M L Zz w h o m c d k kMax = Ok (inl c') -> lenZ c' = Zz.
  Proof.
    intros HZ. induction fuel as [|fuel IH]; intros e f N M L w h o m c d k kMax Hc Hd; cbn [k_loop].
    - split; [apply cd_ok_Err|discriminate].
    - destruct (k <? kMax); [|split; [apply cd_ok_Ok|intros c' H; inversion H as [E]; rewrite <- E; exact Hc]].
      pose proof (pyMod_range (k + 1) Zz HZ) as R1. pose proof (pyMod_range (k - 1) Zz HZ) as R2.
      pose proof (pyMod_range k Zz HZ) as R3.
      destruct (aget_ok c Zz _ Hc R1) as (v1 & E1). destruct (aget_ok c Zz _ Hc R2) as (v2 & E2).
      assert (Ea0 : exists a0,
        (if k =? - h then aget c (pyMod (k + 1) Zz)
         else if negb (k =? h) then
                do c1 <- aget c (pyMod (k - 1) Zz);
                do c2 <- aget c (pyMod (k + 1) Zz);
                if c1 <? c2 then Ok c2 else Ok (c1 + 1)
              else do c1 <- aget c (pyMod (k - 1) Zz); Ok (c1 + 1)) = Ok a0).
      { rewrite E1, E2. cbn [bind]. destruct (k =? - h); [eauto|]. destruct (negb (k =? h)); [|eauto].
        destruct (v2 <? v1); eauto. }
      destruct Ea0 as (a0 & ->). cbn [bind].
      pose proof (snake_cd_ok (S (length e)) e f N M o m a0 (a0 - k)) as Hs.
      destruct (snake eqf (S (length e)) e f N M o m a0 (a0 - k)) as [[a b]|er|s] eqn:Es; cbn [bind].
      2:{ split; [apply cd_ok_Err|discriminate]. }
      2:{ split; [intros H; apply Hs; inversion H; reflexivity|discriminate]. }
      destruct (aset_ok c Zz (pyMod k Zz) a Hc R3) as (c1 & -> & Hc1). cbn [bind].
      pose proof (pyMod_range (- (k - w)) Zz HZ) as R4.
      destruct (aget_ok c1 Zz _ Hc1 R3) as (ck & Eck). destruct (aget_ok d Zz _ Hd R4) as (dz & Edz).
      assert (Ehit : exists hit,
        (if (pyMod L 2 =? o) && (- (h - o) <=? - (k - w)) && (- (k - w) <=? h - o)
         then do ck <- aget c1 (pyMod k Zz); do dz <- aget d (pyMod (- (k - w)) Zz); Ok (N <=? ck + dz)
         else Ok false) = Ok hit).
      { destruct ((pyMod L 2 =? o) && (- (h - o) <=? - (k - w)) && (- (k - w) <=? h - o)); [|eauto].
        rewrite Eck, Edz. cbn [bind]. eauto. }
      destruct Ehit as (hit & ->). cbn [bind].
      destruct hit; [split; [apply cd_ok_Ok|discriminate]|].
      now apply IH.
  Qed.

  Lemma h_loop_safe Zz : 0 < Zz -> forall fuel kfuel e f N M L w g p h hMax,
    lenZ g = Zz -> lenZ p = Zz ->
    cd_ok (h_loop eqf fuel kfuel e f N M L Zz w g p h hMax).
  Proof.
    intros HZ. induction fuel as [|fuel IH]; intros kfuel e f N M L w g p h hMax Hg Hp; cbn [h_loop]; [apply cd_ok_Err|].
    destruct (h <? hMax); [|apply cd_ok_Ok].
    set (kMin := - (h - 2 * Z.max 0 (h - M))). set (kMax := h - 2 * Z.max 0 (h - N) + 1).
    destruct (k_loop_safe Zz HZ kfuel e f N M L w h 1 1 g p kMin kMax Hg Hp) as [S1 L1].
    apply cd_bind; [exact S1|]. intros r0 E0. destruct r0 as [g'|fd]; [|apply cd_ok_Ok].
    pose proof (L1 g' E0) as Hg'.
    destruct (k_loop_safe Zz HZ kfuel e f N M L w h 0 (-1) p g' kMin kMax Hp Hg') as [S2 L2].
    apply cd_bind; [exact S2|]. intros r1 E1. destruct r1 as [p'|fd]; [|apply cd_ok_Ok].
    apply IH; [exact Hg'|exact (L2 p' E1)].
  Qed.

  Lemma lenZ_zeros n : lenZ (zeros n) = Z.of_nat n.
  Proof. induction n as [|n IH]; [reflexivity|]. cbn [zeros]. rewrite lenZ_cons, IH. lia. Qed.

  Lemma slice_cd_ok {B} (l : list B) lo hi : cd_ok (slice l lo hi).
  Proof. unfold slice. destruct ((lo <? 0) || (hi <? lo) || (lenZ l <? hi)); discriminate. Qed.

  Lemma diffInternal_safe : forall fuel e f i j, cd_ok (diffInternal eqf fuel e f i j).
  Proof.
    induction fuel as [|fuel IH]; intros e f i j; cbn [diffInternal]; [apply cd_ok_Err|].
    set (N := lenZ e). set (M := lenZ f). set (Zz := 2 * Z.min N M + 2).
    pose proof (lenZ_nonneg e). pose proof (lenZ_nonneg f).
    destruct ((0 <? N) && (0 <? M)).
    - assert (HZ : 0 < Zz) by (unfold Zz, N, M; lia).
      assert (Hz : lenZ (zeros (Z.to_nat Zz)) = Zz) by (rewrite lenZ_zeros; lia).
      apply cd_bind; [now apply h_loop_safe|].
      intros fd _. destruct fd as [[[[[D x] y] u] v]|]; [|discriminate].
      destruct ((1 <? D) || negb (x =? u) && negb (y =? v)).
      + apply cd_bind; [apply slice_cd_ok|]. intros e1 _. apply cd_bind; [apply slice_cd_ok|]. intros f1 _.
        apply cd_bind; [apply IH|]. intros r1 _. apply cd_bind; [apply slice_cd_ok|]. intros e2 _.
        apply cd_bind; [apply slice_cd_ok|]. intros f2 _. apply cd_bind; [apply IH|]. intros r2 _. apply cd_ok_Ok.
      + destruct (N <? M); [apply cd_bind; [apply slice_cd_ok|intros; apply IH]|].
        destruct (M <? N); [apply cd_bind; [apply slice_cd_ok|intros; apply IH]|]. apply cd_ok_Ok.
    - destruct (0 <? N); apply cd_ok_Ok.
  Qed.

  (** MyersDiff never indexes c or d out of range *)
  Theorem myers_cd_safe (e f : list A) : myers eqf e f <> Panic cd_site.
  Proof. apply diffInternal_safe. Qed.
End Safe.
