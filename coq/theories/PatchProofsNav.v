(** C11 proofs, part 1: list surgery at a position, and how the applier's selectors navigate a
    document (zipper view).  A document is seen as [plug ctx e]: the element [e] in a hole whose
    surroundings are the frames [ctx] (outermost first).  [located P ctx sg] says that the selector
    path [P] leads to the hole for every hole element of signature [sg]. *)
From Verif Require Import GoSem GoSemFacts Patch.
From Coq Require Import ZifyBool.

(* ------------------------------------------------------------------------------------------ *)
(** * Lists at a position *)

Lemma nthZ_app_hit {A} (D : list A) x R : nthZ (lenZ D) (D ++ x :: R) = Some x.
Proof.
  induction D as [|d D IH]; cbn [app nthZ].
  - reflexivity.
  - rewrite lenZ_cons. pose proof (lenZ_nonneg D).
    destruct (1 + lenZ D <? 0) eqn:E1; [lia|]. destruct (1 + lenZ D =? 0) eqn:E2; [lia|].
    replace (1 + lenZ D - 1) with (lenZ D) by lia. exact IH.
Qed.

Lemma takeZ_app_exact {A} (D R : list A) : takeZ (lenZ D) (D ++ R) = D.
Proof. rewrite takeZ_app_l by lia. apply takeZ_all. lia. Qed.

Lemma dropZ_app_exact {A} (D R : list A) : dropZ (lenZ D) (D ++ R) = R.
Proof. rewrite dropZ_app_r by lia. replace (lenZ D - lenZ D) with 0 by lia. apply dropZ_0. Qed.

Lemma dropZ_app_succ {A} (D : list A) x R : dropZ (lenZ D + 1) (D ++ x :: R) = R.
Proof.
  rewrite dropZ_app_r by lia. replace (lenZ D + 1 - lenZ D) with 1 by lia.
  cbn [dropZ]. destruct (1 <=? 0) eqn:E; [lia|]. apply dropZ_0.
Qed.

Lemma replace_nth_app {A} (D : list A) x y R : replace_nth (lenZ D) y (D ++ x :: R) = D ++ y :: R.
Proof. unfold replace_nth. now rewrite takeZ_app_exact, dropZ_app_succ. Qed.

Lemma remove_nth_app {A} (D : list A) x R : remove_nth (lenZ D) (D ++ x :: R) = D ++ R.
Proof. unfold remove_nth. now rewrite takeZ_app_exact, dropZ_app_succ. Qed.

Lemma insert_at_app {A} (D : list A) y R : insert_at (lenZ D) y (D ++ R) = D ++ y :: R.
Proof. unfold insert_at. now rewrite takeZ_app_exact, dropZ_app_exact. Qed.

Lemma nthZ_split {A} i (l : list A) x : nthZ i l = Some x ->
  exists D R, l = D ++ x :: R /\ lenZ D = i.
Proof.
  revert i; induction l as [|a l IH]; intros i H; cbn [nthZ] in H; [discriminate|].
  destruct (i <? 0) eqn:E1; [discriminate|]. destruct (i =? 0) eqn:E2.
  - inversion H; subst. exists [], l. split; [reflexivity|]. rewrite lenZ_nil. lia.
  - destruct (IH _ H) as (D & R & -> & HL). exists (a :: D), R. split; [reflexivity|].
    rewrite lenZ_cons. lia.
Qed.

Lemma nthZ_Some_range {A} i (l : list A) x : nthZ i l = Some x -> 0 <= i < lenZ l.
Proof.
  intros H. destruct (nthZ_split _ _ _ H) as (D & R & -> & <-).
  rewrite lenZ_app, lenZ_cons. pose proof (lenZ_nonneg D). pose proof (lenZ_nonneg R). lia.
Qed.

Lemma nthZ_in_range {A} i (l : list A) : 0 <= i < lenZ l -> exists x, nthZ i l = Some x.
Proof.
  revert i; induction l as [|a l IH]; intros i H.
  - unfold lenZ in H; cbn [length] in H; lia.
  - rewrite lenZ_cons in H. cbn [nthZ]. destruct (i <? 0) eqn:E1; [lia|].
    destruct (i =? 0) eqn:E2; [eauto|]. apply IH. lia.
Qed.

Lemma nthZ_dropZ {A} i (l : list A) : 0 <= i ->
  dropZ i l = match nthZ i l with Some x => x :: dropZ (i + 1) l | None => [] end.
Proof.
  revert i; induction l as [|a l IH]; intros i H; cbn [dropZ nthZ]; [reflexivity|].
  destruct (i <=? 0) eqn:E0.
  - assert (i = 0) by lia. subst. cbn. now rewrite dropZ_0.
  - destruct (i <? 0) eqn:E1; [lia|]. destruct (i =? 0) eqn:E2; [lia|].
    destruct (i + 1 <=? 0) eqn:E3; [lia|]. rewrite IH by lia.
    replace (i - 1 + 1) with (i + 1 - 1) by lia. reflexivity.
Qed.

Lemma index_Ok {A} site (l : list A) i x : index site l i = Ok x <-> nthZ i l = Some x.
Proof. unfold index. destruct (nthZ i l); split; intros H; inversion H; reflexivity. Qed.

(* ------------------------------------------------------------------------------------------ *)
(** * Signatures and selector steps *)

Definition sig := (string * list attr)%type.

Lemma seqb_eq a b : seqb a b = true <-> a = b.
Proof. unfold seqb. apply String.eqb_eq. Qed.
Lemma seqb_refl a : seqb a a = true.
Proof. apply seqb_eq; reflexivity. Qed.
Lemma seqb_neq a b : seqb a b = false <-> a <> b.
Proof. unfold seqb. apply String.eqb_neq. Qed.

(** the steps [calcAddr] can produce only test the attributes id and schemeIdUri *)
Definition addr_step (st : step) : Prop :=
  match st_pred st with PAttr n _ => n = "id" \/ n = "schemeIdUri" | _ => True end.

Definition aval (k : string) (l : list attr) : option string := option_map a_val (select_attr k l).

(** two signatures that no [addr_step] can tell apart *)
Definition sig_compat (s1 s2 : sig) : Prop :=
  fst s1 = fst s2 /\ aval "id" (snd s1) = aval "id" (snd s2) /\ aval "schemeIdUri" (snd s1) = aval "schemeIdUri" (snd s2).

Lemma sig_compat_refl s : sig_compat s s.
Proof. repeat split. Qed.
Lemma sig_compat_sym s1 s2 : sig_compat s1 s2 -> sig_compat s2 s1.
Proof. intros (A & B & C); repeat split; congruence. Qed.
Lemma sig_compat_trans s1 s2 s3 : sig_compat s1 s2 -> sig_compat s2 s3 -> sig_compat s1 s3.
Proof. intros (A & B & C) (A' & B' & C'); repeat split; congruence. Qed.

Lemma step_match_compat st s1 s2 : addr_step st -> sig_compat s1 s2 -> step_match st s1 = step_match st s2.
Proof.
  intros HA (Ht & Hi & Hs). unfold step_match. rewrite Ht. f_equal.
  unfold addr_step in HA. destruct (st_pred st) as [|n v|k]; try reflexivity.
  unfold aval in *. destruct HA as [-> | ->].
  - destruct (select_attr "id" (snd s1)), (select_attr "id" (snd s2)); cbn in Hi; try congruence; reflexivity.
  - destruct (select_attr "schemeIdUri" (snd s1)), (select_attr "schemeIdUri" (snd s2)); cbn in Hs; try congruence; reflexivity.
Qed.

Lemma match_idx_compat st A s1 s2 B i : addr_step st -> sig_compat s1 s2 ->
  match_idx st (A ++ s1 :: B) i = match_idx st (A ++ s2 :: B) i.
Proof.
  intros HA HC. revert i; induction A as [|a A IH]; intros i; cbn [app match_idx].
  - now rewrite (step_match_compat st s1 s2 HA HC).
  - now rewrite IH.
Qed.

Lemma find_sig_compat st A s1 s2 B : addr_step st -> sig_compat s1 s2 ->
  find_sig st (A ++ s1 :: B) = find_sig st (A ++ s2 :: B).
Proof. intros HA HC. unfold find_sig. now rewrite (match_idx_compat st A s1 s2 B 0 HA HC). Qed.

(* ------------------------------------------------------------------------------------------ *)
(** * Frames, plugging, location *)

Record frame := mkFrame { f_tag : string; f_attrs : list attr; f_text : string; f_left : list elem; f_right : list elem }.

Fixpoint plug (ctx : list frame) (e : elem) : elem :=
  match ctx with
  | [] => e
  | fr :: ctx' => Elem (f_tag fr) (f_attrs fr) (f_text fr) (f_left fr ++ plug ctx' e :: f_right fr)
  end.

(** signature of what sits in the hole of the first frame: the next frame, or the hole element *)
Definition hsig (ctx : list frame) (sg : sig) : sig :=
  match ctx with [] => sg | fr :: _ => (f_tag fr, f_attrs fr) end.

Lemma sig_of_plug ctx e : sig_of (plug ctx e) = hsig ctx (sig_of e).
Proof. destruct ctx; reflexivity. Qed.

Fixpoint frames_ok (p : path) (ctx : list frame) (sg : sig) : Prop :=
  match p, ctx with
  | [], [] => True
  | st :: p', fr :: ctx' =>
    find_sig st (map sig_of (f_left fr) ++ hsig ctx' sg :: map sig_of (f_right fr)) = Some (lenZ (f_left fr))
    /\ frames_ok p' ctx' sg
  | _, _ => False
  end.

Definition root_match_sig (st : step) (sg : sig) : bool :=
  match st_pred st with PIdx k => (k =? 1) && seqb (fst sg) (st_tag st) | _ => step_match st sg end.

Lemma root_match_is st root : root_match st root = root_match_sig st (sig_of root).
Proof. reflexivity. Qed.

(** the selector [P] (root step first) leads to the hole of [ctx] when the hole has signature [sg] *)
Definition located (P : path) (ctx : list frame) (sg : sig) : Prop :=
  match P with
  | [] => False
  | r :: pp => root_match_sig r (hsig ctx sg) = true /\ frames_ok pp ctx sg
  end.

Lemma frames_ok_length p ctx sg : frames_ok p ctx sg -> length p = length ctx.
Proof.
  revert ctx; induction p as [|st p IH]; intros [|fr ctx] H; cbn in *; try tauto.
  destruct H as [_ H]. now rewrite (IH _ H).
Qed.

Lemma upd_path_plug p : forall ctx e f, frames_ok p ctx (sig_of e) ->
  upd_path p f (plug ctx e) = obind (f e) (fun e' => Some (plug ctx e')).
Proof.
  induction p as [|st p IH]; intros [|fr ctx] e f H; cbn [frames_ok] in H; try tauto.
  - cbn [upd_path plug]. destruct (f e); reflexivity.
  - destruct H as [Hf H]. cbn [upd_path plug e_children].
    assert (HF : find_child st (f_left fr ++ plug ctx e :: f_right fr) = Some (lenZ (f_left fr))).
    { unfold find_child. rewrite map_app. cbn [map]. rewrite sig_of_plug. exact Hf. }
    rewrite HF. cbn [obind]. rewrite nthZ_app_hit. cbn [obind]. rewrite (IH ctx e f H).
    destruct (f e) as [e'|]; cbn [obind]; [|reflexivity].
    unfold set_children. cbn [e_tag e_attrs e_text e_children]. now rewrite replace_nth_app.
Qed.

Lemma frames_ok_compat p : forall ctx s1 s2, Forall addr_step p -> sig_compat s1 s2 ->
  frames_ok p ctx s1 -> frames_ok p ctx s2.
Proof.
  induction p as [|st p IH]; intros [|fr ctx] s1 s2 HA HC H; cbn [frames_ok] in *; try tauto.
  destruct H as [Hf H]. inversion HA; subst. split; [|eapply IH; eauto].
  destruct ctx as [|fr' ctx]; cbn [hsig] in *; [|exact Hf].
  rewrite <- Hf. symmetry. now apply find_sig_compat.
Qed.

Lemma root_match_sig_compat r s1 s2 : addr_step r -> sig_compat s1 s2 -> root_match_sig r s1 = root_match_sig r s2.
Proof.
  intros HA HC. unfold root_match_sig. destruct (st_pred r) eqn:E.
  - now apply step_match_compat.
  - now apply step_match_compat.
  - destruct HC as (-> & _). reflexivity.
Qed.

Lemma located_compat P ctx s1 s2 : Forall addr_step P -> sig_compat s1 s2 -> located P ctx s1 -> located P ctx s2.
Proof.
  destruct P as [|r pp]; cbn [located]; [tauto|]. intros HA HC [Hr Hf]. inversion HA; subst. split.
  - destruct ctx; cbn [hsig] in *; [|exact Hr]. now rewrite <- (root_match_sig_compat r s1 s2).
  - eapply frames_ok_compat; eauto.
Qed.

(** operations on the located element *)
Lemma at_elem_located P ctx e f : located P ctx (sig_of e) ->
  at_elem P f (plug ctx e) = obind (f e) (fun e' => Some (plug ctx e')).
Proof.
  destruct P as [|r pp]; cbn [located]; [tauto|]. intros [Hr Hf]. unfold at_elem.
  rewrite root_match_is, sig_of_plug, Hr. now apply upd_path_plug.
Qed.

Lemma split_last_snoc {A} (l : list A) x : split_last (l ++ [x]) = Some (l, x).
Proof.
  induction l as [|a l IH]; cbn [app split_last]; [reflexivity|].
  rewrite IH. destruct (l ++ [x]) eqn:E; [destruct l; discriminate|reflexivity].
Qed.

(** operations on the children of the located element, selected by one more step *)
Lemma at_parent_located P ctx e last g : located P ctx (sig_of e) ->
  at_parent (P ++ [last]) g (plug ctx e) =
  obind (g last (e_children e)) (fun cs => Some (plug ctx (set_children e cs))).
Proof.
  destruct P as [|r pp]; cbn [located]; [tauto|]. intros [Hr Hf]. unfold at_parent. cbn [app].
  rewrite root_match_is, sig_of_plug, Hr, split_last_snoc.
  rewrite (upd_path_plug pp ctx e _ Hf). destruct (g last (e_children e)); reflexivity.
Qed.

(** going down one level *)
Definition frame_of (e : elem) (L R : list elem) : frame := mkFrame (e_tag e) (e_attrs e) (e_text e) L R.

Lemma plug_snoc ctx fr c : plug (ctx ++ [fr]) c = plug ctx (Elem (f_tag fr) (f_attrs fr) (f_text fr) (f_left fr ++ c :: f_right fr)).
Proof. induction ctx as [|f0 ctx IH]; cbn [app plug]; [reflexivity|now rewrite IH]. Qed.

Lemma hsig_snoc ctx fr sg : hsig (ctx ++ [fr]) sg = hsig ctx (f_tag fr, f_attrs fr).
Proof. destruct ctx; reflexivity. Qed.

Lemma frames_ok_snoc p : forall ctx st fr sg,
  frames_ok p ctx (f_tag fr, f_attrs fr) ->
  find_sig st (map sig_of (f_left fr) ++ sg :: map sig_of (f_right fr)) = Some (lenZ (f_left fr)) ->
  frames_ok (p ++ [st]) (ctx ++ [fr]) sg.
Proof.
  induction p as [|s0 p IH]; intros [|f0 ctx] st fr sg H Hf; cbn [frames_ok app] in *; try tauto.
  destruct H as [H0 H]. split; [|now apply IH]. now rewrite hsig_snoc.
Qed.

Lemma located_down P ctx e L c R st :
  located P ctx (sig_of e) -> e_children e = L ++ c :: R ->
  find_child st (L ++ c :: R) = Some (lenZ L) ->
  located (P ++ [st]) (ctx ++ [frame_of e L R]) (sig_of c)
  /\ plug (ctx ++ [frame_of e L R]) c = plug ctx e.
Proof.
  intros HL HC HF. split.
  - destruct P as [|r pp]; cbn [located] in *; [tauto|]. destruct HL as [Hr Hf]. cbn [app]. split.
    + now rewrite hsig_snoc.
    + apply frames_ok_snoc; [exact Hf|]. cbn [frame_of f_left f_right].
      unfold find_child in HF. rewrite map_app in HF. exact HF.
  - rewrite plug_snoc. cbn [frame_of f_tag f_attrs f_text f_left f_right]. rewrite <- HC. now destruct e.
Qed.

(** sequencing *)
Lemma apply_ops_app a b r : apply_ops (a ++ b) r = obind (apply_ops a r) (apply_ops b).
Proof.
  revert r; induction a as [|o a IH]; intros r; cbn [app apply_ops obind]; [reflexivity|].
  destruct (apply_op o r); cbn [obind]; [apply IH|reflexivity].
Qed.

(** going up one level: the selector of the parent, and the last step *)
Lemma frames_ok_unsnoc p : forall ctx st fr sg,
  frames_ok (p ++ [st]) (ctx ++ [fr]) sg ->
  frames_ok p ctx (f_tag fr, f_attrs fr) /\
  find_sig st (map sig_of (f_left fr) ++ sg :: map sig_of (f_right fr)) = Some (lenZ (f_left fr)).
Proof.
  induction p as [|s0 p IH]; intros [|f0 ctx] st fr sg H; cbn [app frames_ok] in H.
  - destruct H as [H _]. cbn [hsig] in H. split; [exact I|exact H].
  - destruct H as [_ H]. destruct ctx; cbn in H; contradiction.
  - destruct H as [_ H]. destruct p; cbn in H; contradiction.
  - destruct H as [H0 H]. destruct (IH ctx st fr sg H) as [H1 H2]. split; [|exact H2].
    cbn [frames_ok]. split; [|exact H1]. now rewrite hsig_snoc in H0.
Qed.

Lemma rev_case {A} (l : list A) : l = [] \/ exists l' x, l = l' ++ [x].
Proof. induction l using rev_ind; [now left|right; eauto]. Qed.

Lemma replace_located P ctx e x : located P ctx (sig_of e) ->
  apply_op (OReplace P x) (plug ctx e) = Some (plug ctx x).
Proof.
  destruct P as [|r pp]; cbn [located]; [tauto|]. intros [Hr Hf].
  destruct (rev_case ctx) as [->|(ctx0 & fr & ->)].
  - destruct pp; [|cbn in Hf; contradiction]. cbn [apply_op plug]. cbn [hsig] in Hr.
    now rewrite root_match_is, Hr.
  - destruct (rev_case pp) as [->|(pp0 & st & ->)].
    { apply frames_ok_length in Hf. rewrite app_length in Hf. cbn in Hf. lia. }
    destruct (frames_ok_unsnoc pp0 ctx0 st fr (sig_of e) Hf) as [Hf0 Hsel].
    assert (HL0 : located (r :: pp0) ctx0 (f_tag fr, f_attrs fr)).
    { cbn [located]. split; [|exact Hf0]. now rewrite hsig_snoc in Hr. }
    set (par := Elem (f_tag fr) (f_attrs fr) (f_text fr) (f_left fr ++ e :: f_right fr)).
    assert (Hpl : forall y, plug (ctx0 ++ [fr]) y = plug ctx0 (Elem (f_tag fr) (f_attrs fr) (f_text fr) (f_left fr ++ y :: f_right fr))).
    { intros y. apply plug_snoc. }
    assert (Hfc : find_child st (f_left fr ++ e :: f_right fr) = Some (lenZ (f_left fr))).
    { unfold find_child. rewrite map_app. cbn [map]. exact Hsel. }
    cbn [apply_op]. change (r :: pp0 ++ [st]) with ((r :: pp0) ++ [st]).
    destruct pp0 as [|s1 pp1]; cbn [app];
      [change [r; st] with ([r] ++ [st])|change (r :: s1 :: pp1 ++ [st]) with ((r :: s1 :: pp1) ++ [st])];
      rewrite (Hpl e); fold par.
    + rewrite (at_parent_located [r] ctx0 par st _ HL0). unfold par at 1. cbn [e_children].
      rewrite Hfc. cbn [obind]. unfold par. cbn [e_children set_children e_tag e_attrs e_text].
      rewrite replace_nth_app. now rewrite Hpl.
    + rewrite (at_parent_located (r :: s1 :: pp1) ctx0 par st _ HL0). unfold par at 1. cbn [e_children].
      rewrite Hfc. cbn [obind]. unfold par. cbn [e_children set_children e_tag e_attrs e_text].
      rewrite replace_nth_app. now rewrite Hpl.
Qed.
