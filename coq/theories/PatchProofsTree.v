(** C11 proofs, part 4: addElemChanges.  [tree_ok] is the (checkable) premise: attribute keys
    unique, list scripts valid, and every address the walk computes (calcAddr with its
    lastNewIdx / oldIdx index) resolves, in the document as it is at that moment, to the node the
    walk means.  Under it the operations, applied in order, turn [old] into a document equivalent
    to [new] (attribute order aside) - for every differ, every depth, at any place in a document. *)
From Verif Require Import GoSem GoSemFacts Patch PatchProofsNav PatchProofsLeaf PatchProofsAttr.
From Coq Require Import ZifyBool Permutation.

(* ------------------------------------------------------------------------------------------ *)
(** * Equivalence of documents: attributes as sets *)

Inductive equiv : elem -> elem -> Prop :=
| equiv_intro t a1 a2 x c1 c2 : Permutation a1 a2 -> Forall2 equiv c1 c2 -> equiv (Elem t a1 x c1) (Elem t a2 x c2).

Fixpoint equiv_refl (e : elem) : equiv e e :=
  match e with
  | Elem t a x cs =>
    equiv_intro t a a x cs cs (Permutation_refl a)
      ((fix go (l : list elem) : Forall2 equiv l l :=
          match l with [] => Forall2_nil _ | c :: r => Forall2_cons c c (equiv_refl c) (go r) end) cs)
  end.

(** equivalent, and indistinguishable for the selectors calcAddr produces *)
Definition sim (a b : elem) : Prop := equiv a b /\ sig_compat (sig_of a) (sig_of b).
Definition sims : list elem -> list elem -> Prop := Forall2 sim.

Lemma sim_refl a : sim a a.
Proof. split; [apply equiv_refl|apply sig_compat_refl]. Qed.
Lemma sims_refl l : sims l l.
Proof. induction l; constructor; auto using sim_refl. Qed.

Definition sigs (l : list elem) : list sig := map sig_of l.

Lemma find_sig_compat_list st : addr_step st -> forall A A' B, Forall2 sig_compat A A' ->
  find_sig st (A ++ B) = find_sig st (A' ++ B).
Proof.
  intros Hst A A' B H. unfold find_sig.
  assert (E : forall i, match_idx st (A ++ B) i = match_idx st (A' ++ B) i).
  { induction H as [|a a' A A' Ha _ IH]; intros i; cbn [app match_idx]; [reflexivity|].
    rewrite (step_match_compat st a a' Hst Ha). now rewrite IH. }
  now rewrite E.
Qed.

Lemma sims_sigs N M : sims N M -> Forall2 sig_compat (sigs N) (sigs M).
Proof. induction 1 as [|a b N M [_ H] _ IH]; cbn; constructor; auto. Qed.

Lemma sims_length N M : sims N M -> lenZ N = lenZ M.
Proof. induction 1; [reflexivity|]. rewrite !lenZ_cons. lia. Qed.

Lemma calcAddr_addr_step e k : addr_step (calcAddr e k).
Proof.
  unfold calcAddr, addr_step.
  destruct (negb (seqb (getAttrValue e "id") "")); cbn; [now left|].
  destruct (negb (seqb (getAttrValue e "schemeIdUri") "")); cbn; [now right|].
  destruct (seqb (e_tag e) "SegmentTimeline" || seqb (e_tag e) "SegmentTemplate"); cbn; exact I.
Qed.

(* ------------------------------------------------------------------------------------------ *)
(** * lastNewIdx *)

Definition cnt_of (t : string) (l : list elem) : Z := lenZ (filter (fun c => seqb (e_tag c) t) l).

Lemma cnt_get_incr m t t' : cnt_get (cnt_incr m t) t' = cnt_get m t' + (if seqb t t' then 1 else 0).
Proof.
  induction m as [|[k v] m IH]; cbn [cnt_incr cnt_get].
  - destruct (seqb t t'); lia.
  - destruct (seqb k t) eqn:E; cbn [cnt_get].
    + apply seqb_eq in E. subst k. destruct (seqb t t'); lia.
    + destruct (seqb k t') eqn:E2; [|exact IH].
      apply seqb_eq in E2. subst k. rewrite (seqb_sym t t'), E. lia.
Qed.

Lemma cnt_of_snoc t l x : cnt_of t (l ++ [x]) = cnt_of t l + (if seqb (e_tag x) t then 1 else 0).
Proof.
  unfold cnt_of. rewrite filter_app, lenZ_app. cbn [filter]. destruct (seqb (e_tag x) t); [rewrite lenZ_cons, lenZ_nil|rewrite lenZ_nil]; lia.
Qed.

Lemma takeZ_succ {A} n (l : list A) x : 0 <= n -> nthZ n l = Some x -> takeZ (n + 1) l = takeZ n l ++ [x].
Proof.
  intros Hn H. destruct (nthZ_split _ _ _ H) as (D & R & -> & <-).
  rewrite takeZ_app_exact. rewrite takeZ_app_r by lia. replace (lenZ D + 1 - lenZ D) with 1 by lia.
  cbn [takeZ]. destruct (1 <=? 0) eqn:E; [lia|]. now rewrite takeZ_nonpos by lia.
Qed.

Lemma dropZ_nth {A} n (l : list A) x : 0 <= n -> nthZ n l = Some x -> dropZ n l = x :: dropZ (n + 1) l.
Proof. intros Hn H. rewrite (nthZ_dropZ n l Hn), H. reflexivity. Qed.

(* ------------------------------------------------------------------------------------------ *)
(** * The premise, following the loop of addElemChanges *)

Section LoopOk.
  Variable REC : elem -> elem -> Prop.
  Variables oc nc : list elem.

  (** the children of the element while the loop is at (oldIdx, newIdx) = (oi, ni) *)
  Definition cur_sigs (oi ni : Z) : list sig := sigs (takeZ ni nc) ++ sigs (dropZ oi oc).
  Definition keep_addr (oe : elem) (ni : Z) : step := calcAddr oe (cnt_of (e_tag oe) (takeZ ni nc)).

  Fixpoint keeps_ok (n : nat) (oi ni : Z) : Prop :=
    match n with
    | O => True
    | S n' =>
      match nthZ oi oc, nthZ ni nc with
      | Some oe, Some ne =>
        find_sig (keep_addr oe ni) (cur_sigs oi ni) = Some ni /\
        sig_compat (sig_of oe) (sig_of ne) /\ REC oe ne /\ keeps_ok n' (oi + 1) (ni + 1)
      | _, _ => False
      end
    end.

  Fixpoint keeps_last (n : nat) (oi ni : Z) (last : option step) : option step :=
    match n with
    | O => last
    | S n' => keeps_last n' (oi + 1) (ni + 1)
                (match nthZ oi oc with Some oe => Some (keep_addr oe ni) | None => last end)
    end.

  Fixpoint loop_ok (s : list mop) (oi ni : Z) (last : option step) : Prop :=
    match s with
    | [] => keeps_ok (Z.to_nat (lenZ oc - oi)) oi ni
    | d :: s' =>
      let k := m_old d - oi in
      let n := Z.to_nat k in
      let last1 := keeps_last n oi ni last in
      let oi1 := oi + k in
      let ni1 := ni + k in
      keeps_ok n oi ni /\
      match m_kind d with
      | KDel =>
        match nthZ oi1 oc with
        | Some oe => find_sig (keep_addr oe ni1) (cur_sigs oi1 ni1) = Some ni1 /\ loop_ok s' (oi1 + 1) ni1 last1
        | None => False
        end
      | KIns =>
        match nthZ ni1 nc with
        | Some ne =>
          match last1 with
          | None => ni1 = 0
          | Some sl => find_sig sl (cur_sigs oi1 ni1) = Some (ni1 - 1)
          end /\ loop_ok s' oi1 (ni1 + 1) (Some (keep_addr ne ni1))
        | None => False
        end
      end
    end.
End LoopOk.

Definition mandatory_id (e : elem) : Prop := checkMandatoryIdAttribute e = Ok tt.

Definition same_addr_attrs (a b : list attr) : Prop :=
  aval "id" a = aval "id" b /\ aval "schemeIdUri" a = aval "schemeIdUri" b.

Section TreeOk.
  Variable diff : differ.

  Definition stl_ok (old new : elem) : Prop :=
    e_text old = e_text new /\ attrs_ok (e_attrs old) (e_attrs new) /\
    same_addr_attrs (e_attrs old) (e_attrs new) /\
    (exists T, Forall (leafT T) (e_children old) /\ Forall (leafT T) (e_children new)) /\
    Forall plain_leaf (e_children old) /\ Forall plain_leaf (e_children new) /\
    match e_children old, e_children new with
    | [], [] => True
    | oldE, newE => exists s, diff equalLeafs oldE newE = Ok s /\ valid_script equalLeafs s oldE newE = true
    end.

  Definition leaf_pair_ok (old new : elem) : Prop :=
    if negb (seqb (e_text old) (e_text new)) then True
    else attrs_ok (e_attrs old) (e_attrs new) /\ same_addr_attrs (e_attrs old) (e_attrs new).

  Fixpoint tree_ok (fuel : nat) (old new : elem) : Prop :=
    match fuel with
    | O => False
    | S f =>
      e_tag old = e_tag new /\ mandatory_id old /\ mandatory_id new /\
      if seqb (e_tag old) "SegmentTimeline" then stl_ok old new
      else if isLeaf old && isLeaf new then leaf_pair_ok old new
      else
        e_text old = e_text new /\ attrs_ok (e_attrs old) (e_attrs new) /\
        same_addr_attrs (e_attrs old) (e_attrs new) /\
        exists s, diff sameElements (e_children old) (e_children new) = Ok s /\
                  valid_script sameElements s (e_children old) (e_children new) = true /\
                  loop_ok (tree_ok f) (e_children old) (e_children new) s 0 0 None
    end.
End TreeOk.

(* ------------------------------------------------------------------------------------------ *)
(** * Soundness of the children loop *)

Section LoopSound.
  Variable rec : elem -> elem -> path -> res (list op).
  Variable REC : elem -> elem -> Prop.
  Hypothesis REC_sound : forall oe ne P' ctx',
    REC oe ne -> Forall addr_step P' -> located P' ctx' (sig_of oe) ->
    exists ops ne', rec oe ne P' = Ok ops /\ apply_ops ops (plug ctx' oe) = Some (plug ctx' ne') /\ sim ne' ne.
  Variables oc nc : list elem.
  Variable P : path.
  Hypothesis HP : Forall addr_step P.

  Definition st_inv (st : estate) (oi ni : Z) (last : option step) : Prop :=
    es_old st = oi /\ es_new st = ni /\ es_lastPath st = option_map (fun s => P ++ [s]) last /\
    (forall t, cnt_get (es_cnt st) t = cnt_of t (takeZ ni nc)) /\
    (forall s, last = Some s -> addr_step s).

  Lemma resolve_cur st oi ni N' i : addr_step st -> sims N' (takeZ ni nc) ->
    find_sig st (cur_sigs oc nc oi ni) = Some i -> find_child st (N' ++ dropZ oi oc) = Some i.
  Proof.
    intros Hst HN H. unfold find_child. rewrite map_app. unfold cur_sigs in H.
    rewrite (find_sig_compat_list st Hst (map sig_of N') (sigs (takeZ ni nc)) _ (sims_sigs _ _ HN)). exact H.
  Qed.

  Lemma keeps_sound : forall n oi ni last st N' ctx e,
    keeps_ok REC oc nc n oi ni -> st_inv st oi ni last -> 0 <= oi -> 0 <= ni ->
    lenZ N' = ni -> sims N' (takeZ ni nc) ->
    e_children e = N' ++ dropZ oi oc -> located P ctx (sig_of e) ->
    exists ops st' Nk,
      keep_n rec n oc nc P st = Ok (ops, st') /\
      apply_ops ops (plug ctx e) = Some (plug ctx (set_children e (N' ++ Nk ++ dropZ (oi + Z.of_nat n) oc))) /\
      sims (N' ++ Nk) (takeZ (ni + Z.of_nat n) nc) /\ lenZ Nk = Z.of_nat n /\
      st_inv st' (oi + Z.of_nat n) (ni + Z.of_nat n) (keeps_last oc nc n oi ni last).
  Proof.
    induction n as [|n IH]; intros oi ni last st N' ctx e HK HI Hoi Hni HlN HN HC HL.
    - exists [], st, []. cbn [keep_n keeps_last apply_ops app Z.of_nat]. rewrite !Z.add_0_r, app_nil_r.
      split; [reflexivity|]. split; [rewrite <- HC; now destruct e|]. split; [exact HN|]. split; [reflexivity|exact HI].
    - cbn [keeps_ok] in HK. destruct (nthZ oi oc) as [oe|] eqn:Eo; [|contradiction].
      destruct (nthZ ni nc) as [ne|] eqn:En; [|contradiction].
      destruct HK as (Hres & Hcompat & Hrec & HK).
      destruct HI as (Io & In' & Il & Ic & Ia).
      cbn [keep_n]. rewrite Io, In'. unfold index. rewrite Eo, En. cbn [bind].
      rewrite Ic. fold (keep_addr nc oe ni). set (addr := keep_addr nc oe ni) in *.
      assert (Hast : addr_step addr) by apply calcAddr_addr_step.
      rewrite (dropZ_nth oi oc oe Hoi Eo) in HC.
      assert (Hfc : find_child addr (N' ++ oe :: dropZ (oi + 1) oc) = Some (lenZ N')).
      { rewrite <- (dropZ_nth oi oc oe Hoi Eo). rewrite HlN. eapply resolve_cur; eauto. }
      destruct (located_down P ctx e N' oe (dropZ (oi + 1) oc) addr HL HC Hfc) as [HLd Hplug].
      assert (HPd : Forall addr_step (P ++ [addr])).
      { apply Forall_app. split; [exact HP|constructor; [exact Hast|constructor]]. }
      destruct (REC_sound oe ne (P ++ [addr]) _ Hrec HPd HLd) as (ops1 & ne' & Hops1 & Happ1 & Hsim).
      rewrite Hops1. cbn [bind].
      set (st1 := mkES (oi + 1) (ni + 1) (Some (P ++ [addr])) (cnt_incr (es_cnt st) (e_tag oe))).
      set (e1 := set_children e ((N' ++ [ne']) ++ dropZ (oi + 1) oc)).
      assert (Htag : e_tag oe = e_tag ne) by (destruct Hcompat as [Ht _]; exact Ht).
      destruct (IH (oi + 1) (ni + 1) (Some addr) st1 (N' ++ [ne']) ctx e1) as (ops2 & st' & Nk & Hk2 & Happ2 & HN2 & HlNk & HI2).
      + exact HK.
      + unfold st1, st_inv. cbn [es_old es_new es_lastPath es_cnt option_map]. repeat split; auto.
        * intros t. rewrite cnt_get_incr, Ic, (takeZ_succ ni nc ne Hni En), cnt_of_snoc, Htag. reflexivity.
        * intros s0 Hs0. inversion Hs0; subst. exact Hast.
      + lia.
      + lia.
      + rewrite lenZ_app, lenZ_cons, lenZ_nil. lia.
      + rewrite (takeZ_succ ni nc ne Hni En). apply Forall2_app; [exact HN|]. constructor; [exact Hsim|constructor].
      + reflexivity.
      + exact HL.
      + rewrite Hk2. cbn [bind fst snd].
        exists (ops1 ++ ops2), st', (ne' :: Nk). split; [reflexivity|]. split; [|split; [|split]].
        * rewrite apply_ops_app. rewrite <- Hplug, Happ1. cbn [obind].
          rewrite plug_snoc. cbn [frame_of f_tag f_attrs f_text f_left f_right].
          replace (Elem (e_tag e) (e_attrs e) (e_text e) (N' ++ ne' :: dropZ (oi + 1) oc)) with e1.
          2:{ unfold e1, set_children. now rewrite <- app_assoc. }
          rewrite Happ2. unfold e1. rewrite set_children_twice. do 3 f_equal.
          replace (oi + Z.of_nat (S n)) with (oi + 1 + Z.of_nat n) by lia.
          rewrite <- !app_assoc. reflexivity.
        * replace (ni + Z.of_nat (S n)) with (ni + 1 + Z.of_nat n) by lia.
          rewrite <- app_assoc in HN2. exact HN2.
        * rewrite lenZ_cons. lia.
        * replace (oi + Z.of_nat (S n)) with (oi + 1 + Z.of_nat n) by lia.
          replace (ni + Z.of_nat (S n)) with (ni + 1 + Z.of_nat n) by lia.
          cbn [keeps_last]. rewrite Eo. exact HI2.
  Qed.

  Lemma list_eqb_length {A B} (f : A -> B -> bool) a b : list_eqb f a b = true -> lenZ a = lenZ b.
  Proof.
    revert b; induction a as [|x a IH]; intros [|y b] H; cbn [list_eqb] in H; try discriminate; [reflexivity|].
    apply andb_true_iff in H. rewrite !lenZ_cons, (IH b); [reflexivity|tauto].
  Qed.

  Lemma loop_sound : forall s oi ni last st N' ctx e,
    loop_ok REC oc nc s oi ni last ->
    valid_from sameElements s (dropZ oi oc) (dropZ ni nc) oi ni = true ->
    st_inv st oi ni last -> 0 <= oi -> 0 <= ni ->
    lenZ N' = ni -> sims N' (takeZ ni nc) ->
    e_children e = N' ++ dropZ oi oc -> located P ctx (sig_of e) ->
    exists ops Rr,
      children_loop rec s oc nc P st = Ok ops /\
      apply_ops ops (plug ctx e) = Some (plug ctx (set_children e (N' ++ Rr))) /\
      sims (N' ++ Rr) nc.
  Proof.
    induction s as [|d s IH]; intros oi ni last st N' ctx e HO HV HI Hoi Hni HlN HN HC HL.
    - cbn [loop_ok] in HO. cbn [valid_from] in HV. apply list_eqb_length in HV.
      rewrite !lenZ_dropZ in HV by lia.
      assert (Eo : es_old st = oi) by apply HI.
      destruct (keeps_sound _ _ _ _ _ _ _ _ HO HI Hoi Hni HlN HN HC HL) as (ops & st' & Nk & Hk & Happ & HNk & HlNk & _).
      cbn [children_loop]. rewrite Eo, Hk. cbn [bind fst].
      exists ops, Nk. split; [reflexivity|]. split.
      + rewrite Happ. rewrite (dropZ_all (oi + Z.of_nat (Z.to_nat (lenZ oc - oi))) oc) by lia. now rewrite app_nil_r.
      + rewrite (takeZ_all (ni + Z.of_nat (Z.to_nat (lenZ oc - oi))) nc) in HNk by lia. exact HNk.
    - cbn [loop_ok] in HO. cbn [valid_from] in HV.
      set (k := m_old d - oi) in *.
      repeat (apply andb_true_iff in HV; destruct HV as [HV ?]).
      rename H into Hrest, H0 into Hkeep, H1 into Hkf, H2 into Hke.
      assert (Hk : 0 <= k) by lia. clear HV.
      destruct HO as [HK HO].
      assert (Eo : es_old st = oi) by apply HI.
      destruct (keeps_sound _ _ _ _ _ _ _ _ HK HI Hoi Hni HlN HN HC HL) as (kops & st1 & Nk & Hk1 & Happ1 & HN1 & HlNk & HI1).
      rewrite Z2Nat.id in * by lia.
      set (oi1 := oi + k) in *. set (ni1 := ni + k) in *.
      set (last1 := keeps_last oc nc (Z.to_nat k) oi ni last) in *.
      destruct HI1 as (Io1 & In1 & Il1 & Ic1 & Ia1).
      cbn [children_loop]. rewrite Eo. fold k. rewrite Hk1. cbn [bind]. rewrite Io1.
      replace (m_old d =? oi1) with true by (unfold oi1, k; lia).
      set (N1 := N' ++ Nk) in *.
      assert (HlN1 : lenZ N1 = ni1) by (unfold N1, ni1; rewrite lenZ_app; lia).
      set (e0 := set_children e (N' ++ Nk ++ dropZ oi1 oc)) in *.
      assert (HC0 : e_children e0 = N1 ++ dropZ oi1 oc) by (unfold e0, N1; rewrite children_set_children; now rewrite app_assoc).
      assert (HL0 : located P ctx (sig_of e0)) by exact HL.
      assert (HdE : dropZ k (dropZ oi oc) = dropZ oi1 oc) by (rewrite dropZ_dropZ by lia; f_equal; unfold oi1; lia).
      assert (HdF : dropZ k (dropZ ni nc) = dropZ ni1 nc) by (rewrite dropZ_dropZ by lia; f_equal; unfold ni1; lia).
      rewrite HdE, HdF in Hrest.
      destruct (m_kind d) eqn:EK.
      + (* delete *)
        destruct (nthZ oi1 oc) as [oe|] eqn:Eoe; [|contradiction]. destruct HO as [Hres HO].
        assert (Hoi1 : 0 <= oi1) by (unfold oi1; lia).
        rewrite (dropZ_nth oi1 oc oe Hoi1 Eoe) in Hrest, HC0.
        replace (m_old d) with oi1 in * by (unfold oi1, k; lia).
        unfold index. rewrite Eoe. cbn [bind]. rewrite Ic1, In1. fold (keep_addr nc oe ni1).
        set (st2 := mkES (oi1 + 1) ni1 (es_lastPath st1) (es_cnt st1)).
        set (e2 := set_children e0 (N1 ++ dropZ (oi1 + 1) oc)).
        destruct (IH (oi1 + 1) ni1 last1 st2 N1 ctx e2) as (rops & Rr & Hr & Happ2 & HN2).
        * exact HO.
        * exact Hrest.
        * unfold st2, st_inv. cbn [es_old es_new es_lastPath es_cnt]. repeat split; auto.
        * lia.
        * unfold ni1; lia.
        * exact HlN1.
        * exact HN1.
        * reflexivity.
        * exact HL0.
        * fold st2. rewrite Hr. cbn [bind].
          exists (kops ++ ORemove (P ++ [keep_addr nc oe ni1]) :: rops), (Nk ++ Rr). split; [reflexivity|]. split.
          -- rewrite apply_ops_app, Happ1. cbn [obind apply_ops apply_op]. fold e0.
             rewrite (at_parent_located P ctx e0 _ _ HL0), HC0.
             assert (Hfc : find_child (keep_addr nc oe ni1) (N1 ++ oe :: dropZ (oi1 + 1) oc) = Some (lenZ N1)).
             { rewrite <- (dropZ_nth oi1 oc oe Hoi1 Eoe), HlN1. eapply resolve_cur; eauto. apply calcAddr_addr_step. }
             rewrite Hfc. cbn [obind]. rewrite remove_nth_app. fold e2. rewrite Happ2.
             unfold e2, e0, N1. rewrite !set_children_twice, <- app_assoc. reflexivity.
          -- unfold N1 in HN2. now rewrite <- app_assoc in HN2.
      + (* insert *)
        apply andb_true_iff in Hrest. destruct Hrest as [Hnew Hrest].
        destruct (nthZ ni1 nc) as [ne|] eqn:Ene; [|contradiction]. destruct HO as [Hres HO].
        assert (Hni1 : 0 <= ni1) by (unfold ni1; lia).
        rewrite (dropZ_nth ni1 nc ne Hni1 Ene) in Hrest.
        replace (m_new d) with ni1 by (unfold ni1; lia).
        replace (m_old d) with oi1 in * by (unfold oi1, k; lia).
        unfold index. rewrite Ene. cbn [bind]. rewrite Ic1, In1. fold (keep_addr nc ne ni1).
        set (addr := keep_addr nc ne ni1) in *.
        set (st2 := mkES oi1 (ni1 + 1) (Some (P ++ [addr])) (cnt_incr (es_cnt st1) (e_tag ne))).
        set (e2 := set_children e0 ((N1 ++ [ne]) ++ dropZ oi1 oc)).
        destruct (IH oi1 (ni1 + 1) (Some addr) st2 (N1 ++ [ne]) ctx e2) as (rops & Rr & Hr & Happ2 & HN2).
        * exact HO.
        * exact Hrest.
        * unfold st2, st_inv. cbn [es_old es_new es_lastPath es_cnt option_map]. repeat split; auto.
          -- intros t. rewrite cnt_get_incr, Ic1, (takeZ_succ ni1 nc ne Hni1 Ene), cnt_of_snoc. reflexivity.
          -- intros s0 Hs0. inversion Hs0; subst. apply calcAddr_addr_step.
        * unfold oi1; lia.
        * lia.
        * rewrite lenZ_app, lenZ_cons, lenZ_nil. lia.
        * rewrite (takeZ_succ ni1 nc ne Hni1 Ene). apply Forall2_app; [exact HN1|]. constructor; [apply sim_refl|constructor].
        * reflexivity.
        * exact HL0.
        * fold st2. rewrite Hr. cbn [bind].
          assert (Hfin : set_children e2 ((N1 ++ [ne]) ++ Rr) = set_children e (N' ++ (Nk ++ ne :: Rr))).
          { unfold e2, e0, N1. rewrite !set_children_twice. f_equal. rewrite <- !app_assoc. reflexivity. }
          assert (Hsims : sims (N' ++ Nk ++ ne :: Rr) nc).
          { unfold N1 in HN2. rewrite <- !app_assoc in HN2. exact HN2. }
          rewrite Il1. destruct last1 as [sl|] eqn:El; cbn [option_map].
          -- exists (kops ++ OAdd (P ++ [sl]) After ne :: rops), (Nk ++ ne :: Rr). split; [reflexivity|]. split; [|exact Hsims].
             rewrite apply_ops_app, Happ1. cbn [obind apply_ops apply_op]. fold e0.
             rewrite (at_parent_located P ctx e0 _ _ HL0), HC0.
             assert (Hfc : find_child sl (N1 ++ dropZ oi1 oc) = Some (ni1 - 1)).
             { eapply resolve_cur; eauto. }
             rewrite Hfc. cbn [obind]. replace (ni1 - 1 + 1) with (lenZ N1) by lia. rewrite insert_at_app.
             replace (N1 ++ ne :: dropZ oi1 oc) with ((N1 ++ [ne]) ++ dropZ oi1 oc) by (now rewrite <- app_assoc).
             fold e2. rewrite Happ2, Hfin. reflexivity.
          -- exists (kops ++ OAdd P Prepend ne :: rops), (Nk ++ ne :: Rr). split; [reflexivity|]. split; [|exact Hsims].
             rewrite apply_ops_app, Happ1. cbn [obind apply_ops apply_op]. fold e0.
             rewrite (at_elem_located P ctx e0 _ HL0). cbn [obind]. rewrite HC0.
             assert (N1 = []) by (apply lenZ_zero_nil; lia).
             replace (set_children e0 (ne :: N1 ++ dropZ oi1 oc)) with e2.
             2:{ unfold e2. rewrite H. reflexivity. }
             rewrite Happ2, Hfin. reflexivity.
  Qed.
End LoopSound.

(* ------------------------------------------------------------------------------------------ *)
(** * addElemChanges *)

Lemma leaflist_check_ok T l : Forall (fun e => e_tag e = T /\ e_children e = []) l -> leaflist_check T l = Ok tt.
Proof.
  unfold leaflist_check. intros H.
  assert (G : forall acc, acc = Ok tt ->
    fold_left (fun (r : res unit) e => do _ <- r; if negb (seqb (e_tag e) T) then Err "other tag in leaf list"
                                       else if negb (isLeaf e) then Err "leaf list element has children" else Ok tt) l acc = Ok tt).
  { induction H as [|x l [Hx1 Hx2] _ IH]; intros acc ->; cbn [fold_left]; [reflexivity|].
    apply IH. cbn [bind]. rewrite Hx1, seqb_refl. cbn [negb]. unfold isLeaf. now rewrite Hx2. }
  now apply G.
Qed.

Lemma leaf_list_shape T l : Forall (leafT T) l -> Forall plain_leaf l ->
  Forall (fun e => e_tag e = T /\ e_children e = []) l.
Proof.
  intros H1 H2. apply Forall_forall. intros x Hx.
  pose proof (proj1 (Forall_forall _ _) H1 x Hx) as [Ht _].
  pose proof (proj1 (Forall_forall _ _) H2 x Hx) as [Hc _]. now split.
Qed.

Lemma aval_perm k a b : Permutation a b -> NoDup (keys a) -> aval k a = aval k b.
Proof. intros HP Hn. unfold aval. now rewrite (select_attr_perm k a b HP Hn). Qed.

Lemma sims_equiv A B : sims A B -> Forall2 equiv A B.
Proof. induction 1 as [|a b A B [H _] _ IH]; constructor; auto. Qed.

Section TreeSound.
  Variable diff : differ.

  Theorem tree_sound : forall fuel old new P ctx,
    tree_ok diff fuel old new -> Forall addr_step P -> located P ctx (sig_of old) ->
    exists ops new', elem_ops_with diff fuel old new P = Ok ops /\
                     apply_ops ops (plug ctx old) = Some (plug ctx new') /\ sim new' new.
  Proof.
    induction fuel as [|f IH]; intros old new P ctx HT HP HL; cbn [tree_ok] in HT; [contradiction|].
    destruct HT as (Htag & Hm1 & Hm2 & HT). cbn [elem_ops_with].
    rewrite Htag, seqb_refl. cbn [negb]. unfold mandatory_id in Hm1, Hm2. rewrite Hm1, Hm2. cbn [bind].
    rewrite <- Htag.
    destruct (seqb (e_tag old) "SegmentTimeline") eqn:ESTL.
    - (* SegmentTimeline: the element's attributes, then the leaf list *)
      destruct HT as (Htext & OK & [Hid Hsu] & (T & HoT & HnT) & Hop & Hnp & Hs).
      destruct (attr_ops_apply P ctx old (e_attrs new) HP HL OK Hid Hsu) as (r & Hr & Hperm).
      assert (Hnr : NoDup (keys r)).
      { eapply Permutation_NoDup; [symmetry; apply keys_perm; exact Hperm|apply OK]. }
      set (e1 := set_attrs old r).
      assert (HL1 : located P ctx (sig_of e1)).
      { eapply located_compat; [exact HP| |exact HL]. unfold e1. rewrite sig_of_set_attrs.
        unfold sig_compat, sig_of. cbn [fst snd]. split; [reflexivity|].
        split; [rewrite Hid|rewrite Hsu]; symmetry; now apply aval_perm. }
      assert (HC1 : e_children e1 = e_children old) by reflexivity.
      assert (Hsim0 : forall R, R = e_children new -> sim (set_children e1 R) new).
      { intros R ->. unfold e1. destruct old as [t a x c], new as [t' a' x' c']. cbn in *. subst. split.
        - constructor; [exact Hperm|]. apply sims_equiv, sims_refl.
        - repeat split; cbn; now apply aval_perm. }
      assert (Hfin : forall lops R, leaflist_changes_with diff old new P = Ok lops ->
                apply_ops lops (plug ctx e1) = Some (plug ctx (set_children e1 R)) -> R = e_children new ->
                exists ops new', (do lops0 <- leaflist_changes_with diff old new P; Ok (attr_ops P (e_attrs old) (e_attrs new) ++ lops0)) = Ok ops /\
                                 apply_ops ops (plug ctx old) = Some (plug ctx new') /\ sim new' new).
      { intros lops R H1 H2 H3. rewrite H1. cbn [bind]. eexists. exists (set_children e1 R). split; [reflexivity|]. split.
        - rewrite apply_ops_app, Hr. cbn [obind]. exact H2.
        - now apply Hsim0. }
      unfold leaflist_changes_with in Hfin |- *.
      destruct (e_children old) as [|o1 oldE'] eqn:EO.
      + destruct (e_children new) as [|n1 newE'] eqn:EN.
        * apply (Hfin [] []); [reflexivity| |reflexivity]. cbn [apply_ops]. do 2 f_equal.
          unfold e1. destruct old; cbn in *. now rewrite EO.
        * destruct Hs as (s & Hd & Hv).
          assert (HT1 : T = e_tag n1) by (inversion HnT as [|? ? [Ht _] _]; now subst).
          destruct (leaflist_script_sound T [] (n1 :: newE') HoT HnT P plain_leaf Hop Hnp s ctx e1 Hv HC1 HL1)
            as (ops & R & Hops & Happ & HR & HQR).
          apply (Hfin ops R); [|exact Happ|now apply Forall2_plain_eq].
          rewrite (leaflist_check_ok (e_tag n1) []) by constructor.
          rewrite (leaflist_check_ok (e_tag n1) (n1 :: newE')) by (rewrite <- HT1; now apply leaf_list_shape).
          cbn [bind]. rewrite Hd. cbn [bind]. exact Hops.
      + destruct Hs as (s & Hd & Hv).
        assert (HT1 : T = e_tag o1) by (inversion HoT as [|? ? [Ht _] _]; now subst).
        assert (Hchk : forall l, Forall (leafT T) l -> Forall plain_leaf l -> leaflist_check (e_tag o1) l = Ok tt).
        { intros l H1 H2. apply leaflist_check_ok. rewrite <- HT1. now apply leaf_list_shape. }
        assert (Hd' : diff equalLeafs (o1 :: oldE') (e_children new) = Ok s).
        { destruct (e_children new); exact Hd. }
        assert (Hv' : valid_script equalLeafs s (o1 :: oldE') (e_children new) = true).
        { destruct (e_children new); exact Hv. }
        destruct (leaflist_script_sound T (o1 :: oldE') (e_children new) HoT HnT P plain_leaf Hop Hnp s ctx e1 Hv' HC1 HL1)
          as (ops & R & Hops & Happ & HR & HQR).
        apply (Hfin ops R); [|exact Happ|now apply Forall2_plain_eq].
        rewrite (Hchk _ HoT Hop), (Hchk _ HnT Hnp). cbn [bind]. rewrite Hd'. cbn [bind]. exact Hops.
    - destruct (isLeaf old && isLeaf new) eqn:ELeaf.
      + (* two leaves *)
        apply andb_true_iff in ELeaf. destruct ELeaf as [Hlo Hln].
        unfold leaf_pair_ok in HT. unfold leaf_changes.
        destruct (negb (seqb (e_text old) (e_text new))) eqn:Etx.
        * exists [OReplace P new], new. split; [reflexivity|]. split; [|apply sim_refl].
          cbn [apply_ops]. rewrite (replace_located P ctx old new HL). reflexivity.
        * destruct HT as (OK & Hid & Hsu).
          destruct (attr_ops_apply P ctx old (e_attrs new) HP HL OK Hid Hsu) as (r & Hr & Hperm).
          exists (attr_ops P (e_attrs old) (e_attrs new)), (set_attrs old r). split; [reflexivity|]. split; [exact Hr|].
          apply negb_false_iff, seqb_eq in Etx.
          assert (Hnr : NoDup (keys r)).
          { eapply Permutation_NoDup; [symmetry; apply keys_perm; exact Hperm|apply OK]. }
          destruct old as [t a x c], new as [t' a' x' c']. unfold isLeaf in Hlo, Hln. cbn in *.
          destruct c; [|discriminate]. destruct c'; [|discriminate]. subst. split.
          -- constructor; [exact Hperm|constructor].
          -- repeat split; cbn; now apply aval_perm.
      + (* element with children *)
        destruct HT as (Htext & OK & [Hid Hsu] & s & Hd & Hv & Hloop).
        destruct (attr_ops_apply P ctx old (e_attrs new) HP HL OK Hid Hsu) as (r & Hr & Hperm).
        assert (Hnr : NoDup (keys r)).
        { eapply Permutation_NoDup; [symmetry; apply keys_perm; exact Hperm|apply OK]. }
        set (e1 := set_attrs old r).
        assert (HL1 : located P ctx (sig_of e1)).
        { eapply located_compat; [exact HP| |exact HL]. unfold e1. rewrite sig_of_set_attrs.
          unfold sig_compat, sig_of. cbn [fst snd]. split; [reflexivity|].
          split; [rewrite Hid|rewrite Hsu]; symmetry; now apply aval_perm. }
        rewrite Hd. cbn [bind].
        destruct (loop_sound (elem_ops_with diff f) (tree_ok diff f) (fun oe ne P' ctx' H1 H2 H3 => IH oe ne P' ctx' H1 H2 H3)
                    (e_children old) (e_children new) P HP s 0 0 None (mkES 0 0 None []) [] ctx e1)
          as (cops & Rr & Hc & Happ & HRr).
        * exact Hloop.
        * rewrite !dropZ_0. exact Hv.
        * unfold st_inv. cbn [es_old es_new es_lastPath es_cnt option_map cnt_get]. repeat split; auto.
          -- intros t. rewrite takeZ_nonpos by lia. reflexivity.
          -- discriminate.
        * lia.
        * lia.
        * reflexivity.
        * rewrite takeZ_nonpos by lia. constructor.
        * rewrite dropZ_0. now destruct old.
        * exact HL1.
        * rewrite Hc. cbn [bind]. cbn [app] in Happ, HRr.
          exists (attr_ops P (e_attrs old) (e_attrs new) ++ cops), (set_children e1 Rr). split; [reflexivity|]. split.
          -- rewrite apply_ops_app, Hr. cbn [obind]. exact Happ.
          -- destruct old as [t a x c], new as [t' a' x' c']. cbn in *. subst. split.
             ++ constructor; [exact Hperm|now apply sims_equiv].
             ++ repeat split; cbn; now apply aval_perm.
  Qed.
End TreeSound.
