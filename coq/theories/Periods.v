(** Model of the multi-period part of cmd/livesim2/app/livempd.go:
    [reduceS] (L441-488), [splitPeriod] (L375-439), [lastPeriodStartTime] (L339-348) and the
    part of [LiveMPD] that calls them (L305-326).  No proofs in this file.

    Integers: Go [int] is 64 bit; the model computes in [Z].  Where the code converts
    ([uint64(pNr*periodDur)], [periodStartS * uint64(timescale)], [t += d] on uint64, [nr++] on
    uint32, [uint32(pNr*periodDur*timeScale/segDur)]) the model writes [u64]/[u32].  Signed
    [/] and [%] are [Z.quot]/[Z.rem]; a zero divisor is an explicit [Panic].

    An <S> element as [reduceS] reads it has an optional [t] (generateTimelineEntries sets it on
    the first element only) and an [int] repeat count (a negative [r] makes the inner loop run
    zero times).  The elements [reduceS] writes always carry [t]; they are [Timeline.sentry]. *)
From Verif Require Import GoSem Timeline.

Record pS := { p_t : option Z; p_d : Z; p_r : Z }.

Definition ofEntry (e : sentry) : pS := {| p_t := Some (e_t e); p_d := e_d e; p_r := e_r e |}.

(** ** reduceS *)

(** Loop state: the running time [t], the running number [nr], [outStartNr] and the output slice
    [newS] in reverse.  [currS] points at the last element appended to [newS]; it is nil exactly
    when [newS] is empty, so the head of [rs_acc] is [currS]. *)
Record rst := { rs_t : Z; rs_nr : Z; rs_out : Z; rs_acc : list sentry }.

Definition bump (c : sentry) : sentry := {| e_t := e_t c; e_d := e_d c; e_r := e_r c + 1 |}.
Definition newRun (t d : Z) : sentry := {| e_t := t; e_d := d; e_r := 0 |}.

(** One iteration of the inner loop [for i := 0; i <= e.R; i++]:
    [inl] = go on, [inr] = the early [return newS, &nr]. *)
Definition reduceStep (d pStart pEnd : Z) (s : rst) : rst + (list sentry * Z) :=
  if rs_t s <? pStart then
    inl {| rs_t := u64 (rs_t s + d); rs_nr := u32 (rs_nr s + 1); rs_out := rs_out s; rs_acc := rs_acc s |}
  else if rs_t s >=? pEnd then inr (rev (rs_acc s), rs_nr s)
  else
    match rs_acc s with
    | [] =>
      inl {| rs_t := u64 (rs_t s + d); rs_nr := rs_nr s; rs_out := rs_nr s; rs_acc := [newRun (rs_t s) d] |}
    | c :: acc' =>
      if d =? e_d c then
        inl {| rs_t := u64 (rs_t s + d); rs_nr := rs_nr s; rs_out := rs_out s; rs_acc := bump c :: acc' |}
      else
        inl {| rs_t := u64 (rs_t s + d); rs_nr := rs_nr s; rs_out := rs_out s;
               rs_acc := newRun (rs_t s) d :: c :: acc' |}
    end.

Fixpoint reduceEntry (k : nat) (d pStart pEnd : Z) (s : rst) : rst + (list sentry * Z) :=
  match k with
  | O => inl s
  | Datatypes.S k' =>
    match reduceStep d pStart pEnd s with
    | inl s' => reduceEntry k' d pStart pEnd s'
    | inr out => inr out
    end
  end.

Definition setT (e : pS) (s : rst) : rst :=
  match p_t e with
  | Some t => {| rs_t := t; rs_nr := rs_nr s; rs_out := rs_out s; rs_acc := rs_acc s |}
  | None => s
  end.

Fixpoint reduceLoop (es : list pS) (pStart pEnd : Z) (s : rst) : list sentry * Z :=
  match es with
  | [] => (rev (rs_acc s), rs_out s)
  | e :: rest =>
    match reduceEntry (Z.to_nat (p_r e + 1)) (p_d e) pStart pEnd (setT e s) with
    | inl s' => reduceLoop rest pStart pEnd s'
    | inr out => out
    end
  end.

(** [reduceS entries startNr timescale periodStartS periodEndS]; the returned pointer is never nil. *)
Definition reduceS (es : list pS) (startNr : option Z) (timescale periodStartS periodEndS : Z)
  : list sentry * Z :=
  let pStart := u64 (periodStartS * u64 timescale) in
  let pEnd := u64 (periodEndS * u64 timescale) in
  let nr := match startNr with Some n => n | None => 0 end in
  reduceLoop es pStart pEnd {| rs_t := 0; rs_nr := nr; rs_out := nr; rs_acc := [] |}.

(** ** splitPeriod *)

(** the typed error errPeriodDuration (commit e7eedfb: the handler answers it with 400) *)
Definition rejectMsg : string := "period duration not a multiple of segment duration".

Inductive mpdType := MNumber | MTimelineTime | MTimelineNr.

(** What splitPeriod reads of an AdaptationSet of the single-period MPD. *)
Record asIn := {
  a_image : bool;                 (* contentType = "image": always treated as $Number$ *)
  a_ts : option Z;                (* SegmentTemplate@timescale, absent = 1 *)
  a_dur : option Z;               (* SegmentTemplate@duration *)
  a_startNr : option Z;           (* SegmentTemplate@startNumber *)
  a_tl : option (list pS)         (* SegmentTimeline *)
}.

(** What it writes. *)
Record asOut := {
  o_pto : Z;
  o_startNr : option Z;
  o_tl : option (list pS);        (* SegmentTimeline of the clone *)
  o_cont : bool                   (* period-continuity SupplementalProperty appended *)
}.

Record period := { pd_nr : Z (* id = "P<pd_nr>" *); pd_start : Z (* Period@start, seconds *); pd_as : list asOut }.

Fixpoint mapM {A B} (f : A -> res B) (l : list A) : res (list B) :=
  match l with
  | [] => Ok []
  | x :: t => do y <- f x; do ys <- mapM f t; Ok (y :: ys)
  end.

Definition templateType (mode : mpdType) (a : asIn) : mpdType := if a_image a then MNumber else mode.
Definition tsOf (a : asIn) : Z := match a_ts a with Some t => t | None => 1 end.

(** firstAndLastSegmentStart (repair "period range covers listed segments"): start times of the
    first and the last segment of a timeline whose first <S> carries t; a negative r ends the walk. *)
Fixpoint flLoop (ss : list pS) (t first last : Z) : Z * Z :=
  match ss with
  | [] => (first, last)
  | s :: r =>
    let t0 := match p_t s with Some x => x | None => t end in
    if p_r s <? 0 then (first, last) else
    flLoop r (u64 (t0 + u64 (u64 (p_r s + 1) * p_d s))) first (u64 (t0 + u64 (u64 (p_r s) * p_d s)))
  end.
Definition firstLast (ss : list pS) : option (Z * Z) :=
  match ss with
  | [] => None
  | s0 :: _ => match p_t s0 with None => None | Some t => Some (flLoop ss t t t) end
  end.

(** The widening of [startPeriodNr, endPeriodNr] so that the first and the last listed segment of
    every AdaptationSet with a SegmentTimeline have their period ([int(first / periodTicks)]) -
    bounded (commit ea1922e): a candidate below [kmin] = startPeriodNr - 1 or above [kmax] (the
    period of now + availabilityTimeOffset) is ignored, whatever the timeline says. *)
Fixpoint widenRange (periodDur : Z) (ases : list asIn) (kmin kmax : Z) (k0 k1 : Z) : res (Z * Z) :=
  match ases with
  | [] => Ok (k0, k1)
  | a :: rest =>
    match a_tl a with
    | None => widenRange periodDur rest kmin kmax k0 k1
    | Some ss =>
      match firstLast ss with
      | None => widenRange periodDur rest kmin kmax k0 k1
      | Some (f, l) =>
        let pt := u64 (u64 periodDur * u64 (tsOf a)) in
        if pt =? 0 then Panic "splitPeriod: integer divide by zero" else
        let pf := i64 (f / pt) in
        let pl := i64 (l / pt) in
        widenRange periodDur rest kmin kmax
                   (if (pf <? k0) && (pf >=? kmin) then pf else k0)
                   (if (pl >? k1) && (pl <=? kmax) then pl else k1)
      end
    end
  end.

Definition splitAS (ng : bool) (mode : mpdType) (cont : bool) (snr : Z) (pNr periodDur : Z) (a : asIn) : res asOut :=
  let timeScale := match a_ts a with Some t => t | None => 1 end in
  let pto := u64 (pNr * periodDur * timeScale) in
  match templateType mode a with
  | MNumber =>
    match a_dur a with
    | None => Panic "splitPeriod: nil pointer dereference"
    | Some segDur =>
      if segDur =? 0 then Panic "splitPeriod: integer divide by zero" else
      (* repair "guard per adaptation set": errPeriodDuration when the period is no whole number of
         segments of THIS template ([ng]: the tree contains it, read from the source) *)
      if ng && (0 <? segDur) && negb (Z.rem (periodDur * timeScale) segDur =? 0) then Err rejectMsg else
      Ok {| o_pto := pto; o_startNr := Some (u32 (Z.quot (pNr * periodDur * timeScale) segDur + snr));
            o_tl := a_tl a; o_cont := cont |}
    end
  | MTimelineTime =>
    match a_tl a with
    | None => Panic "splitPeriod: nil pointer dereference"
    | Some inS =>
      let '(outS, _) := reduceS inS None timeScale (u64 (pNr * periodDur)) (u64 ((pNr + 1) * periodDur)) in
      Ok {| o_pto := pto; o_startNr := a_startNr a; o_tl := Some (map ofEntry outS); o_cont := cont |}
    end
  | MTimelineNr =>
    match a_tl a with
    | None => Panic "splitPeriod: nil pointer dereference"
    | Some inS =>
      let '(outS, nr) := reduceS inS (a_startNr a) timeScale (u64 (pNr * periodDur)) (u64 ((pNr + 1) * periodDur)) in
      Ok {| o_pto := pto; o_startNr := Some nr; o_tl := Some (map ofEntry outS); o_cont := cont |}
    end
  end.

(** In the $Number$ branch the clone keeps whatever SegmentTimeline the input had (none, after
    adjustAdaptationSetForSegmentNumber). *)

Definition periodOf (ng : bool) (mode : mpdType) (cont : bool) (snr : Z) (periodDur : Z) (ases : list asIn) (pNr : Z) : res period :=
  do out <- mapM (splitAS ng mode cont snr pNr periodDur) ases;
  Ok {| pd_nr := pNr; pd_start := pNr * periodDur; pd_as := out |}.

Definition rangeOf (widen : option (Z * Z)) (mode : mpdType) (periodDur : Z) (ases : list asIn) (k0 k1 kmin kmax : Z) : res (Z * Z) :=
  match widen, mode with
  | None, _ | _, MNumber => Ok (k0, k1)
  | Some _, _ => widenRange periodDur ases kmin kmax k0 k1
  end.
(** [widen = Some (atoMS, loopMS)]: the tree contains the widening repair; [atoMS] =
    round(1000 * ato) of a finite positive availabilityTimeOffset, else 0; [loopMS] = asset.LoopDurMS.
    The bounds of the widened range: the period of now + ato above, the period one loop before the
    window start below (commit e74431e; no segment is longer than the loop). *)
Definition kmaxOf (widen : option (Z * Z)) (periodDur astMS nowMS k1 : Z) : Z :=
  match widen with
  | Some (atoMS, _) => if atoMS >? 0 then Z.quot (nowMS + atoMS - astMS) (periodDur * 1000) else k1
  | None => k1
  end.
Definition kminOf (widen : option (Z * Z)) (periodDur astMS startTimeMS k0 : Z) : Z :=
  match widen with
  | Some (_, loopMS) => Z.quot (startTimeMS - astMS - loopMS) (periodDur * 1000)
  | None => k0 - 1
  end.

(** [splitPeriod] for [cfg.PeriodsPerHour = &pph]; [astMS = cfg.StartTimeS*1000], [snr =
    cfg.getStartNr()]; [startTimeMS]/[nowMS] are the wrapTimes fields.  [widen]: the tree contains
    the repair that widens the period range to the listed segments (read from the source by the
    harness; [false] = the code before that repair).  Periods are counted from
    availabilityStartTime (repository commit 961c9dc), the $Number$ startNumber of a period
    includes the configured start number (bde286d). *)
Definition splitPeriod (ng : bool) (widen : option (Z * Z)) (pph segDurMS : Z) (mode : mpdType) (cont : bool) (astMS snr : Z) (startTimeMS nowMS : Z)
           (ases : list asIn) : res (list period) :=
  if pph =? 0 then Panic "splitPeriod: integer divide by zero" else
  let periodDur := Z.quot 3600 pph in
  if segDurMS =? 0 then Panic "splitPeriod: integer divide by zero" else
  if negb (Z.rem (periodDur * 1000) segDurMS =? 0) then
    Err rejectMsg else
  if periodDur * 1000 =? 0 then Panic "splitPeriod: integer divide by zero" else
  let k0 := Z.quot (startTimeMS - astMS) (periodDur * 1000) in
  let k1 := Z.quot (nowMS - astMS) (periodDur * 1000) in
  do range <- rangeOf widen mode periodDur ases k0 k1 (kminOf widen periodDur astMS startTimeMS k0) (kmaxOf widen periodDur astMS nowMS k1);
  let startPeriodNr := fst range in
  let endPeriodNr := snd range in
  (* make([]*m.Period, 0, nrPeriods) *)
  if endPeriodNr - startPeriodNr + 1 <? 0 then Panic "splitPeriod: makeslice: cap out of range" else
  mapM (periodOf ng mode cont snr periodDur ases) (seqZ startPeriodNr (Z.to_nat (endPeriodNr - startPeriodNr + 1))).

(** lastPeriodStartTime: availabilityStartTime + start of the last period, in seconds. *)
Definition lastPeriodStartTime (astS : Z) (ps : list period) : res Z :=
  match rev ps with
  | [] => Panic "lastPeriodStartTime: index out of range"
  | p :: _ => Ok (astS + pd_start p)
  end.

Definition pphRangeMsg : string := "periods per hour must be in the range 1-3600".

(** The multi-period part of a live MPD request (no stop time): verifyAndFillConfig's range check
    of periods-per-hour (commit 9fbd9f7; answered 400), then splitPeriod with the wrap times, and
    the publishTime that replaces the single-period one in $Number$ mode ([None]: publishTime
    left as computed before).  [startNr c] is cfg.getStartNr(). *)
Definition livePeriods (ng : bool) (widen : option (Z * Z)) (loopMS : Z) (c : tcfg) (nowMS tsbdMS : Z) (pph segDurMS : Z) (mode : mpdType)
           (cont : bool) (ases : list asIn) : res (list period * option Z) :=
  if (pph <=? 0) || (3600 <? pph) then Err pphRangeMsg else
  let wt := calcWrapTimes loopMS c nowMS tsbdMS in
  do ps <- splitPeriod ng widen pph segDurMS mode cont (startS c * 1000) (startNr c) (startTimeMS wt) (wnowMS wt) ases;
  match mode with
  | MNumber => do pt <- lastPeriodStartTime (startS c) ps; Ok (ps, Some pt)
  | _ => Ok (ps, None)
  end.

(** With a stop time (stop_/stoprel_): LiveMPD generates the MPD for [endTimeMS], which is the
    stop time once it has passed ([stopTimeMS < nowMS]); the wrap times, the single-period timeline
    and the split are those of that instant (the MPD is then made static AFTER the split). *)
Definition liveEndMS (nowMS : Z) (stopS : option Z) : Z :=
  match stopS with
  | Some s => if s * 1000 <? nowMS then s * 1000 else nowMS
  | None => nowMS
  end.
Definition livePeriodsStop (ng : bool) (widen : option (Z * Z)) (loopMS : Z) (c : tcfg) (nowMS : Z) (stopS : option Z) (tsbdMS : Z)
           (pph segDurMS : Z) (mode : mpdType) (cont : bool) (ases : list asIn) : res (list period * option Z) :=
  livePeriods ng widen loopMS c (liveEndMS nowMS stopS) tsbdMS pph segDurMS mode cont ases.

(** ** Specification side *)

(** Expansion of an <S> list as [reduceS] walks it, starting with running time [t]. *)
Fixpoint expandFrom (t : Z) (es : list pS) : list (Z * Z) :=
  match es with
  | [] => []
  | e :: rest =>
    let t0 := match p_t e with Some x => x | None => t end in
    let k := Z.to_nat (p_r e + 1) in
    expandEntry t0 (p_d e) k ++ expandFrom (t0 + Z.of_nat k * p_d e) rest
  end.
Definition expandP (es : list pS) : list (Z * Z) := expandFrom 0 es.

(** The part of an expanded timeline that [reduceS] keeps: elements before [pStart] are skipped
    one by one, the first element at or after [pEnd] ends the walk. *)
Fixpoint window (pStart pEnd : Z) (xs : list (Z * Z)) : list (Z * Z) :=
  match xs with
  | [] => []
  | (t, d) :: r =>
    if t <? pStart then window pStart pEnd r
    else if t >=? pEnd then []
    else (t, d) :: window pStart pEnd r
  end.

Definition inWin (pStart pEnd : Z) (x : Z * Z) : bool := (pStart <=? fst x) && (fst x <? pEnd).

(** every segment begins where the previous one ends *)
Fixpoint chain (xs : list (Z * Z)) : Prop :=
  match xs with
  | (t, d) :: (((t', _) :: _) as r) => t' = t + d /\ chain r
  | _ => True
  end.

(** the weaker condition reduceS actually needs: neighbours of equal duration abut *)
Fixpoint runChain (xs : list (Z * Z)) : Prop :=
  match xs with
  | (t, d) :: (((t', d') :: _) as r) => (d' = d -> t' = t + d) /\ runChain r
  | _ => True
  end.

Fixpoint sortedT (xs : list (Z * Z)) : Prop :=
  match xs with
  | (t, _) :: (((t', _) :: _) as r) => t <= t' /\ sortedT r
  | _ => True
  end.

(** neighbouring output elements have different durations and non-negative repeat counts *)
Fixpoint maximalRuns (es : list sentry) : Prop :=
  match es with
  | a :: ((b :: _) as r) => e_d a <> e_d b /\ 0 <= e_r a /\ maximalRuns r
  | [a] => 0 <= e_r a
  | [] => True
  end.

Definition countBefore (pStart : Z) (xs : list (Z * Z)) : Z :=
  lenZ (filter (fun x => fst x <? pStart) xs).
