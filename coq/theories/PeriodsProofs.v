(** Proofs about the multi-period model (theories/Periods.v). *)
From Verif Require Import GoSem GoSemFacts Timeline TimelineProofs Periods.
From Coq Require Import ZifyBool.
Ltac Zify.zify_post_hook ::= Z.div_mod_to_equations.

(** * 1. reduceS is a walk over the expanded timeline *)

(** The walk of reduceS over an already expanded list of (t, d) pairs, without the fixed-width
    arithmetic: state = running number, outStartNr, output in reverse. *)
Fixpoint walk (pStart pEnd : Z) (xs : list (Z * Z)) (nr out : Z) (acc : list sentry) : list sentry * Z :=
  match xs with
  | [] => (rev acc, out)
  | (t, d) :: r =>
    if t <? pStart then walk pStart pEnd r (nr + 1) out acc
    else if t >=? pEnd then (rev acc, nr)
    else
      match acc with
      | [] => walk pStart pEnd r nr nr [newRun t d]
      | c :: acc' =>
        if d =? e_d c then walk pStart pEnd r nr out (bump c :: acc')
        else walk pStart pEnd r nr out (newRun t d :: c :: acc')
      end
  end.

(** Range condition under which the uint64/uint32 arithmetic of the loop does not wrap:
    every segment of the expansion lies in [0, 2^64) with its end, and the numbers stay
    below 2^32. *)
Definition inRange (xs : list (Z * Z)) : Prop :=
  Forall (fun x => 0 <= fst x /\ 0 <= snd x /\ fst x + snd x < two64) xs.

Lemma expandEntry_app t d a b :
  expandEntry t d (a + b) = expandEntry t d a ++ expandEntry (t + Z.of_nat a * d) d b.
Proof.
  revert t; induction a; intros t; cbn [expandEntry Nat.add app].
  - f_equal; lia.
  - rewrite IHa. do 3 f_equal. lia.
Qed.

(** reduceEntry = walking the expansion of that entry. We phrase the connection through a
    relation between [rst] and the walk's state. *)
Lemma reduceEntry_walk : forall k d ps pe s,
  inRange (expandEntry (rs_t s) d k) ->
  0 <= rs_nr s -> rs_nr s + Z.of_nat k < two32 ->
  match reduceEntry k d ps pe s with
  | inl s' =>
    (forall rest, walk ps pe (expandEntry (rs_t s) d k ++ rest) (rs_nr s) (rs_out s) (rs_acc s)
                  = walk ps pe rest (rs_nr s') (rs_out s') (rs_acc s')) /\
    rs_t s' = rs_t s + Z.of_nat k * d /\
    rs_nr s <= rs_nr s' <= rs_nr s + Z.of_nat k
  | inr out =>
    forall rest, walk ps pe (expandEntry (rs_t s) d k ++ rest) (rs_nr s) (rs_out s) (rs_acc s) = out
  end.
Proof.
  induction k; intros d ps pe s Hr Hn0 Hn.
  - cbn. split; [reflexivity|]. lia.
  - cbn [reduceEntry expandEntry app].
    inversion Hr as [|x l Hx Hl]; subst. cbn [fst snd] in Hx.
    unfold reduceStep.
    destruct (rs_t s <? ps) eqn:E1.
    + rewrite (u64_id (rs_t s + d)) by lia. rewrite (u32_id (rs_nr s + 1)) by lia.
      specialize (IHk d ps pe {| rs_t := rs_t s + d; rs_nr := rs_nr s + 1; rs_out := rs_out s; rs_acc := rs_acc s |}).
      cbn [rs_t rs_nr rs_out rs_acc] in IHk.
      specialize (IHk Hl ltac:(lia) ltac:(lia)).
      destruct (reduceEntry k d ps pe _) as [s'|out].
      * destruct IHk as (W & T & NR). cbn [walk]. rewrite E1. split; [exact W|]. split; lia.
      * intros rest. cbn [walk]. rewrite E1. apply IHk.
    + destruct (rs_t s >=? pe) eqn:E2.
      * intros rest. cbn [walk]. rewrite E1, E2. reflexivity.
      * destruct (rs_acc s) as [|c acc'] eqn:EA.
        -- rewrite (u64_id (rs_t s + d)) by lia.
           specialize (IHk d ps pe {| rs_t := rs_t s + d; rs_nr := rs_nr s; rs_out := rs_nr s; rs_acc := [newRun (rs_t s) d] |}).
           cbn [rs_t rs_nr rs_out rs_acc] in IHk.
           specialize (IHk Hl ltac:(lia) ltac:(lia)).
           destruct (reduceEntry k d ps pe _) as [s'|out].
           ++ destruct IHk as (W & T & NR). cbn [walk]. rewrite E1, E2. split; [exact W|]. split; lia.
           ++ intros rest. cbn [walk]. rewrite E1, E2. apply IHk.
        -- destruct (d =? e_d c) eqn:E3.
           ++ rewrite (u64_id (rs_t s + d)) by lia.
           specialize (IHk d ps pe {| rs_t := rs_t s + d; rs_nr := rs_nr s; rs_out := rs_out s; rs_acc := bump c :: acc' |}).
              cbn [rs_t rs_nr rs_out rs_acc] in IHk.
                 specialize (IHk Hl ltac:(lia) ltac:(lia)).
              destruct (reduceEntry k d ps pe _) as [s'|out].
              ** destruct IHk as (W & T & NR). cbn [walk]. rewrite E1, E2, E3. split; [exact W|]. split; lia.
              ** intros rest. cbn [walk]. rewrite E1, E2, E3. apply IHk.
           ++ rewrite (u64_id (rs_t s + d)) by lia.
           specialize (IHk d ps pe {| rs_t := rs_t s + d; rs_nr := rs_nr s; rs_out := rs_out s; rs_acc := newRun (rs_t s) d :: c :: acc' |}).
              cbn [rs_t rs_nr rs_out rs_acc] in IHk.
                 specialize (IHk Hl ltac:(lia) ltac:(lia)).
              destruct (reduceEntry k d ps pe _) as [s'|out].
              ** destruct IHk as (W & T & NR). cbn [walk]. rewrite E1, E2, E3. split; [exact W|]. split; lia.
              ** intros rest. cbn [walk]. rewrite E1, E2, E3. apply IHk.
Qed.

Lemma length_expandEntry t d k : length (expandEntry t d k) = k.
Proof. revert t; induction k; intros; cbn; [reflexivity|]. now rewrite IHk. Qed.

Lemma inRange_app a b : inRange (a ++ b) <-> inRange a /\ inRange b.
Proof. unfold inRange. apply Forall_app. Qed.

Lemma reduceLoop_walk : forall es ps pe s,
  inRange (expandFrom (rs_t s) es) ->
  0 <= rs_nr s -> rs_nr s + lenZ (expandFrom (rs_t s) es) < two32 ->
  reduceLoop es ps pe s = walk ps pe (expandFrom (rs_t s) es) (rs_nr s) (rs_out s) (rs_acc s).
Proof.
  induction es as [|e rest IH]; intros ps pe s Hr Hn0 Hn.
  - reflexivity.
  - cbn [reduceLoop expandFrom] in *.
    set (t0 := match p_t e with Some x => x | None => rs_t s end) in *.
    assert (Ht0 : rs_t (setT e s) = t0) by (unfold setT, t0; destruct (p_t e); reflexivity).
    assert (Hnr : rs_nr (setT e s) = rs_nr s) by (unfold setT; destruct (p_t e); reflexivity).
    assert (Hout : rs_out (setT e s) = rs_out s) by (unfold setT; destruct (p_t e); reflexivity).
    assert (Hacc : rs_acc (setT e s) = rs_acc s) by (unfold setT; destruct (p_t e); reflexivity).
    apply inRange_app in Hr. destruct Hr as [Hr1 Hr2].
    rewrite lenZ_app in Hn.
    assert (Hlen : lenZ (expandEntry t0 (p_d e) (Z.to_nat (p_r e + 1))) = Z.of_nat (Z.to_nat (p_r e + 1))).
    { unfold lenZ. now rewrite length_expandEntry. }
    pose proof (lenZ_nonneg (expandFrom (t0 + Z.of_nat (Z.to_nat (p_r e + 1)) * p_d e) rest)) as Hnn.
    pose proof (reduceEntry_walk (Z.to_nat (p_r e + 1)) (p_d e) ps pe (setT e s)) as H.
    rewrite Ht0, Hnr, Hout, Hacc in H.
    specialize (H Hr1 Hn0 ltac:(lia)).
    destruct (reduceEntry _ _ _ _ (setT e s)) as [s'|out].
    + destruct H as (W & T & NR). rewrite W. rewrite <- T.
      apply IH; rewrite ?T; try assumption; lia.
    + symmetry. apply H.
Qed.

(** * 2. What the walk computes *)

(** The last segment covered by the output built so far. *)
Definition linked (acc : list sentry) (ys : list (Z * Z)) : Prop :=
  match acc, ys with
  | c :: _, (t, d) :: _ => d = e_d c -> t = e_t c + (e_r c + 1) * e_d c
  | _, _ => True
  end.

Definition accOK (acc : list sentry) : Prop := Forall (fun c => 0 <= e_r c) acc.

Lemma expandEntry_snoc t d k : expandEntry t d (Datatypes.S k) = expandEntry t d k ++ [(t + Z.of_nat k * d, d)].
Proof.
  replace (Datatypes.S k) with (k + 1)%nat by lia. rewrite expandEntry_app. reflexivity.
Qed.

Lemma expand_app a b : expand (a ++ b) = expand a ++ expand b.
Proof. unfold expand. apply flat_map_app. Qed.

Lemma expand_rev_cons c acc : expand (rev (c :: acc)) = expand (rev acc) ++ expandEntry (e_t c) (e_d c) (Z.to_nat (e_r c + 1)).
Proof. cbn [rev]. rewrite expand_app. cbn. now rewrite app_nil_r. Qed.

Lemma expand_bump c acc : 0 <= e_r c ->
  expand (rev (bump c :: acc)) = expand (rev (c :: acc)) ++ [(e_t c + (e_r c + 1) * e_d c, e_d c)].
Proof.
  intros H. rewrite !expand_rev_cons. unfold bump; cbn [e_t e_d e_r].
  replace (Z.to_nat (e_r c + 1 + 1)) with (Datatypes.S (Z.to_nat (e_r c + 1))) by lia.
  rewrite expandEntry_snoc, app_assoc. do 3 f_equal. lia.
Qed.

Lemma expand_newRun t d acc : expand (rev (newRun t d :: acc)) = expand (rev acc) ++ [(t, d)].
Proof. rewrite expand_rev_cons. reflexivity. Qed.

(** [runChain] of the kept part is what matters; it follows from [runChain]/[chain] of a sorted input. *)
Lemma walk_expand : forall ps pe xs nr out acc,
  accOK acc -> runChain (window ps pe xs) -> linked acc (window ps pe xs) ->
  expand (fst (walk ps pe xs nr out acc)) = expand (rev acc) ++ window ps pe xs.
Proof.
  induction xs as [|[t d] r IH]; intros nr out acc HA HC HL.
  - cbn. now rewrite app_nil_r.
  - cbn [walk window] in *.
    destruct (t <? ps) eqn:E1; [apply IH; assumption|].
    destruct (t >=? pe) eqn:E2; [cbn; now rewrite app_nil_r|].
    assert (HC' : runChain (window ps pe r)).
    { cbn [runChain] in HC. destruct (window ps pe r) as [|[t' d'] w]; [exact I|]. apply HC. }
    destruct acc as [|c acc'].
    + rewrite IH; try assumption.
      * rewrite expand_newRun. cbn. reflexivity.
      * constructor; [cbn; lia|constructor].
      * cbn [runChain] in HC. unfold linked. destruct (window ps pe r) as [|[t' d'] w]; [exact I|].
        cbn [newRun e_d e_t e_r]. intros ->. destruct HC as [HC _]. specialize (HC eq_refl). lia.
    + inversion HA as [|c0 l0 Hc Hl]; subst.
      destruct (d =? e_d c) eqn:E3.
      * rewrite IH; try assumption.
        -- rewrite expand_bump by assumption. rewrite <- app_assoc. cbn [app].
           unfold linked in HL. specialize (HL ltac:(lia)). subst t. do 3 f_equal. lia.
        -- constructor; [unfold bump; cbn; lia|assumption].
        -- cbn [runChain] in HC. unfold linked. destruct (window ps pe r) as [|[t' d'] w]; [exact I|].
           unfold bump; cbn [e_d e_t e_r]. intros ->. destruct HC as [HC _].
           unfold linked in HL. specialize (HL ltac:(lia)).
           assert (e_d c = d) by lia. specialize (HC ltac:(lia)). lia.
      * rewrite IH; try assumption.
        -- rewrite expand_newRun. rewrite <- app_assoc. reflexivity.
        -- constructor; [cbn; lia|assumption].
        -- cbn [runChain] in HC. unfold linked. destruct (window ps pe r) as [|[t' d'] w]; [exact I|].
           cbn [newRun e_d e_t e_r]. intros ->. destruct HC as [HC _]. specialize (HC eq_refl). lia.
Qed.

(** maximal runs *)
Lemma maximalRuns_snoc l a b :
  maximalRuns (l ++ [a]) -> e_d a <> e_d b -> 0 <= e_r b -> maximalRuns (l ++ [a; b]).
Proof.
  induction l as [|x l IH]; intros H Hd Hr.
  - cbn in *. lia.
  - cbn [app] in *. destruct l as [|y l'].
    + cbn in *. lia.
    + cbn [app maximalRuns] in *. destruct H as (H1 & H2 & H3). repeat split; try assumption.
      apply IH; assumption.
Qed.

Lemma maximalRuns_last_change l a a' :
  maximalRuns (l ++ [a]) -> e_d a' = e_d a -> 0 <= e_r a' -> maximalRuns (l ++ [a']).
Proof.
  induction l as [|x l IH]; intros H Hd Hr.
  - cbn in *. lia.
  - cbn [app] in *. destruct l as [|y l'].
    + cbn in *. lia.
    + cbn [app maximalRuns] in *. destruct H as (H1 & H2 & H3). repeat split; try assumption.
      apply IH; assumption.
Qed.

Lemma walk_maximal : forall ps pe xs nr out acc,
  maximalRuns (rev acc) -> maximalRuns (fst (walk ps pe xs nr out acc)).
Proof.
  induction xs as [|[t d] r IH]; intros nr out acc HM.
  - exact HM.
  - cbn [walk].
    destruct (t <? ps); [now apply IH|].
    destruct (t >=? pe); [exact HM|].
    destruct acc as [|c acc'].
    + apply IH. cbn. lia.
    + destruct (d =? e_d c) eqn:E3; apply IH; cbn [rev] in *.
      * eapply maximalRuns_last_change; [exact HM|reflexivity|].
        assert (0 <= e_r c).
        { clear -HM. induction (rev acc') as [|x l IHl]; cbn in HM; [lia|].
          destruct l; cbn in HM; [lia|]. apply IHl. apply HM. }
        unfold bump; cbn; lia.
      * replace ((rev acc' ++ [c]) ++ [newRun t d]) with (rev acc' ++ [c; newRun t d]) by (now rewrite <- app_assoc).
        apply maximalRuns_snoc; [exact HM| cbn; lia | cbn; lia].
Qed.

(** the start number *)
Definition beforeFirst (ps : Z) (xs : list (Z * Z)) : Z :=
  (* number of elements in front of the first one with t >= pStart *)
  (fix go (xs : list (Z * Z)) : Z :=
     match xs with [] => 0 | (t, _) :: r => if t <? ps then 1 + go r else 0 end) xs.

Fixpoint reaches (ps : Z) (xs : list (Z * Z)) : bool :=
  match xs with [] => false | (t, _) :: r => if t <? ps then reaches ps r else true end.

(** For a list sorted by time and pStart <= pEnd the walk returns
    [nr + number of elements before pStart] as soon as some element is at or after pStart,
    and the unchanged initial value otherwise. *)
Lemma walk_nr_inside : forall ps pe xs nr out c acc,
  ps <= pe -> sortedT xs -> (forall x, In x xs -> ps <= fst x) -> out = nr ->
  snd (walk ps pe xs nr out (c :: acc)) = nr.
Proof.
  induction xs as [|[t d] r IH]; intros nr out c acc Hpe Hs Hge Ho.
  - cbn. assumption.
  - cbn [walk].
    assert (ps <= t) by (apply (Hge (t, d)); now left).
    destruct (t <? ps) eqn:E1; [lia|].
    destruct (t >=? pe); [reflexivity|].
    assert (Hs' : sortedT r) by (cbn in Hs; destruct r as [|[? ?] ?]; [exact I|apply Hs]).
    destruct (d =? e_d c); apply IH; try assumption; intros; apply Hge; now right.
Qed.

Lemma sortedT_ge : forall xs t d, sortedT ((t, d) :: xs) -> forall x, In x xs -> t <= fst x.
Proof.
  induction xs as [|[t' d'] r IH]; intros t d Hs x Hin; [destruct Hin|].
  cbn [sortedT] in Hs. destruct Hs as [Hle Hs]. destruct Hin as [<-|Hin]; [cbn; lia|].
  specialize (IH t' d' Hs x Hin). lia.
Qed.

Lemma filter_nil {A} (f : A -> bool) (l : list A) : (forall x, In x l -> f x = false) -> filter f l = [].
Proof.
  induction l as [|a l IH]; intros H; [reflexivity|].
  cbn. rewrite (H a) by now left. apply IH. intros; apply H; now right.
Qed.

Lemma walk_nr : forall ps pe xs nr,
  ps <= pe -> sortedT xs ->
  snd (walk ps pe xs nr nr []) = if reaches ps xs then nr + countBefore ps xs else nr.
Proof.
  intros ps pe xs nr Hpe. revert nr.
  assert (G : forall ys nr out, sortedT ys ->
             snd (walk ps pe ys nr out []) = if reaches ps ys then nr + countBefore ps ys else out).
  { clear xs. induction ys as [|[t d] r IH]; intros nr out Hs.
    - reflexivity.
    - cbn [walk reaches]. unfold countBefore. cbn [filter fst].
      assert (Hs' : sortedT r) by (cbn in Hs; destruct r as [|[? ?] ?]; [exact I|apply Hs]).
      destruct (t <? ps) eqn:E1.
      + rewrite IH by assumption. rewrite lenZ_cons. fold (countBefore ps r).
        destruct (reaches ps r); lia.
      + assert (Hnone : filter (fun x : Z * Z => fst x <? ps) r = []).
        { apply filter_nil. intros x Hin. pose proof (sortedT_ge _ _ _ Hs x Hin). lia. }
        rewrite Hnone. cbn [lenZ length].
        destruct (t >=? pe); [cbn; lia|].
        rewrite walk_nr_inside; try assumption; try reflexivity; [cbn; lia|].
        intros x Hin. pose proof (sortedT_ge _ _ _ Hs x Hin). lia. }
  intros nr Hs. apply G. assumption.
Qed.

(** * 3. The window as a filter *)

Lemma window_filter_sorted ps pe xs : sortedT xs ->
  window ps pe xs = filter (inWin ps pe) xs.
Proof.
  induction xs as [|[t d] r IH]; intros Hs; [reflexivity|].
  cbn [window filter]. unfold inWin at 1. cbn [fst].
  assert (Hs' : sortedT r) by (cbn in Hs; destruct r as [|[? ?] ?]; [exact I|apply Hs]).
  destruct (t <? ps) eqn:E1.
  - replace (ps <=? t) with false by lia. cbn. now apply IH.
  - destruct (t >=? pe) eqn:E2.
    + replace (t <? pe) with false by lia. rewrite andb_false_r.
      symmetry. clear IH. induction r as [|[t' d'] r' IHr]; [reflexivity|].
      cbn [filter]. unfold inWin at 1. cbn [fst].
      assert (t <= t') by (apply (sortedT_ge _ _ _ Hs (t', d')); now left).
      replace (t' <? pe) with false by lia. rewrite andb_false_r. apply IHr.
      * cbn [sortedT] in Hs. destruct Hs as [_ Hs]. destruct r' as [|[t'' d''] r'']; [exact I|].
        cbn [sortedT] in *. destruct Hs as [? ?]. split; [lia|assumption].
      * cbn [sortedT] in Hs'. destruct r' as [|[? ?] ?]; [exact I|apply Hs'].
    + replace (ps <=? t) with true by lia. replace (t <? pe) with true by lia. cbn. f_equal. now apply IH.
Qed.

Lemma chain_sorted xs : Forall (fun x => 0 <= snd x) xs -> chain xs -> sortedT xs.
Proof.
  induction xs as [|[t d] r IH]; intros HF HC; [exact I|].
  destruct r as [|[t' d'] r']; [exact I|].
  cbn [chain sortedT] in *. destruct HC as [-> HC]. inversion HF as [|? ? Hd HF']; subst. cbn in Hd.
  split; [lia|]. apply IH; assumption.
Qed.

Lemma chain_runChain xs : chain xs -> runChain xs.
Proof.
  induction xs as [|[t d] r IH]; intros HC; [exact I|].
  destruct r as [|[t' d'] r']; [exact I|].
  cbn [chain runChain] in *. destruct HC as [-> HC]. split; [reflexivity|]. now apply IH.
Qed.

(** the kept part of a chain (non-negative durations) is a chain *)
Lemma window_chain ps pe xs : Forall (fun x => 0 <= snd x) xs -> chain xs -> chain (window ps pe xs).
Proof.
  induction xs as [|[t d] r IH]; intros HF HC; [exact I|].
  assert (HC' : chain r) by (cbn in HC; destruct r as [|[? ?] ?]; [exact I|apply HC]).
  inversion HF as [|? ? Hd HF']; subst. cbn in Hd.
  cbn [window].
  destruct (t <? ps) eqn:E1; [now apply IH|].
  destruct (t >=? pe) eqn:E2; [exact I|].
  specialize (IH HF' HC').
  destruct r as [|[t' d'] r']; [exact I|].
  cbn [chain] in HC. destruct HC as [-> _].
  cbn [window] in *.
  replace (t + d <? ps) with false in * by lia.
  destruct (t + d >=? pe); [exact I|].
  cbn [chain]. split; [reflexivity|exact IH].
Qed.

(** * 4. C06_reduceS *)

Definition startNrOf (o : option Z) : Z := match o with Some n => n | None => 0 end.

(** General form: any <S> list (t present or absent, any r), any period bounds. *)
Theorem reduceS_general : forall es snr tsc pS0 pE0,
  let xs := expandP es in
  let ps := u64 (pS0 * u64 tsc) in
  let pe := u64 (pE0 * u64 tsc) in
  inRange xs -> 0 <= startNrOf snr -> startNrOf snr + lenZ xs < two32 ->
  runChain (window ps pe xs) ->
  expand (fst (reduceS es snr tsc pS0 pE0)) = window ps pe xs /\
  maximalRuns (fst (reduceS es snr tsc pS0 pE0)) /\
  (ps <= pe -> sortedT xs ->
   snd (reduceS es snr tsc pS0 pE0) =
   if reaches ps xs then startNrOf snr + countBefore ps xs else startNrOf snr).
Proof.
  intros es snr tsc pS0 pE0 xs ps pe Hr Hn0 Hn HC.
  unfold reduceS. fold ps pe. fold (startNrOf snr).
  rewrite reduceLoop_walk; cbn [rs_t rs_nr rs_out rs_acc]; try assumption.
  fold (expandP es). fold xs.
  split; [|split].
  - rewrite walk_expand; try assumption; [reflexivity|constructor|exact I].
  - apply walk_maximal. exact I.
  - intros Hpe Hs. now apply walk_nr.
Qed.

(** The form of DESIGN.md: a contiguous timeline with non-negative durations, period [p, p+P). *)
Theorem reduceS_spec : forall es snr tsc pS0 pE0,
  let xs := expandP es in
  let ps := pS0 * tsc in
  let pe := pE0 * tsc in
  chain xs -> inRange xs -> 0 <= startNrOf snr -> startNrOf snr + lenZ xs < two32 ->
  0 <= tsc < two64 -> 0 <= ps <= pe -> pe < two64 ->
  expand (fst (reduceS es snr tsc pS0 pE0)) = filter (inWin ps pe) xs /\
  maximalRuns (fst (reduceS es snr tsc pS0 pE0)) /\
  snd (reduceS es snr tsc pS0 pE0) =
    (if reaches ps xs then startNrOf snr + countBefore ps xs else startNrOf snr).
Proof.
  intros es snr tsc pS0 pE0 xs ps pe HC Hr Hn0 Hn Hts Hps Hpe.
  assert (Hnn : Forall (fun x => 0 <= snd x) xs).
  { eapply Forall_impl; [|exact Hr]. cbn. intros; lia. }
  assert (Hs : sortedT xs) by (apply chain_sorted; assumption).
  pose proof (reduceS_general es snr tsc pS0 pE0) as G. cbn zeta in G.
  fold xs in G.
  rewrite (u64_id tsc) in G by lia.
  fold ps pe in G. rewrite (u64_id ps), (u64_id pe) in G by lia.
  specialize (G Hr Hn0 Hn).
  assert (HW : runChain (window ps pe xs)) by (apply chain_runChain, window_chain; assumption).
  destruct (G HW) as (G1 & G2 & G3).
  split; [|split]; try assumption.
  - rewrite G1. now apply window_filter_sorted.
  - apply G3; [lia|assumption].
Qed.
