(** Proofs about splitPeriod (theories/Periods.v): period ids/starts, rejection, the
    periods-per-hour range, the partition of the single-period timeline, numbers. *)
From Verif Require Import GoSem GoSemFacts Timeline TimelineProofs Periods PeriodsProofs.
From Coq Require Import ZifyBool.
Ltac Zify.zify_post_hook ::= Z.div_mod_to_equations.

(** * mapM *)

Lemma mapM_ok {A B} (f : A -> res B) l ys : mapM f l = Ok ys -> Forall2 (fun x y => f x = Ok y) l ys.
Proof.
  revert ys; induction l as [|x l IH]; intros ys H; cbn in H.
  - inversion H. constructor.
  - destruct (f x) eqn:E; cbn in H; try discriminate.
    destruct (mapM f l) eqn:E2; cbn in H; try discriminate.
    inversion H; subst. constructor; [assumption|]. now apply IH.
Qed.

Lemma mapM_not_err {A B} (f : A -> res B) l e : (forall x e', f x <> Err e') -> mapM f l <> Err e.
Proof.
  intros Hf. induction l as [|x l IH]; cbn; [discriminate|].
  destruct (f x) eqn:E; cbn; [|exfalso; eapply Hf; eassumption|discriminate].
  destruct (mapM f l) eqn:E2; cbn; [discriminate| |discriminate].
  intros H. inversion H; subst. now apply IH.
Qed.

Lemma Forall2_nth_error {A B} (R : A -> B -> Prop) l l' j a :
  Forall2 R l l' -> nth_error l j = Some a -> exists b, nth_error l' j = Some b /\ R a b.
Proof.
  intros H. revert j. induction H; intros j Hj; destruct j; cbn in *; try discriminate.
  - inversion Hj; subst. eauto.
  - now apply IHForall2.
Qed.

Lemma Forall2_impl {A B} (R1 R2 : A -> B -> Prop) :
  (forall a b, R1 a b -> R2 a b) -> forall l1 l2, Forall2 R1 l1 l2 -> Forall2 R2 l1 l2.
Proof. intros H l1 l2. induction 1; constructor; auto. Qed.

Lemma Forall2_seqZ_range {B} (R : Z -> B -> Prop) : forall n s l,
  Forall2 R (seqZ s n) l -> Forall2 (fun k p => s <= k < s + Z.of_nat n /\ R k p) (seqZ s n) l.
Proof.
  induction n; intros s l H; cbn [seqZ] in *.
  - inversion H. constructor.
  - inversion H as [|k p l0 l' Hkp Hrest]; subst. constructor; [split; [lia|assumption]|].
    specialize (IHn (s + 1) l' Hrest).
    eapply Forall2_impl; [|exact IHn]. cbn. intros a b [? ?]. split; [lia|assumption].
Qed.

Lemma Forall2_flat_map {A B C} (f : A -> list C) (g : B -> list C) l l' :
  Forall2 (fun a b => g b = f a) l l' -> flat_map g l' = flat_map f l.
Proof. induction 1; cbn; [reflexivity|]. now rewrite H, IHForall2. Qed.

Lemma Forall2_Forall_r {A B} (R : A -> B -> Prop) (Q : B -> Prop) l l' :
  Forall2 R l l' -> (forall x y, R x y -> Q y) -> Forall Q l'.
Proof. induction 1; intros HQ; constructor; eauto. Qed.

Lemma Forall2_map_eq {A B C} (f : B -> C) (g : A -> C) (R : A -> B -> Prop) l l' :
  Forall2 R l l' -> (forall a b, R a b -> f b = g a) -> map f l' = map g l.
Proof. induction 1; intros HQ; cbn; [reflexivity|]. rewrite (HQ _ _ H). f_equal. auto. Qed.

(** * splitAS *)

Definition snrFor (mode : mpdType) (a : asIn) : option Z :=
  match mode with MTimelineNr => a_startNr a | _ => None end.

Lemma splitAS_not_err mode cont snr k P a e : splitAS false mode cont snr k P a <> Err e.
Proof.
  unfold splitAS. destruct (templateType mode a).
  - destruct (a_dur a); [|discriminate]. destruct (_ =? 0); discriminate.
  - destruct (a_tl a); [|discriminate]. destruct (reduceS _ _ _ _ _). discriminate.
  - destruct (a_tl a); [|discriminate]. destruct (reduceS _ _ _ _ _). discriminate.
Qed.

Lemma splitAS_common mode cont snr k P a o :
  splitAS false mode cont snr k P a = Ok o -> o_pto o = u64 (k * P * tsOf a) /\ o_cont o = cont.
Proof.
  unfold splitAS. fold (tsOf a). destruct (templateType mode a).
  - destruct (a_dur a); [|discriminate]. destruct (_ =? 0); [discriminate|].
    intros H; inversion H; subst; cbn; auto.
  - destruct (a_tl a); [|discriminate]. destruct (reduceS _ _ _ _ _).
    intros H; inversion H; subst; cbn; auto.
  - destruct (a_tl a); [|discriminate]. destruct (reduceS _ _ _ _ _).
    intros H; inversion H; subst; cbn; auto.
Qed.

Lemma splitAS_number mode cont snr k P a o :
  templateType mode a = MNumber -> splitAS false mode cont snr k P a = Ok o ->
  exists d, a_dur a = Some d /\ d <> 0 /\
            o_startNr o = Some (u32 (Z.quot (k * P * tsOf a) d + snr)) /\ o_tl o = a_tl a.
Proof.
  unfold splitAS. fold (tsOf a). intros ->.
  destruct (a_dur a) as [d|]; [|discriminate]. destruct (d =? 0) eqn:E; [discriminate|].
  intros H; inversion H; subst; cbn. exists d. repeat split; auto. lia.
Qed.

Lemma splitAS_timeline mode cont snr k P a o :
  templateType mode a <> MNumber -> splitAS false mode cont snr k P a = Ok o ->
  exists es, a_tl a = Some es /\
    o_tl o = Some (map ofEntry (fst (reduceS es (snrFor mode a) (tsOf a) (u64 (k * P)) (u64 ((k + 1) * P))))) /\
    o_startNr o = match mode with
                  | MTimelineNr => Some (snd (reduceS es (snrFor mode a) (tsOf a) (u64 (k * P)) (u64 ((k + 1) * P))))
                  | _ => a_startNr a
                  end.
Proof.
  unfold splitAS, templateType, snrFor. fold (tsOf a). intros Hm.
  destruct (a_image a); [congruence|].
  destruct mode; [congruence| |].
  - destruct (a_tl a) as [es|]; [|discriminate].
    destruct (reduceS es None (tsOf a) _ _) as [outS nr] eqn:E.
    intros H; inversion H; subst; cbn. exists es. rewrite E. repeat split; auto.
  - destruct (a_tl a) as [es|]; [|discriminate].
    destruct (reduceS es (a_startNr a) (tsOf a) _ _) as [outS nr] eqn:E.
    intros H; inversion H; subst; cbn. exists es. rewrite E. repeat split; auto.
Qed.

(** * splitPeriod: structure of the result *)

Lemma periodOf_ok mode cont snr P ases k p :
  periodOf false mode cont snr P ases k = Ok p ->
  pd_nr p = k /\ pd_start p = k * P /\
  Forall2 (fun a o => splitAS false mode cont snr k P a = Ok o) ases (pd_as p).
Proof.
  unfold periodOf. destruct (mapM _ ases) eqn:E; cbn; try discriminate.
  intros H; inversion H; subst; cbn. repeat split; auto. now apply mapM_ok.
Qed.

Lemma periodOf_not_err mode cont snr P ases k e : periodOf false mode cont snr P ases k <> Err e.
Proof.
  unfold periodOf. destruct (mapM _ ases) eqn:E; cbn; try discriminate.
  exfalso. revert E. apply mapM_not_err. intros; apply splitAS_not_err.
Qed.

Lemma quot_pos a b : 0 <= a -> 0 < b -> Z.quot a b = a / b.
Proof. intros. now apply Z.quot_div_nonneg. Qed.

Lemma rem_pos a b : 0 <= a -> 0 < b -> Z.rem a b = a mod b.
Proof. intros. now apply Z.rem_mod_nonneg. Qed.

Definition periodDurOf (pph : Z) : Z := 3600 / pph.

Lemma periodDur_pos pph : 1 <= pph <= 3600 -> 1 <= periodDurOf pph <= 3600.
Proof. unfold periodDurOf. intros. split; [apply Z.div_le_lower_bound; lia|apply Z.div_le_upper_bound; lia]. Qed.

(** The result of an accepted call: one period per k in the range [ka, kb] that [rangeOf] gives
    ([k0, k1] itself without the widening repair), id P<k>, start k*P. *)
Theorem splitPeriod_structure_gen w pph seg mode cont ast snr st now ases ps :
  1 <= pph <= 3600 -> 0 < seg -> ast <= st -> ast <= now ->
  splitPeriod false w pph seg mode cont ast snr st now ases = Ok ps ->
  let P := periodDurOf pph in
  let k0 := (st - ast) / (P * 1000) in
  let k1 := (now - ast) / (P * 1000) in
  (P * 1000) mod seg = 0 /\
  exists ka kb, rangeOf w mode P ases k0 k1 (kminOf w P ast st k0) (kmaxOf w P ast now k1) = Ok (ka, kb) /\
  Forall2 (fun k p => pd_nr p = k /\ pd_start p = k * P /\
                      Forall2 (fun a o => splitAS false mode cont snr k P a = Ok o) ases (pd_as p))
          (seqZ ka (Z.to_nat (kb - ka + 1))) ps.
Proof.
  intros Hpph Hseg Hst Hnow H P k0 k1.
  pose proof (periodDur_pos pph Hpph) as HP. fold P in HP.
  unfold splitPeriod in H.
  replace (pph =? 0) with false in H by lia.
  rewrite (quot_pos 3600 pph) in H by lia. fold (periodDurOf pph) in H. fold P in H.
  replace (seg =? 0) with false in H by lia.
  rewrite (rem_pos (P * 1000) seg) in H by lia.
  destruct (negb (P * 1000 mod seg =? 0)) eqn:E; [discriminate|].
  replace (P * 1000 =? 0) with false in H by lia.
  rewrite (quot_pos (st - ast)), (quot_pos (now - ast)) in H by lia. fold k0 k1 in H.
  cbv zeta in H.
  destruct (rangeOf w mode P ases k0 k1 (kminOf w P ast st k0) (kmaxOf w P ast now k1)) as [[ka kb]| |] eqn:ER; cbn [bind fst snd] in H; try discriminate.
  destruct (kb - ka + 1 <? 0) eqn:E2; [discriminate|].
  split; [lia|]. exists ka, kb. split; [reflexivity|].
  apply mapM_ok in H.
  eapply Forall2_impl; [|exact H]. cbn. intros k p Hk. now apply periodOf_ok.
Qed.

Theorem splitPeriod_structure pph seg mode cont ast snr st now ases ps :
  1 <= pph <= 3600 -> 0 < seg -> ast <= st -> ast <= now ->
  splitPeriod false None pph seg mode cont ast snr st now ases = Ok ps ->
  let P := periodDurOf pph in
  let k0 := (st - ast) / (P * 1000) in
  let k1 := (now - ast) / (P * 1000) in
  (P * 1000) mod seg = 0 /\
  Forall2 (fun k p => pd_nr p = k /\ pd_start p = k * P /\
                      Forall2 (fun a o => splitAS false mode cont snr k P a = Ok o) ases (pd_as p))
          (seqZ k0 (Z.to_nat (k1 - k0 + 1))) ps.
Proof.
  intros Hpph Hseg Hst Hnow H P k0 k1.
  destruct (splitPeriod_structure_gen None pph seg mode cont ast snr st now ases ps Hpph Hseg Hst Hnow H)
    as (Hm & ka & kb & ER & F).
  fold P k0 k1 in ER, F. cbn in ER. inversion ER; subst. split; assumption.
Qed.

(** * Rejection and the periods-per-hour range *)

Lemma widenRange_not_err P ases kmin kmax : forall k0 k1 e, widenRange P ases kmin kmax k0 k1 <> Err e.
Proof.
  induction ases as [|a l IH]; intros k0 k1 e; cbn [widenRange]; [discriminate|].
  destruct (a_tl a); [|apply IH]. destruct (firstLast l0) as [[f la]|]; [|apply IH].
  destruct (_ =? 0); [discriminate|apply IH].
Qed.

Lemma rangeOf_not_err w mode P ases k0 k1 kmin kmax e : rangeOf w mode P ases k0 k1 kmin kmax <> Err e.
Proof. unfold rangeOf. destruct w, mode; try discriminate; apply widenRange_not_err. Qed.

Theorem splitPeriod_reject w pph seg mode cont ast snr st now ases :
  1 <= pph <= 3600 -> 0 < seg ->
  ((periodDurOf pph * 1000) mod seg <> 0 <->
   exists e, splitPeriod false w pph seg mode cont ast snr st now ases = Err e).
Proof.
  intros Hpph Hseg.
  pose proof (periodDur_pos pph Hpph) as HP.
  unfold splitPeriod.
  replace (pph =? 0) with false by lia.
  rewrite (quot_pos 3600 pph) by lia. fold (periodDurOf pph).
  replace (seg =? 0) with false by lia.
  rewrite (rem_pos (periodDurOf pph * 1000) seg) by lia.
  destruct (periodDurOf pph * 1000 mod seg =? 0) eqn:E; cbn [negb].
  - split; [lia|]. intros [e He]. exfalso.
    replace (periodDurOf pph * 1000 =? 0) with false in He by lia.
    cbv zeta in He.
    match type of He with context [rangeOf ?a ?b ?c ?d ?e ?f ?g ?h] => destruct (rangeOf a b c d e f g h) as [[ka kb]|e'|] eqn:ER end;
      cbn [bind fst snd] in He; [|exfalso; eapply rangeOf_not_err; exact ER|discriminate].
    match type of He with context [if ?c then _ else _] => destruct c end; [discriminate|].
    revert He. apply mapM_not_err. intros; apply periodOf_not_err.
  - split; [eauto|]. lia.
Qed.

Theorem splitPeriod_pph_zero w seg mode cont ast snr st now ases :
  splitPeriod false w 0 seg mode cont ast snr st now ases = Panic "splitPeriod: integer divide by zero".
Proof. reflexivity. Qed.

Theorem splitPeriod_pph_big w pph seg mode cont ast snr st now ases :
  3600 < pph -> splitPeriod false w pph seg mode cont ast snr st now ases = Panic "splitPeriod: integer divide by zero".
Proof.
  intros H. unfold splitPeriod.
  replace (pph =? 0) with false by lia.
  assert (Z.quot 3600 pph = 0) as -> by (apply Z.quot_small; lia).
  destruct (seg =? 0) eqn:Es; [reflexivity|].
  cbn [Z.mul]. replace (Z.rem 0 seg) with 0 by (symmetry; apply Z.rem_0_l; lia). reflexivity.
Qed.

(** * The partition *)

Lemma expandP_ofEntry : forall out t, expandFrom t (map ofEntry out) = expand out.
Proof.
  induction out as [|c out IH]; intros t; [reflexivity|].
  cbn [map expandFrom ofEntry p_t p_d p_r]. unfold expand in *. cbn [flat_map].
  f_equal. apply IH.
Qed.

(** two adjacent windows of a sorted list *)
Lemma filter_win_app a b c xs : a <= b <= c -> sortedT xs ->
  filter (inWin a b) xs ++ filter (inWin b c) xs = filter (inWin a c) xs.
Proof.
  intros Habc. induction xs as [|[t d] r IH]; intros Hs; [reflexivity|].
  assert (Hs' : sortedT r) by (cbn in Hs; destruct r as [|[? ?] ?]; [exact I|apply Hs]).
  destruct (t <? b) eqn:E.
  - cbn [filter].
    assert (E1 : inWin b c (t, d) = false) by (unfold inWin; cbn [fst]; lia).
    assert (E2 : inWin a c (t, d) = inWin a b (t, d)) by (unfold inWin; cbn [fst]; lia).
    rewrite E1, E2. destruct (inWin a b (t, d)); cbn [app]; rewrite <- IH by assumption; reflexivity.
  - assert (Hge : forall x, In x ((t, d) :: r) -> b <= fst x).
    { intros x [<-|Hin]; [cbn; lia|]. pose proof (sortedT_ge _ _ _ Hs x Hin). lia. }
    rewrite (filter_nil (inWin a b)).
    + cbn [app]. apply filter_ext_in. intros x Hin. specialize (Hge x Hin). unfold inWin. lia.
    + intros x Hin. specialize (Hge x Hin). unfold inWin. lia.
Qed.

Lemma seqZ_snoc : forall n k, seqZ k (Datatypes.S n) = seqZ k n ++ [k + Z.of_nat n].
Proof.
  induction n; intros k.
  - cbn. f_equal. lia.
  - change (seqZ k (Datatypes.S (Datatypes.S n))) with (k :: seqZ (k + 1) (Datatypes.S n)).
    rewrite IHn. cbn [seqZ app]. do 3 f_equal. lia.
Qed.

Lemma filter_win_seq P ts xs : 0 < P -> 0 < ts -> sortedT xs -> forall n k0,
  flat_map (fun k => filter (inWin (k * P * ts) ((k + 1) * P * ts)) xs) (seqZ k0 n)
  = filter (inWin (k0 * P * ts) ((k0 + Z.of_nat n) * P * ts)) xs.
Proof.
  intros HP Hts Hs. induction n; intros k0.
  - cbn [seqZ flat_map]. symmetry. apply filter_nil. intros x _. unfold inWin. lia.
  - rewrite seqZ_snoc, flat_map_app, IHn. cbn [flat_map]. rewrite app_nil_r.
    rewrite filter_win_app; [f_equal; f_equal; lia| nia |assumption].
Qed.

(** The expanded timeline of period k, for the [j]-th AdaptationSet. *)
Definition periodTimeline (j : nat) (p : period) : list (Z * Z) :=
  match nth_error (pd_as p) j with
  | Some o => match o_tl o with Some l => expandP l | None => [] end
  | None => []
  end.
Definition periodPTO (j : nat) (p : period) : option Z := option_map o_pto (nth_error (pd_as p) j).
Definition periodStartNr (j : nat) (p : period) : option Z :=
  match nth_error (pd_as p) j with Some o => o_startNr o | None => None end.

(** Hypotheses on the single-period timeline of one AdaptationSet. *)
Record goodTL (es : list pS) (snr : option Z) (ts hi : Z) : Prop := {
  g_chain : chain (expandP es);
  g_range : inRange (expandP es);
  g_snr : 0 <= startNrOf snr;
  g_nr : startNrOf snr + lenZ (expandP es) < two32;
  g_ts : 0 < ts < two64;
  g_hi : hi * ts < two64
}.

Lemma one_period es snr ts P k hi :
  goodTL es snr ts hi -> 0 < P -> 0 <= k -> (k + 1) * P <= hi ->
  let ps := k * P * ts in let pe := (k + 1) * P * ts in
  expand (fst (reduceS es snr ts (u64 (k * P)) (u64 ((k + 1) * P)))) = filter (inWin ps pe) (expandP es) /\
  maximalRuns (fst (reduceS es snr ts (u64 (k * P)) (u64 ((k + 1) * P)))) /\
  snd (reduceS es snr ts (u64 (k * P)) (u64 ((k + 1) * P))) =
    (if reaches ps (expandP es) then startNrOf snr + countBefore ps (expandP es) else startNrOf snr).
Proof.
  intros G HP Hk Hhi ps pe. destruct G.
  assert (hi < two64) by nia.
  rewrite (u64_id (k * P)), (u64_id ((k + 1) * P)) by nia.
  apply reduceS_spec; try assumption; try lia; unfold ps, pe; nia.
Qed.

(** Partition: for an AdaptationSet with a SegmentTimeline (not a thumbnail set), the
    concatenation of the periods' expanded timelines is the single-period timeline restricted to
    [k0*P*ts, (k1+1)*P*ts); each period holds exactly the segments that start inside it; its
    presentationTimeOffset is its start in the media timescale. *)
Lemma partition_range mode cont snr ases ps j a es P ka kb :
  1 <= P -> 0 <= ka <= kb ->
  Forall2 (fun k p => pd_nr p = k /\ pd_start p = k * P /\
                      Forall2 (fun a o => splitAS false mode cont snr k P a = Ok o) ases (pd_as p))
          (seqZ ka (Z.to_nat (kb - ka + 1))) ps ->
  nth_error ases j = Some a -> templateType mode a <> MNumber -> a_tl a = Some es ->
  let ts := tsOf a in
  goodTL es (snrFor mode a) ts ((kb + 1) * P) ->
  flat_map (periodTimeline j) ps = filter (inWin (ka * P * ts) ((kb + 1) * P * ts)) (expandP es) /\
  Forall (fun p => periodTimeline j p = filter (inWin (pd_nr p * P * ts) ((pd_nr p + 1) * P * ts)) (expandP es) /\
                   periodPTO j p = Some (pd_start p * ts) /\
                   (mode = MTimelineNr ->
                    periodStartNr j p =
                    Some (if reaches (pd_nr p * P * ts) (expandP es)
                          then startNrOf (a_startNr a) + countBefore (pd_nr p * P * ts) (expandP es)
                          else startNrOf (a_startNr a)))) ps.
Proof.
  intros HP [Hk0 Hk01] F Hj Hm Htl ts G.
  set (k0 := ka) in *. set (k1 := kb) in *.
  assert (Hs : sortedT (expandP es)).
  { destruct G. apply chain_sorted; [|assumption]. eapply Forall_impl; [|exact g_range0]. cbn; intros; lia. }
  assert (Hts : 0 < ts) by (destruct G; lia).
  set (n := Z.to_nat (k1 - k0 + 1)) in *.
  assert (Hn : Z.of_nat n = k1 - k0 + 1) by (unfold n; lia).
  apply Forall2_seqZ_range in F.
  (* per period *)
  assert (Each : Forall2 (fun k p =>
             periodTimeline j p = filter (inWin (k * P * ts) ((k + 1) * P * ts)) (expandP es) /\
             (periodTimeline j p = filter (inWin (pd_nr p * P * ts) ((pd_nr p + 1) * P * ts)) (expandP es) /\
              periodPTO j p = Some (pd_start p * ts) /\
              (mode = MTimelineNr -> periodStartNr j p =
                    Some (if reaches (pd_nr p * P * ts) (expandP es)
                          then startNrOf (a_startNr a) + countBefore (pd_nr p * P * ts) (expandP es)
                          else startNrOf (a_startNr a)))))
           (seqZ k0 n) ps).
  { eapply Forall2_impl; [|exact F]. cbn beta.
    intros k p (Hk & Hnr & Hstart & Has).
    destruct (Forall2_nth_error _ _ _ _ _ Has Hj) as (o & Ho & Hsplit).
    destruct (splitAS_timeline _ _ _ _ _ _ _ Hm Hsplit) as (es' & Hes' & Hotl & Hosnr).
    rewrite Htl in Hes'. inversion Hes'; subst es'. clear Hes'.
    destruct (splitAS_common _ _ _ _ _ _ _ Hsplit) as (Hpto & _).
    fold ts in Hotl, Hosnr, Hpto.
    pose proof (one_period es (snrFor mode a) ts P k ((k1 + 1) * P) G ltac:(lia) ltac:(lia) ltac:(nia)) as (O1 & _ & O3).
    assert (HT : periodTimeline j p = filter (inWin (k * P * ts) ((k + 1) * P * ts)) (expandP es)).
    { unfold periodTimeline. rewrite Ho, Hotl. unfold expandP at 1. rewrite expandP_ofEntry. exact O1. }
    split; [exact HT|]. rewrite Hnr. split; [exact HT|]. split.
    - unfold periodPTO. rewrite Ho. cbn. rewrite Hpto, Hstart. f_equal.
      apply u64_id. destruct G. nia.
    - intros ->. unfold periodStartNr. rewrite Ho, Hosnr. f_equal. exact O3. }
  split.
  - rewrite (Forall2_flat_map (fun k => filter (inWin (k * P * ts) ((k + 1) * P * ts)) (expandP es)) (periodTimeline j) (seqZ k0 n) ps).
    + rewrite filter_win_seq by (assumption || lia). do 2 f_equal. lia.
    + eapply Forall2_impl; [|exact Each]. cbn beta. intros k p [E _]. exact E.
  - eapply Forall2_Forall_r; [exact Each|]. cbn beta. intros k p [_ E]. exact E.
Qed.

Theorem splitPeriod_partition pph seg mode cont ast snr st now ases ps j a es :
  1 <= pph <= 3600 -> 0 < seg -> ast <= st <= now ->
  splitPeriod false None pph seg mode cont ast snr st now ases = Ok ps ->
  nth_error ases j = Some a -> templateType mode a <> MNumber -> a_tl a = Some es ->
  let P := periodDurOf pph in
  let k0 := (st - ast) / (P * 1000) in
  let k1 := (now - ast) / (P * 1000) in
  let ts := tsOf a in
  goodTL es (snrFor mode a) ts ((k1 + 1) * P) ->
  flat_map (periodTimeline j) ps = filter (inWin (k0 * P * ts) ((k1 + 1) * P * ts)) (expandP es) /\
  Forall (fun p => periodTimeline j p = filter (inWin (pd_nr p * P * ts) ((pd_nr p + 1) * P * ts)) (expandP es) /\
                   periodPTO j p = Some (pd_start p * ts) /\
                   (mode = MTimelineNr ->
                    periodStartNr j p =
                    Some (if reaches (pd_nr p * P * ts) (expandP es)
                          then startNrOf (a_startNr a) + countBefore (pd_nr p * P * ts) (expandP es)
                          else startNrOf (a_startNr a)))) ps.
Proof.
  intros Hpph Hseg Hst H Hj Hm Htl P k0 k1 ts G.
  pose proof (periodDur_pos pph Hpph) as HP. fold P in HP.
  destruct (splitPeriod_structure pph seg mode cont ast snr st now ases ps Hpph Hseg ltac:(lia) ltac:(lia) H) as [_ F].
  fold P k0 k1 in F.
  assert (Hk0 : 0 <= k0) by (unfold k0; apply Z.div_pos; lia).
  assert (Hk01 : k0 <= k1) by (unfold k0, k1; apply Z.div_le_mono; lia).
  exact (partition_range mode cont snr ases ps j a es P k0 k1 ltac:(lia) ltac:(lia) F Hj Hm Htl G).
Qed.

(** * Corollaries of the partition *)

(** If no listed segment starts at or after the end of the last period (true when the
    availabilityTimeOffset is smaller than the segment duration: a listed segment has ended by
    now + ato, hence started before now), the concatenation is the single-period timeline
    restricted to t >= start of the first period. *)
Lemma filter_win_open lo hi xs : Forall (fun x => fst x < hi) xs ->
  filter (inWin lo hi) xs = filter (fun x => lo <=? fst x) xs.
Proof.
  intros H. apply filter_ext_in. intros x Hin.
  rewrite Forall_forall in H. specialize (H x Hin). unfold inWin. lia.
Qed.

(** every segment is in exactly one period: the one containing its start *)
Lemma in_window_unique P ts k k' t : 0 < P -> 0 < ts ->
  k * P * ts <= t < (k + 1) * P * ts -> k' * P * ts <= t < (k' + 1) * P * ts -> k = k'.
Proof. intros. nia. Qed.

Lemma in_window_which P ts t : 0 < P -> 0 < ts -> 0 <= t ->
  let k := t / (P * ts) in k * P * ts <= t < (k + 1) * P * ts.
Proof.
  intros HP Hts Ht k. unfold k.
  pose proof (Z.mul_div_le t (P * ts) ltac:(nia)).
  pose proof (Z.mul_succ_div_gt t (P * ts) ltac:(nia)). nia.
Qed.

Theorem splitPeriod_exactly_one pph seg mode cont ast snr st now ases ps j a es :
  1 <= pph <= 3600 -> 0 < seg -> ast <= st <= now ->
  splitPeriod false None pph seg mode cont ast snr st now ases = Ok ps ->
  nth_error ases j = Some a -> templateType mode a <> MNumber -> a_tl a = Some es ->
  let P := periodDurOf pph in
  let k0 := (st - ast) / (P * 1000) in
  let k1 := (now - ast) / (P * 1000) in
  let ts := tsOf a in
  goodTL es (snrFor mode a) ts ((k1 + 1) * P) ->
  forall x, In x (expandP es) -> k0 * P * ts <= fst x < (k1 + 1) * P * ts ->
  exists p, In p ps /\ In x (periodTimeline j p) /\
            pd_start p * ts <= fst x < (pd_start p + P) * ts /\
            forall p', In p' ps -> In x (periodTimeline j p') -> pd_nr p' = pd_nr p.
Proof.
  intros Hpph Hseg Hst H Hj Hm Htl P k0 k1 ts G x Hx Hrange.
  pose proof (periodDur_pos pph Hpph) as HP. fold P in HP.
  assert (Hts : 0 < ts) by (destruct G; lia).
  destruct (splitPeriod_partition pph seg mode cont ast snr st now ases ps j a es Hpph Hseg Hst H Hj Hm Htl G) as [Hcat Hall].
  fold P k0 k1 ts in Hcat, Hall.
  assert (Hin : In x (flat_map (periodTimeline j) ps)).
  { rewrite Hcat. apply filter_In. split; [assumption|]. unfold inWin. lia. }
  apply in_flat_map in Hin. destruct Hin as (p & Hp & Hxp).
  rewrite Forall_forall in Hall.
  destruct (splitPeriod_structure pph seg mode cont ast snr st now ases ps Hpph Hseg ltac:(lia) ltac:(lia) H) as [_ F].
  fold P in F.
  assert (Hstart : forall q, In q ps -> pd_start q = pd_nr q * P).
  { intros q Hq. clear -F Hq. induction F as [|k q' l l' [Hk [Hs _]] _ IH]; [destruct Hq|].
    destruct Hq as [<-|Hq]; [lia|auto]. }
  exists p. split; [assumption|]. split; [assumption|].
  destruct (Hall p Hp) as (Hp1 & _).
  assert (Hw : pd_nr p * P * ts <= fst x < (pd_nr p + 1) * P * ts).
  { rewrite Hp1 in Hxp. apply filter_In in Hxp. destruct Hxp as [_ Hw]. unfold inWin in Hw. lia. }
  split; [rewrite (Hstart p Hp); lia|].
  intros p' Hp' Hxp'. destruct (Hall p' Hp') as (Hp1' & _).
  rewrite Hp1' in Hxp'. apply filter_In in Hxp'. destruct Hxp' as [_ Hw']. unfold inWin in Hw'.
  eapply in_window_unique with (P := P) (ts := ts) (t := fst x); lia.
Qed.

(** ids and starts are a function of k only: stable over time *)
Theorem splitPeriod_ids_stable pph seg mode cont ast snr st1 now1 st2 now2 ases1 ases2 ps1 ps2 p1 p2 :
  1 <= pph <= 3600 -> 0 < seg -> ast <= st1 -> ast <= now1 -> ast <= st2 -> ast <= now2 ->
  splitPeriod false None pph seg mode cont ast snr st1 now1 ases1 = Ok ps1 ->
  splitPeriod false None pph seg mode cont ast snr st2 now2 ases2 = Ok ps2 ->
  In p1 ps1 -> In p2 ps2 ->
  pd_start p1 = pd_nr p1 * periodDurOf pph /\
  (pd_nr p1 = pd_nr p2 <-> pd_start p1 = pd_start p2).
Proof.
  intros Hpph Hseg H1 H2 H3 H4 S1 S2 I1 I2.
  pose proof (periodDur_pos pph Hpph) as HP.
  destruct (splitPeriod_structure _ _ _ _ _ _ _ _ _ _ Hpph Hseg H1 H2 S1) as [_ F1].
  destruct (splitPeriod_structure _ _ _ _ _ _ _ _ _ _ Hpph Hseg H3 H4 S2) as [_ F2].
  assert (Q : forall l ps q, Forall2 (fun k p => pd_nr p = k /\ pd_start p = k * periodDurOf pph /\
                 Forall2 (fun a o => splitAS false mode cont snr k (periodDurOf pph) a = Ok o) l (pd_as p)) 
                 (seqZ (fst q) (snd q)) ps -> forall p, In p ps -> pd_start p = pd_nr p * periodDurOf pph).
  { intros l ps q F. induction F as [|k q' la lb [Hk [Hs _]] _ IH]; intros p Hp; [destruct Hp|].
    destruct Hp as [<-|Hp]; [lia|auto]. }
  pose proof (Q ases1 ps1 (_, _) F1 p1 I1) as E1.
  pose proof (Q ases2 ps2 (_, _) F2 p2 I2) as E2.
  split; [assumption|]. rewrite E1, E2. split; [intros ->; reflexivity|]. intros. nia.
Qed.

(** the periods tile wall-clock time: consecutive numbers from the period containing the window
    start to the period containing now *)
Theorem splitPeriod_tiles pph seg mode cont ast snr st now ases ps :
  1 <= pph <= 3600 -> 0 < seg -> ast <= st <= now ->
  splitPeriod false None pph seg mode cont ast snr st now ases = Ok ps ->
  let P := periodDurOf pph in
  let k0 := (st - ast) / (P * 1000) in
  let k1 := (now - ast) / (P * 1000) in
  map pd_nr ps = seqZ k0 (Z.to_nat (k1 - k0 + 1)) /\
  map pd_start ps = map (fun k => k * P) (seqZ k0 (Z.to_nat (k1 - k0 + 1))) /\
  k0 <= k1 /\
  ast + k0 * P * 1000 <= st < ast + (k0 + 1) * P * 1000 /\
  ast + k1 * P * 1000 <= now < ast + (k1 + 1) * P * 1000.
Proof.
  intros Hpph Hseg Hst H P k0 k1.
  pose proof (periodDur_pos pph Hpph) as HP. fold P in HP.
  destruct (splitPeriod_structure pph seg mode cont ast snr st now ases ps Hpph Hseg ltac:(lia) ltac:(lia) H) as [_ F].
  fold P k0 k1 in F.
  split; [|split; [|split; [|split]]].
  - rewrite <- (map_id (seqZ k0 _)). eapply Forall2_map_eq; [exact F|]. cbn beta. intros k p [Hk _]. exact Hk.
  - eapply Forall2_map_eq; [exact F|]. cbn beta. intros k p [_ [Hk _]]. exact Hk.
  - unfold k0, k1. apply Z.div_le_mono; lia.
  - unfold k0. pose proof (in_window_which P 1000 (st - ast) ltac:(lia) ltac:(lia) ltac:(lia)) as Q. cbn zeta in Q. lia.
  - unfold k1. pose proof (in_window_which P 1000 (now - ast) ltac:(lia) ltac:(lia) ltac:(lia)) as Q. cbn zeta in Q. lia.
Qed.

(** * Numbers *)

(** In a time-sorted list the [j]-th element of the window [ps, pe) is element
    [countBefore ps + j] of the whole list: with the start number
    [nr + countBefore ps] every segment keeps the number it has in single-period mode. *)
Lemma window_prefix ps pe xs : sortedT xs -> (forall x, In x xs -> ps <= fst x) ->
  forall j x, nthZ j (filter (inWin ps pe) xs) = Some x -> nthZ j xs = Some x.
Proof.
  induction xs as [|[t d] r IH]; intros Hs Hge j x H; [cbn in H; discriminate|].
  assert (Hs' : sortedT r) by (cbn in Hs; destruct r as [|[? ?] ?]; [exact I|apply Hs]).
  cbn [filter] in H. unfold inWin at 1 in H. cbn [fst] in H.
  assert (ps <= t) by (apply (Hge (t, d)); now left).
  destruct (t <? pe) eqn:E.
  - replace (ps <=? t) with true in H by lia. cbn [andb] in H.
    cbn [nthZ] in *. destruct (j <? 0); [discriminate|]. destruct (j =? 0); [assumption|].
    apply IH; try assumption. intros; apply Hge; now right.
  - rewrite andb_false_r in H.
    rewrite (filter_nil (inWin ps pe)) in H; [cbn in H; discriminate|].
    intros y Hy. pose proof (sortedT_ge _ _ _ Hs y Hy). unfold inWin. lia.
Qed.

Lemma window_index ps pe xs : sortedT xs ->
  forall j x, nthZ j (filter (inWin ps pe) xs) = Some x -> nthZ (countBefore ps xs + j) xs = Some x.
Proof.
  induction xs as [|[t d] r IH]; intros Hs j x H; [cbn in H; discriminate|].
  assert (Hs' : sortedT r) by (cbn in Hs; destruct r as [|[? ?] ?]; [exact I|apply Hs]).
  assert (Hj : 0 <= j).
  { destruct (filter (inWin ps pe) ((t, d) :: r)); cbn [nthZ] in H; [discriminate|]. destruct (j <? 0) eqn:E; [discriminate|lia]. }
  destruct (t <? ps) eqn:E.
  - unfold countBefore. cbn [filter fst]. rewrite E. rewrite lenZ_cons. fold (countBefore ps r).
    cbn [filter] in H. unfold inWin at 1 in H. cbn [fst] in H.
    replace (ps <=? t) with false in H by lia. cbn [andb] in H.
    pose proof (lenZ_nonneg (filter (fun x0 : Z * Z => fst x0 <? ps) r)) as Hc. fold (countBefore ps r) in Hc.
    replace (1 + countBefore ps r + j) with ((countBefore ps r + j) + 1) by lia.
    rewrite nthZ_cons_succ by lia. now apply IH.
  - assert (Hge : forall y, In y ((t, d) :: r) -> ps <= fst y).
    { intros y [<-|Hy]; [cbn; lia|]. pose proof (sortedT_ge _ _ _ Hs y Hy). lia. }
    unfold countBefore. rewrite (filter_nil (fun y => fst y <? ps)).
    + cbn [lenZ length Z.of_nat Z.add]. eapply window_prefix; eassumption.
    + intros y Hy. specialize (Hge y Hy). lia.
Qed.

(** * $Number$ mode *)

(** The segment-duration guard implies that the period start is a whole number of segments when
    the asset-wide [SegmentDurMS] is exactly the duration [d/ts] of this template. *)
Lemma guard_aligned P seg ts d : 0 < seg -> 0 < ts -> 0 < d -> seg * ts = 1000 * d ->
  (P * 1000) mod seg = 0 -> (P * ts) mod d = 0.
Proof.
  intros Hseg Hts Hd Hex Hg.
  apply Z.mod_divide in Hg; [|lia]. destruct Hg as [q Hq].
  apply Z.mod_divide; [lia|]. exists q. nia.
Qed.

Theorem number_mode_aligned mode cont snr k P a o d :
  templateType mode a = MNumber -> splitAS false mode cont snr k P a = Ok o -> a_dur a = Some d ->
  0 <= k -> 0 < P -> 0 < tsOf a -> 0 < d -> (P * tsOf a) mod d = 0 -> 0 <= snr ->
  k * P * tsOf a < two64 -> k * (P * tsOf a / d) + snr < two32 ->
  exists n, o_startNr o = Some n /\ n = snr + k * (P * tsOf a / d) /\ (n - snr) * d = k * P * tsOf a /\
            o_pto o = k * P * tsOf a.
Proof.
  intros Hm Hs Hd Hk HP Hts Hdp Hal Hsnr H64 H32.
  destruct (splitAS_number _ _ _ _ _ _ _ Hm Hs) as (d' & Hd' & _ & Hn & _).
  rewrite Hd in Hd'. inversion Hd'; subst d'. clear Hd'.
  destruct (splitAS_common _ _ _ _ _ _ _ Hs) as (Hpto & _).
  apply Z.mod_divide in Hal; [|lia]. destruct Hal as [q Hq].
  assert (Hq0 : 0 <= q) by nia.
  assert (Hquot : Z.quot (k * P * tsOf a) d = k * q).
  { rewrite quot_pos by nia. replace (k * P * tsOf a) with ((k * q) * d) by nia. apply Z.div_mul. lia. }
  assert (Hdiv : P * tsOf a / d = q) by (rewrite Hq; apply Z.div_mul; lia).
  rewrite Hdiv in *.
  exists (k * q + snr). rewrite Hn, Hquot.
  rewrite u32_id by nia. rewrite Hpto, u64_id by nia.
  repeat split; try reflexivity; nia.
Qed.

(** For a constant-duration representation the looped timeline of C01 is [S r n = n * d]: the
    startNumber of period k is the number C01 gives the segment that starts at k*P. *)
Lemma const_rep_S r loopMS d : wf r loopMS -> Forall (fun s => sdur s = d) (segs r) ->
  forall n, 0 <= n -> S r n = n * d.
Proof.
  intros W Hc.
  pose proof (nsegs_pos r loopMS W) as HN.
  assert (Hat : forall i, 0 <= i < nsegs r -> sdur (segAt r i) = d).
  { intros i Hi. rewrite segAt_atL. apply (forall_at (fun s => sdur s = d)); [assumption|]. exact Hi. }
  assert (Hst : forall i, 0 <= i < nsegs r -> st (segAt r i) = i * d).
  { intros i [Hi0 Hi]. revert Hi. pattern i. apply natlike_ind; [| |assumption].
    - intros _. rewrite (wf_zero r loopMS W). lia.
    - intros x Hx IH Hlt. unfold Z.succ.
      rewrite <- (seg_contig r loopMS W x) by lia.
      specialize (IH ltac:(lia)). pose proof (Hat x ltac:(lia)) as Hd. unfold sdur in Hd. lia. }
  assert (HD : repDuration r = nsegs r * d).
  { rewrite (repDuration_en r loopMS W).
    pose proof (Hat (nsegs r - 1) ltac:(lia)) as Hd. unfold sdur in Hd.
    rewrite (Hst (nsegs r - 1)) in Hd by lia. lia. }
  intros n Hn. unfold S. rewrite HD.
  rewrite Hst by (apply Z.mod_pos_bound; lia).
  pose proof (Z.div_mod n (nsegs r) ltac:(lia)). nia.
Qed.

(** * publishTime in $Number$ mode *)

Lemma splitPeriod_number_widen w pph seg cont ast snr st now ases :
  splitPeriod false w pph seg MNumber cont ast snr st now ases = splitPeriod false None pph seg MNumber cont ast snr st now ases.
Proof. unfold splitPeriod, rangeOf. destruct w; reflexivity. Qed.

Theorem livePeriods_publish w loopMS c now tsbdMS pph seg cont ases ps pt :
  1 <= pph <= 3600 -> 0 < seg -> startS c * 1000 <= now -> 0 <= tsbdMS ->
  livePeriods false w loopMS c now tsbdMS pph seg MNumber cont ases = Ok (ps, pt) ->
  pt = Some (startS c + (now - startS c * 1000) / (periodDurOf pph * 1000) * periodDurOf pph).
Proof.
  intros Hpph Hseg Hs Ht H.
  unfold livePeriods in H.
  replace ((pph <=? 0) || (3600 <? pph)) with false in H by lia.
  set (wt := calcWrapTimes loopMS c now tsbdMS) in *.
  assert (Hw : wnowMS wt = now) by reflexivity.
  assert (Hst : startS c * 1000 <= startTimeMS wt <= now).
  { unfold wt, calcWrapTimes. cbn [startTimeMS]. destruct (now - tsbdMS <? startS c * 1000) eqn:E; lia. }
  rewrite splitPeriod_number_widen in H.
  destruct (splitPeriod false None pph seg MNumber cont (startS c * 1000) (startNr c) (startTimeMS wt) (wnowMS wt) ases) as [ps'| |] eqn:E; cbn in H; try discriminate.
  rewrite Hw in E.
  destruct (splitPeriod_tiles pph seg MNumber cont (startS c * 1000) (startNr c) (startTimeMS wt) now ases ps' Hpph Hseg Hst E) as (_ & Hstarts & Hle & _).
  unfold lastPeriodStartTime in H.
  set (P := periodDurOf pph) in *.
  set (k0 := (startTimeMS wt - startS c * 1000) / (P * 1000)) in *. set (k1 := (now - startS c * 1000) / (P * 1000)) in *.
  assert (Hn : Z.to_nat (k1 - k0 + 1) = Datatypes.S (Z.to_nat (k1 - k0))) by lia.
  rewrite Hn, seqZ_snoc, map_app in Hstarts. cbn [map] in Hstarts.
  assert (Hrev : map pd_start (rev ps') = rev (map pd_start ps')) by (apply map_rev).
  rewrite Hstarts, rev_app_distr in Hrev. cbn [rev app] in Hrev.
  destruct (rev ps') as [|p rest]; [cbn in Hrev; discriminate|].
  cbn [map] in Hrev. injection Hrev as Hp _.
  cbn in H. inversion H. f_equal. rewrite Hp. f_equal. f_equal. lia.
Qed.

(** With the repair "guard per adaptation set" a $Number$ template is only split when the period is a
    whole number of ITS segments: the alignment hypothesis of [number_mode_aligned] is then
    established by the code; otherwise the typed error is returned. *)
Lemma splitAS_guard mode cont snr k P a d :
  templateType mode a = MNumber -> a_dur a = Some d -> 0 < d -> 0 <= P * tsOf a ->
  (forall o, splitAS true mode cont snr k P a = Ok o -> (P * tsOf a) mod d = 0) /\
  ((P * tsOf a) mod d <> 0 -> splitAS true mode cont snr k P a = Err rejectMsg).
Proof.
  intros Hm Hd Hpos Hnn. unfold splitAS. rewrite Hm, Hd. fold (tsOf a).
  replace (d =? 0) with false by lia. replace (0 <? d) with true by lia. cbn [andb].
  rewrite (rem_pos (P * tsOf a) d) by lia.
  destruct ((P * tsOf a) mod d =? 0) eqn:E; cbn [negb].
  - split; [intros; lia|intros; lia].
  - split; [intros o Ho; discriminate|reflexivity].
Qed.

(** Segments of 1.92 s (25 fps, 48 frames): exactly the whole-second periods that are multiples of
    48 s are accepted; periods_125 (28 s by integer division; 28.8 s = 15 segments as an exact
    fraction of the hour) is rejected - a period is a whole number of SECONDS, since Period@start
    and the reduceS bounds are whole seconds. *)
Lemma fits_1920 P : 0 <= P -> ((P * 1000) mod 1920 = 0 <-> P mod 48 = 0).
Proof. intros H. split; intros E; lia. Qed.

Theorem reject_1920 w pph mode cont ast snr st now ases :
  1 <= pph <= 3600 ->
  ((periodDurOf pph) mod 48 <> 0 <-> exists e, splitPeriod false w pph 1920 mode cont ast snr st now ases = Err e).
Proof.
  intros Hp. pose proof (periodDur_pos pph Hp) as HP.
  rewrite <- (splitPeriod_reject w pph 1920 mode cont ast snr st now ases Hp ltac:(lia)).
  pose proof (fits_1920 (periodDurOf pph) ltac:(lia)) as F. tauto.
Qed.

Lemma periods_125_rejected : periodDurOf 125 = 28 /\ 28 mod 48 <> 0.
Proof. split; [reflexivity|discriminate]. Qed.

(** * Stop time: the period layout is frozen from the stop time on *)

Theorem stop_frozen g w loopMS c now1 now2 s tsbdMS pph seg mode cont ases :
  s * 1000 <= now1 -> s * 1000 <= now2 ->
  livePeriodsStop g w loopMS c now1 (Some s) tsbdMS pph seg mode cont ases =
  livePeriodsStop g w loopMS c now2 (Some s) tsbdMS pph seg mode cont ases /\
  livePeriodsStop g w loopMS c now1 (Some s) tsbdMS pph seg mode cont ases =
  livePeriods g w loopMS c (s * 1000) tsbdMS pph seg mode cont ases.
Proof.
  intros H1 H2. unfold livePeriodsStop, liveEndMS.
  assert (E : forall n, s * 1000 <= n -> (if s * 1000 <? n then s * 1000 else n) = s * 1000)
    by (intros n Hn; destruct (s * 1000 <? n) eqn:E; lia).
  rewrite (E now1 H1), (E now2 H2). split; reflexivity.
Qed.

Theorem stop_before g w loopMS c now s tsbdMS pph seg mode cont ases :
  now <= s * 1000 ->
  livePeriodsStop g w loopMS c now (Some s) tsbdMS pph seg mode cont ases =
  livePeriods g w loopMS c now tsbdMS pph seg mode cont ases.
Proof.
  intros H. unfold livePeriodsStop, liveEndMS. replace (s * 1000 <? now) with false by lia. reflexivity.
Qed.

(** * Witnesses *)

(** The range check of periods-per-hour sits in verifyAndFillConfig (commit 9fbd9f7): every value
    outside 1..3600 is refused before splitPeriod is reached. *)
Theorem livePeriods_pph_range w loopMS c now tsbdMS pph seg mode cont ases :
  pph <= 0 \/ 3600 < pph ->
  livePeriods false w loopMS c now tsbdMS pph seg mode cont ases = Err pphRangeMsg.
Proof. intros H. unfold livePeriods. replace ((pph <=? 0) || (3600 <? pph)) with true by lia. reflexivity. Qed.

(** Inside the range, for an accepted value and AdaptationSets as LiveMPD hands them over (a
    SegmentTimeline in the timeline modes, a non-zero @duration for $Number$ templates), the
    split always succeeds: no panic is left. *)
Definition wellShaped (mode : mpdType) (a : asIn) : Prop :=
  match templateType mode a with
  | MNumber => exists d, a_dur a = Some d /\ d <> 0
  | _ => a_tl a <> None
  end.

Lemma splitAS_total mode cont snr k P a : wellShaped mode a -> exists o, splitAS false mode cont snr k P a = Ok o.
Proof.
  unfold wellShaped, splitAS. destruct (templateType mode a).
  - intros (d & -> & Hd). replace (d =? 0) with false by lia. cbn [andb]. eauto.
  - destruct (a_tl a); [|congruence]. intros _. destruct (reduceS _ _ _ _ _). eauto.
  - destruct (a_tl a); [|congruence]. intros _. destruct (reduceS _ _ _ _ _). eauto.
Qed.

Lemma mapM_total {A B} (f : A -> res B) l : (forall x, In x l -> exists y, f x = Ok y) -> exists ys, mapM f l = Ok ys.
Proof.
  induction l as [|x l IH]; intros H; cbn; [eauto|].
  destruct (H x ltac:(now left)) as [y ->]. destruct IH as [ys ->]; [intros; apply H; now right|].
  cbn. eauto.
Qed.

Theorem splitPeriod_total pph seg mode cont ast snr st now ases :
  1 <= pph <= 3600 -> 0 < seg -> (periodDurOf pph * 1000) mod seg = 0 -> ast <= st <= now ->
  Forall (wellShaped mode) ases ->
  exists ps, splitPeriod false None pph seg mode cont ast snr st now ases = Ok ps.
Proof.
  intros Hpph Hseg Hacc Hst Hws.
  pose proof (periodDur_pos pph Hpph) as HP.
  unfold splitPeriod.
  replace (pph =? 0) with false by lia.
  rewrite (quot_pos 3600 pph) by lia. fold (periodDurOf pph).
  replace (seg =? 0) with false by lia.
  rewrite (rem_pos (periodDurOf pph * 1000) seg) by lia.
  replace (periodDurOf pph * 1000 mod seg =? 0) with true by lia. cbn [negb].
  replace (periodDurOf pph * 1000 =? 0) with false by lia.
  rewrite (quot_pos (st - ast)), (quot_pos (now - ast)) by lia.
  assert ((st - ast) / (periodDurOf pph * 1000) <= (now - ast) / (periodDurOf pph * 1000)) by (apply Z.div_le_mono; lia).
  cbv zeta. unfold rangeOf. cbn [bind fst snd].
  match goal with |- context [if ?c then _ else _] => replace c with false by lia end.
  apply mapM_total. intros k _. unfold periodOf.
  destruct (mapM_total (splitAS false mode cont snr k (periodDurOf pph)) ases) as [out ->]; [|cbn; eauto].
  intros a Ha. apply splitAS_total. rewrite Forall_forall in Hws. now apply Hws.
Qed.

(** The 29.97 fps asset: video template 60060/30000 = 2.002 s.  Since commit 1baf557
    asset.SegmentDurMS is the segment duration of the reference representation (2002 ms; it was
    the minimum over all representations, 2000 ms from the audio track, which let periods_1
    through with period 1 starting inside segment 1798).  No periods-per-hour value in 1..3600
    gives a period that is a whole number of 2.002 s segments: all are rejected. *)
Lemma In_seqZ : forall n s k, s <= k < s + Z.of_nat n -> In k (seqZ s n).
Proof.
  induction n; intros s k H; [lia|].
  cbn [seqZ]. destruct (Z.eq_dec k s) as [->|Hne]; [now left|right].
  apply IHn. lia.
Qed.

Lemma no_period_fits_2002 : forall pph, 1 <= pph <= 3600 -> (periodDurOf pph * 1000) mod 2002 <> 0.
Proof.
  assert (H : forallb (fun pph => negb ((periodDurOf pph * 1000) mod 2002 =? 0)) (seqZ 1 3600) = true)
    by (vm_compute; reflexivity).
  rewrite forallb_forall in H. intros pph Hp.
  specialize (H pph (In_seqZ 3600 1 pph ltac:(lia))). lia.
Qed.

Theorem reject_2997 w pph mode cont ast snr st now ases :
  1 <= pph <= 3600 -> exists e, splitPeriod false w pph 2002 mode cont ast snr st now ases = Err e.
Proof.
  intros Hp. apply (splitPeriod_reject w pph 2002 mode cont ast snr st now ases Hp ltac:(lia)).
  now apply no_period_fits_2002.
Qed.

(** A listed segment that starts at or after the end of the last period (possible only when the
    availabilityTimeOffset is at least one segment duration) is in no period: ato_3, 2 s
    segments, now = 59 s, periods_60 - the single-period timeline lists [60 s, 62 s). *)
Definition atoTL : list pS := [ {| p_t := Some 0; p_d := 180000; p_r := 30 |} ].
Lemma late_segment_witness :
  existsb (fun x => fst x =? 5400000) (expandP atoTL) = true /\
  splitPeriod false None 60 2000 MTimelineTime false 0 0 0 59000
    [ {| a_image := false; a_ts := Some 90000; a_dur := None; a_startNr := None; a_tl := Some atoTL |} ] =
  Ok [ {| pd_nr := 0; pd_start := 0;
          pd_as := [ {| o_pto := 0; o_startNr := None; o_tl := Some [ {| p_t := Some 0; p_d := 180000; p_r := 29 |} ]; o_cont := false |} ] |} ].
Proof. split; vm_compute; reflexivity. Qed.

(** $Number$ mode with start number 5 and availabilityStartTime 1000 s: period k (counted from
    availabilityStartTime) gets 5 + k*P*ts/d. *)
Lemma snr_start_example :
  splitPeriod false None 60 2000 MNumber false 1000000 5 1060500 1120500
    [ {| a_image := false; a_ts := None; a_dur := Some 2; a_startNr := Some 5; a_tl := None |} ] =
  Ok [ {| pd_nr := 1; pd_start := 60; pd_as := [ {| o_pto := 60; o_startNr := Some 35; o_tl := None; o_cont := false |} ] |};
       {| pd_nr := 2; pd_start := 120; pd_as := [ {| o_pto := 120; o_startNr := Some 65; o_tl := None; o_cont := false |} ] |} ].
Proof. vm_compute. reflexivity. Qed.

(** non-vacuity of the partition hypotheses *)
Definition exTL : list pS :=
  [ {| p_t := Some 3420000; p_d := 180000; p_r := 10 |}; {| p_t := None; p_d := 360000; p_r := 0 |};
    {| p_t := None; p_d := 180000; p_r := 17 |} ].
Definition exAS : asIn := {| a_image := false; a_ts := Some 90000; a_dur := None; a_startNr := Some 19; a_tl := Some exTL |}.

(** boolean check of the hypotheses of the partition theorem, for concrete instances *)
Fixpoint chainb (xs : list (Z * Z)) : bool :=
  match xs with
  | (t, d) :: (((t', _) :: _) as r) => (t' =? t + d) && chainb r
  | _ => true
  end.
Lemma chainb_ok xs : chainb xs = true -> chain xs.
Proof.
  induction xs as [|[t d] r IH]; intros H; [exact I|].
  destruct r as [|[t' d'] r']; [exact I|].
  cbn [chainb] in H. apply andb_true_iff in H. destruct H as [H1 H2].
  cbn [chain]. split; [lia|]. now apply IH.
Qed.
Definition inRangeb (xs : list (Z * Z)) : bool :=
  forallb (fun x => (0 <=? fst x) && (0 <=? snd x) && (fst x + snd x <? two64)) xs.
Lemma inRangeb_ok xs : inRangeb xs = true -> inRange xs.
Proof.
  unfold inRangeb, inRange. intros H. rewrite forallb_forall in H. apply Forall_forall.
  intros x Hx. specialize (H x Hx). lia.
Qed.
Definition goodTLb (es : list pS) (snr : option Z) (ts hi : Z) : bool :=
  chainb (expandP es) && inRangeb (expandP es) && (0 <=? startNrOf snr) &&
  (startNrOf snr + lenZ (expandP es) <? two32) && (0 <? ts) && (ts <? two64) && (hi * ts <? two64).
Lemma goodTLb_ok es snr ts hi : goodTLb es snr ts hi = true -> goodTL es snr ts hi.
Proof.
  unfold goodTLb. intros H.
  repeat (apply andb_true_iff in H; destruct H as [H ?]).
  constructor; try lia; [now apply chainb_ok|now apply inRangeb_ok].
Qed.
