(** The repair "period range covers listed segments" (proposed_fixes/C06-period-range-covers-
    listed-segments.diff): [splitPeriod false true ...] widens [startPeriodNr, endPeriodNr] so that the
    first and the last listed segment of every SegmentTimeline have their period.  With it the
    partition holds for the WHOLE single-period timeline: no hypothesis about early or late
    segments is left. *)
From Verif Require Import GoSem GoSemFacts Timeline TimelineProofs Periods PeriodsProofs PeriodsSplit.
From Coq Require Import ZifyBool.
Ltac Zify.zify_post_hook ::= Z.div_mod_to_equations.

Definition ptOf (P : Z) (a : asIn) : Z := u64 (u64 P * u64 (tsOf a)).

(** Any pair of properties closed under "take the other candidate" survives the widening. *)
Lemma widenRange_inv (Q0 Q1 : Z -> Prop) P kmin kmax : forall ases k0 k1 ka kb,
  widenRange P ases kmin kmax k0 k1 = Ok (ka, kb) -> Q0 k0 -> Q1 k1 ->
  (forall a ss f l, In a ases -> a_tl a = Some ss -> firstLast ss = Some (f, l) ->
     Q0 (i64 (f / ptOf P a)) /\ Q1 (i64 (l / ptOf P a))) ->
  Q0 ka /\ Q1 kb.
Proof.
  induction ases as [|a rest IH]; intros k0 k1 ka kb H H0 H1 HA; cbn [widenRange] in H.
  - inversion H; subst. auto.
  - assert (HA' : forall a0 ss f l, In a0 rest -> a_tl a0 = Some ss -> firstLast ss = Some (f, l) ->
                  Q0 (i64 (f / ptOf P a0)) /\ Q1 (i64 (l / ptOf P a0))).
    { intros; eapply HA; eauto. now right. }
    destruct (a_tl a) as [ss|] eqn:Etl; [|eapply IH; eauto].
    destruct (firstLast ss) as [[f l]|] eqn:Efl; [|eapply IH; eauto].
    fold (ptOf P a) in H. destruct (ptOf P a =? 0); [discriminate|].
    destruct (HA a ss f l ltac:(now left) Etl Efl) as [Hf Hl].
    eapply IH; [exact H| | |exact HA'].
    + match goal with |- Q0 (if ?c then _ else _) => destruct c end; assumption.
    + match goal with |- Q1 (if ?c then _ else _) => destruct c end; assumption.
Qed.

(** the range only grows, stays within [kmin, kmax] as far as it grows, and reaches the period of
    every first and last listed segment that lies within these bounds *)
Lemma widenRange_covers P kmin kmax : forall ases k0 k1 ka kb,
  widenRange P ases kmin kmax k0 k1 = Ok (ka, kb) ->
  ka <= k0 /\ k1 <= kb /\ (kmin <= k0 -> kmin <= ka) /\ (k1 <= kmax -> kb <= kmax) /\
  (forall a ss f l, In a ases -> a_tl a = Some ss -> firstLast ss = Some (f, l) ->
     (kmin <= i64 (f / ptOf P a) -> ka <= i64 (f / ptOf P a)) /\
     (i64 (l / ptOf P a) <= kmax -> i64 (l / ptOf P a) <= kb)).
Proof.
  induction ases as [|a rest IH]; intros k0 k1 ka kb H; cbn [widenRange] in H.
  - inversion H; subst. repeat (split; [lia|]). intros ? ? ? ? [].
  - destruct (a_tl a) as [ss|] eqn:Etl.
    2:{ destruct (IH _ _ _ _ H) as (A & B & C & D & E). repeat (split; [assumption|]).
        intros a0 ss f l [<-|Hin] E1 E2; [congruence|eauto]. }
    destruct (firstLast ss) as [[f l]|] eqn:Efl.
    2:{ destruct (IH _ _ _ _ H) as (A & B & C & D & E). repeat (split; [assumption|]).
        intros a0 ss0 f l [<-|Hin] E1 E2; [congruence|eauto]. }
    fold (ptOf P a) in H. destruct (ptOf P a =? 0); [discriminate|].
    destruct (IH _ _ _ _ H) as (A & B & C & D & E).
    set (pf := i64 (f / ptOf P a)) in *. set (pl := i64 (l / ptOf P a)) in *.
    destruct ((pf <? k0) && (pf >=? kmin)) eqn:E0; destruct ((pl >? k1) && (pl <=? kmax)) eqn:E1.
    all: (split; [lia|]); (split; [lia|]); (split; [intros; apply C; lia|]); (split; [intros; apply D; lia|]).
    all: intros a0 ss0 f0 l0 [<-|Hin] X1 X2; [|eauto].
    all: rewrite Etl in X1; inversion X1; subst ss0; rewrite Efl in X2; inversion X2; subst f0 l0; fold pf pl; split; intros; lia.
Qed.

(** * firstAndLastSegmentStart on an expanded timeline *)

Definition lastT (xs : list (Z * Z)) (d : Z) : Z :=
  match xs with [] => d | _ => fst (last xs (0, 0)) end.

Lemma last_app_ne {A} (a b : list A) d : b <> [] -> last (a ++ b) d = last b d.
Proof.
  induction a as [|x a IH]; intros Hb; [reflexivity|].
  cbn [app]. specialize (IH Hb).
  destruct (a ++ b) as [|y l] eqn:E.
  - apply app_eq_nil in E. destruct E; congruence.
  - change (last (x :: y :: l) d) with (last (y :: l) d). exact IH.
Qed.

Lemma lastT_app a b d : a <> [] -> lastT (a ++ b) d = lastT b (fst (last a (0, 0))).
Proof.
  intros Ha. unfold lastT. destruct b as [|y b].
  - rewrite app_nil_r. destruct a; [congruence|reflexivity].
  - destruct (a ++ y :: b) eqn:E; [destruct a; cbn in E; congruence|].
    rewrite <- E. rewrite last_app_ne by discriminate. reflexivity.
Qed.

Lemma flLoop_spec : forall ss t first lst,
  Forall (fun s => 0 <= p_r s < two32) ss -> inRange (expandFrom t ss) ->
  flLoop ss t first lst = (first, lastT (expandFrom t ss) lst).
Proof.
  induction ss as [|s rest IH]; intros t first lst HR Hin; [reflexivity|].
  inversion HR as [|? ? Hr HR']; subst.
  cbn [flLoop expandFrom] in *.
  set (t0 := match p_t s with Some x => x | None => t end) in *.
  replace (p_r s <? 0) with false by lia.
  set (k := Z.to_nat (p_r s)).
  assert (Hk : Z.to_nat (p_r s + 1) = Datatypes.S k) by (unfold k; lia).
  assert (HkZ : Z.of_nat k = p_r s) by (unfold k; lia).
  rewrite Hk in *.
  apply inRange_app in Hin. destruct Hin as [Hent Hrest].
  assert (Hhd : 0 <= t0 /\ 0 <= p_d s).
  { cbn [expandEntry] in Hent. inversion Hent as [|? ? Hx _]; subst. cbn in Hx. lia. }
  rewrite expandEntry_snoc in Hent. apply inRange_app in Hent. destruct Hent as [_ Hl].
  inversion Hl as [|? ? Hx _]; subst. cbn [fst snd] in Hx. rewrite HkZ in Hx.
  assert (0 <= p_r s * p_d s) by nia.
  rewrite (u64_id (p_r s)) by (unfold two64, two32 in *; lia).
  rewrite (u64_id (p_r s + 1)) by (unfold two64, two32 in *; lia).
  rewrite (u64_id (p_r s * p_d s)) by nia.
  rewrite (u64_id ((p_r s + 1) * p_d s)) by nia.
  rewrite (u64_id (t0 + p_r s * p_d s)) by nia.
  rewrite (u64_id (t0 + (p_r s + 1) * p_d s)) by nia.
  replace (Z.of_nat (Datatypes.S k)) with (p_r s + 1) in * by lia.
  rewrite IH by assumption.
  f_equal. rewrite lastT_app by (cbn; discriminate).
  f_equal. rewrite expandEntry_snoc. rewrite last_app_ne by discriminate. cbn. lia.
Qed.

Lemma firstLast_spec s0 rest t0 :
  p_t s0 = Some t0 -> Forall (fun s => 0 <= p_r s < two32) (s0 :: rest) -> inRange (expandP (s0 :: rest)) ->
  exists x xs, expandP (s0 :: rest) = x :: xs /\
    firstLast (s0 :: rest) = Some (fst x, fst (last (x :: xs) (0, 0))).
Proof.
  intros Ht HR Hin.
  assert (E0 : forall t, expandFrom t (s0 :: rest) = expandFrom t0 (s0 :: rest)).
  { intros t. cbn [expandFrom]. rewrite Ht. reflexivity. }
  unfold expandP in *. rewrite (E0 0) in *.
  unfold firstLast. rewrite Ht. rewrite flLoop_spec by assumption.
  inversion HR as [|? ? Hr _]; subst.
  cbn [expandFrom] in *. rewrite Ht in *.
  replace (Z.to_nat (p_r s0 + 1)) with (Datatypes.S (Z.to_nat (p_r s0))) in * by lia.
  cbn [expandEntry app] in *.
  eexists _, _. split; [reflexivity|]. reflexivity.
Qed.

Lemma sortedT_le_last : forall xs x, sortedT xs -> In x xs -> fst x <= fst (last xs (0, 0)).
Proof.
  induction xs as [|[t d] r IH]; intros x Hs Hin; [destruct Hin|].
  destruct r as [|[t' d'] r'].
  - destruct Hin as [<-|[]]. cbn. lia.
  - assert (Hs' : sortedT ((t', d') :: r')) by (cbn [sortedT] in Hs; apply Hs).
    change (last ((t, d) :: (t', d') :: r') (0, 0)) with (last ((t', d') :: r') (0, 0)).
    destruct Hin as [<-|Hin]; [|now apply IH].
    cbn [fst]. pose proof (IH (t', d') Hs' ltac:(now left)) as Q. cbn [fst] in Q.
    cbn [sortedT] in Hs. lia.
Qed.

Lemma filter_all {A} (f : A -> bool) l : (forall x, In x l -> f x = true) -> filter f l = l.
Proof.
  induction l as [|a l IH]; intros H; [reflexivity|].
  cbn. rewrite (H a) by now left. f_equal. apply IH. intros; apply H; now right.
Qed.

(** * The partition with the repair: the whole timeline, nothing exempted *)

(** what is asked of every AdaptationSet with a SegmentTimeline: sane timescale, times below 2^63,
    and the period of its last listed segment ends within [HI] seconds *)
Definition tlBound (P HI : Z) (a : asIn) : Prop :=
  forall ss f l, a_tl a = Some ss -> firstLast ss = Some (f, l) ->
    0 < tsOf a < two32 /\ 0 <= f < two63 /\ 0 <= l < two63 /\ (l / (P * tsOf a) + 1) * P <= HI.

Theorem splitPeriod_partition_full atoMS loopMS pph seg mode cont ast snr st now ases ps j a s0 rest t0 HI :
  1 <= pph <= 3600 -> 0 < seg -> ast <= st <= now -> mode <> MNumber ->
  splitPeriod false (Some (atoMS, loopMS)) pph seg mode cont ast snr st now ases = Ok ps ->
  nth_error ases j = Some a -> a_image a = false -> a_tl a = Some (s0 :: rest) -> p_t s0 = Some t0 ->
  Forall (fun s => 0 <= p_r s < two32) (s0 :: rest) ->
  let es := s0 :: rest in
  let P := periodDurOf pph in
  let k1 := (now - ast) / (P * 1000) in
  let ts := tsOf a in
  goodTL es (snrFor mode a) ts HI -> (k1 + 1) * P <= HI ->
  Forall (tlBound P HI) ases ->
  (* the listed segments lie within the bounds of the widening: the first one begins no earlier than
     the period one loop before the window start, the last one not after the period of now + ato *)
  (forall f l, firstLast es = Some (f, l) ->
     kminOf (Some (atoMS, loopMS)) P ast st ((st - ast) / (P * 1000)) <= f / (P * ts) /\
     l / (P * ts) <= kmaxOf (Some (atoMS, loopMS)) P ast now k1) ->
  flat_map (periodTimeline j) ps = expandP es /\
  Forall (fun p => periodTimeline j p = filter (inWin (pd_nr p * P * ts) ((pd_nr p + 1) * P * ts)) (expandP es) /\
                   periodPTO j p = Some (pd_start p * ts) /\
                   (mode = MTimelineNr ->
                    periodStartNr j p =
                    Some (if reaches (pd_nr p * P * ts) (expandP es)
                          then startNrOf (a_startNr a) + countBefore (pd_nr p * P * ts) (expandP es)
                          else startNrOf (a_startNr a)))) ps.
Proof.
  intros Hpph Hseg Hst Hmode H Hj Himg Htl Ht0 HR es P k1 ts G Hhi HB Hbnd.
  pose proof (periodDur_pos pph Hpph) as HP. fold P in HP.
  destruct (splitPeriod_structure_gen (Some (atoMS, loopMS)) pph seg mode cont ast snr st now ases ps Hpph Hseg ltac:(lia) ltac:(lia) H)
    as (_ & ka & kb & ER & F).
  fold P k1 in ER, F.
  set (k0 := (st - ast) / (P * 1000)) in *.
  assert (Hk0 : 0 <= k0) by (unfold k0; apply Z.div_pos; lia).
  assert (Hk01 : k0 <= k1) by (unfold k0, k1; apply Z.div_le_mono; lia).
  set (kmax := kmaxOf (Some (atoMS, loopMS)) P ast now k1) in *.
  set (kmin := kminOf (Some (atoMS, loopMS)) P ast st k0) in *.
  assert (EW : widenRange P ases kmin kmax k0 k1 = Ok (ka, kb)).
  { unfold rangeOf in ER. destruct mode; [congruence|exact ER|exact ER]. }
  assert (Hm : templateType mode a <> MNumber) by (unfold templateType; rewrite Himg; exact Hmode).
  assert (Hin : In a ases) by (eapply nth_error_In; eauto).
  rewrite Forall_forall in HB.
  (* no wrap in periodTicks *)
  assert (Hpt : forall a' ss f l, In a' ases -> a_tl a' = Some ss -> firstLast ss = Some (f, l) ->
                ptOf P a' = P * tsOf a' /\ 0 < P * tsOf a' /\
                i64 (f / ptOf P a') = f / (P * tsOf a') /\ i64 (l / ptOf P a') = l / (P * tsOf a') /\
                0 <= f / (P * tsOf a') /\ (l / (P * tsOf a') + 1) * P <= HI).
  { intros a' ss f l Ha' E1 E2. destruct (HB a' Ha' ss f l E1 E2) as (Hts & Hf & Hl & Hh).
    assert (Ep : ptOf P a' = P * tsOf a').
    { unfold ptOf. rewrite (u64_id P), (u64_id (tsOf a')) by (unfold two64, two32 in *; lia).
      apply u64_id. unfold two64, two32 in *. nia. }
    rewrite Ep. assert (0 < P * tsOf a') by nia.
    assert (0 <= f / (P * tsOf a') <= f) by (split; [apply Z.div_pos; lia|apply Z.div_le_upper_bound; nia]).
    assert (0 <= l / (P * tsOf a') <= l) by (split; [apply Z.div_pos; lia|apply Z.div_le_upper_bound; nia]).
    unfold i64. unfold two63, two64 in *.
    repeat split; lia. }
  (* bounds on the widened range *)
  destruct (widenRange_covers P kmin kmax ases k0 k1 ka kb EW) as (Hka & Hkb & _ & _ & Hcov).
  destruct (widenRange_inv (fun k => 0 <= k) (fun k => (k + 1) * P <= HI) P kmin kmax ases k0 k1 ka kb EW Hk0 Hhi) as [Hka0 HkbHI].
  { intros a' ss f l Ha' E1 E2. destruct (Hpt a' ss f l Ha' E1 E2) as (_ & _ & -> & -> & ? & ?). split; assumption. }
  assert (G' : goodTL es (snrFor mode a) ts ((kb + 1) * P)).
  { destruct G. constructor; try assumption. nia. }
  destruct (partition_range mode cont snr ases ps j a es P ka kb ltac:(lia) ltac:(lia) F Hj Hm Htl G') as [Hcat Hall].
  split; [|exact Hall].
  rewrite Hcat. apply filter_all. intros x Hx.
  (* every listed segment lies between the first and the last one *)
  assert (Hrange : inRange (expandP es)) by (destruct G; assumption).
  destruct (firstLast_spec s0 rest t0 Ht0 HR Hrange) as (x0 & xs & Exs & Efl).
  assert (Hs : sortedT (expandP es)).
  { destruct G as [Gc Gr _ _ _ _]. apply chain_sorted; [|assumption]. eapply Forall_impl; [|exact Gr]. cbn; intros; lia. }
  destruct (Hcov a es _ _ Hin Htl Efl) as [Ca Cb].
  destruct (Hpt a es _ _ Hin Htl Efl) as (_ & Hpos & E1 & E2 & _ & _).
  rewrite E1 in Ca. rewrite E2 in Cb. fold ts in Ca, Cb, Hpos.
  destruct (Hbnd _ _ Efl) as [B1 B2]. fold k0 in B1. fold kmin in B1. specialize (Ca B1). specialize (Cb B2).
  fold es in Exs. rewrite Exs in Hx, Hs.
  assert (Hlo : fst x0 <= fst x) by (destruct Hx as [<-|Hx]; [lia|]; destruct x0; apply (sortedT_ge _ _ _ Hs x Hx)).
  assert (Hup : fst x <= fst (last (x0 :: xs) (0, 0))) by (apply sortedT_le_last; assumption).
  unfold inWin.
  pose proof (Z.mul_div_le (fst x0) (P * ts) ltac:(lia)) as D0.
  pose proof (Z.mul_succ_div_gt (fst (last (x0 :: xs) (0, 0))) (P * ts) ltac:(lia)) as D1.
  set (pt := P * ts) in *.
  set (q0 := fst x0 / pt) in *. set (q1 := fst (last (x0 :: xs) (0, 0)) / pt) in *.
  assert (A0 : ka * pt <= q0 * pt) by (apply Z.mul_le_mono_nonneg_r; lia).
  assert (A1 : (q1 + 1) * pt <= (kb + 1) * pt) by (apply Z.mul_le_mono_nonneg_r; lia).
  replace (ka * P * tsOf a) with (ka * pt) by (unfold pt, ts; ring).
  replace ((kb + 1) * P * tsOf a) with ((kb + 1) * pt) by (unfold pt, ts; ring).
  unfold Z.succ in D1.
  assert (R0 : pt * q0 = q0 * pt) by ring. assert (R1 : pt * (q1 + 1) = (q1 + 1) * pt) by ring.
  clearbody q0 q1 pt. clear - Hlo Hup D0 D1 A0 A1 R0 R1.
  apply andb_true_iff. split; [apply Z.leb_le|apply Z.ltb_lt]; lia.
Qed.

(** * Witnesses: before and after the repair *)

(** ato_3, 2 s segments, periods_60, now = 59 s: with the repair period 1 exists and holds the
    segment that starts at 60 s. *)
Lemma late_segment_after_fix :
  splitPeriod false (Some (3000, 8000)) 60 2000 MTimelineTime false 0 0 0 59000
    [ {| a_image := false; a_ts := Some 90000; a_dur := None; a_startNr := None; a_tl := Some atoTL |} ] =
  Ok [ {| pd_nr := 0; pd_start := 0;
          pd_as := [ {| o_pto := 0; o_startNr := None; o_tl := Some [ {| p_t := Some 0; p_d := 180000; p_r := 29 |} ]; o_cont := false |} ] |};
       {| pd_nr := 1; pd_start := 60;
          pd_as := [ {| o_pto := 5400000; o_startNr := None; o_tl := Some [ {| p_t := Some 5400000; p_d := 180000; p_r := 0 |} ]; o_cont := false |} ] |} ].
Proof. vm_compute. reflexivity. Qed.

(** tsbd_1, 6 s segments (timescale 90000), periods_30, now = 121 s: the single-period timeline
    lists [114 s, 120 s).  Before the repair only P1 (empty) is produced; with it P0 holds the
    segment. *)
Definition earlyTL : list pS := [ {| p_t := Some 10260000; p_d := 540000; p_r := 0 |} ].
Definition earlyAS : asIn := {| a_image := false; a_ts := Some 90000; a_dur := None; a_startNr := None; a_tl := Some earlyTL |}.
Lemma early_segment_before_fix :
  splitPeriod false None 30 6000 MTimelineTime false 0 0 120000 121000 [earlyAS] =
  Ok [ {| pd_nr := 1; pd_start := 120; pd_as := [ {| o_pto := 10800000; o_startNr := None; o_tl := Some []; o_cont := false |} ] |} ].
Proof. vm_compute. reflexivity. Qed.
Lemma early_segment_after_fix :
  splitPeriod false (Some (0, 24000)) 30 6000 MTimelineTime false 0 0 120000 121000 [earlyAS] =
  Ok [ {| pd_nr := 0; pd_start := 0;
          pd_as := [ {| o_pto := 0; o_startNr := None; o_tl := Some [ {| p_t := Some 10260000; p_d := 540000; p_r := 0 |} ]; o_cont := false |} ] |};
       {| pd_nr := 1; pd_start := 120; pd_as := [ {| o_pto := 10800000; o_startNr := None; o_tl := Some []; o_cont := false |} ] |} ].
Proof. vm_compute. reflexivity. Qed.

(** non-vacuity of [tlBound] *)
Lemma tlBound_example : tlBound 60 120 exAS.
Proof.
  intros ss f l E1 E2. cbn in E1. inversion E1; subst ss. vm_compute in E2. inversion E2; subst.
  vm_compute. intuition congruence.
Qed.
