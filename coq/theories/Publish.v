(** Model of the publishTime of a SegmentTimeline MPD (livempd.go: calcPublishTime,
    lastSegAvailTimeS; asset.go: lastSegInfo.availabilityTime), in milliseconds. *)
From Verif Require Import GoSem Timeline.

(** availability instant of the newest listed segment, in ms after availabilityStartTime:
    Round((start+dur)*1000/timescale) - ato *)
Definition lsiAvailMS (tsc lsiStart lsiDur atoMS : Z) : Z := round_div ((lsiStart + lsiDur) * 1000) tsc - atoMS.

(** calcPublishTime for the SegmentTimeline MPD types, in ms since the epoch *)
Definition publishMS (c : tcfg) (tsc : Z) (se : segEntries) (atoMS : Z) : Z :=
  let ast := startS c * 1000 in
  if se_lsi_nr se <? 0 then ast
  else
    let av := lsiAvailMS tsc (se_lsi_start se) (se_lsi_dur se) atoMS + ast in
    if av <? ast then ast else av.

(** publishTime of the live MPD at instant [now] *)
Definition mpdPublishMS (r : rep) (loopMS : Z) (c : tcfg) (now tsbdMS atoMS : Z) : Z :=
  publishMS c (ts r) (generateTimelineEntries r (calcWrapTimes loopMS c now tsbdMS) atoMS) atoMS.
