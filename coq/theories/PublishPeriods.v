(** publishTime and period layout of a multi-period SegmentTimeline MPD (periods_N with
    segtimeline_1 / segtimelinenr_1), for assets whose video/text representations share the
    reference representation's segment grid (the harness's [sameGrid]).

    LiveMPD (livempd.go, tail; repository commits 881f9c3, e6f4b0c, 22b9569): publishTime is first
    the latest change over all adaptation sets - on one grid the availability instant of the newest
    listed segment less the availabilityTimeOffset, not before availabilityStartTime
    ([Publish.mpdPublishMS]); after the split it moves to the start of the newest Period when that
    Period lists no segment yet ([periodIsEmpty]) and that start is later than the publishTime so
    far and not after now.

    Two definitions: [publish_periods_exec] runs the C06 model of splitPeriod (theories/Periods.v)
    on the reference timeline and looks at the newest Period; [publish_periods] is the closed form
    over the window edge ([Window.window_last]).  The correspondence checks both against every
    served MPD of the periods sweeps; the theorems are about the closed form. *)
From Verif Require Import GoSem Timeline Publish Window Periods.

(** the reference (video) AdaptationSet of the single-period MPD, as splitPeriod reads it *)
Definition refAS (r : rep) (se : segEntries) : asIn :=
  {| a_image := false; a_ts := Some (ts r); a_dur := None; a_startNr := None;
     a_tl := Some (map ofEntry (se_entries se)) |}.

(** the periods of the reference AdaptationSet at [now] (tree with the widening repair) *)
Definition periodsOf (r : rep) (loopMS : Z) (c : tcfg) (now tsbdMS atoMS pph segDurMS : Z) : res (list period) :=
  let wt := calcWrapTimes loopMS c now tsbdMS in
  let se := generateTimelineEntries r wt atoMS in
  splitPeriod false (Some (atoMS, loopMS)) pph segDurMS MTimelineTime false (startS c * 1000) (startNr c)
              (startTimeMS wt) (wnowMS wt) [refAS r se].

(** expanded timeline of the (only) AdaptationSet of a period *)
Definition ptl (p : period) : list (Z * Z) :=
  match pd_as p with
  | o :: _ => match o_tl o with Some l => expandP l | None => [] end
  | [] => []
  end.

(** per period: number, t of the first and of the last listed segment (-1: none), how many *)
Definition periodView (p : period) : Z * (Z * Z * Z) :=
  let ex := ptl p in
  (pd_nr p, (match ex with [] => -1 | (t, _) :: _ => t end,
             match rev ex with [] => -1 | (t, _) :: _ => t end,
             lenZ ex)).

Definition publish_periods_exec (r : rep) (loopMS : Z) (c : tcfg) (now tsbdMS atoMS pph segDurMS : Z) : res Z :=
  do ps <- periodsOf r loopMS c now tsbdMS atoMS pph segDurMS;
  let pub0 := mpdPublishMS r loopMS c now tsbdMS atoMS in
  match rev ps with
  | [] => Panic "LiveMPD: index out of range"
  | p :: _ =>
    let lastStartMS := startS c * 1000 + pd_start p * 1000 in
    match ptl p with
    | [] => Ok (if (lastStartMS >? pub0) && (lastStartMS <=? now) then lastStartMS else pub0)
    | _ => Ok pub0
    end
  end.

(** closed form: [k1] is the period that contains now, [bnd] its start; that period lists no
    segment iff the newest listed segment starts before [bnd] (or nothing is listed) *)
Definition periodOfNow (c : tcfg) (now pph : Z) : Z := (now - startS c * 1000) / (3600 / pph * 1000).
Definition periodStartMS (c : tcfg) (now pph : Z) : Z := startS c * 1000 + periodOfNow c now pph * (3600 / pph) * 1000.
Definition newestPeriodEmpty (r : rep) (c : tcfg) (atoMS now pph : Z) : bool :=
  let last := window_last r c atoMS now in
  (last <? 0) || (S r last <? periodOfNow c now pph * (3600 / pph) * ts r).

Definition publish_periods (r : rep) (loopMS : Z) (c : tcfg) (now tsbdMS atoMS pph : Z) : Z :=
  let pub0 := mpdPublishMS r loopMS c now tsbdMS atoMS in
  let bnd := periodStartMS c now pph in
  if newestPeriodEmpty r c atoMS now pph && (bnd >? pub0) then bnd else pub0.
