(** Proofs about the publishTime of multi-period SegmentTimeline MPDs (theories/PublishPeriods.v). *)
From Verif Require Import GoSem GoSemFacts Timeline TimelineProofs Publish Window WindowProofs Periods PublishPeriods.
From Coq Require Import ZifyBool.
Ltac Zify.zify_post_hook ::= Z.div_mod_to_equations.

(** the live-edge content of the multi-period MPD: the newest listed segment and the number of the
    newest Period (the Period of now, or - with an offset beyond a segment - the later Period in
    which the newest listed segment starts) *)
Definition newestPeriod (r : rep) (c : tcfg) (atoMS now pph : Z) : Z :=
  let last := window_last r c atoMS now in
  let k1 := periodOfNow c now pph in
  if last <? 0 then k1 else Z.max k1 (S r last / (3600 / pph * ts r)).
Definition liveContent (r : rep) (c : tcfg) (atoMS now pph : Z) : Z * Z :=
  (window_last r c atoMS now, newestPeriod r c atoMS now pph).

Section PP.
Variable r : rep.
Variable loopMS : Z.
Hypothesis W : wf r loopMS.
Variable c : tcfg.
Variables tsbdMS atoMS pph : Z.
Hypothesis Htsbd : 0 <= tsbdMS.
Hypothesis Hato : 0 <= atoMS.
Hypothesis Hpph : 1 <= pph <= 3600.
(** every segment end lies on the millisecond grid *)
Hypothesis Hgrid : forall n, 0 <= n -> (ts r | E r n * 1000).

Local Notation P := (3600 / pph).
Lemma HP : 1 <= P <= 3600.
Proof. split; [apply Z.div_le_lower_bound; lia|apply Z.div_le_upper_bound; lia]. Qed.
(** treat the period duration as an opaque number between 1 and 3600 *)
Ltac absP := let H := fresh "HPv" in pose proof HP as H; set (Pv := 3600 / pph) in *; clearbody Pv.
Let Hts : 0 < ts r := wf_ts _ _ W.
Local Notation ast := (startS c * 1000).

Lemma S_mono a b : 0 <= a <= b -> S r a <= S r b.
Proof.
  intros [Ha Hab]. destruct (Z.eq_dec a b) as [->|Hne]; [lia|].
  replace b with ((b - 1) + 1) by lia. rewrite (S_E_contiguous r loopMS W (b - 1)) by lia.
  pose proof (E_mono r loopMS W a (b - 1) ltac:(lia)). pose proof (S_lt_E r loopMS W a Ha). lia.
Qed.

Lemma ems_of now : exists Ems, 0 <= window_last r c atoMS now -> E r (window_last r c atoMS now) * 1000 = Ems * ts r.
Proof.
  destruct (Z.lt_ge_cases (window_last r c atoMS now) 0) as [Hn|Hp].
  - exists 0. lia.
  - destruct (Hgrid _ Hp) as [z Hz]. exists z. intros _. exact Hz.
Qed.

Lemma pub0_spec now : ast <= now ->
  exists Ems, (0 <= window_last r c atoMS now -> E r (window_last r c atoMS now) * 1000 = Ems * ts r) /\
  mpdPublishMS r loopMS c now tsbdMS atoMS
  = (if window_last r c atoMS now <? 0 then ast else Z.max ast (ast + Ems - atoMS)) /\
  ast <= mpdPublishMS r loopMS c now tsbdMS atoMS <= now.
Proof.
  intros Hnow. destruct (ems_of now) as [e He]. exists e. split; [exact He|].
  destruct (publish_is_edge_availability r loopMS c now tsbdMS atoMS e W Hnow Htsbd Hato He) as [Heq Hle].
  split; [exact Heq|]. split; [|exact Hle].
  rewrite Heq. destruct (_ <? 0); lia.
Qed.

Lemma bnd_le_now now : ast <= now -> ast <= periodStartMS c now pph <= now.
Proof.
  intros Hnow. unfold periodStartMS, periodOfNow. absP.
  pose proof (Z.mul_div_le (now - ast) (Pv * 1000) ltac:(lia)).
  assert (0 <= (now - ast) / (Pv * 1000)) by (apply Z.div_pos; lia). nia.
Qed.

(** publishTime never lies after the instant of the request, nor before availabilityStartTime *)
Theorem publish_periods_le_now now : ast <= now ->
  ast <= publish_periods r loopMS c now tsbdMS atoMS pph <= now.
Proof.
  intros Hnow. unfold publish_periods.
  destruct (pub0_spec now Hnow) as (e & _ & _ & Hp). pose proof (bnd_le_now now Hnow).
  destruct (_ && _); lia.
Qed.

Lemma pp_ge now : mpdPublishMS r loopMS c now tsbdMS atoMS <= publish_periods r loopMS c now tsbdMS atoMS pph.
Proof. unfold publish_periods. destruct (_ && _) eqn:E; lia. Qed.

Lemma pp_ge_bnd_when_empty now : newestPeriodEmpty r c atoMS now pph = true ->
  periodStartMS c now pph <= publish_periods r loopMS c now tsbdMS atoMS pph.
Proof. intros He. unfold publish_periods. rewrite He. cbn [andb]. destruct (_ >? _) eqn:E; lia. Qed.

Lemma periodOfNow_mono now1 now2 : ast <= now1 <= now2 -> periodOfNow c now1 pph <= periodOfNow c now2 pph.
Proof. intros H. unfold periodOfNow. absP. apply Z.div_le_mono; lia. Qed.

(** a segment that is not yet listed at [now] becomes available after [now] *)
Lemma not_listed_later now m Ems : ast <= now -> 0 <= m -> window_last r c atoMS now < m ->
  E r m * 1000 = Ems * ts r -> now - ast + atoMS < Ems.
Proof.
  intros Hnow Hm Hlt HE.
  assert (Ht : tick r c atoMS now < E r m).
  { destruct (Z.lt_ge_cases (tick r c atoMS now) (E r m)) as [|Hge]; [assumption|].
    apply (lastFin_ge_iff r loopMS W (tick r c atoMS now) m Hm) in Hge. unfold window_last in Hlt. lia. }
  unfold tick in Ht.
  assert ((now - ast + atoMS) * ts r < E r m * 1000) by (clear -Ht Hts; lia).
  nia.
Qed.

(** publishTime never decreases *)
Theorem publish_periods_monotone now1 now2 : ast <= now1 <= now2 ->
  publish_periods r loopMS c now1 tsbdMS atoMS pph <= publish_periods r loopMS c now2 tsbdMS atoMS pph.
Proof.
  intros [H1 H2].
  pose proof (publish_monotone r loopMS c tsbdMS atoMS now1 now2 W (conj H1 H2) Htsbd Hato Hgrid) as Hm.
  pose proof (pp_ge now2) as Hge2.
  unfold publish_periods at 1.
  destruct (newestPeriodEmpty r c atoMS now1 pph) eqn:E1; cbn [andb]; [|lia].
  destruct (_ >? _) eqn:Eb; [|lia].
  (* the newest Period of now1 is empty: its start is not after publishTime of now2 *)
  pose proof (periodOfNow_mono now1 now2 (conj H1 H2)) as Hk.
  destruct (newestPeriodEmpty r c atoMS now2 pph) eqn:E2.
  - pose proof (pp_ge_bnd_when_empty now2 E2). unfold periodStartMS in *. absP. nia.
  - (* now2: a listed segment starts in the Period of now2; it was not listed at now1 *)
    set (l1 := window_last r c atoMS now1) in *. set (l2 := window_last r c atoMS now2) in *.
    destruct (pub0_spec now2 ltac:(lia)) as (e2 & He2 & Hp2 & _). fold l2 in He2, Hp2.
    unfold newestPeriodEmpty, periodStartMS, periodOfNow in *. fold l1 l2 in E1, E2. absP.
    set (k1 := (now1 - ast) / (Pv * 1000)) in *. set (k2 := (now2 - ast) / (Pv * 1000)) in *.
    assert (Hk1 : 0 <= k1) by (unfold k1; apply Z.div_pos; lia).
    assert (Hl2 : 0 <= l2) by lia.
    assert (HS2 : k2 * Pv * ts r <= S r l2) by lia.
    assert (Hlt : l1 < l2).
    { destruct (Z.lt_ge_cases l1 0) as [|Hl1]; [lia|].
      destruct (Z.lt_ge_cases l1 l2) as [|Hge]; [assumption|].
      pose proof (S_mono l2 l1 ltac:(lia)).
      assert (k1 * Pv * ts r <= k2 * Pv * ts r) by (apply Z.mul_le_mono_nonneg_r; [lia|apply Z.mul_le_mono_nonneg_r; lia]).
      lia. }
    replace (l2 <? 0) with false in Hp2 by lia.
    pose proof (not_listed_later now1 l2 e2 H1 Hl2 Hlt (He2 Hl2)) as Hlater.
    pose proof (Z.mul_div_le (now1 - ast) (Pv * 1000) ltac:(lia)) as Hb. fold k1 in Hb.
    clearbody k1 k2 l1 l2. lia.
Qed.

(** From publishTime on, up to the instant of the request, nothing at the live edge of the MPD
    changes: the newest listed segment, the newest Period and publishTime itself are the same. *)
Theorem publish_periods_is_last_change now now' : ast <= now ->
  publish_periods r loopMS c now tsbdMS atoMS pph <= now' <= now ->
  liveContent r c atoMS now' pph = liveContent r c atoMS now pph /\
  publish_periods r loopMS c now' tsbdMS atoMS pph = publish_periods r loopMS c now tsbdMS atoMS pph.
Proof.
  intros Hnow [Hlo Hhi].
  destruct (publish_periods_le_now now Hnow) as [Hast _].
  assert (Hnow' : ast <= now') by lia.
  pose proof (pp_ge now) as Hge.
  destruct (pub0_spec now Hnow) as (e & He & Hp & _).
  (* the newest listed segment is the same *)
  assert (Hlast : window_last r c atoMS now' = window_last r c atoMS now).
  { destruct (edges_monotone r loopMS W c atoMS tsbdMS now' now Hato (conj Hnow' Hhi)) as [Hle _].
    pose proof (window_last_ge r loopMS W c atoMS now' Hnow' Hato) as Hm1.
    set (l := window_last r c atoMS now) in *.
    destruct (Z.lt_ge_cases l 0) as [Hneg|Hpos]; [lia|].
    replace (l <? 0) with false in Hp by lia.
    assert (E r l <= tick r c atoMS now').
    { unfold tick. specialize (He Hpos).
      assert (e <= now' - ast + atoMS) by lia.
      assert (E r l * 1000 <= (now' - ast + atoMS) * ts r) by nia.
      apply Z.div_le_lower_bound; lia. }
    pose proof (proj1 (lastFin_ge_iff r loopMS W (tick r c atoMS now') l Hpos) H). unfold window_last in *. lia. }
  (* publishTime of the single-period MPD is the same *)
  assert (Hpub0 : mpdPublishMS r loopMS c now' tsbdMS atoMS = mpdPublishMS r loopMS c now tsbdMS atoMS).
  { destruct (pub0_spec now' Hnow') as (e' & He' & Hp' & _). rewrite Hp', Hp, Hlast.
    destruct (window_last r c atoMS now <? 0) eqn:El; [reflexivity|].
    rewrite Hlast in He'. specialize (He ltac:(lia)). specialize (He' ltac:(lia)).
    assert (e' = e) by nia. subst. reflexivity. }
  pose proof (periodOfNow_mono now' now (conj Hnow' Hhi)) as Hk.
  destruct (Z.eq_dec (periodOfNow c now' pph) (periodOfNow c now pph)) as [Ek|Nk].
  - split.
    + unfold liveContent, newestPeriod. rewrite Hlast, Ek. reflexivity.
    + unfold publish_periods, newestPeriodEmpty, periodStartMS. rewrite Hlast, Ek, Hpub0. reflexivity.
  - (* now' lies before the start of the Period of now: that Period already lists a segment *)
    assert (Hb : now' < periodStartMS c now pph).
    { unfold periodStartMS, periodOfNow in *. fold P in *.
      pose proof (Z.mul_succ_div_gt (now' - ast) (P * 1000) ltac:(lia)). nia. }
    assert (Hne : newestPeriodEmpty r c atoMS now pph = false).
    { destruct (newestPeriodEmpty r c atoMS now pph) eqn:E; [|reflexivity].
      pose proof (pp_ge_bnd_when_empty now E). lia. }
    assert (Hpp : publish_periods r loopMS c now tsbdMS atoMS pph = mpdPublishMS r loopMS c now tsbdMS atoMS).
    { unfold publish_periods. rewrite Hne. reflexivity. }
    unfold newestPeriodEmpty in Hne. fold P in Hne.
    set (l := window_last r c atoMS now) in *.
    assert (Hl : 0 <= l) by lia.
    assert (HS : periodOfNow c now pph * P * ts r <= S r l) by lia.
    assert (Hq : periodOfNow c now pph <= S r l / (P * ts r)).
    { apply Z.div_le_lower_bound; nia. }
    split.
    + unfold liveContent, newestPeriod. rewrite Hlast. fold l.
      replace (l <? 0) with false by lia. f_equal. lia.
    + rewrite Hpp. unfold publish_periods, newestPeriodEmpty. rewrite Hlast, Hpub0. fold l.
      replace (l <? 0) with false by lia. cbn [orb].
      assert (0 <= periodOfNow c now' pph) by (unfold periodOfNow;  apply Z.div_pos; lia).
      replace (S r l <? periodOfNow c now' pph * P * ts r) with false by nia.
      reflexivity.
Qed.

End PP.

(** non-vacuity: the 4 x 2 s loop [ato_rep] (timescale 90000) lies on the millisecond grid *)
Lemma ato_rep_grid : forall n, 0 <= n -> (ts ato_rep | E ato_rep n * 1000).
Proof.
  intros n Hn.
  assert (Hc : const_dur ato_rep 180000) by (repeat constructor).
  destruct (const_SE ato_rep 8000 ato_rep_wf 180000 n Hc Hn) as [_ ->].
  exists ((n + 1) * 2000). cbn [ts ato_rep]. lia.
Qed.

(** periods_30 (120 s), offset 0.5 s, at the Period start 120 s and around it: half a second
    before the start the newest segment [118 s, 120 s) becomes available (publishTime 119.5 s);
    at 120 s the new, still empty Period P1 appears and publishTime moves to its start; at 121.5 s
    its first segment is listed.  The splitPeriod-based executable agrees. *)
Lemma periods30_example :
  let c := {| startS := 0; startNr := 0; tsbdS := 60; ato := Some 500 |} in
  map (fun now => (publish_periods ato_rep 8000 c now 60000 500 30,
                   publish_periods_exec ato_rep 8000 c now 60000 500 30 2000,
                   liveContent ato_rep c 500 now 30)) [119499; 119500; 119999; 120000; 121499; 121500]
  = [(117500, Ok 117500, (58, 0)); (119500, Ok 119500, (59, 0)); (119500, Ok 119500, (59, 0));
     (120000, Ok 120000, (59, 1)); (120000, Ok 120000, (59, 1)); (121500, Ok 121500, (60, 1))].
Proof. vm_compute. reflexivity. Qed.
