(** MODEL of the CMAF-ingest receiver's bookkeeping (property C17).
    Executable Gallina transliteration of
      /repo/cmd/cmaf-ingest-receiver/app/segdatabuffer.go   (segDataBuffer)
      /repo/cmd/cmaf-ingest-receiver/app/segtimelinegen.go  (seqCounters, segmentTimelineGenerator)
      /repo/cmd/cmaf-ingest-receiver/app/channel.go         (receivedSegData: start-up part)
    Same branches, same uint32 truncation, every index / slice expression through a checked
    primitive that yields [Panic site].  No proofs here (RecvProofs.v). *)
From Verif Require Import GoSem.
From Coq Require Import ZifyBool.

(** * Go slices with len and cap
    [arr] is the backing array from the slice's first element up to its capacity, [slen] is len.
    All slices of the modelled code start at offset 0 of their array; sub-slices only occur as
    operands of [copy]. *)
Record slice (A : Type) := mkSlice { arr : list A; slen : Z }.
Arguments mkSlice {A} arr slen.
Arguments arr {A} s.
Arguments slen {A} s.
Definition scap {A} (s : slice A) : Z := lenZ (arr s).

Definition make {A} (zero : A) (n : Z) : slice A := mkSlice (repeat zero (Z.to_nat n)) n.

Definition idx_ok {A} (s : slice A) (i : Z) : bool := (0 <=? i) && (i <? slen s) && (i <? scap s).

(** s[i] *)
Definition sl_get {A} (site : string) (s : slice A) (i : Z) : res A :=
  if idx_ok s i then index site (arr s) i else Panic site.

Definition setZ {A} (l : list A) (i : Z) (v : A) : list A := takeZ i l ++ v :: dropZ (i + 1) l.

(** s[i] = v *)
Definition sl_set {A} (site : string) (s : slice A) (i : Z) (v : A) : res (slice A) :=
  if idx_ok s i then Ok (mkSlice (setZ (arr s) i v) (slen s)) else Panic site.

(** memmove of [n] elements from offset [src] to offset [dst] of one array *)
Definition move {A} (a : list A) (dst src n : Z) : list A :=
  takeZ dst a ++ takeZ n (dropZ src a) ++ dropZ (dst + n) a.

(** bounds rule of a slice expression s[lo:hi]: 0 <= lo <= hi <= cap(s) *)
Definition slice_ok (cap lo hi : Z) : bool := (0 <=? lo) && (lo <=? hi) && (hi <=? cap).

(** copy(s[dlo:dhi], s[slo:shi]) *)
Definition sl_copy {A} (site : string) (s : slice A) (dlo dhi slo shi : Z) : res (slice A) :=
  if slice_ok (scap s) dlo dhi && slice_ok (scap s) slo shi
  then Ok (mkSlice (move (arr s) dlo slo (Z.min (dhi - dlo) (shi - slo))) (slen s))
  else Panic site.

(** copy(s[d:], s[k:])  (both upper bounds default to len(s)) *)
Definition sl_copy_tail {A} (site : string) (s : slice A) (d k : Z) : res (slice A) :=
  sl_copy site s d (slen s) k (slen s).

(** s = s[:n] *)
Definition sl_truncate {A} (site : string) (s : slice A) (n : Z) : res (slice A) :=
  if slice_ok (scap s) 0 n then Ok (mkSlice (arr s) n) else Panic site.

(** new := make([]T, n); copy(new, s); s = new *)
Definition sl_realloc {A} (zero : A) (s : slice A) (n : Z) : slice A :=
  let k := Z.min n (slen s) in
  mkSlice (takeZ k (arr s) ++ repeat zero (Z.to_nat (n - k))) n.

(** * seqCounters *)
Notation counter := (Z * Z)%type (only parsing).      (* seqNr, count *)
Definition czero : counter := (0, 0).

Record sc := mkSc { sc_sl : slice counter; sc_n : Z (* _nrCounters *); sc_w : Z (* windowSize *) }.

Definition sc_new (w : Z) : sc := mkSc (make czero w) 0 w.

Definition with_sl (s : sc) (sl : slice counter) : sc := mkSc sl (sc_n s) (sc_w s).
Definition with_n (s : sc) (n : Z) : sc := mkSc (sc_sl s) n (sc_w s).

Definition sc_minFromMax (s : sc) (maxSeqNr : Z) : Z :=
  if maxSeqNr <? sc_w s then 0 else u32 (maxSeqNr - sc_w s + 1).

Definition sc_resize (s : sc) (nw : Z) : res sc :=
  if sc_w s <? nw then Ok (mkSc (sl_realloc czero (sc_sl s) nw) (sc_n s) nw)
  else if nw <? sc_w s then
    (* if _nrCounters > nw { copy(s.counters, s.counters[_nrCounters-nw:_nrCounters]); _nrCounters = nw } *)
    do r <- (if nw <? sc_n s
             then do sl <- sl_copy "seqCounters.resize:slice" (sc_sl s) 0 (slen (sc_sl s)) (u32 (sc_n s - nw)) (sc_n s);
                  Ok (sl, nw)
             else Ok (sc_sl s, sc_n s));
    do sl <- sl_truncate "seqCounters.resize:slice" (fst r) nw;
    Ok (mkSc sl (snd r) nw)
  else Ok (mkSc (sc_sl s) (sc_n s) nw).

(** for i := 0; i < n; i++ { if counters[i].seqNr < bound { acc++ } } *)
Fixpoint sc_count_below (sl : slice counter) (bound i : Z) (n : nat) (acc : Z) : res Z :=
  match n with
  | O => Ok acc
  | S k => do c <- sl_get "seqCounters.add:index" sl i;
           sc_count_below sl bound (i + 1) k (if fst c <? bound then u32 (acc + 1) else acc)
  end.

(** for i := 0; i < n; i++ { if seqNr == counters[i].seqNr { counters[i].count++; return } } *)
Fixpoint sc_find_inc (sl : slice counter) (seqNr i : Z) (n : nat) : res (option (slice counter)) :=
  match n with
  | O => Ok None
  | S k => do c <- sl_get "seqCounters.add:index" sl i;
           if seqNr =? fst c
           then do sl' <- sl_set "seqCounters.add:index" sl i (fst c, u32 (snd c + 1)); Ok (Some sl')
           else sc_find_inc sl seqNr (i + 1) k
  end.

(** for i := nrCounters-1; i >= 1; i-- { if seqNr > counters[i-1].seqNr { insert between i-1 and i; return } }
    (since ddde9b0: with room the counters i.. move up and _nrCounters grows, when full the oldest goes) *)
Fixpoint sc_insert (s : sc) (seqNr i : Z) (n : nat) : res sc :=
  match n with
  | O => Ok s
  | S k =>
    do c <- sl_get "seqCounters.add:index" (sc_sl s) (i - 1);
    if fst c <? seqNr then
      if sc_n s <? sc_w s then
        do sl1 <- sl_copy "seqCounters.add:slice" (sc_sl s) (i + 1) (u32 (sc_n s + 1)) i (sc_n s);
        do sl2 <- sl_set "seqCounters.add:index" sl1 i (seqNr, 1);
        Ok (mkSc sl2 (u32 (sc_n s + 1)) (sc_w s))
      else
        do sl1 <- sl_copy "seqCounters.add:slice" (sc_sl s) 0 (i - 1) 1 i;
        do sl2 <- sl_set "seqCounters.add:index" sl1 (i - 1) (seqNr, 1);
        Ok (with_sl s sl2)
    else sc_insert s seqNr (i - 1) k
  end.

Definition sc_add (s : sc) (seqNr : Z) : res sc :=
  if sc_n s =? 0 then
    do sl <- sl_set "seqCounters.add:index" (sc_sl s) 0 (seqNr, 1);
    Ok (mkSc sl (u32 (sc_n s + 1)) (sc_w s))
  else
    do cmax <- sl_get "seqCounters.add:index" (sc_sl s) (u32 (sc_n s - 1));
    let currMax := fst cmax in
    let currMin := sc_minFromMax s currMax in
    if seqNr <? currMin then Ok s
    else if currMax <? seqNr then
      let currMin := sc_minFromMax s seqNr in
      do nd0 <- sc_count_below (sc_sl s) currMin 0 (Z.to_nat (sc_n s)) 0;
      let nd := if (sc_n s =? sc_w s) && (nd0 <? sc_n s) then u32 (nd0 + 1) else nd0 in
      do s1 <- (if 0 <? nd
                then do sl <- sl_copy_tail "seqCounters.add:slice" (sc_sl s) 0 nd;
                     Ok (mkSc sl (u32 (sc_n s - nd)) (sc_w s))
                else Ok s);
      do sl <- sl_set "seqCounters.add:index" (sc_sl s1) (sc_n s1) (seqNr, 1);
      Ok (mkSc sl (u32 (sc_n s1 + 1)) (sc_w s1))
    else
      do r <- sc_find_inc (sc_sl s) seqNr 0 (Z.to_nat (sc_n s));
      match r with
      | Some sl => Ok (with_sl s sl)
      | None => sc_insert s seqNr (u32 (sc_n s - 1)) (Z.to_nat (u32 (sc_n s - 1)))
      end.

(** for i := int(n-1); i >= 0; i-- *)
Fixpoint sc_newFull_loop (sl : slice counter) (nrTracks maxSeqNr i : Z) (n : nat) : res Z :=
  match n with
  | O => Ok 0
  | S k => do c <- sl_get "seqCounters.newFullCounter:index" sl i;
           if (snd c =? nrTracks) && (maxSeqNr <? fst c) then Ok (fst c)
           else if fst c <=? maxSeqNr then Ok 0
           else sc_newFull_loop sl nrTracks maxSeqNr (i - 1) k
  end.

Definition sc_newFullCounter (s : sc) (nrTracks maxSeqNr : Z) : res Z :=
  if sc_n s =? 0 then Ok 0
  else sc_newFull_loop (sc_sl s) nrTracks maxSeqNr (u32 (sc_n s - 1)) (Z.to_nat (u32 (sc_n s - 1) + 1)).

(** loop state of fullRange: first, last, lastIdx *)
Fixpoint sc_fullRange_loop (sl : slice counter) (nrTracks : Z) (first last lastIdx i : Z) (n : nat) : res (Z * Z) :=
  match n with
  | O => Ok (first, last)
  | S k =>
    do c <- sl_get "seqCounters.fullRange:index" sl i;
    if snd c <? nrTracks then
      if last =? 0 then sc_fullRange_loop sl nrTracks first last lastIdx (i - 1) k
      else Ok (first, last)
    else
      let seqNr := fst c in
      let '(last', lastIdx') := if last =? 0 then (seqNr, i) else (last, lastIdx) in
      if negb (seqNr =? last' - (lastIdx' - i)) then Ok (first, last')
      else sc_fullRange_loop sl nrTracks seqNr last' lastIdx' (i - 1) k
  end.

Definition sc_fullRange (s : sc) (nrTracks : Z) : res (Z * Z) :=
  if sc_n s =? 0 then Ok (0, 0)
  else sc_fullRange_loop (sc_sl s) nrTracks 0 0 0 (u32 (sc_n s - 1)) (Z.to_nat (u32 (sc_n s - 1) + 1)).

Fixpoint sc_drop_loop (s : sc) (seqNr i : Z) (n : nat) : res sc :=
  match n with
  | O => Ok s
  | S k =>
    do c <- sl_get "seqCounters.drop:index" (sc_sl s) i;
    if fst c =? seqNr then
      do sl <- (if i <? sc_w s - 1
                then sl_copy_tail "seqCounters.drop:slice" (sc_sl s) i (i + 1)
                else Ok (sc_sl s));
      Ok (mkSc sl (u32 (sc_n s - 1)) (sc_w s))
    else sc_drop_loop s seqNr (i + 1) k
  end.

Definition sc_drop (s : sc) (seqNr : Z) : res sc := sc_drop_loop s seqNr 0 (Z.to_nat (sc_n s)).

(** * segDataBuffer *)
Record item := mkItem { i_seq : Z; i_dts : Z; i_dur : Z; i_shifted : bool }.
Definition izero : item := mkItem 0 0 0 false.

Record sdb := mkSdb { b_sl : slice item; b_n : Z (* _nrItems *); b_size : Z }.

Definition sdb_new (size : Z) : sdb := mkSdb (make izero size) 0 size.

(** for i := 0; i < size; i++ { if items[i].seqNr <= bound { n++ } } *)
Fixpoint sdb_count_old (sl : slice item) (bound i : Z) (n : nat) (acc : Z) : res Z :=
  match n with
  | O => Ok acc
  | S k => do it <- sl_get "segDataBuffer.add:index" sl i;
           sdb_count_old sl bound (i + 1) k (if i_seq it <=? bound then u32 (acc + 1) else acc)
  end.

(** result: new state and whether the item was accepted ([false] = "sequence number not increasing") *)
Definition sdb_add (b : sdb) (it : item) : res (sdb * bool) :=
  if b_n b =? 0 then
    do sl <- sl_set "segDataBuffer.add:index" (b_sl b) 0 it;
    Ok (mkSdb sl (u32 (b_n b + 1)) (b_size b), true)
  else
    do last <- sl_get "segDataBuffer.add:index" (b_sl b) (u32 (b_n b - 1));
    if i_seq it <=? i_seq last then Ok (b, false)
    else if b_n b <? b_size b then
      do sl <- sl_set "segDataBuffer.add:index" (b_sl b) (b_n b) it;
      Ok (mkSdb sl (u32 (b_n b + 1)) (b_size b), true)
    else
      do nd <- sdb_count_old (b_sl b) (u32 (i_seq it - b_size b)) 0 (Z.to_nat (b_size b)) 0;
      do sl <- sl_copy_tail "segDataBuffer.add:slice" (b_sl b) 0 nd;
      let n' := u32 (b_n b - u32 (nd - 1)) in
      do sl' <- sl_set "segDataBuffer.add:index" sl (u32 (n' - 1)) it;
      Ok (mkSdb sl' n' (b_size b), true).

Fixpoint sdb_get_loop (sl : slice item) (seqNr i : Z) (n : nat) : res (option item) :=
  match n with
  | O => Ok None
  | S k => do it <- sl_get "segDataBuffer.getItem:index" sl i;
           if i_seq it =? seqNr then Ok (Some it) else sdb_get_loop sl seqNr (i - 1) k
  end.

Definition sdb_getItem (b : sdb) (seqNr : Z) : res (option item) :=
  if b_n b =? 0 then Ok None
  else sdb_get_loop (b_sl b) seqNr (u32 (b_n b - 1)) (Z.to_nat (u32 (b_n b - 1) + 1)).

Definition sdb_resize (b : sdb) (newSize : Z) : res sdb :=
  if newSize =? b_size b then Ok b
  else if newSize <? b_n b then
    let shift := u32 (b_n b - newSize) in
    do sl <- sl_copy_tail "segDataBuffer.resize:slice" (b_sl b) 0 shift;
    do sl' <- sl_truncate "segDataBuffer.resize:slice" sl newSize;
    Ok (mkSdb sl' newSize newSize)
  else Ok (mkSdb (sl_realloc izero (b_sl b) newSize) (b_n b) newSize).

Fixpoint sdb_drop_loop (b : sdb) (seqNr i : Z) (n : nat) : res sdb :=
  match n with
  | O => Ok b
  | S k =>
    do it <- sl_get "segDataBuffer.dropSeqNr:index" (b_sl b) i;
    if i_seq it =? seqNr then
      do sl <- sl_copy_tail "segDataBuffer.dropSeqNr:slice" (b_sl b) i (i + 1);
      Ok (mkSdb sl (u32 (b_n b - 1)) (b_size b))
    else sdb_drop_loop b seqNr (i + 1) k
  end.

Definition sdb_dropSeqNr (b : sdb) (seqNr : Z) : res sdb :=
  if b_n b =? 0 then Ok b else sdb_drop_loop b seqNr 0 (Z.to_nat (b_n b)).

(** leading unshifted items: their numbers *)
Fixpoint sdb_unshifted_loop (sl : slice item) (i : Z) (n : nat) (acc : list Z) : res (list Z) :=
  match n with
  | O => Ok acc
  | S k => do it <- sl_get "segDataBuffer.removeUnshifted:index" sl i;
           if i_shifted it then Ok acc else sdb_unshifted_loop sl (i + 1) k (acc ++ [i_seq it])
  end.

Definition sdb_removeUnshifted (b : sdb) : res (sdb * list Z) :=
  if b_n b =? 0 then Ok (b, [])
  else
    do uns <- sdb_unshifted_loop (b_sl b) 0 (Z.to_nat (b_n b)) [];
    let nd := lenZ uns in
    if nd =? 0 then Ok (b, [])
    else do sl <- sl_copy_tail "segDataBuffer.removeUnshifted:slice" (b_sl b) 0 nd;
         Ok (mkSdb sl (u32 (b_n b - nd)) (b_size b), uns).

(** * segmentTimelineGenerator
    Track names are numbers; the Go map of buffers is an association list in order of first
    appearance (the Go code iterates the map only to apply independent per-buffer operations
    and [counters.drop], see RecvProofs for the order-independence of the live part). *)
Record gen := mkGen {
  g_bufs : list (Z * sdb);
  g_cnt : sc;
  g_latest : Z;
  g_w : Z;
  g_ntracks : Z;
  g_started : bool;
  g_shifted : bool
}.

Definition gen_new (w : Z) : gen := mkGen [] (sc_new w) 0 w 0 false false.

Fixpoint lookup {B} (name : Z) (l : list (Z * B)) : option B :=
  match l with
  | [] => None
  | (k, v) :: t => if k =? name then Some v else lookup name t
  end.

Fixpoint update {B} (name : Z) (v : B) (l : list (Z * B)) : list (Z * B) :=
  match l with
  | [] => [(name, v)]
  | (k, v0) :: t => if k =? name then (k, v) :: t else (k, v0) :: update name v t
  end.

(** returns the new state, newSeqNr (0 = none) and whether the buffer accepted the item *)
Definition gen_addSegmentData (g : gen) (name : Z) (it : item) : res (gen * Z * bool) :=
  if g_shifted g && negb (i_shifted it) then Ok (g, 0, true)
  else
    let b := match lookup name (g_bufs g) with Some b => b | None => sdb_new (g_w g) end in
    do r <- sdb_add b it;
    let '(b', ok) := r in
    let bufs := update name b' (g_bufs g) in
    if negb ok then Ok (mkGen bufs (g_cnt g) (g_latest g) (g_w g) (g_ntracks g) (g_started g) (g_shifted g), 0, false)
    else
      do c <- sc_add (g_cnt g) (i_seq it);
      let g' := mkGen bufs c (g_latest g) (g_w g) (g_ntracks g) (g_started g) (g_shifted g) in
      if g_started g then
        do n <- sc_newFullCounter c (g_ntracks g) (g_latest g);
        Ok (g', n, true)
      else Ok (g', 0, true).

Fixpoint map_bufs (f : sdb -> res sdb) (l : list (Z * sdb)) : res (list (Z * sdb)) :=
  match l with
  | [] => Ok []
  | (k, b) :: t => do b' <- f b; do t' <- map_bufs f t; Ok ((k, b') :: t')
  end.

Definition gen_resize (g : gen) (nw : Z) : res gen :=
  do bufs <- map_bufs (fun b => sdb_resize b nw) (g_bufs g);
  do c <- sc_resize (g_cnt g) nw;
  Ok (mkGen bufs c (g_latest g) (g_w g) (g_ntracks g) (g_started g) (g_shifted g)).

Definition gen_dropSeqNr (g : gen) (seqNr : Z) : res gen :=
  do bufs <- map_bufs (fun b => sdb_dropSeqNr b seqNr) (g_bufs g);
  do c <- sc_drop (g_cnt g) seqNr;
  Ok (mkGen bufs c (g_latest g) (g_w g) (g_ntracks g) (g_started g) (g_shifted g)).

Fixpoint sc_drop_all (c : sc) (l : list Z) : res sc :=
  match l with
  | [] => Ok c
  | n :: t => do c' <- sc_drop c n; sc_drop_all c' t
  end.

Fixpoint gen_unshift (l : list (Z * sdb)) (c : sc) : res (list (Z * sdb) * sc) :=
  match l with
  | [] => Ok ([], c)
  | (k, b) :: t =>
    do r <- sdb_removeUnshifted b;
    let '(b', uns) := r in
    do c' <- sc_drop_all c uns;
    do r' <- gen_unshift t c';
    let '(t', c'') := r' in
    Ok ((k, b') :: t', c'')
  end.

Definition gen_start (g : gen) (nw : Z) (isShifted : bool) : res gen :=
  do g1 <- gen_resize g nw;
  do r <- (if isShifted then gen_unshift (g_bufs g1) (g_cnt g1) else Ok (g_bufs g1, g_cnt g1));
  let '(bufs, c) := r in
  Ok (mkGen bufs c (g_latest g) nw (lenZ bufs) true isShifted).

(** ** The SegmentTimeline of one adaptation set: list of S elements (t or -1, d, r) *)
Definition selem : Type := Z * Z * Z.

(** loop of modifySegmentTemplate; [cur] is the S element under construction, [nextT] (uint64) the time at
    which the next segment starts if it follows the listed ones without a gap (since 4e0d5ea: a segment that
    starts elsewhere opens a new S element with an explicit @t) *)
Fixpoint timeline_loop (b : sdb) (seqNr : Z) (n : nat) (cur : option selem) (nextT : Z) (done : list selem)
  : res (option (list selem)) :=
  match n with
  | O => Ok (Some (done ++ match cur with Some s => [s] | None => [] end))
  | S k =>
    do oi <- sdb_getItem b seqNr;
    match oi with
    | None => Ok None                                  (* "no segment data for seqNr" *)
    | Some sd =>
      match cur with
      | None => timeline_loop b (seqNr + 1) k (Some (i_dts sd, i_dur sd, 0)) (u64 (i_dts sd + i_dur sd)) done
      | Some (t, d, r) =>
        if (i_dur sd =? d) && (i_dts sd =? nextT)
        then timeline_loop b (seqNr + 1) k (Some (t, d, r + 1)) (u64 (nextT + i_dur sd)) done
        else timeline_loop b (seqNr + 1) k
               (Some ((if i_dts sd =? nextT then -1 else i_dts sd), i_dur sd, 0))
               (u64 (i_dts sd + i_dur sd)) (done ++ [(t, d, r)])
      end
    end
  end.

Fixpoint timelines (g : gen) (first last : Z) (asets : list (list Z)) : res (option (list (list selem))) :=
  match asets with
  | [] => Ok (Some [])
  | reps :: rest =>
    match reps with
    | [] => Ok None                                    (* no representations *)
    | rep :: _ =>
      match lookup rep (g_bufs g) with
      | None => Ok None                                (* no segment data buffer for representation *)
      | Some b =>
        do tl <- timeline_loop b first (Z.to_nat (last - first + 1)) None 0 [];
        match tl with
        | None => Ok None
        | Some tl => do r <- timelines g first last rest;
                     match r with None => Ok None | Some r => Ok (Some (tl :: r)) end
        end
      end
    end
  end.

Record published := mkPub { p_first : Z; p_last : Z; p_tl : list (list selem) }.

(** generateSegmentTimelineNrMPD: [None] = returned an error, nothing written, state unchanged *)
Definition gen_generate (g : gen) (newLatest : Z) (asets : list (list Z)) : res (gen * option published) :=
  do fl <- sc_fullRange (g_cnt g) (g_ntracks g);
  let '(first, last) := fl in
  if newLatest <=? g_latest g then Ok (g, None)
  else if last <? newLatest then Ok (g, None)
  else
    do tls <- timelines g first last asets;
    match tls with
    | None => Ok (g, None)
    | Some tls =>
      Ok (mkGen (g_bufs g) (g_cnt g) last (g_w g) (g_ntracks g) (g_started g) (g_shifted g),
          Some (mkPub first last tls))
    end.

(** expansion of S elements to (start, duration) per segment; a missing @t continues at the previous end *)
Fixpoint expand_s (t d : Z) (n : nat) : list (Z * Z) :=
  match n with O => [] | S k => (t, d) :: expand_s (t + d) d k end.

Fixpoint expand (tl : list selem) (tcur : Z) : list (Z * Z) :=
  match tl with
  | [] => []
  | (t, d, r) :: rest =>
    let t0 := if t =? -1 then tcur else t in
    expand_s t0 d (Z.to_nat (r + 1)) ++ expand rest (t0 + d * (r + 1))
  end.

(** * channel.receivedSegData for a complete segment of a registered track *)
Record track := mkTrack { tr_name : Z; tr_video : bool; tr_btrt : bool; tr_tsOut : Z }.

Record chan := mkChan {
  ch_gen : gen;
  ch_tracks : list track;           (* trDatas *)
  ch_asets : list (list Z);         (* representation ids per adaptation set of ch.mpd *)
  ch_master : Z;                    (* masterTrName *)
  ch_mdur : Z;                      (* masterSegDuration *)
  ch_mts : Z;                       (* masterTimescale *)
  ch_seqShift : Z;
  ch_timeShift : Z;
  ch_tsbd : Z;                      (* timeShiftBufferDepthS *)
  ch_maxBuf : Z                     (* maxNrBufSegs *)
}.

(** a new channel has no tracks; [asets] is the grouping of all tracks into adaptation sets that
    addInitDataAndUpdateTimescale will produce (by content type, codec, language, role: not modelled) *)
Definition chan_new (asets : list (list Z)) (tsbd : Z) : chan :=
  mkChan (gen_new 8) [] asets 0 0 0 0 0 tsbd 0.

(** addTrData: a track becomes the master track when no video track was registered before it *)
Definition chan_register (c : chan) (t : track) : chan :=
  mkChan (ch_gen c) (ch_tracks c ++ [t]) (ch_asets c)
         (if existsb tr_video (ch_tracks c) then ch_master c else tr_name t)
         (ch_mdur c) (ch_mts c) (ch_seqShift c) (ch_timeShift c) (ch_tsbd c) (ch_maxBuf c).

(** the adaptation sets of ch.mpd: only registered tracks *)
Definition chan_asets (c : chan) : list (list Z) :=
  filter (fun l => negb (lenZ l =? 0))
         (map (filter (fun n => existsb (fun t => tr_name t =? n) (ch_tracks c))) (ch_asets c)).

Definition with_gen (c : chan) (g : gen) : chan :=
  mkChan g (ch_tracks c) (ch_asets c) (ch_master c) (ch_mdur c) (ch_mts c) (ch_seqShift c) (ch_timeShift c)
         (ch_tsbd c) (ch_maxBuf c).

Fixpoint find_track (name : Z) (l : list track) : option track :=
  match l with [] => None | t :: r => if tr_name t =? name then Some t else find_track name r end.

(** deriveAndSetBitrates / deriveAndSetFrameRates: only whether they panic. Since the repair
    9aa9fdc a track without a buffer, with an empty buffer or with a zero total duration is skipped. *)
Fixpoint sum_durs (l : list item) : Z := match l with [] => 0 | i :: t => i_dur i + sum_durs t end.

Fixpoint derive_bitrates (g : gen) (l : list track) : res unit :=
  match l with
  | [] => Ok tt
  | t :: r =>
    do _ <- (if tr_btrt t then Ok tt
             else match lookup (tr_name t) (g_bufs g) with
                  | None => Ok tt                           (* sdb == nil: continue *)
                  | Some b => if b_n b =? 0 then Ok tt      (* nrItems() == 0: continue *)
                              else if sum_durs (takeZ (b_n b) (arr (b_sl b))) =? 0
                              then Ok tt                    (* totDur == 0: continue *)
                              else Ok tt
                  end);
    derive_bitrates g r
  end.

Fixpoint derive_framerates (g : gen) (l : list track) : res unit :=
  match l with
  | [] => Ok tt
  | t :: r =>
    do _ <- (if negb (tr_video t) then Ok tt
             else match lookup (tr_name t) (g_bufs g) with
                  | None => Ok tt                           (* sdb == nil: continue *)
                  | Some b => Ok tt
                  end);
    derive_framerates g r
  end.

(** what one call leaves behind for the observer *)
Record chan_out := mkOut { o_chan : chan; o_pub : option published }.

Definition chan_received (c : chan) (name : Z) (it : item) : res chan_out :=
  match find_track name (ch_tracks c) with
  | None => Ok (mkOut c None)                           (* unknown track *)
  | Some _ =>
    do r <- gen_addSegmentData (ch_gen c) name it;
    let '(g1, newSeqNr, _) := r in
    do r2 <- (if newSeqNr =? 0 then Ok (g1, None) else gen_generate g1 newSeqNr (chan_asets c));
    let '(g2, pub) := r2 in
    let c2 := with_gen c g2 in
    if (ch_mdur c =? 0) && (name =? ch_master c) then
      match lookup name (g_bufs g2) with
      | None => Panic "segDataBuffer.nrItems:nil"
      | Some b =>
        if b_n b <? 2 then Ok (mkOut c2 pub)
        else
          do i0 <- sl_get "channel.receivedSegData:index" (b_sl b) 0;
          do i1 <- sl_get "channel.receivedSegData:index" (b_sl b) 1;
          if negb (i_seq i1 =? u32 (i_seq i0 + 1)) || negb (i_dur i1 =? i_dur i0) || (i_dur i1 =? 0) then
            do g3 <- gen_dropSeqNr g2 (i_seq i0);
            Ok (mkOut (with_gen c2 g3) pub)
          else
            let dur := i_dur i1 in
            let mts := match find_track name (ch_tracks c) with Some t => tr_tsOut t | None => 0 end in
            do expected <- go_div "channel.receivedSegData:div" (i_dts i0) dur;
            let shift0 := if expected =? i_seq i0 then 0 else expected - i_seq i0 in
            do over <- go_rem "channel.receivedSegData:div" (i_dts i0) dur;
            let tshift := if over =? 0 then 0 else dur - over in
            let sshift := if over =? 0 then shift0 else shift0 + 1 in
            do _ <- derive_bitrates g2 (ch_tracks c);
            do _ <- derive_framerates g2 (ch_tracks c);
            do q <- go_div "channel.receivedSegData:div" (u32 (ch_tsbd c * mts)) dur;
            let maxBuf := u32 (q + 2) in
            let w := u32 (maxBuf - 1) in
            do g3 <- gen_start g2 w (negb (sshift =? 0) || negb (tshift =? 0));
            Ok (mkOut (mkChan g3 (ch_tracks c) (ch_asets c) (ch_master c) dur mts sshift tshift (ch_tsbd c) maxBuf) pub)
      end
    else Ok (mkOut c2 pub)
  end.
