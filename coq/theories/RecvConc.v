(** C19 — the ingest receiver under concurrent uploads (DESIGN.md 4.3, section 5 C19).
    (i)   ChannelMgr.AddChannel / GetChannel / GetOrAddChannel as a monitor object of Conc.v: atomic
          in every schedule.
    (ii)  the upload handler's channel lookup as a small-step system of any number of handler
          threads over that table. [hstep true] is the handler as it is since dab6065
          (ch := GetOrAddChannel(...): one atomic step): every schedule creates one object per name
          and registers every track in it ([atomic_handler_all_registered]). [hstep false] is the
          handler shape before dab6065 (Get; if !ok { Add }; Get): two first uploads of one channel
          could both create a channel object ([two_channels_witness], kept as a statement about
          that old shape).
    (iii) lock discipline over the access tables regenerated from the sources (gen/Access.v). *)
From Verif Require Import GoSem Conc.
From Coq Require Import ZifyBool.

(* ------------------------------------------------------------------------------------------ *)
(** * (i) ChannelMgr as a monitor *)
Fixpoint tlookup (n : Z) (t : list (Z * Z)) : option Z :=
  match t with [] => None | (k, v) :: r => if k =? n then Some v else tlookup n r end.
Fixpoint tset (n v : Z) (t : list (Z * Z)) : list (Z * Z) :=
  match t with
  | [] => [(n, v)]
  | (k, v0) :: r => if k =? n then (k, v) :: r else (k, v0) :: tset n v r
  end.

(** table (name -> channel object id) and the id the next newChannel gets *)
Definition mgr : Type := (list (Z * Z) * Z)%type.
Inductive mop := MAdd (n : Z) | MGet (n : Z) | MGetOrAdd (n : Z).
Definition mret : Type := option Z.

(** cm.channels[chName] = newChannel(...) under mu.Lock(); fs, ok := cm.channels[chName] under mu.RLock() *)
Definition m_body (o : mop) : list (mret * mgr -> mret * mgr) :=
  match o with
  | MAdd n => [fun x => (fst x, (tset n (snd (snd x)) (fst (snd x)), snd (snd x) + 1))]
  | MGet n => [fun x => (tlookup n (fst (snd x)), snd x)]
  (* GetOrAddChannel: under mu.Lock(): if ch, ok := channels[n]; ok { return ch }; addChannelLocked; return channels[n] *)
  | MGetOrAdd n => [fun x => match tlookup n (fst (snd x)) with
                             | Some id => (Some id, snd x)
                             | None => (Some (snd (snd x)), (tset n (snd (snd x)) (fst (snd x)), snd (snd x) + 1))
                             end]
  end.
Definition m_loc0 (o : mop) : mret := None.
Definition m_result (o : mop) (l : mret) : mret := l.

Definition m_apply (o : mop) (s : mgr) : mgr * mret :=
  match o with
  | MAdd n => ((tset n (snd s) (fst s), snd s + 1), None)
  | MGet n => (s, tlookup n (fst s))
  | MGetOrAdd n => match tlookup n (fst s) with
                   | Some id => (s, Some id)
                   | None => ((tset n (snd s) (fst s), snd s + 1), Some (snd s))
                   end
  end.

Lemma m_apply_ok o s : apply mgr mop mret mret m_loc0 m_body m_result o s = m_apply o s.
Proof.
  destruct o, s as [t nx]; try reflexivity.
  unfold apply, run_micros, m_body, m_apply, m_loc0, m_result. cbn [fold_left fst snd].
  destruct (tlookup n t); reflexivity.
Qed.

(** every schedule of any number of goroutines calling Add/Get equals a sequential order *)
Lemma mgr_atomic : forall (progs : list (list mop)) s0 sched,
  let c := exec mgr mop mret mret m_loc0 m_body m_result (init mgr mop mret mret progs s0) sched in
  finished mgr mop mret mret c ->
  exists h, interleaving mop progs h /\
            obj _ _ _ _ c = fst (seq_run mgr mop mret mret m_loc0 m_body m_result s0 h) /\
            forall t th, nth_error (threads _ _ _ _ c) t = Some th ->
                         rets _ _ _ _ th = proj t (snd (seq_run mgr mop mret mret m_loc0 m_body m_result s0 h)).
Proof. intros. apply atomic_linearizable. assumption. Qed.

(* ------------------------------------------------------------------------------------------ *)
(** * (ii) the upload handler over the atomic table *)
Inductive pc :=
| PGet1                 (* since dab6065: ch := GetOrAddChannel(name); before: ch, ok := GetChannel(name) *)
| PAdd                  (* old handler only: !ok: AddChannel(name) *)
| PGet2                 (* old handler only: ch, _ = GetChannel(name) *)
| PReg (id : Z)         (* the rest of the handler works on channel object id: registers its track there *)
| PDone (id : Z).

Record hthread := mkH { h_name : Z; h_track : Z; h_pc : pc }.

Record world := mkW {
  w_tbl : list (Z * Z);            (* ChannelMgr.channels *)
  w_next : Z;                      (* id of the next channel object *)
  w_created : list (Z * Z);        (* every channel object ever created: (name, id); each has a goroutine *)
  w_tracks : list (Z * Z);         (* (channel object id, track) registered by addTrData *)
  w_threads : list hthread
}.

Definition hstep_thread (atomic : bool) (w : world) (th : hthread) : world * hthread :=
  match h_pc th with
  | PGet1 =>
    match tlookup (h_name th) (w_tbl w) with
    | Some id => (w, mkH (h_name th) (h_track th) (PReg id))
    | None =>
      if atomic then
        (mkW (tset (h_name th) (w_next w) (w_tbl w)) (w_next w + 1) (w_created w ++ [(h_name th, w_next w)])
             (w_tracks w) (w_threads w),
         mkH (h_name th) (h_track th) (PReg (w_next w)))
      else (w, mkH (h_name th) (h_track th) PAdd)
    end
  | PAdd =>
    (mkW (tset (h_name th) (w_next w) (w_tbl w)) (w_next w + 1) (w_created w ++ [(h_name th, w_next w)])
         (w_tracks w) (w_threads w),
     mkH (h_name th) (h_track th) PGet2)
  | PGet2 =>
    match tlookup (h_name th) (w_tbl w) with
    | Some id => (w, mkH (h_name th) (h_track th) (PReg id))
    | None => (w, th)       (* unreachable: nothing is ever removed *)
    end
  | PReg id =>
    (mkW (w_tbl w) (w_next w) (w_created w) (w_tracks w ++ [(id, h_track th)]) (w_threads w),
     mkH (h_name th) (h_track th) (PDone id))
  | PDone _ => (w, th)
  end.

Definition hstep (atomic : bool) (w : world) (t : nat) : world :=
  match nth_error (w_threads w) t with
  | None => w
  | Some th =>
    let '(w', th') := hstep_thread atomic w th in
    mkW (w_tbl w') (w_next w') (w_created w') (w_tracks w') (set_nth t th' (w_threads w'))
  end.

Definition hexec (atomic : bool) (w : world) (sched : list nat) : world := fold_left (hstep atomic) sched w.

Definition hinit (reqs : list (Z * Z)) : world :=
  mkW [] 0 [] [] (map (fun r => mkH (fst r) (snd r) PGet1) reqs).

Definition all_done (w : world) : Prop := forall th, In th (w_threads w) -> exists id, h_pc th = PDone id.
Definition all_doneb (w : world) : bool :=
  forallb (fun th => match h_pc th with PDone _ => true | _ => false end) (w_threads w).

Definition objects_of (name : Z) (w : world) : list Z :=
  map snd (filter (fun c => fst c =? name) (w_created w)).

(** the tracks registered in the channel object that the table currently holds for [name] *)
Definition visible_tracks (name : Z) (w : world) : list Z :=
  match tlookup name (w_tbl w) with
  | None => []
  | Some id => map snd (filter (fun r => fst r =? id) (w_tracks w))
  end.

(** ** the handler shape before dab6065. The witness schedule: thread 0 completes its check-then-add and registers track 10 in
    channel object 0; thread 1 had already seen "no channel" and replaces the table entry *)
Lemma two_channels_witness :
  exists sched,
    let w := hexec false (hinit [(7, 10); (7, 11)]) sched in
    all_doneb w = true /\ objects_of 7 w = [0; 1] /\ visible_tracks 7 w = [11] /\
    map h_pc (w_threads w) = [PDone 0; PDone 1].
Proof. exists [0; 1; 0; 0; 0; 1; 1; 1]%nat. vm_compute. repeat split. Qed.

(** in a sequential order of the same two uploads there is one object and both tracks are visible *)
Lemma sequential_one_channel :
  let w := hexec false (hinit [(7, 10); (7, 11)]) [0; 0; 0; 0; 1; 1]%nat in
  all_doneb w = true /\ objects_of 7 w = [0] /\ visible_tracks 7 w = [10; 11].
Proof. vm_compute. repeat split. Qed.

(** ** the handler as it is (atomic GetOrAddChannel), for every number of uploads and every schedule *)
Definition thread_inv (w : world) (th : hthread) : Prop :=
  match h_pc th with
  | PGet1 => True
  | PAdd | PGet2 => False
  | PReg id => tlookup (h_name th) (w_tbl w) = Some id
  | PDone id => tlookup (h_name th) (w_tbl w) = Some id /\ In (id, h_track th) (w_tracks w)
  end.

Definition ainv (w : world) : Prop :=
  w_created w = w_tbl w /\
  NoDup (map fst (w_tbl w)) /\
  Forall (thread_inv w) (w_threads w).

Lemma nodup_snoc {A} (l : list A) x : NoDup l -> ~ In x l -> NoDup (l ++ [x]).
Proof.
  induction l as [|a l IH]; intros N H; cbn; [constructor; [tauto|constructor]|].
  inversion N; subst. constructor.
  - intros Hin. apply in_app_or in Hin as [Hin|[Hin|[]]]; [tauto|]. subst. apply H. left; reflexivity.
  - apply IH; [assumption|]. intros Hin. apply H. right; assumption.
Qed.

Lemma tlookup_tset_same n v t : tlookup n (tset n v t) = Some v.
Proof.
  induction t as [|[k v0] r IH]; cbn; [rewrite Z.eqb_refl; reflexivity|].
  destruct (k =? n) eqn:E; cbn; rewrite E; auto.
Qed.

Lemma tlookup_tset_other n m v t : n <> m -> tlookup m (tset n v t) = tlookup m t.
Proof.
  intros N. induction t as [|[k v0] r IH]; cbn.
  - destruct (n =? m) eqn:E; [lia|reflexivity].
  - destruct (k =? n) eqn:E; cbn; destruct (k =? m) eqn:E2; auto; lia.
Qed.

Lemma tset_new n v t : tlookup n t = None -> tset n v t = t ++ [(n, v)].
Proof.
  induction t as [|[k v0] r IH]; cbn; [reflexivity|].
  destruct (k =? n) eqn:E; [discriminate|]. intros H. f_equal. auto.
Qed.

Lemma tlookup_none_notin n t : tlookup n t = None -> ~ In n (map fst t).
Proof.
  induction t as [|[k v0] r IH]; cbn; [tauto|].
  destruct (k =? n) eqn:E; [discriminate|]. intros H [H1|H1]; [lia|]. apply IH; assumption.
Qed.

Lemma Forall_set_nth {A} (P : A -> Prop) n x l : Forall P l -> P x -> Forall P (set_nth n x l).
Proof.
  revert n; induction l as [|a l IH]; intros n F Hx; destruct n; cbn; auto; inversion F; subst; constructor; auto.
Qed.

Lemma ainv_init reqs : ainv (hinit reqs).
Proof.
  unfold ainv, hinit. cbn. split; [reflexivity|]. split; [constructor|].
  apply Forall_forall. intros th H. apply in_map_iff in H as (r & <- & _). exact I.
Qed.

Lemma thread_inv_mono w w' th :
  (forall n id, tlookup n (w_tbl w) = Some id -> tlookup n (w_tbl w') = Some id) ->
  (forall x, In x (w_tracks w) -> In x (w_tracks w')) ->
  thread_inv w th -> thread_inv w' th.
Proof.
  intros Ht Hr. unfold thread_inv. destruct (h_pc th); auto. intros [A B]. split; auto.
Qed.

Lemma ainv_step w t : ainv w -> ainv (hstep true w t).
Proof.
  intros (Ec & Hnd & Hth). unfold ainv, hstep. destruct (nth_error (w_threads w) t) as [th|] eqn:E; [|repeat split; auto].
  pose proof (proj1 (Forall_forall _ _) Hth th (nth_error_In _ _ E)) as Ith.
  unfold hstep_thread. unfold thread_inv in Ith. destruct (h_pc th) eqn:Epc; try contradiction.
  - (* get-or-create *)
    destruct (tlookup (h_name th) (w_tbl w)) as [id|] eqn:El.
    + cbn [w_tbl w_next w_created w_tracks w_threads]. split; [exact Ec|]. split; [exact Hnd|].
      apply Forall_set_nth; [|unfold thread_inv; cbn; exact El].
      eapply Forall_impl; [|exact Hth]. intros a Ha. eapply thread_inv_mono; [| |exact Ha]; auto.
    + rewrite (tset_new _ _ _ El). cbn [w_tbl w_next w_created w_tracks w_threads].
      split; [rewrite Ec; reflexivity|]. split.
      { rewrite map_app. cbn. apply nodup_snoc; [exact Hnd|apply tlookup_none_notin; exact El]. }
      apply Forall_set_nth.
      * eapply Forall_impl; [|exact Hth]. intros a Ha. eapply thread_inv_mono; [| |exact Ha]; auto.
        cbn [w_tbl]. intros n id H. rewrite <- (tset_new _ (w_next w) _ El).
        destruct (Z.eq_dec (h_name th) n) as [Heq|N]; [rewrite Heq in El; congruence|]. rewrite tlookup_tset_other; assumption.
      * unfold thread_inv. cbn. rewrite <- (tset_new _ (w_next w) _ El). apply tlookup_tset_same.
  - (* register the track *)
    cbn [w_tbl w_next w_created w_tracks w_threads]. split; [exact Ec|]. split; [exact Hnd|].
    apply Forall_set_nth.
    + eapply Forall_impl; [|exact Hth]. intros a Ha. eapply thread_inv_mono; [| |exact Ha]; auto.
      cbn. intros x Hx. apply in_or_app. left; exact Hx.
    + unfold thread_inv. cbn. split; [exact Ith|]. apply in_or_app. right. left. reflexivity.
  - (* done: stutter *)
    cbn [w_tbl w_next w_created w_tracks w_threads]. split; [exact Ec|]. split; [exact Hnd|].
    apply Forall_set_nth; [exact Hth|]. unfold thread_inv. rewrite Epc. exact Ith.
Qed.

Lemma ainv_exec sched : forall w, ainv w -> ainv (hexec true w sched).
Proof. induction sched as [|t r IH]; intros w H; cbn; auto. apply IH, ainv_step, H. Qed.

Lemma filter_name_nodup (n : Z) (t : list (Z * Z)) :
  NoDup (map fst t) -> (length (filter (fun c => (fst c =? n)%Z) t) <= 1)%nat.
Proof.
  induction t as [|[k v] r IH]; intros N; cbn; [lia|]. inversion N; subst.
  destruct (k =? n) eqn:E; [|auto]. cbn.
  assert (filter (fun c => fst c =? n) r = []) as ->; [|cbn; lia].
  clear - H1 E. induction r as [|[k2 v2] r IH]; cbn; [reflexivity|].
  destruct (k2 =? n) eqn:E2.
  - exfalso. apply H1. left. cbn. lia.
  - apply IH. intros Hin. apply H1. right. exact Hin.
Qed.

(** if get-or-create is one atomic step: for every set of uploads and every schedule, at most one
    channel object per name is ever created, and when all handlers are done every upload's track is
    registered in the object the table holds for its channel *)
Lemma atomic_handler_all_registered : forall reqs sched,
  let w := hexec true (hinit reqs) sched in
  (forall name, (length (objects_of name w) <= 1)%nat) /\
  (all_done w -> forall th, In th (w_threads w) -> In (h_track th) (visible_tracks (h_name th) w)).
Proof.
  intros reqs sched w. destruct (ainv_exec sched _ (ainv_init reqs)) as (Ec & Hnd & Hth). fold w in Ec, Hnd, Hth.
  split.
  - intros name. unfold objects_of. rewrite map_length, Ec. apply filter_name_nodup. exact Hnd.
  - intros D th Hin. destruct (D th Hin) as (id & Epc).
    pose proof (proj1 (Forall_forall _ _) Hth th Hin) as I. unfold thread_inv in I. rewrite Epc in I.
    destruct I as [Hl Ht]. unfold visible_tracks. rewrite Hl.
    apply in_map_iff. exists (id, h_track th). split; [reflexivity|]. apply filter_In. split; [exact Ht|cbn; lia].
Qed.

(* ------------------------------------------------------------------------------------------ *)
(** * (iii) lock discipline with one goroutine per channel object *)
Definition race_keys (multi : role -> bool) (A : list access) : list kpair :=
  map (fun p => (a_field (fst p), (a_func (fst p), side_key (fst p)), (a_func (snd p), side_key (snd p))))
      (race_pairs_gen multi A).

Definition races_known_h (A : list access) (known : list kpair) : bool :=
  forallb (fun p => existsb (pair_matches A p) known) (race_pairs_gen multi_handler A).

Lemma races_known_h_nil A : races_known_h A [] = true -> race_pairs_gen multi_handler A = [].
Proof. unfold races_known_h. destruct (race_pairs_gen multi_handler A); [reflexivity|cbn; discriminate]. Qed.

Definition unknown_races_h (A : list access) (known : list kpair) : list (string * string * string) :=
  map pair_key (filter (fun p => negb (existsb (pair_matches A p) known)) (race_pairs_gen multi_handler A)).

(* ------------------------------------------------------------------------------------------ *)
(** * (iv) track registration (channel.addTrData)

    addTrData runs under ch.mu.Lock() as one critical section: scan trDatas for a video track,
    if there is none the new track becomes the master track, insert the track.  [rstep true] is
    that code; [rstep false] is the shape with the scan in an earlier critical section than the
    update (a read lock for the scan, released before the write lock), which is NOT the code. *)
Inductive rpc := RScan | RUpd (firstVideo : bool) | RDone.
Record rthread := mkR { r_name : Z; r_video : bool; r_pc : rpc }.
Record regw := mkRW { rw_tbl : list (Z * bool); rw_master : option Z; rw_threads : list rthread }.

Definition has_video (t : list (Z * bool)) : bool := existsb snd t.

Definition rupdate (w : regw) (th : rthread) (firstVideo : bool) : regw :=
  mkRW (rw_tbl w ++ [(r_name th, r_video th)])
       (if firstVideo then Some (r_name th) else rw_master w) (rw_threads w).

Definition rstep_thread (atomic : bool) (w : regw) (th : rthread) : regw * rthread :=
  match r_pc th with
  | RScan =>
    let fv := negb (has_video (rw_tbl w)) in
    if atomic then (rupdate w th fv, mkR (r_name th) (r_video th) RDone)
    else (w, mkR (r_name th) (r_video th) (RUpd fv))
  | RUpd fv => (rupdate w th fv, mkR (r_name th) (r_video th) RDone)
  | RDone => (w, th)
  end.

Definition rstep (atomic : bool) (w : regw) (t : nat) : regw :=
  match nth_error (rw_threads w) t with
  | None => w
  | Some th =>
    let '(w', th') := rstep_thread atomic w th in
    mkRW (rw_tbl w') (rw_master w') (set_nth t th' (rw_threads w'))
  end.

Definition rexec (atomic : bool) (w : regw) (sched : list nat) : regw := fold_left (rstep atomic) sched w.
Definition rinit (reqs : list (Z * bool)) : regw := mkRW [] None (map (fun r => mkR (fst r) (snd r) RScan) reqs).

(** whenever a video track is registered, the master track is a registered video track *)
Definition master_ok (w : regw) : Prop :=
  has_video (rw_tbl w) = true -> exists m, rw_master w = Some m /\ In (m, true) (rw_tbl w).

(** the threads of the atomic system are never in [RUpd] *)
Definition no_upd (w : regw) : Prop := Forall (fun th => match r_pc th with RUpd _ => False | _ => True end) (rw_threads w).

Lemma ratomic_step w t : master_ok w /\ no_upd w -> master_ok (rstep true w t) /\ no_upd (rstep true w t).
Proof.
  intros [M N]. unfold rstep. destruct (nth_error (rw_threads w) t) as [th|] eqn:E; [|split; assumption].
  pose proof (proj1 (Forall_forall _ _) N th (nth_error_In _ _ E)) as Nth.
  cbn beta in Nth. unfold rstep_thread. destruct (r_pc th) eqn:Epc; [| destruct Nth |].
  - split.
    + unfold master_ok, rupdate, has_video in *. cbn [rw_tbl rw_master]. rewrite existsb_app. cbn [existsb snd orb].
      destruct (existsb snd (rw_tbl w)) eqn:Ev; cbn [negb orb].
      * intros _. destruct (M eq_refl) as (m & Hm & Hin). exists m. split; [exact Hm|]. apply in_or_app. left; exact Hin.
      * rewrite orb_false_r. intros Hv. exists (r_name th). split; [reflexivity|]. apply in_or_app. right. left. rewrite Hv. reflexivity.
    + unfold no_upd, rupdate. cbn [rw_threads]. apply Forall_set_nth; [exact N|exact I].
  - split; [exact M|]. unfold no_upd. cbn [rw_threads]. apply Forall_set_nth; [exact N|]. rewrite Epc. exact I.
Qed.

Lemma ratomic_exec sched : forall w, master_ok w /\ no_upd w -> master_ok (rexec true w sched) /\ no_upd (rexec true w sched).
Proof. induction sched as [|t r IH]; intros w H; cbn; auto. apply IH, ratomic_step, H. Qed.

(** addTrData as it is: for every set of registrations and every schedule, whenever a video track
    is registered the master track is a registered video track *)
Lemma registration_master_video : forall reqs sched, master_ok (rexec true (rinit reqs) sched).
Proof.
  intros reqs sched. apply ratomic_exec. split.
  - unfold master_ok, rinit. cbn. discriminate.
  - unfold no_upd, rinit. cbn [rw_threads]. apply Forall_forall. intros th H. apply in_map_iff in H as (r & <- & _). exact I.
Qed.

(** the split shape (scan and update in two critical sections) admits a schedule that ends with a
    non-video master although the video track is registered: audio scans, video registers, audio updates *)
Lemma split_registration_witness :
  exists sched,
    let w := rexec false (rinit [(1, true); (2, false)]) sched in
    rw_tbl w = [(1, true); (2, false)] /\ rw_master w = Some 2 /\
    map r_pc (rw_threads w) = [RDone; RDone].
Proof. exists [1; 0; 0; 1]%nat. vm_compute. repeat split. Qed.

(* ------------------------------------------------------------------------------------------ *)
(** * (v) lock re-entrancy

    accessgen emits, for every method that locks a mutex of its receiver: [lock_acquires]
    (function, lock), [recv_calls] (caller, callee on the same receiver) and [held_calls]
    (holder, lock, callee called while the lock is held).  A held call is re-entrant when the callee
    reaches, through calls on the same receiver, a function that acquires that lock. *)
Definition str_mem (s : string) (l : list string) : bool := existsb (String.eqb s) l.

Definition callees (calls : list (string * string)) (fs : list string) : list string :=
  map snd (filter (fun c => str_mem (fst c) fs) calls).

Fixpoint add_new (xs acc : list string) : list string :=
  match xs with
  | [] => acc
  | x :: r => if str_mem x acc then add_new r acc else add_new r (acc ++ [x])
  end.

(** functions reachable from [fs] by at most [fuel] calls *)
Fixpoint reach (calls : list (string * string)) (fuel : nat) (fs : list string) : list string :=
  match fuel with
  | O => fs
  | S k => reach calls k (add_new (callees calls fs) fs)
  end.

Definition acquires_lock (acq : list (string * string)) (f l : string) : bool :=
  existsb (fun a => String.eqb (fst a) f && String.eqb (snd a) l) acq.

Definition reentrant (acq calls : list (string * string)) (hc : list (string * string * string))
  : list (string * string * string) :=
  filter (fun h => existsb (fun f => acquires_lock acq f (snd (fst h)))
                           (reach calls (length calls) [snd h])) hc.

(** ** what an empty [reentrant] table rules out.  A thread is a list of lock operations; [held] is
    what it holds.  A program is re-entrancy free when it never acquires a lock that it holds. *)
Inductive lockop := LAcq (l : string) (excl : bool) | LRel (l : string).

Fixpoint str_remove (s : string) (l : list string) : list string :=
  match l with [] => [] | x :: r => if String.eqb s x then r else x :: str_remove s r end.

Fixpoint no_reacquire (held : list string) (ops : list lockop) : Prop :=
  match ops with
  | [] => True
  | LAcq l _ :: r => str_mem l held = false /\ no_reacquire (l :: held) r
  | LRel l :: r => no_reacquire (str_remove l held) r
  end.

Fixpoint held_after (held : list string) (ops : list lockop) : list string :=
  match ops with
  | [] => held
  | LAcq l _ :: r => held_after (l :: held) r
  | LRel l :: r => held_after (str_remove l held) r
  end.

(** however far a re-entrancy free thread has got, the lock it asks for next is not one it holds *)
Lemma no_reacquire_next : forall pre held l e post,
  no_reacquire held (pre ++ LAcq l e :: post) -> str_mem l (held_after held pre) = false.
Proof.
  induction pre as [|o pre IH]; intros held l e post H.
  - cbn in *. exact (proj1 H).
  - destruct o as [l0 e0|l0]; cbn [app no_reacquire held_after] in *.
    + apply (IH _ _ e post). exact (proj2 H).
    + apply (IH _ _ e post). exact H.
Qed.

(** a sync.RWMutex with writer preference: a read lock is granted when no writer holds the lock and
    none is waiting; a write lock when nobody holds it *)
Record rwlock := mkRW_ { rw_readers : list nat; rw_writer : option nat; rw_waiting : list nat }.
Definition grant_read (k : rwlock) : bool :=
  match rw_writer k, rw_waiting k with None, [] => true | _, _ => false end.
Definition grant_write (k : rwlock) : bool :=
  match rw_writer k, rw_readers k with None, [] => true | _, _ => false end.

(** the recursive read lock: thread 1 holds the read lock, writer 2 waits, thread 1 asks for the read
    lock again - neither request can be granted, and 1 waits for a lock that only it can release *)
Lemma recursive_rlock_deadlock :
  let k := mkRW_ [1%nat] None [2%nat] in
  grant_read k = false /\ grant_write k = false /\ In 1%nat (rw_readers k).
Proof. cbn. repeat split. left; reflexivity. Qed.

(** [reach] really is the transitive closure up to its fuel: every call path of at most [fuel] steps
    that starts in [fs] ends in [reach calls fuel fs] *)
Lemma str_mem_In s l : str_mem s l = true <-> In s l.
Proof.
  unfold str_mem. rewrite existsb_exists. split.
  - intros (x & Hx & E). apply String.eqb_eq in E. subst. exact Hx.
  - intros H. exists s. split; [exact H|apply String.eqb_refl].
Qed.

Lemma add_new_incl xs : forall acc x, In x acc \/ In x xs -> In x (add_new xs acc).
Proof.
  induction xs as [|y r IH]; intros acc x H; cbn.
  - destruct H as [H|[]]. exact H.
  - destruct (str_mem y acc) eqn:E.
    + apply IH. destruct H as [H|[<-|H]]; auto. left. apply str_mem_In. exact E.
    + apply IH. destruct H as [H|[<-|H]]; auto; left; apply in_or_app; [left; exact H|right; left; reflexivity].
Qed.

Inductive call_path (calls : list (string * string)) : nat -> string -> string -> Prop :=
| cp_here f : call_path calls 0 f f
| cp_step n f g h : In (f, g) calls -> call_path calls n g h -> call_path calls (S n) f h.

Lemma reach_mono calls : forall fuel fs x, In x fs -> In x (reach calls fuel fs).
Proof.
  induction fuel as [|k IH]; intros fs x H; cbn; [exact H|]. apply IH. apply add_new_incl. left; exact H.
Qed.

Lemma reach_path calls : forall n fuel fs f h,
  call_path calls n f h -> (n <= fuel)%nat -> In f fs -> In h (reach calls fuel fs).
Proof.
  induction n as [|n IH]; intros fuel fs f h P Hn Hf.
  - inversion P; subst. apply reach_mono. exact Hf.
  - inversion P as [|? ? g ? Hc Pg]; subst. destruct fuel as [|fuel]; [lia|]. cbn [reach].
    apply (IH fuel _ g h Pg ltac:(lia)). apply add_new_incl. right.
    unfold callees. apply in_map_iff. exists (f, g). split; [reflexivity|].
    apply filter_In. split; [exact Hc|]. apply str_mem_In. exact Hf.
Qed.

(** hence: if [reentrant] is empty, no held call reaches (within length-of-table steps, which covers
    every simple path) a function that acquires the held lock *)
Lemma reentrant_nil_sound acq calls hc :
  reentrant acq calls hc = [] ->
  forall holder lock callee n f, In (holder, lock, callee) hc -> call_path calls n callee f -> (n <= length calls)%nat ->
    acquires_lock acq f lock = false.
Proof.
  intros E holder lock callee n f Hin P Hn.
  destruct (acquires_lock acq f lock) eqn:A; [|reflexivity]. exfalso.
  assert (In (holder, lock, callee) (reentrant acq calls hc)); [|rewrite E in H; exact H].
  unfold reentrant. apply filter_In. split; [exact Hin|]. cbn [fst snd].
  apply existsb_exists. exists f. split; [|exact A].
  apply (reach_path calls n _ _ callee f P Hn). left; reflexivity.
Qed.
