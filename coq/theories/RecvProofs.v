(** Proofs for C17 (model: Recv.v, definitions: RecvSpec.v). *)
From Verif Require Import GoSem GoSemFacts Recv RecvSpec.
From Coq Require Import ZifyBool.
Ltac Zify.zify_post_hook ::= Z.div_mod_to_equations.

(** * Lists *)
Lemma nthZ_app_l {A} (l1 l2 : list A) i : 0 <= i < lenZ l1 -> nthZ i (l1 ++ l2) = nthZ i l1.
Proof.
  revert i; induction l1 as [|x l1 IH]; intros i H.
  - cbn in H; lia.
  - rewrite lenZ_cons in H. cbn [app nthZ].
    destruct (i <? 0) eqn:E1; [lia|]. destruct (i =? 0) eqn:E2; [reflexivity|].
    apply IH; lia.
Qed.

Lemma nthZ_app_r {A} (l1 l2 : list A) i : lenZ l1 <= i -> nthZ i (l1 ++ l2) = nthZ (i - lenZ l1) l2.
Proof.
  revert i; induction l1 as [|x l1 IH]; intros i H.
  - rewrite lenZ_nil. cbn [app]. f_equal; lia.
  - rewrite lenZ_cons in *. pose proof (lenZ_nonneg l1). cbn [app nthZ].
    destruct (i <? 0) eqn:E1; [lia|]. destruct (i =? 0) eqn:E2; [lia|].
    rewrite IH by lia. f_equal; lia.
Qed.

Lemma nthZ_mid {A} (l1 l2 : list A) x : nthZ (lenZ l1) (l1 ++ x :: l2) = Some x.
Proof.
  rewrite nthZ_app_r by lia. replace (lenZ l1 - lenZ l1) with 0 by lia. reflexivity.
Qed.

Lemma takeZ_app_exact {A} (l1 l2 : list A) : takeZ (lenZ l1) (l1 ++ l2) = l1.
Proof. rewrite takeZ_app_l by lia. apply takeZ_all; lia. Qed.

Lemma dropZ_app_exact {A} (l1 l2 : list A) : dropZ (lenZ l1) (l1 ++ l2) = l2.
Proof. rewrite dropZ_app_r by lia. replace (lenZ l1 - lenZ l1) with 0 by lia. apply dropZ_0. Qed.

Lemma lenZ_repeat {A} (x : A) n : 0 <= n -> lenZ (repeat x (Z.to_nat n)) = n.
Proof. intros. unfold lenZ. rewrite repeat_length. lia. Qed.

Lemma incr_app_last l x y : incr (l ++ [x]) = true -> x < y -> incr ((l ++ [x]) ++ [y]) = true.
Proof.
  induction l as [|a l IH]; intros H Hxy.
  - cbn. lia.
  - cbn [app] in *. destruct (l ++ [x]) as [|b t] eqn:E.
    + destruct l; discriminate.
    + cbn [app incr] in *. apply andb_true_iff in H as [H1 H2].
      apply andb_true_iff; split; [exact H1|]. apply IH; assumption.
Qed.

Lemma incr_tail a l : incr (a :: l) = true -> incr l = true.
Proof. destruct l; cbn; [reflexivity|]. intros H. apply andb_true_iff in H as [_ H]. exact H. Qed.

Lemma incr_dropZ k l : incr l = true -> incr (dropZ k l) = true.
Proof.
  revert k; induction l as [|a l IH]; intros k H; [reflexivity|].
  cbn [dropZ]. destruct (k <=? 0); [exact H|]. apply IH. eapply incr_tail; eauto.
Qed.

Lemma incr_lt_last l x : incr (l ++ [x]) = true -> Forall (fun y => y < x) l.
Proof.
  induction l as [|a l IH]; intros H; [constructor|].
  cbn [app] in H. pose proof (IH (incr_tail _ _ H)) as F.
  constructor; [|exact F].
  destruct l as [|b l]; cbn in H; [lia|].
  apply andb_true_iff in H as [H1 _]. inversion F; subst. lia.
Qed.

Lemma incr_app_gt l y : incr l = true -> Forall (fun z => z < y) l -> incr (l ++ [y]) = true.
Proof.
  induction l as [|a l IH]; intros H F; [reflexivity|].
  inversion F as [|? ? Fa Fl]; subst. cbn [app]. destruct l as [|b l].
  - cbn. lia.
  - cbn [app incr] in *. apply andb_true_iff in H as [Ha Hb]. apply andb_true_iff; split; [exact Ha|].
    apply IH; assumption.
Qed.

Lemma Forall_dropZ {A} (P : A -> Prop) k l : Forall P l -> Forall P (dropZ k l).
Proof.
  revert k; induction l as [|a l IH]; intros k F; [constructor|].
  cbn [dropZ]. destruct (k <=? 0); [exact F|]. inversion F; subst. apply IH; assumption.
Qed.

Lemma Forall_takeZ {A} (P : A -> Prop) k l : Forall P l -> Forall P (takeZ k l).
Proof.
  revert k; induction l as [|a l IH]; intros k F; [constructor|].
  cbn [takeZ]. destruct (k <=? 0); [constructor|]. inversion F; subst. constructor; auto.
Qed.

Lemma incr_takeZ k l : incr l = true -> incr (takeZ k l) = true.
Proof.
  revert k; induction l as [|a l IH]; intros k H; [reflexivity|].
  cbn [takeZ]. destruct (k <=? 0); [reflexivity|].
  destruct l as [|b l]; [reflexivity|].
  cbn [takeZ]. destruct (k - 1 <=? 0) eqn:E; [reflexivity|].
  cbn [incr] in H. apply andb_true_iff in H as [H1 H2].
  specialize (IH (k - 1) H2). cbn [takeZ] in IH. rewrite E in IH.
  cbn [incr]. apply andb_true_iff; split; assumption.
Qed.

(** removing a middle part of an increasing list *)
Lemma incr_cut d k l : 0 <= d <= k -> incr l = true -> incr (takeZ d l ++ dropZ k l) = true.
Proof.
  revert d k; induction l as [|a l IH]; intros d k Hdk H; [reflexivity|].
  cbn [takeZ dropZ]. destruct (d <=? 0) eqn:Ed.
  - cbn [app]. destruct (k <=? 0); [exact H|]. apply incr_dropZ. eapply incr_tail; eauto.
  - destruct (k <=? 0) eqn:Ek; [lia|]. cbn [app].
    pose proof (IH (d - 1) (k - 1) ltac:(lia) (incr_tail _ _ H)) as IH'.
    destruct (takeZ (d - 1) l ++ dropZ (k - 1) l) as [|b t] eqn:E; [reflexivity|].
    cbn [incr]. apply andb_true_iff; split; [|exact IH'].
    (* b is an element of l, all of which are > a *)
    assert (F : Forall (fun y => a < y) l).
    { clear - H. revert a H; induction l as [|c l IHl]; intros a H; [constructor|].
      cbn [incr] in H. apply andb_true_iff in H as [H1 H2]. constructor; [lia|].
      specialize (IHl c H2). eapply Forall_impl; [|exact IHl]. cbn; intros; lia. }
    assert (F' : Forall (fun y => a < y) (takeZ (d - 1) l ++ dropZ (k - 1) l)).
    { apply Forall_app; split; [apply Forall_takeZ|apply Forall_dropZ]; exact F. }
    rewrite E in F'. inversion F'; subst. lia.
Qed.

(** * Slices: a slice whose first [n] elements are [live] *)
Definition Rep {A} (sl : slice A) (n : Z) (live : list A) : Prop :=
  lenZ live = n /\ n <= slen sl /\ slen sl <= scap sl /\ takeZ n (arr sl) = live.

Ltac rsplit := unfold Rep, scap in *; cbn [arr slen] in *; split; [|split; [|split]].

Lemma Rep_arr {A} (sl : slice A) n live : Rep sl n live -> arr sl = live ++ dropZ n (arr sl).
Proof. intros (H1 & H2 & H3 & H4). rewrite <- H4. symmetry. apply takeZ_dropZ. Qed.

Lemma Rep_intro {A} (sl : slice A) live rest :
  arr sl = live ++ rest -> lenZ live <= slen sl -> slen sl <= scap sl -> Rep sl (lenZ live) live.
Proof. intros E H1 H2. rsplit; auto. rewrite E. apply takeZ_app_exact. Qed.

Lemma rep_get {A} site (sl : slice A) n live i x :
  Rep sl n live -> nthZ i live = Some x -> 0 <= i < n -> sl_get site sl i = Ok x.
Proof.
  intros R Hx Hi. pose proof R as (H1 & H2 & H3 & H4).
  unfold sl_get, idx_ok. replace ((0 <=? i) && (i <? slen sl) && (i <? scap sl)) with true by lia.
  unfold index. rewrite (Rep_arr _ _ _ R), nthZ_app_l by lia. rewrite Hx. reflexivity.
Qed.

Lemma nthZ_some {A} (l : list A) i : 0 <= i < lenZ l -> exists x, nthZ i l = Some x.
Proof.
  revert i; induction l as [|a l IH]; intros i H.
  - cbn in H; lia.
  - rewrite lenZ_cons in H. cbn [nthZ]. destruct (i <? 0) eqn:E; [lia|].
    destruct (i =? 0) eqn:E0; [eauto|]. apply IH; lia.
Qed.

Lemma lenZ_setZ {A} (l : list A) i v : 0 <= i < lenZ l -> lenZ (setZ l i v) = lenZ l.
Proof.
  intros H. unfold setZ. rewrite lenZ_app, lenZ_cons, lenZ_takeZ, lenZ_dropZ by lia. lia.
Qed.

(** s[n] = v just behind the live part *)
Lemma rep_set_append {A} site (sl : slice A) n live v :
  Rep sl n live -> n < slen sl ->
  exists sl', sl_set site sl n v = Ok sl' /\ Rep sl' (n + 1) (live ++ [v])
              /\ slen sl' = slen sl /\ scap sl' = scap sl.
Proof.
  intros R Hn. pose proof R as (H1 & H2 & H3 & H4). pose proof (lenZ_nonneg live).
  unfold sl_set, idx_ok. replace ((0 <=? n) && (n <? slen sl) && (n <? scap sl)) with true by lia.
  eexists; split; [reflexivity|]. unfold scap in *. cbn [arr slen].
  assert (L : lenZ (setZ (arr sl) n v) = lenZ (arr sl)) by (apply lenZ_setZ; lia).
  split; [|split; [reflexivity|exact L]].
  rsplit; cbn [arr slen]; rewrite ?lenZ_app, ?lenZ_cons, ?lenZ_nil; try lia.
  unfold setZ. rewrite H4. replace (live ++ v :: dropZ (n + 1) (arr sl)) with ((live ++ [v]) ++ dropZ (n + 1) (arr sl))
    by (rewrite <- app_assoc; reflexivity).
  replace (n + 1) with (lenZ (live ++ [v])) at 1 by (rewrite lenZ_app, lenZ_cons, lenZ_nil; lia).
  apply takeZ_app_exact.
Qed.

Lemma setZ_app_l {A} (l1 l2 : list A) i v : 0 <= i < lenZ l1 -> setZ (l1 ++ l2) i v = setZ l1 i v ++ l2.
Proof.
  intros H. unfold setZ. rewrite takeZ_app_l, dropZ_app_l by lia. rewrite <- app_assoc. reflexivity.
Qed.

(** s[i] = v inside the live part *)
Lemma rep_set_at {A} site (sl : slice A) n live i v :
  Rep sl n live -> 0 <= i < n ->
  exists sl', sl_set site sl i v = Ok sl' /\ Rep sl' n (setZ live i v)
              /\ slen sl' = slen sl /\ scap sl' = scap sl.
Proof.
  intros R Hi. pose proof R as (H1 & H2 & H3 & H4).
  unfold sl_set, idx_ok. replace ((0 <=? i) && (i <? slen sl) && (i <? scap sl)) with true by lia.
  eexists; split; [reflexivity|]. unfold scap in *. cbn [arr slen].
  assert (L : lenZ (setZ (arr sl) i v) = lenZ (arr sl)) by (apply lenZ_setZ; lia).
  split; [|split; [reflexivity|exact L]].
  rsplit; cbn [arr slen]; try (rewrite lenZ_setZ by lia); try lia.
  rewrite (Rep_arr sl n live R), setZ_app_l by lia.
  replace n with (lenZ (setZ live i v)) at 1 by (rewrite lenZ_setZ by lia; lia).
  apply takeZ_app_exact.
Qed.

(** copy(s[d:], s[k:]) with d <= k <= n removes the elements d..k-1 of the live part *)
Lemma rep_copy_tail {A} site (sl : slice A) n live d k :
  Rep sl n live -> 0 <= d <= k -> k <= n ->
  exists sl', sl_copy_tail site sl d k = Ok sl' /\ Rep sl' (n - (k - d)) (takeZ d live ++ dropZ k live)
              /\ slen sl' = slen sl /\ scap sl' = scap sl.
Proof.
  intros R Hd Hk. pose proof R as (H1 & H2 & H3 & H4).
  unfold sl_copy_tail, sl_copy, slice_ok.
  replace ((0 <=? d) && (d <=? slen sl) && (slen sl <=? scap sl) && ((0 <=? k) && (k <=? slen sl) && (slen sl <=? scap sl)))
    with true by lia.
  eexists; split; [reflexivity|]. unfold scap in *. cbn [arr slen].
  replace (Z.min (slen sl - d) (slen sl - k)) with (slen sl - k) by lia.
  set (m := slen sl - k).
  assert (L : lenZ (move (arr sl) d k m) = lenZ (arr sl)).
  { unfold move. rewrite !lenZ_app, !lenZ_takeZ, !lenZ_dropZ by lia. lia. }
  split; [|split; [reflexivity|exact L]].
  assert (Ll : lenZ (takeZ d live ++ dropZ k live) = n - (k - d)).
  { rewrite lenZ_app, lenZ_takeZ, lenZ_dropZ by lia. lia. }
  rsplit; cbn [arr slen]; try lia.
  unfold move. rewrite (Rep_arr _ _ _ R) at 1 2.
  subst m. pose proof (lenZ_nonneg live).
  rewrite (takeZ_app_l d) by lia. rewrite (dropZ_app_l k) by lia.
  assert (Ld : lenZ (dropZ k live) = n - k) by (rewrite lenZ_dropZ by lia; lia).
  rewrite (takeZ_app_r (slen sl - k)) by lia.
  rewrite <- !app_assoc, app_assoc.
  rewrite <- Ll. apply takeZ_app_exact.
Qed.

Lemma rep_truncate {A} site (sl : slice A) n live nw :
  Rep sl n live -> n <= nw <= slen sl ->
  exists sl', sl_truncate site sl nw = Ok sl' /\ Rep sl' n live /\ slen sl' = nw /\ scap sl' = scap sl.
Proof.
  intros (H1 & H2 & H3 & H4) Hn. pose proof (lenZ_nonneg live).
  unfold sl_truncate, slice_ok. replace ((0 <=? 0) && (0 <=? nw) && (nw <=? scap sl)) with true by lia.
  eexists; split; [reflexivity|]. unfold scap in *. split; [|split; reflexivity].
  rsplit; cbn [arr slen]; auto; lia.
Qed.

Lemma rep_realloc {A} (zero : A) (sl : slice A) n live nw :
  Rep sl n live -> n <= nw ->
  Rep (sl_realloc zero sl nw) n live /\ slen (sl_realloc zero sl nw) = nw /\ scap (sl_realloc zero sl nw) = nw.
Proof.
  intros (H1 & H2 & H3 & H4) Hn. pose proof (lenZ_nonneg live). unfold scap in *.
  unfold sl_realloc, scap. cbn [arr slen].
  assert (L : lenZ (takeZ (Z.min nw (slen sl)) (arr sl) ++ repeat zero (Z.to_nat (nw - Z.min nw (slen sl)))) = nw).
  { rewrite lenZ_app, lenZ_takeZ, lenZ_repeat by lia. lia. }
  split; [|split; [reflexivity|exact L]].
  rsplit; cbn [arr slen]; try lia.
  rewrite takeZ_app_l by (rewrite lenZ_takeZ by lia; lia).
  rewrite takeZ_takeZ. replace (Z.min n (Z.min nw (slen sl))) with n by lia. exact H4.
Qed.

Lemma rep_make {A} (zero : A) w : 0 <= w -> Rep (make zero w) 0 [] /\ slen (make zero w) = w /\ scap (make zero w) = w.
Proof.
  intros H. unfold make, scap. cbn [arr slen]. rewrite lenZ_repeat by lia.
  split; [|split; reflexivity]. rsplit; cbn [arr slen]; rewrite ?lenZ_repeat by lia; try (cbn; lia).
  apply takeZ_nonpos; lia.
Qed.

(** * seqCounters *)
Lemma u32_small z : 0 <= z < two32 -> u32 z = z.
Proof. intros. unfold u32. apply Z.mod_small. assumption. Qed.

Lemma sc_invb_ok s : sc_invb s = true -> sc_inv s.
Proof. unfold sc_invb, sc_inv. intros H. repeat (apply andb_true_iff in H as [H ?]). repeat split; try lia. assumption. Qed.

Lemma sc_rep s : sc_inv s -> Rep (sc_sl s) (sc_n s) (sc_live s).
Proof.
  intros (Hw & Hn & Hl & Hc & Hi). unfold sc_live. rsplit; try lia; [|reflexivity].
  rewrite lenZ_takeZ by lia. lia.
Qed.

Lemma setZ_mid {A} (l1 l2 : list A) x v : setZ (l1 ++ x :: l2) (lenZ l1) v = l1 ++ v :: l2.
Proof.
  unfold setZ. rewrite takeZ_app_exact. rewrite dropZ_app_r by lia.
  replace (lenZ l1 + 1 - lenZ l1) with 1 by lia. cbn. rewrite dropZ_0. reflexivity.
Qed.

Lemma lenZ_length {A} (l : list A) : Z.to_nat (lenZ l) = length l.
Proof. unfold lenZ. lia. Qed.

Lemma count_below_cons bound c l :
  count_below bound (c :: l) = (if fst c <? bound then 1 else 0) + count_below bound l.
Proof. unfold count_below. cbn [filter]. destruct (fst c <? bound); rewrite ?lenZ_cons; lia. Qed.

Lemma count_below_range bound l : 0 <= count_below bound l <= lenZ l.
Proof.
  induction l as [|c l IH]; [cbn; lia|]. rewrite count_below_cons, lenZ_cons. destruct (fst c <? bound); lia.
Qed.

Lemma count_below_loop bound sl n : forall l2 l1 acc,
  Rep sl n (l1 ++ l2) -> 0 <= acc -> acc + lenZ l2 < two32 ->
  sc_count_below sl bound (lenZ l1) (length l2) acc = Ok (acc + count_below bound l2).
Proof.
  induction l2 as [|x l2 IH]; intros l1 acc R Ha Hb.
  - cbn. f_equal. lia.
  - cbn [length sc_count_below]. rewrite lenZ_cons in Hb. pose proof (lenZ_nonneg l2). pose proof (lenZ_nonneg l1).
    assert (Hlen : lenZ (l1 ++ x :: l2) = n) by apply R.
    rewrite lenZ_app, lenZ_cons in Hlen.
    rewrite (rep_get _ sl n (l1 ++ x :: l2) (lenZ l1) x R (nthZ_mid l1 l2 x)) by lia.
    cbn [bind]. rewrite count_below_cons.
    replace (lenZ l1 + 1) with (lenZ (l1 ++ [x])) by (rewrite lenZ_app, lenZ_cons, lenZ_nil; lia).
    assert (R' : Rep sl n ((l1 ++ [x]) ++ l2)) by (rewrite <- app_assoc; exact R).
    destruct (fst x <? bound).
    + rewrite u32_small by lia. rewrite IH by (try exact R'; lia). f_equal. lia.
    + rewrite IH by (try exact R'; lia). f_equal.
Qed.

Lemma inc_count_fst n l : map fst (inc_count n l) = map fst l.
Proof. induction l as [|c l IH]; [reflexivity|]. cbn. destruct (fst c =? n); cbn; [reflexivity|]. f_equal; exact IH. Qed.

Lemma inc_count_len n l : lenZ (inc_count n l) = lenZ l.
Proof. induction l as [|c l IH]; [reflexivity|]. cbn [inc_count]. destruct (fst c =? n); rewrite !lenZ_cons; lia. Qed.

Lemma find_inc_loop seqNr sl n : forall l2 l1,
  Rep sl n (l1 ++ l2) ->
  exists r, sc_find_inc sl seqNr (lenZ l1) (length l2) = Ok r /\
    match r with
    | None => existsb (fun c => fst c =? seqNr) l2 = false
    | Some sl' => existsb (fun c => fst c =? seqNr) l2 = true /\ Rep sl' n (l1 ++ inc_count seqNr l2)
                  /\ slen sl' = slen sl /\ scap sl' = scap sl
    end.
Proof.
  induction l2 as [|x l2 IH]; intros l1 R.
  - cbn. eexists; split; reflexivity.
  - cbn [length sc_find_inc]. pose proof (lenZ_nonneg l2). pose proof (lenZ_nonneg l1).
    assert (Hlen : lenZ (l1 ++ x :: l2) = n) by apply R.
    rewrite lenZ_app, lenZ_cons in Hlen.
    rewrite (rep_get _ sl n (l1 ++ x :: l2) (lenZ l1) x R (nthZ_mid l1 l2 x)) by lia.
    cbn [bind existsb inc_count]. rewrite (Z.eqb_sym seqNr (fst x)).
    destruct (fst x =? seqNr) eqn:E.
    + destruct (rep_set_at "seqCounters.add:index" sl n _ (lenZ l1) (fst x, u32 (snd x + 1)) R ltac:(lia))
        as (sl' & Hs & R' & L1 & L2).
      rewrite Hs. cbn [bind]. eexists; split; [reflexivity|]. cbn [orb]. split; [reflexivity|].
      rewrite setZ_mid in R'. auto.
    + cbn [orb].
      replace (lenZ l1 + 1) with (lenZ (l1 ++ [x])) by (rewrite lenZ_app, lenZ_cons, lenZ_nil; lia).
      assert (R' : Rep sl n ((l1 ++ [x]) ++ l2)) by (rewrite <- app_assoc; exact R).
      destruct (IH (l1 ++ [x]) R') as (r & Hr & Hm). exists r. split; [exact Hr|].
      destruct r; [|exact Hm]. rewrite <- app_assoc in Hm. exact Hm.
Qed.

Lemma nthZ_In {A} (l : list A) i x : nthZ i l = Some x -> In x l.
Proof.
  revert i; induction l as [|a l IH]; intros i H; [discriminate|].
  cbn [nthZ] in H. destruct (i <? 0); [discriminate|]. destruct (i =? 0).
  - inversion H; subst. left; reflexivity.
  - right. eapply IH; eauto.
Qed.

Lemma map_takeZ {A B} (f : A -> B) k l : map f (takeZ k l) = takeZ k (map f l).
Proof.
  revert k; induction l as [|a l IH]; intros k; [reflexivity|].
  cbn [takeZ map]. destruct (k <=? 0); [reflexivity|]. cbn [map]. f_equal. apply IH.
Qed.

Lemma map_dropZ {A B} (f : A -> B) k l : map f (dropZ k l) = dropZ k (map f l).
Proof.
  revert k; induction l as [|a l IH]; intros k; [reflexivity|].
  cbn [dropZ map]. destruct (k <=? 0); [reflexivity|]. apply IH.
Qed.

Lemma takeZ_snoc {A} (l : list A) k x : 0 <= k -> nthZ k l = Some x -> takeZ (k + 1) l = takeZ k l ++ [x].
Proof.
  revert k; induction l as [|a l IH]; intros k Hk H; [discriminate|].
  cbn [nthZ] in H. destruct (k <? 0) eqn:E; [lia|]. cbn [takeZ].
  destruct (k =? 0) eqn:E0.
  - inversion H; subst. replace (k + 1 <=? 0) with false by lia. replace (k <=? 0) with true by lia.
    rewrite takeZ_nonpos by lia. reflexivity.
  - replace (k + 1 <=? 0) with false by lia. replace (k <=? 0) with false by lia.
    replace (k + 1 - 1) with (k - 1 + 1) by lia. rewrite (IH (k - 1)) by (try lia; exact H). reflexivity.
Qed.

Lemma dropZ_cons_nth {A} (l : list A) k x : 0 <= k -> nthZ k l = Some x -> dropZ k l = x :: dropZ (k + 1) l.
Proof.
  revert k; induction l as [|a l IH]; intros k Hk H; [discriminate|].
  cbn [nthZ] in H. destruct (k <? 0) eqn:E; [lia|]. cbn [dropZ].
  destruct (k =? 0) eqn:E0.
  - inversion H; subst. replace (k <=? 0) with true by lia. replace (k + 1 <=? 0) with false by lia.
    replace (k + 1 - 1) with 0 by lia. rewrite dropZ_0. reflexivity.
  - replace (k <=? 0) with false by lia. replace (k + 1 <=? 0) with false by lia.
    replace (k + 1 - 1) with (k - 1 + 1) by lia. apply IH; [lia|exact H].
Qed.

Lemma filter_all {A} (f : A -> bool) l : Forall (fun x => f x = true) l -> filter f l = l.
Proof. induction 1; cbn; [reflexivity|]. rewrite H. f_equal. assumption. Qed.

Lemma filter_none {A} (f : A -> bool) l : Forall (fun x => f x = false) l -> filter f l = [].
Proof. induction 1; cbn; [reflexivity|]. rewrite H. assumption. Qed.

Lemma incr_insert_mid a x b :
  incr (a ++ b) = true -> Forall (fun y => y < x) a -> Forall (fun y => x < y) b -> incr (a ++ x :: b) = true.
Proof.
  induction a as [|a0 a IH]; intros H Fa Fb.
  - cbn [app] in *. destruct b as [|y b]; [reflexivity|]. inversion Fb; subst. cbn [incr]. apply andb_true_iff. split; [lia|exact H].
  - inversion Fa; subst. cbn [app] in *. specialize (IH (incr_tail _ _ H) H3 Fb).
    destruct a as [|a1 a].
    + cbn [app] in *. cbn [incr]. apply andb_true_iff. split; [lia|exact IH].
    + cbn [app incr] in *. apply andb_true_iff in H as [H1 _]. apply andb_true_iff. split; [exact H1|exact IH].
Qed.

(** copy(s[i+1:n+1], s[i:n]): the live elements i.. move up by one *)
Lemma rep_copy_up {A} site (sl : slice A) n live i :
  Rep sl n live -> 0 <= i < n -> n < slen sl ->
  exists sl', sl_copy site sl (i + 1) (n + 1) i n = Ok sl' /\ Rep sl' (n + 1) (takeZ (i + 1) live ++ dropZ i live)
              /\ slen sl' = slen sl /\ scap sl' = scap sl.
Proof.
  intros R Hi Hn. pose proof R as (H1 & H2 & H3 & H4). pose proof (lenZ_nonneg live).
  unfold sl_copy, slice_ok.
  replace ((0 <=? i + 1) && (i + 1 <=? n + 1) && (n + 1 <=? scap sl) && ((0 <=? i) && (i <=? n) && (n <=? scap sl)))
    with true by lia.
  eexists; split; [reflexivity|]. unfold scap in *. cbn [arr slen].
  replace (Z.min (n + 1 - (i + 1)) (n - i)) with (n - i) by lia.
  assert (L : lenZ (move (arr sl) (i + 1) i (n - i)) = lenZ (arr sl)).
  { unfold move. rewrite !lenZ_app, !lenZ_takeZ, !lenZ_dropZ by lia. lia. }
  split; [|split; [reflexivity|exact L]].
  assert (Ll : lenZ (takeZ (i + 1) live ++ dropZ i live) = n + 1).
  { rewrite lenZ_app, lenZ_takeZ, lenZ_dropZ by lia. lia. }
  rsplit; cbn [arr slen]; try lia.
  unfold move. rewrite (Rep_arr sl n live R) at 1 2.
  rewrite (takeZ_app_l (i + 1) live) by lia. rewrite (dropZ_app_l i live) by lia.
  assert (Ld : lenZ (dropZ i live) = n - i) by (rewrite lenZ_dropZ by lia; lia).
  rewrite (takeZ_app_l (n - i) (dropZ i live)) by lia. rewrite (takeZ_all (n - i) (dropZ i live)) by lia.
  rewrite app_assoc. rewrite <- Ll. apply takeZ_app_exact.
Qed.

(** copy(s[0:i-1], s[1:i]): the live elements 1..i-1 move down by one, the oldest goes *)
Lemma rep_copy_down1 {A} site (sl : slice A) n live i :
  Rep sl n live -> 1 <= i <= n ->
  exists sl', sl_copy site sl 0 (i - 1) 1 i = Ok sl' /\ Rep sl' n (takeZ (i - 1) (dropZ 1 live) ++ dropZ (i - 1) live)
              /\ slen sl' = slen sl /\ scap sl' = scap sl.
Proof.
  intros R Hi. pose proof R as (H1 & H2 & H3 & H4). pose proof (lenZ_nonneg live).
  unfold sl_copy, slice_ok.
  replace ((0 <=? 0) && (0 <=? i - 1) && (i - 1 <=? scap sl) && ((0 <=? 1) && (1 <=? i) && (i <=? scap sl)))
    with true by lia.
  eexists; split; [reflexivity|]. unfold scap in *. cbn [arr slen].
  replace (Z.min (i - 1 - 0) (i - 1)) with (i - 1) by lia.
  assert (L : lenZ (move (arr sl) 0 1 (i - 1)) = lenZ (arr sl)).
  { unfold move. rewrite !lenZ_app, !lenZ_takeZ, !lenZ_dropZ by lia. lia. }
  split; [|split; [reflexivity|exact L]].
  assert (Ld1 : lenZ (dropZ 1 live) = n - 1) by (rewrite lenZ_dropZ by lia; lia).
  assert (Ll : lenZ (takeZ (i - 1) (dropZ 1 live) ++ dropZ (i - 1) live) = n).
  { rewrite lenZ_app, lenZ_takeZ by lia. rewrite Ld1. rewrite (lenZ_dropZ (i - 1)) by lia. lia. }
  rsplit; cbn [arr slen]; try lia.
  unfold move. rewrite (takeZ_nonpos 0) by lia. cbn [app].
  rewrite (Rep_arr sl n live R) at 1 2.
  rewrite (dropZ_app_l 1 live) by lia. rewrite (takeZ_app_l (i - 1) (dropZ 1 live)) by lia.
  replace (0 + (i - 1)) with (i - 1) by lia. rewrite (dropZ_app_l (i - 1) live) by lia.
  rewrite app_assoc. rewrite <- Ll at 1. apply takeZ_app_exact.
Qed.

Definition ins_at (p seqNr : Z) (live : list (Z * Z)) : list (Z * Z) := takeZ p live ++ (seqNr, 1) :: dropZ p live.

Lemma incr_ins_at p seqNr live :
  incr (map fst live) = true ->
  Forall (fun c => fst c < seqNr) (takeZ p live) -> Forall (fun c => seqNr < fst c) (dropZ p live) ->
  incr (map fst (ins_at p seqNr live)) = true.
Proof.
  intros Hi F1 F2. unfold ins_at. rewrite map_app. cbn [map fst]. apply incr_insert_mid.
  - rewrite <- map_app, takeZ_dropZ. exact Hi.
  - apply Forall_forall. intros y Hy. apply in_map_iff in Hy as (c & <- & Hc). exact (proj1 (Forall_forall _ _) F1 c Hc).
  - apply Forall_forall. intros y Hy. apply in_map_iff in Hy as (c & <- & Hc). exact (proj1 (Forall_forall _ _) F2 c Hc).
Qed.

Lemma ins_at_ins_count p seqNr live :
  Forall (fun c => fst c < seqNr) (takeZ p live) -> Forall (fun c => seqNr < fst c) (dropZ p live) ->
  ins_count seqNr live = ins_at p seqNr live.
Proof.
  intros F1 F2. unfold ins_count, ins_at. rewrite <- (takeZ_dropZ p live) at 1 2. rewrite !filter_app.
  rewrite (filter_all (fun c => fst c <? seqNr) (takeZ p live)) by (eapply Forall_impl; [|exact F1]; cbn; intros; lia).
  rewrite (filter_none (fun c => fst c <? seqNr) (dropZ p live)) by (eapply Forall_impl; [|exact F2]; cbn; intros; lia).
  rewrite (filter_none (fun c => seqNr <? fst c) (takeZ p live)) by (eapply Forall_impl; [|exact F1]; cbn; intros; lia).
  rewrite (filter_all (fun c => seqNr <? fst c) (dropZ p live)) by (eapply Forall_impl; [|exact F2]; cbn; intros; lia).
  rewrite app_nil_r. reflexivity.
Qed.

(** the insertion loop of add (number inside the window and not stored) *)
Lemma insert_loop s seqNr :
  sc_inv s -> 0 < sc_n s -> Forall (fun c => fst c <> seqNr) (sc_live s) -> forall fuel i,
  Z.of_nat fuel = i -> i <= sc_n s - 1 -> Forall (fun c => seqNr < fst c) (dropZ i (sc_live s)) ->
  exists s', sc_insert s seqNr i fuel = Ok s' /\ sc_w s' = sc_w s /\
    ((s' = s /\ Forall (fun c => seqNr < fst c) (sc_live s)) \/
     (exists p, 1 <= p /\ Forall (fun c => fst c < seqNr) (takeZ p (sc_live s))
                /\ Forall (fun c => seqNr < fst c) (dropZ p (sc_live s)) /\ sc_inv s' /\
                sc_live s' = if sc_n s <? sc_w s then ins_at p seqNr (sc_live s) else dropZ 1 (ins_at p seqNr (sc_live s)))).
Proof.
  intros I Hn0 Hns. pose proof (sc_rep s I) as R. pose proof I as (Hw & Hn & Hl & Hc & Hi). pose proof R as (RL & _).
  induction fuel as [|fuel IH]; intros i Ef Hi1 F.
  - exists s. split; [reflexivity|]. split; [reflexivity|]. left. split; [reflexivity|].
    replace i with 0 in F by lia. rewrite dropZ_0 in F. exact F.
  - cbn [sc_insert].
    destruct (nthZ_some (sc_live s) (i - 1) ltac:(lia)) as (x & Hx).
    rewrite (rep_get _ _ _ _ _ _ R Hx) by lia. cbn [bind].
    assert (Hk : 0 <= i - 1) by lia.
    pose proof (takeZ_snoc _ _ _ Hk Hx) as Ets. pose proof (dropZ_cons_nth _ _ _ Hk Hx) as Eds.
    replace (i - 1 + 1) with i in Ets, Eds by lia.
    destruct (fst x <? seqNr) eqn:Ex.
    + (* insert between i-1 and i *)
      assert (F1 : Forall (fun c => fst c < seqNr) (takeZ i (sc_live s))).
      { rewrite Ets.
        assert (Hinc : incr (map fst (takeZ (i - 1) (sc_live s) ++ [x])) = true).
        { rewrite <- Ets, map_takeZ. apply incr_takeZ. exact Hi. }
        rewrite map_app in Hinc. cbn [map] in Hinc. pose proof (incr_lt_last _ _ Hinc) as Fl.
        apply Forall_app. split; [|constructor; [lia|constructor]].
        apply Forall_forall. intros c0 Hc0. pose proof (proj1 (Forall_forall _ _) Fl (fst c0) (in_map fst _ _ Hc0)) as Hlt. cbn in Hlt. lia. }
      assert (Hinc' : incr (map fst (ins_at i seqNr (sc_live s))) = true) by (apply incr_ins_at; assumption).
      destruct (sc_n s <? sc_w s) eqn:Efull.
      * rewrite (u32_small (sc_n s + 1)) by lia.
        destruct (rep_copy_up "seqCounters.add:slice" (sc_sl s) _ _ i R ltac:(lia) ltac:(lia)) as (sl1 & Hc1 & R1 & L1 & L2).
        rewrite Hc1. cbn [bind].
        destruct (rep_set_at "seqCounters.add:index" sl1 _ _ i (seqNr, 1) R1 ltac:(lia)) as (sl2 & Hs2 & R2 & L3 & L4).
        rewrite Hs2. cbn [bind]. eexists; split; [reflexivity|]. split; [reflexivity|]. right. exists i.
        split; [lia|]. split; [exact F1|]. split; [exact F|].
        assert (Eset : setZ (takeZ (i + 1) (sc_live s) ++ dropZ i (sc_live s)) i (seqNr, 1) = ins_at i seqNr (sc_live s)).
        { unfold setZ, ins_at. assert (Lt : lenZ (takeZ (i + 1) (sc_live s)) = i + 1) by (rewrite lenZ_takeZ by lia; lia).
          rewrite (takeZ_app_l i) by lia. rewrite takeZ_takeZ. replace (Z.min i (i + 1)) with i by lia.
          rewrite (dropZ_app_r (i + 1)) by lia. rewrite Lt. replace (i + 1 - (i + 1)) with 0 by lia. rewrite dropZ_0. reflexivity. }
        rewrite Eset in R2. destruct R2 as (Q1 & Q2 & Q3 & Q4).
        split.
        -- unfold sc_inv, sc_live. cbn [sc_sl sc_n sc_w]. rewrite Q4.
           split; [lia|]. split; [lia|]. split; [lia|]. split; [lia|]. exact Hinc'.
        -- unfold sc_live at 1. cbn [sc_sl sc_n]. exact Q4.
      * destruct (rep_copy_down1 "seqCounters.add:slice" (sc_sl s) _ _ i R ltac:(lia)) as (sl1 & Hc1 & R1 & L1 & L2).
        rewrite Hc1. cbn [bind].
        destruct (rep_set_at "seqCounters.add:index" sl1 _ _ (i - 1) (seqNr, 1) R1 ltac:(lia)) as (sl2 & Hs2 & R2 & L3 & L4).
        rewrite Hs2. cbn [bind]. eexists; split; [reflexivity|]. split; [reflexivity|]. right. exists i.
        split; [lia|]. split; [exact F1|]. split; [exact F|].
        assert (Ld1 : lenZ (dropZ 1 (sc_live s)) = sc_n s - 1) by (rewrite lenZ_dropZ by lia; lia).
        assert (Eset : setZ (takeZ (i - 1) (dropZ 1 (sc_live s)) ++ dropZ (i - 1) (sc_live s)) (i - 1) (seqNr, 1)
                       = dropZ 1 (ins_at i seqNr (sc_live s))).
        { unfold setZ, ins_at. assert (Lt : lenZ (takeZ (i - 1) (dropZ 1 (sc_live s))) = i - 1) by (rewrite lenZ_takeZ by lia; lia).
          rewrite (takeZ_app_l (i - 1)) by lia. rewrite (takeZ_all (i - 1) (takeZ (i - 1) (dropZ 1 (sc_live s)))) by lia.
          rewrite (dropZ_app_r (i - 1 + 1)) by lia. rewrite Lt. replace (i - 1 + 1 - (i - 1)) with 1 by lia.
          rewrite dropZ_dropZ by lia. replace (1 + (i - 1)) with i by lia.
          assert (Lti : lenZ (takeZ i (sc_live s)) = i) by (rewrite lenZ_takeZ by lia; lia).
          rewrite (dropZ_app_l 1) by lia. rewrite dropZ_takeZ by lia. reflexivity. }
        rewrite Eset in R2. destruct R2 as (Q1 & Q2 & Q3 & Q4).
        split.
        -- unfold sc_inv, sc_live, with_sl. cbn [sc_sl sc_n sc_w]. rewrite Q4.
           split; [lia|]. split; [lia|]. split; [lia|]. split; [lia|].
           rewrite map_dropZ. apply incr_dropZ. exact Hinc'.
        -- unfold sc_live at 1, with_sl. cbn [sc_sl sc_n]. exact Q4.
    + (* keep looking further down *)
      destruct (IH (i - 1) ltac:(lia) ltac:(lia)) as (s' & Hs' & Q); [|eauto].
      rewrite Eds. constructor; [|exact F].
      pose proof (proj1 (Forall_forall _ _) Hns x (nthZ_In _ _ _ Hx)) as Hne. cbn in Hne. lia.
Qed.

Lemma exists_last_Z {A} (l : list A) : 0 < lenZ l -> exists l' x, l = l' ++ [x].
Proof.
  intros H. destruct l as [|a l]; [cbn in H; lia|].
  destruct (@exists_last _ (a :: l) ltac:(discriminate)) as (l' & x & E). eauto.
Qed.

Lemma last_seq_app l c : last_seq (l ++ [c]) = fst c.
Proof. unfold last_seq. rewrite rev_app_distr. reflexivity. Qed.

Lemma incr_all_ge l : incr (map fst l) = true -> forall n, n <= first_seq l -> Forall (fun c => n <= fst c) l.
Proof.
  induction l as [|a l IH]; intros H n Hn; [constructor|].
  cbn in Hn. constructor; [exact Hn|].
  destruct l as [|b l]; [constructor|]. cbn [map incr] in H. apply andb_true_iff in H as [H1 H2].
  apply IH; [exact H2|]. cbn. lia.
Qed.

Lemma existsb_inc_count n l : incr (map fst (inc_count n l)) = incr (map fst l).
Proof. rewrite inc_count_fst. reflexivity. Qed.

Lemma sc_minFromMax_range s m : 0 < sc_w s -> 0 <= m < two32 -> 0 <= sc_minFromMax s m <= m.
Proof.
  intros Hw Hm. unfold sc_minFromMax. destruct (m <? sc_w s) eqn:E; [lia|].
  rewrite u32_small by lia. lia.
Qed.

(** [add]: no panic, invariant kept, and the live counters change as in the list spec *)
Lemma sc_add_spec s n :
  sc_inv s ->
  exists s', sc_add s n = Ok s' /\ sc_inv s' /\ sc_live s' = spec_add (sc_w s) (sc_live s) n /\ sc_w s' = sc_w s.
Proof.
  intros I. pose proof (sc_rep s I) as R. pose proof I as (Hw & Hn & Hl & Hc & Hi).
  pose proof R as (RL & _).
  unfold sc_add. destruct (sc_n s =? 0) eqn:E0.
  - (* empty *)
    assert (sc_n s = 0) by lia. assert (EL : sc_live s = []) by (apply lenZ_zero_nil; lia).
    rewrite EL in R. replace (sc_n s) with 0 in R by lia.
    assert (Hpos : 0 < slen (sc_sl s)) by lia.
    destruct (rep_set_append "seqCounters.add:index" _ 0 [] (n, 1) R Hpos) as (sl' & Hs & R' & L1 & L2).
    rewrite Hs. cbn [bind]. eexists; split; [reflexivity|].
    assert (E1 : u32 (sc_n s + 1) = 1) by (rewrite u32_small; lia).
    rewrite E1. cbn [app] in R'. destruct R' as (R1 & R2 & R3 & R4). change (0 + 1) with 1 in *.
    split; [|split]; cbn [sc_w sc_n sc_sl].
    + unfold sc_inv, sc_live. cbn [sc_w sc_n sc_sl]. rewrite R4. cbn. repeat split; lia.
    + rewrite EL. unfold sc_live. cbn [sc_n sc_sl]. rewrite R4. reflexivity.
    + reflexivity.
  - (* non-empty *)
    assert (Hn0 : 0 < sc_n s) by lia.
    destruct (exists_last_Z (sc_live s) ltac:(lia)) as (l' & cmax & EL).
    assert (Ll' : lenZ l' = sc_n s - 1) by (rewrite EL, lenZ_app, lenZ_cons, lenZ_nil in RL; lia).
    rewrite (u32_small (sc_n s - 1)) by lia.
    assert (Hget : nthZ (sc_n s - 1) (sc_live s) = Some cmax) by (rewrite EL, <- Ll'; apply nthZ_mid).
    rewrite (rep_get _ _ _ _ _ _ R Hget) by lia. cbn [bind].
    assert (Elast : last_seq (sc_live s) = fst cmax) by (rewrite EL; apply last_seq_app).
    unfold spec_add. destruct (sc_live s) as [|c0 lt] eqn:ELive; [destruct l'; discriminate|].
    rewrite <- ELive in *. clear c0 lt ELive.
    rewrite Elast. change (if fst cmax <? sc_w s then 0 else u32 (fst cmax - sc_w s + 1)) with (sc_minFromMax s (fst cmax)).
    destruct (n <? sc_minFromMax s (fst cmax)) eqn:Emin.
    { (* too old: ignored *) eexists; split; [reflexivity|]. auto. }
    destruct (fst cmax <? n) eqn:Emax.
    { (* new maximum *)
      change (if n <? sc_w s then 0 else u32 (n - sc_w s + 1)) with (sc_minFromMax s n).
      pose proof (count_below_loop (sc_minFromMax s n) (sc_sl s) (sc_n s) (sc_live s) [] 0 R ltac:(lia) ltac:(lia)) as CB.
      change (lenZ (@nil counter)) with 0 in CB. rewrite <- lenZ_length, RL, Z.add_0_l in CB.
      rewrite CB. cbn [bind].
      pose proof (count_below_range (sc_minFromMax s n) (sc_live s)) as CR.
      set (nd0 := count_below (sc_minFromMax s n) (sc_live s)) in *.
      rewrite RL.
      set (nd := if (sc_n s =? sc_w s) && (nd0 <? sc_n s) then nd0 + 1 else nd0).
      assert (Hnd : 0 <= nd <= sc_n s) by (subst nd; destruct ((sc_n s =? sc_w s) && (nd0 <? sc_n s)) eqn:Ef; lia).
      replace (if (sc_n s =? sc_w s) && (nd0 <? sc_n s) then u32 (nd0 + 1) else nd0) with nd
        by (subst nd; destruct ((sc_n s =? sc_w s) && (nd0 <? sc_n s)); [rewrite u32_small; lia|reflexivity]).
      assert (Hs1 : exists sl1, (if 0 <? nd then do sl <- sl_copy_tail "seqCounters.add:slice" (sc_sl s) 0 nd;
                                   Ok (mkSc sl (u32 (sc_n s - nd)) (sc_w s)) else Ok s)
                                = Ok (mkSc sl1 (sc_n s - nd) (sc_w s))
                /\ Rep sl1 (sc_n s - nd) (dropZ nd (sc_live s)) /\ slen sl1 = slen (sc_sl s) /\ scap sl1 = scap (sc_sl s)).
      { destruct (0 <? nd) eqn:End.
        - destruct (rep_copy_tail "seqCounters.add:slice" _ _ _ 0 nd R ltac:(lia) ltac:(lia)) as (sl1 & Hc1 & R1 & L1 & L2).
          rewrite Hc1. cbn [bind]. rewrite u32_small by lia. exists sl1. rewrite takeZ_nonpos in R1 by lia.
          replace (sc_n s - (nd - 0)) with (sc_n s - nd) in R1 by lia. auto.
        - exists (sc_sl s). assert (nd = 0) by lia. subst nd. rewrite H. rewrite Z.sub_0_r, dropZ_0.
          split; [destruct s as [a b c]; reflexivity|]. auto. }
      destruct Hs1 as (sl1 & Hs1 & R1 & L1 & L2). rewrite Hs1. cbn [bind sc_sl sc_n sc_w].
      assert (Hroom : sc_n s - nd < slen sl1).
      { rewrite L1, Hl. subst nd. destruct ((sc_n s =? sc_w s) && (nd0 <? sc_n s)) eqn:Ef; lia. }
      destruct (rep_set_append "seqCounters.add:index" sl1 _ _ (n, 1) R1 Hroom) as (sl2 & Hs2 & R2 & L3 & L4).
      rewrite Hs2. cbn [bind]. rewrite u32_small by lia.
      eexists; split; [reflexivity|].
      destruct R2 as (Q1 & Q2 & Q3 & Q4).
      split; [|split]; cbn [sc_w sc_n sc_sl].
      - unfold sc_inv, sc_live. cbn [sc_w sc_n sc_sl]. rewrite Q4.
        split; [lia|]. split; [lia|]. split; [lia|]. split; [lia|].
        rewrite map_app. cbn [map fst]. apply incr_app_gt.
        + rewrite <- (dropZ_0 (map fst (dropZ nd (sc_live s)))).
          assert (Emap : map fst (dropZ nd (sc_live s)) = dropZ nd (map fst (sc_live s))).
          { clear. generalize nd. induction (sc_live s) as [|a l IH]; intros k; [reflexivity|].
            cbn [dropZ map]. destruct (k <=? 0); [reflexivity|]. apply IH. }
          rewrite Emap, dropZ_0. apply incr_dropZ. exact Hi.
        + (* every remaining number is at most the old maximum < n *)
          assert (F : Forall (fun z => z < n) (map fst (sc_live s))).
          { rewrite EL, map_app in Hi |- *. cbn [map] in *. apply Forall_app; split.
            - eapply Forall_impl; [|apply (incr_lt_last _ _ Hi)]. cbn. intros. lia.
            - constructor; [lia|constructor]. }
          apply Forall_forall. intros z Hz. apply in_map_iff in Hz as (c & Ec & Hc').
          assert (Hin : In c (sc_live s)).
          { clear - Hc'. revert Hc'. generalize nd. induction (sc_live s) as [|a l IH]; intros k Hc'; [destruct Hc'|].
            cbn [dropZ] in Hc'. destruct (k <=? 0); [exact Hc'|]. right. eapply IH; eauto. }
          subst z. apply (proj1 (Forall_forall _ _) F). apply in_map. exact Hin.
      - unfold sc_live. cbn [sc_n sc_sl]. rewrite Q4. reflexivity.
      - reflexivity. }
    (* inside the window *)
    destruct (find_inc_loop n (sc_sl s) (sc_n s) (sc_live s) [] R) as (r & Hr & Hm).
    change (lenZ (@nil counter)) with 0 in Hr. rewrite <- lenZ_length, RL in Hr. rewrite Hr. cbn [bind].
    destruct r as [sl'|].
    { destruct Hm as (Hex & R' & L1 & L2). cbn [app] in R'. rewrite Hex.
      eexists; split; [reflexivity|]. destruct R' as (Q1 & Q2 & Q3 & Q4).
      split; [|split]; unfold with_sl; cbn [sc_w sc_n sc_sl].
      - unfold sc_inv, sc_live. cbn [sc_w sc_n sc_sl]. rewrite Q4, inc_count_fst.
        split; [lia|]. split; [lia|]. split; [lia|]. split; [lia|]. exact Hi.
      - unfold sc_live. cbn [sc_n sc_sl]. exact Q4.
      - reflexivity. }
    (* not stored: inserted at its place, or ignored when below everything stored *)
    rewrite Hm.
    assert (Hns : Forall (fun c => fst c <> n) (sc_live s)).
    { apply Forall_forall. intros c Hc' Heq. assert (existsb (fun c => fst c =? n) (sc_live s) = true); [|congruence].
      apply existsb_exists. exists c. split; [exact Hc'|lia]. }
    assert (Hcm : n < fst cmax).
    { pose proof (proj1 (Forall_forall _ _) Hns cmax ltac:(rewrite EL; apply in_or_app; right; left; reflexivity)) as Hne. cbn in Hne. lia. }
    destruct (insert_loop s n I Hn0 Hns (Z.to_nat (sc_n s - 1)) (sc_n s - 1) ltac:(lia) ltac:(lia)) as (s' & Hs' & Ws' & Hcase).
    { rewrite EL, <- Ll', dropZ_app_exact. constructor; [exact Hcm|constructor]. }
    rewrite Hs'. exists s'. split; [reflexivity|].
    assert (Hfirst : exists c0 rest, sc_live s = c0 :: rest).
    { destruct (sc_live s) as [|c0 rest]; [cbn in RL; lia|eauto]. }
    destruct Hfirst as (c0 & rest & Ec0).
    destruct Hcase as [[-> Fall]|(p & Hp & F1 & F2 & Is' & Ls')].
    + split; [exact I|]. split; [|reflexivity].
      replace (n <? first_seq (sc_live s)) with true; [reflexivity|].
      rewrite Ec0 in Fall |- *. inversion Fall; subst. cbn [first_seq]. lia.
    + split; [exact Is'|]. split; [|exact Ws'].
      replace (n <? first_seq (sc_live s)) with false.
      * rewrite RL, (ins_at_ins_count p n (sc_live s) F1 F2). exact Ls'.
      * rewrite Ec0 in F1 |- *. cbn [takeZ] in F1. replace (p <=? 0) with false in F1 by lia. inversion F1; subst. cbn [first_seq]. lia.
Qed.

(** * Refutations: concrete witnesses evaluated on the model (each is replayed on the real structs
    by the harness, generator families named regression) *)
Definition sc_of (w : Z) (l : list Z) : sc :=
  match sc_adds (sc_new w) l with Ok s => s | _ => sc_new w end.

Lemma sc_new_inv w : 0 < w < two32 -> sc_inv (sc_new w).
Proof.
  intros H. unfold sc_inv, sc_new, sc_live. cbn [sc_w sc_n sc_sl].
  destruct (rep_make (0, 0) w ltac:(lia)) as (R & L1 & L2). unfold czero. rewrite L1, L2.
  split; [lia|]. split; [lia|]. split; [lia|]. split; [lia|]. rewrite takeZ_nonpos by lia. reflexivity.
Qed.

(** full window [1,2,3,4], then number 100: before ffc392a a slice bounds panic, now the window restarts at 100 *)
Lemma jump_repaired :
  exists s s', sc_adds (sc_new 4) [1; 2; 3; 4] = Ok s /\ sc_inv s /\ sc_add s 100 = Ok s' /\ sc_live s' = [(100, 1)].
Proof.
  exists (sc_of 4 [1; 2; 3; 4]), (sc_of 4 [1; 2; 3; 4; 100]). split; [vm_compute; reflexivity|]. split.
  - apply sc_invb_ok. vm_compute. reflexivity.
  - split; vm_compute; reflexivity.
Qed.

(** inserting 6 into [5,7] and into [5,7,9]: before ddde9b0 the entry of 5 was overwritten ([6,7], [6,7,7]) *)
Lemma counters_insert_repaired :
  exists s s' t t', sc_adds (sc_new 4) [5; 7] = Ok s /\ sc_add s 6 = Ok s' /\ sc_live s' = [(5, 1); (6, 1); (7, 1)] /\
                    sc_adds (sc_new 8) [5; 7; 9] = Ok t /\ sc_add t 6 = Ok t' /\ sc_live t' = [(5, 1); (6, 1); (7, 1); (9, 1)].
Proof.
  exists (sc_of 4 [5; 7]), (sc_of 4 [5; 7; 6]), (sc_of 8 [5; 7; 9]), (sc_of 8 [5; 7; 9; 6]).
  repeat split; vm_compute; reflexivity.
Qed.

(** seqCounters.resize to a smaller window: before 502773f _nrCounters stayed above len, now the newest stay *)
Lemma shrink_counters_repaired :
  exists s s', sc_inv s /\ sc_resize s 3 = Ok s' /\ sc_inv s' /\ sc_live s' = [(3, 1); (4, 1); (5, 1)].
Proof.
  exists (sc_of 8 [1; 2; 3; 4; 5]). eexists. split.
  - apply sc_invb_ok. vm_compute. reflexivity.
  - split; [vm_compute; reflexivity|]. split; [apply sc_invb_ok; vm_compute; reflexivity|vm_compute; reflexivity].
Qed.

(** ** drop, resize, newFullCounter, fullRange *)
Lemma incr_remove {A} (f : A -> Z) i l :
  0 <= i -> incr (map f l) = true -> incr (map f (takeZ i l ++ dropZ (i + 1) l)) = true.
Proof.
  intros Hi H. rewrite map_app, map_takeZ, map_dropZ. apply incr_cut; [lia|exact H].
Qed.

Lemma sc_drop_loop_spec s seqNr : forall l2 l1,
  Rep (sc_sl s) (sc_n s) (l1 ++ l2) -> slen (sc_sl s) = sc_w s -> 0 < sc_n s < two32 ->
  exists s', sc_drop_loop s seqNr (lenZ l1) (length l2) = Ok s' /\ sc_w s' = sc_w s
    /\ slen (sc_sl s') = slen (sc_sl s) /\ scap (sc_sl s') = scap (sc_sl s)
    /\ (s' = s \/ exists i, 0 <= i < sc_n s /\ sc_n s' = sc_n s - 1 /\
                   Rep (sc_sl s') (sc_n s - 1) (takeZ i (l1 ++ l2) ++ dropZ (i + 1) (l1 ++ l2))).
Proof.
  induction l2 as [|x l2 IH]; intros l1 R Hl Hn.
  - cbn. exists s. repeat split; auto.
  - cbn [length sc_drop_loop]. pose proof (lenZ_nonneg l2). pose proof (lenZ_nonneg l1).
    assert (Hlen : lenZ (l1 ++ x :: l2) = sc_n s) by apply R.
    rewrite lenZ_app, lenZ_cons in Hlen.
    rewrite (rep_get _ _ _ (l1 ++ x :: l2) (lenZ l1) x R (nthZ_mid l1 l2 x)) by lia.
    cbn [bind]. destruct (fst x =? seqNr) eqn:E.
    + set (i := lenZ l1) in *. destruct (i <? sc_w s - 1) eqn:Ei.
      * destruct (rep_copy_tail "seqCounters.drop:slice" _ _ _ i (i + 1) R ltac:(lia) ltac:(lia)) as (sl' & Hc & R' & L1 & L2).
        rewrite Hc. cbn [bind]. rewrite u32_small by lia. eexists; split; [reflexivity|].
        cbn [sc_w sc_sl sc_n]. repeat split; auto. right. exists i.
        replace (sc_n s - (i + 1 - i)) with (sc_n s - 1) in R' by lia.
        split; [lia|split; [reflexivity|exact R']].
      * (* the last slot of a full array: nothing to move *)
        cbn [bind]. rewrite u32_small by lia. eexists; split; [reflexivity|].
        cbn [sc_w sc_sl sc_n]. repeat split; auto. right. exists i.
        destruct R as (R1 & R2 & R3 & R4).
        assert (l2 = []) by (apply lenZ_zero_nil; lia). subst l2.
        split; [lia|split; [reflexivity|]]. subst i.
        rewrite takeZ_app_exact. rewrite dropZ_all by (rewrite lenZ_app, lenZ_cons, lenZ_nil; lia).
        rewrite app_nil_r. rsplit; try lia.
        rewrite <- (takeZ_app_exact l1 [x]), <- R4, takeZ_takeZ. f_equal. lia.
    + replace (lenZ l1 + 1) with (lenZ (l1 ++ [x])) by (rewrite lenZ_app, lenZ_cons, lenZ_nil; lia).
      assert (R' : Rep (sc_sl s) (sc_n s) ((l1 ++ [x]) ++ l2)) by (rewrite <- app_assoc; exact R).
      destruct (IH (l1 ++ [x]) R' Hl Hn) as (s' & Hs & Q). exists s'. split; [exact Hs|].
      rewrite <- app_assoc in Q. exact Q.
Qed.

Lemma sc_drop_inv s seqNr :
  sc_inv s -> exists s', sc_drop s seqNr = Ok s' /\ sc_inv s' /\ sc_w s' = sc_w s /\ sc_n s' <= sc_n s.
Proof.
  intros I. pose proof (sc_rep s I) as R. pose proof I as (Hw & Hn & Hl & Hc & Hi). pose proof R as (RL & _).
  unfold sc_drop. destruct (Z.eq_dec (sc_n s) 0) as [E0|E0].
  - rewrite E0. cbn. exists s. repeat split; auto; lia.
  - destruct (sc_drop_loop_spec s seqNr (sc_live s) [] R Hl ltac:(lia)) as (s' & Hs & Q1 & Q2 & Q3 & Q).
    change (lenZ (@nil (Z * Z))) with 0 in Hs. rewrite <- lenZ_length, RL in Hs. rewrite Hs.
    exists s'. split; [reflexivity|]. destruct Q as [->|(i & Hi' & Hn' & R')].
    + repeat split; auto; lia.
    + cbn [app] in R'. destruct R' as (R1 & R2 & R3 & R4).
      split; [|split; [exact Q1|lia]].
      unfold sc_inv, sc_live. rewrite Hn', R4, Q1, Q2, Q3.
      split; [lia|]. split; [lia|]. split; [lia|]. split; [lia|].
      apply incr_remove; [lia|exact Hi].
Qed.

(** copy(s[0:len], s[a:n]) keeps the last n-a live elements *)
Lemma rep_copy_front {A} site (sl : slice A) n live a :
  Rep sl n live -> 0 <= a <= n ->
  exists sl', sl_copy site sl 0 (slen sl) a n = Ok sl' /\ Rep sl' (n - a) (dropZ a live)
              /\ slen sl' = slen sl /\ scap sl' = scap sl.
Proof.
  intros R Ha. pose proof R as (H1 & H2 & H3 & H4). pose proof (lenZ_nonneg live).
  unfold sl_copy, slice_ok.
  replace ((0 <=? 0) && (0 <=? slen sl) && (slen sl <=? scap sl) && ((0 <=? a) && (a <=? n) && (n <=? scap sl)))
    with true by lia.
  eexists; split; [reflexivity|]. unfold scap in *. cbn [arr slen].
  replace (Z.min (slen sl - 0) (n - a)) with (n - a) by lia.
  assert (L : lenZ (move (arr sl) 0 a (n - a)) = lenZ (arr sl)).
  { unfold move. rewrite !lenZ_app, !lenZ_takeZ, !lenZ_dropZ by lia. lia. }
  split; [|split; [reflexivity|exact L]].
  assert (Ld : lenZ (dropZ a live) = n - a) by (rewrite lenZ_dropZ by lia; lia).
  rsplit; cbn [arr slen]; try lia.
  unfold move. rewrite (takeZ_nonpos 0) by lia. cbn [app].
  rewrite (Rep_arr sl n live R) at 1. rewrite (dropZ_app_l a) by lia.
  rewrite (takeZ_app_l (n - a) (dropZ a live)) by lia. rewrite (takeZ_all (n - a) (dropZ a live)) by lia.
  rewrite <- Ld at 1. apply takeZ_app_exact.
Qed.

(** resize never panics and keeps the invariant; a window below the number of live counters keeps the newest *)
Lemma sc_resize_inv s nw :
  sc_inv s -> 0 < nw < two32 ->
  exists s', sc_resize s nw = Ok s' /\ sc_inv s' /\ sc_w s' = nw
             /\ sc_live s' = dropZ (sc_n s - nw) (sc_live s) /\ sc_n s' = Z.min (sc_n s) nw.
Proof.
  intros I Hnw. pose proof (sc_rep s I) as R. pose proof I as (Hw & Hn & Hl & Hc & Hi). pose proof R as (RL & _).
  unfold sc_resize. destruct (sc_w s <? nw) eqn:E1.
  - destruct (rep_realloc (0, 0) (sc_sl s) _ _ nw R ltac:(lia)) as ((R1 & R2 & R3 & R4) & L1 & L2).
    eexists; split; [reflexivity|]. unfold sc_inv, sc_live, czero. cbn [sc_sl sc_n sc_w]. rewrite R4, L1, L2.
    rewrite dropZ_nonpos by lia. repeat split; auto; lia.
  - destruct (nw <? sc_w s) eqn:E2.
    + destruct (nw <? sc_n s) eqn:E3.
      * rewrite u32_small by lia.
        destruct (rep_copy_front "seqCounters.resize:slice" (sc_sl s) _ _ (sc_n s - nw) R ltac:(lia)) as (sl1 & Hc1 & R1 & L1 & L2).
        rewrite Hc1. cbn [bind fst snd]. replace (sc_n s - (sc_n s - nw)) with nw in R1 by lia.
        destruct (rep_truncate "seqCounters.resize:slice" sl1 _ _ nw R1 ltac:(lia)) as (sl' & Ht & (Q1 & Q2 & Q3 & Q4) & M1 & M2).
        rewrite Ht. cbn [bind]. eexists; split; [reflexivity|]. unfold sc_inv. unfold sc_live at 1 2. cbn [sc_sl sc_n sc_w].
        rewrite Q4, M1. split; [|split; [reflexivity|split; [reflexivity|lia]]].
        split; [lia|]. split; [lia|]. split; [lia|]. split; [lia|].
        rewrite map_dropZ. apply incr_dropZ. exact Hi.
      * cbn [bind fst snd].
        destruct (rep_truncate "seqCounters.resize:slice" (sc_sl s) _ _ nw R ltac:(lia)) as (sl' & Ht & (R1 & R2 & R3 & R4) & L1 & L2).
        rewrite Ht. cbn [bind]. eexists; split; [reflexivity|]. unfold sc_inv, sc_live. cbn [sc_sl sc_n sc_w].
        rewrite R4, L1. rewrite dropZ_nonpos by lia. repeat split; auto; lia.
    + assert (nw = sc_w s) by lia. subst nw. eexists; split; [reflexivity|].
      unfold sc_inv, sc_live. cbn [sc_sl sc_n sc_w]. rewrite dropZ_nonpos by lia. repeat split; auto; lia.
Qed.

Lemma newFull_loop_ok sl n live nrTracks maxSeqNr : forall fuel,
  Rep sl n live -> Z.of_nat fuel <= n ->
  exists r, sc_newFull_loop sl nrTracks maxSeqNr (Z.of_nat fuel - 1) fuel = Ok r.
Proof.
  induction fuel as [|fuel IH]; intros R Hf; [cbn; eauto|].
  cbn [sc_newFull_loop]. pose proof R as (R1 & _).
  destruct (nthZ_some live (Z.of_nat (S fuel) - 1) ltac:(lia)) as (x & Hx).
  rewrite (rep_get _ _ _ _ _ _ R Hx) by lia. cbn [bind].
  destruct ((snd x =? nrTracks) && (maxSeqNr <? fst x)); [eauto|].
  destruct (fst x <=? maxSeqNr); [eauto|].
  replace (Z.of_nat (S fuel) - 1 - 1) with (Z.of_nat fuel - 1) by lia. apply IH; [exact R|lia].
Qed.

Lemma sc_newFull_ok s k m : sc_inv s -> exists r, sc_newFullCounter s k m = Ok r.
Proof.
  intros I. pose proof (sc_rep s I) as R. pose proof I as (Hw & Hn & Hl & Hc & Hi).
  unfold sc_newFullCounter. destruct (sc_n s =? 0) eqn:E; [eauto|].
  rewrite u32_small by lia.
  destruct (newFull_loop_ok _ _ _ k m (Z.to_nat (sc_n s - 1 + 1)) R ltac:(lia)) as (r & Hr).
  replace (Z.of_nat (Z.to_nat (sc_n s - 1 + 1)) - 1) with (sc_n s - 1) in Hr by lia. eauto.
Qed.

Lemma fullRange_loop_ok sl n live nrTracks : forall fuel first last lastIdx,
  Rep sl n live -> Z.of_nat fuel <= n ->
  exists r, sc_fullRange_loop sl nrTracks first last lastIdx (Z.of_nat fuel - 1) fuel = Ok r.
Proof.
  induction fuel as [|fuel IH]; intros first last lastIdx R Hf; [cbn; eauto|].
  cbn [sc_fullRange_loop]. pose proof R as (R1 & _).
  destruct (nthZ_some live (Z.of_nat (S fuel) - 1) ltac:(lia)) as (x & Hx).
  rewrite (rep_get _ _ _ _ _ _ R Hx) by lia. cbn [bind].
  replace (Z.of_nat (S fuel) - 1 - 1) with (Z.of_nat fuel - 1) by lia.
  destruct (snd x <? nrTracks).
  - destruct (last =? 0); [apply IH; [exact R|lia]|eauto].
  - destruct (if last =? 0 then (fst x, Z.of_nat (S fuel) - 1) else (last, lastIdx)) as [last' lastIdx'].
    destruct (negb (fst x =? last' - (lastIdx' - (Z.of_nat (S fuel) - 1)))); [eauto|].
    apply IH; [exact R|lia].
Qed.

Lemma sc_fullRange_ok s k : sc_inv s -> exists r, sc_fullRange s k = Ok r.
Proof.
  intros I. pose proof (sc_rep s I) as R. pose proof I as (Hw & Hn & Hl & Hc & Hi).
  unfold sc_fullRange. destruct (sc_n s =? 0) eqn:E; [eauto|].
  rewrite u32_small by lia.
  destruct (fullRange_loop_ok _ _ _ k (Z.to_nat (sc_n s - 1 + 1)) 0 0 0 R ltac:(lia)) as (r & Hr).
  replace (Z.of_nat (Z.to_nat (sc_n s - 1 + 1)) - 1) with (sc_n s - 1) in Hr by lia. eauto.
Qed.

(** * segDataBuffer *)
Lemma sdb_invb_ok b : sdb_invb b = true -> sdb_inv b.
Proof.
  unfold sdb_invb, sdb_inv. intros H. repeat (apply andb_true_iff in H as [H ?]).
  repeat split; try lia; try assumption.
  apply Forall_forall. intros i Hi. rewrite forallb_forall in H0. specialize (H0 i Hi). lia.
Qed.

Lemma sdb_rep b : sdb_inv b -> Rep (b_sl b) (b_n b) (sdb_live b).
Proof.
  intros (Hw & Hn & Hl & Hc & Hi & Hr). unfold sdb_live. rsplit; try lia; [|reflexivity].
  rewrite lenZ_takeZ by lia. lia.
Qed.

Definition count_le (bound : Z) (l : list item) : Z := lenZ (filter (fun i => i_seq i <=? bound) l).

Lemma count_le_cons bound c l :
  count_le bound (c :: l) = (if i_seq c <=? bound then 1 else 0) + count_le bound l.
Proof. unfold count_le. cbn [filter]. destruct (i_seq c <=? bound); rewrite ?lenZ_cons; lia. Qed.

Lemma count_le_range bound l : 0 <= count_le bound l <= lenZ l.
Proof.
  induction l as [|c l IH]; [cbn; lia|]. rewrite count_le_cons, lenZ_cons. destruct (i_seq c <=? bound); lia.
Qed.

Lemma count_old_loop bound sl n : forall l2 l1 acc,
  Rep sl n (l1 ++ l2) -> 0 <= acc -> acc + lenZ l2 < two32 ->
  sdb_count_old sl bound (lenZ l1) (length l2) acc = Ok (acc + count_le bound l2).
Proof.
  induction l2 as [|x l2 IH]; intros l1 acc R Ha Hb.
  - cbn. f_equal. lia.
  - cbn [length sdb_count_old]. rewrite lenZ_cons in Hb. pose proof (lenZ_nonneg l2). pose proof (lenZ_nonneg l1).
    assert (Hlen : lenZ (l1 ++ x :: l2) = n) by apply R.
    rewrite lenZ_app, lenZ_cons in Hlen.
    rewrite (rep_get _ sl n (l1 ++ x :: l2) (lenZ l1) x R (nthZ_mid l1 l2 x)) by lia.
    cbn [bind]. rewrite count_le_cons.
    replace (lenZ l1 + 1) with (lenZ (l1 ++ [x])) by (rewrite lenZ_app, lenZ_cons, lenZ_nil; lia).
    assert (R' : Rep sl n ((l1 ++ [x]) ++ l2)) by (rewrite <- app_assoc; exact R).
    destruct (i_seq x <=? bound).
    + rewrite u32_small by lia. rewrite IH by (try exact R'; lia). f_equal. lia.
    + rewrite IH by (try exact R'; lia). f_equal.
Qed.

(** an increasing list of integers spans at least its length *)
Lemma incr_span a l : incr (a :: l) = true -> a + lenZ l <= last (a :: l) 0.
Proof.
  revert a; induction l as [|b l IH]; intros a H; [cbn; lia|].
  cbn [incr] in H. apply andb_true_iff in H as [H1 H2]. specialize (IH b H2).
  rewrite lenZ_cons. change (last (a :: b :: l) 0) with (last (b :: l) 0). lia.
Qed.

Lemma incr_all_gt a l : incr (a :: l) = true -> Forall (fun y => a < y) l.
Proof.
  revert a; induction l as [|c l IHl]; intros a H; [constructor|].
  cbn [incr] in H. apply andb_true_iff in H as [H1 H2]. constructor; [lia|].
  specialize (IHl c H2). eapply Forall_impl; [|exact IHl]. cbn; intros; lia.
Qed.

(** in an increasing list the elements above a bound are what remains after dropping those up to it *)
Lemma sorted_filter_drop bound l :
  incr (map i_seq l) = true ->
  filter (fun i => negb (i_seq i <=? bound)) l = dropZ (count_le bound l) l.
Proof.
  induction l as [|a l IH]; intros H; [reflexivity|].
  rewrite count_le_cons. cbn [filter]. pose proof (count_le_range bound l) as CR.
  destruct (i_seq a <=? bound) eqn:E; cbn [negb].
  - cbn [dropZ]. replace (1 + count_le bound l <=? 0) with false by lia.
    replace (1 + count_le bound l - 1) with (count_le bound l) by lia.
    apply IH. cbn [map] in H. eapply incr_tail; eauto.
  - cbn [map] in H. pose proof (incr_all_gt _ _ H) as F.
    assert (Z0 : count_le bound l = 0).
    { unfold count_le. replace (filter (fun i => i_seq i <=? bound) l) with (@nil item); [reflexivity|].
      symmetry. clear - F E. induction l as [|c l IHl]; [reflexivity|].
      cbn [map] in F. inversion F; subst. cbn [filter]. replace (i_seq c <=? bound) with false by lia. auto. }
    rewrite Z0. cbn [Z.add dropZ Z.leb Z.compare]. f_equal.
    clear - F E. induction l as [|c l IHl]; [reflexivity|].
    cbn [map] in F. inversion F; subst. cbn [filter]. replace (i_seq c <=? bound) with false by lia. cbn [negb].
    f_equal. auto.
Qed.

Lemma last_item_seq_app l x : last_item_seq (l ++ [x]) = i_seq x.
Proof. unfold last_item_seq. rewrite map_app. cbn [map]. apply last_last. Qed.

Definition item_ok (it : item) : Prop := 0 <= i_seq it < two32.

Lemma sdb_add_spec b it :
  sdb_inv b -> item_ok it ->
  exists b' ok, sdb_add b it = Ok (b', ok) /\ sdb_inv b' /\ (sdb_live b', ok) = spec_badd (b_size b) (sdb_live b) it
                /\ b_size b' = b_size b.
Proof.
  intros I Hit. pose proof (sdb_rep b I) as R. pose proof I as (Hw & Hn & Hl & Hc & Hi & Hr).
  pose proof R as (RL & _). unfold item_ok in Hit.
  unfold sdb_add. destruct (b_n b =? 0) eqn:E0.
  - assert (b_n b = 0) by lia. assert (EL : sdb_live b = []) by (apply lenZ_zero_nil; lia).
    rewrite EL in R. replace (b_n b) with 0 in R by lia.
    assert (Hpos : 0 < slen (b_sl b)) by lia.
    destruct (rep_set_append "segDataBuffer.add:index" _ 0 [] it R Hpos) as (sl' & Hs & R' & L1 & L2).
    rewrite Hs. cbn [bind]. do 2 eexists; split; [reflexivity|].
    assert (E1 : u32 (b_n b + 1) = 1) by (rewrite u32_small; lia).
    rewrite E1. cbn [app] in R'. destruct R' as (R1 & R2 & R3 & R4). change (0 + 1) with 1 in *.
    split; [|split]; cbn [b_size b_n b_sl].
    + unfold sdb_inv, sdb_live. cbn [b_size b_n b_sl]. rewrite R4. cbn [map incr].
      split; [lia|]. split; [lia|]. split; [lia|]. split; [lia|]. split; [reflexivity|]. constructor; [exact Hit|constructor].
    + rewrite EL. unfold sdb_live. cbn [b_n b_sl]. rewrite R4. reflexivity.
    + reflexivity.
  - assert (Hn0 : 0 < b_n b) by lia.
    destruct (exists_last_Z (sdb_live b) ltac:(lia)) as (l' & ilast & EL).
    assert (Ll' : lenZ l' = b_n b - 1) by (rewrite EL, lenZ_app, lenZ_cons, lenZ_nil in RL; lia).
    rewrite (u32_small (b_n b - 1)) by lia.
    assert (Hget : nthZ (b_n b - 1) (sdb_live b) = Some ilast) by (rewrite EL, <- Ll'; apply nthZ_mid).
    rewrite (rep_get _ _ _ _ _ _ R Hget) by lia. cbn [bind].
    assert (Elast : last_item_seq (sdb_live b) = i_seq ilast) by (rewrite EL; apply last_item_seq_app).
    unfold spec_badd. destruct (sdb_live b) as [|c0 lt] eqn:ELive; [destruct l'; discriminate|].
    rewrite <- ELive in *. clear c0 lt ELive. rewrite Elast, RL.
    destruct (i_seq it <=? i_seq ilast) eqn:Ele.
    { do 2 eexists; split; [reflexivity|]. auto. }
    (* all stored numbers are below the new one *)
    assert (Flt : Forall (fun z => z < i_seq it) (map i_seq (sdb_live b))).
    { rewrite EL, map_app in Hi |- *. cbn [map] in *. apply Forall_app; split.
      - eapply Forall_impl; [|apply (incr_lt_last _ _ Hi)]. cbn. intros. lia.
      - constructor; [lia|constructor]. }
    destruct (b_n b <? b_size b) eqn:Efull.
    { (* room left *)
      destruct (rep_set_append "segDataBuffer.add:index" _ _ _ it R ltac:(lia)) as (sl' & Hs & R' & L1 & L2).
      rewrite Hs. cbn [bind]. rewrite u32_small by lia. do 2 eexists; split; [reflexivity|].
      destruct R' as (R1 & R2 & R3 & R4).
      split; [|split]; cbn [b_size b_n b_sl].
      - unfold sdb_inv, sdb_live. cbn [b_size b_n b_sl]. rewrite R4.
        split; [lia|]. split; [lia|]. split; [lia|]. split; [lia|]. split.
        + rewrite map_app. cbn [map]. apply incr_app_gt; assumption.
        + apply Forall_app; split; [exact Hr|constructor; [exact Hit|constructor]].
      - unfold sdb_live. cbn [b_n b_sl]. rewrite R4. reflexivity.
      - reflexivity. }
    (* full: discard what falls out of the window of the new number *)
    assert (Hfull : b_n b = b_size b) by lia.
    (* the first stored number is at most seq - size, so the bound does not wrap and nd >= 1 *)
    destruct (sdb_live b) as [|i0 lt] eqn:ELive; [destruct l'; discriminate|].
    assert (Hspan : i_seq i0 + lenZ lt <= i_seq ilast).
    { cbn [map] in Hi. pose proof (incr_span _ _ Hi) as Hs.
      unfold last_item_seq in Elast. cbn [map] in Elast. rewrite Elast in Hs.
      unfold lenZ in *. rewrite map_length in Hs. exact Hs. }
    assert (H0 : 0 <= i_seq i0) by (inversion Hr; subst; lia).
    rewrite lenZ_cons in RL.
    rewrite (u32_small (i_seq it - b_size b)) by lia.
    rewrite <- ELive in *.
    pose proof (count_old_loop (i_seq it - b_size b) (b_sl b) (b_n b) (sdb_live b) [] 0 R ltac:(lia)) as CB.
    assert (RL' : lenZ (sdb_live b) = b_n b) by (rewrite ELive, lenZ_cons; lia).
    specialize (CB ltac:(lia)). change (lenZ (@nil item)) with 0 in CB.
    rewrite <- lenZ_length, RL', Z.add_0_l, Hfull in CB. rewrite CB. cbn [bind].
    pose proof (count_le_range (i_seq it - b_size b) (sdb_live b)) as CR.
    set (nd := count_le (i_seq it - b_size b) (sdb_live b)) in *.
    assert (Hnd1 : 1 <= nd).
    { subst nd. rewrite ELive, count_le_cons. replace (i_seq i0 <=? i_seq it - b_size b) with true by lia.
      pose proof (count_le_range (i_seq it - b_size b) lt). lia. }
    destruct (rep_copy_tail "segDataBuffer.add:slice" _ _ _ 0 nd R ltac:(lia) ltac:(lia)) as (sl1 & Hc1 & R1 & L1 & L2).
    rewrite Hc1. cbn [bind]. rewrite takeZ_nonpos in R1 by lia. cbn [app] in R1.
    rewrite (u32_small (nd - 1)) by lia. rewrite (u32_small (b_n b - (nd - 1))) by lia.
    rewrite (u32_small (b_n b - (nd - 1) - 1)) by lia.
    replace (b_n b - (nd - 0)) with (b_n b - nd) in R1 by lia.
    replace (b_n b - (nd - 1) - 1) with (b_n b - nd) by lia.
    destruct (rep_set_append "segDataBuffer.add:index" sl1 _ _ it R1 ltac:(lia)) as (sl2 & Hs2 & R2 & L3 & L4).
    rewrite Hs2. cbn [bind]. do 2 eexists; split; [reflexivity|].
    destruct R2 as (Q1 & Q2 & Q3 & Q4).
    replace (b_n b - nd + 1) with (b_n b - (nd - 1)) in * by lia.
    split; [|split]; cbn [b_size b_n b_sl].
    + unfold sdb_inv, sdb_live. cbn [b_size b_n b_sl]. rewrite Q4.
      split; [lia|]. split; [lia|]. split; [lia|]. split; [lia|]. split.
      * rewrite map_app, map_dropZ. cbn [map]. apply incr_app_gt; [apply incr_dropZ; exact Hi|].
        apply Forall_dropZ. exact Flt.
      * apply Forall_app; split; [apply Forall_dropZ; exact Hr|constructor; [exact Hit|constructor]].
    + unfold sdb_live at 1. cbn [b_n b_sl]. rewrite Q4.
      replace (lenZ (sdb_live b) <? b_size b) with false by lia.
      rewrite (sorted_filter_drop _ _ Hi). reflexivity.
    + reflexivity.
Qed.

Lemma get_loop_ok sl n live seqNr : forall fuel,
  Rep sl n live -> Z.of_nat fuel <= n ->
  exists r, sdb_get_loop sl seqNr (Z.of_nat fuel - 1) fuel = Ok r /\
            match r with Some it => In it live /\ i_seq it = seqNr | None => True end.
Proof.
  induction fuel as [|fuel IH]; intros R Hf; [cbn; exists None; split; [reflexivity|exact I]|].
  cbn [sdb_get_loop]. pose proof R as (R1 & _).
  destruct (nthZ_some live (Z.of_nat (S fuel) - 1) ltac:(lia)) as (x & Hx).
  rewrite (rep_get _ _ _ _ _ _ R Hx) by lia. cbn [bind].
  destruct (i_seq x =? seqNr) eqn:E.
  - eexists; split; [reflexivity|]. split; [eapply nthZ_In; eauto|lia].
  - replace (Z.of_nat (S fuel) - 1 - 1) with (Z.of_nat fuel - 1) by lia. apply IH; [exact R|lia].
Qed.

Lemma sdb_getItem_ok b seqNr :
  sdb_inv b -> exists r, sdb_getItem b seqNr = Ok r /\
                         match r with Some it => In it (sdb_live b) /\ i_seq it = seqNr | None => True end.
Proof.
  intros I. pose proof (sdb_rep b I) as R. pose proof I as (Hw & Hn & Hl & Hc & Hi & Hr).
  unfold sdb_getItem. destruct (b_n b =? 0) eqn:E; [exists None; split; [reflexivity|exact Logic.I]|].
  rewrite u32_small by lia.
  destruct (get_loop_ok _ _ _ seqNr (Z.to_nat (b_n b - 1 + 1)) R ltac:(lia)) as (r & Hr' & Hm).
  replace (Z.of_nat (Z.to_nat (b_n b - 1 + 1)) - 1) with (b_n b - 1) in Hr' by lia. eauto.
Qed.

(** resize never panics and keeps the invariant; fewer slots than items keeps the newest items
    (and, since 9e29b04, sets c.size) *)
Lemma sdb_resize_inv b nw :
  sdb_inv b -> 0 < nw < two32 ->
  exists b', sdb_resize b nw = Ok b' /\ sdb_inv b' /\ b_size b' = nw
             /\ sdb_live b' = dropZ (b_n b - nw) (sdb_live b) /\ b_n b' = Z.min (b_n b) nw.
Proof.
  intros I Hnw. pose proof (sdb_rep b I) as R. pose proof I as (Hw & Hn & Hl & Hc & Hi & Hr). pose proof R as (RL & _).
  unfold sdb_resize. destruct (nw =? b_size b) eqn:E1.
  - exists b. rewrite dropZ_nonpos by lia. repeat split; auto; lia.
  - destruct (nw <? b_n b) eqn:E2.
    + rewrite u32_small by lia.
      destruct (rep_copy_tail "segDataBuffer.resize:slice" (b_sl b) _ _ 0 (b_n b - nw) R ltac:(lia) ltac:(lia)) as (sl1 & Hc1 & R1 & L1 & L2).
      rewrite Hc1. cbn [bind]. rewrite (takeZ_nonpos 0) in R1 by lia. cbn [app] in R1.
      replace (b_n b - (b_n b - nw - 0)) with nw in R1 by lia.
      destruct (rep_truncate "segDataBuffer.resize:slice" sl1 _ _ nw R1 ltac:(lia)) as (sl' & Ht & (Q1 & Q2 & Q3 & Q4) & M1 & M2).
      rewrite Ht. cbn [bind]. eexists; split; [reflexivity|]. unfold sdb_inv. unfold sdb_live at 1 2 3. cbn [b_sl b_n b_size].
      rewrite Q4, M1. split; [|split; [reflexivity|split; [reflexivity|lia]]].
      split; [lia|]. split; [lia|]. split; [lia|]. split; [lia|]. split.
      * rewrite map_dropZ. apply incr_dropZ. exact Hi.
      * apply Forall_dropZ. exact Hr.
    + destruct (rep_realloc izero (b_sl b) _ _ nw R ltac:(lia)) as ((R1 & R2 & R3 & R4) & L1 & L2).
      eexists; split; [reflexivity|]. unfold sdb_inv, sdb_live. cbn [b_sl b_n b_size]. rewrite R4, L1, L2.
      rewrite dropZ_nonpos by lia. repeat split; auto; lia.
Qed.

Lemma sdb_drop_loop_spec b seqNr : forall l2 l1,
  Rep (b_sl b) (b_n b) (l1 ++ l2) -> 0 < b_n b < two32 ->
  exists b', sdb_drop_loop b seqNr (lenZ l1) (length l2) = Ok b' /\ b_size b' = b_size b
    /\ slen (b_sl b') = slen (b_sl b) /\ scap (b_sl b') = scap (b_sl b)
    /\ (b' = b \/ exists i, 0 <= i < b_n b /\ b_n b' = b_n b - 1 /\
                   Rep (b_sl b') (b_n b - 1) (takeZ i (l1 ++ l2) ++ dropZ (i + 1) (l1 ++ l2))).
Proof.
  induction l2 as [|x l2 IH]; intros l1 R Hn.
  - cbn. exists b. repeat split; auto.
  - cbn [length sdb_drop_loop]. pose proof (lenZ_nonneg l2). pose proof (lenZ_nonneg l1).
    assert (Hlen : lenZ (l1 ++ x :: l2) = b_n b) by apply R.
    rewrite lenZ_app, lenZ_cons in Hlen.
    rewrite (rep_get _ _ _ (l1 ++ x :: l2) (lenZ l1) x R (nthZ_mid l1 l2 x)) by lia.
    cbn [bind]. destruct (i_seq x =? seqNr) eqn:E.
    + set (i := lenZ l1) in *.
      destruct (rep_copy_tail "segDataBuffer.dropSeqNr:slice" _ _ _ i (i + 1) R ltac:(lia) ltac:(lia)) as (sl' & Hc & R' & L1 & L2).
      rewrite Hc. cbn [bind]. rewrite u32_small by lia. eexists; split; [reflexivity|].
      cbn [b_size b_sl b_n]. repeat split; auto. right. exists i.
      replace (b_n b - (i + 1 - i)) with (b_n b - 1) in R' by lia.
      split; [lia|split; [reflexivity|exact R']].
    + replace (lenZ l1 + 1) with (lenZ (l1 ++ [x])) by (rewrite lenZ_app, lenZ_cons, lenZ_nil; lia).
      assert (R' : Rep (b_sl b) (b_n b) ((l1 ++ [x]) ++ l2)) by (rewrite <- app_assoc; exact R).
      destruct (IH (l1 ++ [x]) R' Hn) as (b' & Hs & Q). exists b'. split; [exact Hs|].
      rewrite <- app_assoc in Q. exact Q.
Qed.

Lemma sdb_dropSeqNr_inv b seqNr :
  sdb_inv b -> exists b', sdb_dropSeqNr b seqNr = Ok b' /\ sdb_inv b' /\ b_size b' = b_size b /\ b_n b' <= b_n b.
Proof.
  intros I. pose proof (sdb_rep b I) as R. pose proof I as (Hw & Hn & Hl & Hc & Hi & Hr). pose proof R as (RL & _).
  unfold sdb_dropSeqNr. destruct (b_n b =? 0) eqn:E0.
  - exists b. repeat split; auto; lia.
  - destruct (sdb_drop_loop_spec b seqNr (sdb_live b) [] R ltac:(lia)) as (b' & Hs & Q1 & Q2 & Q3 & Q).
    change (lenZ (@nil item)) with 0 in Hs. rewrite <- lenZ_length, RL in Hs. rewrite Hs.
    exists b'. split; [reflexivity|]. destruct Q as [->|(i & Hi' & Hn' & R')].
    + repeat split; auto; lia.
    + cbn [app] in R'. destruct R' as (R1 & R2 & R3 & R4).
      split; [|split; [exact Q1|lia]].
      unfold sdb_inv, sdb_live. rewrite Hn', R4, Q1, Q2, Q3.
      split; [lia|]. split; [lia|]. split; [lia|]. split; [lia|]. split.
      * apply incr_remove; [lia|exact Hi].
      * apply Forall_app; split; [apply Forall_takeZ|apply Forall_dropZ]; exact Hr.
Qed.

Lemma unshifted_loop_len sl n : forall l2 l1 acc,
  Rep sl n (l1 ++ l2) ->
  exists r, sdb_unshifted_loop sl (lenZ l1) (length l2) acc = Ok r /\ lenZ acc <= lenZ r <= lenZ acc + lenZ l2.
Proof.
  induction l2 as [|x l2 IH]; intros l1 acc R.
  - cbn. eexists; split; [reflexivity|]. lia.
  - cbn [length sdb_unshifted_loop]. pose proof (lenZ_nonneg l2). pose proof (lenZ_nonneg l1).
    assert (Hlen : lenZ (l1 ++ x :: l2) = n) by apply R.
    rewrite lenZ_app, lenZ_cons in Hlen.
    rewrite (rep_get _ sl n (l1 ++ x :: l2) (lenZ l1) x R (nthZ_mid l1 l2 x)) by lia.
    cbn [bind]. destruct (i_shifted x).
    + eexists; split; [reflexivity|]. rewrite lenZ_cons. lia.
    + replace (lenZ l1 + 1) with (lenZ (l1 ++ [x])) by (rewrite lenZ_app, lenZ_cons, lenZ_nil; lia).
      assert (R' : Rep sl n ((l1 ++ [x]) ++ l2)) by (rewrite <- app_assoc; exact R).
      destruct (IH (l1 ++ [x]) (acc ++ [i_seq x]) R') as (r & Hr & Hl). exists r. split; [exact Hr|].
      rewrite lenZ_app, lenZ_cons, lenZ_nil in Hl. rewrite lenZ_cons. lia.
Qed.

Lemma sdb_removeUnshifted_inv b :
  sdb_inv b -> exists b' uns, sdb_removeUnshifted b = Ok (b', uns) /\ sdb_inv b' /\ b_size b' = b_size b /\ b_n b' <= b_n b.
Proof.
  intros I. pose proof (sdb_rep b I) as R. pose proof I as (Hw & Hn & Hl & Hc & Hi & Hr). pose proof R as (RL & _).
  unfold sdb_removeUnshifted. destruct (b_n b =? 0) eqn:E0.
  - exists b, []. repeat split; auto; lia.
  - destruct (unshifted_loop_len (b_sl b) (b_n b) (sdb_live b) [] [] R) as (uns & Hu & Hlen).
    change (lenZ (@nil item)) with 0 in Hu. rewrite <- lenZ_length, RL in Hu. rewrite Hu. cbn [bind].
    change (lenZ (@nil Z)) with 0 in Hlen. destruct (lenZ uns =? 0) eqn:E1.
    + exists b, []. repeat split; auto; lia.
    + destruct (rep_copy_tail "segDataBuffer.removeUnshifted:slice" _ _ _ 0 (lenZ uns) R ltac:(lia) ltac:(lia))
        as (sl' & Hc' & R' & L1 & L2).
      rewrite Hc'. cbn [bind]. rewrite u32_small by lia. do 2 eexists; split; [reflexivity|].
      rewrite takeZ_nonpos in R' by lia. cbn [app] in R'. destruct R' as (R1 & R2 & R3 & R4).
      replace (b_n b - (lenZ uns - 0)) with (b_n b - lenZ uns) in * by lia.
      split; [|cbn [b_size b_n]; split; [reflexivity|lia]].
      unfold sdb_inv, sdb_live. cbn [b_sl b_n b_size]. rewrite R4.
      split; [lia|]. split; [lia|]. split; [lia|]. split; [lia|]. split.
      * rewrite map_dropZ. apply incr_dropZ. exact Hi.
      * apply Forall_dropZ. exact Hr.
Qed.

(** segDataBuffer.resize below the number of items keeps c.size: the next add indexes past len *)
Definition sdb_of (size : Z) (l : list Z) : sdb :=
  match sdb_adds (sdb_new size) (map (fun n => mkItem n (n * 2000) 2000 false) l) with Ok b => b | _ => sdb_new size end.

Lemma sdb_new_inv w : 0 < w < two32 -> sdb_inv (sdb_new w).
Proof.
  intros H. unfold sdb_inv, sdb_new, sdb_live. cbn [b_size b_n b_sl].
  destruct (rep_make izero w ltac:(lia)) as (R & L1 & L2). rewrite L1, L2.
  split; [lia|]. split; [lia|]. split; [lia|]. split; [lia|]. rewrite takeZ_nonpos by lia. split; [reflexivity|constructor].
Qed.

(** segDataBuffer.resize below the number of items: before 9e29b04 c.size stayed 8 and the next add
    indexed past len; now the newest three items stay and the next add works *)
Lemma shrink_repaired :
  exists b b' b'', sdb_inv b /\ sdb_resize b 3 = Ok b' /\ b_size b' = 3 /\ map i_seq (sdb_live b') = [3; 4; 5] /\
               sdb_add b' (mkItem 6 12000 2000 false) = Ok (b'', true) /\ map i_seq (sdb_live b'') = [4; 5; 6].
Proof.
  exists (sdb_of 8 [1; 2; 3; 4; 5]). do 2 eexists. split.
  - apply sdb_invb_ok. vm_compute. reflexivity.
  - split; [vm_compute; reflexivity|]. split; [vm_compute; reflexivity|]. split; [vm_compute; reflexivity|].
    split; vm_compute; reflexivity.
Qed.

(** * segmentTimelineGenerator *)
Lemma lookup_Forall {B} (P : Z * B -> Prop) name (l : list (Z * B)) b :
  Forall P l -> lookup name l = Some b -> exists k, P (k, b).
Proof.
  induction l as [|[k v] l IH]; intros F H; [discriminate|].
  cbn [lookup] in H. inversion F; subst. destruct (k =? name); [inversion H; subst; eauto|auto].
Qed.

Lemma update_Forall {B} (P : Z * B -> Prop) name v (l : list (Z * B)) :
  (forall k, P (k, v)) -> Forall P l -> Forall P (update name v l).
Proof.
  intros Hv. induction l as [|[k v0] l IH]; intros F; cbn [update].
  - constructor; [apply Hv|constructor].
  - inversion F; subst. destruct (k =? name); constructor; auto.
Qed.

Lemma lookup_update_same {B} name v (l : list (Z * B)) : lookup name (update name v l) = Some v.
Proof.
  induction l as [|[k v0] l IH]; cbn [update lookup].
  - rewrite Z.eqb_refl. reflexivity.
  - destruct (k =? name) eqn:E; cbn [lookup]; rewrite E; auto.
Qed.

Lemma buf_of_inv g name : gen_inv g -> sdb_inv (buf_of g name) /\ b_size (buf_of g name) = g_w g.
Proof.
  intros (Ic & Ew & Hw & Fb & Hl). unfold buf_of. destruct (lookup name (g_bufs g)) as [b|] eqn:E.
  - destruct (lookup_Forall _ _ _ _ Fb E) as (k & Hk). exact Hk.
  - split; [apply sdb_new_inv; exact Hw|reflexivity].
Qed.

Lemma item_okb_ok it : item_okb it = true -> item_ok it.
Proof. unfold item_okb, item_ok. lia. Qed.

Ltac fin_add :=
  split; [unfold gen_inv; cbn [g_cnt g_w g_bufs g_latest];
          split; [assumption|split; [lia|split; [lia|split; [assumption|lia]]]]
         |do 5 (split; [reflexivity|]); intros _; cbn [g_bufs]; rewrite lookup_update_same; discriminate].

Lemma gen_add_inv g name it :
  gen_inv g -> item_ok it ->
  exists g' n ok, gen_addSegmentData g name it = Ok (g', n, ok) /\ gen_inv g'
    /\ g_latest g' = g_latest g /\ g_w g' = g_w g /\ g_ntracks g' = g_ntracks g
    /\ g_started g' = g_started g /\ g_shifted g' = g_shifted g
    /\ (g_shifted g && negb (i_shifted it) = false -> lookup name (g_bufs g') <> None).
Proof.
  intros I Hit. pose proof I as (Ic & Ew & Hw & Fb & Hl).
  unfold gen_addSegmentData in *.
  destruct (g_shifted g && negb (i_shifted it)) eqn:Esh.
  { do 3 eexists; split; [reflexivity|]. split; [exact I|]. do 5 (split; [reflexivity|]). intros ?; congruence. }
  fold (buf_of g name) in *. destruct (buf_of_inv g name I) as (Ib & Sb).
  destruct (sdb_add_spec _ it Ib Hit) as (b' & ok & Ha & Ib' & _ & Sb').
  rewrite Ha in *. cbn [bind].
  assert (Fb' : Forall (fun kb => sdb_inv (snd kb) /\ b_size (snd kb) = g_w g) (update name b' (g_bufs g))).
  { apply update_Forall; [|exact Fb]. intros k. cbn [snd]. split; [exact Ib'|lia]. }
  destruct ok; cbn [negb].
  - destruct (sc_add_spec _ (i_seq it) Ic) as (c' & Hc & Ic' & _ & Wc). rewrite Hc. cbn [bind].
    destruct (g_started g).
    + destruct (sc_newFull_ok c' (g_ntracks g) (g_latest g) Ic') as (n & Hn). rewrite Hn. cbn [bind].
      do 3 eexists; split; [reflexivity|]. fin_add.
    + do 3 eexists; split; [reflexivity|]. fin_add.
  - do 3 eexists; split; [reflexivity|]. fin_add.
Qed.

Lemma timeline_loop_ok b : sdb_inv b -> forall n seqNr cur nextT done,
  exists r, timeline_loop b seqNr n cur nextT done = Ok r.
Proof.
  intros I. induction n as [|n IH]; intros seqNr cur nextT done; [cbn; eauto|].
  cbn [timeline_loop]. destruct (sdb_getItem_ok b seqNr I) as (oi & Ho & _). rewrite Ho. cbn [bind].
  destruct oi as [sd|]; [|eauto]. destruct cur as [[[t d] r]|]; [|apply IH].
  destruct ((i_dur sd =? d) && (i_dts sd =? nextT)); apply IH.
Qed.

Lemma timelines_ok g first last : gen_inv g -> forall asets, exists r, timelines g first last asets = Ok r.
Proof.
  intros I. pose proof I as (Ic & Ew & Hw & Fb & Hl).
  induction asets as [|reps rest IH]; [cbn; eauto|].
  cbn [timelines]. destruct reps as [|rep reps]; [eauto|].
  destruct (lookup rep (g_bufs g)) as [b|] eqn:E; [|eauto].
  destruct (lookup_Forall _ _ _ _ Fb E) as (k & Ib & _). cbn [snd] in Ib.
  destruct (timeline_loop_ok b Ib (Z.to_nat (last - first + 1)) first None 0 []) as (tl & Ht). rewrite Ht. cbn [bind].
  destruct tl as [tl|]; [|eauto]. destruct IH as (r & Hr). rewrite Hr. cbn [bind]. destruct r; eauto.
Qed.

(** generate: never panics, keeps the invariant, only ever raises latestSeqNr, and publishes only for
    a number above latestSeqNr *)
Lemma gen_generate_inv g nl asets :
  gen_inv g ->
  exists g' p, gen_generate g nl asets = Ok (g', p) /\ gen_inv g'
    /\ g_bufs g' = g_bufs g /\ g_cnt g' = g_cnt g /\ g_w g' = g_w g /\ g_ntracks g' = g_ntracks g
    /\ g_started g' = g_started g /\ g_shifted g' = g_shifted g
    /\ match p with
       | None => g' = g
       | Some pub => g_latest g < nl /\ nl <= p_last pub /\ g_latest g' = p_last pub
       end.
Proof.
  intros I. pose proof I as (Ic & Ew & Hw & Fb & Hl).
  unfold gen_generate. destruct (sc_fullRange_ok (g_cnt g) (g_ntracks g) Ic) as ([first last] & Hf).
  rewrite Hf. cbn [bind]. destruct (nl <=? g_latest g) eqn:E1.
  { do 2 eexists; split; [reflexivity|]. split; [exact I|]. repeat split. }
  destruct (last <? nl) eqn:E2.
  { do 2 eexists; split; [reflexivity|]. split; [exact I|]. repeat split. }
  destruct (timelines_ok g first last I asets) as (tls & Ht). rewrite Ht. cbn [bind].
  destruct tls as [tls|].
  - do 2 eexists; split; [reflexivity|]. split.
    + unfold gen_inv. cbn [g_cnt g_w g_bufs g_latest].
      split; [assumption|split; [lia|split; [lia|split; [assumption|lia]]]].
    + cbn [g_cnt g_w g_bufs g_latest g_ntracks g_started g_shifted p_last]. repeat split; lia.
  - do 2 eexists; split; [reflexivity|]. split; [exact I|]. repeat split.
Qed.

Lemma map_bufs_spec (f : sdb -> res sdb) (P P' : Z * sdb -> Prop) :
  (forall k b, P (k, b) -> exists b', f b = Ok b' /\ P' (k, b')) ->
  forall l, Forall P l -> exists l', map_bufs f l = Ok l' /\ Forall P' l' /\ map fst l' = map fst l.
Proof.
  intros Hf. induction l as [|[k b] l IH]; intros F; [cbn; eauto|].
  inversion F; subst. cbn [map_bufs]. destruct (Hf k b H1) as (b' & Hb & Pb). rewrite Hb. cbn [bind].
  destruct (IH H2) as (l' & Hl & Fl & Ek). rewrite Hl. cbn [bind]. eexists; split; [reflexivity|].
  split; [constructor; assumption|]. cbn [map fst]. f_equal. exact Ek.
Qed.

Lemma lookup_none_keys {B C} name (l : list (Z * B)) (l' : list (Z * C)) :
  map fst l' = map fst l -> lookup name l <> None -> lookup name l' <> None.
Proof.
  revert l'; induction l as [|[k v] l IH]; intros l' E H; [cbn in H; congruence|].
  destruct l' as [|[k' v'] l']; [discriminate|]. cbn [map fst] in E. inversion E; subst.
  cbn [lookup] in *. destruct (k =? name); [discriminate|]. eapply IH; eauto.
Qed.

Lemma gen_drop_inv g n :
  gen_inv g ->
  exists g', gen_dropSeqNr g n = Ok g' /\ gen_inv g'
    /\ g_latest g' = g_latest g /\ g_w g' = g_w g /\ g_ntracks g' = g_ntracks g
    /\ g_started g' = g_started g /\ g_shifted g' = g_shifted g.
Proof.
  intros I. pose proof I as (Ic & Ew & Hw & Fb & Hl). unfold gen_dropSeqNr.
  destruct (map_bufs_spec (fun b => sdb_dropSeqNr b n) _ (fun kb => sdb_inv (snd kb) /\ b_size (snd kb) = g_w g)
              (fun k b H => match sdb_dropSeqNr_inv b n (proj1 H) with
                            | ex_intro _ b' (conj A (conj B (conj C D))) =>
                              ex_intro _ b' (conj A (conj B (eq_trans C (proj2 H)))) end) _ Fb) as (l' & Hm & Fl & _).
  rewrite Hm. cbn [bind]. destruct (sc_drop_inv _ n Ic) as (c' & Hc & Ic' & Wc & _). rewrite Hc. cbn [bind].
  eexists; split; [reflexivity|]. split.
  - unfold gen_inv. cbn [g_cnt g_w g_bufs g_latest].
    split; [assumption|split; [lia|split; [lia|split; [assumption|lia]]]].
  - repeat split.
Qed.

Lemma sc_drop_all_inv l : forall c, sc_inv c -> exists c', sc_drop_all c l = Ok c' /\ sc_inv c' /\ sc_w c' = sc_w c.
Proof.
  induction l as [|n l IH]; intros c I; [cbn; eauto|].
  cbn [sc_drop_all]. destruct (sc_drop_inv c n I) as (c1 & H1 & I1 & W1 & _). rewrite H1. cbn [bind].
  destruct (IH c1 I1) as (c' & H' & I' & W'). exists c'. split; [exact H'|split; [exact I'|lia]].
Qed.

Lemma gen_unshift_inv w : forall l c,
  Forall (fun kb => sdb_inv (snd kb) /\ b_size (snd kb) = w) l -> sc_inv c ->
  exists l' c', gen_unshift l c = Ok (l', c') /\ Forall (fun kb => sdb_inv (snd kb) /\ b_size (snd kb) = w) l'
                /\ sc_inv c' /\ sc_w c' = sc_w c.
Proof.
  induction l as [|[k b] l IH]; intros c F I; [cbn; eauto 6|].
  inversion F as [|? ? [Ib Sb] F']; subst. cbn [snd] in *. cbn [gen_unshift].
  destruct (sdb_removeUnshifted_inv b Ib) as (b' & uns & Hr & Ib' & Sb' & _). rewrite Hr. cbn [bind].
  destruct (sc_drop_all_inv uns c I) as (c1 & H1 & I1 & W1). rewrite H1. cbn [bind].
  destruct (IH c1 F' I1) as (l' & c' & H' & Fl & I' & W'). rewrite H'. cbn [bind].
  do 2 eexists; split; [reflexivity|]. split; [constructor; [cbn [snd]; split; [exact Ib'|lia]|exact Fl]|]. split; [exact I'|lia].
Qed.

Lemma gen_start_inv g nw sh :
  gen_inv g -> gen_resize_pre g nw = true ->
  exists g', gen_start g nw sh = Ok g' /\ gen_inv g' /\ g_latest g' = g_latest g /\ g_w g' = nw
             /\ g_started g' = true /\ g_shifted g' = sh.
Proof.
  intros I P. pose proof I as (Ic & Ew & Hw & Fb & Hl).
  unfold gen_resize_pre in P. assert (Hnw : 0 < nw < two32) by lia.
  unfold gen_start, gen_resize.
  destruct (map_bufs_spec (fun b => sdb_resize b nw) _ (fun kb => sdb_inv (snd kb) /\ b_size (snd kb) = nw)
              (fun k b H => match sdb_resize_inv b nw (proj1 H) Hnw with
                            | ex_intro _ b' (conj A (conj B (conj C D))) =>
                              ex_intro _ b' (conj A (conj B C)) end) _ Fb) as (l1 & Hm & Fl1 & _).
  rewrite Hm. cbn [bind]. destruct (sc_resize_inv _ nw Ic Hnw) as (c1 & Hc & Ic1 & Wc1 & _).
  rewrite Hc. cbn [bind g_bufs g_cnt].
  destruct sh.
  - destruct (gen_unshift_inv nw l1 c1 Fl1 Ic1) as (l2 & c2 & Hu & Fl2 & Ic2 & Wc2). rewrite Hu. cbn [bind].
    eexists; split; [reflexivity|]. split.
    + unfold gen_inv. cbn [g_cnt g_w g_bufs g_latest].
      split; [assumption|split; [lia|split; [lia|split; [assumption|lia]]]].
    + repeat split.
  - cbn [bind]. eexists; split; [reflexivity|]. split.
    + unfold gen_inv. cbn [g_cnt g_w g_bufs g_latest].
      split; [assumption|split; [lia|split; [lia|split; [assumption|lia]]]].
    + repeat split.
Qed.

(** * channel.receivedSegData *)
Lemma derive_ok g tracks :
  derive_bitrates g tracks = Ok tt /\ derive_framerates g tracks = Ok tt.
Proof.
  induction tracks as [|t r IH]; [split; reflexivity|]. destruct IH as (B & F).
  cbn [derive_bitrates derive_framerates]. split.
  - destruct (tr_btrt t); cbn [bind]; [exact B|]. destruct (lookup (tr_name t) (g_bufs g)) as [b|]; cbn [bind]; [|exact B].
    destruct (b_n b =? 0); cbn [bind]; [exact B|]. destruct (sum_durs (takeZ (b_n b) (arr (b_sl b))) =? 0); cbn [bind]; exact B.
  - destruct (negb (tr_video t)); cbn [bind]; [exact F|]. destruct (lookup (tr_name t) (g_bufs g)); cbn [bind]; exact F.
Qed.

Lemma sl_get_arr {A} site (sl : slice A) i :
  0 <= i < slen sl -> slen sl <= scap sl ->
  exists x, nthZ i (arr sl) = Some x /\ sl_get site sl i = Ok x.
Proof.
  intros Hi Hc. unfold scap in Hc. destruct (nthZ_some (arr sl) i ltac:(lia)) as (x & Hx).
  exists x. split; [exact Hx|]. unfold sl_get, idx_ok, scap, index.
  replace ((0 <=? i) && (i <? slen sl) && (i <? lenZ (arr sl))) with true by lia. rewrite Hx. reflexivity.
Qed.

Lemma with_gen_fields c g :
  ch_gen (with_gen c g) = g /\ ch_mdur (with_gen c g) = ch_mdur c /\ ch_tracks (with_gen c g) = ch_tracks c
  /\ ch_master (with_gen c g) = ch_master c.
Proof. repeat split. Qed.

(** receivedSegData for one complete segment: under [chan_pre] no panic and the invariant is kept *)
Lemma chan_received_safe c u :
  chan_inv c -> chan_pre c u = true ->
  exists o, chan_received c (up_name u) (up_item u) = Ok o /\ chan_inv (o_chan o)
    /\ match o_pub o with
       | Some pub => g_latest (ch_gen c) < p_last pub /\ g_latest (ch_gen (o_chan o)) = p_last pub
       | None => g_latest (ch_gen (o_chan o)) = g_latest (ch_gen c)
       end.
Proof.
  destruct u as [name it]. cbn [up_name up_item]. intros (Ig & Ish) P.
  unfold chan_pre in P. cbn [up_name up_item] in P. unfold chan_received.
  destruct (find_track name (ch_tracks c)) as [tr|] eqn:Eft.
  2:{ eexists; split; [reflexivity|]. split; [split; assumption|reflexivity]. }
  apply andb_true_iff in P as [Pit Pst].
  pose proof (item_okb_ok _ Pit) as Hit.
  destruct (gen_add_inv _ name it Ig Hit) as (g1 & n & ok & Ha & I1 & L1 & W1 & N1 & S1 & Sh1 & Lk1).
  unfold chan_mid in Pst. rewrite Ha in *. cbn [bind] in *.
  assert (Hmid : exists g2 pub, (if n =? 0 then Ok (g1, None) else gen_generate g1 n (chan_asets c)) = Ok (g2, pub)
                   /\ gen_inv g2 /\ g_bufs g2 = g_bufs g1 /\ g_shifted g2 = g_shifted g1
                   /\ match pub with
                      | Some p => g_latest (ch_gen c) < p_last p /\ g_latest g2 = p_last p
                      | None => g_latest g2 = g_latest (ch_gen c)
                      end).
  { destruct (n =? 0).
    - do 2 eexists; split; [reflexivity|]. auto.
    - destruct (gen_generate_inv g1 n (chan_asets c) I1) as (g2 & p & Hg & I2 & B2 & _ & _ & _ & _ & Sh2 & Hp).
      do 2 eexists; split; [exact Hg|]. split; [exact I2|]. split; [exact B2|]. split; [exact Sh2|].
      destruct p as [p|]; [lia|]. subst g2. exact L1. }
  destruct Hmid as (g2 & pub & Hm & I2 & B2 & Sh2 & HL). rewrite Hm in *. cbn [bind] in *.
  destruct ((ch_mdur c =? 0) && (name =? ch_master c)) eqn:Emeas.
  2:{ eexists; split; [reflexivity|]. cbn [o_chan o_pub]. split; [|exact HL]. split; [exact I2|].
      change (ch_gen (with_gen c g2)) with g2. change (ch_mdur (with_gen c g2)) with (ch_mdur c).
      rewrite Sh2, Sh1. exact Ish. }
  (* the master track is being measured *)
  assert (Hm0 : ch_mdur c = 0) by lia.
  assert (Hns : g_shifted (ch_gen c) = false).
  { destruct (g_shifted (ch_gen c)) eqn:E; [|reflexivity]. exfalso. apply Ish; auto. }
  assert (Hlk : lookup name (g_bufs g2) <> None).
  { rewrite B2. apply Lk1. rewrite Hns. reflexivity. }
  unfold chan_start_pre in Pst. rewrite Emeas in Pst.
  destruct (lookup name (g_bufs g2)) as [b|] eqn:Elk; [|congruence].
  pose proof I2 as (Ic2 & Ew2 & Hw2 & Fb2 & Hl2).
  destruct (lookup_Forall _ _ _ _ Fb2 Elk) as (k & Ib & Sb). cbn [snd] in Ib, Sb.
  pose proof Ib as (Hbw & Hbn & Hbl & Hbc & _).
  destruct (b_n b <? 2) eqn:E2.
  { eexists; split; [reflexivity|]. cbn [o_chan o_pub]. split; [|exact HL]. split; [exact I2|].
    change (ch_gen (with_gen c g2)) with g2. rewrite Sh2, Sh1, Hns. discriminate. }
  destruct (sl_get_arr "channel.receivedSegData:index" (b_sl b) 0 ltac:(lia) ltac:(lia)) as (i0 & N0 & G0).
  destruct (sl_get_arr "channel.receivedSegData:index" (b_sl b) 1 ltac:(lia) ltac:(lia)) as (i1 & N1' & G1).
  rewrite G0, G1. cbn [bind]. rewrite N0, N1' in Pst.
  destruct (negb (i_seq i1 =? u32 (i_seq i0 + 1)) || negb (i_dur i1 =? i_dur i0) || (i_dur i1 =? 0)) eqn:Econs.
  { destruct (gen_drop_inv g2 (i_seq i0) I2) as (g3 & Hd & I3 & L3 & _ & _ & _ & Sh3). rewrite Hd. cbn [bind].
    eexists; split; [reflexivity|]. cbn [o_chan o_pub]. change (ch_gen (with_gen (with_gen c g2) g3)) with g3.
    split; [|rewrite L3; exact HL]. split; [exact I3|].
    change (ch_gen (with_gen (with_gen c g2) g3)) with g3. rewrite Sh3, Sh2, Sh1, Hns. discriminate. }
  (* the channel starts *)
  rewrite Eft in *.
  rename Pst into Pres.
  assert (Hdur : i_dur i1 <> 0) by lia.
  unfold go_div, go_rem. replace (i_dur i1 =? 0) with false by lia. cbn [bind].
  destruct (derive_ok g2 (ch_tracks c)) as (Db & Df). rewrite Db, Df. cbn [bind].
  unfold start_window in Pres.
  destruct (gen_start_inv g2 _ (negb ((if Z.rem (i_dts i0) (i_dur i1) =? 0
                                       then if Z.quot (i_dts i0) (i_dur i1) =? i_seq i0 then 0 else Z.quot (i_dts i0) (i_dur i1) - i_seq i0
                                       else (if Z.quot (i_dts i0) (i_dur i1) =? i_seq i0 then 0 else Z.quot (i_dts i0) (i_dur i1) - i_seq i0) + 1) =? 0)
                                || negb ((if Z.rem (i_dts i0) (i_dur i1) =? 0 then 0 else i_dur i1 - Z.rem (i_dts i0) (i_dur i1)) =? 0))
                           I2 Pres) as (g3 & Hs & I3 & L3 & _ & _ & _).
  rewrite Hs. cbn [bind]. eexists; split; [reflexivity|]. cbn [o_chan o_pub ch_gen].
  split; [|rewrite L3; exact HL]. split; [exact I3|].
  cbn [ch_mdur]. intros _. exact Hdur.
Qed.

(** * All upload sequences *)
Lemma chan_new_inv asets tsbd : chan_inv (chan_new asets tsbd).
Proof.
  unfold chan_inv, chan_new, gen_inv, gen_new. cbn [ch_gen ch_mdur g_cnt g_w g_bufs g_latest g_shifted].
  split; [|discriminate].
  split; [apply sc_new_inv; unfold two32; lia|]. split; [reflexivity|]. split; [unfold two32; lia|].
  split; [constructor|lia].
Qed.

Lemma chan_register_inv c t : chan_inv c -> chan_inv (chan_register c t).
Proof. intros I. exact I. Qed.

Lemma chan_run_cons c u ups :
  chan_run c (u :: ups) = match chan_received c (up_name u) (up_item u) with
                          | Ok o => chan_run (o_chan o) ups
                          | Err e => Err e
                          | Panic s => Panic s
                          end.
Proof.
  unfold chan_run. cbn [fold_left chan_step bind].
  destruct (chan_received c (up_name u) (up_item u)) as [o|e|s]; cbn [bind]; [reflexivity| |].
  - induction ups as [|u' ups IH]; [reflexivity|]. cbn [fold_left chan_step bind]. exact IH.
  - induction ups as [|u' ups IH]; [reflexivity|]. cbn [fold_left chan_step bind]. exact IH.
Qed.

(** the invariant and the absence of panics, over every sequence of uploads *)
Lemma chan_run_safe : forall ups c,
  chan_inv c -> run_pre c ups -> exists c', chan_run c ups = Ok c' /\ chan_inv c'.
Proof.
  induction ups as [|u ups IH]; intros c I P.
  - exists c. split; [reflexivity|exact I].
  - destruct P as [Pu Pr]. destruct (chan_received_safe c u I Pu) as (o & Ho & Io & _).
    rewrite chan_run_cons, Ho. apply IH; [exact Io|]. apply Pr. exact Ho.
Qed.

Definition pub_lasts (pubs : list (option published)) : list Z :=
  flat_map (fun p => match p with Some x => [p_last x] | None => [] end) pubs.

(** latestSeqNr never decreases and every published newest number is strictly above all earlier ones *)
Lemma chan_trace_monotone : forall ups c,
  chan_inv c -> run_pre c ups ->
  exists pubs c', chan_trace c ups = Ok (pubs, c') /\ chan_inv c'
    /\ incr (g_latest (ch_gen c) :: pub_lasts pubs) = true
    /\ g_latest (ch_gen c') = last (g_latest (ch_gen c) :: pub_lasts pubs) 0.
Proof.
  induction ups as [|u ups IH]; intros c I P.
  - exists [], c. split; [reflexivity|split; [exact I|split; reflexivity]].
  - destruct P as [Pu Pr]. destruct (chan_received_safe c u I Pu) as (o & Ho & Io & HL).
    destruct (IH (o_chan o) Io (Pr o Ho)) as (pubs & c' & Ht & Ic' & Hincr & Hlast).
    cbn [chan_trace]. rewrite Ho. cbn [bind]. rewrite Ht. cbn [bind fst snd].
    exists (o_pub o :: pubs), c'. split; [reflexivity|]. split; [exact Ic'|].
    unfold pub_lasts in *. cbn [flat_map]. destruct (o_pub o) as [p|].
    + destruct HL as [H1 H2]. rewrite H2 in *. cbn [app]. split.
      * change (incr (g_latest (ch_gen c) :: p_last p :: flat_map (fun p0 => match p0 with Some x => [p_last x] | None => [] end) pubs) = true).
        cbn [incr]. apply andb_true_iff. split; [lia|exact Hincr].
      * exact Hlast.
    + cbn [app]. rewrite HL in *. split; [exact Hincr|exact Hlast].
Qed.

Lemma run_preb_ok : forall ups c, run_preb c ups = true -> run_pre c ups.
Proof.
  induction ups as [|u ups IH]; intros c H; [exact Logic.I|].
  cbn [run_preb] in H. apply andb_true_iff in H as [H1 H2]. split; [exact H1|].
  intros o Ho. rewrite Ho in H2. apply IH. exact H2.
Qed.

(** * Channel-level witnesses *)
Definition chan_with (asets : list (list Z)) (tsbd : Z) (tracks : list track) : chan :=
  fold_left chan_register tracks (chan_new asets tsbd).

Lemma chan_with_inv asets tsbd tracks : chan_inv (chan_with asets tsbd tracks).
Proof.
  unfold chan_with. generalize (chan_new_inv asets tsbd). generalize (chan_new asets tsbd).
  induction tracks as [|t r IH]; intros c I; [exact I|]. cbn [fold_left]. apply IH. apply chan_register_inv. exact I.
Qed.

Definition run_ok_and (c : chan) (ups : list upload) (f : chan -> bool) : bool :=
  match chan_run c ups with Ok c' => f c' | _ => false end.

Lemma run_ok_and_ok c ups f : run_ok_and c ups f = true -> exists c', chan_run c ups = Ok c' /\ f c' = true.
Proof. unfold run_ok_and. destruct (chan_run c ups) as [c'| |]; try discriminate. eauto. Qed.

(** one video track, window 3 (timeShiftBufferDepth 4 s, 2 s segments), numbers 1,2,3 and then 100:
    before ffc392a the channel goroutine died in seqCounters.add, now the run goes on and every
    precondition holds *)
Lemma jump_run_repaired :
  let c := chan_with [[0]] 4 [mkTrack 0 true true 90000] in
  let ups := [up 0 1; up 0 2; up 0 3; up 0 100; up 0 101] in
  run_pre c ups /\
  exists c', chan_run c ups = Ok c' /\ list_eqb Z.eqb (map fst (sc_live (g_cnt (ch_gen c')))) [100; 101] = true.
Proof. split; [apply run_preb_ok; vm_compute; reflexivity|]. apply run_ok_and_ok. vm_compute. reflexivity. Qed.

(** two consecutive master segments of duration 0: before ff19d12 receivedSegData divided by
    masterSegDuration = 0; now they do not start the channel and the run goes on *)
Lemma zero_duration_repaired :
  let c := chan_with [[0]] 30 [mkTrack 0 true true 90000] in
  let ups := [mkUp 0 (mkItem 1 0 0 false); mkUp 0 (mkItem 2 0 0 false); mkUp 0 (mkItem 3 0 0 false)] in
  run_pre c ups /\ exists c', chan_run c ups = Ok c' /\ negb (g_started (ch_gen c')) = true.
Proof. split; [apply run_preb_ok; vm_compute; reflexivity|]. apply run_ok_and_ok. vm_compute. reflexivity. Qed.

(** what is left of "C17_safe is false": a start window that wraps to 0 in uint32
    (timeShiftBufferDepthS * timescale / duration + 2 = 2^32 + 1): timeShiftBufferDepth 65537 s, timescale
    65535, segments of one tick. Only at model level: with the even timescales of real tracks the
    product cannot be 2^32 - 1. *)
Lemma safe_window_refuted :
  exists c ups, chan_inv c /\ chan_run c ups = Panic "segDataBuffer.add:index".
Proof.
  exists (chan_with [[0]] 65537 [mkTrack 0 true true 65535]),
         [mkUp 0 (mkItem 1 1 1 false); mkUp 0 (mkItem 2 2 1 false); mkUp 0 (mkItem 3 3 1 false)].
  split; [apply chan_with_inv|vm_compute; reflexivity].
Qed.

(** a track that is registered but delivers its first segment after the start is not required:
    every precondition holds (none of the other defects is involved), the MPD lists 1..2 and the
    third track has no buffer at all *)
Lemma late_track_refuted :
  exists c ups pubs c',
    chan_inv c /\ run_pre c ups /\ chan_trace c ups = Ok (pubs, c') /\
    last pubs None = Some (mkPub 1 2 [[(180000, 180000, 1)]; [(180000, 180000, 1)]]) /\
    find_track 2 (ch_tracks c') <> None /\ lookup 2 (g_bufs (ch_gen c')) = None.
Proof.
  exists (chan_with [[0]; [1; 2]] 30 [mkTrack 0 true true 90000; mkTrack 1 false true 90000; mkTrack 2 false true 90000]),
         [up 0 1; up 1 1; up 0 2; up 1 2].
  do 2 eexists. split; [apply chan_with_inv|]. split; [apply run_preb_ok; vm_compute; reflexivity|].
  split; [vm_compute; reflexivity|]. split; [vm_compute; reflexivity|]. split; [vm_compute; discriminate|vm_compute; reflexivity].
Qed.

(** Before 4e0d5ea the timeline carried the start time of the first listed segment only. The loop of
    modifySegmentTemplate as it was in the parent commit: *)
Fixpoint timeline_loop_before_fix (b : sdb) (seqNr : Z) (n : nat) (cur : option selem) (done : list selem)
  : res (option (list selem)) :=
  match n with
  | O => Ok (Some (done ++ match cur with Some s => [s] | None => [] end))
  | S k =>
    do oi <- sdb_getItem b seqNr;
    match oi with
    | None => Ok None
    | Some sd =>
      match cur with
      | None => timeline_loop_before_fix b (seqNr + 1) k (Some (i_dts sd, i_dur sd, 0)) done
      | Some (t, d, r) =>
        if i_dur sd =? d then timeline_loop_before_fix b (seqNr + 1) k (Some (t, d, r + 1)) done
        else timeline_loop_before_fix b (seqNr + 1) k (Some (-1, i_dur sd, 0)) (done ++ [(t, d, r)])
      end
    end
  end.

Definition discontinuity_items : list item :=
  [mkItem 1 100 100 false; mkItem 2 200 100 false; mkItem 3 300 60 false; mkItem 4 400 100 false].

(** a stored segment that does not start where the previous number ends (number 3 is 60 ticks long instead of
    100, number 4 starts on the grid at 400) was listed with the running sum (360), not with its own time *)
Lemma time_discontinuity_refuted_before_fix :
  exists b tl it,
    sdb_adds (sdb_new 8) discontinuity_items = Ok b /\
    timeline_loop_before_fix b 1 4 None [] = Ok (Some tl) /\
    sdb_getItem b 4 = Ok (Some it) /\ i_dts it = 400 /\
    nth 3 (expand tl 0) (0, 0) = (360, 100).
Proof.
  do 3 eexists. split; [vm_compute; reflexivity|]. split; [vm_compute; reflexivity|].
  split; [vm_compute; reflexivity|]. split; vm_compute; reflexivity.
Qed.

(** the same segments through the channel as it is now: number 4 is listed with its own time, the S element
    carries an explicit @t. Every precondition holds. *)
Lemma time_discontinuity_repaired :
  exists c ups pubs c' pub b it,
    chan_inv c /\ run_pre c ups /\ chan_trace c ups = Ok (pubs, c') /\
    last pubs None = Some pub /\ p_first pub = 1 /\ p_last pub = 4 /\
    p_tl pub = [[(100, 100, 1); (-1, 60, 0); (400, 100, 0)]] /\
    lookup 0 (g_bufs (ch_gen c')) = Some b /\ sdb_getItem b 4 = Ok (Some it) /\ i_dts it = 400 /\
    nth 3 (expand (hd [] (p_tl pub)) 0) (0, 0) = (400, 100).
Proof.
  exists (chan_with [[0]] 30 [mkTrack 0 true true 1000]), (map (mkUp 0) discontinuity_items).
  do 5 eexists. split; [apply chan_with_inv|]. split; [apply run_preb_ok; vm_compute; reflexivity|].
  split; [vm_compute; reflexivity|]. split; [vm_compute; reflexivity|].
  split; [vm_compute; reflexivity|]. split; [vm_compute; reflexivity|].
  split; [vm_compute; reflexivity|].
  split; [vm_compute; reflexivity|]. split; [vm_compute; reflexivity|].
  split; vm_compute; reflexivity.
Qed.

(** two video tracks, the master delivers two segments before the other one delivers any: before
    9aa9fdc a nil dereference in deriveAndSetFrameRates, now the channel starts (with one track counted) *)
Lemma start_without_segments_repaired :
  let c := chan_with [[0; 1]] 30 [mkTrack 0 true true 90000; mkTrack 1 true true 90000] in
  run_pre c [up 0 1; up 0 2] /\
  exists c', chan_run c [up 0 1; up 0 2] = Ok c' /\ g_started (ch_gen c') && (g_ntracks (ch_gen c') =? 1) = true.
Proof. split; [apply run_preb_ok; vm_compute; reflexivity|]. apply run_ok_and_ok. vm_compute. reflexivity. Qed.

(** a text track without btrt whose only segment was dropped because the master's first two segments
    were not consecutive: before 9aa9fdc a division by zero in deriveAndSetBitrates *)
Lemma start_empty_buffer_repaired :
  let c := chan_with [[0]; [2]] 30 [mkTrack 0 true true 90000; mkTrack 2 false false 1000] in
  let ups := [mkUp 2 (mkItem 1 2000 2000 false); up 0 1; up 0 3; up 0 4] in
  run_pre c ups /\ exists c', chan_run c ups = Ok c' /\ g_started (ch_gen c') = true.
Proof. split; [apply run_preb_ok; vm_compute; reflexivity|]. apply run_ok_and_ok. vm_compute. reflexivity. Qed.

(** non-vacuity of the safety theorem: a run of three tracks with a gap and a duplicate satisfies every precondition *)
Lemma run_pre_example :
  let c := chan_with [[0]; [1]] 30 [mkTrack 0 true true 90000; mkTrack 1 false true 90000] in
  let ups := [up 0 1; up 1 1; up 1 2; up 0 2; up 0 3; up 1 3; up 1 3; up 0 5; up 1 5; up 0 6; up 1 6] in
  run_pre c ups /\
  exists pubs c', chan_trace c ups = Ok (pubs, c') /\ pub_lasts pubs = [2; 3; 5; 6].
Proof.
  split; [apply run_preb_ok; vm_compute; reflexivity|]. do 2 eexists. split; vm_compute; reflexivity.
Qed.

Lemma chan_window c :
  chan_inv c ->
  let g := ch_gen c in
  0 <= sc_n (g_cnt g) <= sc_w (g_cnt g) /\ sc_w (g_cnt g) = g_w g /\ slen (sc_sl (g_cnt g)) = g_w g /\
  Forall (fun kb => 0 <= b_n (snd kb) <= b_size (snd kb) /\ b_size (snd kb) = g_w g /\ slen (b_sl (snd kb)) = g_w g) (g_bufs g).
Proof.
  intros ((Ic & Ew & Hw & Fb & Hl) & _). cbv zeta. destruct Ic as (A & B & C & D & E).
  split; [exact B|]. split; [exact Ew|]. split; [lia|].
  eapply Forall_impl; [|exact Fb]. intros [k b] ((A' & B' & C' & D' & E') & S). cbn [snd] in *. repeat split; lia.
Qed.

(** * Soundness of what is published (parts of C17_sound_mpd) *)

(** ** fullRange: every number of the returned range has a live counter with count >= nrTracks *)
Definition range_full (live : list (Z * Z)) (k : Z) (fl : Z * Z) : Prop :=
  snd fl = 0 \/ forall n, fst fl <= n <= snd fl -> exists c, In (n, c) live /\ k <= c.

Definition fr_inv (live : list (Z * Z)) (k first last lastIdx i : Z) : Prop :=
  last = 0 \/
  (first = last - (lastIdx - (i + 1)) /\
   forall j, i < j <= lastIdx -> exists c, nthZ j live = Some (last - (lastIdx - j), c) /\ k <= c).

Lemma fr_inv_good live k first last lastIdx i :
  fr_inv live k first last lastIdx i -> range_full live k (first, last).
Proof.
  intros [H|[Hf Hj]]; [left; exact H|]. right. cbn [fst snd]. intros n Hn.
  destruct (Hj (lastIdx - (last - n)) ltac:(lia)) as (c & Hc & Hk).
  exists c. split; [|exact Hk]. apply nthZ_In in Hc. replace (last - (lastIdx - (lastIdx - (last - n)))) with n in Hc by lia. exact Hc.
Qed.

Lemma fullRange_loop_sound sl n live k : forall fuel first last lastIdx,
  Rep sl n live -> Z.of_nat fuel <= n ->
  fr_inv live k first last lastIdx (Z.of_nat fuel - 1) ->
  exists r, sc_fullRange_loop sl k first last lastIdx (Z.of_nat fuel - 1) fuel = Ok r /\ range_full live k r.
Proof.
  induction fuel as [|fuel IH]; intros first last lastIdx R Hf Inv.
  - cbn. eexists; split; [reflexivity|]. eapply fr_inv_good; eauto.
  - cbn [sc_fullRange_loop]. pose proof R as (R1 & _).
    set (i := Z.of_nat (S fuel) - 1) in *.
    destruct (nthZ_some live i ltac:(lia)) as (x & Hx).
    rewrite (rep_get _ _ _ _ _ _ R Hx) by lia. cbn [bind].
    replace (i - 1) with (Z.of_nat fuel - 1) by lia.
    destruct (snd x <? k) eqn:Ek.
    + destruct (last =? 0) eqn:El.
      * apply IH; [exact R|lia|]. left. lia.
      * eexists; split; [reflexivity|]. eapply fr_inv_good; eauto.
    + destruct (last =? 0) eqn:El.
      * (* first full counter found *)
        replace (fst x =? fst x - (i - i)) with true by lia. cbn [negb].
        apply IH; [exact R|lia|]. destruct (Z.eq_dec (fst x) 0) as [E0|E0]; [left; exact E0|]. right.
        split; [lia|]. intros j Hj. assert (j = i) by lia. subst j.
        exists (snd x). split; [|lia]. rewrite Hx. destruct x; cbn [fst snd]. f_equal. f_equal. lia.
      * destruct Inv as [Inv|[Hfirst Hj]]; [lia|].
        destruct (negb (fst x =? last - (lastIdx - i))) eqn:Ec.
        -- eexists; split; [reflexivity|]. eapply fr_inv_good. right. split; [exact Hfirst|exact Hj].
        -- apply IH; [exact R|lia|]. right. split; [lia|]. intros j Hjr.
           destruct (Z.eq_dec j i) as [->|Nj]; [|apply Hj; lia].
           exists (snd x). split; [|lia]. rewrite Hx. destruct x; cbn [fst snd] in *. f_equal. f_equal. lia.
Qed.

Lemma sc_fullRange_sound s k :
  sc_inv s -> exists r, sc_fullRange s k = Ok r /\ range_full (sc_live s) k r.
Proof.
  intros I. pose proof (sc_rep s I) as R. pose proof I as (Hw & Hn & Hl & Hc & Hi).
  unfold sc_fullRange. destruct (sc_n s =? 0) eqn:E.
  - eexists; split; [reflexivity|]. left. reflexivity.
  - rewrite u32_small by lia.
    destruct (fullRange_loop_sound _ _ _ k (Z.to_nat (sc_n s - 1 + 1)) 0 0 0 R ltac:(lia) ltac:(left; reflexivity)) as (r & Hr & G).
    replace (Z.of_nat (Z.to_nat (sc_n s - 1 + 1)) - 1) with (sc_n s - 1) in Hr by lia. eauto.
Qed.

(** ** modifySegmentTemplate: the S elements written for an adaptation set are the stored items of its
    first representation, one per number of the range, in order *)
Definition durs_of (tl : list selem) : list Z :=
  flat_map (fun s => repeat (snd (fst s)) (Z.to_nat (snd s + 1))) tl.

Definition tl_out (cur : option selem) (done : list selem) : list selem :=
  done ++ match cur with Some s => [s] | None => [] end.

(** only the first S element carries @t, the others continue at the previous end *)
Definition tl_shape (t0 : Z) (tl : list selem) : Prop :=
  match tl with
  | [] => True
  | s :: rest => fst (fst s) = t0 /\ Forall (fun s' => fst (fst s') = -1) rest
  end.

Definition items_at (b : sdb) (seqNr : Z) (items : list item) : Prop :=
  forall k it, nthZ k items = Some it -> In it (sdb_live b) /\ i_seq it = seqNr + k.

Lemma durs_of_app a b : durs_of (a ++ b) = durs_of a ++ durs_of b.
Proof. unfold durs_of. apply flat_map_app. Qed.

Lemma repeat_snoc {A} (x : A) n : repeat x (S n) = repeat x n ++ [x].
Proof. induction n as [|n IH]; [reflexivity|]. cbn [repeat app] in *. f_equal. exact IH. Qed.

Lemma nthZ_snoc_inv {A} (l : list A) x k y :
  nthZ k (l ++ [x]) = Some y -> (nthZ k l = Some y /\ 0 <= k < lenZ l) \/ (k = lenZ l /\ y = x).
Proof.
  intros H. pose proof (lenZ_nonneg l).
  destruct (Z_lt_dec k 0) as [Hn|Hn].
  { exfalso. clear - H Hn. destruct (l ++ [x]); cbn in H; [discriminate|]. destruct (k <? 0) eqn:E; [discriminate|lia]. }
  destruct (Z_lt_dec k (lenZ l)) as [Hl|Hl].
  - left. rewrite nthZ_app_l in H by lia. split; [exact H|lia].
  - right. rewrite nthZ_app_r in H by lia. cbn [nthZ] in H.
    destruct (k - lenZ l <? 0) eqn:E1; [discriminate|]. destruct (k - lenZ l =? 0) eqn:E2; [|discriminate].
    inversion H; subst. split; [lia|reflexivity].
Qed.

(** what the listed S elements say: (start, duration) per segment *)
Definition td (it : item) : Z * Z := (i_dts it, i_dur it).

(** times as the receiver's types have them: uint64 start, uint32 duration, the end fits uint64 *)
Definition item_timed (it : item) : Prop := 0 <= i_dts it /\ 0 <= i_dur it /\ i_dts it + i_dur it < two64.

(** the time at which the expansion of [tl] ends *)
Fixpoint tl_end (tl : list selem) (tc : Z) : Z :=
  match tl with
  | [] => tc
  | (t, d, r) :: rest => tl_end rest ((if t =? -1 then tc else t) + d * (r + 1))
  end.

Lemma expand_app a : forall b tc, expand (a ++ b) tc = expand a tc ++ expand b (tl_end a tc).
Proof.
  induction a as [|[[t d] r] a IH]; intros b tc; [reflexivity|].
  cbn [app expand tl_end]. rewrite IH, app_assoc. reflexivity.
Qed.

Lemma tl_end_app a : forall b tc, tl_end (a ++ b) tc = tl_end b (tl_end a tc).
Proof. induction a as [|[[t d] r] a IH]; intros b tc; [reflexivity|]. cbn [app tl_end]. apply IH. Qed.

Lemma expand_one t d r tc : expand [(t, d, r)] tc = expand_s (if t =? -1 then tc else t) d (Z.to_nat (r + 1)).
Proof. cbn [expand]. apply app_nil_r. Qed.

Lemma expand_s_snoc d n : forall t, expand_s t d (S n) = expand_s t d n ++ [(t + d * Z.of_nat n, d)].
Proof.
  induction n as [|n IH]; intros t.
  - cbn [expand_s app Z.of_nat]. rewrite Z.mul_0_r, Z.add_0_r. reflexivity.
  - change (expand_s t d (S (S n))) with ((t, d) :: expand_s (t + d) d (S n)). rewrite IH.
    replace (t + d * Z.of_nat (S n)) with (t + d + d * Z.of_nat n) by lia. reflexivity.
Qed.

Lemma u64_small z : 0 <= z < two64 -> u64 z = z.
Proof. intros H. unfold u64. apply Z.mod_small. exact H. Qed.

Lemma Forall_snoc_inv {A} (P : A -> Prop) l x : Forall P (l ++ [x]) -> Forall P l /\ P x.
Proof. intros H. apply Forall_app in H as [H1 H2]. inversion H2; subst. split; assumption. Qed.

(** the loop invariant: the S elements so far expand to the (time, duration) of the items so far and end at nextT *)
Definition tl_state (cur : option selem) (nextT : Z) (done : list selem) (acc : list item) : Prop :=
  match cur with
  | None => acc = [] /\ done = []
  | Some s => acc <> [] /\ 0 <= snd s /\
      (Forall item_timed acc ->
         expand (done ++ [s]) 0 = map td acc /\ tl_end (done ++ [s]) 0 = nextT /\ 0 <= nextT < two64)
  end.

Lemma timeline_loop_sound b : sdb_inv b -> forall n seqNr cur nextT done acc tl,
  items_at b (seqNr - lenZ acc) acc ->
  tl_state cur nextT done acc ->
  timeline_loop b seqNr n cur nextT done = Ok (Some tl) ->
  exists items, lenZ items = lenZ acc + Z.of_nat n /\ items_at b (seqNr - lenZ acc) items /\
                (Forall item_timed items -> expand tl 0 = map td items).
Proof.
  intros I. induction n as [|n IH]; intros seqNr cur nextT done acc tl Hat St Hrun.
  - cbn in Hrun. inversion Hrun; subst. exists acc. split; [lia|]. split; [exact Hat|].
    intros F. destruct cur as [s|]; cbn [tl_state] in St.
    + destruct St as (_ & _ & St). destruct (St F) as (E & _). exact E.
    + destruct St as [-> ->]. reflexivity.
  - cbn [timeline_loop] in Hrun. destruct (sdb_getItem_ok b seqNr I) as (oi & Ho & Hoi). rewrite Ho in Hrun. cbn [bind] in Hrun.
    destruct oi as [sd|]; [|discriminate]. destruct Hoi as [Hin Hseq].
    pose proof (lenZ_nonneg acc).
    assert (Hat' : items_at b (seqNr + 1 - lenZ (acc ++ [sd])) (acc ++ [sd])).
    { rewrite lenZ_app, lenZ_cons, lenZ_nil. replace (seqNr + 1 - (lenZ acc + (1 + 0))) with (seqNr - lenZ acc) by lia.
      intros k it Hk. apply nthZ_snoc_inv in Hk as [[Hk _]|[-> ->]]; [apply Hat; exact Hk|]. split; [exact Hin|lia]. }
    assert (Hne : acc ++ [sd] <> []) by (destruct acc; discriminate).
    assert (Fin : forall items, lenZ items = lenZ (acc ++ [sd]) + Z.of_nat n ->
              items_at b (seqNr + 1 - lenZ (acc ++ [sd])) items ->
              lenZ items = lenZ acc + Z.of_nat (S n) /\ items_at b (seqNr - lenZ acc) items).
    { intros items Hl Hi. rewrite lenZ_app, lenZ_cons, lenZ_nil in Hl, Hi.
      replace (seqNr + 1 - (lenZ acc + (1 + 0))) with (seqNr - lenZ acc) in Hi by lia. split; [lia|exact Hi]. }
    destruct cur as [[[t d] r]|]; cbn [tl_state] in St.
    + destruct St as (Hacc & Hr & St). cbn [snd] in Hr.
      destruct ((i_dur sd =? d) && (i_dts sd =? nextT)) eqn:Ec.
      * (* same duration, starts at the running end: r++ *)
        apply andb_true_iff in Ec as [Ed Et]. apply Z.eqb_eq in Ed, Et.
        destruct (IH (seqNr + 1) (Some (t, d, r + 1)) (u64 (nextT + i_dur sd)) done (acc ++ [sd]) tl Hat') as (items & Hl & Hi & Hex); [|exact Hrun|].
        -- cbn [tl_state snd]. split; [exact Hne|]. split; [lia|]. intros F. apply Forall_snoc_inv in F as [Fa (Hs1 & Hs2 & Hs3)].
           destruct (St Fa) as (E & En & Hn).
           rewrite expand_app, expand_one in E. rewrite tl_end_app in En. cbn [tl_end] in En.
           rewrite expand_app, expand_one, tl_end_app. cbn [tl_end].
           replace (Z.to_nat (r + 1 + 1)) with (S (Z.to_nat (r + 1))) by lia.
           rewrite expand_s_snoc, app_assoc, E, map_app. cbn [map]. unfold td at 3.
           rewrite u64_small by lia. split; [|split; [|lia]].
           ++ do 3 f_equal; [|lia]. rewrite Z2Nat.id by lia. lia.
           ++ lia.
        -- destruct (Fin items Hl Hi) as [A B]. exists items. split; [exact A|split; [exact B|exact Hex]].
      * (* new S element; @t when the segment does not start at the running end *)
        destruct (IH (seqNr + 1) (Some ((if i_dts sd =? nextT then -1 else i_dts sd), i_dur sd, 0)) (u64 (i_dts sd + i_dur sd))
                    (done ++ [(t, d, r)]) (acc ++ [sd]) tl Hat') as (items & Hl & Hi & Hex); [|exact Hrun|].
        -- cbn [tl_state snd]. split; [exact Hne|]. split; [lia|]. intros F. apply Forall_snoc_inv in F as [Fa (Hs1 & Hs2 & Hs3)].
           destruct (St Fa) as (E & En & Hn).
           unfold selem in *.
           rewrite expand_app, E, expand_one, (tl_end_app (done ++ [(t, d, r)])), !En, map_app. cbn [map tl_end].
           change (Z.to_nat (0 + 1)) with 1%nat. cbn [expand_s]. unfold td at 2.
           rewrite u64_small by lia.
           assert (Et0 : (if (if i_dts sd =? nextT then -1 else i_dts sd) =? -1 then nextT else (if i_dts sd =? nextT then -1 else i_dts sd)) = i_dts sd).
           { destruct (i_dts sd =? nextT) eqn:Et; [apply Z.eqb_eq in Et; cbn; lia|].
             replace (i_dts sd =? -1) with false by lia. reflexivity. }
           rewrite Et0. split; [reflexivity|]. split; lia.
        -- destruct (Fin items Hl Hi) as [A B]. exists items. split; [exact A|split; [exact B|exact Hex]].
    + (* first item *)
      destruct St as [-> ->].
      destruct (IH (seqNr + 1) (Some (i_dts sd, i_dur sd, 0)) (u64 (i_dts sd + i_dur sd)) [] ([] ++ [sd]) tl Hat') as (items & Hl & Hi & Hex); [|exact Hrun|].
      * cbn [tl_state snd app]. split; [discriminate|]. split; [lia|]. intros F. inversion F as [|? ? (Hs1 & Hs2 & Hs3) _]; subst.
        rewrite expand_one. cbn [tl_end map]. change (Z.to_nat (0 + 1)) with 1%nat. cbn [expand_s].
        replace (i_dts sd =? -1) with false by lia. rewrite u64_small by lia. unfold td. split; [reflexivity|]. split; lia.
      * destruct (Fin items Hl Hi) as [A B]. exists items. split; [exact A|split; [exact B|exact Hex]].
Qed.

(** start times implied by a first start and the durations *)
Fixpoint starts (t : Z) (ds : list Z) : list (Z * Z) :=
  match ds with [] => [] | d :: r => (t, d) :: starts (t + d) r end.

Fixpoint sumZ (l : list Z) : Z := match l with [] => 0 | x :: r => x + sumZ r end.

Lemma starts_app t a b : starts t (a ++ b) = starts t a ++ starts (t + sumZ a) b.
Proof.
  revert t; induction a as [|x a IH]; intros t; cbn [app starts sumZ]; [f_equal; lia|].
  f_equal. rewrite IH. f_equal. f_equal. lia.
Qed.

Lemma expand_s_starts t d n : expand_s t d n = starts t (repeat d n).
Proof. revert t; induction n as [|n IH]; intros t; cbn; [reflexivity|]. f_equal. apply IH. Qed.

Lemma sumZ_repeat d n : sumZ (repeat d n) = d * Z.of_nat n.
Proof. induction n as [|n IH]; [cbn; lia|]. cbn [repeat sumZ]. rewrite IH. lia. Qed.

Lemma expand_cont tl : forall tc,
  Forall (fun s => fst (fst s) = -1) tl -> Forall (fun s => 0 <= snd s) tl ->
  expand tl tc = starts tc (durs_of tl).
Proof.
  induction tl as [|[[t d] r] tl IH]; intros tc F1 F2; [reflexivity|].
  inversion F1; subst. inversion F2; subst. cbn [fst snd] in *. subst t.
  cbn [expand durs_of flat_map fst snd]. rewrite Z.eqb_refl.
  rewrite expand_s_starts, starts_app. f_equal.
  rewrite IH by assumption. fold (durs_of tl). f_equal. rewrite sumZ_repeat. lia.
Qed.

Lemma expand_shape t0 tl tc :
  t0 <> -1 -> tl_shape t0 tl -> Forall (fun s => 0 <= snd s) tl -> expand tl tc = starts t0 (durs_of tl).
Proof.
  intros Ht Hs F. destruct tl as [|[[t d] r] tl]; [reflexivity|].
  destruct Hs as [H1 H2]. cbn [fst snd] in H1. subst t. inversion F; subst. cbn [snd] in *.
  cbn [expand durs_of flat_map fst snd]. replace (t0 =? -1) with false by lia.
  rewrite expand_s_starts, starts_app. f_equal.
  rewrite (expand_cont tl _ H2 H3). fold (durs_of tl). f_equal. rewrite sumZ_repeat. lia.
Qed.

(** what one adaptation set's timeline says about the buffer of its first representation: one stored item per
    number of the range, listed with its own start time and duration - also where a segment does not start at
    the end of the previous one (since 4e0d5ea) *)
Definition aset_sound (g : gen) (first last : Z) (reps : list Z) (tl : list selem) : Prop :=
  exists rep b items,
    hd_error reps = Some rep /\ lookup rep (g_bufs g) = Some b /\
    lenZ items = Z.of_nat (Z.to_nat (last - first + 1)) /\ items_at b first items /\
    (Forall item_timed items -> expand tl 0 = map td items).

Lemma map_snd_starts t ds : map snd (starts t ds) = ds.
Proof. revert t; induction ds as [|d r IH]; intros t; cbn; [reflexivity|]. f_equal. apply IH. Qed.

Lemma timelines_sound g first last : gen_inv g -> forall asets tls,
  timelines g first last asets = Ok (Some tls) -> Forall2 (aset_sound g first last) asets tls.
Proof.
  intros I. pose proof I as (Ic & Ew & Hw & Fb & Hl).
  induction asets as [|reps rest IH]; intros tls H.
  - cbn in H. inversion H; subst. constructor.
  - cbn [timelines] in H. destruct reps as [|rep reps]; [discriminate|].
    destruct (lookup rep (g_bufs g)) as [b|] eqn:E; [|discriminate].
    destruct (lookup_Forall _ _ _ _ Fb E) as (k & Ib & _). cbn [snd] in Ib.
    destruct (timeline_loop_ok b Ib (Z.to_nat (last - first + 1)) first None 0 []) as (otl & Ht). rewrite Ht in H. cbn [bind] in H.
    destruct otl as [tl|]; [|discriminate].
    destruct (timelines g first last rest) as [[tlr|]| |] eqn:Er; cbn [bind] in H; try discriminate.
    inversion H; subst tls. constructor; [|apply IH; reflexivity].
    destruct (timeline_loop_sound b Ib (Z.to_nat (last - first + 1)) first None 0 [] [] tl) as (items & Hlen & Hat & Hex); try exact Ht.
    + intros k0 it Hk. destruct k0; discriminate.
    + cbn. auto.
    + change (lenZ (@nil item)) with 0 in *. rewrite Z.sub_0_r in Hat.
      exists rep, b, items. split; [reflexivity|]. split; [exact E|]. split; [lia|]. split; [exact Hat|exact Hex].
Qed.

(** generate: the published range consists of numbers whose counter is complete, and every adaptation
    set's timeline describes stored items of its first representation, one per number, each with its own
    start time and duration *)
Lemma gen_generate_sound g nl asets g' pub :
  gen_inv g -> gen_generate g nl asets = Ok (g', Some pub) ->
  (forall n, p_first pub <= n <= p_last pub -> exists c, In (n, c) (sc_live (g_cnt g)) /\ g_ntracks g <= c) /\
  Forall2 (aset_sound g (p_first pub) (p_last pub)) asets (p_tl pub).
Proof.
  intros I H. pose proof I as (Ic & _). unfold gen_generate in H.
  destruct (sc_fullRange_sound (g_cnt g) (g_ntracks g) Ic) as ([first last] & Hf & Hr). rewrite Hf in H. cbn [bind] in H.
  destruct (nl <=? g_latest g) eqn:E1; [discriminate|]. destruct (last <? nl) eqn:E2; [discriminate|].
  destruct (timelines g first last asets) as [[tls|]| |] eqn:Et; cbn [bind] in H; try discriminate.
  inversion H; subst. cbn [p_first p_last p_tl]. split.
  - destruct Hr as [Hz|Hr]; [|exact Hr]. cbn [snd] in Hz. destruct I as (_ & _ & _ & _ & Hl). lia.
  - apply timelines_sound; assumption.
Qed.
