(** SPEC side of C17: representation invariants, the preconditions that exclude the known
    defects of the receiver's bookkeeping, runs over operation sequences, and the abstract
    (list-level) meaning of the circular buffers.  Definitions only; proofs in RecvProofs.v. *)
From Verif Require Import GoSem Recv.
From Coq Require Import ZifyBool.

(** strictly increasing *)
Fixpoint incr (l : list Z) : bool :=
  match l with
  | a :: (b :: _) as t => (a <? b) && incr t
  | _ => true
  end.

(** * seqCounters *)
Definition sc_live (s : sc) : list counter := takeZ (sc_n s) (arr (sc_sl s)).

(** Representation invariant: 0 <= _nrCounters <= windowSize = len(counters) <= cap, live
    numbers strictly increasing. *)
Definition sc_inv (s : sc) : Prop :=
  0 < sc_w s < two32 /\ 0 <= sc_n s <= sc_w s /\ slen (sc_sl s) = sc_w s /\ sc_w s <= scap (sc_sl s)
  /\ incr (map fst (sc_live s)) = true.

Definition sc_invb (s : sc) : bool :=
  (0 <? sc_w s) && (sc_w s <? two32) && (0 <=? sc_n s) && (sc_n s <=? sc_w s) && (slen (sc_sl s) =? sc_w s)
  && (sc_w s <=? scap (sc_sl s)) && incr (map fst (sc_live s)).

Definition last_seq (l : list counter) : Z := match rev l with c :: _ => fst c | [] => 0 end.
Definition first_seq (l : list counter) : Z := match l with c :: _ => fst c | [] => 0 end.

(** list-level meaning of [add]: the live counters as an association list sorted by number *)
Fixpoint inc_count (n : Z) (l : list counter) : list counter :=
  match l with
  | [] => []
  | c :: t => if fst c =? n then (fst c, u32 (snd c + 1)) :: t else c :: inc_count n t
  end.

Definition ins_count (n : Z) (l : list counter) : list counter :=
  filter (fun c => fst c <? n) l ++ (n, 1) :: filter (fun c => n <? fst c) l.

Definition count_below (bound : Z) (l : list counter) : Z :=
  lenZ (filter (fun c => fst c <? bound) l).

Definition spec_add (w : Z) (l : list counter) (n : Z) : list counter :=
  match l with
  | [] => [(n, 1)]
  | _ =>
    let mx := last_seq l in
    let mn := if mx <? w then 0 else u32 (mx - w + 1) in
    if n <? mn then l
    else if mx <? n then
      let mn' := if n <? w then 0 else u32 (n - w + 1) in
      let nd0 := count_below mn' l in
      let nd := if (lenZ l =? w) && (nd0 <? lenZ l) then nd0 + 1 else nd0 in
      dropZ nd l ++ [(n, 1)]
    else if existsb (fun c => fst c =? n) l then inc_count n l
    else if n <? first_seq l then l                       (* below everything stored: ignored *)
    else if lenZ l <? w then ins_count n l                (* inserted at its place *)
    else dropZ 1 (ins_count n l)                          (* full: the oldest counter goes *)
  end.

Definition sc_adds (s : sc) (l : list Z) : res sc :=
  fold_left (fun r n => do s <- r; sc_add s n) l (Ok s).

(** * segDataBuffer *)
Definition sdb_live (b : sdb) : list item := takeZ (b_n b) (arr (b_sl b)).

Definition sdb_inv (b : sdb) : Prop :=
  0 < b_size b < two32 /\ 0 <= b_n b <= b_size b /\ slen (b_sl b) = b_size b /\ b_size b <= scap (b_sl b)
  /\ incr (map i_seq (sdb_live b)) = true
  /\ Forall (fun i => 0 <= i_seq i < two32) (sdb_live b).

Definition sdb_invb (b : sdb) : bool :=
  (0 <? b_size b) && (b_size b <? two32) && (0 <=? b_n b) && (b_n b <=? b_size b) && (slen (b_sl b) =? b_size b)
  && (b_size b <=? scap (b_sl b)) && incr (map i_seq (sdb_live b))
  && forallb (fun i => (0 <=? i_seq i) && (i_seq i <? two32)) (sdb_live b).

Definition sdb_adds (b : sdb) (l : list item) : res sdb :=
  fold_left (fun r it => do b <- r; do x <- sdb_add b it; Ok (fst x)) l (Ok b).

Definition last_item_seq (l : list item) : Z := last (map i_seq l) 0.

(** list-level meaning of [segDataBuffer.add] *)
Definition spec_badd (size : Z) (l : list item) (it : item) : list item * bool :=
  match l with
  | [] => ([it], true)
  | _ =>
    if i_seq it <=? last_item_seq l then (l, false)
    else if lenZ l <? size then (l ++ [it], true)
    else (filter (fun i => negb (i_seq i <=? i_seq it - size)) l ++ [it], true)
  end.

(** * segmentTimelineGenerator *)
Definition gen_inv (g : gen) : Prop :=
  sc_inv (g_cnt g) /\ sc_w (g_cnt g) = g_w g /\ 0 < g_w g < two32
  /\ Forall (fun kb => sdb_inv (snd kb) /\ b_size (snd kb) = g_w g) (g_bufs g)
  /\ 0 <= g_latest g.

Definition buf_of (g : gen) (name : Z) : sdb :=
  match lookup name (g_bufs g) with Some b => b | None => sdb_new (g_w g) end.

Definition item_okb (it : item) : bool := (0 <=? i_seq it) && (i_seq it <? two32).

(** [start]/[resize] only need a window in (0, 2^32); since 9e29b04 and 502773f a window below what
    is stored keeps the newest entries *)
Definition gen_resize_pre (g : gen) (nw : Z) : bool := (0 <? nw) && (nw <? two32).

(** * channel *)
Definition chan_inv (c : chan) : Prop :=
  gen_inv (ch_gen c) /\ (g_shifted (ch_gen c) = true -> ch_mdur c <> 0).

(** every registered track can be measured when the channel starts: it has a buffer (needed for
    video tracks and tracks without btrt box) whose stored durations do not sum to zero *)
Definition tracks_ready (g : gen) (tracks : list track) : bool :=
  forallb (fun t => match lookup (tr_name t) (g_bufs g) with
                    | None => tr_btrt t && negb (tr_video t)
                    | Some b => tr_btrt t || negb (sum_durs (takeZ (b_n b) (arr (b_sl b))) =? 0)
                    end) tracks.

(** first half of receivedSegData: addSegmentData and, for a newly complete number, the MPD *)
Definition chan_mid (c : chan) (name : Z) (it : item) : res (gen * option published) :=
  do r <- gen_addSegmentData (ch_gen c) name it;
  let '(g1, newSeqNr, _) := r in
  if newSeqNr =? 0 then Ok (g1, None) else gen_generate g1 newSeqNr (chan_asets c).

Definition start_window (c : chan) (mts dur : Z) : Z :=
  u32 (u32 (Z.quot (u32 (ch_tsbd c * mts)) dur + 2) - 1).

(** what the start-up part of receivedSegData needs when this upload completes the measurement
    of the master track: a window in (0, 2^32) (a zero duration no longer starts the channel, ff19d12) *)
Definition chan_start_pre (c : chan) (g2 : gen) (name : Z) : bool :=
  if (ch_mdur c =? 0) && (name =? ch_master c) then
    match lookup name (g_bufs g2) with
    | None => true
    | Some b =>
      if b_n b <? 2 then true
      else match nthZ 0 (arr (b_sl b)), nthZ 1 (arr (b_sl b)) with
           | Some i0, Some i1 =>
             if negb (i_seq i1 =? u32 (i_seq i0 + 1)) || negb (i_dur i1 =? i_dur i0) || (i_dur i1 =? 0) then true
             else
               let mts := match find_track name (ch_tracks c) with Some t => tr_tsOut t | None => 0 end in
               gen_resize_pre g2 (start_window c mts (i_dur i1))
           | _, _ => true
           end
    end
  else true.

(** one upload as seen by the channel goroutine: a complete segment of track [name] *)
Record upload := mkUp { up_name : Z; up_item : item }.

Definition chan_pre (c : chan) (u : upload) : bool :=
  match find_track (up_name u) (ch_tracks c) with
  | None => true
  | Some _ =>
    item_okb (up_item u) &&
    match chan_mid c (up_name u) (up_item u) with
    | Ok (g2, _) => chan_start_pre c g2 (up_name u)
    | _ => true
    end
  end.

Definition chan_step (r : res chan) (u : upload) : res chan :=
  do c <- r; do o <- chan_received c (up_name u) (up_item u); Ok (o_chan o).

Definition chan_run (c : chan) (ups : list upload) : res chan := fold_left chan_step ups (Ok c).

(** the precondition holds at every state the run goes through *)
Fixpoint run_pre (c : chan) (ups : list upload) : Prop :=
  match ups with
  | [] => True
  | u :: rest => chan_pre c u = true /\
                 forall o, chan_received c (up_name u) (up_item u) = Ok o -> run_pre (o_chan o) rest
  end.

(** the uploads together with what was published after each of them *)
Fixpoint chan_trace (c : chan) (ups : list upload) : res (list (option published) * chan) :=
  match ups with
  | [] => Ok ([], c)
  | u :: rest =>
    do o <- chan_received c (up_name u) (up_item u);
    do r <- chan_trace (o_chan o) rest;
    Ok (o_pub o :: fst r, snd r)
  end.

Fixpoint run_preb (c : chan) (ups : list upload) : bool :=
  match ups with
  | [] => true
  | u :: rest => chan_pre c u &&
                 match chan_received c (up_name u) (up_item u) with
                 | Ok o => run_preb (o_chan o) rest
                 | _ => true
                 end
  end.

(** a segment of 2 s at 90 kHz with number [n], starting at n * 2 s *)
Definition seg2s (n : Z) : item := mkItem n (n * 180000) 180000 false.
Definition up (name n : Z) : upload := mkUp name (seg2s n).
