(** Model of pkg/scte35/scte35.go ([IsValidSCTE35Interval], [CreateEmsgAhead],
    [CreateSpliceInsertPayload]) together with the part of github.com/Comcast/gots/v2 (v2.2.1) that
    [CreateSpliceInsertPayload] runs: scte35.spliceInsert.Data, scte35.UpdateData,
    psi.TableHeader.Data and gots.ComputeCRC.

    Bytes are [Z] in [0,255].  Go's uint64/uint32/uint16/uint8 arithmetic is written with explicit
    [u64]/[u32]/[mod].  [byte(x >> k)] is [(x / 2^k) mod 256]; [a | b] on disjoint bit fields is [a + b].
    No proofs in this file. *)
From Verif Require Import GoSem.

(** ** gots.ComputeCRC (tsutils.go): bit-serial "augmented message" CRC, polynomial 0x04c11db7,
    start value 0x46af6449, 32 zero bits pushed through at the end, result big endian. *)
Definition crc_mask : Z := 4294967295.   (* 0xffffffff *)
Definition crc_msb : Z := 2147483648.    (* 0x80000000 *)
Definition crc_poly : Z := 79764919.     (* 0x04c11db7 *)
Definition crc_start : Z := 1185899593.  (* 0x46af6449 *)

(** one iteration of the inner loop: [bit] is shifted in from the right *)
Definition crc_step (crc bit : Z) : Z :=
  let top := Z.land crc crc_msb in
  let crc' := Z.lor (Z.land (Z.shiftl crc 1) crc_mask) bit in
  if top =? 0 then crc' else Z.lxor crc' crc_poly.

(** [(item >> (7-j)) & 1] for j = 0..7 *)
Definition byte_bits (item : Z) : list Z :=
  map (fun j => Z.land (Z.shiftr item (7 - j)) 1) [0; 1; 2; 3; 4; 5; 6; 7].

Definition zeros32 : list Z := repeat 0 32.

Definition crc_feed (crc : Z) (bits : list Z) : Z := fold_left crc_step bits crc.

Definition be32bytes (v : Z) : list Z :=
  [(v / 16777216) mod 256; (v / 65536) mod 256; (v / 256) mod 256; v mod 256].

Definition computeCRC_value (input : list Z) : Z :=
  crc_feed (crc_feed crc_start (flat_map byte_bits input)) zeros32.

Definition computeCRC (input : list Z) : list Z := be32bytes (computeCRC_value input).

(** ** The parameters (scte35.go: SpliceInsertParams) *)
Record siparams := {
  p_pts : Z;            (* uint64 *)
  p_dur : Z;            (* uint64 *)
  p_event : Z;          (* uint32 *)
  p_tier : Z;           (* uint16 *)
  p_upid : Z;           (* uint16 *)
  p_avail : Z;          (* uint8 *)
  p_avails : Z;         (* uint8 *)
  p_cancel : bool;
  p_out : bool;
  p_immediate : bool;
  p_auto : bool
}.

Definition two33 : Z := 8589934592.

Definition b2z (b : bool) (v : Z) : Z := if b then v else 0.

(** 33-bit time field: first byte carries [hi] (reserved/flag bits) and bit 32, then bits 31..0 *)
Definition time5 (hi v : Z) : list Z :=
  [hi + (v / 4294967296) mod 2; (v / 16777216) mod 256; (v / 65536) mod 256; (v / 256) mod 256; v mod 256].

(** spliceInsert.Data() for a command built by CreateSpliceInsertCommand (isProgramSplice = true,
    no components) with the setters CreateSpliceInsertPayload calls. *)
Definition spliceInsertData (p : siparams) : list Z :=
  let hasDuration := negb (p_dur p =? 0) in
  let autoReturn := hasDuration && p_auto p in          (* SetIsAutoReturn only inside [if p.Duration != 0] *)
  let pts := (p_pts p) mod two33 in                     (* SetPTS: value & 0x01ffffffff *)
  be32bytes (p_event p)
  ++ [127 + b2z (p_cancel p) 128]
  ++ [15 + b2z (p_out p) 128 + 64 + b2z hasDuration 32 + b2z (p_immediate p) 16]
  ++ (if p_immediate p then [] else time5 254 pts)      (* spliceTimeBytes(hasPTS = true, pts) *)
  ++ (if hasDuration then time5 (126 + b2z autoReturn 128) (p_dur p) else [])
  ++ [(p_upid p / 256) mod 256; p_upid p mod 256; p_avail p mod 256; p_avails p mod 256].

(** CreateSpliceInsertPayload calls s.SetAdjustPTS(cmd.PTS()) after SetCommandInfo, so the section's
    adjusted PTS equals the command PTS; UpdateData writes pts_adjustment = subtractPTS(s.pts, cmd.PTS()). *)
Definition subtractPTS (final initial : Z) : Z :=
  if final >=? initial then final - initial else two33 - (initial - final).

Definition ptsAdjust (p : siparams) : Z :=
  let cpts := (p_pts p) mod two33 in          (* cmd.PTS() *)
  let spts := cpts in                          (* s.pts after SetAdjustPTS(cmd.PTS()) *)
  subtractPTS spts cpts.

Definition spliceInsertType : Z := 5.

(** scte35.UpdateData(): table header, fixed fields, command, empty descriptor loop, CRC. *)
Definition sectionBody (p : siparams) : list Z :=
  let cmd := spliceInsertData p in
  let cmdLen := lenZ cmd in
  let tier := (p_tier p) mod 4096 in                    (* SetTier: tier & 0xFFF *)
  let sectionLength := 13 + cmdLen + 0 + 4 + 0 in
  let adj := ptsAdjust p in
  [252; 48 + (sectionLength / 256) mod 4; sectionLength mod 256]
  ++ [0; (adj / 4294967296) mod 2]
  ++ be32bytes adj
  ++ [0; (tier / 16) mod 256; (tier * 16) mod 256 + (cmdLen / 256) mod 16; cmdLen mod 256; spliceInsertType]
  ++ cmd
  ++ [0; 0].

Definition createSpliceInsertPayload (p : siparams) : list Z :=
  let body := sectionBody p in body ++ computeCRC body.

(** ** CreateEmsgAhead *)
Record emsg := {
  e_timescale : Z;      (* uint32 *)
  e_pt : Z;             (* uint64 presentation_time *)
  e_dur : Z;            (* uint32 event_duration *)
  e_id : Z;             (* uint32 *)
  e_data : list Z
}.

(** splice offsets (seconds after the full minute) per perMinute value; [None] = rejected *)
Definition splice_offsets (perMinute : Z) : option (list Z) :=
  if perMinute =? 1 then Some [10]
  else if perMinute =? 2 then Some [10; 40]
  else if perMinute =? 3 then Some [10; 36; 46]
  else None.

Definition isValidSCTE35Interval (perMinute : Z) : bool :=
  match splice_offsets perMinute with Some _ => true | None => false end.

Definition ad_seconds (perMinute : Z) : Z := if perMinute =? 1 then 20 else 10.
Definition announce_lead : Z := 7.
Definition minute_s : Z := 60.          (* segStart % (60 * timescale) *)
Definition next_minute_first : Z := 70. (* append(spliceInsertTimes, minuteStart+70*timescale) *)
Definition pts_clock : Z := 90000.      (* spliceTime*90000/timescale *)

Definition scte_err : string := "scte35 per minute must be 1, 2, or 3".

Definition params_for (spliceTime adDuration timescale : Z) : siparams :=
  let emsgID := spliceTime / timescale in
  {| p_pts := u64 (emsgID * pts_clock) mod two33;
     p_dur := u64 (adDuration * pts_clock) / timescale;
     p_event := u32 emsgID;
     p_tier := 4095; p_upid := 0; p_avail := 0; p_avails := 0;
     p_cancel := false; p_out := true; p_immediate := false; p_auto := true |}.

(** All arguments are uint64 values (0 <= x < 2^64); perMinute is an int. *)
Definition createEmsgAhead (segStart segEnd timescale perMinute : Z) : res (option emsg) :=
  match splice_offsets perMinute with
  | None => Err scte_err
  | Some offs =>
    let m60 := u64 (minute_s * timescale) in
    if m60 =? 0 then Panic "scte35.CreateEmsgAhead:integer divide by zero" else
    let modMinute := segStart mod m60 in
    let minuteStart := segStart - modMinute in
    let adDuration := u64 (ad_seconds perMinute * timescale) in
    (* the documented offsets of this minute, then the first splice of the next minute *)
    let sits := map (fun off => u64 (minuteStart + u64 (off * timescale))) (offs ++ [next_minute_first]) in
    let hit := find (fun sit =>
                       let announceTime := u64 (sit - u64 (announce_lead * timescale)) in
                       (segStart <? announceTime) && (announceTime <=? segEnd)) sits in
    match hit with
    | None => Ok None
    | Some spliceTime =>
      (* timescale <> 0 here, otherwise m60 = 0 *)
      let emsgID := spliceTime / timescale in
      Ok (Some {| e_timescale := u32 timescale;
                  e_pt := spliceTime;
                  e_dur := u32 adDuration;
                  e_id := u32 emsgID;
                  e_data := createSpliceInsertPayload (params_for spliceTime adDuration timescale) |})
    end
  end.

(** ** Use in the server *)

(** configurl.go verifyAndFillConfig: [scte35_<n>] is accepted iff IsValidSCTE35Interval; an error
    there is answered with 400. [None] = the key is absent. *)
Definition cfg_scte_status (scte : option Z) : Z :=
  match scte with
  | None => 200
  | Some n => if isValidSCTE35Interval n then 200 else 400
  end.

(** livesegment.go genLiveSegment L94-106: only video segments, at most one emsg per segment. *)
Definition segment_emsg (isVideo : bool) (scte : option Z) (segStart dur timescale : Z) : res (option emsg) :=
  match scte with
  | Some n => if isVideo then createEmsgAhead segStart (u64 (segStart + dur)) timescale n else Ok None
  | None => Ok None
  end.

(** livesegment.go writeChunkedSegment / chunkSegment (chunkdur_<s>/: availabilityTimeComplete=false):
    the response is rebuilt from the samples of the generated segment into new fragments made by
    createChunk; since b6338c6 the emsg boxes that genLiveSegment added to the segment are copied to the
    first chunk (before, they were dropped: [chunked_drops_emsg] was true). An error of genLiveSegment
    is passed on. *)
Definition chunked_drops_emsg : bool := false.

Definition delivered_emsg (chunked isVideo : bool) (scte : option Z) (segStart dur timescale : Z) : res (option emsg) :=
  if chunked && chunked_drops_emsg then
    match segment_emsg isVideo scte segStart dur timescale with Ok _ => Ok None | r => r end
  else segment_emsg isVideo scte segStart dur timescale.

(** livempd.go L234-241: InbandEventStream on video adaptation sets iff scte35 is configured. *)
Definition inband_event_stream (isVideo : bool) (scte : option Z) : bool :=
  isVideo && match scte with Some _ => true | None => false end.

(** ** Specification side *)

(** Textbook CRC-32/MPEG-2 (direct, non-augmented form): start 0xffffffff, per message bit
    (most significant first): shift left, xor the polynomial iff (top bit xor message bit). *)
Definition mpeg_step (crc bit : Z) : Z :=
  let top := (crc / crc_msb) mod 2 in
  let sh := (2 * crc) mod 4294967296 in
  if top =? bit then sh else Z.lxor sh crc_poly.

Definition msb_bits (byte : Z) : list Z :=
  [(byte / 128) mod 2; (byte / 64) mod 2; (byte / 32) mod 2; (byte / 16) mod 2;
   (byte / 8) mod 2; (byte / 4) mod 2; (byte / 2) mod 2; byte mod 2].

Definition crc32_mpeg (msg : list Z) : Z :=
  fold_left mpeg_step (flat_map msb_bits msg) crc_mask.

(** Reading a splice_info_section with one splice_insert as livesim2 emits it (program splice,
    not immediate, with break duration): the fields a receiver extracts. *)
Record section_view := {
  v_table_id : Z; v_section_length : Z; v_pts_adjustment : Z; v_tier : Z; v_cmd_len : Z; v_cmd_type : Z;
  v_event : Z; v_cancel : bool; v_out : bool; v_program : bool; v_has_dur : bool; v_immediate : bool;
  v_time_specified : bool; v_pts_time : Z; v_auto : bool; v_break_dur : Z;
  v_upid : Z; v_avail : Z; v_avails : Z; v_desc_len : Z
}.

Definition bit_set (byte mask : Z) : bool := (byte / mask) mod 2 =? 1.

Definition decode_section (b : list Z) : option section_view :=
  match b with
  | [t0; t1; t2; s0; s1; a3; a2; a1; a0; cw; ti1; ti0; cl; ct;
     e3; e2; e1; e0; f0; f1; p4; p3; p2; p1; p0; d4; d3; d2; d1; d0; u1; u0; an; ae; dl1; dl0; _; _; _; _] =>
    Some {| v_table_id := t0; v_section_length := (t1 mod 4) * 256 + t2;
            v_pts_adjustment := ((((s1 mod 2) * 256 + a3) * 256 + a2) * 256 + a1) * 256 + a0;
            v_tier := ti1 * 16 + ti0 / 16; v_cmd_len := (ti0 mod 16) * 256 + cl; v_cmd_type := ct;
            v_event := ((e3 * 256 + e2) * 256 + e1) * 256 + e0;
            v_cancel := bit_set f0 128; v_out := bit_set f1 128; v_program := bit_set f1 64;
            v_has_dur := bit_set f1 32; v_immediate := bit_set f1 16;
            v_time_specified := bit_set p4 128;
            v_pts_time := ((((p4 mod 2) * 256 + p3) * 256 + p2) * 256 + p1) * 256 + p0;
            v_auto := bit_set d4 128;
            v_break_dur := ((((d4 mod 2) * 256 + d3) * 256 + d2) * 256 + d1) * 256 + d0;
            v_upid := u1 * 256 + u0; v_avail := an; v_avails := ae; v_desc_len := dl1 * 256 + dl0 |}
  | _ => None
  end.

(** Contiguous segment sequence: each segment (s,e) has 0 < e - s <= maxlen and e is the next s. *)
Fixpoint contiguous (maxlen : Z) (segs : list (Z * Z)) : Prop :=
  match segs with
  | [] => True
  | (s, e) :: rest =>
    0 < e - s <= maxlen /\
    match rest with [] => True | (s', _) :: _ => e = s' end /\
    contiguous maxlen rest
  end.

(** the splice time announced in the segment (s,e), if any *)
Definition carried (timescale perMinute : Z) (seg : Z * Z) : option Z :=
  match createEmsgAhead (fst seg) (snd seg) timescale perMinute with
  | Ok (Some em) => Some (e_pt em)
  | _ => None
  end.

(** ** Schedule (specification side of C13_exactly_once) *)

(** splice time of offset [off] (seconds) in wall-clock minute [m], in track timescale units *)
Definition sched_time (ts m off : Z) : Z := (60 * m + off) * ts.
(** the instant at which it is announced *)
Definition announce_of (ts sigma : Z) : Z := sigma - announce_lead * ts.
(** the segment (s,e] contains the instant a *)
Definition in_seg (a : Z) (seg : Z * Z) : bool := (fst seg <? a) && (a <=? snd seg).
(** the segment of a sequence that contains the instant a (first one; for a contiguous sequence the only one) *)
Definition holder (a : Z) (segs : list (Z * Z)) : option (Z * Z) := find (in_seg a) segs.
Definition carries (timescale perMinute sigma : Z) (seg : Z * Z) : bool :=
  match carried timescale perMinute seg with Some x => x =? sigma | None => false end.
(** how many segments of the sequence carry an event for the splice time sigma *)
Definition announcements (timescale perMinute sigma : Z) (segs : list (Z * Z)) : Z :=
  lenZ (filter (carries timescale perMinute sigma) segs).
Definition seq_start (segs : list (Z * Z)) : Z := match segs with [] => 0 | (s, _) :: _ => s end.
Definition seq_end (segs : list (Z * Z)) : Z := snd (last segs (0, 0)).
(** all events of a segment sequence, in order *)
Definition events (timescale perMinute : Z) (segs : list (Z * Z)) : list Z :=
  flat_map (fun seg => match carried timescale perMinute seg with Some x => [x] | None => [] end) segs.
(** the events whose splice time lies in wall-clock minute [m] *)
Definition events_in_minute (timescale perMinute m : Z) (segs : list (Z * Z)) : list Z :=
  filter (fun sigma => sigma / (60 * timescale) =? m) (events timescale perMinute segs).

(** the parameters a decoded section stands for, and the range in which SpliceInsertParams are
    representable in the section (33-bit times, 12-bit tier; livesim2 always sends a duration
    and never an immediate splice) *)
Definition params_of_view (v : section_view) : siparams :=
  {| p_pts := v_pts_time v; p_dur := v_break_dur v; p_event := v_event v; p_tier := v_tier v;
     p_upid := v_upid v; p_avail := v_avail v; p_avails := v_avails v; p_cancel := v_cancel v;
     p_out := v_out v; p_immediate := v_immediate v; p_auto := v_auto v |}.

Definition params_in_range (p : siparams) : Prop :=
  0 <= p_pts p < two33 /\ 0 < p_dur p < two33 /\ 0 <= p_event p < two32 /\ 0 <= p_tier p < 4096 /\
  0 <= p_upid p < 65536 /\ 0 <= p_avail p < 256 /\ 0 <= p_avails p < 256 /\ p_immediate p = false.

(** the emsg CreateEmsgAhead builds for the splice time sigma (proved in ScteProofs.carried_emsg) *)
Definition emsg_of (ts n sigma : Z) : emsg :=
  let adDuration := u64 (ad_seconds n * ts) in
  {| e_timescale := u32 ts; e_pt := sigma; e_dur := u32 adDuration; e_id := u32 (sigma / ts);
     e_data := createSpliceInsertPayload (params_for sigma adDuration ts) |}.
