(** Proofs for C13 (SCTE-35 schedule): the announce-window test of CreateEmsgAhead, lifted to
    contiguous segment sequences by induction. The section layout and the CRC are in
    ScteSectionProofs.v. *)
From Verif Require Import GoSem GoSemFacts Scte.
From Coq Require Import ZifyBool.

(** ** Domain of one segment: positive timescale, non-empty, at most 10 s long, no uint64 wrap *)
Definition seg_dom (ts s e : Z) : Prop :=
  0 < ts /\ 0 <= s /\ s < e /\ e - s <= 10 * ts /\ e + 60 * ts < two64.

Lemma u64_small x : 0 <= x < two64 -> u64 x = x.
Proof. intros; unfold u64; apply Z.mod_small; assumption. Qed.

Lemma two64_pos : 0 < two64.
Proof. reflexivity. Qed.

Lemma offsets_range n offs off : splice_offsets n = Some offs -> In off offs -> 10 <= off <= 46.
Proof.
  unfold splice_offsets; intros H Hin.
  destruct (n =? 1); [inversion H; subst; cbn in Hin; lia|].
  destruct (n =? 2); [inversion H; subst; cbn in Hin; lia|].
  destruct (n =? 3); [inversion H; subst; cbn in Hin; lia|discriminate].
Qed.

Lemma find_map_ext {A B} (f : B -> bool) (g : A -> B) (h : A -> bool) l :
  (forall x, In x l -> f (g x) = h x) -> find f (map g l) = option_map g (find h l).
Proof.
  induction l as [|x l IH]; intros H; cbn [map find option_map]; [reflexivity|].
  rewrite (H x (or_introl eq_refl)). destruct (h x); [reflexivity|].
  apply IH; intros; apply H; now right.
Qed.

(** minute arithmetic with a variable divisor, stated once *)
Lemma minute_facts ts s : 0 < ts -> 0 <= s ->
  let M := s / (60 * ts) in
  0 <= M /\ s mod (60 * ts) = s - 60 * ts * M /\ 60 * ts * M <= s < 60 * ts * M + 60 * ts.
Proof.
  intros Hts Hs M.
  assert (H60 : 0 < 60 * ts) by lia.
  pose proof (Z.div_mod s (60 * ts) ltac:(lia)) as Hdm.
  pose proof (Z.mod_pos_bound s (60 * ts) H60) as Hb.
  pose proof (Z.div_pos s (60 * ts) Hs H60).
  subst M. repeat split; lia.
Qed.

Lemma minute_unique ts s m : 0 < ts -> 60 * ts * m <= s < 60 * ts * m + 60 * ts -> s / (60 * ts) = m.
Proof.
  intros Hts H. symmetry. apply (Z.div_unique_pos s (60 * ts) m (s - 60 * ts * m)); lia.
Qed.

Lemma e_pt_emsg_of ts n sigma : e_pt (emsg_of ts n sigma) = sigma.
Proof. reflexivity. Qed.

Lemma Some_inj {A} (a b : A) : Some a = Some b -> a = b.
Proof. congruence. Qed.

(** CreateEmsgAhead on a segment of the domain: the first offset of the minute of [s] whose
    announce instant lies in (s, e] *)
Lemma createEmsgAhead_eq ts n s e offs :
  seg_dom ts s e -> splice_offsets n = Some offs ->
  createEmsgAhead s e ts n =
  match find (fun off => in_seg (announce_of ts (sched_time ts (s / (60 * ts)) off)) (s, e)) offs with
  | None => Ok None
  | Some off => Ok (Some (emsg_of ts n (sched_time ts (s / (60 * ts)) off)))
  end.
Proof.
  intros (Hts & Hs & Hse & Hlen & Hmax) Hoffs.
  unfold createEmsgAhead. rewrite Hoffs. change minute_s with 60.
  pose proof two64_pos.
  rewrite (u64_small (60 * ts)) by lia.
  destruct (60 * ts =? 0) eqn:E0; [lia|].
  destruct (minute_facts ts s Hts Hs) as (HM & Hmod & Hms).
  set (M := s / (60 * ts)) in *.
  rewrite Hmod.
  assert (Hsit : forall off, 10 <= off <= 46 ->
            u64 (s - (s - 60 * ts * M) + u64 (off * ts)) = sched_time ts M off).
  { intros off Ho. unfold sched_time.
    rewrite (u64_small (off * ts)) by nia.
    rewrite u64_small by nia. ring. }
  rewrite (find_map_ext _ _ (fun off => in_seg (announce_of ts (sched_time ts M off)) (s, e))).
  - destruct (find _ offs) as [off|] eqn:Ef; cbn [option_map]; [|reflexivity].
    apply find_some in Ef. destruct Ef as [Hin _].
    pose proof (offsets_range _ _ _ Hoffs Hin) as Ho.
    rewrite (Hsit off Ho). reflexivity.
  - intros off Hin. pose proof (offsets_range _ _ _ Hoffs Hin) as Ho.
    rewrite (Hsit off Ho). unfold in_seg, announce_of, announce_lead, sched_time. cbn [fst snd].
    rewrite (u64_small (7 * ts)) by lia.
    rewrite u64_small by nia. reflexivity.
Qed.

(** ** One segment: what it carries *)

(** within 10 s at most one announce instant of a minute: the instants are 3, 29/33 and 39 s
    after the minute, the closest two exactly 10 s apart, and the interval is half open *)
Lemma one_offset_per_segment ts n s e offs M o1 o2 :
  seg_dom ts s e -> splice_offsets n = Some offs -> In o1 offs -> In o2 offs ->
  in_seg (announce_of ts (sched_time ts M o1)) (s, e) = true ->
  in_seg (announce_of ts (sched_time ts M o2)) (s, e) = true -> o1 = o2.
Proof.
  intros (Hts & Hs & Hse & Hlen & Hmax) Hoffs H1 H2.
  unfold in_seg, announce_of, announce_lead, sched_time; cbn [fst snd]. intros A B.
  assert (D : forall a b : Z, a + 10 <= b -> (60 * M + a - 7) * ts + 10 * ts <= (60 * M + b - 7) * ts) by (intros; nia).
  unfold splice_offsets in Hoffs.
  destruct (n =? 1); [inversion Hoffs; subst; cbn in H1, H2; lia|].
  destruct (n =? 2).
  { inversion Hoffs; subst; cbn in H1, H2.
    destruct H1 as [<-|[<-|[]]], H2 as [<-|[<-|[]]]; try reflexivity; exfalso.
    - pose proof (D 10 40 ltac:(lia)); lia.
    - pose proof (D 10 40 ltac:(lia)); lia. }
  destruct (n =? 3); [|discriminate].
  inversion Hoffs; subst; cbn in H1, H2.
  destruct H1 as [<-|[<-|[<-|[]]]], H2 as [<-|[<-|[<-|[]]]]; try reflexivity; exfalso.
  - pose proof (D 10 36 ltac:(lia)); lia.
  - pose proof (D 10 46 ltac:(lia)); lia.
  - pose proof (D 10 36 ltac:(lia)); lia.
  - pose proof (D 36 46 ltac:(lia)); lia.
  - pose proof (D 10 46 ltac:(lia)); lia.
  - pose proof (D 36 46 ltac:(lia)); lia.
Qed.

Lemma find_unique {A} (f : A -> bool) l x :
  In x l -> f x = true -> (forall y, In y l -> f y = true -> y = x) -> find f l = Some x.
Proof.
  intros Hin Hx Hu. destruct (find f l) as [y|] eqn:E.
  - apply find_some in E. destruct E. f_equal. now apply Hu.
  - exfalso. pose proof (find_none _ _ E x Hin). congruence.
Qed.

(** the splice time announced in a segment: scheduled in the minute in which the segment starts,
    announce instant inside the segment; and every such splice time is announced *)
Lemma carried_spec ts n s e offs sigma :
  seg_dom ts s e -> splice_offsets n = Some offs ->
  (carried ts n (s, e) = Some sigma <->
   exists off, In off offs /\ sigma = sched_time ts (s / (60 * ts)) off /\
               s < announce_of ts sigma <= e).
Proof.
  intros Hd Hoffs. unfold carried; cbn [fst snd].
  rewrite (createEmsgAhead_eq _ _ _ _ _ Hd Hoffs).
  split.
  - destruct (find _ offs) as [off|] eqn:Ef; [|discriminate].
    rewrite e_pt_emsg_of. intros H; apply Some_inj in H; subst sigma.
    apply find_some in Ef. destruct Ef as [Hin Hseg].
    exists off. split; [assumption|]. split; [reflexivity|].
    unfold in_seg in Hseg; cbn [fst snd] in Hseg. lia.
  - intros (off & Hin & -> & Ha).
    rewrite (find_unique _ offs off); [reflexivity|assumption| |].
    + unfold in_seg; cbn [fst snd]. lia.
    + intros y Hy Hfy. eapply one_offset_per_segment; eauto.
      unfold in_seg; cbn [fst snd]. lia.
Qed.

Lemma carried_emsg ts n s e offs sigma :
  seg_dom ts s e -> splice_offsets n = Some offs ->
  carried ts n (s, e) = Some sigma ->
  createEmsgAhead s e ts n = Ok (Some (emsg_of ts n sigma)).
Proof.
  intros Hd Hoffs. unfold carried; cbn [fst snd].
  rewrite (createEmsgAhead_eq _ _ _ _ _ Hd Hoffs).
  destruct (find _ offs); [|discriminate]. rewrite e_pt_emsg_of. intros H; apply Some_inj in H; subst sigma. reflexivity.
Qed.

(** a valid segment never makes CreateEmsgAhead fail *)
Lemma createEmsgAhead_ok ts n s e offs :
  seg_dom ts s e -> splice_offsets n = Some offs ->
  exists r, createEmsgAhead s e ts n = Ok r.
Proof.
  intros Hd Hoffs. rewrite (createEmsgAhead_eq _ _ _ _ _ Hd Hoffs).
  destruct (find _ offs); eauto.
Qed.

(** the test for one given scheduled splice time: announce instant inside the segment and the
    segment starts in the minute of the splice (not before it) *)
Lemma carries_iff ts n s e offs m off :
  seg_dom ts s e -> splice_offsets n = Some offs -> In off offs -> 0 <= m ->
  let sigma := sched_time ts m off in
  carries ts n sigma (s, e) = in_seg (announce_of ts sigma) (s, e) && (60 * ts * m <=? s).
Proof.
  intros Hd Hoffs Hin Hm sigma.
  pose proof Hd as (Hts & Hs & Hse & Hlen & Hmax).
  destruct (minute_facts ts s Hts Hs) as (HM & _ & Hms).
  pose proof (offsets_range _ _ _ Hoffs Hin) as Ho.
  unfold carries.
  destruct (carried ts n (s, e)) as [x|] eqn:Ec.
  - apply (carried_spec _ _ _ _ _ _ Hd Hoffs) in Ec. destruct Ec as (off' & Hin' & -> & Ha).
    pose proof (offsets_range _ _ _ Hoffs Hin') as Ho'.
    set (M := s / (60 * ts)) in *.
    destruct (sched_time ts M off' =? sigma) eqn:E.
    + (* same splice time: same minute *)
      assert (sched_time ts M off' = sigma) as Es by lia. subst sigma. unfold sched_time in Es.
      assert (M = m) by nia. subst m.
      assert (off' = off) by nia. subst off'.
      unfold in_seg; cbn [fst snd]. fold (sched_time ts M off) in *. lia.
    + symmetry. apply andb_false_iff.
      destruct (in_seg (announce_of ts sigma) (s, e)) eqn:Eseg; [right|now left].
      destruct (60 * ts * m <=? s) eqn:Em; [exfalso|reflexivity].
      unfold in_seg, announce_of, announce_lead in Eseg; cbn [fst snd] in Eseg. subst sigma.
      unfold sched_time in *.
      assert (s < 60 * ts * m + 60 * ts) by nia.
      assert (M = m) by (apply minute_unique; lia). subst m.
      assert (off = off').
      { eapply (one_offset_per_segment ts n s e offs M); eauto.
        all: unfold in_seg, announce_of, announce_lead, sched_time; cbn [fst snd].
        all: unfold announce_of, announce_lead, sched_time in Ha; lia. }
      subst off'. lia.
  - symmetry. apply andb_false_iff.
    destruct (in_seg (announce_of ts sigma) (s, e)) eqn:Eseg; [right|now left].
    destruct (60 * ts * m <=? s) eqn:Em; [exfalso|reflexivity].
    unfold in_seg, announce_of, announce_lead in Eseg; cbn [fst snd] in Eseg. subst sigma.
    unfold sched_time in *.
    assert (s < 60 * ts * m + 60 * ts) by nia.
    assert (s / (60 * ts) = m) as EM by (apply minute_unique; lia).
    assert (carried ts n (s, e) = Some (sched_time ts m off)); [|congruence].
    apply (carried_spec _ _ _ _ _ _ Hd Hoffs). exists off. rewrite EM.
    unfold announce_of, announce_lead, sched_time. repeat split; try assumption; lia.
Qed.

(** ** Contiguous segment sequences *)

Lemma seq_end_cons s e rest : seq_end ((s, e) :: rest) = match rest with [] => e | _ => seq_end rest end.
Proof. unfold seq_end. destruct rest; reflexivity. Qed.

Lemma contiguous_in L segs : contiguous L segs -> forall seg, In seg segs ->
  seq_start segs <= fst seg /\ 0 < snd seg - fst seg <= L /\ snd seg <= seq_end segs.
Proof.
  induction segs as [|[s e] rest IH]; intros Hc seg Hin; [destruct Hin|].
  cbn [contiguous] in Hc. destruct Hc as (Hlen & Hnext & Hrest).
  rewrite seq_end_cons. cbn [seq_start].
  destruct Hin as [<-|Hin]; cbn [fst snd].
  - split; [lia|]. split; [lia|].
    destruct rest as [|[s' e'] r]; [lia|]. subst s'.
    specialize (IH Hrest (e, e') (or_introl eq_refl)). cbn [fst snd seq_start] in IH. lia.
  - destruct rest as [|[s' e'] r]; [destruct Hin|]. subst s'.
    specialize (IH Hrest seg Hin). cbn [seq_start] in IH. lia.
Qed.

(** an instant at or before the start of the sequence is in none of its segments *)
Lemma in_seg_before L segs a : contiguous L segs -> (segs = [] \/ a <= seq_start segs) ->
  forall seg, In seg segs -> in_seg a seg = false.
Proof.
  intros Hc Ha seg Hin. destruct Ha as [->|Ha]; [destruct Hin|].
  pose proof (contiguous_in _ _ Hc seg Hin). unfold in_seg. lia.
Qed.

Lemma filter_none {A} (f : A -> bool) l : (forall x, In x l -> f x = false) -> filter f l = [].
Proof.
  induction l as [|x l IH]; intros H; cbn [filter]; [reflexivity|].
  rewrite (H x (or_introl eq_refl)). apply IH. intros; apply H; now right.
Qed.

Lemma find_none_all {A} (f : A -> bool) l : (forall x, In x l -> f x = false) -> find f l = None.
Proof.
  induction l as [|x l IH]; intros H; cbn [find]; [reflexivity|].
  rewrite (H x (or_introl eq_refl)). apply IH. intros; apply H; now right.
Qed.

(** in a contiguous sequence the segments containing an instant are: the holder, alone *)
Lemma filter_in_seg L segs a : contiguous L segs ->
  filter (in_seg a) segs = match holder a segs with Some h => [h] | None => [] end.
Proof.
  unfold holder.
  induction segs as [|[s e] rest IH]; intros Hc; [reflexivity|].
  cbn [filter find].
  pose proof Hc as Hc'. cbn [contiguous] in Hc'. destruct Hc' as (Hlen & Hnext & Hrest).
  destruct (in_seg a (s, e)) eqn:E.
  - f_equal. apply filter_none. apply (in_seg_before L _ a Hrest).
    destruct rest as [|[s' e'] r]; [now left|right]. subst s'. cbn [seq_start].
    unfold in_seg in E; cbn [fst snd] in E. lia.
  - apply IH. exact Hrest.
Qed.

Lemma holder_exists L segs a : contiguous L segs -> segs <> [] ->
  seq_start segs < a <= seq_end segs ->
  exists h, holder a segs = Some h /\ In h segs /\ fst h < a <= snd h.
Proof.
  unfold holder.
  induction segs as [|[s e] rest IH]; intros Hc Hne Ha; [congruence|].
  cbn [contiguous] in Hc. destruct Hc as (Hlen & Hnext & Hrest).
  rewrite seq_end_cons in Ha. cbn [seq_start] in Ha. cbn [find].
  destruct (in_seg a (s, e)) eqn:E.
  - exists (s, e). split; [reflexivity|]. split; [now left|].
    unfold in_seg in E; cbn [fst snd] in *. lia.
  - destruct rest as [|[s' e'] r].
    + unfold in_seg in E; cbn [fst snd] in E. lia.
    + subst s'. destruct (IH Hrest ltac:(congruence)) as (h & Hf & Hin & Hh).
      * cbn [seq_start]. unfold in_seg in E; cbn [fst snd] in E. lia.
      * exists h. split; [exact Hf|]. split; [now right|exact Hh].
Qed.

Lemma filter_ext_in' {A} (f g : A -> bool) l : (forall x, In x l -> f x = g x) -> filter f l = filter g l.
Proof.
  induction l as [|x l IH]; intros H; cbn [filter]; [reflexivity|].
  rewrite (H x (or_introl eq_refl)), IH; [reflexivity|]. intros; apply H; now right.
Qed.

Lemma filter_andb {A} (f g : A -> bool) l : filter (fun x => f x && g x) l = filter g (filter f l).
Proof.
  induction l as [|x l IH]; cbn [filter]; [reflexivity|].
  destruct (f x); cbn [andb filter]; [destruct (g x)|]; now rewrite IH.
Qed.

(** the domain of a whole sequence *)
Definition seq_dom (ts : Z) (segs : list (Z * Z)) : Prop :=
  0 < ts /\ contiguous (10 * ts) segs /\ segs <> [] /\ 0 <= seq_start segs /\ seq_end segs + 60 * ts < two64.

Lemma seq_dom_seg ts segs seg : seq_dom ts segs -> In seg segs -> seg_dom ts (fst seg) (snd seg).
Proof.
  intros (Hts & Hc & _ & H0 & Hmax) Hin.
  pose proof (contiguous_in _ _ Hc seg Hin). unfold seg_dom. lia.
Qed.

(** ** The sequence theorem: how often a scheduled splice is announced *)
Theorem announcements_count ts n segs offs m off :
  seq_dom ts segs -> splice_offsets n = Some offs -> In off offs -> 0 <= m ->
  let sigma := sched_time ts m off in
  let a := announce_of ts sigma in
  seq_start segs < a <= seq_end segs ->
  exists h, holder a segs = Some h /\ In h segs /\ fst h < a <= snd h /\
    announcements ts n sigma segs = (if 60 * ts * m <=? fst h then 1 else 0) /\
    (forall seg, In seg segs -> carries ts n sigma seg = true -> seg = h) /\
    carries ts n sigma h = (60 * ts * m <=? fst h).
Proof.
  intros Hd Hoffs Hin Hm sigma a Ha.
  pose proof Hd as (Hts & Hc & Hne & H0 & Hmax).
  destruct (holder_exists _ _ a Hc Hne Ha) as (h & Hh & Hinh & Hah).
  exists h. split; [exact Hh|]. split; [exact Hinh|]. split; [exact Hah|].
  assert (Hpt : forall seg, In seg segs ->
            carries ts n sigma seg = in_seg a seg && (60 * ts * m <=? fst seg)).
  { intros [s e] Hseg. apply (carries_iff ts n s e offs m off); try assumption.
    apply (seq_dom_seg ts segs (s, e) Hd Hseg). }
  split; [|split].
  - unfold announcements. rewrite (filter_ext_in' _ _ _ Hpt), filter_andb, (filter_in_seg _ _ a Hc), Hh.
    cbn [filter]. destruct (60 * ts * m <=? fst h); reflexivity.
  - intros seg Hseg Hcar. rewrite (Hpt seg Hseg) in Hcar. apply andb_true_iff in Hcar. destruct Hcar as [Hs _].
    assert (In seg (filter (in_seg a) segs)) as Hf by (apply filter_In; split; assumption).
    rewrite (filter_in_seg _ _ a Hc), Hh in Hf. destruct Hf as [<-|[]]. reflexivity.
  - rewrite (Hpt h Hinh). unfold in_seg.
    destruct (fst h <? a) eqn:E1; [|lia]. destruct (a <=? snd h) eqn:E2; [|lia]. reflexivity.
Qed.

(** offsets other than the first of the minute: the holder always starts in the minute of the
    splice, because it is at most 10 s long and the announce instant is at least 29 s into the minute *)
Lemma later_offsets_in_minute ts m off s e :
  0 < ts -> 0 <= m -> 17 <= off -> e - s <= 10 * ts ->
  s < announce_of ts (sched_time ts m off) <= e -> 60 * ts * m <= s.
Proof. unfold announce_of, announce_lead, sched_time. intros. nia. Qed.

(** ** Per wall-clock minute: exactly N events *)

Fixpoint sumZ (l : list Z) : Z := match l with [] => 0 | x :: t => x + sumZ t end.

Lemma sumZ_map_add {A} (f g : A -> Z) l : sumZ (map (fun x => f x + g x) l) = sumZ (map f l) + sumZ (map g l).
Proof. induction l as [|x l IH]; cbn [map sumZ]; lia. Qed.

Lemma sched_eqb ts M m x y : 0 < ts -> 10 <= x <= 46 -> 10 <= y <= 46 ->
  (sched_time ts M x =? sched_time ts m y) = (M =? m) && (x =? y).
Proof.
  intros. unfold sched_time.
  destruct (M =? m) eqn:E1; destruct (x =? y) eqn:E2; cbn [andb]; nia.
Qed.

Lemma sched_minute ts M x : 0 < ts -> 10 <= x <= 46 -> sched_time ts M x / (60 * ts) = M.
Proof. intros. apply minute_unique; unfold sched_time; nia. Qed.

Definition b1 (b : bool) : Z := if b then 1 else 0.

Lemma announcements_cons ts n sigma seg rest :
  announcements ts n sigma (seg :: rest) = b1 (carries ts n sigma seg) + announcements ts n sigma rest.
Proof.
  unfold announcements. cbn [filter]. destruct (carries ts n sigma seg); cbn [b1]; [rewrite lenZ_cons|]; lia.
Qed.

Lemma seg_minute_count ts n s e offs m :
  seg_dom ts s e -> splice_offsets n = Some offs -> 0 <= m ->
  lenZ (filter (fun sigma => sigma / (60 * ts) =? m)
               (match carried ts n (s, e) with Some x => [x] | None => [] end))
  = sumZ (map (fun off => b1 (carries ts n (sched_time ts m off) (s, e))) offs).
Proof.
  intros Hd Hoffs Hm. pose proof Hd as (Hts & _).
  unfold carries.
  destruct (carried ts n (s, e)) as [x|] eqn:Ec.
  - apply (carried_spec _ _ _ _ _ _ Hd Hoffs) in Ec. destruct Ec as (off' & Hin' & -> & _).
    pose proof (offsets_range _ _ _ Hoffs Hin') as Ho'.
    set (M := s / (60 * ts)) in *.
    cbn [filter]. rewrite (sched_minute ts M off' Hts Ho').
    assert (Hmap : map (fun off => b1 (sched_time ts M off' =? sched_time ts m off)) offs
                 = map (fun off => b1 ((M =? m) && (off' =? off))) offs).
    { apply map_ext_in. intros off Hin. rewrite sched_eqb; try assumption; [reflexivity|].
      apply (offsets_range _ _ _ Hoffs Hin). }
    rewrite Hmap. clear Hmap.
    unfold splice_offsets in Hoffs.
    destruct (n =? 1).
    { inversion Hoffs; subst offs. destruct Hin' as [<-|[]]. cbn [map sumZ].
      destruct (M =? m); reflexivity. }
    destruct (n =? 2).
    { inversion Hoffs; subst offs. destruct Hin' as [<-|[<-|[]]]; cbn [map sumZ];
        destruct (M =? m); reflexivity. }
    destruct (n =? 3); [|discriminate].
    inversion Hoffs; subst offs. destruct Hin' as [<-|[<-|[<-|[]]]]; cbn [map sumZ];
      destruct (M =? m); reflexivity.
  - cbn [filter]. rewrite lenZ_nil. clear. cbn [b1]. induction offs as [|o offs IH']; cbn [map sumZ]; lia.
Qed.

Lemma events_in_minute_sum ts n segs offs m :
  0 < ts -> (forall seg, In seg segs -> seg_dom ts (fst seg) (snd seg)) ->
  splice_offsets n = Some offs -> 0 <= m ->
  lenZ (events_in_minute ts n m segs)
  = sumZ (map (fun off => announcements ts n (sched_time ts m off) segs) offs).
Proof.
  intros Hts Hd Hoffs Hm. unfold events_in_minute, events.
  induction segs as [|[s e] rest IH].
  - cbn [flat_map filter]. rewrite lenZ_nil. unfold announcements. cbn [filter].
    clear. change (lenZ (@nil (Z * Z))) with 0. induction offs; cbn [map sumZ]; lia.
  - cbn [flat_map]. rewrite filter_app, lenZ_app.
    rewrite IH by (intros; apply Hd; now right).
    rewrite (seg_minute_count ts n s e offs m (Hd (s, e) (or_introl eq_refl)) Hoffs Hm).
    rewrite <- sumZ_map_add. f_equal. apply map_ext. intros off.
    rewrite announcements_cons. reflexivity.
Qed.

Lemma lenZ_offsets n offs : splice_offsets n = Some offs -> lenZ offs = n.
Proof.
  unfold splice_offsets.
  destruct (n =? 1) eqn:E1; [intros [= <-]; cbn; lia|].
  destruct (n =? 2) eqn:E2; [intros [= <-]; cbn; lia|].
  destruct (n =? 3) eqn:E3; [intros [= <-]; cbn; lia|discriminate].
Qed.

Lemma sumZ_all_one {A} (f : A -> Z) l : (forall x, In x l -> f x = 1) -> sumZ (map f l) = lenZ l.
Proof.
  induction l as [|x l IH]; intros H; cbn [map sumZ]; [reflexivity|].
  rewrite lenZ_cons, (H x (or_introl eq_refl)), IH; [lia|]. intros; apply H; now right.
Qed.

(** a sequence that covers the announce instants of minute m (3 s … 39 s after the minute), and in
    which the segment containing the first one starts in minute m, carries exactly N events with a
    splice time in minute m: one per documented offset *)
Theorem minute_has_n_events ts n segs offs m :
  seq_dom ts segs -> splice_offsets n = Some offs -> 0 <= m ->
  seq_start segs < (60 * m + 3) * ts -> (60 * m + 39) * ts <= seq_end segs ->
  (forall h, holder ((60 * m + 3) * ts) segs = Some h -> 60 * ts * m <= fst h) ->
  lenZ (events_in_minute ts n m segs) = n /\
  forall off, In off offs -> announcements ts n (sched_time ts m off) segs = 1.
Proof.
  intros Hd Hoffs Hm Hlo Hhi Hfirst.
  pose proof Hd as (Hts & Hc & Hne & H0 & Hmax).
  assert (Hone : forall off, In off offs -> announcements ts n (sched_time ts m off) segs = 1).
  { intros off Hin. pose proof (offsets_range _ _ _ Hoffs Hin) as Ho.
    destruct (announcements_count ts n segs offs m off Hd Hoffs Hin Hm) as (h & Hh & Hinh & Hah & Hcnt & _).
    { unfold announce_of, announce_lead, sched_time. nia. }
    rewrite Hcnt.
    assert (60 * ts * m <= fst h); [|destruct (60 * ts * m <=? fst h) eqn:E; lia].
    destruct (Z.eq_dec off 10) as [->|Hne10].
    - apply Hfirst. rewrite <- Hh. f_equal. unfold announce_of, announce_lead, sched_time. ring.
    - pose proof (contiguous_in _ _ Hc h Hinh).
      apply (later_offsets_in_minute ts m off (fst h) (snd h)); try lia.
      unfold splice_offsets in Hoffs.
      destruct (n =? 1); [inversion Hoffs; subst; cbn in Hin; lia|].
      destruct (n =? 2); [inversion Hoffs; subst; cbn in Hin; lia|].
      destruct (n =? 3); [inversion Hoffs; subst; cbn in Hin; lia|discriminate]. }
  split; [|exact Hone].
  rewrite (events_in_minute_sum ts n segs offs m Hts (fun seg => seq_dom_seg ts segs seg Hd) Hoffs Hm).
  rewrite (sumZ_all_one _ _ Hone). apply lenZ_offsets; assumption.
Qed.

(** ** The event lost at a minute boundary (finding): 8 s segments at 90 kHz, one event per minute *)
Definition segs8 : list (Z * Z) := map (fun k => (720000 * k, 720000 * (k + 1))) (seqZ 0 10).

Theorem minute_boundary_witness :
  let ts := 90000 in
  let sigma := sched_time ts 1 10 in            (* the splice at 70 s *)
  let a := announce_of ts sigma in              (* announced at 63 s *)
  seq_dom ts segs8 /\ splice_offsets 1 = Some [10] /\
  seq_start segs8 < a <= seq_end segs8 /\
  holder a segs8 = Some (56 * ts, 64 * ts) /\   (* the segment [56 s, 64 s) contains 63 s but starts in minute 0 *)
  announcements ts 1 sigma segs8 = 0 /\         (* nobody announces the splice at 70 s *)
  events ts 1 segs8 = [10 * ts].                (* the only event of the 80 s is the splice at 10 s *)
Proof.
  cbv zeta. split.
  - unfold seq_dom. split; [lia|]. split; [|split; [discriminate|split; vm_compute; [discriminate|reflexivity]]].
    vm_compute. repeat split; intros; discriminate.
  - repeat split; vm_compute; try reflexivity; discriminate.
Qed.

(** ** Other values of scte35_<n> are rejected; signalling in the MPD; other representations *)
Lemma reject_other n : n <> 1 -> n <> 2 -> n <> 3 ->
  cfg_scte_status (Some n) = 400 /\ forall s e ts, createEmsgAhead s e ts n = Err scte_err.
Proof.
  intros H1 H2 H3. unfold cfg_scte_status, isValidSCTE35Interval, createEmsgAhead, splice_offsets.
  destruct (n =? 1) eqn:E1; [lia|]. destruct (n =? 2) eqn:E2; [lia|]. destruct (n =? 3) eqn:E3; [lia|].
  split; reflexivity.
Qed.

Lemma accept_123 n : n = 1 \/ n = 2 \/ n = 3 -> cfg_scte_status (Some n) = 200 /\ cfg_scte_status None = 200.
Proof. intros [->|[->| ->]]; split; reflexivity. Qed.

Lemma inband_iff isVideo scte : inband_event_stream isVideo scte = true <-> isVideo = true /\ scte <> None.
Proof.
  unfold inband_event_stream. destruct isVideo, scte; cbn; split; intros; try discriminate; intuition congruence.
Qed.

Lemma no_event_elsewhere scte s d ts : segment_emsg false scte s d ts = Ok None /\ segment_emsg true None s d ts = Ok None.
Proof. split; [destruct scte|]; reflexivity. Qed.

Lemma segment_emsg_video n s d ts : segment_emsg true (Some n) s d ts = createEmsgAhead s (u64 (s + d)) ts n.
Proof. reflexivity. Qed.
