(** Proofs for C13 (SCTE-35 schedule): the announce-window test of CreateEmsgAhead, lifted to
    contiguous segment sequences by induction. The section layout and the CRC are in
    ScteSectionProofs.v. *)
From Verif Require Import GoSem GoSemFacts Scte.
From Coq Require Import ZifyBool.

(** ** Domain of one segment: positive timescale, non-empty, at most 10 s long, no uint64 wrap *)
Definition seg_dom (ts s e : Z) : Prop :=
  0 < ts /\ 0 <= s /\ s < e /\ e - s <= 10 * ts /\ e + 70 * ts < two64.

Lemma u64_small x : 0 <= x < two64 -> u64 x = x.
Proof. intros; unfold u64; apply Z.mod_small; assumption. Qed.

Lemma two64_pos : 0 < two64.
Proof. reflexivity. Qed.

Lemma offsets_range n offs off : splice_offsets n = Some offs -> In off offs -> 10 <= off <= 46.
Proof.
  unfold splice_offsets; intros H Hin.
  destruct (n =? 1); [inversion H; subst; cbn in Hin; lia|].
  destruct (n =? 2); [inversion H; subst; cbn in Hin; lia|].
  destruct (n =? 3); [inversion H; subst; cbn in Hin; lia|discriminate].
Qed.

Lemma find_map_ext {A B} (f : B -> bool) (g : A -> B) (h : A -> bool) l :
  (forall x, In x l -> f (g x) = h x) -> find f (map g l) = option_map g (find h l).
Proof.
  induction l as [|x l IH]; intros H; cbn [map find option_map]; [reflexivity|].
  rewrite (H x (or_introl eq_refl)). destruct (h x); [reflexivity|].
  apply IH; intros; apply H; now right.
Qed.

(** minute arithmetic with a variable divisor, stated once *)
Lemma minute_facts ts s : 0 < ts -> 0 <= s ->
  let M := s / (60 * ts) in
  0 <= M /\ s mod (60 * ts) = s - 60 * ts * M /\ 60 * ts * M <= s < 60 * ts * M + 60 * ts.
Proof.
  intros Hts Hs M.
  assert (H60 : 0 < 60 * ts) by lia.
  pose proof (Z.div_mod s (60 * ts) ltac:(lia)) as Hdm.
  pose proof (Z.mod_pos_bound s (60 * ts) H60) as Hb.
  pose proof (Z.div_pos s (60 * ts) Hs H60).
  subst M. repeat split; lia.
Qed.

Lemma minute_unique ts s m : 0 < ts -> 60 * ts * m <= s < 60 * ts * m + 60 * ts -> s / (60 * ts) = m.
Proof.
  intros Hts H. symmetry. apply (Z.div_unique_pos s (60 * ts) m (s - 60 * ts * m)); lia.
Qed.

Lemma e_pt_emsg_of ts n sigma : e_pt (emsg_of ts n sigma) = sigma.
Proof. reflexivity. Qed.

Lemma Some_inj {A} (a b : A) : Some a = Some b -> a = b.
Proof. congruence. Qed.

(** the candidates CreateEmsgAhead tries, as offsets from the start of the segment's minute: the
    documented offsets, then the first splice (10 s) of the next minute *)
Definition candidates (offs : list Z) : list Z := offs ++ [next_minute_first].

Lemma candidates_range n offs c : splice_offsets n = Some offs -> In c (candidates offs) -> 10 <= c <= 70.
Proof.
  unfold candidates. intros H Hin. apply in_app_or in Hin. destruct Hin as [Hin|Hin].
  - pose proof (offsets_range _ _ _ H Hin). lia.
  - cbn in Hin. unfold next_minute_first in Hin. lia.
Qed.

Lemma ten_in_offsets n offs : splice_offsets n = Some offs -> In 10 offs.
Proof.
  unfold splice_offsets; intros H.
  destruct (n =? 1); [inversion H; subst; now left|].
  destruct (n =? 2); [inversion H; subst; now left|].
  destruct (n =? 3); [inversion H; subst; now left|discriminate].
Qed.

(** any two candidates are at least 10 s apart *)
Lemma candidates_spaced n offs c1 c2 : splice_offsets n = Some offs ->
  In c1 (candidates offs) -> In c2 (candidates offs) -> c1 = c2 \/ c1 + 10 <= c2 \/ c2 + 10 <= c1.
Proof.
  unfold splice_offsets, candidates, next_minute_first; intros H.
  destruct (n =? 1); [inversion H; subst; cbn; lia|].
  destruct (n =? 2); [inversion H; subst; cbn; lia|].
  destruct (n =? 3); [inversion H; subst; cbn; lia|discriminate].
Qed.

(** CreateEmsgAhead on a segment of the domain: the first candidate of the minute of [s] whose
    announce instant lies in (s, e] *)
Lemma createEmsgAhead_eq ts n s e offs :
  seg_dom ts s e -> splice_offsets n = Some offs ->
  createEmsgAhead s e ts n =
  match find (fun c => in_seg (announce_of ts (sched_time ts (s / (60 * ts)) c)) (s, e)) (candidates offs) with
  | None => Ok None
  | Some c => Ok (Some (emsg_of ts n (sched_time ts (s / (60 * ts)) c)))
  end.
Proof.
  intros (Hts & Hs & Hse & Hlen & Hmax) Hoffs.
  unfold createEmsgAhead. rewrite Hoffs. change minute_s with 60. fold (candidates offs).
  pose proof two64_pos.
  rewrite (u64_small (60 * ts)) by lia.
  destruct (60 * ts =? 0) eqn:E0; [lia|].
  destruct (minute_facts ts s Hts Hs) as (HM & Hmod & Hms).
  set (M := s / (60 * ts)) in *.
  rewrite Hmod.
  assert (Hsit : forall c, 10 <= c <= 70 ->
            u64 (s - (s - 60 * ts * M) + u64 (c * ts)) = sched_time ts M c).
  { intros c Ho. unfold sched_time.
    rewrite (u64_small (c * ts)) by nia.
    rewrite u64_small by nia. ring. }
  rewrite (find_map_ext _ _ (fun c => in_seg (announce_of ts (sched_time ts M c)) (s, e))).
  - destruct (find _ (candidates offs)) as [c|] eqn:Ef; cbn [option_map]; [|reflexivity].
    apply find_some in Ef. destruct Ef as [Hin _].
    pose proof (candidates_range _ _ _ Hoffs Hin) as Ho.
    rewrite (Hsit c Ho). reflexivity.
  - intros c Hin. pose proof (candidates_range _ _ _ Hoffs Hin) as Ho.
    rewrite (Hsit c Ho). unfold in_seg, announce_of, announce_lead, sched_time. cbn [fst snd].
    rewrite (u64_small (7 * ts)) by lia.
    rewrite u64_small by nia. reflexivity.
Qed.

(** ** One segment: what it carries *)

(** within 10 s at most one announce instant: the instants of consecutive candidates are at least
    10 s apart, and the interval (s, e] is half open *)
Lemma one_candidate_per_segment ts n s e offs M c1 c2 :
  seg_dom ts s e -> splice_offsets n = Some offs -> In c1 (candidates offs) -> In c2 (candidates offs) ->
  in_seg (announce_of ts (sched_time ts M c1)) (s, e) = true ->
  in_seg (announce_of ts (sched_time ts M c2)) (s, e) = true -> c1 = c2.
Proof.
  intros (Hts & Hs & Hse & Hlen & Hmax) Hoffs H1 H2.
  unfold in_seg, announce_of, announce_lead, sched_time; cbn [fst snd]. intros A B.
  destruct (candidates_spaced n offs c1 c2 Hoffs H1 H2) as [E|[E|E]]; [exact E| |]; exfalso; nia.
Qed.

Lemma find_unique {A} (f : A -> bool) l x :
  In x l -> f x = true -> (forall y, In y l -> f y = true -> y = x) -> find f l = Some x.
Proof.
  intros Hin Hx Hu. destruct (find f l) as [y|] eqn:E.
  - apply find_some in E. destruct E. f_equal. now apply Hu.
  - exfalso. pose proof (find_none _ _ E x Hin). congruence.
Qed.

(** the splice time announced in a segment: a scheduled splice (documented offset of some minute)
    whose announce instant lies inside the segment; and every such splice time is announced *)
Lemma carried_spec ts n s e offs sigma :
  seg_dom ts s e -> splice_offsets n = Some offs ->
  (carried ts n (s, e) = Some sigma <->
   exists m off, 0 <= m /\ In off offs /\ sigma = sched_time ts m off /\
                 s < announce_of ts sigma <= e).
Proof.
  intros Hd Hoffs. pose proof Hd as (Hts & Hs & Hse & Hlen & Hmax).
  destruct (minute_facts ts s Hts Hs) as (HM & _ & Hms).
  unfold carried; cbn [fst snd].
  rewrite (createEmsgAhead_eq _ _ _ _ _ Hd Hoffs).
  set (M := s / (60 * ts)) in *.
  split.
  - destruct (find _ (candidates offs)) as [c|] eqn:Ef; [|discriminate].
    rewrite e_pt_emsg_of. intros H; apply Some_inj in H; subst sigma.
    apply find_some in Ef. destruct Ef as [Hin Hseg].
    unfold in_seg in Hseg; cbn [fst snd] in Hseg.
    unfold candidates in Hin. apply in_app_or in Hin. destruct Hin as [Hin|Hin].
    + exists M, c. repeat split; try assumption; lia.
    + cbn in Hin. unfold next_minute_first in Hin. assert (c = 70) by lia. subst c.
      exists (M + 1), 10. split; [lia|]. split; [apply (ten_in_offsets _ _ Hoffs)|].
      assert (E : sched_time ts M 70 = sched_time ts (M + 1) 10) by (unfold sched_time; ring).
      rewrite <- E. repeat split; lia.
  - intros (m & off & Hm & Hin & -> & Ha).
    pose proof (offsets_range _ _ _ Hoffs Hin) as Ho.
    unfold announce_of, announce_lead, sched_time in Ha.
    (* the splice is in the minute of s, or it is the first of the next minute *)
    assert (Hcase : m = M \/ (m = M + 1 /\ off = 10)).
    { assert (H1 : (60 * M) * ts < (60 * m + off - 7) * ts) by lia.
      assert (H2 : (60 * m + off - 7) * ts < (60 * M + 70) * ts) by lia.
      apply Zmult_lt_reg_r in H1; [|lia]. apply Zmult_lt_reg_r in H2; [|lia].
      assert (off = 10 \/ 17 <= off).
      { unfold splice_offsets in Hoffs.
        destruct (n =? 1); [inversion Hoffs; subst; cbn in Hin; lia|].
        destruct (n =? 2); [inversion Hoffs; subst; cbn in Hin; lia|].
        destruct (n =? 3); [inversion Hoffs; subst; cbn in Hin; lia|discriminate]. }
      lia. }
    assert (Hc : exists c, In c (candidates offs) /\ sched_time ts m off = sched_time ts M c).
    { destruct Hcase as [->|[-> ->]].
      - exists off. split; [unfold candidates; apply in_or_app; now left|reflexivity].
      - exists 70. split; [unfold candidates, next_minute_first; apply in_or_app; right; now left|].
        unfold sched_time; ring. }
    destruct Hc as (c & Hcin & Hceq).
    rewrite (find_unique _ (candidates offs) c).
    + rewrite e_pt_emsg_of, Hceq. reflexivity.
    + exact Hcin.
    + rewrite <- Hceq. unfold in_seg, announce_of, announce_lead, sched_time; cbn [fst snd]. lia.
    + intros y Hy Hfy. eapply one_candidate_per_segment; eauto.
      rewrite <- Hceq. unfold in_seg, announce_of, announce_lead, sched_time; cbn [fst snd]. lia.
Qed.

Lemma carried_emsg ts n s e offs sigma :
  seg_dom ts s e -> splice_offsets n = Some offs ->
  carried ts n (s, e) = Some sigma ->
  createEmsgAhead s e ts n = Ok (Some (emsg_of ts n sigma)).
Proof.
  intros Hd Hoffs. unfold carried; cbn [fst snd].
  rewrite (createEmsgAhead_eq _ _ _ _ _ Hd Hoffs).
  destruct (find _ (candidates offs)); [|discriminate]. rewrite e_pt_emsg_of. intros H; apply Some_inj in H; subst sigma. reflexivity.
Qed.

(** a valid segment never makes CreateEmsgAhead fail *)
Lemma createEmsgAhead_ok ts n s e offs :
  seg_dom ts s e -> splice_offsets n = Some offs ->
  exists r, createEmsgAhead s e ts n = Ok r.
Proof.
  intros Hd Hoffs. rewrite (createEmsgAhead_eq _ _ _ _ _ Hd Hoffs).
  destruct (find _ (candidates offs)); eauto.
Qed.

(** two different scheduled splices are at least 10 s apart (any minutes) *)
Lemma sched_spaced ts n offs m1 o1 m2 o2 :
  0 < ts -> splice_offsets n = Some offs -> In o1 offs -> In o2 offs ->
  sched_time ts m1 o1 = sched_time ts m2 o2 \/
  sched_time ts m1 o1 + 10 * ts <= sched_time ts m2 o2 \/
  sched_time ts m2 o2 + 10 * ts <= sched_time ts m1 o1.
Proof.
  intros Hts Hoffs H1 H2. unfold sched_time.
  assert (K : 60 * m1 + o1 = 60 * m2 + o2 \/ 60 * m1 + o1 + 10 <= 60 * m2 + o2 \/ 60 * m2 + o2 + 10 <= 60 * m1 + o1).
  { unfold splice_offsets in Hoffs.
    destruct (n =? 1); [inversion Hoffs; subst; cbn in H1, H2; lia|].
    destruct (n =? 2); [inversion Hoffs; subst; cbn in H1, H2; lia|].
    destruct (n =? 3); [inversion Hoffs; subst; cbn in H1, H2; lia|discriminate]. }
  destruct K as [K|[K|K]]; [left; rewrite K; reflexivity|right; left; nia|right; right; nia].
Qed.

(** the test for one given scheduled splice time: its announce instant lies inside the segment *)
Lemma carries_iff ts n s e offs m off :
  seg_dom ts s e -> splice_offsets n = Some offs -> In off offs -> 0 <= m ->
  let sigma := sched_time ts m off in
  carries ts n sigma (s, e) = in_seg (announce_of ts sigma) (s, e).
Proof.
  intros Hd Hoffs Hin Hm sigma.
  pose proof Hd as (Hts & Hs & Hse & Hlen & Hmax).
  unfold carries.
  destruct (carried ts n (s, e)) as [x|] eqn:Ec.
  - apply (carried_spec _ _ _ _ _ _ Hd Hoffs) in Ec. destruct Ec as (m' & off' & Hm' & Hin' & -> & Ha).
    destruct (sched_time ts m' off' =? sigma) eqn:E.
    + assert (sched_time ts m' off' = sigma) as Es by lia. rewrite <- Es.
      unfold in_seg; cbn [fst snd]. lia.
    + symmetry. unfold in_seg; cbn [fst snd].
      destruct (sched_spaced ts n offs m' off' m off Hts Hoffs Hin' Hin) as [K|[K|K]]; [lia| |];
        fold sigma in K; unfold announce_of, announce_lead in *; lia.
  - symmetry. destruct (in_seg (announce_of ts sigma) (s, e)) eqn:Eseg; [exfalso|reflexivity].
    assert (carried ts n (s, e) = Some sigma); [|congruence].
    apply (carried_spec _ _ _ _ _ _ Hd Hoffs). exists m, off.
    unfold in_seg in Eseg; cbn [fst snd] in Eseg. repeat split; try assumption; lia.
Qed.

(** ** Contiguous segment sequences *)

Lemma seq_end_cons s e rest : seq_end ((s, e) :: rest) = match rest with [] => e | _ => seq_end rest end.
Proof. unfold seq_end. destruct rest; reflexivity. Qed.

Lemma contiguous_in L segs : contiguous L segs -> forall seg, In seg segs ->
  seq_start segs <= fst seg /\ 0 < snd seg - fst seg <= L /\ snd seg <= seq_end segs.
Proof.
  induction segs as [|[s e] rest IH]; intros Hc seg Hin; [destruct Hin|].
  cbn [contiguous] in Hc. destruct Hc as (Hlen & Hnext & Hrest).
  rewrite seq_end_cons. cbn [seq_start].
  destruct Hin as [<-|Hin]; cbn [fst snd].
  - split; [lia|]. split; [lia|].
    destruct rest as [|[s' e'] r]; [lia|]. subst s'.
    specialize (IH Hrest (e, e') (or_introl eq_refl)). cbn [fst snd seq_start] in IH. lia.
  - destruct rest as [|[s' e'] r]; [destruct Hin|]. subst s'.
    specialize (IH Hrest seg Hin). cbn [seq_start] in IH. lia.
Qed.

(** an instant at or before the start of the sequence is in none of its segments *)
Lemma in_seg_before L segs a : contiguous L segs -> (segs = [] \/ a <= seq_start segs) ->
  forall seg, In seg segs -> in_seg a seg = false.
Proof.
  intros Hc Ha seg Hin. destruct Ha as [->|Ha]; [destruct Hin|].
  pose proof (contiguous_in _ _ Hc seg Hin). unfold in_seg. lia.
Qed.

Lemma filter_none {A} (f : A -> bool) l : (forall x, In x l -> f x = false) -> filter f l = [].
Proof.
  induction l as [|x l IH]; intros H; cbn [filter]; [reflexivity|].
  rewrite (H x (or_introl eq_refl)). apply IH. intros; apply H; now right.
Qed.

Lemma find_none_all {A} (f : A -> bool) l : (forall x, In x l -> f x = false) -> find f l = None.
Proof.
  induction l as [|x l IH]; intros H; cbn [find]; [reflexivity|].
  rewrite (H x (or_introl eq_refl)). apply IH. intros; apply H; now right.
Qed.

(** in a contiguous sequence the segments containing an instant are: the holder, alone *)
Lemma filter_in_seg L segs a : contiguous L segs ->
  filter (in_seg a) segs = match holder a segs with Some h => [h] | None => [] end.
Proof.
  unfold holder.
  induction segs as [|[s e] rest IH]; intros Hc; [reflexivity|].
  cbn [filter find].
  pose proof Hc as Hc'. cbn [contiguous] in Hc'. destruct Hc' as (Hlen & Hnext & Hrest).
  destruct (in_seg a (s, e)) eqn:E.
  - f_equal. apply filter_none. apply (in_seg_before L _ a Hrest).
    destruct rest as [|[s' e'] r]; [now left|right]. subst s'. cbn [seq_start].
    unfold in_seg in E; cbn [fst snd] in E. lia.
  - apply IH. exact Hrest.
Qed.

Lemma holder_exists L segs a : contiguous L segs -> segs <> [] ->
  seq_start segs < a <= seq_end segs ->
  exists h, holder a segs = Some h /\ In h segs /\ fst h < a <= snd h.
Proof.
  unfold holder.
  induction segs as [|[s e] rest IH]; intros Hc Hne Ha; [congruence|].
  cbn [contiguous] in Hc. destruct Hc as (Hlen & Hnext & Hrest).
  rewrite seq_end_cons in Ha. cbn [seq_start] in Ha. cbn [find].
  destruct (in_seg a (s, e)) eqn:E.
  - exists (s, e). split; [reflexivity|]. split; [now left|].
    unfold in_seg in E; cbn [fst snd] in *. lia.
  - destruct rest as [|[s' e'] r].
    + unfold in_seg in E; cbn [fst snd] in E. lia.
    + subst s'. destruct (IH Hrest ltac:(congruence)) as (h & Hf & Hin & Hh).
      * cbn [seq_start]. unfold in_seg in E; cbn [fst snd] in E. lia.
      * exists h. split; [exact Hf|]. split; [now right|exact Hh].
Qed.

Lemma filter_ext_in' {A} (f g : A -> bool) l : (forall x, In x l -> f x = g x) -> filter f l = filter g l.
Proof.
  induction l as [|x l IH]; intros H; cbn [filter]; [reflexivity|].
  rewrite (H x (or_introl eq_refl)), IH; [reflexivity|]. intros; apply H; now right.
Qed.

Lemma filter_andb {A} (f g : A -> bool) l : filter (fun x => f x && g x) l = filter g (filter f l).
Proof.
  induction l as [|x l IH]; cbn [filter]; [reflexivity|].
  destruct (f x); cbn [andb filter]; [destruct (g x)|]; now rewrite IH.
Qed.

(** the domain of a whole sequence *)
Definition seq_dom (ts : Z) (segs : list (Z * Z)) : Prop :=
  0 < ts /\ contiguous (10 * ts) segs /\ segs <> [] /\ 0 <= seq_start segs /\ seq_end segs + 70 * ts < two64.

Lemma seq_dom_seg ts segs seg : seq_dom ts segs -> In seg segs -> seg_dom ts (fst seg) (snd seg).
Proof.
  intros (Hts & Hc & _ & H0 & Hmax) Hin.
  pose proof (contiguous_in _ _ Hc seg Hin). unfold seg_dom. lia.
Qed.

(** ** The sequence theorem: every scheduled splice is announced exactly once *)
Theorem announcements_count ts n segs offs m off :
  seq_dom ts segs -> splice_offsets n = Some offs -> In off offs -> 0 <= m ->
  let sigma := sched_time ts m off in
  let a := announce_of ts sigma in
  seq_start segs < a <= seq_end segs ->
  exists h, holder a segs = Some h /\ In h segs /\ fst h < a <= snd h /\
    announcements ts n sigma segs = 1 /\
    carries ts n sigma h = true /\
    (forall seg, In seg segs -> carries ts n sigma seg = true -> seg = h).
Proof.
  intros Hd Hoffs Hin Hm sigma a Ha.
  pose proof Hd as (Hts & Hc & Hne & H0 & Hmax).
  destruct (holder_exists _ _ a Hc Hne Ha) as (h & Hh & Hinh & Hah).
  exists h. split; [exact Hh|]. split; [exact Hinh|]. split; [exact Hah|].
  assert (Hpt : forall seg, In seg segs -> carries ts n sigma seg = in_seg a seg).
  { intros [s e] Hseg. apply (carries_iff ts n s e offs m off); try assumption.
    apply (seq_dom_seg ts segs (s, e) Hd Hseg). }
  split; [|split].
  - unfold announcements. rewrite (filter_ext_in' _ _ _ Hpt), (filter_in_seg _ _ a Hc), Hh. reflexivity.
  - rewrite (Hpt h Hinh). unfold in_seg.
    destruct (fst h <? a) eqn:E1; [|lia]. destruct (a <=? snd h) eqn:E2; [|lia]. reflexivity.
  - intros seg Hseg Hcar. rewrite (Hpt seg Hseg) in Hcar.
    assert (In seg (filter (in_seg a) segs)) as Hf by (apply filter_In; split; assumption).
    rewrite (filter_in_seg _ _ a Hc), Hh in Hf. destruct Hf as [<-|[]]. reflexivity.
Qed.

(** a splice whose announce instant is outside the sequence is not announced by it *)
Theorem announcements_outside ts n segs offs m off :
  seq_dom ts segs -> splice_offsets n = Some offs -> In off offs -> 0 <= m ->
  let sigma := sched_time ts m off in
  let a := announce_of ts sigma in
  (a <= seq_start segs \/ seq_end segs < a) ->
  announcements ts n sigma segs = 0.
Proof.
  intros Hd Hoffs Hin Hm sigma a Ha. subst a sigma.
  pose proof Hd as (Hts & Hc & Hne & H0 & Hmax).
  unfold announcements. rewrite filter_none; [reflexivity|].
  intros [s e] Hseg.
  rewrite (carries_iff ts n s e offs m off (seq_dom_seg ts segs (s, e) Hd Hseg) Hoffs Hin Hm).
  pose proof (contiguous_in _ _ Hc (s, e) Hseg) as Hb. cbn [fst snd] in Hb.
  unfold in_seg; cbn [fst snd]. lia.
Qed.

(** ** Per wall-clock minute: exactly N events *)

Fixpoint sumZ (l : list Z) : Z := match l with [] => 0 | x :: t => x + sumZ t end.

Lemma sumZ_map_add {A} (f g : A -> Z) l : sumZ (map (fun x => f x + g x) l) = sumZ (map f l) + sumZ (map g l).
Proof. induction l as [|x l IH]; cbn [map sumZ]; lia. Qed.

Lemma sched_eqb ts M m x y : 0 < ts -> 10 <= x <= 46 -> 10 <= y <= 46 ->
  (sched_time ts M x =? sched_time ts m y) = (M =? m) && (x =? y).
Proof.
  intros. unfold sched_time.
  destruct (M =? m) eqn:E1; destruct (x =? y) eqn:E2; cbn [andb]; nia.
Qed.

Lemma sched_minute ts M x : 0 < ts -> 10 <= x <= 46 -> sched_time ts M x / (60 * ts) = M.
Proof. intros. apply minute_unique; unfold sched_time; nia. Qed.

Definition b1 (b : bool) : Z := if b then 1 else 0.

Lemma announcements_cons ts n sigma seg rest :
  announcements ts n sigma (seg :: rest) = b1 (carries ts n sigma seg) + announcements ts n sigma rest.
Proof.
  unfold announcements. cbn [filter]. destruct (carries ts n sigma seg); cbn [b1]; [rewrite lenZ_cons|]; lia.
Qed.

Lemma seg_minute_count ts n s e offs m :
  seg_dom ts s e -> splice_offsets n = Some offs -> 0 <= m ->
  lenZ (filter (fun sigma => sigma / (60 * ts) =? m)
               (match carried ts n (s, e) with Some x => [x] | None => [] end))
  = sumZ (map (fun off => b1 (carries ts n (sched_time ts m off) (s, e))) offs).
Proof.
  intros Hd Hoffs Hm. pose proof Hd as (Hts & _).
  unfold carries.
  destruct (carried ts n (s, e)) as [x|] eqn:Ec.
  - apply (carried_spec _ _ _ _ _ _ Hd Hoffs) in Ec. destruct Ec as (M & off' & HM & Hin' & -> & _).
    pose proof (offsets_range _ _ _ Hoffs Hin') as Ho'.
    cbn [filter]. rewrite (sched_minute ts M off' Hts Ho').
    assert (Hmap : map (fun off => b1 (sched_time ts M off' =? sched_time ts m off)) offs
                 = map (fun off => b1 ((M =? m) && (off' =? off))) offs).
    { apply map_ext_in. intros off Hin. rewrite sched_eqb; try assumption; [reflexivity|].
      apply (offsets_range _ _ _ Hoffs Hin). }
    rewrite Hmap. clear Hmap.
    unfold splice_offsets in Hoffs.
    destruct (n =? 1).
    { inversion Hoffs; subst offs. destruct Hin' as [<-|[]]. cbn [map sumZ].
      destruct (M =? m); reflexivity. }
    destruct (n =? 2).
    { inversion Hoffs; subst offs. destruct Hin' as [<-|[<-|[]]]; cbn [map sumZ];
        destruct (M =? m); reflexivity. }
    destruct (n =? 3); [|discriminate].
    inversion Hoffs; subst offs. destruct Hin' as [<-|[<-|[<-|[]]]]; cbn [map sumZ];
      destruct (M =? m); reflexivity.
  - cbn [filter]. rewrite lenZ_nil. clear. cbn [b1]. induction offs as [|o offs IH']; cbn [map sumZ]; lia.
Qed.

Lemma events_in_minute_sum ts n segs offs m :
  0 < ts -> (forall seg, In seg segs -> seg_dom ts (fst seg) (snd seg)) ->
  splice_offsets n = Some offs -> 0 <= m ->
  lenZ (events_in_minute ts n m segs)
  = sumZ (map (fun off => announcements ts n (sched_time ts m off) segs) offs).
Proof.
  intros Hts Hd Hoffs Hm. unfold events_in_minute, events.
  induction segs as [|[s e] rest IH].
  - cbn [flat_map filter]. rewrite lenZ_nil. unfold announcements. cbn [filter].
    clear. change (lenZ (@nil (Z * Z))) with 0. induction offs; cbn [map sumZ]; lia.
  - cbn [flat_map]. rewrite filter_app, lenZ_app.
    rewrite IH by (intros; apply Hd; now right).
    rewrite (seg_minute_count ts n s e offs m (Hd (s, e) (or_introl eq_refl)) Hoffs Hm).
    rewrite <- sumZ_map_add. f_equal. apply map_ext. intros off.
    rewrite announcements_cons. reflexivity.
Qed.

Lemma lenZ_offsets n offs : splice_offsets n = Some offs -> lenZ offs = n.
Proof.
  unfold splice_offsets.
  destruct (n =? 1) eqn:E1; [intros [= <-]; cbn; lia|].
  destruct (n =? 2) eqn:E2; [intros [= <-]; cbn; lia|].
  destruct (n =? 3) eqn:E3; [intros [= <-]; cbn; lia|discriminate].
Qed.

Lemma sumZ_all_one {A} (f : A -> Z) l : (forall x, In x l -> f x = 1) -> sumZ (map f l) = lenZ l.
Proof.
  induction l as [|x l IH]; intros H; cbn [map sumZ]; [reflexivity|].
  rewrite lenZ_cons, (H x (or_introl eq_refl)), IH; [lia|]. intros; apply H; now right.
Qed.

(** a sequence that covers the announce instants of minute m (3 s … 39 s after the minute) carries
    exactly N events with a splice time in minute m: one per documented offset *)
Theorem minute_has_n_events ts n segs offs m :
  seq_dom ts segs -> splice_offsets n = Some offs -> 0 <= m ->
  seq_start segs < (60 * m + 3) * ts -> (60 * m + 39) * ts <= seq_end segs ->
  lenZ (events_in_minute ts n m segs) = n /\
  forall off, In off offs -> announcements ts n (sched_time ts m off) segs = 1.
Proof.
  intros Hd Hoffs Hm Hlo Hhi.
  pose proof Hd as (Hts & Hc & Hne & H0 & Hmax).
  assert (Hone : forall off, In off offs -> announcements ts n (sched_time ts m off) segs = 1).
  { intros off Hin. pose proof (offsets_range _ _ _ Hoffs Hin) as Ho.
    destruct (announcements_count ts n segs offs m off Hd Hoffs Hin Hm) as (h & _ & _ & _ & Hcnt & _).
    { unfold announce_of, announce_lead, sched_time. nia. }
    exact Hcnt. }
  split; [|exact Hone].
  rewrite (events_in_minute_sum ts n segs offs m Hts (fun seg => seq_dom_seg ts segs seg Hd) Hoffs Hm).
  rewrite (sumZ_all_one _ _ Hone). apply lenZ_offsets; assumption.
Qed.

(** every event of the sequence is a scheduled splice announced from inside the sequence *)
Theorem events_scheduled ts n segs offs sigma :
  seq_dom ts segs -> splice_offsets n = Some offs -> In sigma (events ts n segs) ->
  exists m off, 0 <= m /\ In off offs /\ sigma = sched_time ts m off /\
                seq_start segs < announce_of ts sigma <= seq_end segs.
Proof.
  intros Hd Hoffs Hin. pose proof Hd as (Hts & Hc & Hne & H0 & Hmax).
  unfold events in Hin. apply in_flat_map in Hin. destruct Hin as ([s e] & Hseg & Hx).
  destruct (carried ts n (s, e)) as [x|] eqn:Ec; [|destruct Hx].
  destruct Hx as [<-|[]].
  apply (carried_spec _ _ _ _ _ _ (seq_dom_seg ts segs (s, e) Hd Hseg) Hoffs) in Ec.
  destruct Ec as (m & off & Hm & Hoff & -> & Ha).
  pose proof (contiguous_in _ _ Hc (s, e) Hseg) as Hb. cbn [fst snd] in *.
  exists m, off. repeat split; try assumption; lia.
Qed.

(** ** The minute boundary (repaired by f8b1b37): 8 s segments at 90 kHz, one event per minute.
    The segment [56 s, 64 s) starts in minute 0, contains the announce instant 63 s, and now carries
    the event for the splice at 70 s. *)
Definition segs8 : list (Z * Z) := map (fun k => (720000 * k, 720000 * (k + 1))) (seqZ 0 10).

Theorem minute_boundary_witness :
  let ts := 90000 in
  let sigma := sched_time ts 1 10 in            (* the splice at 70 s *)
  let a := announce_of ts sigma in              (* announced at 63 s *)
  seq_dom ts segs8 /\ splice_offsets 1 = Some [10] /\
  seq_start segs8 < a <= seq_end segs8 /\
  holder a segs8 = Some (56 * ts, 64 * ts) /\
  carried ts 1 (56 * ts, 64 * ts) = Some sigma /\
  announcements ts 1 sigma segs8 = 1 /\
  events ts 1 segs8 = [10 * ts; 70 * ts].
Proof.
  cbv zeta. split.
  - unfold seq_dom. split; [lia|]. split; [|split; [discriminate|split; vm_compute; [discriminate|reflexivity]]].
    vm_compute. repeat split; intros; discriminate.
  - repeat split; vm_compute; try reflexivity; discriminate.
Qed.

(** ** Other values of scte35_<n> are rejected; signalling in the MPD; other representations *)
Lemma reject_other n : n <> 1 -> n <> 2 -> n <> 3 ->
  cfg_scte_status (Some n) = 400 /\ forall s e ts, createEmsgAhead s e ts n = Err scte_err.
Proof.
  intros H1 H2 H3. unfold cfg_scte_status, isValidSCTE35Interval, createEmsgAhead, splice_offsets.
  destruct (n =? 1) eqn:E1; [lia|]. destruct (n =? 2) eqn:E2; [lia|]. destruct (n =? 3) eqn:E3; [lia|].
  split; reflexivity.
Qed.

Lemma accept_123 n : n = 1 \/ n = 2 \/ n = 3 -> cfg_scte_status (Some n) = 200 /\ cfg_scte_status None = 200.
Proof. intros [->|[->| ->]]; split; reflexivity. Qed.

Lemma inband_iff isVideo scte : inband_event_stream isVideo scte = true <-> isVideo = true /\ scte <> None.
Proof.
  unfold inband_event_stream. destruct isVideo, scte; cbn; split; intros; try discriminate; intuition congruence.
Qed.

Lemma no_event_elsewhere scte s d ts : segment_emsg false scte s d ts = Ok None /\ segment_emsg true None s d ts = Ok None.
Proof. split; [destruct scte|]; reflexivity. Qed.

Lemma segment_emsg_video n s d ts : segment_emsg true (Some n) s d ts = createEmsgAhead s (u64 (s + d)) ts n.
Proof. reflexivity. Qed.

(** chunked low-latency delivery carries the same event as the whole segment (since b6338c6) *)
Lemma chunked_same chunked isVideo scte s d ts :
  delivered_emsg chunked isVideo scte s d ts = segment_emsg isVideo scte s d ts.
Proof. unfold delivered_emsg, chunked_drops_emsg. rewrite andb_false_r. reflexivity. Qed.

(** ** Wall clock. The media timeline starts at availabilityStartTime (start_<s>, in seconds): the
    wall-clock second of a splice scheduled at offset [off] of minute [m] of the media timeline is
    start + 60*m + off. It is [off] seconds after a full wall-clock minute iff 60 divides start. *)
Definition wall_second (start m off : Z) : Z := start + 60 * m + off.

Lemma wall_offset_iff start m off : 0 <= off < 60 ->
  (wall_second start m off mod 60 = off <-> start mod 60 = 0).
Proof.
  intros Ho. unfold wall_second.
  replace (start + 60 * m + off) with (start + off + m * 60) by ring.
  rewrite Z.mod_add by lia.
  pose proof (Z.div_mod start 60 ltac:(lia)). pose proof (Z.mod_pos_bound start 60 ltac:(lia)).
  set (r := start mod 60) in *. set (q := start / 60) in *.
  replace (start + off) with (r + off + q * 60) by lia. rewrite Z.mod_add by lia.
  split; intros Hx.
  - destruct (Z_lt_ge_dec (r + off) 60).
    + rewrite Z.mod_small in Hx by lia. lia.
    + replace (r + off) with (r + off - 60 + 1 * 60) in Hx by lia. rewrite Z.mod_add, Z.mod_small in Hx by lia. lia.
  - rewrite Hx. apply Z.mod_small. lia.
Qed.

(** FINDING (offset-on-media-timeline:start-not-multiple-of-60): start_1700000065, one event per minute:
    the splice at media time 70 s is at wall-clock second :35 of its minute, not :10 *)
Lemma wall_offset_witness :
  let start := 1700000065 in
  wall_second start 1 10 mod 60 = 35 /\ splice_offsets 1 = Some [10] /\ start mod 60 = 25.
Proof. repeat split. Qed.
