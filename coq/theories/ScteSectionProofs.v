(** Proofs for C13 (splice_info_section): gots.ComputeCRC is CRC-32/MPEG-2, the section a
    CreateSpliceInsertPayload builds checks to 0, and the field layout round-trips. *)
From Verif Require Import GoSem GoSemFacts Scte.
From Coq Require Import ZifyBool.

(** ** Part A: the CRC *)

Definition in32 (a : Z) : Prop := 0 <= a < two32.
Definition isbit (b : Z) : Prop := b = 0 \/ b = 1.

Lemma lxor_in32 a b : in32 a -> in32 b -> in32 (Z.lxor a b).
Proof.
  unfold in32, two32. intros Ha Hb.
  assert (0 <= Z.lxor a b) by (apply Z.lxor_nonneg; lia).
  split; [assumption|].
  destruct (Z.eq_dec (Z.lxor a b) 0) as [->|Hne]; [reflexivity|].
  change 4294967296 with (2 ^ 32). apply Z.log2_lt_pow2; [lia|].
  pose proof (Z.log2_lxor a b ltac:(lia) ltac:(lia)).
  assert (La : Z.log2 a < 32).
  { destruct (Z.eq_dec a 0) as [->|]; [reflexivity|]. apply Z.log2_lt_pow2; [lia|]. change (2 ^ 32) with 4294967296. lia. }
  assert (Lb : Z.log2 b < 32).
  { destruct (Z.eq_dec b 0) as [->|]; [reflexivity|]. apply Z.log2_lt_pow2; [lia|]. change (2 ^ 32) with 4294967296. lia. }
  lia.
Qed.

(** the shifted register and the conditional polynomial, separately *)
Definition shl32 (a : Z) : Z := Z.land (Z.shiftl a 1) crc_mask.
Definition sel (a : Z) : Z := if Z.testbit a 31 then crc_poly else 0.

Lemma crc_mask_ones : crc_mask = Z.ones 32.
Proof. reflexivity. Qed.

Lemma shl32_mod a : shl32 a = (2 * a) mod two32.
Proof.
  unfold shl32. rewrite crc_mask_ones, Z.land_ones by lia. rewrite Z.shiftl_mul_pow2 by lia.
  change (2 ^ 1) with 2. change (2 ^ 32) with two32. f_equal. lia.
Qed.

Lemma shl32_in32 a : in32 (shl32 a).
Proof. rewrite shl32_mod. unfold in32. apply Z.mod_pos_bound. reflexivity. Qed.

Lemma land_msb a : (Z.land a crc_msb =? 0) = negb (Z.testbit a 31).
Proof.
  change crc_msb with (2 ^ 31).
  destruct (Z.testbit a 31) eqn:T; cbn [negb].
  - apply Z.eqb_neq. intros H.
    assert (Z.testbit (Z.land a (2 ^ 31)) 31 = true).
    { rewrite Z.land_spec, T, Z.pow2_bits_eqb by lia. reflexivity. }
    rewrite H in *. rewrite Z.bits_0 in *. discriminate.
  - apply Z.eqb_eq. apply Z.bits_inj'. intros k Hk.
    rewrite Z.land_spec, Z.bits_0, Z.pow2_bits_eqb by lia.
    destruct (31 =? k) eqn:E; [|apply andb_false_r].
    assert (k = 31) by lia. subst k. rewrite T. reflexivity.
Qed.

Lemma shl32_even a : Z.testbit (shl32 a) 0 = false.
Proof. unfold shl32. rewrite Z.land_spec, Z.shiftl_spec_low by lia. reflexivity. Qed.

Lemma lxor_swap3 a b c : Z.lxor (Z.lxor a b) c = Z.lxor (Z.lxor a c) b.
Proof.
  apply Z.bits_inj'. intros k Hk. rewrite !Z.lxor_spec.
  destruct (Z.testbit a k), (Z.testbit b k), (Z.testbit c k); reflexivity.
Qed.

(** crc_step in the form: shifted register, xor the incoming bit, xor the polynomial if the top bit was set *)
Lemma crc_step_eq a b : isbit b -> crc_step a b = Z.lxor (Z.lxor (shl32 a) (sel a)) b.
Proof.
  intros Hb. unfold crc_step. fold (shl32 a). rewrite land_msb. unfold sel.
  assert (Hor : Z.lor (shl32 a) b = Z.lxor (shl32 a) b).
  { symmetry. apply Z.lxor_lor. destruct Hb as [->| ->]; [apply Z.land_0_r|].
    apply Z.bits_inj'. intros k Hk. rewrite Z.land_spec, Z.bits_0.
    destruct (Z.eq_dec k 0) as [->|Hne]; [rewrite shl32_even; reflexivity|].
    change 1 with (2 ^ 0). rewrite Z.pow2_bits_eqb by lia.
    destruct (0 =? k) eqn:E; [lia|apply andb_false_r]. }
  rewrite Hor. destruct (Z.testbit a 31); cbn [negb].
  - apply lxor_swap3.
  - rewrite Z.lxor_0_r. reflexivity.
Qed.

Lemma isbit_in32 b : isbit b -> in32 b.
Proof. unfold in32, two32. intros [->| ->]; lia. Qed.

Lemma sel_in32 a : in32 (sel a).
Proof. unfold sel, in32, two32, crc_poly. destruct (Z.testbit a 31); lia. Qed.

Lemma crc_step_in32 a b : isbit b -> in32 (crc_step a b).
Proof.
  intros Hb. rewrite crc_step_eq by assumption.
  apply lxor_in32; [apply lxor_in32; [apply shl32_in32|apply sel_in32]|apply isbit_in32; assumption].
Qed.

(** GF(2)-linearity of one step without input *)
Lemma shl32_lxor a b : shl32 (Z.lxor a b) = Z.lxor (shl32 a) (shl32 b).
Proof.
  unfold shl32. rewrite Z.shiftl_lxor. apply Z.bits_inj'. intros k Hk.
  rewrite !Z.land_spec, !Z.lxor_spec, !Z.land_spec.
  destruct (Z.testbit crc_mask k); [rewrite !andb_true_r|rewrite !andb_false_r]; reflexivity.
Qed.

Lemma sel_lxor a b : sel (Z.lxor a b) = Z.lxor (sel a) (sel b).
Proof.
  unfold sel. rewrite Z.lxor_spec.
  destruct (Z.testbit a 31), (Z.testbit b 31); reflexivity.
Qed.

Lemma lxor_swap4 a b c d : Z.lxor (Z.lxor a b) (Z.lxor c d) = Z.lxor (Z.lxor a c) (Z.lxor b d).
Proof.
  apply Z.bits_inj'. intros k Hk. rewrite !Z.lxor_spec.
  destruct (Z.testbit a k), (Z.testbit b k), (Z.testbit c k), (Z.testbit d k); reflexivity.
Qed.

Lemma step0_lxor a b : crc_step (Z.lxor a b) 0 = Z.lxor (crc_step a 0) (crc_step b 0).
Proof.
  rewrite !crc_step_eq by (now left). rewrite !Z.lxor_0_r, shl32_lxor, sel_lxor. apply lxor_swap4.
Qed.

(** feeding k zero bits *)
Definition feed0 (k : nat) (a : Z) : Z := fold_left crc_step (repeat 0 k) a.

Lemma feed0_S k a : feed0 (S k) a = feed0 k (crc_step a 0).
Proof. reflexivity. Qed.

Lemma feed0_lxor k : forall a b, feed0 k (Z.lxor a b) = Z.lxor (feed0 k a) (feed0 k b).
Proof.
  induction k as [|k IH]; intros a b; [reflexivity|].
  rewrite !feed0_S, step0_lxor. apply IH.
Qed.

Lemma feed0_step k : forall a, feed0 k (crc_step a 0) = crc_step (feed0 k a) 0.
Proof.
  induction k as [|k IH]; intros a; [reflexivity|].
  rewrite !feed0_S. apply IH.
Qed.

Lemma feed0_in32 k : forall a, in32 a -> in32 (feed0 k a).
Proof.
  induction k as [|k IH]; intros a Ha; [exact Ha|].
  rewrite feed0_S. apply IH. apply crc_step_in32. now left.
Qed.

Lemma feed32_is : forall a, crc_feed a zeros32 = feed0 32 a.
Proof. intros a. unfold crc_feed, zeros32, feed0. exact eq_refl. Qed.

Lemma feed32_bit b : isbit b -> feed0 32 b = if b =? 1 then crc_poly else 0.
Proof. intros [->| ->]; vm_compute; reflexivity. Qed.

(** the textbook step in the same form *)
Lemma mpeg_step_eq r b : in32 r -> isbit b ->
  mpeg_step r b = Z.lxor (crc_step r 0) (if b =? 1 then crc_poly else 0).
Proof.
  intros Hr Hb. unfold mpeg_step.
  rewrite crc_step_eq by (now left). rewrite Z.lxor_0_r.
  change crc_msb with (2 ^ 31). rewrite <- Z.testbit_spec' by lia.
  replace ((2 * r) mod 4294967296) with (shl32 r) by (rewrite shl32_mod; reflexivity).
  unfold sel.
  destruct (Z.testbit r 31), Hb as [->| ->]; cbn [Z.b2z Z.eqb Pos.eqb].
  - rewrite Z.lxor_0_r. reflexivity.
  - rewrite Z.lxor_assoc, Z.lxor_nilpotent, Z.lxor_0_r. reflexivity.
  - rewrite !Z.lxor_0_r. reflexivity.
  - rewrite Z.lxor_0_r. reflexivity.
Qed.

(** the direct form on the register "advanced by 32 zero bits" simulates the augmented form *)
Lemma mpeg_step_feed32 a b : in32 a -> isbit b ->
  mpeg_step (feed0 32 a) b = feed0 32 (crc_step a b).
Proof.
  intros Ha Hb.
  rewrite mpeg_step_eq by (try apply feed0_in32; assumption).
  rewrite (crc_step_eq a b Hb).
  replace (Z.lxor (shl32 a) (sel a)) with (crc_step a 0)
    by (rewrite crc_step_eq by (now left); apply Z.lxor_0_r).
  rewrite feed0_lxor, feed0_step. rewrite (feed32_bit b Hb). reflexivity.
Qed.

Lemma mpeg_fold_sim (F : Z -> Z) :
  (forall a b, in32 a -> isbit b -> mpeg_step (F a) b = F (crc_step a b)) ->
  forall bits, Forall isbit bits -> forall a, in32 a ->
  fold_left mpeg_step bits (F a) = F (fold_left crc_step bits a).
Proof.
  intros HF. induction 1 as [|b bits Hb Hbits IH]; intros a Ha; [reflexivity|].
  cbn [fold_left]. rewrite HF by assumption. apply IH. apply crc_step_in32; assumption.
Qed.

Lemma mpeg_fold_feed32 bits : Forall isbit bits -> forall a, in32 a ->
  fold_left mpeg_step bits (feed0 32 a) = feed0 32 (crc_feed a bits).
Proof. unfold crc_feed. exact (mpeg_fold_sim (feed0 32) mpeg_step_feed32 bits). Qed.

(** bit extraction: the gots form and the arithmetic form agree *)
Lemma byte_bits_msb x : byte_bits x = msb_bits x.
Proof.
  unfold byte_bits, msb_bits. cbn [map].
  assert (H : forall k, 0 <= k -> Z.land (Z.shiftr x k) 1 = (x / 2 ^ k) mod 2).
  { intros k Hk. change 1 with (Z.ones 1). rewrite Z.land_ones by lia. rewrite Z.shiftr_div_pow2 by lia. reflexivity. }
  rewrite !H by lia.
  change (2 ^ (7 - 0)) with 128. change (2 ^ (7 - 1)) with 64. change (2 ^ (7 - 2)) with 32.
  change (2 ^ (7 - 3)) with 16. change (2 ^ (7 - 4)) with 8. change (2 ^ (7 - 5)) with 4.
  change (2 ^ (7 - 6)) with 2. change (2 ^ (7 - 7)) with 1. rewrite Z.div_1_r. reflexivity.
Qed.

Lemma msb_bits_isbit x : Forall isbit (msb_bits x).
Proof.
  unfold msb_bits, isbit.
  repeat (constructor; [match goal with |- ?t mod 2 = 0 \/ _ => pose proof (Z.mod_pos_bound t 2 ltac:(lia)); lia end|]).
  constructor.
Qed.

Lemma flat_msb_bits_isbit msg : Forall isbit (flat_map msb_bits msg).
Proof.
  induction msg as [|x msg IH]; cbn [flat_map]; [constructor|].
  apply Forall_app. split; [apply msb_bits_isbit|exact IH].
Qed.

Lemma flat_byte_bits msg : flat_map byte_bits msg = flat_map msb_bits msg.
Proof. induction msg as [|x msg IH]; cbn [flat_map]; [reflexivity|]. now rewrite byte_bits_msb, IH. Qed.

Lemma feed32_start : feed0 32 crc_start = crc_mask.
Proof. vm_compute. reflexivity. Qed.

(** gots.ComputeCRC computes CRC-32/MPEG-2, for every byte string *)
Theorem computeCRC_is_mpeg2 msg : computeCRC_value msg = crc32_mpeg msg.
Proof.
  unfold computeCRC_value, crc32_mpeg. rewrite feed32_is, flat_byte_bits.
  rewrite <- feed32_start. symmetry.
  apply mpeg_fold_feed32; [apply flat_msb_bits_isbit|]. unfold in32, crc_start, two32. lia.
Qed.

Lemma crc32_mpeg_in32 msg : in32 (crc32_mpeg msg).
Proof.
  rewrite <- computeCRC_is_mpeg2. unfold computeCRC_value. rewrite feed32_is. apply feed0_in32.
  assert (G : forall bits, Forall isbit bits -> forall a, in32 a -> in32 (crc_feed a bits)).
  { induction 1; intros a Ha; [exact Ha|]. unfold crc_feed in *. cbn [fold_left]. apply IHForall.
    apply crc_step_in32; assumption. }
  apply G; [rewrite flat_byte_bits; apply flat_msb_bits_isbit|]. unfold in32, crc_start, two32. lia.
Qed.

(** feeding the register its own top bits (most significant first) shifts it out *)
Lemma top_bit_shift r0 j : 0 <= r0 -> 0 <= j <= 31 ->
  (((r0 * 2 ^ j) mod two32) / crc_msb) mod 2 = (r0 / 2 ^ (31 - j)) mod 2.
Proof.
  intros Hr Hj. change crc_msb with (2 ^ 31). change two32 with (2 ^ 32).
  rewrite <- !Z.testbit_spec' by lia. f_equal.
  rewrite Z.mod_pow2_bits_low by lia. rewrite <- Z.shiftl_mul_pow2 by lia.
  rewrite Z.shiftl_spec by lia. reflexivity.
Qed.

Lemma mpeg_step_top r : in32 r -> mpeg_step r ((r / crc_msb) mod 2) = (2 * r) mod two32.
Proof. intros Hr. unfold mpeg_step. rewrite Z.eqb_refl. reflexivity. Qed.

Lemma own_bits_shift k : forall j r0, 0 <= r0 -> 0 <= j -> j + Z.of_nat k <= 32 ->
  fold_left mpeg_step (map (fun i => (r0 / 2 ^ (31 - i)) mod 2) (seqZ j k)) ((r0 * 2 ^ j) mod two32)
  = (r0 * 2 ^ (j + Z.of_nat k)) mod two32.
Proof.
  induction k as [|k IH]; intros j r0 Hr Hj Hk.
  - cbn [seqZ map fold_left]. rewrite Z.add_0_r. reflexivity.
  - cbn [seqZ map fold_left].
    rewrite <- (top_bit_shift r0 j) by lia.
    rewrite mpeg_step_top by (unfold in32; apply Z.mod_pos_bound; reflexivity).
    replace ((2 * ((r0 * 2 ^ j) mod two32)) mod two32) with ((r0 * 2 ^ (j + 1)) mod two32).
    + rewrite IH by lia. f_equal. f_equal. f_equal. lia.
    + rewrite Z.mul_mod_idemp_r by (unfold two32; lia). f_equal.
      rewrite Z.pow_add_r by lia. change (2 ^ 1) with 2. ring.
Qed.

Lemma be32_bits c : 0 <= c ->
  flat_map msb_bits (be32bytes c) = map (fun i => (c / 2 ^ (31 - i)) mod 2) (seqZ 0 32).
Proof.
  intros Hc. cbv [flat_map msb_bits be32bytes app seqZ map].
  repeat match goal with
         | |- context [2 ^ ?e] => let v := eval vm_compute in (2 ^ e) in change (2 ^ e) with v
         end.
  rewrite Z.div_1_r.
  repeat (f_equal; [Zify.zify; Z.div_mod_to_equations; lia|]).
  f_equal. Zify.zify; Z.div_mod_to_equations; lia.
Qed.

(** appending the big-endian CRC-32/MPEG-2 of a message makes the whole check to 0 *)
Theorem crc_appended_is_zero msg : crc32_mpeg (msg ++ be32bytes (crc32_mpeg msg)) = 0.
Proof.
  pose proof (crc32_mpeg_in32 msg) as Hc.
  unfold crc32_mpeg at 1. rewrite flat_map_app, fold_left_app. fold (crc32_mpeg msg).
  set (c := crc32_mpeg msg) in *.
  rewrite be32_bits by (unfold in32 in Hc; lia).
  assert (Hsmall : (c * 2 ^ 0) mod two32 = c).
  { change (2 ^ 0) with 1. rewrite Z.mul_1_r. apply Z.mod_small. exact Hc. }
  pose proof (own_bits_shift 32 0 c ltac:(unfold in32 in Hc; lia) ltac:(lia) ltac:(cbn; lia)) as H.
  rewrite Hsmall in H. rewrite H.
  change (0 + Z.of_nat 32) with 32. change (2 ^ 32) with two32. apply Z.mod_mul. unfold two32; lia.
Qed.

(** the section CreateSpliceInsertPayload produces, for any parameters *)
Theorem payload_crc_zero p : crc32_mpeg (createSpliceInsertPayload p) = 0.
Proof.
  unfold createSpliceInsertPayload, computeCRC. cbv zeta.
  rewrite computeCRC_is_mpeg2. apply crc_appended_is_zero.
Qed.

(** ** Part B: the field layout round-trips *)

Ltac dm := Zify.zify; Z.div_mod_to_equations; lia.

Theorem section_roundtrip p : params_in_range p ->
  exists v, decode_section (createSpliceInsertPayload p) = Some v /\
    params_of_view v = p /\
    v_table_id v = 252 /\ v_section_length v = lenZ (createSpliceInsertPayload p) - 3 /\
    v_cmd_len v = 20 /\ v_cmd_type v = 5 /\ v_program v = true /\ v_has_dur v = true /\
    v_time_specified v = true /\ v_desc_len v = 0 /\
    v_pts_adjustment v = 0.
Proof.
  destruct p as [pts dur ev tier upid av avs cancel out imm auto].
  unfold params_in_range; cbn [p_pts p_dur p_event p_tier p_upid p_avail p_avails p_immediate].
  intros (Hpts & Hdur & Hev & Htier & Hupid & Hav & Havs & ->).
  unfold createSpliceInsertPayload, sectionBody, spliceInsertData, ptsAdjust, computeCRC.
  cbn [p_pts p_dur p_event p_tier p_upid p_avail p_avails p_immediate p_cancel p_out p_auto].
  destruct (dur =? 0) eqn:E; [lia|].
  cbn [negb andb b2z app be32bytes time5 lenZ length Z.of_nat Pos.of_succ_nat Pos.succ].
  rewrite (Z.mod_small pts two33) by lia.
  unfold subtractPTS. rewrite Z.sub_diag.
  replace (pts >=? pts) with true by lia.
  cbv beta iota delta [decode_section].
  eexists. split; [reflexivity|].
  cbn [params_of_view v_pts_time v_break_dur v_event v_tier v_upid v_avail v_avails v_cancel v_out
       v_immediate v_auto v_table_id v_section_length v_cmd_len v_cmd_type v_program v_has_dur
       v_time_specified v_desc_len v_pts_adjustment].
  unfold two33, two32 in *.
  repeat split.
  - unfold params_of_view.
    cbn [v_pts_time v_break_dur v_event v_tier v_upid v_avail v_avails v_cancel v_out
         v_immediate v_auto].
    unfold bit_set.
    f_equal.
    + dm.
    + destruct auto; cbn [b2z]; dm.
    + dm.
    + dm.
    + dm.
    + dm.
    + dm.
    + destruct cancel; reflexivity.
    + destruct out; reflexivity.
    + destruct out; reflexivity.
    + destruct auto; cbn [b2z]; dm.
  - dm.
  - destruct out; reflexivity.
  - destruct out; reflexivity.
  - unfold bit_set. dm.
Qed.

(** ** The fields of the event CreateEmsgAhead builds *)

Lemma ad_seconds_cases n : ad_seconds n = 20 \/ ad_seconds n = 10.
Proof. unfold ad_seconds. destruct (n =? 1); [now left|now right]. Qed.

Theorem emsg_fields ts n k :
  0 < ts < two32 -> 20 * ts < two32 -> 0 <= k < two32 ->
  let sigma := k * ts in
  let em := emsg_of ts n sigma in
  e_timescale em = ts /\ e_pt em = sigma /\ e_id em = k /\ e_dur em = ad_seconds n * ts /\
  crc32_mpeg (e_data em) = 0 /\
  exists v, decode_section (e_data em) = Some v /\
    v_table_id v = 252 /\ v_section_length v = lenZ (e_data em) - 3 /\ v_cmd_type v = 5 /\
    v_event v = k /\ v_pts_time v = (k * 90000) mod two33 /\ v_time_specified v = true /\
    v_break_dur v = ad_seconds n * 90000 /\ v_has_dur v = true /\ v_auto v = true /\
    v_out v = true /\ v_cancel v = false /\ v_immediate v = false /\ v_program v = true /\
    v_tier v = 4095 /\ v_upid v = 0 /\ v_avail v = 0 /\ v_avails v = 0 /\ v_desc_len v = 0 /\
    v_pts_adjustment v = 0.
Proof.
  intros Hts H20 Hk sigma em.
  assert (Hdiv : sigma / ts = k) by (subst sigma; apply Z.div_mul; lia).
  assert (Had : u64 (ad_seconds n * ts) = ad_seconds n * ts).
  { apply Z.mod_small. unfold two64, two32 in *. destruct (ad_seconds_cases n) as [-> | ->]; lia. }
  subst em. unfold emsg_of. cbn [e_timescale e_pt e_id e_dur e_data]. rewrite Had, Hdiv.
  split; [apply Z.mod_small; lia|]. split; [reflexivity|].
  split; [apply Z.mod_small; lia|].
  split; [apply Z.mod_small; unfold two32 in *; destruct (ad_seconds_cases n) as [-> | ->]; lia|].
  split; [apply payload_crc_zero|].
  set (p := params_for sigma (ad_seconds n * ts) ts).
  assert (Hp : p = {| p_pts := (k * 90000) mod two33; p_dur := ad_seconds n * 90000; p_event := k;
                      p_tier := 4095; p_upid := 0; p_avail := 0; p_avails := 0;
                      p_cancel := false; p_out := true; p_immediate := false; p_auto := true |}).
  { subst p. unfold params_for. change pts_clock with 90000. rewrite Hdiv. f_equal.
    - f_equal. unfold u64. apply Z.mod_small. unfold two64, two32 in *. lia.
    - unfold u64. rewrite Z.mod_small.
      + replace (ad_seconds n * ts * 90000) with (ad_seconds n * 90000 * ts) by ring. apply Z.div_mul. lia.
      + unfold two64, two32 in *. destruct (ad_seconds_cases n) as [-> | ->]; lia.
    - apply Z.mod_small. lia. }
  assert (Hr : params_in_range p).
  { rewrite Hp. unfold params_in_range. cbn [p_pts p_dur p_event p_tier p_upid p_avail p_avails p_immediate].
    pose proof (Z.mod_pos_bound (k * 90000) two33 ltac:(reflexivity)).
    unfold two33, two32 in *. destruct (ad_seconds_cases n) as [-> | ->]; repeat split; lia. }
  destruct (section_roundtrip p Hr) as (v & Hdec & Hpv & Ht & Hl & Hcl & Hct & Hprog & Hhd & Htsf & Hdl & Hadj).
  exists v. split; [exact Hdec|].
  rewrite Hp in Hpv. unfold params_of_view in Hpv.
  injection Hpv as Hpts Hdur Hev Htier Hupid Hav Havs Hcan Hout Himm Hauto.
  repeat split; assumption.
Qed.

(** the former overflow case (timescale 10^7, second 20497030; repaired by 3532b28): pts_time is right *)
Example pts_no_overflow_example :
  let ts := 10000000 in let k := 20497030 in
  exists v, decode_section (e_data (emsg_of ts 1 (k * ts))) = Some v /\
            v_pts_time v = (k * 90000) mod two33 /\ v_pts_adjustment v = 0.
Proof. vm_compute. eexists. split; [reflexivity|]. split; reflexivity. Qed.
