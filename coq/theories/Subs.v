(** Model of the generated time subtitles (C12): cmd/livesim2/app/timesubs.go (calcCueItvls,
    msToTTMLTime, rep2SubsTime, createSubtitlesStppMediaSegment, writeTimeSubsMediaSegment),
    timesubs_wvtt.go (createSubtitlesWvttMediaSegment, fullSample), asset.go (getRefSegMeta: the
    conversion of the request to the reference lookup), livempd.go (addTimeSubs,
    changeTimelineTimescale) and configurl.go (timesubsdur / timesubsreg validation).

    Go ints are 64 bit; the model computes in [Z] and writes the conversions that can change a
    value explicitly ([u32], [u64], [Z.quot] for signed division). float64 expressions are
    evaluated in Coq's primitive binary64 floats, so [vm_compute] reproduces Go bit for bit; the
    theorems are stated over exact twins and the agreement is part of the statements/correspondence.
    No proofs in this file. *)
From Coq Require Import Floats Uint63.
From Verif Require Import GoSem.

(** ** float64 helpers *)

(** float64(i) for a Go int with |i| < 2^63 *)
Definition Zfl (z : Z) : float :=
  if z <? 0 then PrimFloat.opp (PrimFloat.of_uint63 (Uint63.of_Z (- z)))
  else PrimFloat.of_uint63 (Uint63.of_Z z).

(** int(math.Ceil(x)) for finite x (NaN/Inf do not occur: operands are products of small integers) *)
Definition ceilFl (x : float) : Z :=
  match FloatOps.Prim2SF x with
  | S754_finite s m e =>
    if 0 <=? e then (if s then - (Z.pos m * 2 ^ e) else Z.pos m * 2 ^ e)
    else let d := 2 ^ (- e) in
         if s then - (Z.pos m / d) else (Z.pos m + d - 1) / d
  | _ => 0
  end.

(** uint64/int(math.Round(x)): halves away from zero *)
Definition roundFl (x : float) : Z :=
  match FloatOps.Prim2SF x with
  | S754_finite s m e =>
    let mag := if 0 <=? e then Z.pos m * 2 ^ e
               else (2 * Z.pos m + 2 ^ (- e)) / (2 * 2 ^ (- e)) in
    if s then - mag else mag
  | _ => 0
  end.

Definition f_thousandth : float := Eval vm_compute in PrimFloat.div (Zfl 1) (Zfl 1000).  (* the literal 0.001 *)

(** ** calcCueItvls *)

Record cue := { c_start : Z; c_end : Z; c_utc : Z }.   (* media times in ms, UTC second shown *)

(** cueFullS := int(math.Ceil(float64(cueDur) * 0.001)) *)
Definition cueFullS (cueDur : Z) : Z := ceilFl (PrimFloat.mul (Zfl cueDur) f_thousandth).
(** its exact twin *)
Definition cueFullS_exact (cueDur : Z) : Z := (cueDur + 999) / 1000.

(** one pass of the loop body: [None] = break, [Some None] = continue (the cue of this second was
    already over when the segment starts: skipped since 6f3327b), [Some (Some c)] = cue appended *)
Definition cue_at (segStart segDur utcStart cueDur utcS : Z) : option (option cue) :=
  let diff := segStart - utcStart in
  let utcEndMS := utcStart + segDur in
  let cueStartMS := utcS * 1000 in
  if cueStartMS =? utcEndMS then None else
  let st := if cueStartMS <? utcStart then utcStart else cueStartMS in
  let en0 := cueStartMS + cueDur in
  let en := if utcEndMS <? en0 then utcEndMS else en0 in
  if en <=? st then Some None else
  Some (Some {| c_start := st + diff; c_end := en + diff; c_utc := utcS |}).

(** for utcS := lo; utcS <= hi; utcS += step *)
Fixpoint cue_loop (fuel : nat) (segStart segDur utcStart cueDur step hi utcS : Z) : list cue :=
  match fuel with
  | O => []
  | S k =>
    if utcS <=? hi then
      match cue_at segStart segDur utcStart cueDur utcS with
      | None => []
      | Some None => cue_loop k segStart segDur utcStart cueDur step hi (utcS + step)
      | Some (Some c) => c :: cue_loop k segStart segDur utcStart cueDur step hi (utcS + step)
      end
    else []
  end.

(** calcCueItvls(segStart, segDur, utcStart, cueDur). All arguments are Go ints. Since 7bc345a the loop
    variable is a UTC second: it starts at the multiple of cueFullS seconds at or before the start and
    runs up to the second of the segment end in steps of cueFullS. The loop runs (hi - lo)/step + 1
    times at most; a non-positive step (cueDur <= 0) means cueFullMS <= 0: for 0 the first division
    panics (cueDur <= 0 is refused with 400 by verifyAndFillConfig since 860f338). *)
Definition calcCueItvls (segStart segDur utcStart cueDur : Z) : res (list cue) :=
  let fullS := cueFullS cueDur in
  let fullMS := fullS * 1000 in
  if fullMS =? 0 then Panic "app.calcCueItvls:integer divide by zero" else
  if fullS <? 0 then Err "calcCueItvls: negative step (not modelled)" else
  let lo := Z.quot utcStart fullMS * fullS in
  let hi := Z.quot (utcStart + segDur) 1000 in
  Ok (cue_loop (Z.to_nat (hi - lo + 1)) segStart segDur utcStart cueDur fullS hi lo).

(** ** msToTTMLTime: hours, minutes, seconds, milliseconds as printed by "%02d:%02d:%02d.%03d" *)
Definition msToTTML (ms : Z) : Z * Z * Z * Z :=
  let hours := Z.quot ms 3600000 in
  let ms1 := Z.rem ms 3600000 in
  let minutes := Z.quot ms1 60000 in
  let ms2 := Z.rem ms1 60000 in
  let seconds := Z.quot ms2 1000 in
  let ms3 := Z.rem ms2 1000 in
  (hours, minutes, seconds, ms3).

(** what a reader of the TTML attribute computes *)
Definition ttml_ms (t : Z * Z * Z * Z) : Z :=
  let '(h, m, s, ms) := t in ((h * 60 + m) * 60 + s) * 1000 + ms.

(** ** rep2SubsTime: uint64(math.Round(float64(repTime*1000) / float64(timescale))) *)
Definition rep2SubsTime (repTime timescale : Z) : Z :=
  roundFl (PrimFloat.div (Zfl (u64 (repTime * 1000))) (Zfl timescale)).
(** exact twin: nearest integer of repTime*1000/timescale, halves up *)
Definition rep2SubsTime_exact (repTime timescale : Z) : Z :=
  (2 * repTime * 1000 + timescale) / (2 * timescale).

(** ** The generated segment *)

(** reference video segment as looked up by getRefSegMeta *)
Record refseg := { r_nr : Z; r_time : Z; r_dur : Z; r_ts : Z }.

(** wvtt sample: decode time, duration (uint32), [Some utcS] = cue with that UTC second, [None] = vtte (empty) *)
Record wsample := { w_time : Z; w_dur : Z; w_cue : option Z }.

Record subseg := {
  s_nr : Z;            (* mfhd sequence number *)
  s_time : Z;          (* tfdt base media decode time, ms *)
  s_dur : Z;           (* uint32: sample duration of the stpp sample / segment duration handed to wvtt *)
  s_cues : list cue;   (* stpp: the TTML cues, begin/end in ms as printed by msToTTMLTime *)
  s_samples : list wsample   (* wvtt: the samples *)
}.

(** createSubtitlesWvttMediaSegment's loop over the cue intervals *)
Fixpoint wvtt_loop (cues : list cue) (currEnd : Z) : list wsample * Z :=
  match cues with
  | [] => ([], currEnd)
  | c :: rest =>
    let gap := if c_start c >? currEnd
               then [{| w_time := u64 currEnd; w_dur := u32 (c_start c - currEnd); w_cue := None |}] else [] in
    let smp := {| w_time := u64 (c_start c); w_dur := u32 (c_end c - c_start c); w_cue := Some (c_utc c) |} in
    let '(more, e) := wvtt_loop rest (c_end c) in
    (gap ++ smp :: more, e)
  end.

Definition wvtt_samples (bmdt dur : Z) (cues : list cue) : list wsample :=
  let '(ss, currEnd) := wvtt_loop cues bmdt in
  let segEnd := bmdt + dur in
  if currEnd <? segEnd then ss ++ [{| w_time := u64 currEnd; w_dur := u32 (segEnd - currEnd); w_cue := None |}] else ss.

(** writeTimeSubsMediaSegment after the reference lookup: [startTimeS] = cfg.StartTimeS, [cueDur] =
    cfg.TimeSubsDurMS. The TTML times are what a reader gets back from the printed attributes. *)
Definition subs_segment (r : refseg) (startTimeS cueDur : Z) : res subseg :=
  let bmdt := rep2SubsTime (r_time r) (r_ts r) in
  let dur := u32 (rep2SubsTime (r_dur r) (r_ts r)) in
  let utcTimeMS := u64 (bmdt + u64 (startTimeS * 1000)) in
  do cues <- calcCueItvls (i64 bmdt) dur (i64 utcTimeMS) cueDur;
  Ok {| s_nr := r_nr r; s_time := bmdt; s_dur := dur;
        s_cues := map (fun c => {| c_start := ttml_ms (msToTTML (c_start c)); c_end := ttml_ms (msToTTML (c_end c));
                                   c_utc := c_utc c |}) cues;
        s_samples := wvtt_samples bmdt dur cues |}.

(** getRefSegMeta for $Time$ addressing: videoTime := uint64(nrOrTime * MediaTimescale / 1000) *)
Definition subs_time_to_video (timeMS ts : Z) : Z := u64 (Z.quot (timeMS * ts) 1000).

(** ** MPD: changeTimelineTimescale and the SegmentTemplate of addTimeSubs *)

(** round(t) := uint64(math.Round(float64(t) * (float64(new)/float64(old)))) *)
Definition scale_round (oldTS newTS t : Z) : Z :=
  roundFl (PrimFloat.mul (Zfl t) (PrimFloat.div (Zfl newTS) (Zfl oldTS))).

(** exact twin: nearest integer of t*new/old, halves up *)
Definition scale_exact (oldTS newTS t : Z) : Z := (2 * t * newTS + oldTS) / (2 * oldTS).

Record sentry := { se_t : option Z; se_d : Z; se_r : Z }.

Definition changeTimelineTimescale (oldTS newTS : Z) (stl : list sentry) : list sentry :=
  map (fun s => {| se_t := option_map (scale_round oldTS newTS) (se_t s);
                   se_d := scale_round oldTS newTS (se_d s); se_r := se_r s |}) stl.

(** *** changeTimelineTimescale after the repair C12-timeline-timescale-boundaries: every segment
    boundary is converted on its own, the durations are the differences, equal durations are
    run-length compressed (applied as 5988c8b). The correspondence uses this variant when the source
    has it. S elements with r < 0 (open-ended repeat) are passed on by the code as one converted S with
    the same r; they are not modelled here (they vanish): the generated video timelines never contain
    them and the correspondence generates none. *)
(** timeline as segments: (reset, start, duration); reset = the S element carries t *)
Definition tseg := (bool * Z * Z)%type.

Fixpoint reps (n : nat) (first : bool) (t d : Z) : list tseg :=
  match n with O => [] | S k => (first, t, d) :: reps k false (t + d) d end.

Fixpoint segments_from (first : bool) (t : Z) (l : list sentry) : list tseg :=
  match l with
  | [] => []
  | s :: rest =>
    let fl := match se_t s with Some _ => true | None => first end in
    let t0 := match se_t s with Some x => x | None => t end in
    let n := Z.to_nat (se_r s + 1) in
    reps n fl t0 (se_d s) ++
    segments_from (match n with O => fl | _ => false end) (t0 + Z.of_nat n * se_d s) rest
  end.

Definition conv (sc : Z -> Z) (x : tseg) : tseg :=
  let '(b, t, d) := x in (b, sc t, sc (t + d) - sc t).

Fixpoint rle (segs : list tseg) : list sentry :=
  match segs with
  | [] => []
  | (b, st, D) :: rest =>
    let T := if b then Some st else None in
    let tail := rle rest in   (* evaluated once *)
    match tail with
    | {| se_t := None; se_d := D'; se_r := r |} :: more =>
      if D' =? D then {| se_t := T; se_d := D; se_r := r + 1 |} :: more
      else {| se_t := T; se_d := D; se_r := 0 |} :: tail
    | other => {| se_t := T; se_d := D; se_r := 0 |} :: other
    end
  end.

Definition changeTimelineTimescaleB (oldTS newTS : Z) (stl : list sentry) : list sentry :=
  rle (map (conv (scale_round oldTS newTS)) (segments_from true 0 stl)).

(** reading a timeline: the (start, duration) of every listed segment *)
Fixpoint runs (n : nat) (t d : Z) : list (Z * Z) :=
  match n with O => [] | S k => (t, d) :: runs k (t + d) d end.

Fixpoint expand (t : Z) (l : list sentry) : list (Z * Z) :=
  match l with
  | [] => []
  | s :: rest =>
    let t0 := match se_t s with Some x => x | None => t end in
    let n := Z.to_nat (se_r s + 1) in
    runs n t0 (se_d s) ++ expand (t0 + Z.of_nat n * se_d s) rest
  end.


(** st.Duration = *vST.Duration * 1000 / vST.GetTimescale() (uint32 arithmetic) *)
Definition subs_template_duration (vdur vts : Z) : res Z :=
  if vts =? 0 then Panic "app.addTimeSubs:integer divide by zero" else Ok (u32 (vdur * 1000) / vts).

(** ** Configuration (configurl.go verifyAndFillConfig) *)
Definition cfg_timesubs_status (cueDur region : Z) : Z :=
  if cueDur <=? 0 then 400 else if (region <? 0) || (region >? 1) then 400 else 200.
