(** Proofs for C12 (generated time subtitles). *)
From Coq Require Import Floats.
From Verif Require Import GoSem GoSemFacts Subs.
From Coq Require Import ZifyBool.

(** ** cueFullS is 1 on the domain 1..1000 (bounded: all 1000 values evaluated in binary64) *)
Lemma In_seqZ n : forall a x, In x (seqZ a n) <-> a <= x < a + Z.of_nat n.
Proof.
  induction n as [|n IH]; intros a x; cbn [seqZ In].
  - lia.
  - rewrite IH. lia.
Qed.

Lemma cueFullS_one_table : forallb (fun c => cueFullS c =? 1) (seqZ 1 1000) = true.
Proof. vm_compute. reflexivity. Qed.

Lemma cueFullS_one c : 1 <= c <= 1000 -> cueFullS c = 1.
Proof.
  intros Hc. pose proof cueFullS_one_table as H. rewrite forallb_forall in H.
  specialize (H c). rewrite In_seqZ in H. specialize (H ltac:(lia)). lia.
Qed.

(** ** The specification of the cue list: one cue per UTC second that intersects [u, u+d) and whose
    cue (lasting c from the start of the second) has not ended before the segment starts *)
Definition cue_of (s d u c q : Z) : cue :=
  {| c_start := Z.max (q * 1000) u + (s - u); c_end := Z.min (q * 1000 + c) (u + d) + (s - u); c_utc := q |}.

Definition first_sec (u : Z) : Z := u / 1000.
Definition last_sec (u d : Z) : Z := (u + d - 1) / 1000.
(** the cue of second q is still showing at u *)
Definition showing (u c q : Z) : bool := u <? q * 1000 + c.

Definition cues_spec (s d u c : Z) : list cue :=
  map (cue_of s d u c)
      (filter (showing u c) (seqZ (first_sec u) (Z.to_nat (last_sec u d - first_sec u + 1)))).

Lemma cue_at_inside s d u c q : 1 <= c -> 0 < d -> q * 1000 < u + d ->
  cue_at s d u c q = Some (if showing u c q then Some (cue_of s d u c q) else None).
Proof.
  intros Hc Hd Hq. unfold cue_at, cue_of, showing.
  destruct (q * 1000 =? u + d) eqn:E; [lia|].
  destruct (q * 1000 <? u) eqn:E1; destruct (u + d <? q * 1000 + c) eqn:E2;
    destruct (u <? q * 1000 + c) eqn:E3;
    match goal with |- context [?a <=? ?b] => destruct (a <=? b) eqn:E4 end; try lia;
    try reflexivity; do 3 f_equal; lia.
Qed.

Lemma cue_loop_spec s d u c hi : 1 <= c -> 0 < d -> 0 <= u -> hi = (u + d) / 1000 ->
  forall fuel q, last_sec u d + 1 - q <= Z.of_nat fuel -> q <= last_sec u d + 1 ->
  cue_loop fuel s d u c 1 hi q =
  map (cue_of s d u c) (filter (showing u c) (seqZ q (Z.to_nat (last_sec u d + 1 - q)))).
Proof.
  intros Hc Hd Hu Hhi. unfold last_sec.
  assert (Hl : ((u + d - 1) / 1000) * 1000 <= u + d - 1 < ((u + d - 1) / 1000) * 1000 + 1000).
  { pose proof (Z.div_mod (u + d - 1) 1000 ltac:(lia)). pose proof (Z.mod_pos_bound (u + d - 1) 1000 ltac:(lia)). lia. }
  assert (Hh : hi * 1000 <= u + d < hi * 1000 + 1000).
  { subst hi. pose proof (Z.div_mod (u + d) 1000 ltac:(lia)). pose proof (Z.mod_pos_bound (u + d) 1000 ltac:(lia)). lia. }
  set (L := (u + d - 1) / 1000) in *.
  induction fuel as [|k IH]; intros q Hf Hq.
  - assert (q = L + 1) by lia. subst q. replace (L + 1 - (L + 1)) with 0 by lia. reflexivity.
  - cbn [cue_loop]. destruct (q <=? hi) eqn:Ele.
    + destruct (Z.eq_dec (q * 1000) (u + d)) as [Eq|Ne].
      * unfold cue_at. replace (q * 1000 =? u + d) with true by lia.
        assert (q = L + 1) by lia. subst q. replace (L + 1 - (L + 1)) with 0 by lia. reflexivity.
      * assert (q * 1000 < u + d) by lia.
        assert (q <= L) by lia.
        rewrite cue_at_inside by assumption.
        replace (Z.to_nat (L + 1 - q)) with (S (Z.to_nat (L + 1 - (q + 1)))) by lia.
        cbn [seqZ filter]. destruct (showing u c q); cbn [map]; [f_equal|]; apply IH; lia.
    + assert (q = L + 1) by lia. subst q. replace (L + 1 - (L + 1)) with 0 by lia. reflexivity.
Qed.

(** C12_cues, first half: for cue durations 1..1000 ms, a non-empty segment and a non-negative UTC
    start, calcCueItvls returns exactly the specified list, in order *)
Theorem calcCueItvls_spec s d u c : 1 <= c <= 1000 -> 0 < d -> 0 <= u ->
  calcCueItvls s d u c = Ok (cues_spec s d u c).
Proof.
  intros Hc Hd Hu. unfold calcCueItvls. rewrite (cueFullS_one c Hc).
  change (1 * 1000 =? 0) with false. change (1 <? 0) with false. cbv iota.
  change (1 * 1000) with 1000. rewrite Z.mul_1_r.
  rewrite !Z.quot_div_nonneg by lia.
  f_equal. unfold cues_spec, first_sec.
  assert (Hlo : u / 1000 <= last_sec u d).
  { unfold last_sec. apply Z.div_le_mono; lia. }
  assert (Hhi : last_sec u d <= (u + d) / 1000).
  { unfold last_sec. apply Z.div_le_mono; lia. }
  rewrite (cue_loop_spec s d u c ((u + d) / 1000) ltac:(lia) Hd Hu eq_refl) by lia.
  do 3 f_equal. lia.
Qed.

(** which seconds: exactly those whose interval meets [u, u+d) and whose cue is still showing at u *)
Lemma cues_spec_seconds s d u c q : 1 <= c <= 1000 -> 0 < d -> 0 <= u ->
  (In q (map c_utc (cues_spec s d u c)) <-> q * 1000 < u + d /\ u < q * 1000 + c).
Proof.
  intros Hc Hd Hu. unfold cues_spec. rewrite map_map. cbn [c_utc cue_of]. rewrite map_id.
  rewrite filter_In, In_seqZ. unfold first_sec, last_sec, showing.
  pose proof (Z.div_mod u 1000 ltac:(lia)). pose proof (Z.mod_pos_bound u 1000 ltac:(lia)).
  pose proof (Z.div_mod (u + d - 1) 1000 ltac:(lia)). pose proof (Z.mod_pos_bound (u + d - 1) 1000 ltac:(lia)).
  assert (u / 1000 <= (u + d - 1) / 1000) by (apply Z.div_le_mono; lia).
  lia.
Qed.

(** ordered, non-overlapping, inside the segment: as a chain predicate *)
Fixpoint cues_chain (lo hi : Z) (cs : list cue) : Prop :=
  match cs with
  | [] => lo <= hi
  | x :: r => lo <= c_start x /\ c_start x < c_end x /\ cues_chain (c_end x) hi r
  end.

Lemma chain_spec_from s d u c : 1 <= c <= 1000 -> 0 < d -> 0 <= u ->
  forall n q, first_sec u < q -> q + Z.of_nat n = last_sec u d + 1 ->
  forall lo, lo <= q * 1000 + (s - u) -> lo <= s + d ->
  cues_chain lo (s + d) (map (cue_of s d u c) (seqZ q n)).
Proof.
  intros Hc Hd Hu. unfold first_sec, last_sec.
  pose proof (Z.div_mod u 1000 ltac:(lia)) as D1. pose proof (Z.mod_pos_bound u 1000 ltac:(lia)) as B1.
  pose proof (Z.div_mod (u + d - 1) 1000 ltac:(lia)) as D2. pose proof (Z.mod_pos_bound (u + d - 1) 1000 ltac:(lia)) as B2.
  induction n as [|n IH]; intros q Hq Hn lo Hlo Hlo2; cbn [seqZ map cues_chain].
  - lia.
  - cbn [cue_of c_start c_end]. split; [lia|]. split; [lia|].
    apply IH; lia.
Qed.

Lemma filter_showing_later u c n : 1 <= c -> 0 <= u -> forall q, first_sec u < q ->
  filter (showing u c) (seqZ q n) = seqZ q n.
Proof.
  intros Hc Hu. unfold first_sec.
  pose proof (Z.div_mod u 1000 ltac:(lia)) as D1. pose proof (Z.mod_pos_bound u 1000 ltac:(lia)) as B1.
  induction n as [|n IH]; intros q Hq; cbn [seqZ filter]; [reflexivity|].
  unfold showing at 1. destruct (u <? q * 1000 + c) eqn:E; [|lia]. f_equal. apply IH. lia.
Qed.

(** C12_cues, second half (unconditional since 6f3327b): every cue has begin < end, consecutive cues do
    not overlap, and all lie inside [s, s+d) *)
Theorem cues_spec_chain s d u c : 1 <= c <= 1000 -> 0 < d -> 0 <= u ->
  cues_chain s (s + d) (cues_spec s d u c).
Proof.
  intros Hc Hd Hu. unfold cues_spec.
  pose proof (Z.div_mod u 1000 ltac:(lia)) as D1. pose proof (Z.mod_pos_bound u 1000 ltac:(lia)) as B1.
  pose proof (Z.div_mod (u + d - 1) 1000 ltac:(lia)) as D2. pose proof (Z.mod_pos_bound (u + d - 1) 1000 ltac:(lia)) as B2.
  assert (Hle : first_sec u <= last_sec u d) by (unfold first_sec, last_sec; apply Z.div_le_mono; lia).
  replace (Z.to_nat (last_sec u d - first_sec u + 1)) with (S (Z.to_nat (last_sec u d - first_sec u))) by lia.
  cbn [seqZ filter]. rewrite (filter_showing_later u c _ ltac:(lia) Hu) by lia.
  destruct (showing u c (first_sec u)) eqn:Es.
  - cbn [map cues_chain]. unfold showing, first_sec, last_sec in *.
    cbn [cue_of c_start c_end]. split; [lia|]. split; [lia|].
    apply (chain_spec_from s d u c Hc Hd Hu); unfold first_sec, last_sec; lia.
  - apply (chain_spec_from s d u c Hc Hd Hu); unfold first_sec, last_sec in *; lia.
Qed.

(** when the first second's cue is still showing nothing is skipped: one cue per intersecting second *)
Lemma cues_spec_all s d u c : 1 <= c -> 0 <= u -> u mod 1000 < c ->
  cues_spec s d u c = map (cue_of s d u c) (seqZ (first_sec u) (Z.to_nat (last_sec u d - first_sec u + 1))).
Proof.
  intros Hc Hu Hv. unfold cues_spec. f_equal.
  pose proof (Z.div_mod u 1000 ltac:(lia)) as D1.
  destruct (Z.to_nat (last_sec u d - first_sec u + 1)) as [|n]; [reflexivity|].
  cbn [seqZ filter]. rewrite (filter_showing_later u c n Hc Hu) by lia.
  unfold showing, first_sec. destruct (u <? u / 1000 * 1000 + c) eqn:E; [reflexivity|lia].
Qed.

(** the former finding late-start (fixed by 6f3327b): 29.97 fps asset, segment 475: u = 950950,
    d = 2002, default cue duration 900: u mod 1000 = 950 >= 900, the cue of second 950 is over and is
    skipped (before: a cue (950950, 950900) with end before begin) *)
Theorem late_start_witness :
  calcCueItvls 950950 2002 950950 900 =
  Ok [ {| c_start := 951000; c_end := 951900; c_utc := 951 |};
       {| c_start := 952000; c_end := 952900; c_utc := 952 |} ].
Proof. vm_compute. reflexivity. Qed.

(** FINDING (long cue): cue duration 1500 ms, segment [90 s, 92 s): cueFullS = 2; by design one cue per
    2 s, at even seconds: the UTC second 91 intersects the segment (its cue would still be showing) but
    has no cue of its own, and the cue of second 90 lasts into it *)
Theorem long_cue_witness :
  cueFullS 1500 = 2 /\
  calcCueItvls 90000 2000 90000 1500 = Ok [ {| c_start := 90000; c_end := 91500; c_utc := 90 |} ] /\
  (91 * 1000 < 90000 + 2000 /\ 90000 < 91 * 1000 + 1500).
Proof. split; [vm_compute; reflexivity|]. split; [vm_compute; reflexivity|lia]. Qed.

(** cue duration <= 0: calcCueItvls itself divides by zero for -999..0; the configuration refuses it (400) *)
Theorem zero_cue_panics : forall s d u, calcCueItvls s d u 0 = Panic "app.calcCueItvls:integer divide by zero".
Proof. intros. unfold calcCueItvls. replace (cueFullS 0) with 0 by (vm_compute; reflexivity). reflexivity. Qed.

Lemma zero_cue_rejected c region : c <= 0 -> cfg_timesubs_status c region = 400.
Proof. intros. unfold cfg_timesubs_status. destruct (c <=? 0) eqn:E; [reflexivity|lia]. Qed.

(** ** msToTTMLTime *)
Theorem ttml_roundtrip ms : 0 <= ms ->
  let '(h, m, s, f) := msToTTML ms in
  ttml_ms (msToTTML ms) = ms /\ 0 <= h /\ 0 <= m < 60 /\ 0 <= s < 60 /\ 0 <= f < 1000.
Proof.
  intros Hms. unfold msToTTML, ttml_ms.
  rewrite (Z.quot_div_nonneg ms), (Z.rem_mod_nonneg ms) by lia.
  pose proof (Z.mod_pos_bound ms 3600000 ltac:(lia)).
  rewrite (Z.quot_div_nonneg (ms mod 3600000)), (Z.rem_mod_nonneg (ms mod 3600000)) by lia.
  pose proof (Z.mod_pos_bound (ms mod 3600000) 60000 ltac:(lia)).
  rewrite (Z.quot_div_nonneg ((ms mod 3600000) mod 60000)), (Z.rem_mod_nonneg ((ms mod 3600000) mod 60000)) by lia.
  Zify.zify. Z.div_mod_to_equations. lia.
Qed.

(** ** wvtt samples tile the segment *)

(** samples are contiguous from [st] to [e], each of positive duration *)
Fixpoint tiles (st : Z) (ss : list wsample) (e : Z) : Prop :=
  match ss with
  | [] => st = e
  | x :: r => w_time x = st /\ 0 < w_dur x /\ tiles (st + w_dur x) r e
  end.

(** the cue samples, in order *)
Definition cue_samples (ss : list wsample) : list wsample :=
  filter (fun x => match w_cue x with Some _ => true | None => false end) ss.

Definition sample_of_cue (c : cue) : wsample :=
  {| w_time := c_start c; w_dur := c_end c - c_start c; w_cue := Some (c_utc c) |}.

Lemma tiles_app st a m b e : tiles st a m -> tiles m b e -> tiles st (a ++ b) e.
Proof.
  revert st. induction a as [|x a IH]; intros st Ha Hb; cbn [app tiles] in *.
  - subst. exact Hb.
  - destruct Ha as (H1 & H2 & H3). repeat split; try assumption. now apply IH.
Qed.

Lemma u32_small x : 0 <= x < two32 -> u32 x = x.
Proof. intros. unfold u32. now apply Z.mod_small. Qed.
Lemma u64_small' x : 0 <= x < two64 -> u64 x = x.
Proof. intros. unfold u64. now apply Z.mod_small. Qed.

(** the loop over an ordered, non-overlapping cue list that starts at or after [cur] and ends by [top] *)
Lemma wvtt_loop_spec top : forall cues cur, 0 <= cur -> top < two64 -> top - cur < two32 ->
  cues_chain cur top cues ->
  let '(ss, e) := wvtt_loop cues cur in
  tiles cur ss e /\ cur <= e <= top /\ cue_samples ss = map sample_of_cue cues.
Proof.
  induction cues as [|c rest IH]; intros cur Hcur Htop Hlen Hch; cbn [wvtt_loop cues_chain] in *.
  - cbn [tiles cue_samples filter map]. repeat split; lia.
  - destruct Hch as (H1 & H2 & H3).
    assert (Hend : c_end c <= top).
    { clear - H3. revert H3. generalize (c_end c). induction rest as [|x r IHr]; intros z; cbn [cues_chain]; [lia|].
      intros (A & B & C). specialize (IHr _ C). lia. }
    specialize (IH (c_end c) ltac:(lia) Htop ltac:(lia) H3).
    destruct (wvtt_loop rest (c_end c)) as [more e]. destruct IH as (IHt & IHe & IHc).
    rewrite (u64_small' cur), (u32_small (c_start c - cur)), (u64_small' (c_start c)),
            (u32_small (c_end c - c_start c)) by lia.
    assert (Hsmp : tiles (c_start c) ({| w_time := c_start c; w_dur := c_end c - c_start c; w_cue := Some (c_utc c) |} :: more) e).
    { cbn [tiles w_time w_dur]. repeat split; try lia.
      replace (c_start c + (c_end c - c_start c)) with (c_end c) by lia. exact IHt. }
    destruct (c_start c >? cur) eqn:Eg.
    + split; [|split; [lia|]].
      * cbn [app tiles w_time w_dur]. split; [reflexivity|]. split; [lia|].
        replace (cur + (c_start c - cur)) with (c_start c) by lia. exact Hsmp.
      * cbn [app cue_samples filter w_cue map]. fold (cue_samples more). rewrite IHc. reflexivity.
    + assert (c_start c = cur) by lia.
      split; [|split; [lia|]].
      * cbn [app]. rewrite <- H. exact Hsmp.
      * cbn [app cue_samples filter w_cue map]. fold (cue_samples more). rewrite IHc. reflexivity.
Qed.

(** C12_wvtt_tiles: for any ordered, non-overlapping cue list inside the segment [s, s+d) (d a uint32,
    no uint64 wrap) the wvtt samples are contiguous from s, end at s+d (durations sum to d), every
    cue is exactly one sample with the cue's interval and UTC second, everything else is a vtte gap *)
Theorem wvtt_samples_tile s d cues : 0 <= s -> 0 <= d < two32 -> s + d < two64 ->
  cues_chain s (s + d) cues ->
  tiles s (wvtt_samples s d cues) (s + d) /\
  cue_samples (wvtt_samples s d cues) = map sample_of_cue cues.
Proof.
  intros Hs Hd Hmax Hch. unfold wvtt_samples.
  pose proof (wvtt_loop_spec (s + d) cues s Hs Hmax ltac:(lia) Hch) as H.
  destruct (wvtt_loop cues s) as [ss e]. destruct H as (Ht & He & Hc).
  destruct (e <? s + d) eqn:El.
  - split.
    + apply (tiles_app s ss e); [exact Ht|]. cbn [tiles w_time w_dur].
      rewrite u64_small', u32_small by lia. repeat split; lia.
    + unfold cue_samples in *. rewrite filter_app. cbn [filter w_cue]. rewrite app_nil_r. exact Hc.
  - assert (e = s + d) by lia. subst e. split; assumption.
Qed.

(** sum of the sample durations of a tiling *)
Fixpoint total_dur (ss : list wsample) : Z := match ss with [] => 0 | x :: r => w_dur x + total_dur r end.
Lemma tiles_total st ss e : tiles st ss e -> total_dur ss = e - st.
Proof.
  revert st. induction ss as [|x r IH]; intros st; cbn [tiles total_dur]; [lia|].
  intros (H1 & H2 & H3). rewrite (IH _ H3). lia.
Qed.

(** ** The whole segment *)

Lemma i64_small x : 0 <= x < two63 -> i64 x = x.
Proof. intros. unfold i64. rewrite Z.mod_small; unfold two63, two64 in *; lia. Qed.

Lemma chain_bounds lo hi cs : cues_chain lo hi cs ->
  lo <= hi /\ forall x, In x cs -> lo <= c_start x /\ c_start x < c_end x /\ c_end x <= hi.
Proof.
  revert lo. induction cs as [|y r IH]; intros lo; cbn [cues_chain].
  - intros; split; [lia|intros x []].
  - intros (A & B & C). destruct (IH _ C) as (D & E). split; [lia|].
    intros x [<-|Hin]; [lia|]. specialize (E x Hin). lia.
Qed.

Lemma ttml_id ms : 0 <= ms -> ttml_ms (msToTTML ms) = ms.
Proof. intros H. pose proof (ttml_roundtrip ms H) as R. destruct (msToTTML ms) as [[[h m] s] f]. tauto. Qed.

(** C12_segment: sequence number, decode time and duration are those of the reference video segment
    converted to milliseconds by rep2SubsTime; the TTML cues read back from the printed times and the
    wvtt samples are the specified cue list for the UTC time T + startTime; the wvtt samples tile
    [T, T+D). Domain: cue duration 1..1000, D a positive uint32, no int64 overflow. *)
Theorem subs_segment_spec r startS c :
  let T := rep2SubsTime (r_time r) (r_ts r) in
  let D := rep2SubsTime (r_dur r) (r_ts r) in
  let U := T + startS * 1000 in
  1 <= c <= 1000 -> 0 <= T -> 0 < D < two32 -> 0 <= startS -> U + D < two63 ->
  exists sg, subs_segment r startS c = Ok sg /\
    s_nr sg = r_nr r /\ s_time sg = T /\ s_dur sg = D /\
    s_cues sg = cues_spec T D U c /\
    s_samples sg = wvtt_samples T D (cues_spec T D U c) /\
    cues_chain T (T + D) (cues_spec T D U c) /\
    tiles T (s_samples sg) (T + D) /\
    cue_samples (s_samples sg) = map sample_of_cue (cues_spec T D U c).
Proof.
  intros T D U Hc HT HD HS Hmax.
  assert (HU : 0 <= U) by (subst U; lia).
  unfold subs_segment. fold T. fold D.
  rewrite (u32_small D) by lia.
  assert (E1 : u64 (startS * 1000) = startS * 1000) by (apply u64_small'; unfold two63, two64 in *; lia).
  rewrite E1. fold U.
  rewrite (u64_small' U) by (unfold two63, two64 in *; lia).
  rewrite (i64_small T), (i64_small U) by (unfold two63 in *; lia).
  rewrite (calcCueItvls_spec T D U c Hc ltac:(lia) HU). cbn [bind].
  pose proof (cues_spec_chain T D U c Hc ltac:(lia) HU) as Hch.
  replace (T + D) with (T + D) in Hch by reflexivity.
  destruct (wvtt_samples_tile T D (cues_spec T D U c) HT ltac:(lia) ltac:(unfold two63, two64 in *; lia) Hch) as (Ht & Hcs).
  eexists. split; [reflexivity|]. cbn [s_nr s_time s_dur s_cues s_samples].
  repeat split; try assumption.
  destruct (chain_bounds _ _ _ Hch) as (_ & Hb).
  rewrite <- (map_id (cues_spec T D U c)) at 2. apply map_ext_in. intros x Hin.
  destruct (Hb x Hin) as (B1 & B2 & B3).
  rewrite !ttml_id by lia. destruct x; reflexivity.
Qed.

(** ** Milliseconds: the exact twins *)

Lemma rep2SubsTime_exact_grid t ts : 0 < ts -> 0 <= t -> (t * 1000) mod ts = 0 ->
  rep2SubsTime_exact t ts = t * 1000 / ts.
Proof.
  intros Hts Ht Hg. unfold rep2SubsTime_exact.
  apply Z.mod_divide in Hg; [|lia]. destruct Hg as [k Hk].
  replace (2 * t * 1000 + ts) with (ts + k * (2 * ts)) by lia.
  rewrite Z.div_add by lia. rewrite Hk, Z.div_mul by lia.
  rewrite Z.div_small; lia.
Qed.

(** on the millisecond grid the subtitle segments are contiguous like the video segments *)
Lemma exact_grid_additive t d ts : 0 < ts -> 0 <= t -> 0 <= d ->
  (t * 1000) mod ts = 0 -> (d * 1000) mod ts = 0 ->
  rep2SubsTime_exact (t + d) ts = rep2SubsTime_exact t ts + rep2SubsTime_exact d ts.
Proof.
  intros Hts Ht Hd Gt Gd.
  assert (Gs : ((t + d) * 1000) mod ts = 0).
  { replace ((t + d) * 1000) with (t * 1000 + d * 1000) by ring.
    rewrite Z.add_mod, Gt, Gd by lia. reflexivity. }
  rewrite !rep2SubsTime_exact_grid by (try assumption; lia).
  apply Z.mod_divide in Gt; [|lia]. apply Z.mod_divide in Gd; [|lia].
  destruct Gt as [a Ha], Gd as [b Hb].
  replace ((t + d) * 1000) with ((a + b) * ts) by lia. rewrite Ha, Hb, !Z.div_mul by lia. reflexivity.
Qed.

(** the $Time$ request of a subtitle segment finds the video segment again (on the grid):
    nrOrTime * MediaTimescale / 1000 is the video time *)
Lemma subs_time_to_video_grid t ts : 0 < ts -> 0 <= t -> t * 1000 < two64 -> (t * 1000) mod ts = 0 ->
  subs_time_to_video (t * 1000 / ts) ts = t.
Proof.
  intros Hts Ht Hmax Hg. unfold subs_time_to_video.
  apply Z.mod_divide in Hg; [|lia]. destruct Hg as [k Hk].
  rewrite Hk, Z.div_mul by lia.
  assert (0 <= k) by nia.
  replace (k * ts) with (t * 1000) by lia.
  rewrite Z.quot_div_nonneg by lia. replace (t * 1000) with (1000 * t) by ring.
  rewrite Z.mul_comm, Z.div_mul by lia. apply u64_small'. unfold two64 in *. lia.
Qed.

(** off the grid it does not: 29.97 fps frames at timescale 30000 (1601.6 ms segments) *)
Theorem subs_time_to_video_offgrid_witness :
  let t := 48048 in let ts := 30000 in   (* 48 frames of 1001 ticks = 1.6016 s *)
  rep2SubsTime t ts = 1602 /\ subs_time_to_video 1602 ts = 48060 /\ 48060 <> t.
Proof. vm_compute. repeat split; discriminate. Qed.

(** ** MPD: the subtitle timeline mirrors the video timeline *)
Lemma changeTimelineTimescale_shape oldTS newTS stl :
  map se_r (changeTimelineTimescale oldTS newTS stl) = map se_r stl /\
  map se_d (changeTimelineTimescale oldTS newTS stl) = map (fun s => scale_round oldTS newTS (se_d s)) stl /\
  map se_t (changeTimelineTimescale oldTS newTS stl) = map (fun s => option_map (scale_round oldTS newTS) (se_t s)) stl.
Proof. unfold changeTimelineTimescale. rewrite !map_map. repeat split. Qed.

Lemma scale_exact_ms ts t : scale_exact ts 1000 t = rep2SubsTime_exact t ts.
Proof. reflexivity. Qed.

(** on the millisecond grid scaling is linear: the k-th segment of an S element (t, d, r) starts at
    scale t + k * scale d, so the subtitle timeline lists exactly the video segment starts in ms *)
Lemma exact_grid_linear t d n ts : 0 < ts -> 0 <= t -> 0 <= d -> 0 <= n ->
  (t * 1000) mod ts = 0 -> (d * 1000) mod ts = 0 ->
  rep2SubsTime_exact (t + n * d) ts = rep2SubsTime_exact t ts + n * rep2SubsTime_exact d ts.
Proof.
  intros Hts Ht Hd Hn Gt Gd.
  assert (Gs : ((t + n * d) * 1000) mod ts = 0).
  { replace ((t + n * d) * 1000) with (t * 1000 + n * (d * 1000)) by ring.
    apply Z.mod_divide; [lia|]. apply Z.divide_add_r; [apply Z.mod_divide; [lia|exact Gt]|].
    apply Z.divide_mul_r. apply Z.mod_divide; [lia|exact Gd]. }
  rewrite !rep2SubsTime_exact_grid by (try assumption; nia).
  apply Z.mod_divide in Gt; [|lia]. apply Z.mod_divide in Gd; [|lia].
  destruct Gt as [a Ha], Gd as [b Hb].
  replace ((t + n * d) * 1000) with ((a + n * b) * ts) by nia. rewrite Ha, Hb, !Z.div_mul by lia. reflexivity.
Qed.

(** ** The repaired changeTimelineTimescale (boundaries converted one by one) *)
(** contiguity of a segment list: a segment that is not a reset starts where the previous one ends *)
Fixpoint chain (prev : option Z) (segs : list tseg) : Prop :=
  match segs with
  | [] => True
  | (b, st, D) :: r => (b = true \/ prev = Some st) /\ chain (Some (st + D)) r
  end.

Lemma rle_r_nonneg segs : Forall (fun s => 0 <= se_r s) (rle segs).
Proof.
  induction segs as [|[[b st] D] rest IH]; cbn [rle]; [constructor|].
  destruct (rle rest) as [|[t' D' r] more] eqn:E.
  - constructor; [cbn; lia|constructor].
  - destruct t'.
    + constructor; [cbn; lia|exact IH].
    + inversion IH; subst. cbn [se_r] in *.
      destruct (D' =? D).
      * constructor; [cbn [se_r]; lia|assumption].
      * constructor; [cbn [se_r]; lia|]. constructor; [cbn [se_r]; assumption|assumption].
Qed.

Definition t0_of (T : option Z) (t : Z) : Z := match T with Some x => x | None => t end.

Lemma expand_single T D more t :
  expand t ({| se_t := T; se_d := D; se_r := 0 |} :: more) = (t0_of T t, D) :: expand (t0_of T t + D) more.
Proof.
  cbn [expand se_t se_d se_r]. change (Z.to_nat (0 + 1)) with 1%nat. cbn [runs app]. unfold t0_of.
  do 2 f_equal. lia.
Qed.

Lemma expand_succ T D r more t : 0 <= r ->
  expand t ({| se_t := T; se_d := D; se_r := r + 1 |} :: more) =
  (t0_of T t, D) :: expand (t0_of T t + D) ({| se_t := None; se_d := D; se_r := r |} :: more).
Proof.
  intros Hr. cbn [expand se_t se_d se_r]. fold (t0_of T t).
  replace (Z.to_nat (r + 1 + 1)) with (S (Z.to_nat (r + 1))) by lia.
  cbn [runs app]. f_equal. f_equal. f_equal. lia.
Qed.

(** run-length compression loses nothing: reading the compressed timeline gives the segments back *)
Lemma expand_rle segs : forall prev t, chain prev segs -> (prev = Some t \/ prev = None) ->
  expand t (rle segs) = map (fun x : tseg => let '(_, st, D) := x in (st, D)) segs.
Proof.
  induction segs as [|[[b st] D] rest IH]; intros prev t Hc Hp; [reflexivity|].
  cbn [chain] in Hc. destruct Hc as [Hb Hrest].
  assert (Ht0 : t0_of (if b then Some st else None) t = st).
  { unfold t0_of. destruct b; [reflexivity|]. destruct Hb as [Hb|Hb]; [discriminate|]. destruct Hp as [Hp|Hp]; congruence. }
  specialize (IH (Some (st + D)) (st + D) Hrest (or_introl eq_refl)).
  cbn [rle map].
  pose proof (rle_r_nonneg rest) as Hnn.
  destruct (rle rest) as [|[t' D' r] more] eqn:E.
  - rewrite expand_single, Ht0. f_equal. exact IH.
  - destruct t' as [x|].
    + rewrite expand_single, Ht0. f_equal. exact IH.
    + inversion Hnn as [|? ? Hr _]; subst. cbn [se_r] in Hr.
      destruct (D' =? D) eqn:ED.
      * assert (D' = D) by lia. subst D'.
        rewrite expand_succ by exact Hr. rewrite Ht0. f_equal. exact IH.
      * rewrite expand_single, Ht0. f_equal. exact IH.
Qed.

Lemma chain_app a : forall prev b, chain prev a ->
  chain (match a with [] => prev | _ => let '(_, st, D) := last a (true, 0, 0) in Some (st + D) end) b ->
  chain prev (a ++ b).
Proof.
  induction a as [|[[f st] D] r IH]; intros prev b Ha Hb; [exact Hb|].
  cbn [app chain] in *. destruct Ha as [H1 H2]. split; [exact H1|].
  apply IH; [exact H2|]. destruct r as [|y r']; [exact Hb|exact Hb].
Qed.

Lemma reps_chain sc n : forall fl t d prev, (fl = true \/ prev = Some (sc t)) ->
  chain prev (map (conv sc) (reps n fl t d)).
Proof.
  induction n as [|n IH]; intros fl t d prev H; [exact I|].
  cbn [reps map conv chain]. split; [exact H|].
  apply IH. right. f_equal. lia.
Qed.

Lemma reps_last sc n fl t d : n <> O ->
  (let '(_, st, D) := last (map (conv sc) (reps n fl t d)) (true, 0, 0) in st + D) = sc (t + Z.of_nat n * d).
Proof.
  revert fl t. induction n as [|n IH]; intros fl t Hn; [congruence|].
  destruct n as [|k].
  - cbn [reps map conv last]. replace (t + Z.of_nat 1 * d) with (t + d) by lia. lia.
  - change (reps (S (S k)) fl t d) with ((fl, t, d) :: reps (S k) false (t + d) d).
    cbn [map]. change (last (conv sc (fl, t, d) :: map (conv sc) (reps (S k) false (t + d) d)) (true, 0, 0))
      with (last (map (conv sc) (reps (S k) false (t + d) d)) (true, 0, 0)).
    rewrite IH by congruence. f_equal. lia.
Qed.

Lemma segments_chain sc l : forall first t prev, (first = true \/ prev = Some (sc t)) ->
  chain prev (map (conv sc) (segments_from first t l)).
Proof.
  induction l as [|s rest IH]; intros first t prev H; [exact I|].
  cbn [segments_from]. rewrite map_app.
  set (fl := match se_t s with Some _ => true | None => first end).
  set (t0 := match se_t s with Some x => x | None => t end).
  assert (Hfl : fl = true \/ prev = Some (sc t0)).
  { subst fl t0. destruct (se_t s); [now left|exact H]. }
  apply chain_app.
  - apply reps_chain. exact Hfl.
  - destruct (Z.to_nat (se_r s + 1)) as [|k] eqn:En.
    + cbn [reps map]. apply IH. rewrite Z.mul_0_l, Z.add_0_r. exact Hfl.
    + pose proof (reps_last sc (S k) fl t0 (se_d s) ltac:(congruence)) as HL.
      destruct (map (conv sc) (reps (S k) fl t0 (se_d s))) as [|y ys] eqn:Em; [discriminate|].
      destruct (last (y :: ys) (true, 0, 0)) as [[f st] D]. apply IH. right. f_equal. exact HL.
Qed.

(** the repaired changeTimelineTimescale: every listed segment starts at the scaled start of the
    video segment and lasts until the scaled end, whatever the window and the run-length structure *)
Theorem timelineB_listed oldTS newTS stl t :
  expand t (changeTimelineTimescaleB oldTS newTS stl) =
  map (fun x : tseg => let '(_, st, d) := x in
         (scale_round oldTS newTS st, scale_round oldTS newTS (st + d) - scale_round oldTS newTS st))
      (segments_from true 0 stl).
Proof.
  unfold changeTimelineTimescaleB.
  rewrite (expand_rle _ None t); [|apply segments_chain; now left|now right].
  rewrite map_map. apply map_ext. intros [[b st] d]. reflexivity.
Qed.
