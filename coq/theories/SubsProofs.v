(** Proofs for C12 (generated time subtitles). *)
From Coq Require Import Floats.
From Verif Require Import GoSem GoSemFacts Subs.
From Coq Require Import ZifyBool.

(** ** cueFullS is 1 on the domain 1..1000 (bounded: all 1000 values evaluated in binary64) *)
Lemma In_seqZ n : forall a x, In x (seqZ a n) <-> a <= x < a + Z.of_nat n.
Proof.
  induction n as [|n IH]; intros a x; cbn [seqZ In].
  - lia.
  - rewrite IH. lia.
Qed.

Lemma cueFullS_one_table : forallb (fun c => cueFullS c =? 1) (seqZ 1 1000) = true.
Proof. vm_compute. reflexivity. Qed.

Lemma cueFullS_one c : 1 <= c <= 1000 -> cueFullS c = 1.
Proof.
  intros Hc. pose proof cueFullS_one_table as H. rewrite forallb_forall in H.
  specialize (H c). rewrite In_seqZ in H. specialize (H ltac:(lia)). lia.
Qed.

(** ** The specification of the cue list: one cue per UTC second that intersects [u, u+d) *)
Definition cue_of (s d u c q : Z) : cue :=
  {| c_start := Z.max (q * 1000) u + (s - u); c_end := Z.min (q * 1000 + c) (u + d) + (s - u); c_utc := q |}.

Definition first_sec (u : Z) : Z := u / 1000.
Definition last_sec (u d : Z) : Z := (u + d - 1) / 1000.

Definition cues_spec (s d u c : Z) : list cue :=
  map (cue_of s d u c) (seqZ (first_sec u) (Z.to_nat (last_sec u d - first_sec u + 1))).

Lemma cue_at_inside s d u c q : q * 1000 < u + d ->
  cue_at s d u c q = Some (cue_of s d u c q).
Proof.
  intros Hq. unfold cue_at, cue_of.
  destruct (q * 1000 =? u + d) eqn:E; [lia|].
  f_equal. f_equal.
  - destruct (q * 1000 <? u) eqn:E1; lia.
  - destruct (u + d <? q * 1000 + c) eqn:E2; lia.
Qed.

Lemma cue_loop_spec s d u c hi : 0 < d -> 0 <= u -> hi = (u + d) / 1000 ->
  forall fuel q, last_sec u d + 1 - q <= Z.of_nat fuel -> q <= last_sec u d + 1 ->
  cue_loop fuel s d u c 1 hi q = map (cue_of s d u c) (seqZ q (Z.to_nat (last_sec u d + 1 - q))).
Proof.
  intros Hd Hu Hhi. unfold last_sec.
  assert (Hl : ((u + d - 1) / 1000) * 1000 <= u + d - 1 < ((u + d - 1) / 1000) * 1000 + 1000).
  { pose proof (Z.div_mod (u + d - 1) 1000 ltac:(lia)). pose proof (Z.mod_pos_bound (u + d - 1) 1000 ltac:(lia)). lia. }
  assert (Hh : hi * 1000 <= u + d < hi * 1000 + 1000).
  { subst hi. pose proof (Z.div_mod (u + d) 1000 ltac:(lia)). pose proof (Z.mod_pos_bound (u + d) 1000 ltac:(lia)). lia. }
  set (L := (u + d - 1) / 1000) in *.
  induction fuel as [|k IH]; intros q Hf Hq.
  - assert (q = L + 1) by lia. subst q. replace (L + 1 - (L + 1)) with 0 by lia. reflexivity.
  - cbn [cue_loop]. destruct (q <=? hi) eqn:Ele.
    + destruct (Z.eq_dec (q * 1000) (u + d)) as [Eq|Ne].
      * unfold cue_at. replace (q * 1000 =? u + d) with true by lia.
        assert (q = L + 1) by lia. subst q. replace (L + 1 - (L + 1)) with 0 by lia. reflexivity.
      * assert (q * 1000 < u + d) by lia.
        assert (q <= L) by lia.
        rewrite cue_at_inside by assumption.
        replace (Z.to_nat (L + 1 - q)) with (S (Z.to_nat (L + 1 - (q + 1)))) by lia.
        cbn [seqZ map]. f_equal. apply IH; lia.
    + assert (q = L + 1) by lia. subst q. replace (L + 1 - (L + 1)) with 0 by lia. reflexivity.
Qed.

(** C12_cues, first half: for cue durations 1..1000 ms, a non-empty segment and a non-negative UTC
    start, calcCueItvls returns exactly the specified list: one cue per UTC second that intersects
    [u, u+d), in order *)
Theorem calcCueItvls_spec s d u c : 1 <= c <= 1000 -> 0 < d -> 0 <= u ->
  calcCueItvls s d u c = Ok (cues_spec s d u c).
Proof.
  intros Hc Hd Hu. unfold calcCueItvls. rewrite (cueFullS_one c Hc).
  change (1 * 1000 =? 0) with false. change (1 <? 0) with false. cbv iota.
  change (1 * 1000) with 1000.
  rewrite !Z.quot_div_nonneg by lia.
  f_equal. unfold cues_spec, first_sec.
  assert (Hlo : u / 1000 <= last_sec u d).
  { unfold last_sec. apply Z.div_le_mono; lia. }
  assert (Hhi : last_sec u d <= (u + d) / 1000).
  { unfold last_sec. apply Z.div_le_mono; lia. }
  rewrite (cue_loop_spec s d u c ((u + d) / 1000) Hd Hu eq_refl) by lia.
  do 2 f_equal. lia.
Qed.

(** which seconds: exactly those whose interval [q*1000, (q+1)*1000) meets [u, u+d) *)
Lemma cues_spec_seconds s d u c q : 0 < d -> 0 <= u ->
  (In q (map c_utc (cues_spec s d u c)) <-> q * 1000 < u + d /\ u < (q + 1) * 1000).
Proof.
  intros Hd Hu. unfold cues_spec. rewrite map_map. cbn [c_utc cue_of]. rewrite map_id.
  rewrite In_seqZ. unfold first_sec, last_sec.
  pose proof (Z.div_mod u 1000 ltac:(lia)). pose proof (Z.mod_pos_bound u 1000 ltac:(lia)).
  pose proof (Z.div_mod (u + d - 1) 1000 ltac:(lia)). pose proof (Z.mod_pos_bound (u + d - 1) 1000 ltac:(lia)).
  assert (u / 1000 <= (u + d - 1) / 1000) by (apply Z.div_le_mono; lia).
  lia.
Qed.

Lemma cues_spec_utc s d u c :
  map c_utc (cues_spec s d u c) = seqZ (first_sec u) (Z.to_nat (last_sec u d - first_sec u + 1)).
Proof. unfold cues_spec. rewrite map_map. cbn [c_utc cue_of]. apply map_id. Qed.

(** ordered, non-overlapping, inside the segment: as a chain predicate *)
Fixpoint cues_chain (lo hi : Z) (cs : list cue) : Prop :=
  match cs with
  | [] => lo <= hi
  | x :: r => lo <= c_start x /\ c_start x < c_end x /\ cues_chain (c_end x) hi r
  end.

Lemma chain_spec_from s d u c : 1 <= c <= 1000 -> 0 < d -> 0 <= u ->
  forall n q, first_sec u < q -> q + Z.of_nat n = last_sec u d + 1 ->
  forall lo, lo <= q * 1000 + (s - u) -> lo <= s + d ->
  cues_chain lo (s + d) (map (cue_of s d u c) (seqZ q n)).
Proof.
  intros Hc Hd Hu. unfold first_sec, last_sec.
  pose proof (Z.div_mod u 1000 ltac:(lia)) as D1. pose proof (Z.mod_pos_bound u 1000 ltac:(lia)) as B1.
  pose proof (Z.div_mod (u + d - 1) 1000 ltac:(lia)) as D2. pose proof (Z.mod_pos_bound (u + d - 1) 1000 ltac:(lia)) as B2.
  induction n as [|n IH]; intros q Hq Hn lo Hlo Hlo2; cbn [seqZ map cues_chain].
  - lia.
  - cbn [cue_of c_start c_end]. split; [lia|]. split; [lia|].
    apply IH; lia.
Qed.

(** C12_cues, second half: if the first second's cue has not already ended when the segment starts
    ([u mod 1000 < c]) every cue has begin < end, consecutive cues do not overlap, and all lie
    inside [s, s+d) *)
Theorem cues_spec_chain s d u c : 1 <= c <= 1000 -> 0 < d -> 0 <= u -> u mod 1000 < c ->
  cues_chain s (s + d) (cues_spec s d u c).
Proof.
  intros Hc Hd Hu Hvis. unfold cues_spec.
  pose proof (Z.div_mod u 1000 ltac:(lia)) as D1. pose proof (Z.mod_pos_bound u 1000 ltac:(lia)) as B1.
  pose proof (Z.div_mod (u + d - 1) 1000 ltac:(lia)) as D2. pose proof (Z.mod_pos_bound (u + d - 1) 1000 ltac:(lia)) as B2.
  assert (Hle : first_sec u <= last_sec u d) by (unfold first_sec, last_sec; apply Z.div_le_mono; lia).
  replace (Z.to_nat (last_sec u d - first_sec u + 1)) with (S (Z.to_nat (last_sec u d - first_sec u))) by lia.
  cbn [seqZ map cues_chain]. unfold first_sec, last_sec in *.
  cbn [cue_of c_start c_end]. split; [lia|]. split; [lia|].
  apply (chain_spec_from s d u c Hc Hd Hu); unfold first_sec, last_sec; lia.
Qed.

(** FINDING (late start): 29.97 fps asset, segment 475: u = 950950, d = 2002, default cue duration 900:
    u mod 1000 = 950 >= 900, the first cue has end < begin *)
Theorem late_start_witness :
  calcCueItvls 950950 2002 950950 900 =
  Ok [ {| c_start := 950950; c_end := 950900; c_utc := 950 |};
       {| c_start := 951000; c_end := 951900; c_utc := 951 |};
       {| c_start := 952000; c_end := 952900; c_utc := 952 |} ]
  /\ ~ cues_chain 950950 (950950 + 2002) (cues_spec 950950 2002 950950 900).
Proof. split; [vm_compute; reflexivity|]. vm_compute. intros (_ & H & _). discriminate. Qed.

(** FINDING (long cue): cue duration 1001 ms, segment [90 s, 92 s): cueFullS = 2, the loop variable
    counts units of 2 s but is used as a second: one cue for UTC second 45 with end < begin *)
Theorem long_cue_witness :
  cueFullS 1001 = 2 /\
  calcCueItvls 90000 2000 90000 1001 = Ok [ {| c_start := 90000; c_end := 46001; c_utc := 45 |} ].
Proof. split; vm_compute; reflexivity. Qed.

(** cue duration <= 0: calcCueItvls itself divides by zero for -999..0; the configuration refuses it (400) *)
Theorem zero_cue_panics : forall s d u, calcCueItvls s d u 0 = Panic "app.calcCueItvls:integer divide by zero".
Proof. intros. unfold calcCueItvls. replace (cueFullS 0) with 0 by (vm_compute; reflexivity). reflexivity. Qed.

Lemma zero_cue_rejected c region : c <= 0 -> cfg_timesubs_status c region = 400.
Proof. intros. unfold cfg_timesubs_status. destruct (c <=? 0) eqn:E; [reflexivity|lia]. Qed.

(** ** msToTTMLTime *)
Theorem ttml_roundtrip ms : 0 <= ms ->
  let '(h, m, s, f) := msToTTML ms in
  ttml_ms (msToTTML ms) = ms /\ 0 <= h /\ 0 <= m < 60 /\ 0 <= s < 60 /\ 0 <= f < 1000.
Proof.
  intros Hms. unfold msToTTML, ttml_ms.
  rewrite (Z.quot_div_nonneg ms), (Z.rem_mod_nonneg ms) by lia.
  pose proof (Z.mod_pos_bound ms 3600000 ltac:(lia)).
  rewrite (Z.quot_div_nonneg (ms mod 3600000)), (Z.rem_mod_nonneg (ms mod 3600000)) by lia.
  pose proof (Z.mod_pos_bound (ms mod 3600000) 60000 ltac:(lia)).
  rewrite (Z.quot_div_nonneg ((ms mod 3600000) mod 60000)), (Z.rem_mod_nonneg ((ms mod 3600000) mod 60000)) by lia.
  Zify.zify. Z.div_mod_to_equations. lia.
Qed.
