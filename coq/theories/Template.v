(** Model of the $Number$ template of the live MPD (livempd.go: adjustAdaptationSetForSegmentNumber for a
    non-audio adaptation set, calcPublishTime in Number mode): the MPD carries no list of
    segments; a client derives them from startNumber, @duration / @timescale,
    availabilityStartTime, availabilityTimeOffset and timeShiftBufferDepth.
    Definitions only; proofs in TemplateProofs.v. *)
From Verif Require Import GoSem Timeline.

(** @duration: uint32(rep.duration() / len(rep.Segments)), Go integer division *)
Definition templDur (r : rep) : Z := u32 (Z.quot (repDuration r) (nsegs r)).

Record template := {
  t_startNumber : Z;     (* @startNumber = uint32(cfg.StartNr) *)
  t_duration : Z;        (* @duration *)
  t_timescale : Z;       (* @timescale *)
  t_publishMS : Z        (* publishTime: the start of the stream, nothing changes after it *)
}.

(** The template fields of the MPD generated at [now] (LiveMPD takes the instant; the fields do
    not use it). *)
Definition numberMPD (r : rep) (c : tcfg) (now : Z) : template :=
  {| t_startNumber := u32 (startNr c); t_duration := templDur r; t_timescale := u32 (ts r);
     t_publishMS := startS c * 1000 |}.

(** end of the segment with number [k] as the template implies it, in ticks since
    availabilityStartTime: (k - startNumber + 1) * @duration *)
Definition implEnd (r : rep) (c : tcfg) (k : Z) : Z := (k - startNr c + 1) * templDur r.

(** the implied availability instant of number [k] in (ms * timescale):
    (availabilityStartTime + implEnd / timescale - availabilityTimeOffset) *)
Definition implAvail (r : rep) (c : tcfg) (atoMS k : Z) : Z :=
  (implEnd r c k + startS c * ts r) * 1000 - atoMS * ts r.
