(** Proofs about the $Number$ template (Template.v), the stop time and the publishTime witnesses
    (C02 template part, C05). *)
From Verif Require Import GoSem GoSemFacts Timeline TimelineProofs Publish Window WindowProofs Template.
From Coq Require Import ZifyBool.
Ltac Zify.zify_post_hook ::= Z.div_mod_to_equations.

(** * Constant segment duration: the template describes the looped timeline exactly *)

Lemma templDur_const r loopMS d : wf r loopMS -> const_dur r d -> d < two32 -> templDur r = d.
Proof.
  intros W Hc Hd. unfold templDur. rewrite (const_D r loopMS W d Hc).
  pose proof (nsegs_pos r loopMS W). pose proof (const_d_pos r loopMS W d Hc).
  rewrite Z.mul_comm, Z.quot_mul by lia. apply u32_id. lia.
Qed.

Theorem template_timeline r loopMS d : wf r loopMS -> const_dur r d -> d < two32 ->
  templDur r = d /\ forall n, 0 <= n -> S r n = n * templDur r /\ E r n = (n + 1) * templDur r.
Proof.
  intros W Hc Hd. rewrite (templDur_const r loopMS d W Hc Hd). split; [reflexivity|].
  intros n Hn. exact (const_SE r loopMS W d n Hc Hn).
Qed.

(** the response to number [k] as the template fields imply it *)
Definition implied (r : rep) (c : tcfg) (atoMS k now : Z) : outcome segmeta :=
  let av := implAvail r c atoMS k in
  let M := (tsbdS c + tsbdMarginS) * 1000 * ts r in
  let n := k - startNr c in
  if now * ts r <? av then TTooEarly (round_div (av - now * ts r) (ts r))
  else if av + M <? now * ts r then TGone
  else TOk {| origTime := st (segAt r (n mod nsegs r)); newTime := u64 (n * templDur r);
              origNr := snr (segAt r (n mod nsegs r)); newNr := k;
              origDur := u32 (templDur r); newDur := u32 (templDur r); mtimescale := u32 (ts r) |}.

Theorem template_exact r loopMS c d atoMS k now :
  wf r loopMS -> const_dur r d -> d < two32 -> ato c = Some atoMS -> 0 <= atoMS ->
  0 <= startNr c <= k -> k < two32 ->
  lookup r loopMS c ByNumber k now = implied r c atoMS k now.
Proof.
  intros W Hc Hd Hato Ha Hk Hk2. pose proof (wf_ts _ _ W) as Hts.
  replace k with (startNr c + (k - startNr c)) at 1 by lia.
  rewrite lookup_number by lia. rewrite (segMetaFromNr_spec r loopMS W) by lia.
  replace (startNr c + (k - startNr c)) with k by lia.
  destruct (const_SE r loopMS W d (k - startNr c) Hc ltac:(lia)) as [HS HE].
  unfold implied, implAvail, implEnd. rewrite (templDur_const r loopMS d W Hc Hd).
  rewrite Hato. unfold checkTime, metaOf. rewrite HS, HE.
  replace (sdur (segAt r ((k - startNr c) mod nsegs r))) with d.
  2:{ pose proof (forall_at _ _ Hc ((k - startNr c) mod nsegs r)
                   (Z.mod_pos_bound _ _ (nsegs_pos r loopMS W))) as H. cbn beta in H. now rewrite <- segAt_atL in H. }
  assert (Hav : (if atoMS >? 0 then atoMS * ts r else 0) = atoMS * ts r).
  { destruct (atoMS >? 0) eqn:E0; [reflexivity|]. assert (atoMS = 0) by lia. subst. reflexivity. }
  rewrite Hav.
  set (av := ((k - startNr c + 1) * d + startS c * ts r) * 1000 - atoMS * ts r).
  set (nw := now * ts r). set (M := (tsbdS c + tsbdMarginS) * 1000 * ts r). clearbody av nw M.
  destruct (av >? nw) eqn:E1; destruct (nw <? av) eqn:E2; try lia; cbn [timed]; [reflexivity|].
  destruct (av <? nw - M) eqn:E3; destruct (av + M <? nw) eqn:E4; try lia; reflexivity.
Qed.

(** the implied set is the served set *)
Corollary template_served_iff r loopMS c d atoMS k now :
  wf r loopMS -> const_dur r d -> d < two32 -> ato c = Some atoMS -> 0 <= atoMS ->
  0 <= startNr c <= k -> k < two32 ->
  let av := implAvail r c atoMS k in
  ((exists m, lookup r loopMS c ByNumber k now = TOk m) <->
     av <= now * ts r <= av + (tsbdS c + tsbdMarginS) * 1000 * ts r) /\
  ((exists ms, lookup r loopMS c ByNumber k now = TTooEarly ms) <-> now * ts r < av) /\
  (lookup r loopMS c ByNumber k now = TGone <->
     av <= now * ts r /\ av + (tsbdS c + tsbdMarginS) * 1000 * ts r < now * ts r).
Proof.
  intros W Hc Hd Hato Ha Hk Hk2. cbv zeta.
  rewrite (template_exact r loopMS c d atoMS k now W Hc Hd Hato Ha Hk Hk2). unfold implied.
  set (av := implAvail r c atoMS k). set (M := (tsbdS c + tsbdMarginS) * 1000 * ts r). clearbody av M.
  destruct (now * ts r <? av) eqn:E1; [|destruct (av + M <? now * ts r) eqn:E2].
  - (split; [|split]); (split; intros H0); try discriminate; try (destruct H0; discriminate); try lia; eauto.
  - (split; [|split]); (split; intros H0); try discriminate; try (destruct H0; discriminate); try lia; eauto.
  - (split; [|split]); (split; intros H0); try discriminate; try (destruct H0; discriminate); try lia; eauto.
Qed.

(** the start number of the template is the configured one *)
Lemma numberMPD_startNumber r c now : 0 <= startNr c < two32 -> t_startNumber (numberMPD r c now) = startNr c.
Proof. intros H. cbn. now apply u32_id. Qed.

(** * Varying durations: the mean duration is truncated, the implied instants drift (finding
    number-template-mean-duration-truncated) *)
Definition drift_rep : rep :=
  {| segs := [ {| st := 0; en := 25600; snr := 1 |}; {| st := 25600; en := 38400; snr := 2 |};
               {| st := 38400; en := 76800; snr := 3 |}; {| st := 76800; en := 101376; snr := 4 |};
               {| st := 101376; en := 128000; snr := 5 |}; {| st := 128000; en := 133120; snr := 6 |};
               {| st := 133120; en := 153600; snr := 7 |} ];
     ts := 12800 |}.
Definition drift_cfg : tcfg := {| startS := 0; startNr := 0; tsbdS := 60; ato := Some 0 |}.

Lemma drift_rep_wf : wf drift_rep 12000.
Proof. constructor; cbn; try lia; try discriminate; repeat constructor; cbn; lia. Qed.

(** 7 segments in 12 s: @duration = 153600 / 7 = 21942 (exactly 21942.857).  For number 2000000 the
    template implies the end 43884021942 while the segment ends at 43885747200: 134.8 s later.  At
    the implied availability instant the server answers "too early" with 134786 ms to go. *)
Lemma template_drift_witness :
  exists r loopMS c atoMS n now,
    wf r loopMS /\ ato c = Some atoMS /\ 0 <= atoMS /\ 0 <= n /\ 0 <= startNr c /\ startNr c + n < two32 /\
    let k := startNr c + n in
    100000 * ts r < (E r n - implEnd r c k) * 1000 /\
    implAvail r c atoMS k <= now * ts r /\
    exists ms, lookup r loopMS c ByNumber k now = TTooEarly ms /\ 100000 < ms.
Proof.
  exists drift_rep, 12000, drift_cfg, 0, 2000000, 3428439215. split; [exact drift_rep_wf|].
  vm_compute. repeat split; try reflexivity; try discriminate.
  eexists. split; reflexivity.
Qed.

(** * Number mode: nothing depends on the instant *)
Theorem number_constant r c now1 now2 : numberMPD r c now1 = numberMPD r c now2.
Proof. reflexivity. Qed.

Theorem number_fields r c now :
  numberMPD r c now = {| t_startNumber := u32 (startNr c); t_duration := templDur r;
                         t_timescale := u32 (ts r); t_publishMS := startS c * 1000 |}.
Proof. reflexivity. Qed.

(** * After the stop time the MPD is static and frozen at the stop instant *)
Theorem static_after_stop r loopMS c stop now tsbdMS atoMS : stop * 1000 < now ->
  liveMPDView r loopMS c (Some stop) now tsbdMS atoMS
  = {| v_static := true; v_durS := Some (stop - startS c);
       v_publishMS := mpdPublishMS r loopMS c (stop * 1000) tsbdMS atoMS;
       v_content := mpdContent r loopMS c (stop * 1000) tsbdMS atoMS |}.
Proof.
  intros H. unfold liveMPDView, endTimeMS, afterStop. destruct (stop * 1000 <? now) eqn:E0; [reflexivity|lia].
Qed.

Corollary static_after_stop_eq r loopMS c stop now1 now2 tsbdMS atoMS :
  stop * 1000 < now1 -> stop * 1000 < now2 ->
  liveMPDView r loopMS c (Some stop) now1 tsbdMS atoMS = liveMPDView r loopMS c (Some stop) now2 tsbdMS atoMS.
Proof. intros H1 H2. now rewrite !static_after_stop. Qed.

Theorem dynamic_until_stop r loopMS c stop now tsbdMS atoMS :
  (forall s, stop = Some s -> now <= s * 1000) ->
  liveMPDView r loopMS c stop now tsbdMS atoMS
  = {| v_static := false; v_durS := None;
       v_publishMS := mpdPublishMS r loopMS c now tsbdMS atoMS;
       v_content := mpdContent r loopMS c now tsbdMS atoMS |}.
Proof.
  intros H. unfold liveMPDView, endTimeMS, afterStop. destruct stop as [s|]; [|reflexivity].
  specialize (H s eq_refl). destruct (s * 1000 <? now) eqn:E0; [lia|reflexivity].
Qed.

(** * A time-shift buffer that is not a whole number of segments (finding): same publishTime,
    different content

    4 x 2 s loop, tsbd 61 s, now = 100.5 s and 101.5 s: the newest segment is 49 both times
    (publishTime 100 s) but the window start moves over the end of segment 19 at 101 s. *)
Definition w61_cfg : tcfg := {| startS := 0; startNr := 0; tsbdS := 61; ato := Some 0 |}.

Lemma window_witness :
  exists r loopMS c tsbdMS atoMS now1 now2,
    wf r loopMS /\ 0 <= tsbdMS /\ 0 <= atoMS /\ startS c * 1000 <= now1 <= now2 /\
    0 <= window_last r c atoMS now1 /\
    mpdPublishMS r loopMS c now1 tsbdMS atoMS = mpdPublishMS r loopMS c now2 tsbdMS atoMS /\
    fst (mpdContent r loopMS c now1 tsbdMS atoMS) <> fst (mpdContent r loopMS c now2 tsbdMS atoMS).
Proof.
  exists ato_rep, 8000, w61_cfg, 61000, 0, 100500, 101500. split; [exact ato_rep_wf|].
  vm_compute. repeat split; try reflexivity; discriminate.
Qed.
