(** Model of the wrap arithmetic of cmd/livesim2/app: segment lookup by number and by time
    (livesegment.go: findSegMetaFromNr, findSegMetaFromTime, CheckTimeValidity, the dispatch of
    createOutSeg) and the timeline window of the MPD (livempd.go: calcWrapTimes; asset.go:
    generateTimelineEntries, findFirstFinishedSegIdx).

    Integers: Go [int] is 64 bit; the model computes in [Z] and writes the uint32 conversions
    explicitly.  float64: [CheckTimeValidity] compares [float64(ticks)/float64(ts) - ato] with
    [float64(nowMS)*0.001]; the model evaluates the same comparison in exact rational
    arithmetic (cross-multiplied integers), with ato given in whole milliseconds or +Inf.
    Agreement of the two on the millisecond grid is checked by the correspondence at every
    breakpoint and one millisecond on each side of it (DESIGN.md section 3, "float64"). *)
From Verif Require Import GoSem.

Record seg := { st : Z; en : Z; snr : Z }.
Definition sdur (s : seg) : Z := en s - st s.

Record rep := { segs : list seg; ts : Z }.

(** [ato = None] is +Inf; [Some ms] is a finite offset in milliseconds. *)
Record tcfg := { startS : Z; startNr : Z; tsbdS : Z; ato : option Z }.

Definition tsbdMarginS : Z := 10.   (* timeShiftBufferDepthMarginS, cross-checked with the source by constgen *)

Inductive outcome (A : Type) :=
| TOk (a : A)
| TTooEarly (ms : Z)
| TGone
| TNotFound
| TErr (msg : string)       (* any other error: HTTP 500 *)
| TPanic (site : string).
Arguments TOk {A} a. Arguments TTooEarly {A} ms. Arguments TGone {A}. Arguments TNotFound {A}.
Arguments TErr {A} msg. Arguments TPanic {A} site.

(** math.Round of the positive rational [x/d] *)
Definition round_div (x d : Z) : Z := (2 * x + d) / (2 * d).

Inductive tv := TvOk | TvTooEarly (ms : Z) | TvGone.

(** CheckTimeValidity; [availTicks/ts] is the availability instant in seconds. *)
Definition checkTime (availTicks tsc nowMS tsbd : Z) (a : option Z) : tv :=
  match a with
  | None => TvOk
  | Some atoMS =>
    let av := availTicks * 1000 - (if atoMS >? 0 then atoMS * tsc else 0) in   (* ms * ts *)
    let nw := nowMS * tsc in
    if av >? nw then TvTooEarly (round_div (av - nw) tsc)
    else if av <? nw - (tsbd + tsbdMarginS) * 1000 * tsc then TvGone
    else TvOk
  end.

Record segmeta := {
  origTime : Z; newTime : Z; origNr : Z; newNr : Z; origDur : Z; newDur : Z; mtimescale : Z
}.

Definition repDuration (r : rep) : Z :=
  match segs r with
  | [] => 0
  | s0 :: _ => en (last (segs r) s0) - st s0
  end.

Definition wrapDurOf (loopMS : Z) (r : rep) : Z := Z.quot (loopMS * ts r) 1000.

Definition timed {A} (t : tv) (k : outcome A) : outcome A :=
  match t with TvOk => k | TvTooEarly ms => TTooEarly ms | TvGone => TGone end.

(** findSegMetaFromNr *)
Definition segMetaFromNr (r : rep) (loopMS : Z) (c : tcfg) (nr nowMS : Z) : outcome segmeta :=
  let wrapLen := lenZ (segs r) in
  let nrAfterStart := nr - startNr c in
  if wrapLen =? 0 then TPanic "findSegMetaFromNr: integer divide by zero" else
  let nrWraps := Z.quot nrAfterStart wrapLen in
  let relNr := nrAfterStart - nrWraps * wrapLen in
  let wrapTime := nrWraps * wrapDurOf loopMS r in
  match nthZ relNr (segs r) with
  | None => TPanic "findSegMetaFromNr: index out of range"
  | Some s =>
    let segTime := wrapTime + st s in
    let mediaRef := startS c * ts r in
    timed (checkTime (en s + wrapTime + mediaRef) (ts r) nowMS (tsbdS c) (ato c))
      (TOk {| origTime := st s; newTime := u64 segTime; origNr := snr s; newNr := nr;
              origDur := u32 (sdur s); newDur := u32 (sdur s); mtimescale := u32 (ts r) |})
  end.

(** sort.Search(len, f): least index with [f]; for the monotone predicates used here a
    linear scan returns the same index. *)
Fixpoint searchIdx {A} (f : A -> bool) (l : list A) : Z :=
  match l with
  | [] => 0
  | x :: t => if f x then 0 else 1 + searchIdx f t
  end.

(** findSegMetaFromTime *)
Definition segMetaFromTime (r : rep) (loopMS : Z) (c : tcfg) (time nowMS : Z) : outcome segmeta :=
  let mediaRef := startS c * ts r in
  let wrapDur := wrapDurOf loopMS r in
  if wrapDur =? 0 then TPanic "findSegMetaFromTime: integer divide by zero" else
  let nrWraps := Z.quot time wrapDur in
  let wrapTime := nrWraps * wrapDur in
  let timeAfterWrap := time - wrapTime in
  let idx := searchIdx (fun s => st s >=? timeAfterWrap) (segs r) in
  match nthZ idx (segs r) with
  | None => TNotFound                      (* no matching segment: 404 *)
  | Some s =>
    if negb (st s =? timeAfterWrap) then TNotFound (* not a segment start: 404 *) else
    timed (checkTime (en s + wrapTime + mediaRef) (ts r) nowMS (tsbdS c) (ato c))
      (TOk {| origTime := st s; newTime := time; origNr := snr s;
              newNr := u32 (startNr c + idx + nrWraps * lenZ (segs r));
              origDur := u32 (sdur s); newDur := u32 (sdur s); mtimescale := u32 (ts r) |})
  end.

(** The dispatch of createOutSeg / findSegMeta for non-audio representations:
    [segID] is the integer in the URL. *)
Inductive addressing := ByNumber | ByTime.

Definition lookup (r : rep) (loopMS : Z) (c : tcfg) (mode : addressing) (segID nowMS : Z)
  : outcome segmeta :=
  match mode with
  | ByNumber =>
    let nr := u32 segID in
    if (segID >? maxu32) || (nr <? u32 (startNr c)) then TNotFound else segMetaFromNr r loopMS c nr nowMS
  | ByTime => segMetaFromTime r loopMS c (u64 segID) nowMS
  end.

(** ** Specification side: the looped timeline as a function of the segment index. *)

Definition nsegs (r : rep) : Z := lenZ (segs r).
Definition dseg : seg := {| st := 0; en := 0; snr := 0 |}.
Definition segAt (r : rep) (i : Z) : seg := match nthZ i (segs r) with Some s => s | None => dseg end.

(** start and end of segment [n] (counted from availabilityStartTime) in media ticks *)
Definition S (r : rep) (n : Z) : Z := (n / nsegs r) * repDuration r + st (segAt r (n mod nsegs r)).
Definition E (r : rep) (n : Z) : Z := (n / nsegs r) * repDuration r + en (segAt r (n mod nsegs r)).

Fixpoint contiguous (l : list seg) : Prop :=
  match l with
  | a :: ((b :: _) as t) => en a = st b /\ contiguous t
  | _ => True
  end.

(** Well-formed representation of an admitted asset (consolidateAsset's admission equation
    [1000*D = loopMS*ts] included). *)
Record wf (r : rep) (loopMS : Z) : Prop := {
  wf_nonempty : segs r <> [];
  wf_pos : Forall (fun s => st s < en s) (segs r);
  wf_contig : contiguous (segs r);
  wf_zero : st (segAt r 0) = 0;
  wf_ts : 0 < ts r;
  wf_loop : 1000 * repDuration r = loopMS * ts r
}.

(** ** The MPD side: calcWrapTimes and generateTimelineEntries *)

Record wrapTimes := {
  startWraps : Z; startWrapMS : Z; startTimeMS : Z; startRelMS : Z;
  wnowMS : Z; nowWraps : Z; nowWrapMS : Z; nowRelMS : Z
}.

(** calcWrapTimes; [tsbdMS] is int(tsbd)/1_000_000 *)
Definition calcWrapTimes (loopMS : Z) (c : tcfg) (nowMS tsbdMS : Z) : wrapTimes :=
  let stMS0 := nowMS - tsbdMS in
  let startMS := startS c * 1000 in
  let stMS := if stMS0 <? startMS then startMS else stMS0 in
  let sw := Z.quot (stMS - startMS) loopMS in
  let swMS := sw * loopMS + startMS in
  let nw := Z.quot (nowMS - startMS) loopMS in
  let nwMS := nw * loopMS + startMS in
  {| startWraps := sw; startWrapMS := swMS; startTimeMS := stMS; startRelMS := stMS - swMS;
     wnowMS := nowMS; nowWraps := nw; nowWrapMS := nwMS; nowRelMS := nowMS - nwMS |}.

(** findFirstFinishedSegIdx: (number of segments with EndTime <= t) - 1 *)
Definition firstFinishedIdx (l : list seg) (t : Z) : Z := searchIdx (fun s => en s >? t) l - 1.

(** One <S> element with explicit t for the first only; the model keeps (t, d, r). *)
Record sentry := { e_t : Z; e_d : Z; e_r : Z }.

Record segEntries := {
  se_startNr : Z;          (* -1: no segment *)
  se_entries : list sentry;
  se_lsi_nr : Z; se_lsi_start : Z; se_lsi_dur : Z
}.

(** The run-length loop of generateTimelineEntries, from [nr] to [nowNr] inclusive.
    [cur] is the entry being extended, [acc] the finished entries in reverse. *)
Fixpoint tlLoop (r : rep) (k : nat) (nr : Z) (d : Z) (t : Z) (cur : sentry) (acc : list sentry)
         (lsiStart lsiDur lsiNr : Z) : list sentry * (Z * Z * Z) :=
  match k with
  | O => (rev (cur :: acc), (lsiStart, lsiDur, lsiNr))
  | Datatypes.S k' =>
    let lsiStart' := lsiStart + d in
    let sg := segAt r (nr mod nsegs r) in
    if sdur sg =? d then
      tlLoop r k' (nr + 1) d t {| e_t := e_t cur; e_d := e_d cur; e_r := e_r cur + 1 |} acc lsiStart' lsiDur nr
    else
      let d' := sdur sg in
      tlLoop r k' (nr + 1) d' t {| e_t := lsiStart'; e_d := d'; e_r := 0 |} (cur :: acc) lsiStart' d' nr
  end.

(** relative index of the newest segment that has ended at relative time [relMS] (+ the offset
    [atoMS], added before the single conversion to media time), and the wrap it belongs to; a
    relative time beyond the loop duration moves on to a later wrap *)
Definition edgeIdx (r : rep) (wraps relMS atoMS : Z) : Z * Z :=
  let relT0 := Z.quot ((relMS + atoMS) * ts r) 1000 in
  let dur := repDuration r in
  let '(wraps, relT) := if relT0 >=? dur then (wraps + relT0 / dur, relT0 mod dur) else (wraps, relT0) in
  let n := nsegs r in
  if relT <? en (segAt r 0) then (wraps - 1, n - 1)
  else
    let i := firstFinishedIdx (segs r) relT in
    if i <? 0 then (wraps - 1, n - 1) else (wraps, i).

Definition generateTimelineEntries (r : rep) (wt : wrapTimes) (atoMS : Z) : segEntries :=
  let n := nsegs r in
  let '(sw0, si0) := edgeIdx r (startWraps wt) (startRelMS wt) atoMS in
  let '(sw, si) := if sw0 <? 0 then (0, 0) else (sw0, si0) in
  let '(nw, ni) := edgeIdx r (nowWraps wt) (nowRelMS wt) atoMS in
  if nw <? 0 then
    {| se_startNr := -1; se_entries := []; se_lsi_nr := -1; se_lsi_start := 0; se_lsi_dur := 0 |}
  else
    let startNr := sw * n + si in
    let nowNr := nw * n + ni in
    let t := repDuration r * sw + st (segAt r si) in
    let d := sdur (segAt r si) in
    let '(es, (ls, ld, ln)) :=
        tlLoop r (Z.to_nat (nowNr - startNr)) (startNr + 1) d t {| e_t := t; e_d := d; e_r := 0 |} []
               t d startNr in
    {| se_startNr := startNr; se_entries := es; se_lsi_nr := ln; se_lsi_start := ls; se_lsi_dur := ld |}.

(** Expansion of a timeline into (t, d) pairs. *)
Fixpoint expandEntry (t d : Z) (k : nat) : list (Z * Z) :=
  match k with O => [] | Datatypes.S k' => (t, d) :: expandEntry (t + d) d k' end.
Definition expand (es : list sentry) : list (Z * Z) :=
  flat_map (fun e => expandEntry (e_t e) (e_d e) (Z.to_nat (e_r e + 1))) es.

(** ** TTML timestamps (shiftStppTimes / shiftTimestamp), at the level of numbers:
    a timestamp hh:mm:ss.mmm is the quadruple (h, m, s, ms). *)
Definition parseTS (q : Z * Z * Z * Z) : Z :=
  let '(h, m, s, ms) := q in h * 3600000 + m * 60000 + s * 1000 + ms.
Definition fmtTS (t : Z) : Z * Z * Z * Z :=
  (t / 3600000, (t mod 3600000) / 60000, (t mod 60000) / 1000, t mod 1000).
Definition shiftTS (q : Z * Z * Z * Z) (shiftMS : Z) : Z * Z * Z * Z := fmtTS (parseTS q + shiftMS).
(** timeShiftMS = Round(timeShift / timescale * 1000), evaluated exactly *)
Definition ttmlShiftMS (timeShiftTicks tsc : Z) : Z := round_div (timeShiftTicks * 1000) tsc.
