(** The float64 side of the segment lookup.

    [Timeline.checkTime] states CheckTimeValidity in exact rational arithmetic; the Go code
    computes it in float64.  This file gives the bit-faithful version [checkTimeF] (Coq primitive
    floats = IEEE-754 binary64, evaluated natively by [vm_compute]) and the segment lookup
    parameterised by the availability test, so that the correspondence can run the float version
    against the implementation and, on the same cases, compare it with the exact version the
    theorems are about. *)
From Coq Require Import Floats Uint63.
From Verif Require Import GoSem Timeline.

(** float64(int) for |z| < 2^63 *)
Definition Zf (z : Z) : float :=
  if z <? 0 then PrimFloat.opp (PrimFloat.of_uint63 (Uint63.of_Z (- z)))
  else PrimFloat.of_uint63 (Uint63.of_Z z).

(** math.Round(x) as an integer, for the values that occur: the unique c among hint-3..hint+3
    with c - 0.5 <= x < c + 0.5 (x >= 0; halves away from zero), else [None]. *)
Definition roundNear (x : float) (hint : Z) : option Z :=
  let ok c := PrimFloat.leb (PrimFloat.sub (Zf c) 0.5%float) x && PrimFloat.ltb x (PrimFloat.add (Zf c) 0.5%float) in
  find ok [hint; hint - 1; hint + 1; hint - 2; hint + 2; hint - 3; hint + 3].

Definition thousandth : float := Eval vm_compute in PrimFloat.div (Zf 1) (Zf 1000).  (* the literal 0.001 *)

(** CheckTimeValidity in float64.  [a]: None = +Inf, Some ms = the offset ms/1000 as parsed from
    the URL (strconv.ParseFloat of a decimal with at most three fraction digits is the correctly
    rounded quotient ms/1000). *)
Definition checkTimeF (availTicks tsc nowMS tsbd : Z) (a : option Z) : tv :=
  match a with
  | None => TvOk
  | Some atoMS =>
    let av0 := PrimFloat.div (Zf availTicks) (Zf tsc) in
    let atoS := PrimFloat.div (Zf atoMS) (Zf 1000) in
    let av := if atoMS >? 0 then PrimFloat.sub av0 atoS else av0 in
    let nw := PrimFloat.mul (Zf nowMS) thousandth in
    if PrimFloat.ltb nw av then
      match roundNear (PrimFloat.mul (PrimFloat.sub av nw) (Zf 1000))
                      (match checkTime availTicks tsc nowMS tsbd a with TvTooEarly ms => ms | _ => 0 end) with
      | Some ms => TvTooEarly ms
      | None => TvTooEarly (-1)
      end
    else if PrimFloat.ltb av (PrimFloat.sub nw (PrimFloat.add (Zf tsbd) (Zf tsbdMarginS))) then TvGone
    else TvOk
  end.

Definition chk := Z -> Z -> Z -> Z -> option Z -> tv.

(** findSegMetaFromNr / findSegMetaFromTime / the dispatch, with the availability test as a parameter.
    With [checkTime] these are the definitions of Timeline.v (lemmas below, by reflexivity). *)
Definition segMetaFromNrG (ck : chk) (r : rep) (loopMS : Z) (c : tcfg) (nr nowMS : Z) : outcome segmeta :=
  let wrapLen := lenZ (segs r) in
  let nrAfterStart := nr - startNr c in
  if wrapLen =? 0 then TPanic "findSegMetaFromNr: integer divide by zero" else
  let nrWraps := Z.quot nrAfterStart wrapLen in
  let relNr := nrAfterStart - nrWraps * wrapLen in
  let wrapTime := nrWraps * wrapDurOf loopMS r in
  match nthZ relNr (segs r) with
  | None => TPanic "findSegMetaFromNr: index out of range"
  | Some s =>
    let segTime := wrapTime + st s in
    let mediaRef := startS c * ts r in
    timed (ck (en s + wrapTime + mediaRef) (ts r) nowMS (tsbdS c) (ato c))
      (TOk {| origTime := st s; newTime := u64 segTime; origNr := snr s; newNr := nr;
              origDur := u32 (sdur s); newDur := u32 (sdur s); mtimescale := u32 (ts r) |})
  end.

Definition segMetaFromTimeG (ck : chk) (r : rep) (loopMS : Z) (c : tcfg) (time nowMS : Z) : outcome segmeta :=
  let mediaRef := startS c * ts r in
  let wrapDur := wrapDurOf loopMS r in
  if wrapDur =? 0 then TPanic "findSegMetaFromTime: integer divide by zero" else
  let nrWraps := Z.quot time wrapDur in
  let wrapTime := nrWraps * wrapDur in
  let timeAfterWrap := time - wrapTime in
  let idx := searchIdx (fun s => st s >=? timeAfterWrap) (segs r) in
  match nthZ idx (segs r) with
  | None => TErr "no matching segment"
  | Some s =>
    if negb (st s =? timeAfterWrap) then TErr "segment time mismatch" else
    timed (ck (en s + wrapTime + mediaRef) (ts r) nowMS (tsbdS c) (ato c))
      (TOk {| origTime := st s; newTime := time; origNr := snr s;
              newNr := u32 (startNr c + idx + nrWraps * lenZ (segs r));
              origDur := u32 (sdur s); newDur := u32 (sdur s); mtimescale := u32 (ts r) |})
  end.

Definition lookupG (ck : chk) (r : rep) (loopMS : Z) (c : tcfg) (mode : addressing) (segID nowMS : Z)
  : outcome segmeta :=
  match mode with
  | ByNumber =>
    let nr := u32 segID in
    if nr <? u32 (startNr c) then TNotFound else segMetaFromNrG ck r loopMS c nr nowMS
  | ByTime => segMetaFromTimeG ck r loopMS c (u64 segID) nowMS
  end.

Lemma segMetaFromNrG_exact : segMetaFromNrG checkTime = segMetaFromNr.
Proof. reflexivity. Qed.
Lemma segMetaFromTimeG_exact : segMetaFromTimeG checkTime = segMetaFromTime.
Proof. reflexivity. Qed.
Lemma lookupG_exact : lookupG checkTime = lookup.
Proof. reflexivity. Qed.

Definition lookupF := lookupG checkTimeF.

(** The float lookup and the exact lookup return the same thing whenever the two availability
    tests agree on the one instance the lookup evaluates (the lookup itself is integer code). *)
Lemma lookupG_ext (ck1 ck2 : chk) r loopMS c mode segID now :
  (forall A, ck1 A (ts r) now (tsbdS c) (ato c) = ck2 A (ts r) now (tsbdS c) (ato c)) ->
  lookupG ck1 r loopMS c mode segID now = lookupG ck2 r loopMS c mode segID now.
Proof.
  intros H. unfold lookupG, segMetaFromNrG, segMetaFromTimeG. destruct mode.
  - destruct (_ <? _); [reflexivity|]. destruct (_ =? 0); [reflexivity|].
    destruct (nthZ _ _); [|reflexivity]. rewrite H. reflexivity.
  - destruct (_ =? 0); [reflexivity|]. destruct (nthZ _ _); [|reflexivity].
    destruct (negb _); [reflexivity|]. rewrite H. reflexivity.
Qed.

(** An on-grid instant at which the float64 test refuses a segment at its exact availability
    instant: segment 0 of the 29.97 asset (end 60060/30000 = 2.002 s), start 30 s, offset 0.5 s:
    A = 31.502 s, the request at nowMS = 31502 is answered "0 ms too early". *)
Lemma checkTimeF_edge_witness :
  checkTime (60060 + 30 * 30000) 30000 31502 3600 (Some 500) = TvOk /\
  checkTimeF (60060 + 30 * 30000) 30000 31502 3600 (Some 500) = TvTooEarly 0.
Proof. split; vm_compute; reflexivity. Qed.
