(** The float64 side of the segment lookup.

    [Timeline.checkTime] states CheckTimeValidity in exact rational arithmetic; the Go code
    computes it in float64.  This file gives the bit-faithful version [checkTimeF] (Coq primitive
    floats = IEEE-754 binary64, evaluated natively by [vm_compute]) and the segment lookup
    parameterised by the availability test, so that the correspondence can run the float version
    against the implementation and, on the same cases, compare it with the exact version the
    theorems are about. *)
From Coq Require Import Floats Uint63.
From Verif Require Import GoSem Timeline.

(** float64(int) for |z| < 2^63 *)
Definition Zf (z : Z) : float :=
  if z <? 0 then PrimFloat.opp (PrimFloat.of_uint63 (Uint63.of_Z (- z)))
  else PrimFloat.of_uint63 (Uint63.of_Z z).

(** math.Round(x) as an integer: the exact value of a finite float is m * 2^e ([Prim2SF]);
    halves are rounded away from zero.  NaN and infinities give 0 (they do not occur: the
    operands are quotients and products of integers below 2^63). *)
Definition roundF (x : float) : Z :=
  match FloatOps.Prim2SF x with
  | S754_finite s m e =>
    let mag := if 0 <=? e then Z.pos m * 2 ^ e
               else (2 * Z.pos m + 2 ^ (- e)) / (2 * 2 ^ (- e)) in
    if s then - mag else mag
  | _ => 0
  end.

Definition thousandth : float := Eval vm_compute in PrimFloat.div (Zf 1) (Zf 1000).  (* the literal 0.001 *)
Definition million : float := Eval vm_compute in Zf 1000000.                          (* the literal 1e6 *)

(** CheckTimeValidity in float64.  [a]: None = +Inf, Some ms = the offset ms/1000 as parsed from
    the URL (strconv.ParseFloat of a decimal with at most three fraction digits is the correctly
    rounded quotient ms/1000).  Both instants are rounded to whole microseconds before they are
    compared. *)
Definition checkTimeF (availTicks tsc nowMS tsbd : Z) (a : option Z) : tv :=
  match a with
  | None => TvOk
  | Some atoMS =>
    let av0 := PrimFloat.div (Zf availTicks) (Zf tsc) in
    let atoS := PrimFloat.div (Zf atoMS) (Zf 1000) in
    let av := if atoMS >? 0 then PrimFloat.sub av0 atoS else av0 in
    let nw := PrimFloat.mul (Zf nowMS) thousandth in
    let availUS := roundF (PrimFloat.mul av million) in
    let nowUS := roundF (PrimFloat.mul nw million) in
    if availUS >? nowUS then
      TvTooEarly (roundF (PrimFloat.div (Zf (availUS - nowUS)) (Zf 1000)))
    else if availUS <? nowUS - roundF (PrimFloat.mul (PrimFloat.add (Zf tsbd) (Zf tsbdMarginS)) million) then TvGone
    else TvOk
  end.

(** The same computation in exact arithmetic: what the float64 code computes when its rounding
    errors (below 0.4 microseconds for instants up to 2*10^9 s) do not move a value across a
    half-microsecond boundary. *)
Definition checkTimeU (availTicks tsc nowMS tsbd : Z) (a : option Z) : tv :=
  match a with
  | None => TvOk
  | Some atoMS =>
    let availUS := round_div ((availTicks * 1000 - (if atoMS >? 0 then atoMS * tsc else 0)) * 1000) tsc in
    let nowUS := nowMS * 1000 in
    if availUS >? nowUS then TvTooEarly (round_div (availUS - nowUS) 1000)
    else if availUS <? nowUS - (tsbd + tsbdMarginS) * 1000000 then TvGone
    else TvOk
  end.

Definition chk := Z -> Z -> Z -> Z -> option Z -> tv.

(** findSegMetaFromNr / findSegMetaFromTime / the dispatch, with the availability test as a parameter.
    With [checkTime] these are the definitions of Timeline.v (lemmas below, by reflexivity). *)
Definition segMetaFromNrG (ck : chk) (r : rep) (loopMS : Z) (c : tcfg) (nr nowMS : Z) : outcome segmeta :=
  let wrapLen := lenZ (segs r) in
  let nrAfterStart := nr - startNr c in
  if wrapLen =? 0 then TPanic "findSegMetaFromNr: integer divide by zero" else
  let nrWraps := Z.quot nrAfterStart wrapLen in
  let relNr := nrAfterStart - nrWraps * wrapLen in
  let wrapTime := nrWraps * wrapDurOf loopMS r in
  match nthZ relNr (segs r) with
  | None => TPanic "findSegMetaFromNr: index out of range"
  | Some s =>
    let segTime := wrapTime + st s in
    let mediaRef := startS c * ts r in
    timed (ck (en s + wrapTime + mediaRef) (ts r) nowMS (tsbdS c) (ato c))
      (TOk {| origTime := st s; newTime := u64 segTime; origNr := snr s; newNr := nr;
              origDur := u32 (sdur s); newDur := u32 (sdur s); mtimescale := u32 (ts r) |})
  end.

Definition segMetaFromTimeG (ck : chk) (r : rep) (loopMS : Z) (c : tcfg) (time nowMS : Z) : outcome segmeta :=
  let mediaRef := startS c * ts r in
  let wrapDur := wrapDurOf loopMS r in
  if wrapDur =? 0 then TPanic "findSegMetaFromTime: integer divide by zero" else
  let nrWraps := Z.quot time wrapDur in
  let wrapTime := nrWraps * wrapDur in
  let timeAfterWrap := time - wrapTime in
  let idx := searchIdx (fun s => st s >=? timeAfterWrap) (segs r) in
  match nthZ idx (segs r) with
  | None => TNotFound                      (* no matching segment: 404 *)
  | Some s =>
    if negb (st s =? timeAfterWrap) then TNotFound (* not a segment start: 404 *) else
    timed (ck (en s + wrapTime + mediaRef) (ts r) nowMS (tsbdS c) (ato c))
      (TOk {| origTime := st s; newTime := time; origNr := snr s;
              newNr := u32 (startNr c + idx + nrWraps * lenZ (segs r));
              origDur := u32 (sdur s); newDur := u32 (sdur s); mtimescale := u32 (ts r) |})
  end.

Definition lookupG (ck : chk) (r : rep) (loopMS : Z) (c : tcfg) (mode : addressing) (segID nowMS : Z)
  : outcome segmeta :=
  match mode with
  | ByNumber =>
    let nr := u32 segID in
    if (segID >? maxu32) || (nr <? u32 (startNr c)) then TNotFound else segMetaFromNrG ck r loopMS c nr nowMS
  | ByTime => segMetaFromTimeG ck r loopMS c (u64 segID) nowMS
  end.

Lemma segMetaFromNrG_exact : segMetaFromNrG checkTime = segMetaFromNr.
Proof. reflexivity. Qed.
Lemma segMetaFromTimeG_exact : segMetaFromTimeG checkTime = segMetaFromTime.
Proof. reflexivity. Qed.
Lemma lookupG_exact : lookupG checkTime = lookup.
Proof. reflexivity. Qed.

Definition lookupF := lookupG checkTimeF.

(** The float lookup and the exact lookup return the same thing whenever the two availability
    tests agree on the one instance the lookup evaluates (the lookup itself is integer code). *)
Lemma lookupG_ext (ck1 ck2 : chk) r loopMS c mode segID now :
  (forall A, ck1 A (ts r) now (tsbdS c) (ato c) = ck2 A (ts r) now (tsbdS c) (ato c)) ->
  lookupG ck1 r loopMS c mode segID now = lookupG ck2 r loopMS c mode segID now.
Proof.
  intros H. unfold lookupG, segMetaFromNrG, segMetaFromTimeG. destruct mode.
  - destruct (_ || _); [reflexivity|]. destruct (_ =? 0); [reflexivity|].
    destruct (nthZ _ _); [|reflexivity]. rewrite H. reflexivity.
  - destruct (_ =? 0); [reflexivity|]. destruct (nthZ _ _); [|reflexivity].
    destruct (negb _); [reflexivity|]. rewrite H. reflexivity.
Qed.

(** On the millisecond grid (the availability instant A*1000/tsc is a whole number [Ams] of
    milliseconds) the microsecond computation is the exact test of Timeline.v. *)
Lemma checkTimeU_grid A Ams tsc tsbd a now :
  0 < tsc -> A * 1000 = Ams * tsc -> (forall ms, a = Some ms -> 0 <= ms) ->
  checkTimeU A tsc now tsbd a = checkTime A tsc now tsbd a.
Proof.
  intros Hts HA Ha. destruct a as [atoMS|]; [|reflexivity].
  unfold checkTimeU, checkTime, round_div.
  set (o := if atoMS >? 0 then atoMS * tsc else 0).
  assert (Ho : exists k, o = k * tsc /\ 0 <= k).
  { unfold o. destruct (atoMS >? 0) eqn:G; [exists atoMS; split; [reflexivity|lia] | exists 0; lia]. }
  destruct Ho as (k & -> & Hk). rewrite HA.
  replace ((Ams * tsc - k * tsc) * 1000) with ((Ams - k) * 1000 * tsc) by ring.
  replace (2 * ((Ams - k) * 1000 * tsc) + tsc) with (tsc + (2 * ((Ams - k) * 1000)) * tsc) by ring.
  assert (E1 : (tsc + 2 * ((Ams - k) * 1000) * tsc) / (2 * tsc) = (Ams - k) * 1000).
  { replace (2 * ((Ams - k) * 1000) * tsc) with (((Ams - k) * 1000) * (2 * tsc)) by ring.
    rewrite Z.div_add by lia. rewrite Z.div_small by lia. lia. }
  rewrite E1.
  destruct ((Ams - k) * 1000 >? now * 1000) eqn:G1; destruct (Ams * tsc - k * tsc >? now * tsc) eqn:G2; try nia.
  - f_equal.
    replace (2 * ((Ams - k) * 1000 - now * 1000) + 1000) with (1000 + (2 * (Ams - k - now)) * 1000) by ring.
    replace (2 * 1000) with 2000 by reflexivity.
    replace (2 * (Ams * tsc - k * tsc - now * tsc) + tsc) with (tsc + (2 * (Ams - k - now)) * tsc) by ring.
    replace ((1000 + 2 * (Ams - k - now) * 1000) / 2000) with (Ams - k - now).
    2:{ replace (2 * (Ams - k - now) * 1000) with ((Ams - k - now) * 2000) by ring.
        rewrite Z.div_add by lia. reflexivity. }
    replace (2 * (Ams - k - now) * tsc) with ((Ams - k - now) * (2 * tsc)) by ring.
    rewrite Z.div_add by lia. rewrite Z.div_small by lia. lia.
  - destruct ((Ams - k) * 1000 <? now * 1000 - (tsbd + tsbdMarginS) * 1000000) eqn:G3;
    destruct (Ams * tsc - k * tsc <? now * tsc - (tsbd + tsbdMarginS) * 1000 * tsc) eqn:G4; try reflexivity; nia.
Qed.

(** The instant at which the float64 test of the original code refused a segment at its exact
    availability instant (32.002 - 0.5 > 31502 * 0.001 in float64; segment 0 of the 29.97 asset,
    start 30 s, offset 0.5 s): the microsecond comparison accepts it. *)
Lemma checkTimeF_edge_ok :
  checkTime (60060 + 30 * 30000) 30000 31502 3600 (Some 500) = TvOk /\
  checkTimeF (60060 + 30 * 30000) 30000 31502 3600 (Some 500) = TvOk /\
  checkTimeF (60060 + 30 * 30000) 30000 31501 3600 (Some 500) = TvTooEarly 1.
Proof. repeat split; vm_compute; reflexivity. Qed.

(** After January 2038 (2^31 s) float64 seconds are 4.8e-7 s apart: adding the start time and subtracting
    an offset that is no binary fraction round by up to 2.4e-7 s each, so the microsecond the comparison
    works with can come out one too late. Segment 345291764 of the 29.97 asset with start 1.6e9 s and an
    offset of 0.1 s ends at 2291274113.53 s; it is advertised for 2291274113430 ms, where the exact test
    accepts it and the float64 test refuses it "too early by 0 ms" (it accepts one millisecond later). *)
Lemma checkTimeF_after_2038 :
  checkTime  (345291765 * 60060 + 1600000000 * 30000) 30000 2291274113430 60 (Some 100) = TvOk /\
  checkTimeF (345291765 * 60060 + 1600000000 * 30000) 30000 2291274113430 60 (Some 100) = TvTooEarly 0 /\
  checkTimeF (345291765 * 60060 + 1600000000 * 30000) 30000 2291274113431 60 (Some 100) = TvOk.
Proof. repeat split; vm_compute; reflexivity. Qed.
