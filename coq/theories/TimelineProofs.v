From Verif Require Import GoSem GoSemFacts Timeline.
From Coq Require Import ZifyBool.
Ltac Zify.zify_post_hook ::= Z.div_mod_to_equations.

(** * Facts about [nthZ] and the segment table *)

Lemma nthZ_some {A} (l : list A) i x : nthZ i l = Some x -> 0 <= i < lenZ l.
Proof.
  revert i; induction l as [|y l IH]; intros i H; cbn [nthZ] in H; [discriminate|].
  rewrite lenZ_cons. pose proof (lenZ_nonneg l).
  destruct (i <? 0) eqn:E0; [discriminate|]. destruct (i =? 0) eqn:E1; [lia|].
  apply IH in H. lia.
Qed.

Lemma nthZ_in_range {A} (l : list A) i : 0 <= i < lenZ l -> exists x, nthZ i l = Some x.
Proof.
  revert i; induction l as [|y l IH]; intros i H.
  - change (lenZ (@nil A)) with 0 in H. lia.
  - rewrite lenZ_cons in H. cbn [nthZ]. destruct (i <? 0) eqn:E0; [lia|].
    destruct (i =? 0) eqn:E1; [eauto|]. apply IH. lia.
Qed.

Lemma nthZ_none {A} (l : list A) i : ~ (0 <= i < lenZ l) -> nthZ i l = None.
Proof.
  intros H. destruct (nthZ i l) eqn:E; [|reflexivity]. apply nthZ_some in E. contradiction.
Qed.

Lemma nthZ_cons_succ {A} (y : A) l i : 0 <= i -> nthZ (i + 1) (y :: l) = nthZ i l.
Proof.
  intros H. cbn [nthZ]. destruct (i + 1 <? 0) eqn:E0; [lia|]. destruct (i + 1 =? 0) eqn:E1; [lia|].
  f_equal. lia.
Qed.

Lemma segAt_nth r i s : nthZ i (segs r) = Some s -> segAt r i = s.
Proof. unfold segAt. now intros ->. Qed.

Lemma segAt_ok r i : 0 <= i < nsegs r -> nthZ i (segs r) = Some (segAt r i).
Proof.
  intros H. destruct (nthZ_in_range (segs r) i H) as [x Hx]. unfold segAt. now rewrite Hx.
Qed.

(** Properties of a list of segments, by index. *)
Definition atL (l : list seg) (i : Z) : seg := match nthZ i l with Some s => s | None => dseg end.

Lemma atL_cons_succ y l i : 0 <= i -> atL (y :: l) (i + 1) = atL l i.
Proof. intros H. unfold atL. now rewrite nthZ_cons_succ. Qed.

Lemma atL_0 y l : atL (y :: l) 0 = y.
Proof. reflexivity. Qed.

Lemma contiguous_at l : contiguous l -> forall i, 0 <= i -> i + 1 < lenZ l -> en (atL l i) = st (atL l (i + 1)).
Proof.
  induction l as [|a l IH]; intros Hc i Hi Hl.
  - change (lenZ (@nil seg)) with 0 in Hl. lia.
  - destruct l as [|b l'].
    + rewrite lenZ_cons in Hl. change (lenZ (@nil seg)) with 0 in Hl. lia.
    + destruct Hc as [Hab Hc]. destruct (Z.eq_dec i 0) as [->|Hne].
      * change (0 + 1) with (0 + 1). rewrite atL_0. rewrite atL_cons_succ by lia. now rewrite atL_0.
      * rewrite lenZ_cons in Hl.
        replace (i + 1) with (i - 1 + 1 + 1) by lia. rewrite (atL_cons_succ a (b :: l') (i - 1 + 1)) by lia.
        replace i with (i - 1 + 1) at 1 by lia. rewrite (atL_cons_succ a (b :: l') (i - 1)) by lia.
        apply IH; [assumption|lia|lia].
Qed.

Lemma forall_at (P : seg -> Prop) l : Forall P l -> forall i, 0 <= i < lenZ l -> P (atL l i).
Proof.
  induction 1 as [|a l Ha _ IH]; intros i Hi.
  - change (lenZ (@nil seg)) with 0 in Hi. lia.
  - rewrite lenZ_cons in Hi. destruct (Z.eq_dec i 0) as [->|Hne]; [exact Ha|].
    replace i with ((i - 1) + 1) by lia. rewrite atL_cons_succ by lia. apply IH. lia.
Qed.

Lemma last_atL l d : l <> [] -> last l d = atL l (lenZ l - 1).
Proof.
  induction l as [|a l IH]; intros Hne; [congruence|].
  destruct l as [|b l'].
  - reflexivity.
  - rewrite lenZ_cons. replace (1 + lenZ (b :: l') - 1) with ((lenZ (b :: l') - 1) + 1) by lia.
    rewrite atL_cons_succ by (rewrite lenZ_cons; pose proof (lenZ_nonneg l'); lia).
    rewrite <- IH by discriminate. reflexivity.
Qed.

(** Under [contiguous] and positivity, starts and ends are monotone in the index. *)
Lemma st_mono l : contiguous l -> Forall (fun s => st s < en s) l ->
  forall i j, 0 <= i -> i < j -> j < lenZ l -> en (atL l i) <= st (atL l j).
Proof.
  intros Hc Hp i j Hi Hij Hj.
  assert (H : forall k, 0 <= k -> i + 1 + k < lenZ l -> en (atL l i) <= st (atL l (i + 1 + k))).
  { intros k Hk. pattern k. apply natlike_ind; [| |assumption].
    - intros Hl. rewrite Z.add_0_r. rewrite (contiguous_at l Hc i) by lia. lia.
    - intros x Hx IH Hl. specialize (IH ltac:(lia)).
      pose proof (forall_at _ l Hp (i + 1 + x) ltac:(lia)) as Hpos. cbn beta in Hpos.
      pose proof (contiguous_at l Hc (i + 1 + x) ltac:(lia) ltac:(lia)) as Hcx.
      replace (i + 1 + Z.succ x) with (i + 1 + x + 1) by lia. lia. }
  replace j with (i + 1 + (j - i - 1)) by lia. apply H; lia.
Qed.

Section Rep.
Variable r : rep.
Variable loopMS : Z.
Hypothesis W : wf r loopMS.

Let n_pos : 0 < nsegs r.
Proof.
  unfold nsegs. destruct (segs r) eqn:E; [destruct (wf_nonempty _ _ W E)|].
  rewrite lenZ_cons. pose proof (lenZ_nonneg l). lia.
Qed.

Lemma nsegs_pos : 0 < nsegs r. Proof. exact n_pos. Qed.

Lemma segAt_atL i : segAt r i = atL (segs r) i.
Proof. reflexivity. Qed.

Lemma seg_pos i : 0 <= i < nsegs r -> st (segAt r i) < en (segAt r i).
Proof. intros H. rewrite segAt_atL. apply (forall_at _ _ (wf_pos _ _ W)). exact H. Qed.

Lemma seg_contig i : 0 <= i -> i + 1 < nsegs r -> en (segAt r i) = st (segAt r (i + 1)).
Proof. intros. rewrite !segAt_atL. apply contiguous_at; [apply (wf_contig _ _ W)|lia|assumption]. Qed.

Lemma seg_mono i j : 0 <= i -> i < j -> j < nsegs r -> en (segAt r i) <= st (segAt r j).
Proof. intros. rewrite !segAt_atL. apply st_mono; auto; [apply (wf_contig _ _ W)|apply (wf_pos _ _ W)]. Qed.

Lemma repDuration_eq : repDuration r = en (segAt r (nsegs r - 1)) - st (segAt r 0).
Proof.
  unfold repDuration, nsegs. destruct (segs r) as [|s0 l] eqn:E; [destruct (wf_nonempty _ _ W E)|].
  rewrite last_atL by discriminate. rewrite !segAt_atL, E. reflexivity.
Qed.

Lemma repDuration_en : repDuration r = en (segAt r (nsegs r - 1)).
Proof. rewrite repDuration_eq, (wf_zero _ _ W). lia. Qed.

Lemma st_nonneg i : 0 <= i < nsegs r -> 0 <= st (segAt r i).
Proof.
  intros H. destruct (Z.eq_dec i 0) as [->|Hne]; [rewrite (wf_zero _ _ W); lia|].
  pose proof (seg_mono 0 i ltac:(lia) ltac:(lia) ltac:(lia)).
  pose proof (seg_pos 0 ltac:(lia)). rewrite (wf_zero _ _ W) in *. lia.
Qed.

Lemma en_le_dur i : 0 <= i < nsegs r -> en (segAt r i) <= repDuration r.
Proof.
  intros H. rewrite repDuration_en.
  destruct (Z.eq_dec i (nsegs r - 1)) as [->|Hne]; [lia|].
  pose proof (seg_mono i (nsegs r - 1) ltac:(lia) ltac:(lia) ltac:(lia)).
  pose proof (seg_pos (nsegs r - 1) ltac:(lia)). lia.
Qed.

Lemma repDuration_pos : 0 < repDuration r.
Proof.
  pose proof (en_le_dur 0 ltac:(lia)). pose proof (seg_pos 0 ltac:(lia)).
  rewrite (wf_zero _ _ W) in *. lia.
Qed.

Lemma wrapDur_eq : wrapDurOf loopMS r = repDuration r.
Proof.
  unfold wrapDurOf. rewrite <- (wf_loop _ _ W). pose proof repDuration_pos.
  rewrite Z.mul_comm. apply Z.quot_mul. lia.
Qed.

(** * C01: the looped timeline is gap-free *)

Lemma S_E_contiguous n : 0 <= n -> S r (n + 1) = E r n.
Proof.
  intros Hn. unfold S, E. pose proof n_pos as HN.
  set (N := nsegs r) in *.
  destruct (Z.eq_dec (n mod N) (N - 1)) as [Hlast|Hnl].
  - pose proof (Z.div_mod n N ltac:(lia)) as Hdm. rewrite Hlast in Hdm.
    assert ((n + 1) / N = n / N + 1 /\ (n + 1) mod N = 0) as [-> ->].
    { generalize dependent (n / N). intros q Hdm.
      split; [symmetry; apply (Z.div_unique _ _ _ 0); nia | symmetry; apply (Z.mod_unique _ _ (q + 1)); nia]. }
    rewrite Hlast. rewrite repDuration_en. fold N. rewrite (wf_zero _ _ W). lia.
  - pose proof (Z.div_mod n N ltac:(lia)) as Hdm. pose proof (Z.mod_pos_bound n N ltac:(lia)) as Hb.
    assert ((n + 1) / N = n / N /\ (n + 1) mod N = n mod N + 1) as [-> ->].
    { generalize dependent (n / N). generalize dependent (n mod N). intros m Hnl Hb q Hdm.
      split; [symmetry; apply (Z.div_unique _ _ _ (m + 1)); nia | symmetry; apply (Z.mod_unique _ _ q); nia]. }
    rewrite (seg_contig (n mod N)); [reflexivity|lia|lia].
Qed.

Lemma S_lt_E n : 0 <= n -> S r n < E r n.
Proof.
  intros Hn. unfold S, E. pose proof n_pos.
  pose proof (seg_pos (n mod nsegs r) ltac:(Z.div_mod_to_equations; lia)). lia.
Qed.

(** * findSegMetaFromNr computes S, E *)

Definition metaOf (c : tcfg) (n : Z) (nr : Z) : segmeta :=
  let s := segAt r (n mod nsegs r) in
  {| origTime := st s; newTime := u64 (S r n); origNr := snr s; newNr := nr;
     origDur := u32 (sdur s); newDur := u32 (sdur s); mtimescale := u32 (ts r) |}.

Lemma segMetaFromNr_spec c n now : 0 <= n ->
  segMetaFromNr r loopMS c (startNr c + n) now =
  timed (checkTime (E r n + startS c * ts r) (ts r) now (tsbdS c) (ato c))
        (TOk (metaOf c n (startNr c + n))).
Proof.
  intros Hn. unfold segMetaFromNr. pose proof n_pos as HN. fold (nsegs r).
  destruct (nsegs r =? 0) eqn:E0; [lia|].
  replace (startNr c + n - startNr c) with n by lia.
  rewrite Z.quot_div_nonneg by lia.
  replace (n - n / nsegs r * nsegs r) with (n mod nsegs r) by (Z.div_mod_to_equations; nia).
  rewrite segAt_ok by (Z.div_mod_to_equations; lia).
  rewrite wrapDur_eq. unfold metaOf, S, E.
  replace (en (segAt r (n mod nsegs r)) + n / nsegs r * repDuration r + startS c * ts r)
    with (n / nsegs r * repDuration r + en (segAt r (n mod nsegs r)) + startS c * ts r) by lia.
  reflexivity.
Qed.

(** * findSegMetaFromTime agrees with findSegMetaFromNr *)

Lemma searchIdx_st : forall l i, contiguous l -> Forall (fun s => st s < en s) l ->
  0 <= i < lenZ l -> searchIdx (fun s => st s >=? st (atL l i)) l = i.
Proof.
  induction l as [|a l IH]; intros i Hc Hp Hi.
  - change (lenZ (@nil seg)) with 0 in Hi. lia.
  - cbn [searchIdx]. destruct (Z.eq_dec i 0) as [->|Hne].
    + rewrite atL_0. destruct (st a >=? st a) eqn:E; [reflexivity|lia].
    + pose proof (st_mono (a :: l) Hc Hp 0 i ltac:(lia) ltac:(lia) ltac:(lia)) as Hm.
      rewrite atL_0 in Hm. inversion Hp as [|? ? Ha Hl]; subst.
      destruct (st a >=? st (atL (a :: l) i)) eqn:E; [lia|].
      assert (Hat : atL (a :: l) i = atL l (i - 1)).
      { replace i with ((i - 1) + 1) at 1 by lia. apply atL_cons_succ. lia. }
      rewrite Hat. rewrite IH; [lia| |assumption|rewrite lenZ_cons in Hi; lia].
      destruct l; [exact I|]. now destruct Hc.
Qed.

Lemma segMetaFromTime_spec c n now : 0 <= n ->
  segMetaFromTime r loopMS c (S r n) now =
  timed (checkTime (E r n + startS c * ts r) (ts r) now (tsbdS c) (ato c))
        (TOk {| origTime := st (segAt r (n mod nsegs r)); newTime := S r n;
                origNr := snr (segAt r (n mod nsegs r)); newNr := u32 (startNr c + n);
                origDur := u32 (sdur (segAt r (n mod nsegs r)));
                newDur := u32 (sdur (segAt r (n mod nsegs r))); mtimescale := u32 (ts r) |}).
Proof.
  intros Hn. unfold segMetaFromTime. pose proof n_pos as HN. pose proof repDuration_pos as HD.
  rewrite wrapDur_eq. destruct (repDuration r =? 0) eqn:E0; [lia|].
  set (N := nsegs r) in *. set (D := repDuration r) in *.
  set (q := n / N). set (i := n mod N).
  assert (Hi : 0 <= i < N) by (unfold i; Z.div_mod_to_equations; lia).
  assert (Hq : 0 <= q) by (unfold q; Z.div_mod_to_equations; nia).
  pose proof (st_nonneg i Hi) as Hs0. pose proof (seg_pos i Hi) as Hsp. pose proof (en_le_dur i Hi) as Hed.
  fold D in Hed.
  assert (HS : S r n = q * D + st (segAt r i)) by reflexivity.
  assert (Hquot : Z.quot (S r n) D = q).
  { rewrite Z.quot_div_nonneg by nia. rewrite HS. symmetry. apply (Z.div_unique _ _ _ (st (segAt r i))); lia. }
  rewrite Hquot. replace (S r n - q * D) with (st (segAt r i)) by lia.
  rewrite segAt_atL, searchIdx_st; [|apply (wf_contig _ _ W)|apply (wf_pos _ _ W)|exact Hi].
  rewrite <- segAt_atL, segAt_ok by exact Hi.
  rewrite Z.eqb_refl. cbn [negb]. unfold E. fold N D q i.
  replace (en (segAt r i) + q * D + startS c * ts r) with (q * D + en (segAt r i) + startS c * ts r) by lia.
  replace (startNr c + i + q * lenZ (segs r)) with (startNr c + n)
    by (unfold q, i; fold (nsegs r); fold N; Z.div_mod_to_equations; nia).
  reflexivity.
Qed.

(** No phantom segments: a time that is served is the start of some segment. *)
Lemma segMetaFromTime_exact c t now m : 0 <= t ->
  segMetaFromTime r loopMS c t now = TOk m -> exists n, 0 <= n /\ t = S r n.
Proof.
  intros Ht. unfold segMetaFromTime. pose proof n_pos as HN. pose proof repDuration_pos as HD.
  rewrite wrapDur_eq. destruct (repDuration r =? 0) eqn:E0; [lia|].
  set (D := repDuration r) in *.
  rewrite Z.quot_div_nonneg by lia.
  assert (Hq0 : 0 <= t / D) by (apply Z.div_pos; lia).
  pose proof (Z.div_mod t D ltac:(lia)) as Hdm. pose proof (Z.mod_pos_bound t D ltac:(lia)) as Hmb.
  set (q := t / D) in *. clearbody q.
  set (idx := searchIdx _ _).
  destruct (nthZ idx (segs r)) as [s|] eqn:Hnth; [|discriminate].
  destruct (st s =? t - q * D) eqn:Est; cbn [negb]; [|discriminate].
  intros _. pose proof (nthZ_some _ _ _ Hnth) as Hidx. fold (nsegs r) in Hidx.
  exists (q * nsegs r + idx). split; [nia|].
  unfold S. fold D.
  assert ((q * nsegs r + idx) / nsegs r = q /\ (q * nsegs r + idx) mod nsegs r = idx) as [-> ->].
  { split; [symmetry; apply (Z.div_unique _ _ _ idx); lia | symmetry; apply (Z.mod_unique _ _ q); lia]. }
  rewrite (segAt_nth _ _ _ Hnth). lia.
Qed.

End Rep.

(** * Corollaries used by the property files *)

Lemma u32_id z : 0 <= z < two32 -> u32 z = z.
Proof. intros; unfold u32; now apply Z.mod_small. Qed.
Lemma u64_id z : 0 <= z < two64 -> u64 z = z.
Proof. intros; unfold u64; now apply Z.mod_small. Qed.

Lemma S_nonneg r loopMS n : wf r loopMS -> 0 <= n -> 0 <= S r n.
Proof.
  intros W Hn. unfold S. pose proof (nsegs_pos r loopMS W) as HN.
  pose proof (repDuration_pos r loopMS W).
  assert (0 <= n / nsegs r) by (apply Z.div_pos; lia).
  pose proof (st_nonneg r loopMS W (n mod nsegs r) (Z.mod_pos_bound n (nsegs r) HN)). nia.
Qed.

Lemma time_eq_number r loopMS c n now :
  wf r loopMS -> 0 <= n -> 0 <= startNr c -> startNr c + n < two32 -> S r n < two64 ->
  segMetaFromTime r loopMS c (S r n) now = segMetaFromNr r loopMS c (startNr c + n) now.
Proof.
  intros W Hn Hs Hr Ht. rewrite (segMetaFromTime_spec r loopMS W), (segMetaFromNr_spec r loopMS W) by assumption.
  unfold metaOf. rewrite u32_id by lia. rewrite u64_id by (pose proof (S_nonneg r loopMS n W Hn); lia).
  reflexivity.
Qed.

Lemma lookup_number r loopMS c n now :
  0 <= n -> 0 <= startNr c -> startNr c + n < two32 ->
  lookup r loopMS c ByNumber (startNr c + n) now = segMetaFromNr r loopMS c (startNr c + n) now.
Proof.
  intros Hn Hs Hr. unfold lookup. rewrite !u32_id by lia.
  destruct (startNr c + n >? maxu32) eqn:E0; [unfold maxu32, two32 in *; lia|]. cbn [orb].
  destruct (startNr c + n <? startNr c) eqn:E; [lia|reflexivity].
Qed.

Lemma lookup_below_start r loopMS c id now :
  0 <= id < startNr c -> startNr c < two32 -> lookup r loopMS c ByNumber id now = TNotFound.
Proof.
  intros H1 H2. unfold lookup. rewrite !u32_id by lia.
  destruct (id >? maxu32) eqn:E0; [reflexivity|]. cbn [orb]. destruct (id <? startNr c) eqn:E; [reflexivity|lia].
Qed.

Lemma lookup_time r loopMS c t now : 0 <= t < two64 ->
  lookup r loopMS c ByTime t now = segMetaFromTime r loopMS c t now.
Proof. intros H. unfold lookup. now rewrite u64_id. Qed.

Lemma parse_fmt_TS t : 0 <= t -> parseTS (fmtTS t) = t.
Proof. intros H. unfold parseTS, fmtTS. lia. Qed.

Lemma fmtTS_range t : 0 <= t ->
  let '(h, m, s, ms) := fmtTS t in 0 <= h /\ 0 <= m < 60 /\ 0 <= s < 60 /\ 0 <= ms < 1000.
Proof. intros H. unfold fmtTS. lia. Qed.

Lemma shiftTS_ok q d : 0 <= parseTS q -> 0 <= d -> parseTS (shiftTS q d) = parseTS q + d.
Proof. intros. unfold shiftTS. apply parse_fmt_TS. lia. Qed.

(** The TTML shift in milliseconds is exactly the decode-time shift (whole loops). *)
Lemma ttml_shift_loops r loopMS q : wf r loopMS -> 0 <= q ->
  ttmlShiftMS (q * repDuration r) (ts r) = q * loopMS.
Proof.
  intros W Hq. unfold ttmlShiftMS, round_div. pose proof (wf_ts _ _ W) as Hts.
  replace (2 * (q * repDuration r * 1000) + ts r) with ((q * loopMS) * (2 * ts r) + ts r)
    by (pose proof (wf_loop _ _ W); nia).
  symmetry. apply (Z.div_unique _ _ _ (ts r)); lia.
Qed.

(** * C04: phases of a fixed segment as wall-clock time increases *)

Definition phase (t : tv) : Z := match t with TvTooEarly _ => 0 | TvOk => 1 | TvGone => 2 end.

Lemma checkTime_monotone A tsc tsbd a now1 now2 :
  0 < tsc -> 0 <= tsbd -> now1 <= now2 ->
  phase (checkTime A tsc now1 tsbd a) <= phase (checkTime A tsc now2 tsbd a).
Proof.
  intros Hts Htsbd Hnow. unfold checkTime, tsbdMarginS. destruct a as [atoMS|]; [|cbn; lia].
  set (av := A * 1000 - (if atoMS >? 0 then atoMS * tsc else 0)).
  destruct (av >? now1 * tsc) eqn:E1; destruct (av >? now2 * tsc) eqn:E2; cbn [phase];
    try (destruct (av <? now1 * tsc - (tsbd + 10) * 1000 * tsc) eqn:E3);
    try (destruct (av <? now2 * tsc - (tsbd + 10) * 1000 * tsc) eqn:E4); cbn [phase]; try lia; nia.
Qed.

(** The availability instant in ms*ts units: A*1000 - ato*ts. *)
Definition availNum (A tsc : Z) (a : option Z) : Z :=
  match a with Some atoMS => A * 1000 - (if atoMS >? 0 then atoMS * tsc else 0) | None => 0 end.

Lemma checkTime_exact A tsc tsbd atoMS now :
  0 < tsc ->
  let av := availNum A tsc (Some atoMS) in
  (phase (checkTime A tsc now tsbd (Some atoMS)) = 0 <-> now * tsc < av) /\
  (phase (checkTime A tsc now tsbd (Some atoMS)) = 2 <->
     av + (tsbd + tsbdMarginS) * 1000 * tsc < now * tsc /\ av <= now * tsc) /\
  (phase (checkTime A tsc now tsbd (Some atoMS)) = 1 <->
     av <= now * tsc <= av + (tsbd + tsbdMarginS) * 1000 * tsc).
Proof.
  intros Hts. cbn zeta. unfold checkTime, availNum, tsbdMarginS.
  set (av := A * 1000 - (if atoMS >? 0 then atoMS * tsc else 0)).
  destruct (av >? now * tsc) eqn:E1; cbn [phase].
  - repeat split; intros; try lia.
  - destruct (av <? now * tsc - (tsbd + 10) * 1000 * tsc) eqn:E2; cbn [phase]; repeat split; intros; lia.
Qed.

(** On the millisecond grid ([A*1000 = Ams*ts]) the transitions are at whole milliseconds and the
    425 body states the remaining milliseconds. *)
Lemma checkTime_grid A Ams tsc tsbd atoMS now :
  0 < tsc -> 0 <= atoMS -> A * 1000 = Ams * tsc ->
  checkTime A tsc now tsbd (Some atoMS) =
  if now <? Ams - atoMS then TvTooEarly (Ams - atoMS - now)
  else if now >? Ams - atoMS + (tsbd + tsbdMarginS) * 1000 then TvGone else TvOk.
Proof.
  intros Hts Hato Hg. unfold checkTime, tsbdMarginS.
  assert (Hav : A * 1000 - (if atoMS >? 0 then atoMS * tsc else 0) = (Ams - atoMS) * tsc).
  { destruct (atoMS >? 0) eqn:E; nia. }
  rewrite Hav.
  destruct (now <? Ams - atoMS) eqn:E1.
  - destruct ((Ams - atoMS) * tsc >? now * tsc) eqn:E2; [|nia].
    f_equal. unfold round_div.
    replace (2 * ((Ams - atoMS) * tsc - now * tsc) + tsc) with ((Ams - atoMS - now) * (2 * tsc) + tsc) by nia.
    symmetry. apply (Z.div_unique _ _ _ tsc); lia.
  - destruct ((Ams - atoMS) * tsc >? now * tsc) eqn:E2; [nia|].
    destruct (now >? Ams - atoMS + (tsbd + 10) * 1000) eqn:E3;
      destruct ((Ams - atoMS) * tsc <? now * tsc - (tsbd + 10) * 1000 * tsc) eqn:E4; try reflexivity; nia.
Qed.

Lemma checkTime_inf A tsc tsbd now : checkTime A tsc now tsbd None = TvOk.
Proof. reflexivity. Qed.

(** The phase of a request by number, through the whole lookup. *)
Definition ophase {A} (o : outcome A) : Z :=
  match o with TTooEarly _ => 0 | TOk _ => 1 | TGone => 2 | _ => 3 end.

Lemma ophase_timed {A} t (x : A) : ophase (timed t (TOk x)) = phase t.
Proof. destruct t; reflexivity. Qed.

Lemma lookup_phase r loopMS c n now :
  wf r loopMS -> 0 <= n -> 0 <= startNr c -> startNr c + n < two32 ->
  ophase (lookup r loopMS c ByNumber (startNr c + n) now) =
  phase (checkTime (E r n + startS c * ts r) (ts r) now (tsbdS c) (ato c)).
Proof.
  intros W Hn Hs Hr. rewrite lookup_number by assumption.
  rewrite (segMetaFromNr_spec r loopMS W) by assumption. apply ophase_timed.
Qed.

Lemma lookup_monotone r loopMS c n now1 now2 :
  wf r loopMS -> 0 <= n -> 0 <= startNr c -> startNr c + n < two32 -> 0 <= tsbdS c -> now1 <= now2 ->
  ophase (lookup r loopMS c ByNumber (startNr c + n) now1) <=
  ophase (lookup r loopMS c ByNumber (startNr c + n) now2).
Proof.
  intros W Hn Hs Hr Ht Hnow. rewrite !lookup_phase by assumption.
  apply checkTime_monotone; [apply (wf_ts _ _ W)|assumption|assumption].
Qed.

Lemma lookup_time_phase r loopMS c n now :
  wf r loopMS -> 0 <= n -> S r n < two64 ->
  ophase (lookup r loopMS c ByTime (S r n) now) =
  phase (checkTime (E r n + startS c * ts r) (ts r) now (tsbdS c) (ato c)).
Proof.
  intros W Hn Ht. rewrite lookup_time by (pose proof (S_nonneg r loopMS n W Hn); lia).
  rewrite (segMetaFromTime_spec r loopMS W) by assumption. apply ophase_timed.
Qed.
