(** C08 - model of the URL-configuration parser of cmd/livesim2/app (configurl.go: processURLCfg,
    verifyAndFillConfig, CreateLossItvls, CreateAllLossItvls, CycleDurS, StateAt; strconv.go:
    strConvAccErr with Atoi, AtoiPtr, Atof, AtofPosPtr, AtofInf, SplitUTCTimings,
    ParseSegStatusCodes, ParseLossItvls, ParseQuery).

    Executable transliteration, no proofs.  Every index, slice, division, nil dereference and
    explicit panic of the Go code is an explicit [Panic "<function>: <kind>"]; Go [int] is 64 bit,
    the wrap is written where a URL value can reach it ([i64]).  Library functions are in UrlStr.v. *)
From Coq Require Import Ascii String List ZArith Lia Bool Floats.
From Verif Require Import GoSem UrlStr UrlFixes.

Definition sapp (a b : string) : string := String.append a b.
Infix "+++" := sapp (at level 60, right associativity).

(** * strConvAccErr: the accumulated error ([None] = nil) *)
Definition sc := option string.

Definition key_err (key : string) : string := "key=" +++ key +++ ", err=".

Definition sc_atoi (e : sc) (key val : string) : Z * sc :=
  match e with
  | Some _ => (0, e)
  | None => match atoi val with
            | Some v => (v, None)
            | None => (0, Some (key_err key))
            end
  end.

(** AtoiPtr: nil when an error is or was recorded. *)
Definition sc_atoi_ptr (e : sc) (key val : string) : option Z * sc :=
  match e with
  | Some _ => (None, e)
  | None => match atoi val with
            | Some v => (Some v, None)
            | None => (None, Some (key_err key))
            end
  end.

Section FloatKeys.
Variable fx : fixes.

(** strconv.ParseFloat; with C08-nan.diff "nan" is an error like any other malformed value *)
Definition parse_float_key (val : string) : pfloat :=
  match parse_float val with
  | PFok f => if fx_nan fx && negb (PrimFloat.eqb f f) then PFsyntax else PFok f
  | r => r
  end.

Definition sc_atof (e : sc) (key val : string) : option float * sc :=
  match e with
  | Some _ => (None, e)
  | None => match parse_float_key val with
            | PFok f => (Some f, None)
            | _ => (None, Some (key_err key))
            end
  end.

Definition sc_atof_pos_ptr (e : sc) (key val : string) : option float * sc :=
  match e with
  | Some _ => (None, e)
  | None => match parse_float_key val with
            | PFok f => if f_lt0 f then (None, Some ("key=" +++ key +++ ", val=" +++ val +++ " must be non-negative"))
                        else (Some f, None)
            | _ => (None, Some (key_err key))
            end
  end.

Definition sc_atof_inf (e : sc) (key val : string) : float * sc :=
  match e with
  | Some _ => (0%float, e)
  | None =>
    if String.eqb val "inf" then (infinity, None)
    else match parse_float_key val with
         | PFok f => (f, None)
         | _ => (0%float, Some (key_err key))
         end
  end.
End FloatKeys.

Definition utc_methods : list string :=
  ["direct"; "ntp"; "sntp"; "httpxsdate"; "httpxsdatems"; "httpiso"; "httpisoms"; "none"; "head"].

Fixpoint utc_loop (vals : list string) (e : sc) (keep : bool) : sc * bool :=
  match vals with
  | [] => (e, keep)
  | v :: t =>
    if existsb (String.eqb v) utc_methods then utc_loop t e keep
    else if String.eqb v "keep" then utc_loop t e true
    else utc_loop t (Some "is not a valid UTC timing method") keep
  end.

(** SplitUTCTimings: number of methods (nil = 0) and the error. *)
Definition sc_utc (e : sc) (val : string) : Z * sc :=
  match e with
  | Some _ => (0, e)
  | None =>
    let vals := split_on "-"%char val in
    let '(e1, keep) := utc_loop vals None false in
    if keep && (1 <? lenZ vals) then (0, Some "UTC value keep set together with other values")
    else (lenZ vals, e1)
  end.

Section WithFixes.
Variable fx : fixes.

(** ** ParseSegStatusCodes *)
Record ssc := { sc_cycle : Z; sc_rsq : Z; sc_code : Z; sc_reps : list string }.
Definition ssc0 : ssc := {| sc_cycle := 0; sc_rsq := 0; sc_code := 0; sc_reps := [] |}.

(** one "k:v" pair list of one {...} group; [inr e] = the early [return nil] on a bad pair *)
Fixpoint ssc_pairs (pairs : list string) (cur : ssc) (e : sc) : (ssc * sc) + sc :=
  match pairs with
  | [] => inl (cur, e)
  | p :: t =>
    match split_on ":"%char p with
    | [k; v] =>
      if String.eqb k "cycle" then
        let '(n, e1) := sc_atoi e "cycle" v in
        ssc_pairs t {| sc_cycle := n; sc_rsq := sc_rsq cur; sc_code := sc_code cur; sc_reps := sc_reps cur |} e1
      else if String.eqb k "rsq" then
        let '(n, e1) := sc_atoi e "rsq" v in
        ssc_pairs t {| sc_cycle := sc_cycle cur; sc_rsq := n; sc_code := sc_code cur; sc_reps := sc_reps cur |} e1
      else if String.eqb k "code" then
        let '(n, e1) := sc_atoi e "code" v in
        ssc_pairs t {| sc_cycle := sc_cycle cur; sc_rsq := sc_rsq cur; sc_code := n; sc_reps := sc_reps cur |} e1
      else if String.eqb k "rep" then
        if String.eqb v "*" then ssc_pairs t cur e
        else ssc_pairs t {| sc_cycle := sc_cycle cur; sc_rsq := sc_rsq cur; sc_code := sc_code cur;
                            sc_reps := split_on ","%char v |} e
      else ssc_pairs t cur (Some "Unknown key")
    | _ => inr (Some "Bad pair")
    end
  end.

Fixpoint ssc_groups (groups : list string) (e : sc) (acc : list ssc) : list ssc * sc :=
  match groups with
  | [] => (rev acc, e)
  | g :: t =>
    match ssc_pairs (split_on ","%char g) ssc0 e with
    | inr e1 => ([], e1)
    | inl (c, e1) =>
      let e2 := if sc_cycle c <=? 0 then Some "cycle is too small" else e1 in
      let e2 := if fx_status_cycle fx && (2147483647 <? sc_cycle c) then Some "cycle is too big" else e2 in
      let e3 := if sc_rsq c <? 0 then Some "rsq is too small" else e2 in
      let e4 := if (sc_code c <? 400) || (599 <? sc_code c) then Some "code is not in range 400-599" else e3 in
      ssc_groups t e4 (c :: acc)
    end
  end.

Definition sc_parse_ssc (e : sc) (val : string) : list ssc * sc :=
  match e with
  | Some _ => ([], e)
  | None =>
    let trimmed := remove_spaces val in
    if str_len trimmed <? 4 then ([], Some "is too short")
    else
      let inner := String.substring 2 (String.length trimmed - 4) trimmed in
      ssc_groups (split_sep "},{" 0 inner) None []
  end.

(** ** Loss intervals (traffic_) *)
(** state: 0 unknown, 1 up, 2 down (404), 3 slow, 4 hang *)
Definition loss_state_of (a : ascii) : option Z :=
  if Ascii.eqb a "u"%char then Some 1
  else if Ascii.eqb a "d"%char then Some 2
  else if Ascii.eqb a "s"%char then Some 3
  else if Ascii.eqb a "h"%char then Some 4
  else None.

(** CreateLossItvls: [None] = "invalid loss pattern". Intervals are (durS, state). *)
Fixpoint loss_loop (s : string) (state dur : Z) (acc : list (Z * Z)) : option (list (Z * Z)) :=
  match s with
  | EmptyString =>
    if state =? 0 then Some (rev acc)
    else if dur =? 0 then None else Some (rev ((dur, state) :: acc))
  | String c t =>
    match loss_state_of c with
    | Some st' =>
      if state =? 0 then loss_loop t st' 0 acc
      else if dur =? 0 then None
      else loss_loop t st' 0 ((dur, state) :: acc)
    | None =>
      match digit_of c with
      | Some d => loss_loop t state (i64 (dur * 10 + d)) acc
      | None => None
      end
    end
  end.
Definition cycle_dur (l : list (Z * Z)) : Z := fold_left (fun d it => i64 (d + fst it)) l 0.

Definition create_loss_itvls (pattern : string) : option (list (Z * Z)) :=
  match loss_loop pattern 0 0 [] with
  | Some li => if fx_loss fx && (cycle_dur li <=? 0) then None else Some li
  | None => None
  end.

Fixpoint all_loss_loop (pats : list string) (acc : list (list (Z * Z))) : option (list (list (Z * Z))) :=
  match pats with
  | [] => Some (rev acc)
  | p :: t => match create_loss_itvls p with
              | Some li => all_loss_loop t (li :: acc)
              | None => None
              end
  end.
Definition create_all_loss_itvls (pattern : string) : option (list (list (Z * Z))) :=
  if String.eqb pattern "" then Some [] else all_loss_loop (split_on ","%char pattern) [].

Definition sc_parse_loss (e : sc) (key val : string) : list (list (Z * Z)) * sc :=
  match e with
  | Some _ => ([], e)
  | None => match create_all_loss_itvls val with
            | Some l => (l, None)
            | None => ([], Some (key_err key))
            end
  end.

Fixpoint state_loop (l : list (Z * Z)) (rest : Z) : Z :=
  match l with
  | [] => 0
  | (d, s) :: t => let r := i64 (rest - d) in if r <? 0 then s else state_loop t r
  end.

(** LossItvls.StateAt(nowS) *)
Definition state_at (l : list (Z * Z)) (nowS : Z) : res Z :=
  do rest <- go_rem "app.LossItvls.StateAt: integer divide by zero" nowS (cycle_dur l);
  Ok (state_loop l rest).

(** ** ParseQuery (annexI_) : the parts map as an association list *)
Fixpoint q_add (m : list (string * list string)) (k v : string) : list (string * list string) :=
  match m with
  | [] => [(k, [v])]
  | (k', vs) :: t => if String.eqb k' k then (k', vs ++ [v]) :: t else (k', vs) :: q_add t k v
  end.

Fixpoint query_loop (pairs : list string) (m : list (string * list string)) (e : sc)
  : res (list (string * list string) * sc) :=
  match pairs with
  | [] => Ok (m, e)
  | p :: t =>
    match split_on "="%char p with
    | [k; v] => query_loop t (q_add m k v) e
    | [_] => if fx_annexI fx then query_loop t m (Some "invalid query pair")
             else Panic "app.(*strConvAccErr).ParseQuery: index out of range"
    | _ => query_loop t m (Some "invalid query pair")
    end
  end.

Definition sc_parse_query (e : sc) (val : string) : res (option (list (string * list string)) * sc) :=
  match e with
  | Some _ => Ok (None, e)
  | None => do r <- query_loop (split_on ","%char val) [] None;
            Ok (Some (fst r), snd r)
  end.

(** * ResponseConfig *)
Record cfg := {
  c_parts : list string;
  c_contentIdx : Z;
  c_startS : Z;
  c_stopS : option Z;
  c_timeOffset : option float;
  c_tsbd : option Z;
  c_mup : option Z;
  c_pph : option Z;
  c_scte35 : option Z;
  c_startNr : option Z;
  c_ato : float;
  c_chunkDur : option float;
  c_ltgt : option Z;
  c_addLocation : bool;
  c_contMulti : bool;
  c_segTimeline : bool;
  c_segTimelineNr : bool;
  c_complete : bool;
  c_stpp : list string;
  c_wvtt : list string;
  c_subsDurMS : Z;
  c_subsRegion : Z;
  c_patchTTL : Z;
  c_drm : string;
  c_codes : list ssc;
  c_traffic : list (list (Z * Z));
  c_query : option (list (string * list string))
}.

Definition new_cfg (parts : list string) : cfg := {|
  c_parts := parts; c_contentIdx := 0; c_startS := 0; c_stopS := None; c_timeOffset := None;
  c_tsbd := Some 60; c_mup := None; c_pph := None; c_scte35 := None; c_startNr := Some 0;
  c_ato := 0%float; c_chunkDur := None; c_ltgt := None; c_addLocation := false; c_contMulti := false;
  c_segTimeline := false; c_segTimelineNr := false; c_complete := true; c_stpp := []; c_wvtt := [];
  c_subsDurMS := 900; c_subsRegion := 0; c_patchTTL := 0; c_drm := ""; c_codes := []; c_traffic := [];
  c_query := None |}.

(** field updates *)
Definition set_startS v c := {| c_parts := c_parts c; c_contentIdx := c_contentIdx c; c_startS := v; c_stopS := c_stopS c; c_timeOffset := c_timeOffset c; c_tsbd := c_tsbd c; c_mup := c_mup c; c_pph := c_pph c; c_scte35 := c_scte35 c; c_startNr := c_startNr c; c_ato := c_ato c; c_chunkDur := c_chunkDur c; c_ltgt := c_ltgt c; c_addLocation := c_addLocation c; c_contMulti := c_contMulti c; c_segTimeline := c_segTimeline c; c_segTimelineNr := c_segTimelineNr c; c_complete := c_complete c; c_stpp := c_stpp c; c_wvtt := c_wvtt c; c_subsDurMS := c_subsDurMS c; c_subsRegion := c_subsRegion c; c_patchTTL := c_patchTTL c; c_drm := c_drm c; c_codes := c_codes c; c_traffic := c_traffic c; c_query := c_query c |}.
Definition set_stopS v c := {| c_parts := c_parts c; c_contentIdx := c_contentIdx c; c_startS := c_startS c; c_stopS := v; c_timeOffset := c_timeOffset c; c_tsbd := c_tsbd c; c_mup := c_mup c; c_pph := c_pph c; c_scte35 := c_scte35 c; c_startNr := c_startNr c; c_ato := c_ato c; c_chunkDur := c_chunkDur c; c_ltgt := c_ltgt c; c_addLocation := c_addLocation c; c_contMulti := c_contMulti c; c_segTimeline := c_segTimeline c; c_segTimelineNr := c_segTimelineNr c; c_complete := c_complete c; c_stpp := c_stpp c; c_wvtt := c_wvtt c; c_subsDurMS := c_subsDurMS c; c_subsRegion := c_subsRegion c; c_patchTTL := c_patchTTL c; c_drm := c_drm c; c_codes := c_codes c; c_traffic := c_traffic c; c_query := c_query c |}.
Definition set_timeOffset v c := {| c_parts := c_parts c; c_contentIdx := c_contentIdx c; c_startS := c_startS c; c_stopS := c_stopS c; c_timeOffset := v; c_tsbd := c_tsbd c; c_mup := c_mup c; c_pph := c_pph c; c_scte35 := c_scte35 c; c_startNr := c_startNr c; c_ato := c_ato c; c_chunkDur := c_chunkDur c; c_ltgt := c_ltgt c; c_addLocation := c_addLocation c; c_contMulti := c_contMulti c; c_segTimeline := c_segTimeline c; c_segTimelineNr := c_segTimelineNr c; c_complete := c_complete c; c_stpp := c_stpp c; c_wvtt := c_wvtt c; c_subsDurMS := c_subsDurMS c; c_subsRegion := c_subsRegion c; c_patchTTL := c_patchTTL c; c_drm := c_drm c; c_codes := c_codes c; c_traffic := c_traffic c; c_query := c_query c |}.
Definition set_tsbd v c := {| c_parts := c_parts c; c_contentIdx := c_contentIdx c; c_startS := c_startS c; c_stopS := c_stopS c; c_timeOffset := c_timeOffset c; c_tsbd := v; c_mup := c_mup c; c_pph := c_pph c; c_scte35 := c_scte35 c; c_startNr := c_startNr c; c_ato := c_ato c; c_chunkDur := c_chunkDur c; c_ltgt := c_ltgt c; c_addLocation := c_addLocation c; c_contMulti := c_contMulti c; c_segTimeline := c_segTimeline c; c_segTimelineNr := c_segTimelineNr c; c_complete := c_complete c; c_stpp := c_stpp c; c_wvtt := c_wvtt c; c_subsDurMS := c_subsDurMS c; c_subsRegion := c_subsRegion c; c_patchTTL := c_patchTTL c; c_drm := c_drm c; c_codes := c_codes c; c_traffic := c_traffic c; c_query := c_query c |}.
Definition set_mup v c := {| c_parts := c_parts c; c_contentIdx := c_contentIdx c; c_startS := c_startS c; c_stopS := c_stopS c; c_timeOffset := c_timeOffset c; c_tsbd := c_tsbd c; c_mup := v; c_pph := c_pph c; c_scte35 := c_scte35 c; c_startNr := c_startNr c; c_ato := c_ato c; c_chunkDur := c_chunkDur c; c_ltgt := c_ltgt c; c_addLocation := c_addLocation c; c_contMulti := c_contMulti c; c_segTimeline := c_segTimeline c; c_segTimelineNr := c_segTimelineNr c; c_complete := c_complete c; c_stpp := c_stpp c; c_wvtt := c_wvtt c; c_subsDurMS := c_subsDurMS c; c_subsRegion := c_subsRegion c; c_patchTTL := c_patchTTL c; c_drm := c_drm c; c_codes := c_codes c; c_traffic := c_traffic c; c_query := c_query c |}.
Definition set_pph v c := {| c_parts := c_parts c; c_contentIdx := c_contentIdx c; c_startS := c_startS c; c_stopS := c_stopS c; c_timeOffset := c_timeOffset c; c_tsbd := c_tsbd c; c_mup := c_mup c; c_pph := v; c_scte35 := c_scte35 c; c_startNr := c_startNr c; c_ato := c_ato c; c_chunkDur := c_chunkDur c; c_ltgt := c_ltgt c; c_addLocation := c_addLocation c; c_contMulti := c_contMulti c; c_segTimeline := c_segTimeline c; c_segTimelineNr := c_segTimelineNr c; c_complete := c_complete c; c_stpp := c_stpp c; c_wvtt := c_wvtt c; c_subsDurMS := c_subsDurMS c; c_subsRegion := c_subsRegion c; c_patchTTL := c_patchTTL c; c_drm := c_drm c; c_codes := c_codes c; c_traffic := c_traffic c; c_query := c_query c |}.
Definition set_scte35 v c := {| c_parts := c_parts c; c_contentIdx := c_contentIdx c; c_startS := c_startS c; c_stopS := c_stopS c; c_timeOffset := c_timeOffset c; c_tsbd := c_tsbd c; c_mup := c_mup c; c_pph := c_pph c; c_scte35 := v; c_startNr := c_startNr c; c_ato := c_ato c; c_chunkDur := c_chunkDur c; c_ltgt := c_ltgt c; c_addLocation := c_addLocation c; c_contMulti := c_contMulti c; c_segTimeline := c_segTimeline c; c_segTimelineNr := c_segTimelineNr c; c_complete := c_complete c; c_stpp := c_stpp c; c_wvtt := c_wvtt c; c_subsDurMS := c_subsDurMS c; c_subsRegion := c_subsRegion c; c_patchTTL := c_patchTTL c; c_drm := c_drm c; c_codes := c_codes c; c_traffic := c_traffic c; c_query := c_query c |}.
Definition set_startNr v c := {| c_parts := c_parts c; c_contentIdx := c_contentIdx c; c_startS := c_startS c; c_stopS := c_stopS c; c_timeOffset := c_timeOffset c; c_tsbd := c_tsbd c; c_mup := c_mup c; c_pph := c_pph c; c_scte35 := c_scte35 c; c_startNr := v; c_ato := c_ato c; c_chunkDur := c_chunkDur c; c_ltgt := c_ltgt c; c_addLocation := c_addLocation c; c_contMulti := c_contMulti c; c_segTimeline := c_segTimeline c; c_segTimelineNr := c_segTimelineNr c; c_complete := c_complete c; c_stpp := c_stpp c; c_wvtt := c_wvtt c; c_subsDurMS := c_subsDurMS c; c_subsRegion := c_subsRegion c; c_patchTTL := c_patchTTL c; c_drm := c_drm c; c_codes := c_codes c; c_traffic := c_traffic c; c_query := c_query c |}.
Definition set_ato v c := {| c_parts := c_parts c; c_contentIdx := c_contentIdx c; c_startS := c_startS c; c_stopS := c_stopS c; c_timeOffset := c_timeOffset c; c_tsbd := c_tsbd c; c_mup := c_mup c; c_pph := c_pph c; c_scte35 := c_scte35 c; c_startNr := c_startNr c; c_ato := v; c_chunkDur := c_chunkDur c; c_ltgt := c_ltgt c; c_addLocation := c_addLocation c; c_contMulti := c_contMulti c; c_segTimeline := c_segTimeline c; c_segTimelineNr := c_segTimelineNr c; c_complete := c_complete c; c_stpp := c_stpp c; c_wvtt := c_wvtt c; c_subsDurMS := c_subsDurMS c; c_subsRegion := c_subsRegion c; c_patchTTL := c_patchTTL c; c_drm := c_drm c; c_codes := c_codes c; c_traffic := c_traffic c; c_query := c_query c |}.
Definition set_chunkDur v c := {| c_parts := c_parts c; c_contentIdx := c_contentIdx c; c_startS := c_startS c; c_stopS := c_stopS c; c_timeOffset := c_timeOffset c; c_tsbd := c_tsbd c; c_mup := c_mup c; c_pph := c_pph c; c_scte35 := c_scte35 c; c_startNr := c_startNr c; c_ato := c_ato c; c_chunkDur := v; c_ltgt := c_ltgt c; c_addLocation := c_addLocation c; c_contMulti := c_contMulti c; c_segTimeline := c_segTimeline c; c_segTimelineNr := c_segTimelineNr c; c_complete := false; c_stpp := c_stpp c; c_wvtt := c_wvtt c; c_subsDurMS := c_subsDurMS c; c_subsRegion := c_subsRegion c; c_patchTTL := c_patchTTL c; c_drm := c_drm c; c_codes := c_codes c; c_traffic := c_traffic c; c_query := c_query c |}.
Definition set_ltgt v c := {| c_parts := c_parts c; c_contentIdx := c_contentIdx c; c_startS := c_startS c; c_stopS := c_stopS c; c_timeOffset := c_timeOffset c; c_tsbd := c_tsbd c; c_mup := c_mup c; c_pph := c_pph c; c_scte35 := c_scte35 c; c_startNr := c_startNr c; c_ato := c_ato c; c_chunkDur := c_chunkDur c; c_ltgt := v; c_addLocation := c_addLocation c; c_contMulti := c_contMulti c; c_segTimeline := c_segTimeline c; c_segTimelineNr := c_segTimelineNr c; c_complete := c_complete c; c_stpp := c_stpp c; c_wvtt := c_wvtt c; c_subsDurMS := c_subsDurMS c; c_subsRegion := c_subsRegion c; c_patchTTL := c_patchTTL c; c_drm := c_drm c; c_codes := c_codes c; c_traffic := c_traffic c; c_query := c_query c |}.
Definition set_addLocation c := {| c_parts := c_parts c; c_contentIdx := c_contentIdx c; c_startS := c_startS c; c_stopS := c_stopS c; c_timeOffset := c_timeOffset c; c_tsbd := c_tsbd c; c_mup := c_mup c; c_pph := c_pph c; c_scte35 := c_scte35 c; c_startNr := c_startNr c; c_ato := c_ato c; c_chunkDur := c_chunkDur c; c_ltgt := c_ltgt c; c_addLocation := true; c_contMulti := c_contMulti c; c_segTimeline := c_segTimeline c; c_segTimelineNr := c_segTimelineNr c; c_complete := c_complete c; c_stpp := c_stpp c; c_wvtt := c_wvtt c; c_subsDurMS := c_subsDurMS c; c_subsRegion := c_subsRegion c; c_patchTTL := c_patchTTL c; c_drm := c_drm c; c_codes := c_codes c; c_traffic := c_traffic c; c_query := c_query c |}.
Definition set_contMulti c := {| c_parts := c_parts c; c_contentIdx := c_contentIdx c; c_startS := c_startS c; c_stopS := c_stopS c; c_timeOffset := c_timeOffset c; c_tsbd := c_tsbd c; c_mup := c_mup c; c_pph := c_pph c; c_scte35 := c_scte35 c; c_startNr := c_startNr c; c_ato := c_ato c; c_chunkDur := c_chunkDur c; c_ltgt := c_ltgt c; c_addLocation := c_addLocation c; c_contMulti := true; c_segTimeline := c_segTimeline c; c_segTimelineNr := c_segTimelineNr c; c_complete := c_complete c; c_stpp := c_stpp c; c_wvtt := c_wvtt c; c_subsDurMS := c_subsDurMS c; c_subsRegion := c_subsRegion c; c_patchTTL := c_patchTTL c; c_drm := c_drm c; c_codes := c_codes c; c_traffic := c_traffic c; c_query := c_query c |}.
Definition set_segTimeline c := {| c_parts := c_parts c; c_contentIdx := c_contentIdx c; c_startS := c_startS c; c_stopS := c_stopS c; c_timeOffset := c_timeOffset c; c_tsbd := c_tsbd c; c_mup := c_mup c; c_pph := c_pph c; c_scte35 := c_scte35 c; c_startNr := c_startNr c; c_ato := c_ato c; c_chunkDur := c_chunkDur c; c_ltgt := c_ltgt c; c_addLocation := c_addLocation c; c_contMulti := c_contMulti c; c_segTimeline := true; c_segTimelineNr := c_segTimelineNr c; c_complete := c_complete c; c_stpp := c_stpp c; c_wvtt := c_wvtt c; c_subsDurMS := c_subsDurMS c; c_subsRegion := c_subsRegion c; c_patchTTL := c_patchTTL c; c_drm := c_drm c; c_codes := c_codes c; c_traffic := c_traffic c; c_query := c_query c |}.
Definition set_segTimelineNr c := {| c_parts := c_parts c; c_contentIdx := c_contentIdx c; c_startS := c_startS c; c_stopS := c_stopS c; c_timeOffset := c_timeOffset c; c_tsbd := c_tsbd c; c_mup := c_mup c; c_pph := c_pph c; c_scte35 := c_scte35 c; c_startNr := c_startNr c; c_ato := c_ato c; c_chunkDur := c_chunkDur c; c_ltgt := c_ltgt c; c_addLocation := c_addLocation c; c_contMulti := c_contMulti c; c_segTimeline := c_segTimeline c; c_segTimelineNr := true; c_complete := c_complete c; c_stpp := c_stpp c; c_wvtt := c_wvtt c; c_subsDurMS := c_subsDurMS c; c_subsRegion := c_subsRegion c; c_patchTTL := c_patchTTL c; c_drm := c_drm c; c_codes := c_codes c; c_traffic := c_traffic c; c_query := c_query c |}.
Definition set_stpp v c := {| c_parts := c_parts c; c_contentIdx := c_contentIdx c; c_startS := c_startS c; c_stopS := c_stopS c; c_timeOffset := c_timeOffset c; c_tsbd := c_tsbd c; c_mup := c_mup c; c_pph := c_pph c; c_scte35 := c_scte35 c; c_startNr := c_startNr c; c_ato := c_ato c; c_chunkDur := c_chunkDur c; c_ltgt := c_ltgt c; c_addLocation := c_addLocation c; c_contMulti := c_contMulti c; c_segTimeline := c_segTimeline c; c_segTimelineNr := c_segTimelineNr c; c_complete := c_complete c; c_stpp := v; c_wvtt := c_wvtt c; c_subsDurMS := c_subsDurMS c; c_subsRegion := c_subsRegion c; c_patchTTL := c_patchTTL c; c_drm := c_drm c; c_codes := c_codes c; c_traffic := c_traffic c; c_query := c_query c |}.
Definition set_wvtt v c := {| c_parts := c_parts c; c_contentIdx := c_contentIdx c; c_startS := c_startS c; c_stopS := c_stopS c; c_timeOffset := c_timeOffset c; c_tsbd := c_tsbd c; c_mup := c_mup c; c_pph := c_pph c; c_scte35 := c_scte35 c; c_startNr := c_startNr c; c_ato := c_ato c; c_chunkDur := c_chunkDur c; c_ltgt := c_ltgt c; c_addLocation := c_addLocation c; c_contMulti := c_contMulti c; c_segTimeline := c_segTimeline c; c_segTimelineNr := c_segTimelineNr c; c_complete := c_complete c; c_stpp := c_stpp c; c_wvtt := v; c_subsDurMS := c_subsDurMS c; c_subsRegion := c_subsRegion c; c_patchTTL := c_patchTTL c; c_drm := c_drm c; c_codes := c_codes c; c_traffic := c_traffic c; c_query := c_query c |}.
Definition set_subsDurMS v c := {| c_parts := c_parts c; c_contentIdx := c_contentIdx c; c_startS := c_startS c; c_stopS := c_stopS c; c_timeOffset := c_timeOffset c; c_tsbd := c_tsbd c; c_mup := c_mup c; c_pph := c_pph c; c_scte35 := c_scte35 c; c_startNr := c_startNr c; c_ato := c_ato c; c_chunkDur := c_chunkDur c; c_ltgt := c_ltgt c; c_addLocation := c_addLocation c; c_contMulti := c_contMulti c; c_segTimeline := c_segTimeline c; c_segTimelineNr := c_segTimelineNr c; c_complete := c_complete c; c_stpp := c_stpp c; c_wvtt := c_wvtt c; c_subsDurMS := v; c_subsRegion := c_subsRegion c; c_patchTTL := c_patchTTL c; c_drm := c_drm c; c_codes := c_codes c; c_traffic := c_traffic c; c_query := c_query c |}.
Definition set_subsRegion v c := {| c_parts := c_parts c; c_contentIdx := c_contentIdx c; c_startS := c_startS c; c_stopS := c_stopS c; c_timeOffset := c_timeOffset c; c_tsbd := c_tsbd c; c_mup := c_mup c; c_pph := c_pph c; c_scte35 := c_scte35 c; c_startNr := c_startNr c; c_ato := c_ato c; c_chunkDur := c_chunkDur c; c_ltgt := c_ltgt c; c_addLocation := c_addLocation c; c_contMulti := c_contMulti c; c_segTimeline := c_segTimeline c; c_segTimelineNr := c_segTimelineNr c; c_complete := c_complete c; c_stpp := c_stpp c; c_wvtt := c_wvtt c; c_subsDurMS := c_subsDurMS c; c_subsRegion := v; c_patchTTL := c_patchTTL c; c_drm := c_drm c; c_codes := c_codes c; c_traffic := c_traffic c; c_query := c_query c |}.
Definition set_patchTTL v c := {| c_parts := c_parts c; c_contentIdx := c_contentIdx c; c_startS := c_startS c; c_stopS := c_stopS c; c_timeOffset := c_timeOffset c; c_tsbd := c_tsbd c; c_mup := c_mup c; c_pph := c_pph c; c_scte35 := c_scte35 c; c_startNr := c_startNr c; c_ato := c_ato c; c_chunkDur := c_chunkDur c; c_ltgt := c_ltgt c; c_addLocation := c_addLocation c; c_contMulti := c_contMulti c; c_segTimeline := c_segTimeline c; c_segTimelineNr := c_segTimelineNr c; c_complete := c_complete c; c_stpp := c_stpp c; c_wvtt := c_wvtt c; c_subsDurMS := c_subsDurMS c; c_subsRegion := c_subsRegion c; c_patchTTL := v; c_drm := c_drm c; c_codes := c_codes c; c_traffic := c_traffic c; c_query := c_query c |}.
Definition set_drm v c := {| c_parts := c_parts c; c_contentIdx := c_contentIdx c; c_startS := c_startS c; c_stopS := c_stopS c; c_timeOffset := c_timeOffset c; c_tsbd := c_tsbd c; c_mup := c_mup c; c_pph := c_pph c; c_scte35 := c_scte35 c; c_startNr := c_startNr c; c_ato := c_ato c; c_chunkDur := c_chunkDur c; c_ltgt := c_ltgt c; c_addLocation := c_addLocation c; c_contMulti := c_contMulti c; c_segTimeline := c_segTimeline c; c_segTimelineNr := c_segTimelineNr c; c_complete := c_complete c; c_stpp := c_stpp c; c_wvtt := c_wvtt c; c_subsDurMS := c_subsDurMS c; c_subsRegion := c_subsRegion c; c_patchTTL := c_patchTTL c; c_drm := v; c_codes := c_codes c; c_traffic := c_traffic c; c_query := c_query c |}.
Definition set_codes v c := {| c_parts := c_parts c; c_contentIdx := c_contentIdx c; c_startS := c_startS c; c_stopS := c_stopS c; c_timeOffset := c_timeOffset c; c_tsbd := c_tsbd c; c_mup := c_mup c; c_pph := c_pph c; c_scte35 := c_scte35 c; c_startNr := c_startNr c; c_ato := c_ato c; c_chunkDur := c_chunkDur c; c_ltgt := c_ltgt c; c_addLocation := c_addLocation c; c_contMulti := c_contMulti c; c_segTimeline := c_segTimeline c; c_segTimelineNr := c_segTimelineNr c; c_complete := c_complete c; c_stpp := c_stpp c; c_wvtt := c_wvtt c; c_subsDurMS := c_subsDurMS c; c_subsRegion := c_subsRegion c; c_patchTTL := c_patchTTL c; c_drm := c_drm c; c_codes := v; c_traffic := c_traffic c; c_query := c_query c |}.
Definition set_traffic v c := {| c_parts := c_parts c; c_contentIdx := c_contentIdx c; c_startS := c_startS c; c_stopS := c_stopS c; c_timeOffset := c_timeOffset c; c_tsbd := c_tsbd c; c_mup := c_mup c; c_pph := c_pph c; c_scte35 := c_scte35 c; c_startNr := c_startNr c; c_ato := c_ato c; c_chunkDur := c_chunkDur c; c_ltgt := c_ltgt c; c_addLocation := c_addLocation c; c_contMulti := c_contMulti c; c_segTimeline := c_segTimeline c; c_segTimelineNr := c_segTimelineNr c; c_complete := c_complete c; c_stpp := c_stpp c; c_wvtt := c_wvtt c; c_subsDurMS := c_subsDurMS c; c_subsRegion := c_subsRegion c; c_patchTTL := c_patchTTL c; c_drm := c_drm c; c_codes := c_codes c; c_traffic := v; c_query := c_query c |}.
Definition set_query v c := {| c_parts := c_parts c; c_contentIdx := c_contentIdx c; c_startS := c_startS c; c_stopS := c_stopS c; c_timeOffset := c_timeOffset c; c_tsbd := c_tsbd c; c_mup := c_mup c; c_pph := c_pph c; c_scte35 := c_scte35 c; c_startNr := c_startNr c; c_ato := c_ato c; c_chunkDur := c_chunkDur c; c_ltgt := c_ltgt c; c_addLocation := c_addLocation c; c_contMulti := c_contMulti c; c_segTimeline := c_segTimeline c; c_segTimelineNr := c_segTimelineNr c; c_complete := c_complete c; c_stpp := c_stpp c; c_wvtt := c_wvtt c; c_subsDurMS := c_subsDurMS c; c_subsRegion := c_subsRegion c; c_patchTTL := c_patchTTL c; c_drm := c_drm c; c_codes := c_codes c; c_traffic := c_traffic c; c_query := v |}.
Definition set_contentIdx v c := {| c_parts := c_parts c; c_contentIdx := v; c_startS := c_startS c; c_stopS := c_stopS c; c_timeOffset := c_timeOffset c; c_tsbd := c_tsbd c; c_mup := c_mup c; c_pph := c_pph c; c_scte35 := c_scte35 c; c_startNr := c_startNr c; c_ato := c_ato c; c_chunkDur := c_chunkDur c; c_ltgt := c_ltgt c; c_addLocation := c_addLocation c; c_contMulti := c_contMulti c; c_segTimeline := c_segTimeline c; c_segTimelineNr := c_segTimelineNr c; c_complete := c_complete c; c_stpp := c_stpp c; c_wvtt := c_wvtt c; c_subsDurMS := c_subsDurMS c; c_subsRegion := c_subsRegion c; c_patchTTL := c_patchTTL c; c_drm := c_drm c; c_codes := c_codes c; c_traffic := c_traffic c; c_query := c_query c |}.

(** * processURLCfg *)

(** The keys of the switch in processURLCfg. *)
Inductive ukey :=
| K_start | K_stop | K_startrel | K_stoprel | K_dur | K_timeoffset | K_init | K_tsbd | K_mup
| K_modulo | K_tfdt | K_cont | K_periods | K_xlink | K_etp | K_etpDuration | K_insertad
| K_continuous | K_segtimeline | K_segtimelinenr | K_peroff | K_scte35 | K_utc | K_snr | K_ato
| K_ltgt | K_spd | K_sidx | K_segtimelineloss | K_chunkdur | K_timesubsstpp | K_timesubswvtt
| K_timesubsdur | K_timesubsreg | K_statuscode | K_traffic | K_drm | K_eccp | K_patch | K_annexI
| K_other.

Definition key_table : list (string * ukey) :=
  [("start", K_start); ("ast", K_start); ("stop", K_stop); ("startrel", K_startrel);
   ("stoprel", K_stoprel); ("dur", K_dur); ("timeoffset", K_timeoffset); ("init", K_init);
   ("tsbd", K_tsbd); ("mup", K_mup); ("modulo", K_modulo); ("tfdt", K_tfdt); ("cont", K_cont);
   ("periods", K_periods); ("xlink", K_xlink); ("etp", K_etp); ("etpDuration", K_etpDuration);
   ("insertad", K_insertad); ("continuous", K_continuous); ("segtimeline", K_segtimeline);
   ("segtimelinenr", K_segtimelinenr); ("peroff", K_peroff); ("scte35", K_scte35); ("utc", K_utc);
   ("snr", K_snr); ("ato", K_ato); ("ltgt", K_ltgt); ("spd", K_spd); ("sidx", K_sidx);
   ("segtimelineloss", K_segtimelineloss); ("chunkdur", K_chunkdur);
   ("timesubsstpp", K_timesubsstpp); ("timesubswvtt", K_timesubswvtt);
   ("timesubsdur", K_timesubsdur); ("timesubsreg", K_timesubsreg); ("statuscode", K_statuscode);
   ("traffic", K_traffic); ("drm", K_drm); ("eccp", K_eccp); ("patch", K_patch);
   ("annexI", K_annexI)].

Fixpoint classify_in (t : list (string * ukey)) (key : string) : ukey :=
  match t with
  | [] => K_other
  | (k, u) :: r => if String.eqb k key then u else classify_in r key
  end.
Definition classify (key : string) : ukey := classify_in key_table key.

(** What one "key_val" part does to (cfg, accumulated error). *)
Inductive kres :=
| KCont (c : cfg) (e : sc)       (* next part *)
| KContent                       (* default: the content part starts here *)
| KErr (msg : string)            (* immediate return of an error *)
| KPanic (site : string).

(** a parse whose value is not kept by the model (only its effect on the error) *)
Definition drop_ptr (c : cfg) (e : sc) (key val : string) : kres :=
  KCont c (snd (sc_atoi_ptr e key val)).

Definition apply_key (u : ukey) (key val : string) (nowMS : Z) (c : cfg) (e : sc) : kres :=
  match u with
  | K_start => let '(v, e1) := sc_atoi e key val in KCont (set_startS v c) e1
  | K_stop => let '(p, e1) := sc_atoi_ptr e key val in KCont (set_stopS p c) e1
  | K_startrel =>
    let '(v, e1) := sc_atoi e key val in
    KCont (set_addLocation (set_startS (i64 (v + ms2S nowMS)) c)) e1
  | K_stoprel =>
    let '(p, e1) := sc_atoi_ptr e key val in
    match p with
    | None => if fx_stoprel fx then KErr (match e1 with Some m => m | None => "" end)
              else KPanic "app.processURLCfg: nil dereference"
    | Some v => KCont (set_addLocation (set_stopS (Some (i64 (v + ms2S nowMS))) c)) e1
    end
  | K_dur => KCont c (snd (sc_atoi e key val))
  | K_timeoffset => let '(p, e1) := sc_atof fx e key val in KCont (set_timeOffset p c) e1
  | K_init => drop_ptr c e key val
  | K_tsbd => let '(p, e1) := sc_atoi_ptr e key val in KCont (set_tsbd p c) e1
  | K_mup => let '(p, e1) := sc_atoi_ptr e key val in KCont (set_mup p c) e1
  | K_modulo => KErr "not implemented"
  | K_tfdt => KCont c e
  | K_cont => KCont c e
  | K_periods => let '(p, e1) := sc_atoi_ptr e key val in KCont (set_pph p c) e1
  | K_xlink => drop_ptr c e key val
  | K_etp => drop_ptr c e key val
  | K_etpDuration => drop_ptr c e key val
  | K_insertad => KCont c e
  | K_continuous => KCont (set_contMulti c) e
  | K_segtimeline => KCont (set_segTimeline c) e
  | K_segtimelinenr => KCont (set_segTimelineNr c) e
  | K_peroff => drop_ptr c e key val
  | K_scte35 => let '(p, e1) := sc_atoi_ptr e key val in KCont (set_scte35 p c) e1
  | K_utc => KCont c (snd (sc_utc e val))
  | K_snr => let '(p, e1) := sc_atoi_ptr e key val in KCont (set_startNr p c) e1
  | K_ato => let '(f, e1) := sc_atof_inf fx e key val in KCont (set_ato f c) e1
  | K_ltgt => let '(p, e1) := sc_atoi_ptr e key val in KCont (set_ltgt p c) e1
  | K_spd => drop_ptr c e key val
  | K_sidx => KCont c e
  | K_segtimelineloss => KCont c e
  | K_chunkdur => let '(p, e1) := sc_atof_pos_ptr fx e key val in KCont (set_chunkDur p c) e1
  | K_timesubsstpp => KCont (set_stpp (split_on ","%char val) c) e
  | K_timesubswvtt => KCont (set_wvtt (split_on ","%char val) c) e
  | K_timesubsdur => let '(v, e1) := sc_atoi e key val in KCont (set_subsDurMS v c) e1
  | K_timesubsreg => let '(v, e1) := sc_atoi e key val in KCont (set_subsRegion v c) e1
  | K_statuscode => let '(l, e1) := sc_parse_ssc e val in KCont (set_codes l c) e1
  | K_traffic => let '(l, e1) := sc_parse_loss e key val in KCont (set_traffic l c) e1
  | K_drm => KCont (set_drm val c) e
  | K_eccp => KCont (set_drm ("eccp-" +++ val) c) e
  | K_patch => let '(v, e1) := sc_atoi e key val in KCont (if 0 <? v then set_patchTTL v c else c) e1
  | K_annexI =>
    match sc_parse_query e val with
    | Ok (q, e1) => KCont (set_query q c) e1
    | Err m => KErr m
    | Panic s => KPanic s
    end
  | K_other => KContent
  end.

(** The loop over the URL parts; returns the configuration, the accumulated error and
    contentStartIdx (-1 when no content part was found). *)
Fixpoint cfg_loop (parts : list string) (i : Z) (nowMS : Z) (c : cfg) (e : sc) : res (cfg * sc * Z) :=
  match parts with
  | [] => Ok (c, e, -1)
  | p :: rest =>
    if i <? 2 then cfg_loop rest (i + 1) nowMS c e
    else match cut "_"%char p with
         | None => Ok (c, e, i)
         | Some (key, val) =>
           match apply_key (classify key) key val nowMS c e with
           | KCont c' e' => cfg_loop rest (i + 1) nowMS c' e'
           | KContent => Ok (c, e, i)
           | KErr m => Err m
           | KPanic s => Panic s
           end
         end
  end.

Definition max_tsbd : Z := 48 * 3600.

(** verifyAndFillConfig *)
Definition verify_and_fill (c : cfg) (nowMS : Z) : res cfg :=
  if nowMS <? 0 then Err "nowMS must be >= 0"
  else if fx_stop_order fx && match c_stopS c with Some st => st <? c_startS c | None => false end
  then Err "is before start time"
  else if fx_snr fx && match c_startNr c with Some n => (maxu32 <? n) || (n <? -2147483648) | None => false end
  then Err "snr must be"
  else if c_segTimelineNr c && c_segTimeline c then Err "cannot be used at same time"
  else if fx_subsdur fx && (c_subsDurMS c <=? 0) then Err "timesubsdur must be > 0"
  else if (c_subsRegion c <? 0) || (1 <? c_subsRegion c) then Err "timesubsreg number must be 0 or 1"
  else if match c_mup c with Some m => m <=? 0 | None => false end then Err "minimumUpdatePeriod must be > 0"
  else
    let c1 := if f_gt0 (c_ato c) && match c_ltgt c with None => true | Some _ => false end
              then set_ltgt (Some 3500) c else c in
    if match c_tsbd c1 with Some t => (t <? 0) || (max_tsbd <? t) | None => false end
    then Err "timeShiftBufferDepth"
    else if fx_periods fx && match c_pph c1 with Some n => (n <=? 0) || (3600 <? n) | None => false end
    then Err "periods per hour must be in the range 1-3600"
    else if c_contMulti c1 && match c_pph c1 with None => true | Some _ => false end
    then Err "period continuity set, but not multiple periods per hour"
    else if match c_scte35 c1 with Some n => negb ((n =? 1) || (n =? 2) || (n =? 3)) | None => false end
    then Err "scte35 per minute must be 1, 2, or 3"
    else Ok c1.

(** url.QueryUnescape applied to the output of URL.String(): on the paths considered by the
    model (no '%') its only effect is '+' -> ' '. *)
Fixpoint plus_to_space (s : string) : string :=
  match s with
  | EmptyString => EmptyString
  | String a t => String (if Ascii.eqb a "+"%char then " "%char else a) (plus_to_space t)
  end.

Definition process_url_cfg (path : string) (nowMS : Z) : res cfg :=
  let parts := split_on "/"%char (plus_to_space path) in
  do r <- cfg_loop parts 0 nowMS (new_cfg parts) None;
  let '(c, e, idx) := r in
  match e with
  | Some m => Err m
  | None =>
    if idx =? -1 then Err "no content part"
    else do c1 <- verify_and_fill c nowMS;
         Ok (set_contentIdx idx c1)
  end.

End WithFixes.
