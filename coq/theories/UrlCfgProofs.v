(** C08 - proofs about the URL-configuration parser model (UrlCfg.v) and the handler model
    (UrlHandler.v). *)
From Coq Require Import Ascii String List ZArith Lia Bool Floats ZifyBool.
From Verif Require Import GoSem UrlStr UrlFixes UrlCfg UrlHandler.

Definition site_stoprel : string := "app.processURLCfg: nil dereference".
Definition site_annexI : string := "app.(*strConvAccErr).ParseQuery: index out of range".

(** * The parser never panics except at the two named sites *)

Lemma query_loop_panic fx pairs : forall m e s,
  query_loop fx pairs m e = Panic s -> fx_annexI fx = false /\ s = site_annexI.
Proof.
  induction pairs as [|p t IH]; intros m e s H; cbn [query_loop] in H; [discriminate|].
  destruct (split_on "="%char p) as [|k [|v [|w r]]].
  - eapply IH; eauto.
  - destruct (fx_annexI fx) eqn:F.
    + eapply IH in H. destruct H as [H _]. congruence.
    + inversion H; auto.
  - eapply IH; eauto.
  - eapply IH; eauto.
Qed.

Lemma sc_parse_query_panic fx e val s :
  sc_parse_query fx e val = Panic s -> fx_annexI fx = false /\ s = site_annexI.
Proof.
  unfold sc_parse_query. destruct e; [discriminate|].
  destruct (query_loop fx (split_on ","%char val) [] None) eqn:Q; cbn; try discriminate.
  intro H; inversion H; subst. eapply query_loop_panic; eauto.
Qed.

Definition named_site (fx : fixes) (s : string) : Prop :=
  (fx_stoprel fx = false /\ s = site_stoprel) \/ (fx_annexI fx = false /\ s = site_annexI).

Lemma apply_key_panic fx u key val now c e s :
  apply_key fx u key val now c e = KPanic s -> named_site fx s.
Proof.
  destruct u; cbn [apply_key]; unfold drop_ptr;
    repeat match goal with
           | |- context [let '(_, _) := ?x in _] => destruct x
           end; try discriminate.
  - (* stoprel *)
    destruct o; [discriminate|]. destruct (fx_stoprel fx) eqn:F; [discriminate|].
    intro H; inversion H; left; auto.
  - (* annexI *)
    destruct (sc_parse_query fx e val) as [[q e1]| |s'] eqn:Q; try discriminate.
    intro H; inversion H; subst. right. eapply sc_parse_query_panic; eauto.
Qed.

Lemma cfg_loop_panic fx now parts : forall i c e s,
  cfg_loop fx parts i now c e = Panic s -> named_site fx s.
Proof.
  induction parts as [|p rest IH]; intros i c e s H; cbn [cfg_loop] in H; [discriminate|].
  destruct (i <? 2); [eapply IH; eauto|].
  destruct (cut "_"%char p) as [[key val]|]; [|discriminate].
  destruct (apply_key fx (classify key) key val now c e) eqn:A; try discriminate.
  - eapply IH; eauto.
  - inversion H; subst. eapply apply_key_panic; eauto.
Qed.

Lemma verify_and_fill_no_panic fx c now s : verify_and_fill fx c now <> Panic s.
Proof.
  unfold verify_and_fill.
  repeat match goal with |- context [if ?b then _ else _] => destruct b end; discriminate.
Qed.

(** For ANY path (any list of parts) and any clock: the parser returns a configuration or an
    error, or panics at one of the two named sites - and at those only on a tree that lacks the
    corresponding repair. *)
Theorem parser_total fx path now s :
  process_url_cfg fx path now = Panic s -> named_site fx s.
Proof.
  unfold process_url_cfg.
  destruct (cfg_loop fx _ 0 now _ None) as [[[c e] idx]| |s'] eqn:L; cbn [bind]; try discriminate.
  - destruct e; [discriminate|]. destruct (idx =? -1); [discriminate|].
    destruct (verify_and_fill fx c now) eqn:V; cbn [bind]; try discriminate.
    intro H; inversion H; subst. exfalso. eapply verify_and_fill_no_panic; eauto.
  - intro H; inversion H; subst. eapply cfg_loop_panic; eauto.
Qed.

Corollary parser_total_guarded fx path now :
  fx_stoprel fx = true -> fx_annexI fx = true ->
  forall s, process_url_cfg fx path now <> Panic s.
Proof.
  intros F1 F2 s H. apply parser_total in H. destruct H as [[H _]|[H _]]; congruence.
Qed.

(** The panics of the two sites need the offending part: no "stoprel_" part and no "annexI_" part
    in the path means no panic, on any tree. *)
Fixpoint no_key (u1 u2 : ukey -> bool) (parts : list string) : bool :=
  match parts with
  | [] => true
  | p :: t => match cut "_"%char p with
              | Some (key, _) => negb (u1 (classify key)) && negb (u2 (classify key)) && no_key u1 u2 t
              | None => no_key u1 u2 t
              end
  end.
Definition is_stoprel (u : ukey) : bool := match u with K_stoprel => true | _ => false end.
Definition is_annexI (u : ukey) : bool := match u with K_annexI => true | _ => false end.

Lemma apply_key_other fx u key val now c e s :
  is_stoprel u = false -> is_annexI u = false -> apply_key fx u key val now c e <> KPanic s.
Proof.
  intros H1 H2; destruct u; try discriminate; cbn [apply_key]; unfold drop_ptr;
    repeat match goal with
           | |- context [let '(_, _) := ?x in _] => destruct x
           end; discriminate.
Qed.

Lemma cfg_loop_no_key fx now parts : forall i c e s,
  no_key is_stoprel is_annexI parts = true -> cfg_loop fx parts i now c e <> Panic s.
Proof.
  induction parts as [|p rest IH]; intros i c e s N H; cbn [cfg_loop] in H; [discriminate|].
  cbn [no_key] in N.
  destruct (cut "_"%char p) as [[key val]|].
  - apply andb_prop in N. destruct N as [N N3]. apply andb_prop in N. destruct N as [N1 N2].
    destruct (i <? 2); [eapply IH; eauto|].
    destruct (apply_key fx (classify key) key val now c e) eqn:A; try discriminate.
    + eapply IH; eauto.
    + eapply apply_key_other; eauto using negb_true_iff.
      * apply negb_true_iff; exact N1.
      * apply negb_true_iff; exact N2.
  - destruct (i <? 2); [eapply IH; eauto|discriminate].
Qed.

Theorem parser_total_without_keys fx path now s :
  no_key is_stoprel is_annexI (split_on "/"%char (plus_to_space path)) = true ->
  process_url_cfg fx path now <> Panic s.
Proof.
  intros N. unfold process_url_cfg.
  destruct (cfg_loop fx _ 0 now _ None) as [[[c e] idx]| |s'] eqn:L; cbn [bind]; try discriminate.
  - destruct e; [discriminate|]. destruct (idx =? -1); [discriminate|].
    destruct (verify_and_fill fx c now) eqn:V; cbn [bind]; try discriminate.
    intro H; inversion H; subst. eapply verify_and_fill_no_panic; eauto.
  - exfalso. eapply cfg_loop_no_key; eauto.
Qed.

(** * Status classes *)

(** A value that strconv.Atoi rejects is reported with the key in the message. *)
Lemma sc_atoi_error key val : atoi val = None ->
  sc_atoi None key val = (0, Some ("key=" +++ key +++ ", err=")).
Proof. intro H. unfold sc_atoi. rewrite H. reflexivity. Qed.

Lemma sc_atoi_ptr_error key val : atoi val = None ->
  sc_atoi_ptr None key val = (None, Some ("key=" +++ key +++ ", err=")).
Proof. intro H. unfold sc_atoi_ptr. rewrite H. reflexivity. Qed.

(** Once an error is recorded it is never cleared by a later part... *)
Lemma apply_key_keeps_error fx u key val now c m c' e' :
  apply_key fx u key val now c (Some m) = KCont c' e' -> exists m', e' = Some m'.
Proof.
  destruct u; cbn [apply_key sc_atoi sc_atoi_ptr sc_atof sc_atof_pos_ptr sc_atof_inf sc_utc
                    sc_parse_ssc sc_parse_loss sc_parse_query drop_ptr snd bind];
    try (intro H; inversion H; eauto; fail).
  destruct (fx_stoprel fx); discriminate.
Qed.

Lemma cfg_loop_keeps_error fx now parts : forall i c m c' e' idx,
  cfg_loop fx parts i now c (Some m) = Ok (c', e', idx) -> exists m', e' = Some m'.
Proof.
  induction parts as [|p rest IH]; intros i c m c' e' idx H; cbn [cfg_loop] in H.
  - inversion H; eauto.
  - destruct (i <? 2); [eapply IH; eauto|].
    destruct (cut "_"%char p) as [[key val]|]; [|inversion H; eauto].
    destruct (apply_key fx (classify key) key val now c (Some m)) eqn:A; try discriminate.
    + apply apply_key_keeps_error in A. destruct A as [m' ->]. eapply IH; eauto.
    + inversion H; eauto.
Qed.

(** ... so a parse error anywhere in the URL ends in a 400 (or in one of the named panics on an
    unrepaired tree), never in a served response. *)
Theorem parse_error_is_400 fx e path nowArg uq now m :
  atoi nowArg = Some now -> process_url_cfg fx path now = Err m ->
  live_handler fx e path nowArg uq = HStatus 400 m.
Proof. intros A P. unfold live_handler. rewrite A, P. reflexivity. Qed.

Theorem bad_now_is_400 fx e path nowArg uq :
  atoi nowArg = None -> live_handler fx e path nowArg uq = HStatus 400 "bad nowMS query".
Proof. intros A. unfold live_handler. rewrite A. reflexivity. Qed.

(** unknown asset -> 404 (when the configuration parses and the stream has started) *)
Theorem unknown_asset_is_404 fx e path nowArg uq now c :
  atoi nowArg = Some now -> process_url_cfg fx path now = Ok c -> c_timeOffset c = None ->
  (now <? i64 (c_startS c * 1000)) = false ->
  find_asset (e_assets e) (join "/" (dropZ (c_contentIdx c) (c_parts c))) = None ->
  live_handler fx e path nowArg uq = HStatus 404 "unknown asset".
Proof.
  intros A P T S F. unfold live_handler. rewrite A, P, T, S, F. reflexivity.
Qed.

(** number below startNumber -> 404, for video, for audio, and (with the repair) for generated subtitles *)
Theorem below_start_is_404_plain fx r loopMS c segPart segID now :
  rep_type c segPart = 0 -> u32 segID < u32 (start_nr c) ->
  lookup_plain fx r loopMS c segPart segID now = Ret e404.
Proof.
  intros T L. unfold lookup_plain. rewrite T. cbn.
  destruct (u32 segID <? u32 (start_nr c)) eqn:E; [rewrite orb_true_r; reflexivity|lia].
Qed.

Theorem below_start_is_404_audio fx a r c segPart segID now :
  rep_type c segPart = 0 -> u32 segID < u32 (start_nr c) ->
  find_ref_seg_meta fx a r c segPart segID now = Ret e404.
Proof.
  intros T L. unfold find_ref_seg_meta. rewrite T. cbn.
  destruct (u32 segID <? u32 (start_nr c)) eqn:E; [rewrite orb_true_r; reflexivity|lia].
Qed.

Theorem unknown_rep_is_404 fx a c segPart now :
  find_rep (a_reps a) segPart = RMnone -> create_out_seg fx a c segPart now = Ret e404.
Proof. intro H. unfold create_out_seg. rewrite H. reflexivity. Qed.

(** * Index safety of the number lookup *)
Lemma rem_index_in_range (nas len : Z) : 0 <= nas -> 0 < len ->
  0 <= nas - Z.quot nas len * len < len.
Proof.
  intros H1 H2. pose proof (Z.quot_rem' nas len). pose proof (Z.rem_bound_pos nas len H1 H2). lia.
Qed.

Lemma nthZ_in_range {A} (l : list A) i : 0 <= i < lenZ l -> exists x, nthZ i l = Some x.
Proof.
  revert i; induction l as [|y l IH]; intros i H; unfold lenZ in *; cbn [length] in *; [lia|].
  cbn [nthZ]. destruct (i <? 0) eqn:E1; [lia|]. destruct (i =? 0) eqn:E2; [eauto|].
  apply IH. lia.
Qed.

Definition is_bad (r : hres) : bool :=
  match r with HStatus _ _ => false | _ => true end.
Definition hm_bad {A} (m : hm A) : bool :=
  match m with Cont _ => false | Ret r => is_bad r end.

Lemma timed_not_bad {A} t (k : hm A) : hm_bad k = false -> hm_bad (timed t k) = false.
Proof. destruct t; cbn; auto. Qed.

(** findSegMetaFromNr does not panic for a number at or above the start number (no int64 wrap
    of nr - startNr), a non-empty segment list and a configuration produced by the parser. *)
Lemma seg_meta_from_nr_safe r loopMS c nr now :
  r_segs r <> [] -> c_tsbd c <> None ->
  0 <= nr - start_nr c < two63 ->
  hm_bad (seg_meta_from_nr r loopMS c nr now) = false.
Proof.
  intros NE TS R. unfold seg_meta_from_nr.
  assert (L : 0 < lenZ (r_segs r)).
  { destruct (r_segs r); [congruence|]. unfold lenZ; cbn [length]; lia. }
  destruct (lenZ (r_segs r) =? 0) eqn:E; [lia|].
  assert (I : i64 (nr - start_nr c) = nr - start_nr c).
  { unfold i64, two64, two63 in *. rewrite Z.mod_small by lia. lia. }
  rewrite I.
  destruct (nthZ_in_range (r_segs r) _ (rem_index_in_range _ _ (proj1 R) L)) as [s ->].
  unfold with_tsbd. destruct (c_tsbd c); [|congruence].
  apply timed_not_bad. reflexivity.
Qed.

(** * Components of the handlers that cannot fail once their guard holds *)

Lemma go_rem_ok site a b : b <> 0 -> exists r, go_rem site a b = Ok r.
Proof. intro H. unfold go_rem. destruct (b =? 0) eqn:E; [lia|eauto]. Qed.

(** StateAt: a cycle of non-zero length never divides by zero. *)
Lemma state_at_safe l nowS : cycle_dur l <> 0 -> exists st, state_at l nowS = Ok st.
Proof.
  intro H. unfold state_at. destruct (go_rem_ok "app.LossItvls.StateAt: integer divide by zero" nowS _ H) as [r ->].
  cbn. eauto.
Qed.

(** The licence handler: with the repair no request panics; without it, none whose key ids all
    carry the livesim2 prefix. *)
Fixpoint kids_ok (kids : list (option (list Z))) : bool :=
  match kids with
  | [] => true
  | None :: _ => true
  | Some b :: t => list_eqb Z.eqb (firstn 3 b) kid_start && kids_ok t
  end.

Lemma license_loop_safe fx kids : fx_kid fx || kids_ok kids = true -> is_bad (license_loop fx kids) = false.
Proof.
  induction kids as [|[b|] t IH]; cbn [license_loop kids_ok]; intro H; try reflexivity.
  destruct (list_eqb Z.eqb (firstn 3 b) kid_start) eqn:E.
  - apply IH. destruct (fx_kid fx); cbn in *; auto.
  - destruct (fx_kid fx); cbn in *; [reflexivity|discriminate].
Qed.

Lemma license_handler_safe fx s j kids :
  fx_kid fx || kids_ok kids = true -> is_bad (license_handler fx s j kids) = false.
Proof.
  intro H. unfold license_handler.
  destruct (fx_kid fx && negb s); [reflexivity|].
  destruct j; [|destruct s; reflexivity].
  pose proof (license_loop_safe fx kids H) as L.
  destruct (license_loop fx kids); cbn in *; try discriminate. destruct s; reflexivity.
Qed.

Definition int_or_empty (s : string) : bool :=
  String.eqb s "" || match atoi s with Some _ => true | None => false end.

Lemma urlgen_create_safe fx a b c :
  fx_urlgen_create fx || (int_or_empty a && int_or_empty b && int_or_empty c) = true ->
  is_bad (urlgen_create fx a b c) = false.
Proof.
  unfold urlgen_create, int_or_empty. intro H.
  destruct (fx_urlgen_create fx); cbn [orb andb] in *.
  - destruct (String.eqb a ""), (atoi a), (String.eqb b ""), (atoi b), (String.eqb c ""), (atoi c); reflexivity.
  - destruct (String.eqb a ""), (atoi a), (String.eqb b ""), (atoi b), (String.eqb c ""), (atoi c);
      cbn in *; try discriminate; reflexivity.
Qed.

Lemma urlgen_drms_safe fx e n :
  fx_urlgen_drms fx || e_drm e = true -> is_bad (urlgen_drms fx e n) = false.
Proof.
  unfold urlgen_drms. intro H.
  destruct (fx_urlgen_drms fx); cbn in *; [reflexivity|]. rewrite H.
  rewrite andb_false_r. reflexivity.
Qed.

(** splitPeriod: with 1 <= pph <= 3600 and a window that does not start before the epoch there
    is no division by zero, no negative capacity and at least one period. *)
Lemma split_period_safe fx a c pph startMS nowMS :
  1 <= pph <= 3600 -> a_segDurMS a <> 0 -> 0 <= startMS <= nowMS ->
  is_bad (split_period fx a c pph startMS nowMS) = false.
Proof.
  intros P S W. unfold split_period.
  destruct (pph =? 0) eqn:E0; [lia|].
  destruct (a_segDurMS a =? 0) eqn:E1; [lia|].
  destruct (negb (Z.rem (Z.quot 3600 pph * 1000) (a_segDurMS a) =? 0)); [reflexivity|].
  assert (Q : 1 <= Z.quot 3600 pph).
  { rewrite Z.quot_div_nonneg by lia. apply Z.div_le_lower_bound; lia. }
  destruct (Z.quot 3600 pph * 1000 =? 0) eqn:E2; [lia|].
  set (d := Z.quot 3600 pph * 1000) in *.
  assert (D : 0 < d) by (subst d; lia).
  assert (M : Z.quot startMS d <= Z.quot nowMS d).
  { rewrite !Z.quot_div_nonneg by lia. apply Z.div_le_mono; lia. }
  destruct (Z.quot nowMS d - Z.quot startMS d + 1 <? 0) eqn:E3; [lia|].
  destruct (Z.quot nowMS d <? Z.quot startMS d) eqn:E4; [lia|].
  reflexivity.
Qed.

(** calcCueItvls: a positive cue duration (below 2^53 ms) gives a positive step: the divisor is
    not zero and the loop is bounded.  The float computation ceil(cueDur * 0.001) is not unfolded:
    the hypothesis is on its result. *)
Lemma calc_cue_itvls_safe segStart segDur utcStart cueDur :
  0 < f_to_int (f_ceil (PrimFloat.mul (f_of_int cueDur) f_milli)) < 9000000000000000 ->
  hm_bad (calc_cue_itvls segStart segDur utcStart cueDur) = false.
Proof.
  intro H. unfold calc_cue_itvls.
  set (s := f_to_int (f_ceil (PrimFloat.mul (f_of_int cueDur) f_milli))) in *.
  assert (I : i64 (s * 1000) = s * 1000).
  { unfold i64, two64, two63. rewrite Z.mod_small by lia. lia. }
  rewrite I. destruct (s * 1000 =? 0) eqn:E; [lia|].
  destruct (_ <? _); [reflexivity|].
  destruct (0 <? s) eqn:E2; [reflexivity|lia].
Qed.

(** The traffic gate: non-zero cycles and an index inside the list (or the two repairs). *)
Definition cycles_ok (c : cfg) : bool := forallb (fun l => negb (cycle_dur l =? 0)) (c_traffic c).

Lemma nthZ_forallb {A} (f : A -> bool) l i x : forallb f l = true -> nthZ i l = Some x -> f x = true.
Proof.
  revert i; induction l as [|y l IH]; intros i F N; cbn [nthZ] in N; [discriminate|].
  cbn [forallb] in F. apply andb_prop in F. destruct F as [F1 F2].
  destruct (i <? 0); [discriminate|]. destruct (i =? 0); [inversion N; subst; auto|eauto].
Qed.

Lemma nthZ_none_ge {A} (l : list A) i : 0 <= i -> nthZ i l = None -> lenZ l <= i.
Proof.
  intros H N. destruct (Z_lt_le_dec i (lenZ l)) as [L|L]; [|lia].
  destruct (nthZ_in_range l i (conj H L)) as [x E]. congruence.
Qed.

Lemma split_on_nonempty c s : split_on c s <> [].
Proof.
  induction s as [|a s IH]; cbn [split_on]; [discriminate|].
  destruct (Ascii.eqb a c); [discriminate|]. destruct (split_on c s); discriminate.
Qed.

Lemma traffic_gate_safe fx c segPart now :
  String.prefix "/" segPart = true ->
  cycles_ok c = true ->
  (fx_traffic_idx fx = true \/
   forall nr sp, extract_pattern segPart = Ok (nr, sp) -> nr < lenZ (c_traffic c)) ->
  hm_bad (traffic_gate fx c segPart now) = false.
Proof.
  intros P C I. unfold traffic_gate.
  destruct (c_traffic c) as [|t0 tr] eqn:T; [reflexivity|]. rewrite <- T.
  destruct (extract_pattern segPart) as [[nr sp]| |s] eqn:X.
  - destruct (fx_traffic_idx fx && (lenZ (c_traffic c) <=? nr)) eqn:G; [reflexivity|].
    destruct (nr <? 0) eqn:N; [reflexivity|].
    destruct (nthZ nr (c_traffic c)) as [itvls|] eqn:NT.
    + pose proof (nthZ_forallb _ _ _ _ C NT) as CY. cbn in CY.
      destruct (cycle_dur itvls =? 0) eqn:CZ; [discriminate|].
      destruct (state_at_safe itvls (Z.quot now 1000)) as [st ->]; [lia|].
      destruct (st =? 1); [reflexivity|]. destruct (st =? 2); [reflexivity|].
      destruct (st =? 3); [reflexivity|]. destruct (st =? 4); reflexivity.
    + apply nthZ_none_ge in NT; [|lia].
      destruct I as [F|F].
      * rewrite F in G. cbn in G. exfalso; lia.
      * specialize (F _ _ eq_refl). rewrite T in NT. exfalso; lia.
  - reflexivity.
  - (* parts[1] exists because segmentPart starts with "/" *)
    exfalso. unfold extract_pattern in X.
    destruct segPart as [|a rest]; [discriminate|].
    cbn [String.prefix] in P. destruct (Ascii.ascii_dec "/"%char a) as [<-|]; [|discriminate].
    cbn [split_on] in X. rewrite Ascii.eqb_refl in X.
    destruct (split_on "/"%char rest) as [|h r] eqn:S; [exact (split_on_nonempty _ _ S)|].
    assert (IX : index "app.extractPattern: index out of range" ("" :: h :: r) 1 = Ok h) by reflexivity.
    rewrite IX in X. cbn [bind] in X.
    destruct (negb (String.prefix "bu" h)); [discriminate|].
    destruct (atoi (drop_str 2 h)); discriminate.
Qed.

(** * What a successful parse establishes *)

(** Invariant of the loop: as long as no error is recorded, the pointers that the handlers
    dereference without a check (TimeShiftBufferDepthS, StartNr) are not nil. *)
Definition ptr_inv (c : cfg) (e : sc) : Prop :=
  e = None -> c_tsbd c <> None /\ c_startNr c <> None.

Lemma sc_atoi_ptr_none_ok e key val p : sc_atoi_ptr e key val = (p, None) -> p <> None.
Proof.
  unfold sc_atoi_ptr. destruct e; [discriminate|]. destruct (atoi val); intro H; inversion H; discriminate.
Qed.

Lemma apply_key_ptr_inv fx u key val now c e c' e' :
  ptr_inv c e -> apply_key fx u key val now c e = KCont c' e' -> ptr_inv c' e'.
Proof.
  intros I A E'. subst e'.
  assert (E0 : e = None).
  { destruct e as [m|]; [|reflexivity]. apply apply_key_keeps_error in A. destruct A; discriminate. }
  specialize (I E0). destruct I as [I1 I2].
  destruct u; cbn [apply_key] in A; unfold drop_ptr in A;
    try (repeat match type of A with
                | context [let '(_, _) := ?x in _] => destruct x eqn:?
                end;
         inversion A; subst; cbn; auto; fail).
  - (* stoprel *)
    destruct (sc_atoi_ptr e key val) as [p e1]. destruct p; [|destruct (fx_stoprel fx); discriminate].
    inversion A; subst; cbn; auto.
  - (* tsbd *)
    destruct (sc_atoi_ptr e key val) as [p e1] eqn:S. inversion A; subst. cbn. split; [|auto].
    eapply sc_atoi_ptr_none_ok; eauto.
  - (* snr *)
    destruct (sc_atoi_ptr e key val) as [p e1] eqn:S. inversion A; subst. cbn. split; [auto|].
    eapply sc_atoi_ptr_none_ok; eauto.
  - (* patch *)
    destruct (sc_atoi e key val) as [v e1]. inversion A; subst. destruct (0 <? v); cbn; auto.
  - (* annexI *)
    destruct (sc_parse_query fx e val) as [[q e1]| |]; inversion A; subst; cbn; auto.
Qed.

Lemma cfg_loop_ptr_inv fx now parts : forall i c e c' e' idx,
  ptr_inv c e -> cfg_loop fx parts i now c e = Ok (c', e', idx) -> ptr_inv c' e'.
Proof.
  induction parts as [|p rest IH]; intros i c e c' e' idx I H; cbn [cfg_loop] in H.
  - inversion H; subst; auto.
  - destruct (i <? 2); [eapply IH; eauto|].
    destruct (cut "_"%char p) as [[key val]|]; [|inversion H; subst; auto].
    destruct (apply_key fx (classify key) key val now c e) eqn:A; try discriminate.
    + eapply IH; [|eauto]. eapply apply_key_ptr_inv; eauto.
    + inversion H; subst; auto.
Qed.

Lemma verify_and_fill_keeps fx c now c1 :
  verify_and_fill fx c now = Ok c1 ->
  c_tsbd c1 = c_tsbd c /\ c_startNr c1 = c_startNr c /\ c_pph c1 = c_pph c /\
  c_subsDurMS c1 = c_subsDurMS c /\ c_traffic c1 = c_traffic c /\ c_codes c1 = c_codes c.
Proof.
  unfold verify_and_fill.
  repeat match goal with |- context [if ?b then _ else _] => destruct b end;
    try discriminate; intro H; inversion H; subst; cbn; auto 10.
Qed.

(** The parser establishes the guards of the repairs it contains; TimeShiftBufferDepthS and
    StartNr are never nil in a configuration it returns, on any tree. *)
Theorem parser_establishes fx path now c :
  process_url_cfg fx path now = Ok c ->
  c_tsbd c <> None /\ c_startNr c <> None /\
  (fx_periods fx = true -> match c_pph c with Some n => 1 <= n <= 3600 | None => True end) /\
  (fx_subsdur fx = true -> 0 < c_subsDurMS c) /\
  (fx_snr fx = true -> match c_startNr c with Some n => -2147483648 <= n <= maxu32 | None => True end) /\
  0 <= now.
Proof.
  unfold process_url_cfg.
  destruct (cfg_loop fx _ 0 now _ None) as [[[c0 e] idx]| |] eqn:L; cbn [bind]; try discriminate.
  destruct e; [discriminate|]. destruct (idx =? -1); [discriminate|].
  destruct (verify_and_fill fx c0 now) as [c1| |] eqn:V; cbn [bind]; try discriminate.
  intro H; inversion H; subst; clear H.
  assert (I : ptr_inv c0 None).
  { eapply cfg_loop_ptr_inv; [|exact L]. intros _. cbn. split; discriminate. }
  destruct (I eq_refl) as [I1 I2].
  pose proof (verify_and_fill_keeps _ _ _ _ V) as (K1 & K2 & K3 & K4 & _).
  cbn. rewrite K1, K2.
  split; [auto|]. split; [auto|].
  unfold verify_and_fill in V.
  destruct (now <? 0) eqn:N; [discriminate|].
  destruct (fx_stop_order fx && _) eqn:GS; [discriminate|].
  destruct (fx_snr fx && _) eqn:G0; [discriminate|].
  destruct (c_segTimelineNr c0 && c_segTimeline c0); [discriminate|].
  destruct (fx_subsdur fx && (c_subsDurMS c0 <=? 0)) eqn:G1; [discriminate|].
  destruct (_ || _); [discriminate|].
  destruct (match c_mup c0 with Some m => m <=? 0 | None => false end); [discriminate|].
  match type of V with context [if ?b then set_ltgt _ _ else _] => destruct b end;
  cbn [c_tsbd c_pph c_contMulti c_scte35 set_ltgt] in V;
  (match type of V with context [if ?b then Err "timeShiftBufferDepth" else _] => destruct b end; [discriminate|]);
  (match type of V with context [if ?b then Err "periods per hour must be in the range 1-3600" else _] => destruct b eqn:G2 end; [discriminate|]);
  rewrite K3, K4;
  (repeat split;
   [ intro F; rewrite F in G2; cbn in G2; destruct (c_pph c0); [lia|exact Logic.I]
   | intro F; rewrite F in G1; cbn in G1; lia
   | intro F; rewrite F in G0; cbn in G0; destruct (c_startNr c0); [lia|exact Logic.I]
   | lia ]).
Qed.

(** * Requests other than GET /livesim2: total under their guards *)
Definition G_other (fx : fixes) (e : env) (r : request) : bool :=
  match r with
  | RLive _ _ _ => false
  | RLicense _ _ kids => fx_kid fx || kids_ok kids
  | RUrlgenCreate a b c => fx_urlgen_create fx || (int_or_empty a && int_or_empty b && int_or_empty c)
  | RUrlgenDrms _ => fx_urlgen_drms fx || e_drm e
  end.

Theorem other_requests_total fx e r : G_other fx e r = true -> is_bad (handler_model fx e r) = false.
Proof.
  destruct r; cbn [G_other handler_model]; intro H; [discriminate| | |].
  - apply license_handler_safe; auto.
  - apply urlgen_create_safe; auto.
  - apply urlgen_drms_safe; auto.
Qed.

(** With the three repairs recorded, no licence or urlgen request at all can panic. *)
Corollary other_requests_total_fixed fx e r :
  fx_kid fx = true -> fx_urlgen_create fx = true -> fx_urlgen_drms fx = true ->
  match r with RLive _ _ _ => True | _ => is_bad (handler_model fx e r) = false end.
Proof.
  intros F1 F2 F3. destruct r; [exact I| | |]; apply other_requests_total; cbn; rewrite ?F1, ?F2, ?F3; reflexivity.
Qed.
