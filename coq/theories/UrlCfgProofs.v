(** C08 - proofs about the URL-configuration parser model (UrlCfg.v) and the handler model
    (UrlHandler.v). *)
From Coq Require Import Ascii String List ZArith Lia Bool Floats ZifyBool.
From Verif Require Import GoSem UrlStr UrlFixes UrlCfg UrlHandler.

Definition site_stoprel : string := "app.processURLCfg: nil dereference".
Definition site_annexI : string := "app.(*strConvAccErr).ParseQuery: index out of range".

(** * The parser never panics except at the two named sites *)

Lemma query_loop_panic fx pairs : forall m e s,
  query_loop fx pairs m e = Panic s -> fx_annexI fx = false /\ s = site_annexI.
Proof.
  induction pairs as [|p t IH]; intros m e s H; cbn [query_loop] in H; [discriminate|].
  destruct (split_on "="%char p) as [|k [|v [|w r]]].
  - eapply IH; eauto.
  - destruct (fx_annexI fx) eqn:F.
    + eapply IH in H. destruct H as [H _]. congruence.
    + inversion H; auto.
  - eapply IH; eauto.
  - eapply IH; eauto.
Qed.

Lemma sc_parse_query_panic fx e val s :
  sc_parse_query fx e val = Panic s -> fx_annexI fx = false /\ s = site_annexI.
Proof.
  unfold sc_parse_query. destruct e; [discriminate|].
  destruct (query_loop fx (split_on ","%char val) [] None) eqn:Q; cbn; try discriminate.
  intro H; inversion H; subst. eapply query_loop_panic; eauto.
Qed.

Definition named_site (fx : fixes) (s : string) : Prop :=
  (fx_stoprel fx = false /\ s = site_stoprel) \/ (fx_annexI fx = false /\ s = site_annexI).

Lemma apply_key_panic fx u key val now c e s :
  apply_key fx u key val now c e = KPanic s -> named_site fx s.
Proof.
  destruct u; cbn [apply_key]; unfold drop_ptr;
    repeat match goal with
           | |- context [let '(_, _) := ?x in _] => destruct x
           end; try discriminate.
  - (* stoprel *)
    destruct o; [discriminate|]. destruct (fx_stoprel fx) eqn:F; [discriminate|].
    intro H; inversion H; left; auto.
  - (* annexI *)
    destruct (sc_parse_query fx e val) as [[q e1]| |s'] eqn:Q; try discriminate.
    intro H; inversion H; subst. right. eapply sc_parse_query_panic; eauto.
Qed.

Lemma cfg_loop_panic fx now parts : forall i c e s,
  cfg_loop fx parts i now c e = Panic s -> named_site fx s.
Proof.
  induction parts as [|p rest IH]; intros i c e s H; cbn [cfg_loop] in H; [discriminate|].
  destruct (i <? 2); [eapply IH; eauto|].
  destruct (cut "_"%char p) as [[key val]|]; [|discriminate].
  destruct (apply_key fx (classify key) key val now c e) eqn:A; try discriminate.
  - eapply IH; eauto.
  - inversion H; subst. eapply apply_key_panic; eauto.
Qed.

Lemma verify_and_fill_no_panic fx c now s : verify_and_fill fx c now <> Panic s.
Proof.
  unfold verify_and_fill.
  repeat match goal with |- context [if ?b then _ else _] => destruct b end; discriminate.
Qed.

(** For ANY path (any list of parts) and any clock: the parser returns a configuration or an
    error, or panics at one of the two named sites - and at those only on a tree that lacks the
    corresponding repair. *)
Theorem parser_total fx path now s :
  process_url_cfg fx path now = Panic s -> named_site fx s.
Proof.
  unfold process_url_cfg.
  destruct (cfg_loop fx _ 0 now _ None) as [[[c e] idx]| |s'] eqn:L; cbn [bind]; try discriminate.
  - destruct e; [discriminate|]. destruct (idx =? -1); [discriminate|].
    destruct (verify_and_fill fx c now) eqn:V; cbn [bind]; try discriminate.
    intro H; inversion H; subst. exfalso. eapply verify_and_fill_no_panic; eauto.
  - intro H; inversion H; subst. eapply cfg_loop_panic; eauto.
Qed.

Corollary parser_total_guarded fx path now :
  fx_stoprel fx = true -> fx_annexI fx = true ->
  forall s, process_url_cfg fx path now <> Panic s.
Proof.
  intros F1 F2 s H. apply parser_total in H. destruct H as [[H _]|[H _]]; congruence.
Qed.

(** The panics of the two sites need the offending part: no "stoprel_" part and no "annexI_" part
    in the path means no panic, on any tree. *)
Fixpoint no_key (u1 u2 : ukey -> bool) (parts : list string) : bool :=
  match parts with
  | [] => true
  | p :: t => match cut "_"%char p with
              | Some (key, _) => negb (u1 (classify key)) && negb (u2 (classify key)) && no_key u1 u2 t
              | None => no_key u1 u2 t
              end
  end.
Definition is_stoprel (u : ukey) : bool := match u with K_stoprel => true | _ => false end.
Definition is_annexI (u : ukey) : bool := match u with K_annexI => true | _ => false end.

Lemma apply_key_other fx u key val now c e s :
  is_stoprel u = false -> is_annexI u = false -> apply_key fx u key val now c e <> KPanic s.
Proof.
  intros H1 H2; destruct u; try discriminate; cbn [apply_key]; unfold drop_ptr;
    repeat match goal with
           | |- context [let '(_, _) := ?x in _] => destruct x
           end; discriminate.
Qed.

Lemma cfg_loop_no_key fx now parts : forall i c e s,
  no_key is_stoprel is_annexI parts = true -> cfg_loop fx parts i now c e <> Panic s.
Proof.
  induction parts as [|p rest IH]; intros i c e s N H; cbn [cfg_loop] in H; [discriminate|].
  cbn [no_key] in N.
  destruct (cut "_"%char p) as [[key val]|].
  - apply andb_prop in N. destruct N as [N N3]. apply andb_prop in N. destruct N as [N1 N2].
    destruct (i <? 2); [eapply IH; eauto|].
    destruct (apply_key fx (classify key) key val now c e) eqn:A; try discriminate.
    + eapply IH; eauto.
    + eapply apply_key_other; eauto using negb_true_iff.
      * apply negb_true_iff; exact N1.
      * apply negb_true_iff; exact N2.
  - destruct (i <? 2); [eapply IH; eauto|discriminate].
Qed.

Theorem parser_total_without_keys fx path now s :
  no_key is_stoprel is_annexI (split_on "/"%char (plus_to_space path)) = true ->
  process_url_cfg fx path now <> Panic s.
Proof.
  intros N. unfold process_url_cfg.
  destruct (cfg_loop fx _ 0 now _ None) as [[[c e] idx]| |s'] eqn:L; cbn [bind]; try discriminate.
  - destruct e; [discriminate|]. destruct (idx =? -1); [discriminate|].
    destruct (verify_and_fill fx c now) eqn:V; cbn [bind]; try discriminate.
    intro H; inversion H; subst. eapply verify_and_fill_no_panic; eauto.
  - exfalso. eapply cfg_loop_no_key; eauto.
Qed.

(** * Status classes *)

(** A value that strconv.Atoi rejects is reported with the key in the message. *)
Lemma sc_atoi_error key val : atoi val = None ->
  sc_atoi None key val = (0, Some ("key=" +++ key +++ ", err=")).
Proof. intro H. unfold sc_atoi. rewrite H. reflexivity. Qed.

Lemma sc_atoi_ptr_error key val : atoi val = None ->
  sc_atoi_ptr None key val = (None, Some ("key=" +++ key +++ ", err=")).
Proof. intro H. unfold sc_atoi_ptr. rewrite H. reflexivity. Qed.

(** Once an error is recorded it is never cleared by a later part... *)
Lemma apply_key_keeps_error fx u key val now c m c' e' :
  apply_key fx u key val now c (Some m) = KCont c' e' -> exists m', e' = Some m'.
Proof.
  destruct u; cbn [apply_key sc_atoi sc_atoi_ptr sc_atof sc_atof_pos_ptr sc_atof_inf sc_utc
                    sc_parse_ssc sc_parse_loss sc_parse_query drop_ptr snd bind];
    try (intro H; inversion H; eauto; fail).
  destruct (fx_stoprel fx); discriminate.
Qed.

Lemma cfg_loop_keeps_error fx now parts : forall i c m c' e' idx,
  cfg_loop fx parts i now c (Some m) = Ok (c', e', idx) -> exists m', e' = Some m'.
Proof.
  induction parts as [|p rest IH]; intros i c m c' e' idx H; cbn [cfg_loop] in H.
  - inversion H; eauto.
  - destruct (i <? 2); [eapply IH; eauto|].
    destruct (cut "_"%char p) as [[key val]|]; [|inversion H; eauto].
    destruct (apply_key fx (classify key) key val now c (Some m)) eqn:A; try discriminate.
    + apply apply_key_keeps_error in A. destruct A as [m' ->]. eapply IH; eauto.
    + inversion H; eauto.
Qed.

(** ... so a parse error anywhere in the URL ends in a 400 (or in one of the named panics on an
    unrepaired tree), never in a served response. *)
Theorem parse_error_is_400 fx e path nowArg uq now m :
  atoi nowArg = Some now -> process_url_cfg fx path now = Err m ->
  live_handler fx e path nowArg uq = HStatus 400 m.
Proof. intros A P. unfold live_handler. rewrite A, P. reflexivity. Qed.

Theorem bad_now_is_400 fx e path nowArg uq :
  atoi nowArg = None -> live_handler fx e path nowArg uq = HStatus 400 "bad nowMS query".
Proof. intros A. unfold live_handler. rewrite A. reflexivity. Qed.

(** unknown asset -> 404 (when the configuration parses and the stream has started) *)
Theorem unknown_asset_is_404 fx e path nowArg uq now c :
  atoi nowArg = Some now -> process_url_cfg fx path now = Ok c -> c_timeOffset c = None ->
  (now <? i64 (c_startS c * 1000)) = false ->
  find_asset (e_assets e) (join "/" (dropZ (c_contentIdx c) (c_parts c))) = None ->
  live_handler fx e path nowArg uq = HStatus 404 "unknown asset".
Proof.
  intros A P T S F. unfold live_handler. rewrite A, P, T, S, F. reflexivity.
Qed.

(** number below startNumber -> 404, for video, for audio, and (with the repair) for generated subtitles *)
Theorem below_start_is_404_plain fx r loopMS c segPart segID now :
  rep_type c segPart = 0 -> u32 segID < u32 (start_nr c) ->
  lookup_plain fx r loopMS c segPart segID now = Ret e404.
Proof.
  intros T L. unfold lookup_plain. rewrite T. cbn.
  destruct (u32 segID <? u32 (start_nr c)) eqn:E; [rewrite orb_true_r; reflexivity|lia].
Qed.

Theorem below_start_is_404_audio fx a r c segPart segID now :
  rep_type c segPart = 0 -> u32 segID < u32 (start_nr c) ->
  find_ref_seg_meta fx a r c segPart segID now = Ret e404.
Proof.
  intros T L. unfold find_ref_seg_meta. rewrite T. cbn.
  destruct (u32 segID <? u32 (start_nr c)) eqn:E; [rewrite orb_true_r; reflexivity|lia].
Qed.

Theorem unknown_rep_is_404 fx a c segPart now :
  find_rep (a_reps a) segPart = RMnone -> create_out_seg fx a c segPart now = Ret e404.
Proof. intro H. unfold create_out_seg. rewrite H. reflexivity. Qed.

(** * Index safety of the number lookup *)
Lemma rem_index_in_range (nas len : Z) : 0 <= nas -> 0 < len ->
  0 <= nas - Z.quot nas len * len < len.
Proof.
  intros H1 H2. pose proof (Z.quot_rem' nas len). pose proof (Z.rem_bound_pos nas len H1 H2). lia.
Qed.

Lemma nthZ_in_range {A} (l : list A) i : 0 <= i < lenZ l -> exists x, nthZ i l = Some x.
Proof.
  revert i; induction l as [|y l IH]; intros i H; unfold lenZ in *; cbn [length] in *; [lia|].
  cbn [nthZ]. destruct (i <? 0) eqn:E1; [lia|]. destruct (i =? 0) eqn:E2; [eauto|].
  apply IH. lia.
Qed.

Definition is_bad (r : hres) : bool :=
  match r with HStatus _ _ => false | _ => true end.
Definition hm_bad {A} (m : hm A) : bool :=
  match m with Cont _ => false | Ret r => is_bad r end.

Lemma timed_not_bad {A} t (k : hm A) : hm_bad k = false -> hm_bad (timed t k) = false.
Proof. destruct t; cbn; auto. Qed.

(** findSegMetaFromNr does not panic for a number at or above the start number (no int64 wrap
    of nr - startNr), a non-empty segment list and a configuration produced by the parser. *)
Lemma seg_meta_from_nr_safe r loopMS c nr now :
  r_segs r <> [] -> c_tsbd c <> None ->
  0 <= nr - start_nr c < two63 ->
  hm_bad (seg_meta_from_nr r loopMS c nr now) = false.
Proof.
  intros NE TS R. unfold seg_meta_from_nr.
  assert (L : 0 < lenZ (r_segs r)).
  { destruct (r_segs r); [congruence|]. unfold lenZ; cbn [length]; lia. }
  destruct (lenZ (r_segs r) =? 0) eqn:E; [lia|].
  assert (I : i64 (nr - start_nr c) = nr - start_nr c).
  { unfold i64, two64, two63 in *. rewrite Z.mod_small by lia. lia. }
  rewrite I.
  destruct (nthZ_in_range (r_segs r) _ (rem_index_in_range _ _ (proj1 R) L)) as [s ->].
  unfold with_tsbd. destruct (c_tsbd c); [|congruence].
  apply timed_not_bad. reflexivity.
Qed.

(** * Components of the handlers that cannot fail once their guard holds *)

Lemma go_rem_ok site a b : b <> 0 -> exists r, go_rem site a b = Ok r.
Proof. intro H. unfold go_rem. destruct (b =? 0) eqn:E; [lia|eauto]. Qed.

(** StateAt: a cycle of non-zero length never divides by zero. *)
Lemma state_at_safe l nowS : cycle_dur l <> 0 -> exists st, state_at l nowS = Ok st.
Proof.
  intro H. unfold state_at. destruct (go_rem_ok "app.LossItvls.StateAt: integer divide by zero" nowS _ H) as [r ->].
  cbn. eauto.
Qed.

(** The licence handler: with the repair no request panics; without it, none whose key ids all
    carry the livesim2 prefix. *)
Fixpoint kids_ok (kids : list (option (list Z))) : bool :=
  match kids with
  | [] => true
  | None :: _ => true
  | Some b :: t => list_eqb Z.eqb (firstn 3 b) kid_start && kids_ok t
  end.

Lemma license_loop_safe fx kids : fx_kid fx || kids_ok kids = true -> is_bad (license_loop fx kids) = false.
Proof.
  induction kids as [|[b|] t IH]; cbn [license_loop kids_ok]; intro H; try reflexivity.
  destruct (list_eqb Z.eqb (firstn 3 b) kid_start) eqn:E.
  - apply IH. destruct (fx_kid fx); cbn in *; auto.
  - destruct (fx_kid fx); cbn in *; [reflexivity|discriminate].
Qed.

Lemma license_handler_safe fx s j kids :
  fx_kid fx || kids_ok kids = true -> is_bad (license_handler fx s j kids) = false.
Proof.
  intro H. unfold license_handler.
  destruct (fx_kid fx && negb s); [reflexivity|].
  destruct j; [|destruct s; reflexivity].
  pose proof (license_loop_safe fx kids H) as L.
  destruct (license_loop fx kids); cbn in *; try discriminate. destruct s; reflexivity.
Qed.

Definition int_or_empty (s : string) : bool :=
  String.eqb s "" || match atoi s with Some _ => true | None => false end.

Lemma urlgen_create_safe fx a b c :
  fx_urlgen_create fx || (int_or_empty a && int_or_empty b && int_or_empty c) = true ->
  is_bad (urlgen_create fx a b c) = false.
Proof.
  unfold urlgen_create, int_or_empty. intro H.
  destruct (fx_urlgen_create fx); cbn [orb andb] in *.
  - destruct (String.eqb a ""), (atoi a), (String.eqb b ""), (atoi b), (String.eqb c ""), (atoi c); reflexivity.
  - destruct (String.eqb a ""), (atoi a), (String.eqb b ""), (atoi b), (String.eqb c ""), (atoi c);
      cbn in *; try discriminate; reflexivity.
Qed.

Lemma urlgen_drms_safe fx e n :
  fx_urlgen_drms fx || e_drm e = true -> is_bad (urlgen_drms fx e n) = false.
Proof.
  unfold urlgen_drms. intro H.
  destruct (fx_urlgen_drms fx); cbn in *; [reflexivity|]. rewrite H.
  rewrite andb_false_r. reflexivity.
Qed.

(** splitPeriod: with 1 <= pph <= 3600 and a window that does not start before the epoch there
    is no division by zero, no negative capacity and at least one period. *)
Lemma split_period_safe fx a c pph startMS nowMS :
  1 <= pph <= 3600 -> a_segDurMS a <> 0 -> 0 <= startMS <= nowMS ->
  is_bad (split_period fx a c pph startMS nowMS) = false.
Proof.
  intros P S W. unfold split_period.
  destruct (pph =? 0) eqn:E0; [lia|].
  destruct (a_segDurMS a =? 0) eqn:E1; [lia|].
  destruct (negb (Z.rem (Z.quot 3600 pph * 1000) (a_segDurMS a) =? 0)); [reflexivity|].
  assert (Q : 1 <= Z.quot 3600 pph).
  { rewrite Z.quot_div_nonneg by lia. apply Z.div_le_lower_bound; lia. }
  destruct (Z.quot 3600 pph * 1000 =? 0) eqn:E2; [lia|].
  set (d := Z.quot 3600 pph * 1000) in *.
  assert (D : 0 < d) by (subst d; lia).
  assert (M : Z.quot startMS d <= Z.quot nowMS d).
  { rewrite !Z.quot_div_nonneg by lia. apply Z.div_le_mono; lia. }
  destruct (Z.quot nowMS d - Z.quot startMS d + 1 <? 0) eqn:E3; [lia|].
  destruct (Z.quot nowMS d <? Z.quot startMS d) eqn:E4; [lia|].
  reflexivity.
Qed.

(** calcCueItvls: a positive cue duration (below 2^53 ms) gives a positive step: the divisor is
    not zero and the loop is bounded.  The float computation ceil(cueDur * 0.001) is not unfolded:
    the hypothesis is on its result. *)
Lemma calc_cue_itvls_safe segStart segDur utcStart cueDur :
  0 < f_to_int (f_ceil (PrimFloat.mul (f_of_int cueDur) f_milli)) < 9000000000000000 ->
  hm_bad (calc_cue_itvls segStart segDur utcStart cueDur) = false.
Proof.
  intro H. unfold calc_cue_itvls.
  set (s := f_to_int (f_ceil (PrimFloat.mul (f_of_int cueDur) f_milli))) in *.
  assert (I : i64 (s * 1000) = s * 1000).
  { unfold i64, two64, two63. rewrite Z.mod_small by lia. lia. }
  rewrite I. destruct (s * 1000 =? 0) eqn:E; [lia|].
  destruct (_ <? _); [reflexivity|].
  destruct (0 <? s) eqn:E2; [reflexivity|lia].
Qed.

(** The traffic gate: non-zero cycles and an index inside the list (or the two repairs). *)
Definition cycles_ok (c : cfg) : bool := forallb (fun l => negb (cycle_dur l =? 0)) (c_traffic c).

Lemma nthZ_forallb {A} (f : A -> bool) l i x : forallb f l = true -> nthZ i l = Some x -> f x = true.
Proof.
  revert i; induction l as [|y l IH]; intros i F N; cbn [nthZ] in N; [discriminate|].
  cbn [forallb] in F. apply andb_prop in F. destruct F as [F1 F2].
  destruct (i <? 0); [discriminate|]. destruct (i =? 0); [inversion N; subst; auto|eauto].
Qed.

Lemma nthZ_none_ge {A} (l : list A) i : 0 <= i -> nthZ i l = None -> lenZ l <= i.
Proof.
  intros H N. destruct (Z_lt_le_dec i (lenZ l)) as [L|L]; [|lia].
  destruct (nthZ_in_range l i (conj H L)) as [x E]. congruence.
Qed.

Lemma split_on_nonempty c s : split_on c s <> [].
Proof.
  induction s as [|a s IH]; cbn [split_on]; [discriminate|].
  destruct (Ascii.eqb a c); [discriminate|]. destruct (split_on c s); discriminate.
Qed.

Lemma traffic_gate_safe fx c segPart now :
  String.prefix "/" segPart = true ->
  cycles_ok c = true ->
  (fx_traffic_idx fx = true \/
   forall nr sp, extract_pattern segPart = Ok (nr, sp) -> nr < lenZ (c_traffic c)) ->
  hm_bad (traffic_gate fx c segPart now) = false.
Proof.
  intros P C I. unfold traffic_gate.
  destruct (c_traffic c) as [|t0 tr] eqn:T; [reflexivity|]. rewrite <- T.
  destruct (extract_pattern segPart) as [[nr sp]| |s] eqn:X.
  - destruct (fx_traffic_idx fx && (lenZ (c_traffic c) <=? nr)) eqn:G; [reflexivity|].
    destruct (nr <? 0) eqn:N; [reflexivity|].
    destruct (nthZ nr (c_traffic c)) as [itvls|] eqn:NT.
    + pose proof (nthZ_forallb _ _ _ _ C NT) as CY. cbn in CY.
      destruct (cycle_dur itvls =? 0) eqn:CZ; [discriminate|].
      destruct (state_at_safe itvls (Z.quot now 1000)) as [st ->]; [lia|].
      destruct (st =? 1); [reflexivity|]. destruct (st =? 2); [reflexivity|].
      destruct (st =? 3); [reflexivity|]. destruct (st =? 4); reflexivity.
    + apply nthZ_none_ge in NT; [|lia].
      destruct I as [F|F].
      * rewrite F in G. cbn in G. exfalso; lia.
      * specialize (F _ _ eq_refl). rewrite T in NT. exfalso; lia.
  - reflexivity.
  - (* parts[1] exists because segmentPart starts with "/" *)
    exfalso. unfold extract_pattern in X.
    destruct segPart as [|a rest]; [discriminate|].
    cbn [String.prefix] in P. destruct (Ascii.ascii_dec "/"%char a) as [<-|]; [|discriminate].
    cbn [split_on] in X. rewrite Ascii.eqb_refl in X.
    destruct (split_on "/"%char rest) as [|h r] eqn:S; [exact (split_on_nonempty _ _ S)|].
    assert (IX : index "app.extractPattern: index out of range" ("" :: h :: r) 1 = Ok h) by reflexivity.
    rewrite IX in X. cbn [bind] in X.
    destruct (negb (String.prefix "bu" h)); [discriminate|].
    destruct (atoi (drop_str 2 h)); discriminate.
Qed.

(** * What a successful parse establishes *)

(** Invariant of the loop: as long as no error is recorded, the pointers that the handlers
    dereference without a check (TimeShiftBufferDepthS, StartNr) are not nil. *)
Definition ptr_inv (c : cfg) (e : sc) : Prop :=
  e = None -> c_tsbd c <> None /\ c_startNr c <> None.

Lemma sc_atoi_ptr_none_ok e key val p : sc_atoi_ptr e key val = (p, None) -> p <> None.
Proof.
  unfold sc_atoi_ptr. destruct e; [discriminate|]. destruct (atoi val); intro H; inversion H; discriminate.
Qed.

Lemma apply_key_ptr_inv fx u key val now c e c' e' :
  ptr_inv c e -> apply_key fx u key val now c e = KCont c' e' -> ptr_inv c' e'.
Proof.
  intros I A E'. subst e'.
  assert (E0 : e = None).
  { destruct e as [m|]; [|reflexivity]. apply apply_key_keeps_error in A. destruct A; discriminate. }
  specialize (I E0). destruct I as [I1 I2].
  destruct u; cbn [apply_key] in A; unfold drop_ptr in A;
    try (repeat match type of A with
                | context [let '(_, _) := ?x in _] => destruct x eqn:?
                end;
         inversion A; subst; cbn; auto; fail).
  - (* stoprel *)
    destruct (sc_atoi_ptr e key val) as [p e1]. destruct p; [|destruct (fx_stoprel fx); discriminate].
    inversion A; subst; cbn; auto.
  - (* tsbd *)
    destruct (sc_atoi_ptr e key val) as [p e1] eqn:S. inversion A; subst. cbn. split; [|auto].
    eapply sc_atoi_ptr_none_ok; eauto.
  - (* snr *)
    destruct (sc_atoi_ptr e key val) as [p e1] eqn:S. inversion A; subst. cbn. split; [auto|].
    eapply sc_atoi_ptr_none_ok; eauto.
  - (* patch *)
    destruct (sc_atoi e key val) as [v e1]. inversion A; subst. destruct (0 <? v); cbn; auto.
  - (* annexI *)
    destruct (sc_parse_query fx e val) as [[q e1]| |]; inversion A; subst; cbn; auto.
Qed.

Lemma cfg_loop_ptr_inv fx now parts : forall i c e c' e' idx,
  ptr_inv c e -> cfg_loop fx parts i now c e = Ok (c', e', idx) -> ptr_inv c' e'.
Proof.
  induction parts as [|p rest IH]; intros i c e c' e' idx I H; cbn [cfg_loop] in H.
  - inversion H; subst; auto.
  - destruct (i <? 2); [eapply IH; eauto|].
    destruct (cut "_"%char p) as [[key val]|]; [|inversion H; subst; auto].
    destruct (apply_key fx (classify key) key val now c e) eqn:A; try discriminate.
    + eapply IH; [|eauto]. eapply apply_key_ptr_inv; eauto.
    + inversion H; subst; auto.
Qed.

Lemma verify_and_fill_keeps fx c now c1 :
  verify_and_fill fx c now = Ok c1 ->
  c_tsbd c1 = c_tsbd c /\ c_startNr c1 = c_startNr c /\ c_pph c1 = c_pph c /\
  c_subsDurMS c1 = c_subsDurMS c /\ c_traffic c1 = c_traffic c /\ c_codes c1 = c_codes c.
Proof.
  unfold verify_and_fill.
  repeat match goal with |- context [if ?b then _ else _] => destruct b end;
    try discriminate; intro H; inversion H; subst; cbn; auto 10.
Qed.

(** The parser establishes the guards of the repairs it contains; TimeShiftBufferDepthS and
    StartNr are never nil in a configuration it returns, on any tree. *)
Theorem parser_establishes fx path now c :
  process_url_cfg fx path now = Ok c ->
  c_tsbd c <> None /\ c_startNr c <> None /\
  (fx_periods fx = true -> match c_pph c with Some n => 1 <= n <= 3600 | None => True end) /\
  (fx_subsdur fx = true -> 0 < c_subsDurMS c) /\
  (fx_snr fx = true -> match c_startNr c with Some n => -2147483648 <= n <= maxu32 | None => True end) /\
  0 <= now.
Proof.
  unfold process_url_cfg.
  destruct (cfg_loop fx _ 0 now _ None) as [[[c0 e] idx]| |] eqn:L; cbn [bind]; try discriminate.
  destruct e; [discriminate|]. destruct (idx =? -1); [discriminate|].
  destruct (verify_and_fill fx c0 now) as [c1| |] eqn:V; cbn [bind]; try discriminate.
  intro H; inversion H; subst; clear H.
  assert (I : ptr_inv c0 None).
  { eapply cfg_loop_ptr_inv; [|exact L]. intros _. cbn. split; discriminate. }
  destruct (I eq_refl) as [I1 I2].
  pose proof (verify_and_fill_keeps _ _ _ _ V) as (K1 & K2 & K3 & K4 & _).
  cbn. rewrite K1, K2.
  split; [auto|]. split; [auto|].
  unfold verify_and_fill in V.
  destruct (now <? 0) eqn:N; [discriminate|].
  destruct (fx_stop_order fx && _) eqn:GS; [discriminate|].
  destruct (fx_snr fx && _) eqn:G0; [discriminate|].
  destruct (c_segTimelineNr c0 && c_segTimeline c0); [discriminate|].
  destruct (fx_subsdur fx && (c_subsDurMS c0 <=? 0)) eqn:G1; [discriminate|].
  destruct (_ || _); [discriminate|].
  destruct (match c_mup c0 with Some m => m <=? 0 | None => false end); [discriminate|].
  match type of V with context [if ?b then set_ltgt _ _ else _] => destruct b end;
  cbn [c_tsbd c_pph c_contMulti c_scte35 set_ltgt] in V;
  (match type of V with context [if ?b then Err "timeShiftBufferDepth" else _] => destruct b end; [discriminate|]);
  (match type of V with context [if ?b then Err "periods per hour must be in the range 1-3600" else _] => destruct b eqn:G2 end; [discriminate|]);
  rewrite K3, K4;
  (repeat split;
   [ intro F; rewrite F in G2; cbn in G2; destruct (c_pph c0); [lia|exact Logic.I]
   | intro F; rewrite F in G1; cbn in G1; lia
   | intro F; rewrite F in G0; cbn in G0; destruct (c_startNr c0); [lia|exact Logic.I]
   | lia ]).
Qed.

(** * Requests other than GET /livesim2: total under their guards *)
Definition G_other (fx : fixes) (e : env) (r : request) : bool :=
  match r with
  | RLive _ _ _ => false
  | RLicense _ _ kids => fx_kid fx || kids_ok kids
  | RUrlgenCreate a b c => fx_urlgen_create fx || (int_or_empty a && int_or_empty b && int_or_empty c)
  | RUrlgenDrms _ => fx_urlgen_drms fx || e_drm e
  end.

Theorem other_requests_total fx e r : G_other fx e r = true -> is_bad (handler_model fx e r) = false.
Proof.
  destruct r; cbn [G_other handler_model]; intro H; [discriminate| | |].
  - apply license_handler_safe; auto.
  - apply urlgen_create_safe; auto.
  - apply urlgen_drms_safe; auto.
Qed.

(** With the three repairs recorded, no licence or urlgen request at all can panic. *)
Corollary other_requests_total_fixed fx e r :
  fx_kid fx = true -> fx_urlgen_create fx = true -> fx_urlgen_drms fx = true ->
  match r with RLive _ _ _ => True | _ => is_bad (handler_model fx e r) = false end.
Proof.
  intros F1 F2 F3. destruct r; [exact I| | |]; apply other_requests_total; cbn; rewrite ?F1, ?F2, ?F3; reflexivity.
Qed.

(** * Composition: the MPD path *)
Lemma i64_id z : - two63 <= z < two63 -> i64 z = z.
Proof. intro H. unfold i64, two64, two63 in *. rewrite Z.mod_small by lia. lia. Qed.

Definition small (z : Z) : Prop := - 4611686018427387904 <= z < 4611686018427387904.   (* |z| < 2^62 *)

(** LiveMPD as modelled cannot panic when: the configuration comes from the parser (tsbd not nil
    and in 0..48 h, periods in 1..3600), the asset is well-formed (loop and segment duration not 0),
    the stream has started (start <= now, checked by cfgFromRequest), a stop time is not before the
    start time, and the times are far from the int64 limits. *)
Lemma live_mpd_safe fx e a c mpdName nowMS tsbd :
  c_tsbd c = Some tsbd -> 0 <= tsbd <= 172800 ->
  a_loopMS a <> 0 -> a_segDurMS a <> 0 ->
  match c_pph c with Some n => 1 <= n <= 3600 | None => True end ->
  small (c_startS c * 1000) -> small nowMS -> c_startS c * 1000 <= nowMS ->
  match c_stopS c with Some st => c_startS c <= st /\ small (st * 1000) | None => True end ->
  c_addLocation c = false ->
  is_bad (live_mpd fx e a c mpdName nowMS) = false.
Proof.
  intros T TR L S P SS SN LE ST AL. unfold live_mpd, small in *.
  destruct (negb (existsb _ _)); [reflexivity|]. rewrite T. rewrite AL. cbn [andb].
  destruct (a_loopMS a =? 0) eqn:E0; [lia|].
  destruct (negb (String.eqb (c_drm c) "") && _); [reflexivity|].
  destruct ((c_segTimeline c || c_segTimelineNr c) && _); [reflexivity|].
  destruct (c_pph c) as [pph|]; [|reflexivity].
  apply split_period_safe; auto.
  rewrite (i64_id (c_startS c * 1000)) by (unfold two63; lia).
  rewrite (i64_id (tsbd * 1000000000)) by (unfold two63; lia).
  assert (Q : tsbd * 1000000000 / 1000000 = tsbd * 1000).
  { replace (tsbd * 1000000000) with (tsbd * 1000 * 1000000) by lia. apply Z.div_mul. lia. }
  rewrite Q.
  set (startMS := c_startS c * 1000) in *.
  (* the end of the window *)
  set (endMS := match match c_stopS c with
                      | Some st => if i64 (st * 1000) <? nowMS then Some (i64 (st * 1000)) else None
                      | None => None end with Some s => s | None => nowMS end).
  assert (EB : startMS <= endMS <= nowMS).
  { subst endMS. destruct (c_stopS c) as [st|]; [|lia]. destruct ST as [ST1 ST2].
    rewrite (i64_id (st * 1000)) by (unfold two63; lia).
    destruct (st * 1000 <? nowMS) eqn:EE; subst startMS; lia. }
  rewrite (i64_id (endMS - tsbd * 1000)) by (unfold two63; lia).
  destruct (endMS - tsbd * 1000 <? startMS) eqn:E1.
  - rewrite (i64_id (startMS - startMS)), (i64_id (endMS - startMS)) by (unfold two63; lia). lia.
  - rewrite (i64_id (endMS - tsbd * 1000 - startMS)), (i64_id (endMS - startMS)) by (unfold two63; lia). lia.
Qed.

(** * Composition: the segment path (segments written in one piece, no status-code patterns) *)
Definition wf_rep (loopMS : Z) (r : arep) : Prop :=
  r_segs r <> [] /\ Z.quot (i64 (loopMS * r_ts r)) 1000 <> 0.

Definition snr_ok (c : cfg) : Prop := -2147483648 <= start_nr c <= maxu32.

Lemma u32_range z : 0 <= u32 z < two32.
Proof. unfold u32, two32. apply Z.mod_pos_bound. lia. Qed.

Lemma number_above_start c nr : snr_ok c -> 0 <= nr < two32 -> (nr <? u32 (start_nr c)) = false ->
  0 <= nr - start_nr c < two63.
Proof.
  unfold snr_ok, maxu32, two32, two63. intros S R G.
  destruct (Z_lt_le_dec (start_nr c) 0) as [N|N]; [lia|].
  assert (u32 (start_nr c) = start_nr c) by (unfold u32, two32; apply Z.mod_small; lia).
  lia.
Qed.

Lemma seg_meta_from_time_safe fx r loopMS c t now :
  wf_rep loopMS r -> c_tsbd c <> None -> hm_bad (seg_meta_from_time fx r loopMS c t now) = false.
Proof.
  intros [NE WD] TS. unfold seg_meta_from_time.
  destruct (Z.quot (i64 (loopMS * r_ts r)) 1000 =? 0) eqn:E; [lia|].
  destruct (nthZ _ (r_segs r)) as [s|]; [|destruct (fx_time404 fx); reflexivity].
  destruct (negb (s_st s =? _)); [destruct (fx_time404 fx); reflexivity|].
  unfold with_tsbd. destruct (c_tsbd c); [|congruence].
  apply timed_not_bad. reflexivity.
Qed.

Lemma lookup_plain_safe fx r loopMS c sp segID now :
  wf_rep loopMS r -> c_tsbd c <> None -> snr_ok c ->
  hm_bad (lookup_plain fx r loopMS c sp segID now) = false.
Proof.
  intros W TS S. unfold lookup_plain.
  destruct (rep_type c sp =? 0); [|apply seg_meta_from_time_safe; auto].
  destruct (_ || _) eqn:G; [reflexivity|].
  apply orb_false_iff in G. destruct G as [_ G].
  apply seg_meta_from_nr_safe; [exact (proj1 W)|auto|].
  apply number_above_start; auto using u32_range.
Qed.

(** the audio branch by number *)
Lemma find_ref_seg_meta_number_safe fx a r c sp segID now :
  rep_type c sp = 0 -> wf_rep (a_loopMS a) (a_ref a) -> c_tsbd c <> None -> snr_ok c ->
  hm_bad (find_ref_seg_meta fx a r c sp segID now) = false.
Proof.
  intros T W TS S. unfold find_ref_seg_meta. rewrite T. cbn [Z.eqb].
  destruct (_ || _) eqn:G; [reflexivity|].
  apply orb_false_iff in G. destruct G as [_ G].
  apply seg_meta_from_nr_safe; [exact (proj1 W)|auto|].
  apply number_above_start; auto using u32_range.
Qed.

(** the audio branch by time: the scan over the reference segments always finds one *)
Lemma ref_scan_finds l : forall k t, (exists s, In s l /\ t < s_en s) -> ref_scan l k t <> None.
Proof.
  induction l as [|s l IH]; intros k t [x [I L]]; [destruct I|].
  cbn [ref_scan]. destruct (t <? s_en s) eqn:E; [discriminate|].
  apply IH. destruct I as [<-|I]; [lia|eauto].
Qed.

Definition wf_ref (r : arep) : Prop :=
  r_segs r <> [] /\ 0 < r_ts r < two32 /\
  (* the loop duration is the end of the last segment: the table starts at 0 and does not wrap *)
  match r_segs r with
  | s0 :: _ => s_st s0 = 0 /\ 0 < s_en (last (r_segs r) s0) < two63
  | [] => False
  end.

Lemma ref_meta_from_time_safe fx a r c t now :
  wf_ref (a_ref a) -> 0 < r_ts r < two32 -> c_tsbd c <> None ->
  hm_bad (ref_meta_from_time fx a r c t now) = false.
Proof.
  intros (NE & TS & W) RT TB. unfold ref_meta_from_time.
  destruct (r_csd r) as [sd|]; [|reflexivity].
  destruct (sd =? 0); [reflexivity|].
  destruct (negb (Z.rem t sd =? 0)); [destruct (fx_time404 fx); reflexivity|].
  assert (U : u64 (r_ts r) = r_ts r) by (unfold u64, two64, two32 in *; apply Z.mod_small; lia).
  rewrite U. destruct (r_ts r =? 0) eqn:E0; [lia|].
  destruct (r_segs (a_ref a)) as [|s0 rest] eqn:SG; [congruence|].
  destruct W as [W0 W1].
  assert (D : rep_duration (a_ref a) = s_en (last (s0 :: rest) s0)).
  { unfold rep_duration. rewrite SG. rewrite W0. unfold u64, two64, two63 in *. rewrite Z.sub_0_r. apply Z.mod_small. lia. }
  rewrite D. set (tot := s_en (last (s0 :: rest) s0)) in *.
  destruct (tot =? 0) eqn:E1; [lia|].
  set (refTime := u64 (t * u64 (r_ts (a_ref a))) / r_ts r).
  assert (RT0 : 0 <= refTime).
  { subst refTime. apply Z.div_pos; [|lia]. unfold u64, two64. apply Z.mod_pos_bound. lia. }
  set (tAfter := u64 (refTime - refTime / tot * tot)).
  assert (TA : 0 <= tAfter < tot).
  { subst tAfter. assert (M : refTime - refTime / tot * tot = refTime mod tot) by (rewrite Z.mod_eq by lia; lia).
    rewrite M. pose proof (Z.mod_pos_bound refTime tot ltac:(lia)).
    unfold u64, two64, two63 in *. rewrite Z.mod_small by lia. lia. }
  destruct (ref_scan (s0 :: rest) 0 tAfter) as [[relNr s]|] eqn:RS.
  - destruct (u64 (_ + s_en s) =? 0); [reflexivity|].
    unfold with_tsbd. destruct (c_tsbd c); [|congruence]. apply timed_not_bad. reflexivity.
  - exfalso. eapply ref_scan_finds; [|exact RS].
    exists (last (s0 :: rest) s0). split; [|subst tot; lia].
    clear. generalize s0 at 1 3. induction rest as [|y rest IH]; intro d; cbn; [auto|].
    right. destruct rest; [left; reflexivity|]. apply (IH y).
Qed.

Lemma hbind_safe {A B} (m : hm A) (k : A -> hm B) :
  hm_bad m = false -> (forall x, hm_bad (k x) = false) -> hm_bad (hbind m k) = false.
Proof. destruct m; cbn; auto. Qed.

Record wf_asset (a : asset) : Prop := {
  wa_reps : Forall (wf_rep (a_loopMS a)) (a_reps a);
  wa_ts : Forall (fun r => 0 < r_ts r < two32) (a_reps a);
  wa_ref : wf_rep (a_loopMS a) (a_ref a);
  wa_ref2 : wf_ref (a_ref a);
  wa_loop : a_loopMS a <> 0;
  wa_seg : a_segDurMS a <> 0
}.

Lemma find_rep_in reps sp r id : find_rep reps sp = RMok r id -> In r reps.
Proof.
  induction reps as [|x t IH]; cbn [find_rep]; [discriminate|].
  destruct (find_media (r_pre x) (r_suf x) sp).
  - destruct (atoi s); intro H; inversion H; subst. left; reflexivity.
  - intro H. right. auto.
Qed.

Lemma find_ref_seg_meta_safe fx a r c sp segID now :
  wf_asset a -> In r (a_reps a) -> c_tsbd c <> None -> snr_ok c ->
  hm_bad (find_ref_seg_meta fx a r c sp segID now) = false.
Proof.
  intros W I TS S. destruct (rep_type c sp =? 0) eqn:T.
  - apply find_ref_seg_meta_number_safe; auto using wa_ref. lia.
  - unfold find_ref_seg_meta. rewrite T. apply ref_meta_from_time_safe; auto using wa_ref2.
    pose proof (wa_ts a W) as F. rewrite Forall_forall in F. auto.
Qed.

Lemma create_out_seg_safe fx a c sp now :
  wf_asset a -> c_tsbd c <> None -> snr_ok c -> hm_bad (create_out_seg fx a c sp now) = false.
Proof.
  intros W TS S. unfold create_out_seg.
  destruct (find_rep (a_reps a) sp) as [| |r id] eqn:F; [reflexivity|destruct (fx_segnr404 fx); reflexivity|].
  pose proof (find_rep_in _ _ _ _ F) as I.
  destruct (String.eqb (r_ctype r) "audio" && negb (r_preenc r)).
  - apply hbind_safe; [apply find_ref_seg_meta_safe; auto|].
    intro m. destruct (_ && _); reflexivity.
  - apply hbind_safe; [|reflexivity].
    apply lookup_plain_safe; auto.
    pose proof (wa_reps a W) as R. rewrite Forall_forall in R. auto.
Qed.

(** DRM: nothing to dereference when no DRM is asked for, or ECCP, or a DRM configuration exists;
    tracks without encryption data need the repair fb86caa. *)
Definition drm_ok (fx : fixes) (e : env) (c : cfg) : Prop :=
  fx_drm fx = true /\ (c_drm c = "" \/ is_eccp (c_drm c) = true \/ e_drm e = true).

Lemma encrypt_frags_safe fx e c r : drm_ok fx e c -> hm_bad (encrypt_frags fx e c r) = false.
Proof.
  intros [F D]. unfold encrypt_frags. rewrite F.
  destruct (String.eqb (c_drm c) "") eqn:E; [reflexivity|].
  destruct (negb (r_enc r)); [reflexivity|].
  destruct (is_eccp (c_drm c)) eqn:EC; [reflexivity|].
  destruct (e_drm e) eqn:ED; [reflexivity|].
  destruct D as [D|[D|D]]; try discriminate. rewrite D in E. discriminate.
Qed.

Lemma match_init_safe fx e c reps sp r : drm_ok fx e c -> match_init e c reps sp = Some r -> is_bad r = false.
Proof.
  intros [F D]. induction reps as [|x t IH]; cbn [match_init]; [discriminate|].
  destruct (String.eqb sp (r_init x)); [|auto].
  intro H; inversion H; subst; clear H.
  destruct (negb (r_enc x)); [reflexivity|].
  destruct (String.eqb (c_drm c) "") eqn:E; [reflexivity|].
  destruct (is_eccp (c_drm c)) eqn:EC; [reflexivity|].
  destruct (e_drm e) eqn:ED; [reflexivity|].
  destruct D as [D|[D|D]]; try discriminate. rewrite D in E. discriminate.
Qed.

(** generated subtitles *)
Definition cue_ok (c : cfg) : Prop :=
  0 < f_to_int (f_ceil (PrimFloat.mul (f_of_int (c_subsDurMS c)) f_milli)) < 9000000000000000.

Lemma get_ref_seg_meta_safe fx a c n now :
  fx_subs_startnr fx = true -> wf_asset a -> c_tsbd c <> None -> snr_ok c ->
  hm_bad (get_ref_seg_meta fx a c n now) = false.
Proof.
  intros F W TS S. unfold get_ref_seg_meta. rewrite F.
  destruct (c_segTimeline c); [apply seg_meta_from_time_safe; auto using wa_ref|].
  cbn [andb]. destruct (_ || _) eqn:G; [reflexivity|].
  apply orb_false_iff in G. destruct G as [_ G].
  apply seg_meta_from_nr_safe; [exact (proj1 (wa_ref a W))|auto|].
  apply number_above_start; auto using u32_range.
Qed.

Lemma time_subs_media_safe fx a c sp now r :
  fx_subs_startnr fx = true -> wf_asset a -> c_tsbd c <> None -> snr_ok c -> cue_ok c ->
  time_subs_media fx a c sp now = Some r -> is_bad r = false.
Proof.
  intros F W TS S Q. unfold time_subs_media.
  match goal with |- match ?p with _ => _ end = _ -> _ => destruct p as [[[lang sg] langs]|] end; [|discriminate].
  intro H; inversion H; subst; clear H.
  destruct (negb (existsb _ langs)); [reflexivity|].
  destruct (cut "."%char sg) as [[nrStr ext]|]; [|reflexivity].
  destruct (negb (String.eqb ext "m4s")); [reflexivity|].
  destruct (atoi nrStr) as [n|]; [|reflexivity].
  match goal with |- is_bad (match ?m with _ => _ end) = false =>
    assert (B : hm_bad m = false); [|destruct m; [reflexivity|exact B]] end.
  apply hbind_safe; [apply get_ref_seg_meta_safe; auto|].
  intro m. apply calc_cue_itvls_safe. exact Q.
Qed.

(** writeSegment: segments written in one piece (no chunkdur_), no status-code patterns *)
Theorem write_segment_safe fx e a c sp now :
  wf_asset a -> c_tsbd c <> None -> snr_ok c -> drm_ok fx e c -> cue_ok c ->
  fx_subs_startnr fx = true -> c_complete c = true -> c_codes c = [] ->
  is_bad (write_segment fx e a c sp now) = false.
Proof.
  intros W TS S D Q F CC CD. unfold write_segment.
  destruct (time_subs_init c sp) as [[|]|]; [reflexivity|reflexivity|].
  destruct (match_init e c (a_reps a) sp) as [r|] eqn:MI; [eapply match_init_safe; eauto|].
  rewrite CD. cbn [Z.eqb negb]. rewrite CC.
  destruct (time_subs_media fx a c sp now) as [r|] eqn:TM; [eapply time_subs_media_safe; eauto|].
  pose proof (create_out_seg_safe fx a c sp now W TS S) as CO.
  destruct (create_out_seg fx a c sp now) as [[r m]|r]; [|exact CO].
  destruct (String.eqb (path_ext sp) ".jpg"); [reflexivity|].
  pose proof (encrypt_frags_safe fx e c r D) as EF.
  destruct (encrypt_frags fx e c r); [reflexivity|exact EF].
Qed.

(** * Composition: GET /livesim2 *)
Lemma verify_and_fill_keeps2 fx c now c1 :
  verify_and_fill fx c now = Ok c1 -> c_stopS c1 = c_stopS c /\ c_startS c1 = c_startS c.
Proof.
  unfold verify_and_fill.
  repeat match goal with |- context [if ?b then _ else _] => destruct b end;
    try discriminate; intro H; inversion H; subst; cbn; auto.
Qed.

Theorem parser_establishes2 fx path now c :
  process_url_cfg fx path now = Ok c ->
  (exists t, c_tsbd c = Some t /\ 0 <= t <= 172800) /\
  (fx_stop_order fx = true -> match c_stopS c with Some st => c_startS c <= st | None => True end).
Proof.
  intro P. pose proof (parser_establishes _ _ _ _ P) as (T & _).
  unfold process_url_cfg in P.
  destruct (cfg_loop fx _ 0 now _ None) as [[[c0 e] idx]| |] eqn:L; cbn [bind] in P; try discriminate.
  destruct e; [discriminate|]. destruct (idx =? -1); [discriminate|].
  destruct (verify_and_fill fx c0 now) as [c1| |] eqn:V; cbn [bind] in P; try discriminate.
  inversion P; subst; clear P. cbn in *.
  pose proof (verify_and_fill_keeps _ _ _ _ V) as (K1 & _).
  pose proof (verify_and_fill_keeps2 _ _ _ _ V) as (K5 & K6).
  rewrite K5, K6.
  unfold verify_and_fill in V.
  destruct (now <? 0); [discriminate|].
  destruct (fx_stop_order fx && _) eqn:GS; [discriminate|].
  destruct (fx_snr fx && _); [discriminate|].
  destruct (c_segTimelineNr c0 && c_segTimeline c0); [discriminate|].
  destruct (fx_subsdur fx && _); [discriminate|].
  destruct (_ || _); [discriminate|].
  destruct (match c_mup c0 with Some m => m <=? 0 | None => false end); [discriminate|].
  match type of V with context [if ?b then set_ltgt _ _ else _] => destruct b end;
  cbn [c_tsbd set_ltgt] in V;
  (match type of V with context [if ?b then Err "timeShiftBufferDepth" else _] => destruct b eqn:GT end; [discriminate|]);
  (split;
   [ rewrite K1 in T; destruct (c_tsbd c0) as [t|]; [|congruence]; exists t; rewrite K1; split; [reflexivity|];
     unfold max_tsbd in GT; lia
   | intro F; rewrite F in GS; cbn in GS; destruct (c_stopS c0); [lia|exact Logic.I] ]).
Qed.

Lemma find_asset_best_in l uri : forall best a,
  find_asset_best l uri best = Some a -> (In a l /\ asset_matches a uri = true) \/ best = Some a.
Proof.
  induction l as [|x t IH]; intros best a H; cbn [find_asset_best] in H; [auto|].
  destruct (asset_matches x uri) eqn:M.
  - destruct best as [b|].
    + destruct (_ <? _)%nat.
      * apply IH in H. destruct H as [[H1 H2]|H]; [left; split; [right|]; auto|].
        inversion H; subst. left. split; [left; reflexivity|auto].
      * apply IH in H. destruct H as [[H1 H2]|H]; [left; split; [right|]; auto|]. right; auto.
    + apply IH in H. destruct H as [[H1 H2]|H]; [left; split; [right|]; auto|].
      inversion H; subst. left. split; [left; reflexivity|auto].
  - apply IH in H. destruct H as [[H1 H2]|H]; auto. left. split; [right|]; auto.
Qed.

Lemma find_asset_in l uri a : find_asset l uri = Some a -> In a l /\ asset_matches a uri = true.
Proof. intro H. apply find_asset_best_in in H. destruct H as [H|H]; [auto|discriminate]. Qed.

Lemma drop_prefix_slash p : forall u, String.prefix (p +++ "/") u = true ->
  exists rest, drop_str (String.length p) u = String "/"%char rest.
Proof.
  induction p as [|a p IH]; intros u H.
  - unfold sapp in H. cbn [String.append String.length drop_str] in *. destruct u as [|b u]; [discriminate|].
    cbn [String.prefix] in H.
    destruct (Ascii.ascii_dec "/"%char b) as [<-|]; [eauto|discriminate].
  - destruct u as [|b u]; [discriminate|]. unfold sapp in *. cbn [String.append String.prefix] in H.
    destruct (Ascii.ascii_dec a b); [|discriminate]. cbn [String.length drop_str]. apply IH. exact H.
Qed.

(** What the request has to satisfy beyond what the parser establishes: segments in one piece, no
    status-code or traffic patterns (their composition is not done), a cue duration whose float
    ceiling is positive, no clock offset, no startrel_/stoprel_ (Location rewriting), times far from the int64 limits, and a content part that
    is not itself the path of an asset. *)
Definition G_live (e : env) (now : Z) (c : cfg) : Prop :=
  c_complete c = true /\ c_codes c = [] /\ c_traffic c = [] /\ cue_ok c /\ c_timeOffset c = None /\
  small (c_startS c * 1000) /\ small now /\
  match c_stopS c with Some st => small (st * 1000) | None => True end /\
  c_addLocation c = false /\
  (forall a, In a (e_assets e) -> join "/" (dropZ (c_contentIdx c) (c_parts c)) <> a_path a).

Theorem live_handler_total fx e path nowArg uq :
  fx_stoprel fx = true -> fx_annexI fx = true -> fx_periods fx = true -> fx_snr fx = true ->
  fx_drm fx = true -> fx_subs_startnr fx = true -> fx_stop_order fx = true ->
  Forall wf_asset (e_assets e) ->
  (forall now c, atoi nowArg = Some now -> process_url_cfg fx path now = Ok c -> G_live e now c) ->
  is_bad (live_handler fx e path nowArg uq) = false.
Proof.
  intros F1 F2 F3 F4 F5 F6 F7 WF G. unfold live_handler.
  destruct (atoi nowArg) as [now|] eqn:A; [|reflexivity].
  destruct (process_url_cfg fx path now) as [c|m|s] eqn:P; [|reflexivity|].
  2:{ exfalso. eapply parser_total_guarded; eauto. }
  specialize (G now c eq_refl P).
  destruct G as (GC & GD & GT & GQ & GO & GS & GN & GP & GL & GA).
  pose proof (parser_establishes _ _ _ _ P) as (T & _ & PP & _ & SN & N0).
  pose proof (parser_establishes2 _ _ _ _ P) as ((t & Tt & TR) & SO).
  specialize (PP F3). specialize (SN F4). specialize (SO F7).
  assert (S : snr_ok c).
  { unfold snr_ok, start_nr. destruct (c_startNr c); [exact SN|unfold maxu32; lia]. }
  rewrite GO.
  assert (IS : i64 (c_startS c * 1000) = c_startS c * 1000) by (apply i64_id; unfold small, two63 in *; lia).
  rewrite IS.
  destruct (now <? c_startS c * 1000) eqn:EARLY; [reflexivity|].
  destruct (find_asset (e_assets e) _) as [a|] eqn:FA; [|reflexivity].
  apply find_asset_in in FA. destruct FA as [IA MA].
  assert (W : wf_asset a) by (rewrite Forall_forall in WF; auto).
  rewrite F5. cbn [andb].
  destruct (negb (String.eqb (c_drm c) "") && negb (is_eccp (c_drm c)) && negb (e_drm e)) eqn:DR; [reflexivity|].
  assert (D : drm_ok fx e c).
  { split; [exact F5|]. destruct (String.eqb (c_drm c) "") eqn:E1; [left; apply String.eqb_eq; exact E1|].
    destruct (is_eccp (c_drm c)); [auto|]. destruct (e_drm e); [auto|discriminate]. }
  destruct (String.eqb (path_ext path) ".mpd").
  - destruct (negb (check_query (c_query c) uq)); [reflexivity|].
    eapply live_mpd_safe; eauto using wa_loop, wa_seg.
    + lia.
    + destruct (c_stopS c); [split; auto|exact I].
  - destruct (existsb _ media_exts); [|reflexivity].
    rewrite GC. rewrite andb_false_r. cbn [andb].
    unfold traffic_gate. rewrite GT.
    set (cp := join "/" (dropZ (c_contentIdx c) (c_parts c))) in *.
    unfold asset_matches in MA. apply orb_prop in MA. destruct MA as [MA|MA].
    { apply String.eqb_eq in MA. exfalso. exact (GA a IA MA). }
    destruct (drop_prefix_slash _ _ MA) as [rest ->].
    destruct (match c_query c with Some _ => _ | None => false end && _); [reflexivity|].
    apply write_segment_safe; auto.
Qed.

(** * The chunked writer: how long it can sleep *)
(** chunkSegment gives a last partial chunk the duration chunkDur: the last chunk becomes available
    less than one chunk duration after the end of the segment. *)
Lemma last_chunk_bound durT chunkDur : 0 < chunkDur -> 0 <= durT ->
  durT <= (durT + chunkDur - 1) / chunkDur * chunkDur < durT + chunkDur.
Proof.
  intros C D. pose proof (Z.div_mod (durT + chunkDur - 1) chunkDur ltac:(lia)).
  pose proof (Z.mod_pos_bound (durT + chunkDur - 1) chunkDur C). lia.
Qed.

(** With the guard of /repo 6ca1ef6 (0 <= ato < segment duration, in whole milliseconds: atoMS) the
    chunk duration is positive, and a request that CheckTimeValidity admits (the segment ends at most
    atoMS after now) sleeps less than the segment duration plus one chunk duration: in milliseconds,
    if endMS - nowMS <= atoMS and the last chunk comes less than chunkMS after endMS, then
    sleep < atoMS + chunkMS = segDurMS. *)
Lemma chunk_sleep_bounded segDurMS atoMS endMS nowMS lastMS :
  0 <= atoMS < segDurMS -> endMS - nowMS <= atoMS -> lastMS < endMS + (segDurMS - atoMS) ->
  lastMS - nowMS < segDurMS.
Proof. lia. Qed.
