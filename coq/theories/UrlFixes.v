(** C08 - which of the proposed repairs (/verif/proposed_fixes/C08-*.diff) the tree in /repo
    contains.  The models in UrlCfg.v / UrlHandler.v take a [fixes] record and contain both the
    behaviour as found and the repaired behaviour of every site; [current] says which one describes
    the tree the correspondence runs against.  AFTER A FIX COMMIT flip the corresponding field of
    [current] to [true] (nothing else changes: the correspondence then checks the repaired branch,
    C08_total_current loses the hypothesis of that site, and the C08_refuted_<site> theorem keeps
    compiling with its premise [field current = false] now false). *)
From Coq Require Import Bool.

Record fixes := {
  fx_stoprel : bool;        (* C08-stoprel.diff *)
  fx_annexI : bool;         (* C08-annexI.diff *)
  fx_loss : bool;           (* C08-traffic-empty.diff *)
  fx_periods : bool;        (* C08-periods.diff *)
  fx_subsdur : bool;        (* C08-timesubsdur.diff *)
  fx_snr : bool;            (* C08-snr-range.diff *)
  fx_traffic_idx : bool;    (* C08-traffic-index.diff *)
  fx_chunkdur : bool;       (* C08-chunkdur.diff: chunked mode needs 0 <= ato < segment duration, else 400 (NOT applied) *)
  fx_chunk_cap : bool;      (* /repo 1ce6842: chunkSegment computes its capacity hint only for chunkDur > 0 (no division by a URL value any more) *)
  fx_subs_startnr : bool;   (* C08-timesubs-startnr.diff *)
  fx_status_startnr : bool; (* C08-statuscode-startnr.diff *)
  fx_status_cycle : bool;   (* C08-statuscode-cycle.diff *)
  fx_drm : bool;            (* C08-drm-unknown.diff *)
  fx_kid : bool;            (* C08-laurl-kid.diff *)
  fx_urlgen_create : bool;  (* C08-urlgen-create.diff *)
  fx_urlgen_drms : bool;    (* C08-urlgen-drms.diff *)
  fx_nan : bool;            (* C08-nan.diff *)
  fx_segnr404 : bool;       (* C08-segment-number-404.diff *)
  fx_time404 : bool;        (* C08-time-404.diff *)
  fx_mpd_status : bool;     (* C08-mpd-status.diff *)
  fx_stop_order : bool;     (* C08-stop-before-start.diff *)
  fx_location : bool        (* C08-location-parts.diff *)
}.

(** The tree as it is now (the lead applied the repairs on 2026-10-01, see /verif/.work/fixes_note.md). *)
Definition current : fixes := {|
  fx_stoprel := true;          (* /repo 03244c2 *)
  fx_annexI := true;           (* /repo 34590b2 *)
  fx_loss := true;             (* /repo f528894 *)
  fx_periods := true;          (* /repo 9fbd9f7 *)
  fx_subsdur := true;          (* /repo 860f338 *)
  fx_snr := true;              (* /repo bed0ae2 *)
  fx_traffic_idx := true;      (* /repo b801303 *)
  fx_chunkdur := true;         (* /repo 6ca1ef6 *)
  fx_chunk_cap := true;        (* /repo 1ce6842 *)
  fx_subs_startnr := true;     (* /repo eaa7039 *)
  fx_status_startnr := true;   (* /repo c58c8e1 *)
  fx_status_cycle := true;     (* /repo 2c72d16 *)
  fx_drm := true;              (* /repo fb86caa *)
  fx_kid := true;              (* /repo 6239920 *)
  fx_urlgen_create := true;    (* /repo 4a5b51b *)
  fx_urlgen_drms := true;      (* /repo 44cd2ab *)
  fx_nan := true;     (* /repo d64e034 *)
  fx_segnr404 := true;     (* /repo d34e4da *)
  fx_time404 := true;     (* /repo 33c7128 *)
  fx_mpd_status := true;     (* /repo e7eedfb *)
  fx_stop_order := true;     (* /repo 1df8e52 *)
  fx_location := true          (* /repo 1ca804f *)
|}.

Definition all_fixed : fixes := {|
  fx_stoprel := true; fx_annexI := true; fx_loss := true; fx_periods := true; fx_subsdur := true;
  fx_snr := true; fx_traffic_idx := true; fx_chunkdur := true; fx_chunk_cap := true; fx_subs_startnr := true;
  fx_status_startnr := true; fx_status_cycle := true; fx_drm := true; fx_kid := true;
  fx_urlgen_create := true; fx_urlgen_drms := true; fx_nan := true; fx_segnr404 := true; fx_time404 := true;
  fx_mpd_status := true; fx_stop_order := true; fx_location := true |}.

Definition none_fixed : fixes := {|
  fx_stoprel := false; fx_annexI := false; fx_loss := false; fx_periods := false; fx_subsdur := false;
  fx_snr := false; fx_traffic_idx := false; fx_chunkdur := false; fx_chunk_cap := false; fx_subs_startnr := false;
  fx_status_startnr := false; fx_status_cycle := false; fx_drm := false; fx_kid := false;
  fx_urlgen_create := false; fx_urlgen_drms := false; fx_nan := false; fx_segnr404 := false; fx_time404 := false;
  fx_mpd_status := false; fx_stop_order := false; fx_location := false |}.

(** [current] plus the four status-class repairs proposed on 2026-10-01 (C08-nan, -segment-number-404,
    -time-404, -mpd-status) and C08-stop-before-start: what [current] becomes when they are applied. *)
Definition current_plus_status : fixes := {|
  fx_stoprel := fx_stoprel current; fx_annexI := fx_annexI current; fx_loss := fx_loss current;
  fx_periods := fx_periods current; fx_subsdur := fx_subsdur current; fx_snr := fx_snr current;
  fx_traffic_idx := fx_traffic_idx current; fx_chunkdur := fx_chunkdur current; fx_chunk_cap := fx_chunk_cap current;
  fx_subs_startnr := fx_subs_startnr current; fx_status_startnr := fx_status_startnr current;
  fx_status_cycle := fx_status_cycle current; fx_drm := fx_drm current; fx_kid := fx_kid current;
  fx_urlgen_create := fx_urlgen_create current; fx_urlgen_drms := fx_urlgen_drms current;
  fx_nan := true; fx_segnr404 := true; fx_time404 := true; fx_mpd_status := true; fx_stop_order := true;
  fx_location := fx_location current |}.
